local log = {}
local function L(...) local t = table.pack(...); for i=1,t.n do t[i]=tostring(t[i]) end; log[#log+1] = table.concat(t, " ") end
local function flush(title) print(title .. ": " .. table.concat(log, " | ")); log = {} end
local function mk(name, raise)
  return setmetatable({}, {__close = function(_, e) L("close", name, tostring(e)); if raise then error(raise, 0) end end})
end
-- 1 normal block exit, reverse order
do local a <close> = mk("a"); local b <close> = mk("b"); L("body") end
flush("block")
-- 2 break
for i = 1, 2 do local a <close> = mk("a"..i); if i == 1 then L("brk"); break end end
flush("break")
-- 3 goto continue
for i = 1, 2 do local a <close> = mk("a"..i); goto cont; ::cont:: end
flush("goto-same")
for i = 1, 2 do do local a <close> = mk("a"..i); goto cont end ::cont:: L("after", i) end
flush("goto-out")
-- 4 return with values
local function f() local a <close> = mk("a"); local b <close> = mk("b"); return (function() L("ret-eval"); return 1, 2 end)() end
L("got", f())
flush("return")
-- 5 error
L(pcall(function() local a <close> = mk("a"); local b <close> = mk("b"); error("boom", 0) end))
flush("error")
-- 6 error in close replaces
L(pcall(function() local a <close> = mk("a"); local b <close> = mk("b", "berr"); error("boom", 0) end))
flush("error-replace")
L(pcall(function() local a <close> = mk("a", "aerr"); local b <close> = mk("b", "berr"); return 1 end))
flush("close-error-normal")
-- 7 nil / false allowed; others error
L(pcall(function() local a <close> = nil; local b <close> = false; return "ok" end))
L(pcall(function() local a <close> = 42 end))
L(pcall(function() local a <close> = {} end))
flush("non-closable")
-- 8 coroutine.close
local co = coroutine.create(function() local a <close> = mk("a"); local b <close> = mk("b"); coroutine.yield(1); L("not reached") end)
L(coroutine.resume(co)); L(coroutine.close(co)); L(coroutine.status(co))
flush("co-close")
local co = coroutine.create(function() local a <close> = mk("a", "aerr"); coroutine.yield(1) end)
L(coroutine.resume(co)); L(coroutine.close(co)); L(coroutine.status(co)); L(coroutine.close(co))
flush("co-close-err")
-- 9 tail call disabled
local function g() L("in g"); return 7 end
local function h() local a <close> = mk("a"); return g() end
L(h())
flush("tailcall")
-- 10 generic for closing value
local function iter() return function(_, i) if i < 2 then return i + 1 end end, nil, 0, mk("forclose") end
for i in iter() do L("it", i) end
flush("for-in")
for i in iter() do L("it", i); break end
flush("for-in-break")
-- 11 nested function return through multiple scopes
local function k() do local a <close> = mk("a"); do local b <close> = mk("b"); return "r" end end end
L(k())
flush("nested-return")
-- 12 while loop per-iteration
local i = 0
while i < 2 do i = i + 1; local a <close> = mk("w"..i) end
flush("while")
repeat local a <close> = mk("rep"); local done = true until done
flush("repeat")
-- 13 error in coroutine body with tbc
local co = coroutine.wrap(function() local a <close> = mk("a"); error("cerr", 0) end)
L(pcall(co))
flush("co-error")
-- 14 yield inside close handler on normal exit
local co = coroutine.create(function()
  local a <close> = setmetatable({}, {__close=function() L("closing-yield"); coroutine.yield("fromclose"); L("resumed-in-close") end})
  return "done"
end)
L(coroutine.resume(co)); L(coroutine.resume(co)); 
flush("yield-in-close")
