local function measure(f)
  local ctx = runtime.callcontext({kill={cpu=100000000}}, f)
  return ctx.used.cpu, ctx.status
end
local function probe(name, f)
  local u, st = measure(f)
  local u2 = measure(f)
  local res = {}
  for _, L in ipairs{u-2, u-1, u, u+1, u+2} do
    local ctx = runtime.callcontext({kill={cpu=L}}, f)
    res[#res+1] = L .. ":" .. ctx.status .. ":" .. tostring(ctx.used.cpu)
  end
  print(name, "u=", u, u2, st, table.concat(res, " "))
end
probe("loop", function() local s = 0; for i = 1, 100 do s = s + i end; return s end)
probe("pcall", function() for i = 1, 10 do pcall(function() local t = {} ; t.x = i end) end end)
probe("pcall-err", function() for i = 1, 10 do pcall(error, "x") end end)
probe("coroutine", function() local co = coroutine.wrap(function() for i = 1, 10 do coroutine.yield(i) end end); for i = 1, 10 do co() end end)
probe("strings", function() local s = ""; for i = 1, 20 do s = s .. "x" end; return s:rep(10):upper():find("X", 1, true) end)
probe("sort", function() local t = {}; for i = 1, 50 do t[i] = (i * 7) % 13 end; table.sort(t) end)
probe("gsub", function() return ("hello world"):gsub("o", "0") end)
probe("tbc", function() for i = 1, 5 do local x <close> = setmetatable({}, {__close=function() end}) end end)
probe("nested", function() runtime.callcontext({kill={cpu=5000}}, function() for i = 1, 50 do end end) end)
probe("load", function() return load("return 1 + 1")() end)
probe("meta", function() local t = setmetatable({}, {__index=function(t,k) return k end, __add=function(a,b) return 1 end}); return t.x, t + t end)
probe("xpcall", function() return xpcall(function() error("x") end, function(m) return m end) end)
probe("concat", function() local t = {}; for i = 1, 30 do t[i] = tostring(i) end; return table.concat(t, ",") end)
-- uninterceptable
local events = {}
local ctx = runtime.callcontext({kill={cpu=500}}, function()
  while true do
    pcall(function() while true do events[#events+1] = "in" end end)
    events[#events+1] = "after-pcall"
  end
end)
local after = 0
for _, e in ipairs(events) do if e == "after-pcall" then after = after + 1 end end
print(ctx.status, ctx.used.cpu, #events, "after-pcall events:", after)
local events = {}
local ctx = runtime.callcontext({kill={cpu=500}}, function()
  local co = coroutine.wrap(function() local x <close> = setmetatable({}, {__close=function() events[#events+1] = "close-ran" end}); while true do end end)
  xpcall(co, function() events[#events+1] = "handler-ran" end)
  events[#events+1] = "after"
end)
print(ctx.status, ctx.used.cpu, table.concat(events, ","))
