local function P(...) local t = table.pack(...); for i=1,t.n do t[i]=tostring(t[i]) end; print(table.concat(t, " | ")) end
local mx, mn = math.maxinteger, math.mininteger
P(("hello"):sub(2, 3), ("hello"):sub(-3), ("hello"):sub(0), ("hello"):sub(10), ("hello"):sub(-100, 2), ("hello"):sub(3, 2), ("hello"):sub(mn, mx), ("hello"):sub(mx, mn), ("hello"):sub(2, mx), ("hello"):sub(mn, -2))
P(("hello"):byte(), ("hello"):byte(2), ("hello"):byte(-1), ("hello"):byte(10), ("hello"):byte(0))
P(("hello"):byte(1, -1)); P(("hello"):byte(mn, mx)); P(("hello"):byte(3, 2)); P(("hello"):byte(-2, 10))
P(string.char(), string.char(104, 105), pcall(string.char, 256), pcall(string.char, -1), pcall(string.char, 1.5))
P(("ab"):rep(3), ("ab"):rep(3, ","), ("ab"):rep(0), ("ab"):rep(1, ","), (""):rep(mx), pcall(string.rep, "ab", mx))
P(("abc"):reverse(), (""):reverse(), ("aBc1"):upper(), ("aBc1"):lower(), ("abc"):len(), #"a\0b")
P(("hello"):find("l", 1, true), ("hello"):find("l", 4, true), ("hello"):find("l", 5, true), ("hello"):find("xyz", 1, true), ("hello"):find("", 100, true), ("a.b"):find(".", 2, true))
-- table functions
local function T(t) local o = {}; for i = 1, #t do o[i] = tostring(t[i]) end; return "{" .. table.concat(o, ",") .. "}" end
local t = {1,2,3}; table.insert(t, 4); table.insert(t, 1, 0); P(T(t)); P(pcall(table.insert, t, 10, 5), pcall(table.insert, t, 0, 5), pcall(table.insert, t, 1, 2, 3), pcall(table.insert, t)); table.insert(t, #t+1, 9); P(T(t))
local t = {1,2,3}; P(table.remove(t), T(t), table.remove(t, 1), T(t), table.remove({}), table.remove({}, 0), pcall(table.remove, {1,2,3}, 7), table.remove({1,2,3}, 4), pcall(table.remove, {1,2,3}, 5), pcall(table.remove, {}, -1))
P(T(table.move({1,2,3}, 1, 3, 2)), T(table.move({1,2,3}, 2, 3, 1)), T(table.move({1,2,3}, 1, 3, 1, {})), T(table.move({1,2,3}, 1, 0, 5)), pcall(table.move, {1,2,3}, 1, mx, 2), pcall(table.move, {}, mn, mx, 1), pcall(table.move, {}, 1, 2, mx))
P(table.concat({1,2,3}), table.concat({1,2,3}, ","), table.concat({1,2,3}, ",", 2), table.concat({1,2,3}, ",", 2, 3), table.concat({}, ","), table.concat({1,2,3}, ",", 3, 2), pcall(table.concat, {1,{},3}), pcall(table.concat, {1,2,3}, ",", 1, 5), table.concat({1,2.5,"x"}, "-"))
P(table.unpack({1,2,3})); P(table.unpack({1,2,3}, 2)); P(table.unpack({1,2,3}, 2, 5)); P(table.unpack({}, 1, 0)); P(pcall(table.unpack, {}, 1, 1e8)); P(pcall(table.unpack, {}, mn, mx)); P(table.unpack({1,2}, mx, mx)); P(pcall(table.unpack, {}, mx-1, mx))
local p = table.pack(1, nil, 3); P(p.n, p[1], p[2], p[3]); P(table.pack().n)
local t = {5,2,8,1,9,3}; table.sort(t); P(T(t)); table.sort(t, function(a,b) return a > b end); P(T(t))
local t = {3,1,2}; P(pcall(table.sort, t, function(a,b) return true end)); table.sort(t); P(T(t))
local t = {}; for i = 1, 100 do t[i] = (i * 37) % 101 end; P(pcall(table.sort, t, function(a, b) return (a + b) % 3 == 0 end)); local s = 0; for i = 1, 100 do s = s + t[i] end; P(#t, s)
P(pcall(table.sort, {1,"x",2}))
local t = {"b","a","c"}; table.sort(t); P(T(t))
-- with metamethods
local log = {}
local prox = setmetatable({}, {__index=function(_, k) log[#log+1] = "get"..tostring(k); return ({10,20,30})[k] end, __newindex=function(_, k, v) log[#log+1] = "set"..tostring(k).."="..tostring(v) end, __len=function() return 3 end})
P(table.concat(prox, ","), table.unpack(prox)); table.insert(prox, 40); P(table.remove(prox)); P(table.concat(log, " "))
P(select('#', table.unpack({}, 1, 3)), select(-1, 1, 2, 3), pcall(select, 0), select(2, "a", "b", "c"), pcall(select, -5, 1), select('#'), select('#', nil, nil))
P(#"", rawlen({1,2}), rawlen("abc"), pcall(rawlen, 5), rawequal("a", "a"), rawequal({}, {}), rawequal(1, 1.0), rawget({5}, 1), rawget({5}, 1.0))
P(next({}), next({10}), next({10}, 1), type(next), ipairs({}))
P(math.type(1), math.type(1.0), math.type("1"), math.floor(-3.5), math.ceil(-3.5), math.floor(2^62), math.floor(1e100), math.ceil(-1e100), math.max(1, 2.5), math.min(3), pcall(math.max), math.abs(mn), math.ult(-1, 1), math.tointeger(3.0), math.tointeger("3"), math.tointeger(3.5), math.sqrt(4), math.huge, -math.huge, math.pi)
P(8 // 3, 8.0 // 3, -8 // 3, 8 % -3, -8 % 3, 8 % 3.5, 2^0.5, 7 / 2, 3 | 4, 7 & 2, 5 ~ 1, ~0, 1 << 62, 1 << 63, 1 << 64, -1 >> 63, 2^63 == mx + 1.0, mx + 1 == mn, mx * 2, mn - 1 == mx, 5 // 0.0, -5 // 0.0, 0/0 ~= 0/0, 3 % math.huge, -3 % math.huge, 3 % -math.huge, 3.0 % -math.huge)
P(1 < 1.5, 1 <= 1.0, mx < mx + 0.0, mx + 0.0 == 2^63, mx == mx + 0.0, mn == mn + 0.0, mn <= -2^63, 2^53 == 2^53 + 1, (2^53|0) + 1 == 2^53 + 1, "a" < "b", "a" < "B", "" < "a", "abc" < "abd", "Z" < "a", "a\0b" < "a\0c", pcall(function() return 1 < "2" end))
