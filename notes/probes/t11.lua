local function P(...) local t = table.pack(...); for i=1,t.n do t[i]=tostring(t[i]) end; print(table.concat(t, " | ")) end
-- dump/load
local function f(a, ...) local t = {...}; local function g(x) return x * 2 + #t end; return g(a), 1.5, "str", true, nil, 9007199254740993, select('#', ...) end
local d = string.dump(f)
local f2 = load(d, "f2", "b")
P(f(3, 4, 5)); P(f2(3, 4, 5))
P(string.dump(f2) == d, #d)
P(pcall(load, d, "f2", "t"))
local up = 10
local function h() return up end
local h2 = load(string.dump(h)); P(pcall(h2))
P(pcall(string.dump, print))
P(pcall(load(string.dump(function() error("in dumped") end))))
P(load(d:sub(1, #d - 3), "trunc", "b"))
P(load(d:sub(1, 10), "trunc", "b"))
-- patterns
P(("hello world"):find("o w"), ("hello"):find("l+"), ("hello"):match("(h)(e)"), ("hello"):find("", 10), ("hello"):find("", 6))
P(("abc"):gsub("", "-"), ("abc"):gsub(".", {a=1, b=false}), ("hello world"):gsub("o", "0", 1))
P(("THE (quick) fox"):find("%((%a+)%)"), ("f(a(b)c)d"):match("%b()"), ("THE (quick) fox"):find("%f[%a]%a+", 5))
P(pcall(string.find, "a", "%"), pcall(string.find, "a", "[a"), pcall(string.find, "a", "(a"), pcall(string.find, "a", "%1"), pcall(string.rep, "a", "(()"))
P(("aaa"):match("a-b"), ("aaab"):match("a-b"), ("aXb"):match("a.-b"), ("x=1, y=2"):gsub("(%w+)=(%w+)", "%2=%1"))
P(pcall(string.gsub, "abc", "b", "%2"), ("abc"):gsub("b", "%%"), ("abc"):gsub("b", "%0%0"))
for k, v in string.gmatch("a=1, b=2", "(%w+)=(%w+)") do io.write(k, v, ";") end print()
for w in string.gmatch("abc", "") do io.write("[", w, "]") end print()
P(("  x  "):match("^%s*(.-)%s*$"), ("abc"):find("b", -1), ("abc"):find("b", -10), ("a.b"):find(".", 1, true), ("a+b"):find("+", 1, true))
P(("\0a\0"):find("%z"), ("a\0b"):find("\0"), ("abc"):match("()b()"), ("abc"):match("[^a-b]+"), ("a-b"):match("[a%-]+"), ("]"):match("[]]"), ("^"):match("[%^]"), ("a^"):match("[a^]+"))
-- pack
P(string.pack("<i4", -2):byte(1, -1))
P(string.unpack("<i4", string.pack("<i4", -2)))
P(pcall(string.pack, "i1", 200), pcall(string.pack, "I1", -1), pcall(string.pack, "i17", 1), string.packsize("<i4i8"), string.packsize("!<i4i8"), pcall(string.packsize, "s"))
P(string.unpack("z", "abc\0def"), string.unpack("s1", "\3abcd"), string.unpack(">I2", "\1\2"), string.unpack("<i16", string.pack("<i16", -3)))
P(string.unpack("<d", string.pack("<d", -0.0)), string.unpack("<f", string.pack("<f", 0.1)), string.unpack("<n", string.pack("<n", 1/0)), string.unpack("<j", string.pack("<j", math.mininteger)))
P(pcall(string.unpack, "<I16", ("\255"):rep(16)), string.unpack("<I16", ("\255"):rep(8) .. ("\0"):rep(8)), pcall(string.unpack, "i4", "abc"))
P(string.format("%q", 1/0), string.format("%q", -1/0), string.format("%q", 0/0), string.format("%q", math.mininteger), string.format("%q", 0.1), string.format("%q", "a\nb\0c\"\\\r\2001"))
P(string.format("%5d|%-5d|%05d|%+d|%x|%X|%o|%c|%s|%10.3s|%%|%i", 42, 42, 42, 42, 255, 255, 8, 65, "str", "abcdef", 7))
P(string.format("%5.2f|%e|%g|%a", 3.14159, 1234.5, 0.0001, 1.0))
P(pcall(string.format, "%d", 1.5), string.format("%d", 3.0), pcall(string.format, "%d", "x"), string.format("%s", nil), string.format("%s %s", 1, 2.5), pcall(string.format, "%y", 1), pcall(string.format, "%d"))
P(string.format("%.3q", "x") )
