-- nested contexts: child consumption pushes parent over its limit at pop time
local outer = runtime.callcontext({kill={cpu=1000}}, function()
  local octx = runtime.context()
  print("outer start", octx.used.cpu, octx.kill.cpu)
  local inner = runtime.callcontext({kill={cpu=990}}, function()
    local ictx = runtime.context()
    print("inner limits", ictx.kill.cpu)
    while true do end
  end)
  print("after inner", inner.status, inner.used.cpu, octx.used.cpu)
  return "outer-finished"
end)
print(outer.status, outer.used.cpu)
print("root after", runtime.context().status, runtime.context().kill.cpu)
-- depth 3
local a = runtime.callcontext({kill={cpu=2000}}, function()
  local b = runtime.callcontext({kill={cpu=1500}}, function()
    local c = runtime.callcontext({kill={cpu=1490}}, function() while true do end end)
    print("c", c.status, c.used.cpu, "b-ctx", runtime.context().status, runtime.context().used.cpu)
    while true do end
  end)
  print("b", b.status, b.used.cpu, "a-ctx", runtime.context().used.cpu, runtime.context().kill.cpu)
  return 1
end)
print("a", a.status, a.used.cpu)
print("root", runtime.context().status, runtime.context().kill.cpu, runtime.context().used.cpu)
-- soft limits / due
local s = runtime.callcontext({stop={cpu=100}, kill={cpu=1000}}, function()
  local ctx = runtime.context()
  local n = 0
  while not ctx.due do n = n + 1 end
  print("due at", ctx.used.cpu, ctx.stop.cpu, ctx.kill.cpu)
  local sub = runtime.callcontext({stop={cpu=5000}}, function() local c = runtime.context(); return c.stop.cpu, c.kill.cpu, c.due end)
  print("sub", sub, select(2, runtime.callcontext({stop={cpu=5000}}, function() local c = runtime.context(); return tostring(c.stop.cpu) .. "/" .. tostring(c.kill.cpu) .. "/" .. tostring(c.due) end)))
end)
print(s.status, s.due)
-- flags inheritance
print(runtime.callcontext({flags="iosafe"}, function() return runtime.callcontext({flags="cpusafe"}, function() return runtime.context().flags end) end))
print(runtime.callcontext({kill={memory=100000}}, function() return runtime.context().flags, runtime.callcontext({}, function() return runtime.context().flags, runtime.context().kill.memory end) end))
-- killnow on finished ctx / parent
local c = runtime.callcontext({}, function() return 1 end)
print(pcall(c.killnow, c), c.status)
print(runtime.callcontext({kill={cpu=1000}}, function() local p = runtime.context(); runtime.callcontext({}, function() p:killnow() ; print("still running in child after killing parent?") end); print("parent continues?") end))
