-- gc / finalizer probes
local log = {}
local function mk(id) return setmetatable({id=id}, {__gc=function(o) log[#log+1] = o.id end}) end
local keep = mk("keep")
do local a = mk("a"); local b = mk("b"); local c = mk("c") end
collectgarbage(); collectgarbage(); collectgarbage()
print("after collect:", table.concat(log, ","))
-- resurrect
local saved
do local r = setmetatable({id="r"}, {__gc=function(o) log[#log+1] = "r"; saved = o end}) end
collectgarbage(); collectgarbage()
print("resurrected:", saved and saved.id, table.concat(log, ","))
saved = nil
collectgarbage(); collectgarbage()
print("after drop resurrected:", table.concat(log, ","))
-- re-mark in finalizer
do local m = setmetatable({id="m"}, {__gc=function(o) log[#log+1] = "m1"; setmetatable(o, {__gc=function() log[#log+1] = "m2" end}) end}) end
collectgarbage(); collectgarbage(); collectgarbage()
print("remark:", table.concat(log, ","))
-- context
local ctx = runtime.callcontext({kill={cpu=100000}}, function()
  local x = mk("ctx-x"); local y = mk("ctx-y")
  return 1
end)
print("after ctx:", ctx.status, table.concat(log, ","))
local ctx = runtime.callcontext({kill={cpu=1000}}, function()
  local x = mk("k-x")
  while true do end
end)
print("after killed ctx:", ctx.status, table.concat(log, ","))
collectgarbage(); collectgarbage()
print("later:", table.concat(log, ","))
-- error in gc
do local e = setmetatable({}, {__gc=function() error("gc-err") end}) end
collectgarbage(); collectgarbage()
print("done")
