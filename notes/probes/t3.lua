local t = setmetatable({}, {__newindex=function(t,k,v) print("newindex called", k, math.type(k)) end})
rawset(t, 10, "a")
t[10.0] = "b"
print(rawget(t, 10))
local t = setmetatable({}, {__newindex=function(t,k,v) print("newindex called", k, math.type(k)) end})
rawset(t, 1, "a")
t[1.0] = "b"
print(rawget(t, 1))
