local function loop(a,b,c, cap)
  local out = {}
  local n = 0
  local ok, err = pcall(function()
    for i = a, b, c do
      n = n + 1
      out[#out+1] = tostring(i) .. ":" .. math.type(i)
      if n >= (cap or 6) then break end
    end
  end)
  print(a, b, c, "=>", ok and table.concat(out, " ") or err)
end
local mx, mn = math.maxinteger, math.mininteger
loop(mx-2, mx, 1)
loop(mx-1, mx, 2)
loop(mn+2, mn, -1)
loop(mn+1, mn, -2)
loop(1, 3.5, 1)
loop(1.0, 3, 1)
loop(1, 3, 1.0)
loop(1, math.huge, 1, 3)
loop(1, -math.huge, 1, 3)
loop(1, 0/0, 1, 3)
loop(mx-1, 1e100, 1)
loop(mn+1, -1e100, -1)
loop(1, 2^63, mx, 5)
loop(mn, mx, mx, 5)
loop(mx, mn, mn, 5)
loop(0, 0, mn, 5)
loop(1, 3, 0)
loop(1.0, 3, 0)
loop("1", 3, 1)
loop(1, "3", 1)
loop(1, 3, "1")
loop("a", 3, 1)
loop(1, {}, 1)
loop(0.1, 0.35, 0.1)
loop(1, 0, 1)
loop(3, 1, -1)
loop(1, 3)
loop(-3, -1, 1.5)
loop(2^53, 2^53+3, 1)
loop(mx, mx+0.0, 1)
loop(mx - 1, mx + 0.0, 1)
loop(1, 2.9999999, 1)
loop(3, 2.5, -1, 5)
loop(1, 3, mn)
loop(mn, mn, mn)
loop(mx, mx, mx)
loop(-1, -3, mn)
-- modifying loop var
local s = {}
for i = 1, 3 do s[#s+1] = i; i = i * 10; s[#s+1] = i end
print(table.concat(s, ","))
-- closures capture fresh var
local fs = {}
for i = 1, 3 do fs[i] = function() i = i + 1; return i end end
print(fs[1](), fs[1](), fs[2](), fs[3]())
-- evaluate once
local cnt = 0
local function e(v) cnt = cnt + 1; return v end
for i = e(1), e(3), e(1) do end
print(cnt)
