#!/bin/bash
# The only entry point of the checks.
#   run.sh <Cxx> <quick|thorough> [--replay <path>] [-only-stage <name>] [-keep]
# Rebuilds the check's binary from /verif/harness against /repo's current
# working tree (go.mod: replace github.com/arnodel/golua => /repo) with the
# verif hooks enabled, then runs the parent, which builds any further variants
# (-race, -asan, other tag sets) it needs and spawns the child processes.
# Exit: 0 held on everything explored, 1 violation (VIOLATION line printed),
# 2 the check itself is broken (build failure, evidence floor not met).
set -u
cd "$(dirname "$(readlink -f "$0")")" || exit 2
export VERIF_ROOT="$(pwd)"
export GOFLAGS=-mod=mod GOPROXY=off GOSUMDB=off GOTOOLCHAIN=local
if [ $# -lt 1 ]; then echo "usage: $0 <Cxx> <quick|thorough> [flags]"; exit 2; fi
id="$1"; tier="${2:-quick}"
shift; [ $# -gt 0 ] && shift
lid="$(echo "$id" | tr 'A-Z' 'a-z')"
mkdir -p bin work evidence
if [ ! -d "harness/cmd/$lid" ]; then echo "BROKEN property=$id no such check"; exit 2; fi
( cd harness && go build -tags verif -ldflags=-checklinkname=0 -o "../bin/$lid-plain.tmp" "./cmd/$lid" && mv "../bin/$lid-plain.tmp" "../bin/$lid-plain" ) \
  || { echo "BROKEN property=$id build of the check against /repo failed"; exit 2; }
export VERIF_PLAIN_BUILT=1
exec "bin/$lid-plain" -tier "$tier" "$@"
