#!/bin/bash
# run_against.sh <golua-tree> <Cxx> <quick|thorough> [flags…]
# Runs a check against ANOTHER copy of arnodel/golua (a scratch worktree with a
# mutation applied) without touching /repo or /verif: copies the harness to a
# private VERIF_ROOT, points its `replace` at <golua-tree>, builds and runs the
# check there, prints its output and removes the private root again.
# Evidence / replay files of that run are discarded (kept with KEEP=1; the
# root's path is printed).  Exit status = the check's.
set -u
tree="$(readlink -f "$1")"; id="$2"; tier="${3:-quick}"; shift 3 || shift $#
src="$(dirname "$(dirname "$(readlink -f "$0")")")"
export GOFLAGS=-mod=mod GOPROXY=off GOSUMDB=off GOTOOLCHAIN=local
root="$(mktemp -d /var/tmp/vr-${id}-XXXXXX)"
mkdir -p "$root/bin" "$root/work" "$root/evidence"
cp -r "$src/harness" "$root/harness"
cp "$src/known_findings.json" "$root/"
[ -d "$src/corpus" ] && cp -r "$src/corpus" "$root/corpus"
sed -i "s#=> /repo\$#=> $tree#" "$root/harness/go.mod"
lid="$(echo "$id" | tr 'A-Z' 'a-z')"
export VERIF_ROOT="$root"
( cd "$root/harness" && go build -tags verif -ldflags=-checklinkname=0 -o "$root/bin/$lid-plain" "./cmd/$lid" ) || { echo "BROKEN build failed"; rm -rf "$root"; exit 2; }
export VERIF_PLAIN_BUILT=1
"$root/bin/$lid-plain" -tier "$tier" "$@"
rc=$?
if [ "${KEEP:-0}" = 1 ]; then echo "kept: $root"; else rm -rf "$root"; fi
exit $rc
