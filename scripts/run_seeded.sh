#!/bin/bash
# run_seeded.sh <seeded-dir> <check-id>… — applies seeded/<dir>/patch.diff to a scratch worktree of
# /repo HEAD, runs the named checks (quick tier) against it with run_against.sh, records one line
# per check in seeded/<dir>/results.txt and removes the worktree.  /repo itself is never touched.
set -u
here="$(dirname "$(dirname "$(readlink -f "$0")")")"
d="$1"; shift
sd="$here/seeded/$d"
wt="/tmp/seeded-wt-$d"
git -C /repo worktree remove --force "$wt" 2>/dev/null
git -C /repo worktree add -q "$wt" HEAD || exit 2
if ! git -C "$wt" apply "$sd/patch.diff"; then echo "$d: patch does not apply to HEAD"; git -C /repo worktree remove --force "$wt"; exit 2; fi
for id in "$@"; do
  log="/var/tmp/seeded-$d-$id.log"
  t0=$(date +%s)
  VERIF_SEED="${VERIF_SEED:-1}" "$here/scripts/run_against.sh" "$wt" "$id" quick -no-evidence > "$log" 2>&1
  rc=$?
  t1=$(date +%s)
  nv=$(grep -c '^VIOLATION' "$log")
  first=$(grep -A1 '^VIOLATION' "$log" | sed -n 2p | cut -c1-200)
  verdict="MISSED"; [ "$rc" = 1 ] && [ "$nv" -gt 0 ] && verdict="CAUGHT"; [ "$rc" = 2 ] && verdict="BROKEN"
  line="$(date -u +%FT%TZ) $d check=$id seed=${VERIF_SEED:-1} rc=$rc violations=$nv $verdict $((t1-t0))s :: $first"
  echo "$line" | tee -a "$sd/results.txt"
done
git -C /repo worktree remove --force "$wt"
