#!/usr/bin/env python3
"""Builds seeded/RESULTS.md from seeded/<id>/meta.json and results.txt (latest line per check)."""
import json, os, re, glob
root = os.path.dirname(os.path.dirname(os.path.abspath(__file__)))
rows = []
for d in sorted(glob.glob(os.path.join(root, 'seeded', '*'))):
    if not os.path.isdir(d): continue
    name = os.path.basename(d)
    meta = {}
    if os.path.exists(os.path.join(d, 'meta.json')):
        meta = json.load(open(os.path.join(d, 'meta.json')))
    res = {}
    hist = {}
    p = os.path.join(d, 'results.txt')
    if os.path.exists(p):
        for line in open(p):
            m = re.search(r'check=(C\d+) seed=(\d+) rc=(\d+) violations=(\d+) (\w+)', line)
            if m:
                res[m.group(1)] = m.group(5)
                hist.setdefault(m.group(1), []).append(m.group(5))
    rows.append((name, meta, res, hist))
out = ['# Seeded defects and which checks catch them', '',
       'Each defect was produced by a fresh agent that saw only the property text and a scratch worktree, confirmed here',
       '(demo fails with the patch, passes without; `confirm.txt`), then run against the checks with `scripts/run_seeded.sh`',
       '(quick tier, scratch worktree, /repo untouched). "first → now" shows the verdict before and after the check was strengthened.', '',
       '| seeded defect | property | what it changes | needs to manifest | verdicts (check: first → now) |', '|---|---|---|---|---|']
for name, meta, res, hist in rows:
    v = '; '.join('%s: %s' % (k, ' → '.join([h[0]] + ([h[-1]] if len(h) > 1 and h[-1] != h[0] else []))) for k, h in sorted(hist.items()))
    out.append('| %s | %s | %s | %s | %s |' % (name, meta.get('property', ''), meta.get('change', '').replace('|', '\\|'), meta.get('needs', '').replace('|', '\\|'), v))
open(os.path.join(root, 'seeded', 'RESULTS.md'), 'w').write('\n'.join(out) + '\n')
print('\n'.join(out[-len(rows):]))
