#!/bin/bash
# confirm_seeded.sh <seeded-dir> — builds the golua CLI from a clean scratch worktree and from one with
# the patch applied, runs seeded/<dir>/demo.lua with both and prints the two outputs (they must differ).
set -u
here="$(dirname "$(dirname "$(readlink -f "$0")")")"
d="$1"; sd="$here/seeded/$d"
export GOFLAGS=-mod=mod GOPROXY=off GOSUMDB=off GOTOOLCHAIN=local
for v in clean patched; do
  wt="/tmp/confirm-$d-$v"
  git -C /repo worktree remove --force "$wt" 2>/dev/null
  git -C /repo worktree add -q "$wt" HEAD || exit 2
  if [ $v = patched ]; then git -C "$wt" apply "$sd/patch.diff" || { echo "patch does not apply"; exit 2; }; fi
  ( cd "$wt" && go build -ldflags=-checklinkname=0 -o "/tmp/confirm-$d-$v.bin" . ) || { echo "build failed ($v)"; exit 2; }
  if [ -f "$sd/demo.lua" ]; then
    ( cd "$sd" && timeout 120 "/tmp/confirm-$d-$v.bin" demo.lua > "/tmp/confirm-$d-$v.out" 2>&1; echo "exit=$?" >> "/tmp/confirm-$d-$v.out" )
  fi
  if [ -f "$sd/demo_test.go" ]; then
    # a Go test demo: seeded/<dir>/demo_dir names the package directory it belongs in (default lib)
    dd=lib; [ -f "$sd/demo_dir" ] && dd="$(cat "$sd/demo_dir")"
    cp "$sd/demo_test.go" "$wt/$dd/zz_demo_test.go"
    ( cd "$wt" && timeout 900 go test -ldflags=-checklinkname=0 -vet=off -count=1 -run "^($(grep -o 'func Test[A-Za-z0-9_]*' "$sd/demo_test.go" | sed 's/func //' | paste -sd'|'))\$" "./$dd/" 2>&1 | grep -E "^(--- |ok|FAIL|PASS)" | sed -E 's/[0-9.]+s//g' > "/tmp/confirm-$d-$v.out"; echo "exit=${PIPESTATUS[0]}" >> "/tmp/confirm-$d-$v.out" )
  fi
  git -C /repo worktree remove --force "$wt"
  rm -f "/tmp/confirm-$d-$v.bin"
done
echo "--- clean"; head -30 /tmp/confirm-$d-clean.out; echo "--- patched"; head -30 /tmp/confirm-$d-patched.out
if [ ! -s /tmp/confirm-$d-clean.out ] || [ ! -s /tmp/confirm-$d-patched.out ]; then echo "RESULT: no demo output (demo not run)"; elif cmp -s /tmp/confirm-$d-clean.out /tmp/confirm-$d-patched.out; then echo "RESULT: outputs identical (demo does not discriminate)"; else echo "RESULT: outputs differ"; fi
rm -f /tmp/confirm-$d-clean.out /tmp/confirm-$d-patched.out
