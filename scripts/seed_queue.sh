#!/bin/bash
# seed_queue.sh — processes /var/tmp/seed-queue.txt line by line ("process|run <dir> <checks…>"), polling for new lines;
# stops when a line "stop" is read.
cd "$(dirname "$(readlink -f "$0")")/.." || exit 2
q=/var/tmp/seed-queue.txt; touch $q; n=0
while true; do
  total=$(wc -l < $q)
  if [ "$n" -lt "$total" ]; then
    n=$((n+1)); line=$(sed -n "${n}p" $q); set -- $line
    [ "$1" = stop ] && exit 0
    cmd=$1; shift
    if [ "$cmd" = process ]; then scripts/process_seeded.sh "$@"; else scripts/run_seeded.sh "$@"; fi
  else sleep 15; fi
done
