#!/bin/bash
# process_seeded.sh <dir> <check-id>… — copy a seeding agent's output into seeded/<dir>, confirm its demo, run checks.
here="$(dirname "$(dirname "$(readlink -f "$0")")")"
d="$1"; shift
mkdir -p "$here/seeded/$d"
for f in patch.diff demo.lua demo_test.go notes.md expected.txt actual.txt; do [ -f "/tmp/seeded-out/$d/$f" ] && cp "/tmp/seeded-out/$d/$f" "$here/seeded/$d/"; done
"$here/scripts/confirm_seeded.sh" "$d" > "$here/seeded/$d/confirm.txt" 2>&1
tail -1 "$here/seeded/$d/confirm.txt"
"$here/scripts/run_seeded.sh" "$d" "$@"
