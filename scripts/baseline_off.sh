#!/bin/bash
# Runs arnodel/golua's pinned baseline suite with the verif build tag OFF and
# checks every test listed as stable in /root/.vp/BASELINE.json passes.
# With --full also runs the whole repository suite linked with
# -ldflags=-checklinkname=0 (the packages that do not link under the pinned Go).
export GOFLAGS=-mod=mod GOPROXY=off GOSUMDB=off GOTOOLCHAIN=local
cd /repo || exit 2
out=$(mktemp /var/tmp/verif-baseline.XXXXXX)
go test -json -vet=off -count=1 -timeout 25m ./... > "$out" 2>/dev/null
python3 - "$out" <<'PY'
import json,sys
want=set(json.load(open('/root/.vp/BASELINE.json'))['stable_pass'])
got=set()
for l in open(sys.argv[1]):
    try: e=json.loads(l)
    except Exception: continue
    if e.get('Action')=='pass' and e.get('Test'):
        got.add(e['Package']+'::'+e['Test'])
missing=sorted(want-got)
print("baseline stable tests: %d wanted, %d passed, %d missing"%(len(want),len(want&got),len(missing)))
for m in missing[:20]: print("  MISSING",m)
sys.exit(1 if missing else 0)
PY
rc=$?
rm -f "$out"
if [ "$1" = "--full" ]; then
  go test -ldflags=-checklinkname=0 -vet=off -count=1 -timeout 25m ./... 2>&1 | grep -v '^ok\|no test files' 
fi
exit $rc
