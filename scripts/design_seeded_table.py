#!/usr/bin/env python3
"""Rewrites the table of DESIGN.md section 9.1 from seeded/<id>/{meta.json,results.txt}."""
import json, os, re, glob
here = os.path.dirname(os.path.dirname(os.path.abspath(__file__)))
rows = []
caught_first = caught_after = missed = 0
for d in sorted(glob.glob(os.path.join(here, "seeded", "C*"))):
    name = os.path.basename(d)
    try:
        meta = json.load(open(os.path.join(d, "meta.json")))
    except Exception:
        continue
    verdicts = {}
    order = []
    rp = os.path.join(d, "results.txt")
    if os.path.exists(rp):
        for line in open(rp):
            m = re.search(r"check=(C\d\d) .* (CAUGHT|MISSED|BROKEN) ", line)
            if not m or m.group(2) == "BROKEN":
                continue
            if m.group(1) not in verdicts:
                order.append(m.group(1))
            verdicts.setdefault(m.group(1), []).append(m.group(2))
    own = meta["property"]
    cells = []
    for chk in order:
        v = verdicts[chk]
        if v[0] == v[-1]:
            cells.append("%s: %s" % (chk, v[-1].lower()))
        else:
            cells.append("%s: %s → %s" % (chk, v[0].lower(), v[-1].lower()))
    if own in verdicts:
        v = verdicts[own]
        if v[0] == "CAUGHT":
            caught_first += 1
        elif v[-1] == "CAUGHT":
            caught_after += 1
        else:
            missed += 1
    conf = ""
    cp = os.path.join(d, "confirm.txt")
    if os.path.exists(cp):
        t = open(cp, errors="replace").read()
        conf = "yes" if "RESULT: outputs differ" in t else "no"
    note = (" — " + meta["note"]) if meta.get("note") else ""
    rows.append("| %s | %s | %s | %s%s |" % (name, meta["change"].replace("|", "\\|"), conf, "; ".join(cells), note))
head = ("%d seeded defects; by the check of their own property: %d caught at the first run, %d caught after the check was "
        "strengthened (first → now), %d still missed. \"confirmed\" = the demo differs between a clean and a patched build "
        "(`confirm.txt`). Cross-checks (other properties' checks run on the same defect) are listed too.\n\n"
        % (len(rows), caught_first, caught_after, missed))
table = head + "| defect | change | confirmed | verdicts (quick tier, seed 1) |\n|---|---|---|---|\n" + "\n".join(rows) + "\n"
p = os.path.join(here, "DESIGN.md")
s = open(p).read()
b, e = "<!-- seeded-table-begin -->", "<!-- seeded-table-end -->"
if b in s:
    s = s[:s.index(b) + len(b)] + "\n" + table + s[s.index(e):]
else:
    s = s.replace("SEEDED_TABLE_PLACEHOLDER", b + "\n" + table + e)
open(p, "w").write(s)
print(head)
