#!/usr/bin/env python3
"""Writes /verif/MANIFEST.json from the table below and validates it against
/root/.vp/MANIFEST.schema.json (when jsonschema is importable).  A property is
claimed only when harness/cmd/<id>/ exists AND it has an entry in CHECKS;
everything else goes to not_applicable with the reason given in PENDING."""
import json, os, subprocess, sys

ROOT = os.path.dirname(os.path.dirname(os.path.abspath(__file__)))

# id -> (technique, level text, level note, design ref)
CHECKS = {
 "C02": ("runtime monitor: pointwise comparison of golua's operators/conversions (compiled chunk and exported Go API) with an exact big-number reference model over an exhaustive boundary lattice + random operands + enumerated numerals; lattice repeated under the race detector/checkptr",
         "Held on every ordered pair of a ~80-value int/float/string boundary lattice for all operators and math functions, on PRNG operands near the boundaries and on every numeral string up to a length bound; an oracle (numodel) decides each case exactly. Exploration is the right level: the operand space is 2^128, the risky points are the boundaries, which are enumerated.",
         "numodel (big.Int/big.Rat/big.Float reading of the manual), Go 1.23 toolchain with -ldflags=-checklinkname=0, IEEE-754 conformance of the host", "DESIGN.md §6 C02"),
}

PENDING_REASON = "check not built yet in this snapshot (planned, see DESIGN.md §6); nothing is claimed for it until its monitor is silent on the unchanged tree"
NOT_APPLICABLE = {}

def main():
    props = [json.loads(l) for l in open(os.path.join(ROOT, "properties.jsonl"))]
    extra = {}
    d = os.path.join(ROOT, "scripts", "manifest_checks.d")
    if os.path.isdir(d):
        for fn in sorted(os.listdir(d)):
            if fn.endswith(".json"):
                extra[fn[:-5]] = json.load(open(os.path.join(d, fn)))
    checks, na = [], []
    # only the properties the coordinator has validated (silent at several seeds) are claimed
    claimed = set(open(os.path.join(ROOT, "scripts", "claimed.txt")).read().split())
    for pr in props:
        pid = pr["id"]
        ent = None
        if pid in extra:
            e = extra[pid]
            ent = (e["technique"], e["text"], e["note"], e.get("design_ref", "DESIGN.md §6 " + pid))
        elif pid in CHECKS:
            ent = CHECKS[pid]
        if ent and pid in claimed and os.path.isdir(os.path.join(ROOT, "harness", "cmd", pid.lower())):
            tech, text, note, ref = ent
            checks.append({
                "property_id": pid,
                "quick_cmd": "./run.sh %s quick" % pid,
                "thorough_cmd": "./run.sh %s thorough" % pid,
                "evidence_file": "/verif/evidence/%s.json" % pid,
                "replay_cmd_template": "./run.sh %s quick -replay {path}" % pid,
                "engine": "vp-harness",
                "level_claimed": {"category": "exploration", "text": text, "design_ref": ref},
                "level_note": note,
                "technique": tech,
            })
        else:
            na.append({"property_id": pid, "reason": NOT_APPLICABLE.get(pid, PENDING_REASON)})
    hooks = subprocess.run(["git", "-C", "/repo", "log", "--format=%H %s"], capture_output=True, text=True).stdout.splitlines()
    hook_commits = [l.split()[0] for l in hooks if l.split(" ", 1)[1].startswith("verif hooks")]
    m = {
        "version": 1,
        "setup_cmd": "./setup.sh",
        "hooks": {
            "guard": "verif (Go build tag)",
            "enable": "go build -tags verif -ldflags=-checklinkname=0 (harness module /verif/harness, replace github.com/arnodel/golua => /repo)",
            "baseline_off_cmd": "./scripts/baseline_off.sh",
            "source_commits": hook_commits,
            "add_only": True,
        },
        "engines": [
            {"name": "vp-harness", "path": "/verif/harness", "serves_properties": [c["property_id"] for c in checks],
             "kind_free_text": "Go module: parent/child process runner with journalled cases, watchdog, race-report parser, known-findings matcher and evidence writer (internal/vp); golua glue with recover wrapper and hook monitor (internal/gl); reference models (internal/numodel, ...)"},
        ],
        "checks": checks,
        "not_applicable": na,
        "notes": "Single technique family: runtime monitoring (reference-model oracles over executions of the real code, invariant hooks behind the verif build tag, offline checkers over event logs, Go race detector/checkptr/ASan builds, strace syscall monitor). See DESIGN.md.",
    }
    out = os.path.join(ROOT, "MANIFEST.json")
    json.dump(m, open(out, "w"), indent=1)
    open(out, "a").write("\n")
    try:
        import jsonschema
        jsonschema.validate(m, json.load(open("/root/.vp/MANIFEST.schema.json")))
        print("MANIFEST.json valid: %d checks, %d not_applicable" % (len(checks), len(na)))
    except ImportError:
        print("MANIFEST.json written (jsonschema not importable, not validated)")

if __name__ == "__main__":
    main()
