#!/bin/bash
# sweep.sh <tier> <seed> [ids…] — runs the checks one after the other, prints one line each.
cd "$(dirname "$(readlink -f "$0")")/.." || exit 2
tier="${1:-quick}"; seed="${2:-1}"; shift 2
ids="$*"; [ -z "$ids" ] && ids="C01 C02 C03 C04 C05 C06 C07 C08 C09 C10 C11 C12 C13 C14 C15 C16 C17 C18 C19 C20"
mkdir -p /var/tmp/verif-sweep
for id in $ids; do
  [ -d harness/cmd/$(echo $id | tr A-Z a-z) ] || { echo "$id: (no check)"; continue; }
  t0=$(date +%s)
  VERIF_SEED=$seed ./run.sh $id $tier > /var/tmp/verif-sweep/$id.$tier.$seed.log 2>&1
  rc=$?
  t1=$(date +%s)
  echo "$id tier=$tier seed=$seed rc=$rc $((t1-t0))s $(grep -c '^VIOLATION' /var/tmp/verif-sweep/$id.$tier.$seed.log) violations $(grep -c '^KNOWN-FINDING' /var/tmp/verif-sweep/$id.$tier.$seed.log) known"
done
