#!/usr/bin/env python3
"""add_finding.py <status> <property> <id> <commit-or-sig_regex> <what>  — appends an entry to known_findings.json under a file lock."""
import json, sys, fcntl
status, prop, fid, x, what = sys.argv[1:6]
p = '/verif/known_findings.json'
with open(p, 'r+') as f:
    fcntl.flock(f, fcntl.LOCK_EX)
    k = json.load(f)
    k['findings'] = [e for e in k['findings'] if not (e['property'] == prop and e['id'] == fid)]
    e = {"status": status, "property": prop, "id": fid, "what": what}
    if status == 'fixed':
        e['commit'] = x
    else:
        e['sig_regex'] = x
    k['findings'].append(e)
    f.seek(0); f.truncate()
    json.dump(k, f, indent=1)
    f.write("\n")
print("ok", len(k['findings']))
