#!/bin/bash
# Run once after a fresh restore (offline): warms the Go build cache by building
# every check binary (plain and -race variants) from /verif/harness against /repo.
cd "$(dirname "$(readlink -f "$0")")" || exit 1
export GOFLAGS=-mod=mod GOPROXY=off GOSUMDB=off GOTOOLCHAIN=local
mkdir -p bin work evidence
cd harness || exit 1
rc=0
go build -tags verif -ldflags=-checklinkname=0 -o ../bin/ ./cmd/... || rc=1
go build -race -tags verif -ldflags=-checklinkname=0 -o ../bin/race/ ./cmd/... || rc=1
rm -rf ../bin/race
exit $rc
