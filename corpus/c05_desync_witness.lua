local arg1 = ...
local function mkc(id)
  return setmetatable({}, {[ "__close" ] = function(o, e)
    emit("close", id, e)
  end})
end
local function mkce(id)
  return setmetatable({}, {[ "__close" ] = function(o, e)
    emit("close-raising", id, e)
    error("ce" .. id, 0)
  end})
end
local co2 = coroutine[ "create" ](function(p3)
  local function va4(a, ...)
    emit(select("#", ...))
    emit(select(1, ...))
    return select(2, ...)
  end
  emit(va4())
  emit(va4(p3, p3, "key"))
  local function iter5(st, c)
    if c < st then
      return c + 1, c * 2
    end
  end
  for k6, e7 in iter5, 4, 0 do
    emit(pcall(function()
      if false then
        error(false)
      end
      local mt10 = {}
      local function mk11(v)
        return setmetatable({[ "v" ] = v}, mt10)
      end
      mt10[ "__mod" ] = function(a, b)
        emit("__mod")
        return mk11((type(a) == "table" and rawget(a, "v") or a) * 2 - (type(b) == "table" and rawget(b, "v") or b))
      end
      mt10.__shr = function(a, b)
        emit("__shr")
        return mk11((type(a) == "table" and rawget(a, "v") or a) * 2 - (type(b) == "table" and rawget(b, "v") or b))
      end
      mt10[ "__sub" ] = function(a, b)
        emit("__sub")
        return mk11((type(a) == "table" and rawget(a, "v") or a) * 2 - (type(b) == "table" and rawget(b, "v") or b))
      end
      local o12 = mk11(3)
      local o13 = mk11(6)
      local v14 = coroutine.yield()
      emit("resumed", v14)
      emit(pcall(function()
        if not v14 then
          error("e:1: fake")
        end
        if "b" <= "a" then
          error(64)
        end
        G2 = p3 - 64 << 10
        return arg1
      end))
      return type(math.min(e7, G2))
    end))
    ::cont1::
  end
end)
emit(coroutine.status(co2))
emit(coroutine.resume(co2, 6, "x y"))
emit(coroutine[ "resume" ](co2, 2147483648, "10"))
emit(coroutine.status(co2))
emit(coroutine[ "resume" ](co2, 10, "\255\254"))
local mt17 = {}
local function mk18(v)
  return setmetatable({v = v}, mt17)
end
mt17.__call = function(self, ...)
  return (type(self) == "table" and rawget(self, "v") or self), ...
end
mt17[ "__shr" ] = function(a, b)
  return mk18((type(a) == "table" and rawget(a, "v") or a) * 2 - (type(b) == "table" and rawget(b, "v") or b))
end
mt17[ "__shl" ] = function(a, b)
  return mk18((type(a) == "table" and rawget(a, "v") or a) * 2 - (type(b) == "table" and rawget(b, "v") or b))
end
mt17[ "__band" ] = function(a, b)
  return mk18((type(a) == "table" and rawget(a, "v") or a) * 2 - (type(b) == "table" and rawget(b, "v") or b))
end
mt17.__le = function(a, b)
  return (type(a) == "table" and rawget(a, "v") or a) <= (type(b) == "table" and rawget(b, "v") or b)
end
mt17[ "__bxor" ] = function(a, b)
  return mk18((type(a) == "table" and rawget(a, "v") or a) * 2 - (type(b) == "table" and rawget(b, "v") or b))
end
local o19 = mk18(4)
local o20 = mk18(4)
emit("0x10" * (math.abs(13) % ("3" * G2 | 1)), ("0x10"):rep(1), "k1", G2)
local obj21 = {n = 1, inner = {[ "n" ] = (-4)}}
function obj21:add(d)
  self[ "n" ] = self[ "n" ] + d
  return self
end
function obj21.inner:bump()
  self.n = self.n * 2
  return self[ "n" ], self
end
function obj21.inner.plain(x)
  return x - 1
end
emit(obj21:add(13):add((-2))[ "n" ])
emit(obj21.inner:bump())
emit(obj21[ "inner" ][ "plain" ](16))
emit((obj21[ "inner" ]:bump()))
arg1 = "0x.8" + arg1
