package refvm

import (
	"fmt"
	"math"
	"math/big"
	"strconv"

	"verif/internal/lg"
	nm "verif/internal/numodel"
)

type protMark struct {
	handler Value // nil for pcall / coroutine boundary
	isX     bool
}

type tbcEntry struct {
	v Value
}

type frame struct {
	clos    *Closure
	vars    map[*lg.Decl]*cell
	varargs []Value
	cur     interface{} // node whose line span positions errors raised now
	tbc     []tbcEntry
	caller  *frame
	viaCall bool // entered through an explicit call expression of a Lua function (not a tail call)
}

type signal struct {
	kind  int
	label string
	vals  []Value
	tail  *tailCall
}

type tailCall struct {
	fn   Value
	args []Value
}

const (
	sigNone = iota
	sigBreak
	sigReturn
	sigGoto
)

// Interp is one reference execution.
type Interp struct {
	G         *Table
	strMeta   *Table
	lines     lg.Lines
	chunk     string
	Trace     [][]string
	N         *Namer
	fuel      int64
	cur       *Coroutine
	main      *Coroutine
	done      chan struct{} // closed when the run is over
	mainProt  []protMark
	cos       []*Coroutine
	labels    map[*lg.Block]map[string]int
	depth     int
	MaxTrace  int
	Features  map[string]int
	closing   int // >0 while running __close handlers during error unwinding
	hostFuncs map[string]*Builtin
}

func (it *Interp) feat(s string) { it.Features[s]++ }

func (it *Interp) prot() *[]protMark {
	if it.cur != nil {
		return &it.cur.prot
	}
	return &it.mainProt
}

func unspecified(format string, a ...interface{}) {
	panic(&Unspecified{fmt.Sprintf(format, a...)})
}

func (it *Interp) burn(n int64) {
	it.fuel -= n
	if it.fuel < 0 {
		unspecified("fuel exhausted")
	}
}

// throw raises a Lua error with value v from the current point: the nearest
// enclosing protected call decides whether a message handler runs first.
func (it *Interp) throw(v Value) {
	p := *it.prot()
	if n := len(p); n > 0 && p[n-1].isX {
		if it.closing > 0 {
			unspecified("error raised by a __close handler under xpcall")
		}
		h := p[n-1].handler
		// the handler runs at the point of the error; errors inside it are excluded
		*it.prot() = append(p, protMark{})
		var res []Value
		func() {
			defer func() {
				*it.prot() = (*it.prot())[:n]
				if r := recover(); r != nil {
					if _, ok := r.(*LuaError); ok {
						unspecified("error inside an xpcall message handler")
					}
					panic(r)
				}
			}()
			res = it.call(h, []Value{v}, nil, false)
		}()
		it.feat("xpcall-handler-run")
		var hv Value
		if len(res) > 0 {
			hv = res[0]
		}
		panic(&LuaError{Value: hv, handled: true})
	}
	panic(&LuaError{Value: v})
}

func (it *Interp) span(fr *frame) (lg.Span, bool) {
	if fr == nil || fr.cur == nil {
		return lg.Span{}, false
	}
	s, ok := it.lines[fr.cur]
	return s, ok
}

// rtError raises an interpreter-generated error positioned at fr's current node.
func (it *Interp) rtError(fr *frame, what string) {
	it.feat("rterr-" + what)
	if s, ok := it.span(fr); ok {
		it.throw(&ErrStr{Lo: s.Lo, Hi: s.Hi, Mode: ModePrefix})
	}
	it.throw(&ErrStr{Mode: ModeAny})
}

// libError raises an error produced by a library function: its text and
// position are not fixed by the manual.
func (it *Interp) libError(what string) {
	it.feat("liberr-" + what)
	it.throw(&ErrStr{Mode: ModeAny})
}

// ---------------------------------------------------------------------------

func (it *Interp) metaOf(v Value) *Table {
	switch x := v.(type) {
	case *Table:
		return x.meta
	case string, *ErrStr:
		return it.strMeta
	}
	return nil
}

func (it *Interp) metamethod(v Value, name string) Value {
	if m := it.metaOf(v); m != nil {
		return m.Get(name)
	}
	return nil
}

func (it *Interp) index(fr *frame, obj, key Value) Value {
	for loop := 0; loop < 100; loop++ {
		var h Value
		if t, ok := obj.(*Table); ok {
			if _, isE := key.(*ErrStr); isE {
				unspecified("opaque string used as key")
			}
			v := t.Get(key)
			if v != nil {
				return v
			}
			if t.meta == nil {
				return nil
			}
			h = t.meta.Get("__index")
			if h == nil {
				return nil
			}
			it.feat("mm-__index")
		} else {
			h = it.metamethod(obj, "__index")
			if h == nil {
				it.rtError(fr, "index")
			}
		}
		switch h.(type) {
		case *Closure, *Builtin:
			return first(it.call(h, []Value{obj, key}, fr, false))
		}
		obj = h
	}
	unspecified("__index chain too long")
	return nil
}

func (it *Interp) setIndex(fr *frame, obj, key, val Value) {
	for loop := 0; loop < 100; loop++ {
		var h Value
		if t, ok := obj.(*Table); ok {
			if _, isE := key.(*ErrStr); isE {
				unspecified("opaque string used as key")
			}
			if t.Get(key) != nil || t.meta == nil {
				it.rawSet(fr, t, key, val)
				return
			}
			h = t.meta.Get("__newindex")
			if h == nil {
				it.rawSet(fr, t, key, val)
				return
			}
			it.feat("mm-__newindex")
		} else {
			h = it.metamethod(obj, "__newindex")
			if h == nil {
				it.rtError(fr, "index")
			}
		}
		switch h.(type) {
		case *Closure, *Builtin:
			it.call(h, []Value{obj, key, val}, fr, false)
			return
		}
		obj = h
	}
	unspecified("__newindex chain too long")
}

func (it *Interp) rawSet(fr *frame, t *Table, key, val Value) {
	if _, ok := normKey(key); !ok {
		it.rtError(fr, "badkey")
	}
	t.Set(key, val)
}

func first(vs []Value) Value {
	if len(vs) == 0 {
		return nil
	}
	return vs[0]
}

func isNumber(v Value) bool {
	switch v.(type) {
	case int64, float64:
		return true
	}
	return false
}

var arithEvents = map[string]string{"+": "__add", "-": "__sub", "*": "__mul", "/": "__div", "%": "__mod", "^": "__pow", "//": "__idiv",
	"&": "__band", "|": "__bor", "~": "__bxor", "<<": "__shl", ">>": "__shr", "..": "__concat"}

func (it *Interp) binMeta(fr *frame, event string, a, b Value, what string) Value {
	h := it.metamethod(a, event)
	if h == nil {
		h = it.metamethod(b, event)
	}
	if h == nil {
		it.rtError(fr, what)
	}
	it.feat("mm-" + event)
	return first(it.call(h, []Value{a, b}, fr, false))
}

func isOpaque(v Value) bool { _, ok := v.(*ErrStr); return ok }

func (it *Interp) arith(fr *frame, op string, a, b Value) Value {
	if isOpaque(a) || isOpaque(b) {
		unspecified("arithmetic on an opaque string")
	}
	_, sa := a.(string)
	_, sb := b.(string)
	if (isNumber(a) || sa) && (isNumber(b) || sb) {
		// numbers, and strings through the string library's coercion: both end in
		// the primitive operation or in an error
		va, _ := toNM(a)
		vb, _ := toNM(b)
		r, st := nm.Arith(op, va, vb)
		switch st {
		case nm.Val:
			if sa || sb {
				it.feat("string-arith")
			}
			return fromNM(r)
		case nm.Skip:
			unspecified("arith %s left open by the manual", op)
		}
		it.rtError(fr, "arith")
	}
	return it.binMeta(fr, arithEvents[op], a, b, "arith")
}

func (it *Interp) bitwise(fr *frame, op string, a, b Value) Value {
	if isOpaque(a) || isOpaque(b) {
		unspecified("bitwise on an opaque string")
	}
	if _, ok := a.(string); ok {
		unspecified("bitwise operator on a string")
	}
	if _, ok := b.(string); ok {
		unspecified("bitwise operator on a string")
	}
	if isNumber(a) && isNumber(b) {
		va, _ := toNM(a)
		vb, _ := toNM(b)
		r, st := nm.Bitwise(op, va, vb)
		switch st {
		case nm.Val:
			return fromNM(r)
		case nm.Skip:
			unspecified("bitwise %s left open", op)
		}
		it.rtError(fr, "bitwise-noint")
	}
	return it.binMeta(fr, arithEvents[op], a, b, "bitwise")
}

func (it *Interp) rawEquals(a, b Value) bool {
	if isOpaque(a) || isOpaque(b) {
		if a == b {
			return true
		}
		// an opaque string is a string: it differs from any value of another type
		other := a
		if isOpaque(a) {
			other = b
		}
		switch other.(type) {
		case string, *ErrStr:
			unspecified("comparison of an opaque string")
		}
		return false
	}
	if isNumber(a) && isNumber(b) {
		va, _ := toNM(a)
		vb, _ := toNM(b)
		r, _ := nm.Compare("==", va, vb)
		return r.B
	}
	switch a.(type) {
	case *Closure:
		if cb, ok := b.(*Closure); ok && a != b && a.(*Closure).fn == cb.fn {
			unspecified("equality of two closures of the same function")
		}
	}
	return a == b
}

func (it *Interp) equals(fr *frame, a, b Value) bool {
	if it.rawEquals(a, b) {
		return true
	}
	ta, oka := a.(*Table)
	tb, okb := b.(*Table)
	if !oka || !okb {
		return false
	}
	var h Value
	if ta.meta != nil {
		h = ta.meta.Get("__eq")
	}
	if h == nil && tb.meta != nil {
		h = tb.meta.Get("__eq")
	}
	if h == nil {
		return false
	}
	it.feat("mm-__eq")
	return truthy(first(it.call(h, []Value{a, b}, fr, false)))
}

func (it *Interp) less(fr *frame, op string, a, b Value) bool {
	if isOpaque(a) || isOpaque(b) {
		unspecified("ordering of an opaque string")
	}
	_, sa := a.(string)
	_, sb := b.(string)
	if (isNumber(a) && isNumber(b)) || (sa && sb) {
		if sa {
			for _, s := range []string{a.(string), b.(string)} {
				for i := 0; i < len(s); i++ {
					if c := s[i]; !(c >= 'a' && c <= 'z' || c >= '0' && c <= '9') {
						unspecified("string ordering outside [a-z0-9] depends on the locale")
					}
				}
			}
		}
		va, _ := toNM(a)
		vb, _ := toNM(b)
		r, _ := nm.Compare(op, va, vb)
		return r.B
	}
	event := "__lt"
	if op == "<=" {
		event = "__le"
	}
	h := it.metamethod(a, event)
	if h == nil {
		h = it.metamethod(b, event)
	}
	if h == nil {
		it.rtError(fr, "compare")
	}
	it.feat("mm-" + event)
	return truthy(first(it.call(h, []Value{a, b}, fr, false)))
}

func (it *Interp) tostr(v Value) (string, bool) {
	switch x := v.(type) {
	case string:
		return x, true
	case int64:
		return strconv.FormatInt(x, 10), true
	case float64:
		unspecified("float to string conversion format")
	}
	return "", false
}

func (it *Interp) concat(fr *frame, a, b Value) Value {
	if isOpaque(a) || isOpaque(b) {
		unspecified("concatenation of an opaque string")
	}
	_, sa := a.(string)
	_, sb := b.(string)
	if (sa || isNumber(a)) && (sb || isNumber(b)) {
		x, _ := it.tostr(a)
		y, _ := it.tostr(b)
		it.burn(int64(len(x)+len(y)) / 64)
		if len(x)+len(y) > 1<<20 {
			unspecified("string too large for the reference run")
		}
		return x + y
	}
	return it.binMeta(fr, "__concat", a, b, "concat")
}

func (it *Interp) length(fr *frame, v Value) Value {
	switch x := v.(type) {
	case string:
		return int64(len(x))
	case *ErrStr:
		unspecified("length of an opaque string")
	case *Table:
		if x.meta != nil {
			if h := x.meta.Get("__len"); h != nil {
				it.feat("mm-__len")
				return first(it.call(h, []Value{v}, fr, false))
			}
		}
		n, unique := x.Border()
		if !unique {
			unspecified("length of a table with several borders")
		}
		return n
	}
	h := it.metamethod(v, "__len")
	if h == nil {
		it.rtError(fr, "len")
	}
	return first(it.call(h, []Value{v}, fr, false))
}

func (it *Interp) unm(fr *frame, v Value) Value {
	if isOpaque(v) {
		unspecified("arithmetic on an opaque string")
	}
	_, s := v.(string)
	if isNumber(v) || s {
		nv, _ := toNM(v)
		r, st := nm.Unm(nv)
		switch st {
		case nm.Val:
			return fromNM(r)
		case nm.Skip:
			unspecified("unary minus left open")
		}
		it.rtError(fr, "arith")
	}
	h := it.metamethod(v, "__unm")
	if h == nil {
		it.rtError(fr, "arith")
	}
	it.feat("mm-__unm")
	return first(it.call(h, []Value{v, v}, fr, false))
}

func (it *Interp) bnot(fr *frame, v Value) Value {
	if isOpaque(v) {
		unspecified("bitwise on an opaque string")
	}
	if _, ok := v.(string); ok {
		unspecified("bitwise operator on a string")
	}
	if isNumber(v) {
		nv, _ := toNM(v)
		r, st := nm.BNot(nv)
		switch st {
		case nm.Val:
			return fromNM(r)
		case nm.Skip:
			unspecified("bnot left open")
		}
		it.rtError(fr, "bitwise-noint")
	}
	h := it.metamethod(v, "__bnot")
	if h == nil {
		it.rtError(fr, "bitwise")
	}
	it.feat("mm-__bnot")
	return first(it.call(h, []Value{v, v}, fr, false))
}

// ---------------------------------------------------------------------------
// Calls

const maxDepth = 180

func (it *Interp) call(fn Value, args []Value, caller *frame, viaCall bool) []Value {
	it.depth++
	defer func() { it.depth-- }()
	if it.depth > maxDepth {
		unspecified("call depth beyond the reference interpreter's bound")
	}
	tail := false
	for {
		it.burn(1)
		switch f := fn.(type) {
		case *Closure:
			fr := &frame{clos: f, vars: make(map[*lg.Decl]*cell, len(f.up)+4), caller: caller, viaCall: viaCall && !tail}
			for d, c := range f.up {
				fr.vars[d] = c
			}
			for i, p := range f.fn.Params {
				var v Value
				if i < len(args) {
					v = args[i]
				}
				fr.vars[p] = &cell{v}
			}
			if f.fn.IsVararg && len(args) > len(f.fn.Params) {
				fr.varargs = args[len(f.fn.Params):]
			}
			sig := it.execBlock(fr, f.fn.Body, nil)
			if sig.tail != nil {
				fn, args = sig.tail.fn, sig.tail.args
				tail = true
				it.feat("tailcall")
				continue
			}
			if sig.kind == sigGoto {
				unspecified("goto %s escaped its function (generator bug)", sig.label)
			}
			return sig.vals
		case *Builtin:
			return f.fn(it, caller, args)
		default:
			h := it.metamethod(fn, "__call")
			if h == nil {
				it.rtError(caller, "call")
			}
			it.feat("mm-__call")
			args = append([]Value{fn}, args...)
			fn = h
		}
	}
}

// ---------------------------------------------------------------------------
// Statements

func (it *Interp) labelIndex(b *lg.Block, name string) (int, bool) {
	m, ok := it.labels[b]
	if !ok {
		m = map[string]int{}
		for i, s := range b.Stmts {
			if l, ok := s.(*lg.Label); ok {
				m[l.Name] = i
			}
		}
		it.labels[b] = m
	}
	i, ok := m[name]
	return i, ok
}

// closeTBC closes fr's pending to-be-closed values down to height base.
// inflight is the error being propagated (nil otherwise); the returned error
// is the one to keep propagating.
func (it *Interp) closeTBC(fr *frame, base int, inflight *LuaError, isErr bool) (*LuaError, bool) {
	for len(fr.tbc) > base {
		e := fr.tbc[len(fr.tbc)-1]
		fr.tbc = fr.tbc[:len(fr.tbc)-1]
		if e.v == nil || e.v == false {
			continue
		}
		h := it.metamethod(e.v, "__close")
		var errv Value
		if isErr {
			errv = inflight.Value
		}
		func() {
			if isErr {
				it.closing++
			}
			defer func() {
				if isErr {
					it.closing--
				}
				if r := recover(); r != nil {
					le, ok := r.(*LuaError)
					if !ok {
						panic(r)
					}
					it.feat("close-handler-raised")
					inflight, isErr = le, true
				}
			}()
			it.feat("close-handler-run")
			if h == nil {
				// metamethod removed after the declaration
				it.rtError(fr, "close-nometa")
			}
			it.call(h, []Value{e.v, errv}, fr, false)
		}()
	}
	return inflight, isErr
}

// execBlock runs a block in frame fr. after (if not nil) runs at the normal
// end of the block inside its scope (repeat-until condition).
func (it *Interp) execBlock(fr *frame, b *lg.Block, after func() bool) (sig signal) {
	base := len(fr.tbc)
	normal := false
	func() {
		defer func() {
			if normal {
				return
			}
			r := recover()
			if r == nil {
				return
			}
			if len(fr.tbc) <= base {
				panic(r)
			}
			switch e := r.(type) {
			case *LuaError:
				le, _ := it.closeTBC(fr, base, e, true)
				panic(le)
			case coClose:
				// the coroutine is being closed: an error raised by a handler is the
				// result of the close; it is not an error of the coroutine's code, so
				// no pcall inside the coroutine can catch it
				le, isErr := it.closeTBC(fr, base, nil, false)
				if isErr {
					panic(coCloseErr{le})
				}
				panic(r)
			case coCloseErr:
				le, _ := it.closeTBC(fr, base, e.err, true)
				panic(coCloseErr{le})
			default:
				// unspecified / abort: drop without running handlers
				fr.tbc = fr.tbc[:base]
				panic(r)
			}
		}()
		sig = it.execStmts(fr, b, after)
		normal = true
	}()
	if len(fr.tbc) > base {
		if sig.tail != nil {
			unspecified("tail call with pending close (interpreter bug)")
		}
		if le, isErr := it.closeTBC(fr, base, nil, false); isErr {
			panic(le)
		}
	}
	return sig
}

func (it *Interp) execStmts(fr *frame, b *lg.Block, after func() bool) signal {
	heights := make([]int, len(b.Stmts)+1)
	i := 0
	for i < len(b.Stmts) {
		heights[i] = len(fr.tbc)
		sig := it.execStmt(fr, b.Stmts[i])
		if sig.kind == sigGoto {
			if idx, ok := it.labelIndex(b, sig.label); ok {
				it.feat("goto-taken")
				if idx <= i {
					if le, isErr := it.closeTBC(fr, heights[idx], nil, false); isErr {
						panic(le)
					}
				}
				i = idx + 1
				continue
			}
			return sig
		}
		if sig.kind != sigNone {
			return sig
		}
		i++
	}
	if after != nil {
		if after() {
			return signal{kind: sigBreak, label: "until"}
		}
	}
	return signal{}
}

func (it *Interp) evalList(fr *frame, es []lg.Expr) []Value {
	if len(es) == 0 {
		return nil
	}
	out := make([]Value, 0, len(es))
	for i, e := range es {
		if i == len(es)-1 && lg.IsMulti(e) {
			out = append(out, it.evalMulti(fr, e)...)
		} else {
			out = append(out, it.eval(fr, e))
		}
	}
	return out
}

func (it *Interp) checkClosable(fr *frame, v Value) {
	if v == nil || v == false {
		return
	}
	if it.metamethod(v, "__close") == nil {
		it.rtError(fr, "tbc-nonclosable")
	}
}

func (it *Interp) execStmt(fr *frame, s lg.Stmt) signal {
	it.burn(1)
	fr.cur = s
	switch n := s.(type) {
	case *lg.Local:
		vals := it.evalList(fr, n.Exprs)
		for i, d := range n.Decls {
			var v Value
			if i < len(vals) {
				v = vals[i]
			}
			fr.vars[d] = &cell{v}
			if d.Attrib == "close" {
				fr.cur = s
				it.checkClosable(fr, v)
				fr.tbc = append(fr.tbc, tbcEntry{v})
				it.feat("tbc-declared")
			}
		}
	case *lg.Assign:
		type target struct {
			c        *cell
			global   string
			obj, key Value
			isIndex  bool
		}
		ts := make([]target, len(n.Targets))
		for i, t := range n.Targets {
			switch x := t.(type) {
			case *lg.Name:
				if x.Decl != nil {
					ts[i].c = fr.vars[x.Decl]
					if ts[i].c == nil {
						unspecified("assignment to undeclared local %s (generator bug)", x.Name)
					}
				} else {
					ts[i].global = x.Name
				}
			case *lg.Index:
				ts[i].isIndex = true
				ts[i].obj = it.eval(fr, x.Obj)
				ts[i].key = it.eval(fr, x.Key)
			}
		}
		vals := it.evalList(fr, n.Exprs)
		fr.cur = s
		for i := range ts {
			var v Value
			if i < len(vals) {
				v = vals[i]
			}
			switch {
			case ts[i].c != nil:
				ts[i].c.v = v
			case ts[i].isIndex:
				it.setIndex(fr, ts[i].obj, ts[i].key, v)
			default:
				it.setIndex(fr, it.G, ts[i].global, v)
			}
		}
	case *lg.CallStmt:
		it.evalMulti(fr, n.Call)
	case *lg.Do:
		return it.execBlock(fr, n.Body, nil)
	case *lg.While:
		for {
			it.burn(1)
			fr.cur = n.Cond
			if !truthy(it.eval(fr, n.Cond)) {
				break
			}
			sig := it.execBlock(fr, n.Body, nil)
			if sig.kind == sigBreak {
				break
			}
			if sig.kind != sigNone {
				return sig
			}
		}
	case *lg.Repeat:
		for {
			it.burn(1)
			sig := it.execBlock(fr, n.Body, func() bool {
				fr.cur = n.Cond
				return truthy(it.eval(fr, n.Cond))
			})
			if sig.kind == sigBreak {
				break
			}
			if sig.kind != sigNone {
				return sig
			}
		}
	case *lg.If:
		for i, c := range n.Conds {
			fr.cur = c
			if truthy(it.eval(fr, c)) {
				return it.execBlock(fr, n.Blocks[i], nil)
			}
		}
		if n.Else != nil {
			return it.execBlock(fr, n.Else, nil)
		}
	case *lg.NumFor:
		return it.execNumFor(fr, n)
	case *lg.GenFor:
		return it.execGenFor(fr, n)
	case *lg.FuncStmt:
		f := it.makeClosure(fr, n.Fn)
		fr.cur = s
		switch t := n.Target.(type) {
		case *lg.Name:
			if n.Method == "" {
				if t.Decl != nil {
					fr.vars[t.Decl].v = f
				} else {
					it.setIndex(fr, it.G, t.Name, f)
				}
				return signal{}
			}
			it.setIndex(fr, it.eval(fr, t), n.Method, f)
		case *lg.Index:
			if n.Method == "" {
				it.setIndex(fr, it.eval(fr, t.Obj), it.eval(fr, t.Key), f)
			} else {
				it.setIndex(fr, it.eval(fr, t), n.Method, f)
			}
		}
	case *lg.LocalFunc:
		c := &cell{}
		fr.vars[n.Decl] = c
		c.v = it.makeClosure(fr, n.Fn)
	case *lg.Return:
		if len(n.Exprs) == 1 && len(fr.tbc) == 0 {
			if c, ok := n.Exprs[0].(*lg.Call); ok {
				fn := it.eval(fr, c.Fn)
				args := it.evalList(fr, c.Args)
				fr.cur = s
				it.checkCallable(fr, fn)
				return signal{kind: sigReturn, tail: &tailCall{fn, args}}
			}
			if c, ok := n.Exprs[0].(*lg.MethCall); ok {
				obj := it.eval(fr, c.Obj)
				fn := it.index(fr, obj, c.Name)
				args := append([]Value{obj}, it.evalList(fr, c.Args)...)
				fr.cur = s
				it.checkCallable(fr, fn)
				return signal{kind: sigReturn, tail: &tailCall{fn, args}}
			}
		}
		return signal{kind: sigReturn, vals: it.evalList(fr, n.Exprs)}
	case *lg.Break:
		return signal{kind: sigBreak}
	case *lg.Goto:
		return signal{kind: sigGoto, label: n.Label}
	case *lg.Label:
	}
	return signal{}
}

// checkCallable raises "attempt to call" in the calling frame before a tail
// call replaces it (the position of the error is the call's line).
func (it *Interp) checkCallable(fr *frame, fn Value) {
	for i := 0; i < 100; i++ {
		switch fn.(type) {
		case *Closure, *Builtin:
			return
		}
		h := it.metamethod(fn, "__call")
		if h == nil {
			it.rtError(fr, "call")
		}
		fn = h
	}
}

func (it *Interp) execNumFor(fr *frame, n *lg.NumFor) signal {
	fr.cur = n
	start := it.eval(fr, n.Start)
	limit := it.eval(fr, n.Limit)
	var step Value = int64(1)
	if n.Step != nil {
		step = it.eval(fr, n.Step)
	}
	fr.cur = n
	for _, v := range []Value{start, limit, step} {
		switch v.(type) {
		case string, *ErrStr:
			unspecified("string as numeric for bound")
		}
		if !isNumber(v) {
			it.rtError(fr, "for-notnumber")
		}
	}
	si, sInt := start.(int64)
	st, stInt := step.(int64)
	body := func(v Value) (signal, bool) {
		it.burn(1)
		fr.vars[n.Var] = &cell{v}
		sig := it.execBlock(fr, n.Body, nil)
		if sig.kind == sigBreak {
			return signal{}, true
		}
		if sig.kind != sigNone {
			return sig, true
		}
		return signal{}, false
	}
	if sInt && stInt {
		it.feat("for-int")
		if st == 0 {
			it.rtError(fr, "for-step-zero")
		}
		var lim int64
		switch l := limit.(type) {
		case int64:
			lim = l
		case float64:
			if l != l {
				unspecified("integer for loop with NaN limit")
			}
			var fl float64
			if st > 0 {
				fl = math.Floor(l)
			} else {
				fl = math.Ceil(l)
			}
			if i, ok := nm.FloatToInt(fl); ok {
				lim = i
			} else if l > 0 {
				if st < 0 {
					return signal{}
				}
				lim = math.MaxInt64
			} else {
				if st > 0 {
					return signal{}
				}
				lim = math.MinInt64
			}
			it.feat("for-int-floatlimit")
		}
		if (st > 0 && si > lim) || (st < 0 && si < lim) {
			return signal{}
		}
		// iteration count = floor(|lim-si| / |st|)
		diff := new(big.Int).Sub(big.NewInt(lim), big.NewInt(si))
		diff.Abs(diff)
		sa := new(big.Int).Abs(big.NewInt(st))
		count := new(big.Int).Div(diff, sa)
		v := si
		one := big.NewInt(1)
		for k := new(big.Int); ; k.Add(k, one) {
			sig, stop := body(v)
			if stop {
				return sig
			}
			if k.Cmp(count) >= 0 {
				break
			}
			v += st
		}
		return signal{}
	}
	it.feat("for-float")
	tof := func(v Value) float64 {
		if i, ok := v.(int64); ok {
			return nm.IntToFloat(i)
		}
		return v.(float64)
	}
	fs, fl, fst := tof(start), tof(limit), tof(step)
	if fst == 0 {
		it.rtError(fr, "for-step-zero")
	}
	acc := fs
	for k := 0; ; k++ {
		if fst > 0 && !(acc <= fl) || fst < 0 && !(acc >= fl) {
			break
		}
		if alt := fs + float64(k)*fst; alt != acc && k > 0 {
			unspecified("float for loop whose partial sums are inexact")
		}
		sig, stop := body(acc)
		if stop {
			return sig
		}
		acc += fst
	}
	return signal{}
}

func (it *Interp) execGenFor(fr *frame, n *lg.GenFor) (sig signal) {
	fr.cur = n
	vals := it.evalList(fr, n.Exprs)
	for len(vals) < 4 {
		vals = append(vals, nil)
	}
	f, s, ctl, closing := vals[0], vals[1], vals[2], vals[3]
	fr.cur = n
	base := len(fr.tbc)
	if closing != nil {
		it.checkClosable(fr, closing)
		fr.tbc = append(fr.tbc, tbcEntry{closing})
		it.feat("genfor-closing-value")
	}
	// the closing value is closed like a tbc variable of an enclosing block
	normal := false
	func() {
		defer func() {
			if normal || len(fr.tbc) <= base {
				return
			}
			r := recover()
			if r == nil {
				return
			}
			switch e := r.(type) {
			case *LuaError:
				le, _ := it.closeTBC(fr, base, e, true)
				panic(le)
			case coClose:
				le, isErr := it.closeTBC(fr, base, nil, false)
				if isErr {
					panic(coCloseErr{le})
				}
				panic(r)
			case coCloseErr:
				le, _ := it.closeTBC(fr, base, e.err, true)
				panic(coCloseErr{le})
			default:
				fr.tbc = fr.tbc[:base]
				panic(r)
			}
		}()
		for {
			it.burn(1)
			fr.cur = n
			rs := it.call(f, []Value{s, ctl}, fr, false)
			if len(rs) == 0 || rs[0] == nil {
				break
			}
			ctl = rs[0]
			for i, d := range n.Vars {
				var v Value
				if i < len(rs) {
					v = rs[i]
				}
				fr.vars[d] = &cell{v}
			}
			sg := it.execBlock(fr, n.Body, nil)
			if sg.kind == sigBreak {
				break
			}
			if sg.kind != sigNone {
				sig = sg
				break
			}
		}
		normal = true
	}()
	if len(fr.tbc) > base {
		if sig.tail != nil {
			// `return f()` inside a loop with a closing value is not a tail call
			vals := it.call(sig.tail.fn, sig.tail.args, fr, false)
			sig = signal{kind: sigReturn, vals: vals}
		}
		if le, isErr := it.closeTBC(fr, base, nil, false); isErr {
			panic(le)
		}
	}
	return sig
}

func (it *Interp) makeClosure(fr *frame, f *lg.Func) *Closure {
	c := &Closure{fn: f, up: make(map[*lg.Decl]*cell, len(f.Free))}
	for _, d := range f.Free {
		cl := fr.vars[d]
		if cl == nil {
			unspecified("closure captures undeclared local %s (generator bug)", d.Name)
		}
		c.up[d] = cl
	}
	it.feat("closure")
	return c
}

// ---------------------------------------------------------------------------
// Expressions

func (it *Interp) evalMulti(fr *frame, e lg.Expr) []Value {
	switch n := e.(type) {
	case *lg.Vararg:
		return fr.varargs
	case *lg.Call:
		fn := it.eval(fr, n.Fn)
		args := it.evalList(fr, n.Args)
		return it.call(fn, args, fr, true)
	case *lg.MethCall:
		obj := it.eval(fr, n.Obj)
		fn := it.index(fr, obj, n.Name)
		args := append([]Value{obj}, it.evalList(fr, n.Args)...)
		return it.call(fn, args, fr, true)
	}
	return []Value{it.eval(fr, e)}
}

func (it *Interp) eval(fr *frame, e lg.Expr) Value {
	it.burn(1)
	switch n := e.(type) {
	case *lg.Nil:
		return nil
	case *lg.True:
		return true
	case *lg.False:
		return false
	case *lg.Int:
		return n.V
	case *lg.Float:
		return n.V
	case *lg.Str:
		return n.V
	case *lg.Vararg:
		return first(fr.varargs)
	case *lg.Name:
		if n.Decl != nil {
			c := fr.vars[n.Decl]
			if c == nil {
				unspecified("use of undeclared local %s (generator bug)", n.Name)
			}
			return c.v
		}
		return it.index(fr, it.G, n.Name)
	case *lg.Index:
		obj := it.eval(fr, n.Obj)
		key := it.eval(fr, n.Key)
		return it.index(fr, obj, key)
	case *lg.Call, *lg.MethCall:
		return first(it.evalMulti(fr, e))
	case *lg.Func:
		return it.makeClosure(fr, n)
	case *lg.Paren:
		return it.eval(fr, n.X)
	case *lg.Un:
		v := it.eval(fr, n.X)
		switch n.Op {
		case "-":
			return it.unm(fr, v)
		case "not":
			return !truthy(v)
		case "#":
			return it.length(fr, v)
		case "~":
			return it.bnot(fr, v)
		}
	case *lg.Bin:
		switch n.Op {
		case "and":
			l := it.eval(fr, n.L)
			if !truthy(l) {
				return l
			}
			return it.eval(fr, n.R)
		case "or":
			l := it.eval(fr, n.L)
			if truthy(l) {
				return l
			}
			return it.eval(fr, n.R)
		}
		l := it.eval(fr, n.L)
		r := it.eval(fr, n.R)
		switch n.Op {
		case "+", "-", "*", "/", "//", "%", "^":
			return it.arith(fr, n.Op, l, r)
		case "&", "|", "~", "<<", ">>":
			return it.bitwise(fr, n.Op, l, r)
		case "..":
			return it.concat(fr, l, r)
		case "==":
			return it.equals(fr, l, r)
		case "~=":
			return !it.equals(fr, l, r)
		case "<":
			return it.less(fr, "<", l, r)
		case "<=":
			return it.less(fr, "<=", l, r)
		case ">":
			return it.less(fr, "<", r, l)
		case ">=":
			return it.less(fr, "<=", r, l)
		}
	case *lg.Table:
		t := NewTable()
		var pos int64 = 1
		for i, f := range n.Fields {
			if f.Key != nil {
				k := it.eval(fr, f.Key)
				v := it.eval(fr, f.Val)
				if _, ok := normKey(k); !ok {
					it.rtError(fr, "badkey")
				}
				if isOpaque(k) {
					unspecified("opaque key")
				}
				t.Set(k, v)
				continue
			}
			if i == len(n.Fields)-1 && lg.IsMulti(f.Val) {
				for _, v := range it.evalMulti(fr, f.Val) {
					t.Set(pos, v)
					pos++
				}
				continue
			}
			t.Set(pos, it.eval(fr, f.Val))
			pos++
		}
		it.feat("table-constructor")
		return t
	}
	unspecified("unknown expression node %T", e)
	return nil
}
