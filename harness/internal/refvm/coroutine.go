package refvm

// Coroutines of the reference interpreter are goroutines with a strict baton:
// exactly one goroutine (the main one or one coroutine's) runs at any time.

func (it *Interp) setupCoroutines(set func(t *Table, name string, fn func(it *Interp, fr *frame, args []Value) []Value) *Builtin) {
	co := NewTable()
	it.G.Set("coroutine", co)
	set(co, "create", func(it *Interp, fr *frame, args []Value) []Value {
		switch arg(args, 0).(type) {
		case *Closure, *Builtin:
		default:
			it.libError("create-badarg")
		}
		it.feat("co-create")
		return []Value{it.newCoroutine(args[0])}
	})
	set(co, "status", func(it *Interp, fr *frame, args []Value) []Value {
		c, ok := arg(args, 0).(*Coroutine)
		if !ok {
			it.libError("status-badarg")
		}
		return []Value{c.status}
	})
	set(co, "running", func(it *Interp, fr *frame, args []Value) []Value {
		if it.cur == nil {
			return []Value{it.mainCo(), true}
		}
		return []Value{it.cur, false}
	})
	set(co, "isyieldable", func(it *Interp, fr *frame, args []Value) []Value {
		if len(args) > 0 && args[0] != nil {
			c, ok := args[0].(*Coroutine)
			if !ok {
				it.libError("isyieldable-badarg")
			}
			return []Value{c != it.mainCo()}
		}
		return []Value{it.cur != nil}
	})
	set(co, "resume", func(it *Interp, fr *frame, args []Value) []Value {
		c, ok := arg(args, 0).(*Coroutine)
		if !ok {
			it.libError("resume-badarg")
		}
		vals, le := it.resume(c, args[1:])
		if le != nil {
			it.feat("co-resume-error")
			return []Value{false, le.Value}
		}
		return append([]Value{true}, vals...)
	})
	set(co, "yield", func(it *Interp, fr *frame, args []Value) []Value {
		if it.cur == nil {
			it.libError("yield-outside")
		}
		it.feat("co-yield")
		return it.yield(args)
	})
	set(co, "wrap", func(it *Interp, fr *frame, args []Value) []Value {
		switch arg(args, 0).(type) {
		case *Closure, *Builtin:
		default:
			it.libError("wrap-badarg")
		}
		c := it.newCoroutine(args[0])
		it.feat("co-wrap")
		return []Value{it.builtin("wrap-fn", func(it *Interp, fr *frame, args []Value) []Value {
			vals, le := it.resume(c, args)
			if le != nil {
				it.feat("co-wrap-error")
				// the manual: "in case of error, the function closes the coroutine and propagates the error";
				// the reference implementation may decorate string messages with a position
				v := le.Value
				switch x := v.(type) {
				case string:
					v = &ErrStr{Mode: ModeSuffix, Msg: x}
				case *ErrStr:
					v = &ErrStr{Mode: ModeAny}
				}
				it.throw(v)
			}
			return vals
		})}
	})
	set(co, "close", func(it *Interp, fr *frame, args []Value) []Value {
		c, ok := arg(args, 0).(*Coroutine)
		if !ok {
			it.libError("close-badarg")
		}
		switch c.status {
		case "dead":
			if c.closeErr != nil {
				if c.closedOnce {
					unspecified("second close of a coroutine that died with an error")
				}
				c.closedOnce = true
				return []Value{false, c.closeErr.Value}
			}
			return []Value{true}
		case "suspended":
		default:
			it.libError("close-" + c.status)
		}
		it.feat("co-close")
		if !c.started {
			c.status = "dead"
			return []Value{true}
		}
		_, le := it.switchTo(c, coMsg{close: true})
		if le != nil {
			// a later close of this coroutine: the manual does not say whether
			// the error is reported again
			c.closeErr, c.closedOnce = le, true
			return []Value{false, le.Value}
		}
		return []Value{true}
	})
}

func (it *Interp) mainCo() *Coroutine {
	if it.main == nil {
		it.main = &Coroutine{status: "running"}
	}
	return it.main
}

func (it *Interp) newCoroutine(fn Value) *Coroutine {
	c := &Coroutine{fn: fn, status: "suspended", toCo: make(chan coMsg), fromCo: make(chan coMsg)}
	it.cos = append(it.cos, c)
	return c
}

// resume transfers control to c; it returns the yielded/returned values or
// the error that killed the coroutine.
func (it *Interp) resume(c *Coroutine, args []Value) ([]Value, *LuaError) {
	if c == it.mainCo() || c.status != "suspended" {
		it.feat("co-resume-" + c.status)
		return nil, &LuaError{Value: &ErrStr{Mode: ModeAny}}
	}
	it.feat("co-resume")
	vals, le := it.switchTo(c, coMsg{vals: args})
	if le != nil {
		c.closeErr = le
	}
	return vals, le
}

func (it *Interp) switchTo(c *Coroutine, msg coMsg) ([]Value, *LuaError) {
	prev := it.cur
	if prev != nil {
		prev.status = "normal"
	} else {
		it.mainCo().status = "normal"
	}
	c.status = "running"
	c.parent = prev
	savedDepth, savedClosing := it.depth, it.closing
	it.depth, it.closing = c.depth, 0
	it.cur = c
	if !c.started {
		c.started = true
		go it.coMain(c)
	}
	c.toCo <- msg
	r := <-c.fromCo
	c.depth = it.depth
	it.depth, it.closing = savedDepth, savedClosing
	it.cur = prev
	if prev != nil {
		prev.status = "running"
	} else {
		it.mainCo().status = "running"
	}
	if r.unsp != nil {
		c.status = "dead"
		panic(r.unsp)
	}
	if r.done {
		c.status = "dead"
		it.feat("co-dead")
	} else {
		c.status = "suspended"
	}
	return r.vals, r.err
}

func (it *Interp) yield(vals []Value) []Value {
	c := it.cur
	c.fromCo <- coMsg{vals: vals}
	var m coMsg
	select {
	case m = <-c.toCo:
	case <-it.done:
		// the run is over: unwind without running any handler
		panic(coAbort{})
	}
	if m.abort {
		panic(coAbort{})
	}
	if m.close {
		panic(coClose{})
	}
	return m.vals
}

func (it *Interp) coMain(c *Coroutine) {
	var m coMsg
	select {
	case m = <-c.toCo:
	case <-it.done:
		return
	}
	if m.abort {
		return
	}
	var out coMsg
	func() {
		defer func() {
			if r := recover(); r != nil {
				switch e := r.(type) {
				case *LuaError:
					out = coMsg{err: e, done: true}
				case coClose:
					out = coMsg{done: true}
				case coCloseErr:
					out = coMsg{err: e.err, done: true}
				case coAbort:
					out = coMsg{done: true, abort: true}
				case *Unspecified:
					out = coMsg{done: true, unsp: e}
				default:
					out = coMsg{done: true, unsp: &Unspecified{"reference interpreter panic: " + sprint(r)}}
				}
			}
		}()
		vals := it.call(c.fn, m.vals, nil, false)
		out = coMsg{vals: vals, done: true}
	}()
	if out.abort {
		if c.aborted != nil {
			c.aborted <- struct{}{}
		}
		return
	}
	select {
	case c.fromCo <- out:
	case <-it.done:
	}
}

// abortAll unwinds every coroutine that is still suspended at the end of the
// run so that no goroutine of the reference interpreter is left behind.
func (it *Interp) abortAll() {
	for _, c := range it.cos {
		// A suspended coroutine is parked in yield, or on its way there (it may not
		// have reached the receive yet when its resumer already finished the
		// program): the send blocks until it does. Nothing else runs meanwhile,
		// so the unwinding does not race with this goroutine.
		if c.started && c.status == "suspended" {
			c.aborted = make(chan struct{}, 1)
			c.toCo <- coMsg{abort: true}
			// the acknowledgement, or a last message if the unwinding ended otherwise
			select {
			case <-c.aborted:
			case <-c.fromCo:
			}
		}
		c.status = "dead"
	}
	close(it.done)
}
