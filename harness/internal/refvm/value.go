// Package refvm is a tree-walking reference interpreter for lg programs,
// written from the Lua 5.4 reference manual and sharing no code with golua.
// It produces the trace of host-callback events, the returned values and the
// error (value and position) that the manual prescribes; wherever the manual
// leaves the behaviour open it aborts the run as "unspecified" so that no
// verdict is given on such a program.
package refvm

import (
	"fmt"
	"math"
	"strconv"

	"verif/internal/lg"
	nm "verif/internal/numodel"
)

// Value is nil, bool, int64, float64, string, *Table, *Closure, *Builtin,
// *Coroutine or *ErrStr.
type Value = interface{}

// ErrStr is a string whose exact text the manual does not fix: an error
// message produced by the interpreter or a library (only its "chunk:line:"
// prefix is determined, if anything), or error("msg") raised from a statement
// that spans several lines.
type ErrStr struct {
	Lo, Hi int    // admissible lines of the position prefix (0,0: no position is required or forbidden)
	Msg    string // text after the prefix (Mode exact/suffix)
	Mode   int
}

const (
	ModeExact  = iota // "chunk:L: Msg" with L in [Lo,Hi]
	ModePrefix        // "chunk:L: <anything>" with L in [Lo,Hi]
	ModeAny           // any string
	ModeSuffix        // any string ending in Msg
)

type cell struct{ v Value }

type Closure struct {
	fn *lg.Func
	up map[*lg.Decl]*cell
}

type Builtin struct {
	Name string
	fn   func(it *Interp, fr *frame, args []Value) []Value
}

type entry struct {
	key Value
	val Value
}

// Table keeps insertion order so that next() is deterministic here; programs
// must not depend on it.
type Table struct {
	ents []*entry
	idx  map[interface{}]int
	meta *Table
}

func NewTable() *Table { return &Table{idx: map[interface{}]int{}} }

// normKey normalises a key; ok=false for nil/NaN.
func normKey(k Value) (Value, bool) {
	switch x := k.(type) {
	case nil:
		return nil, false
	case float64:
		if x != x {
			return nil, false
		}
		if i, ok := nm.FloatToInt(x); ok {
			return i, true
		}
		return x, true
	case *ErrStr:
		panic(&Unspecified{"opaque string used as table key"})
	}
	return k, true
}

func (t *Table) Get(k Value) Value {
	nk, ok := normKey(k)
	if !ok {
		return nil
	}
	if i, ok := t.idx[nk]; ok {
		return t.ents[i].val
	}
	return nil
}

// Set assumes a valid key.
func (t *Table) Set(k, v Value) {
	nk, _ := normKey(k)
	if i, ok := t.idx[nk]; ok {
		t.ents[i].val = v
		return
	}
	if v == nil {
		return
	}
	t.idx[nk] = len(t.ents)
	t.ents = append(t.ents, &entry{key: nk, val: v})
}

// Next returns the entry following key k (nil = first); ok=false if k is not
// a key of the table.
func (t *Table) Next(k Value) (nk, nv Value, ok bool) {
	i := 0
	if k != nil {
		n, valid := normKey(k)
		if !valid {
			return nil, nil, false
		}
		j, found := t.idx[n]
		if !found {
			return nil, nil, false
		}
		i = j + 1
	}
	for ; i < len(t.ents); i++ {
		if t.ents[i].val != nil {
			return t.ents[i].key, t.ents[i].val, true
		}
	}
	return nil, nil, true
}

// Border returns the border of the table; unique=false when several exist.
func (t *Table) Border() (n int64, unique bool) {
	borders := 0
	var first int64
	if t.Get(int64(1)) == nil {
		borders++
		first = 0
	}
	for _, e := range t.ents {
		if e.val == nil {
			continue
		}
		if i, ok := e.key.(int64); ok && i >= 1 {
			if i == math.MaxInt64 || t.Get(i+1) == nil {
				if borders == 0 {
					first = i
				}
				borders++
			}
		}
	}
	return first, borders == 1
}

type Coroutine struct {
	fn      Value
	status  string // suspended running normal dead
	toCo    chan coMsg
	fromCo  chan coMsg
	started bool
	parent  *Coroutine
	prot    []protMark
	depth   int
	// closeErr is the error that killed the coroutine, reported by the first
	// coroutine.close on the dead coroutine.
	closeErr   *LuaError
	closedOnce bool
	aborted    chan struct{}
}

type coMsg struct {
	vals  []Value
	err   *LuaError
	close bool
	abort bool
	unsp  *Unspecified
	done  bool
}

// LuaError is a Lua error in flight.
type LuaError struct {
	Value   Value
	handled bool // an xpcall message handler already ran for it
}

// Unspecified aborts a run whose behaviour the manual does not determine.
type Unspecified struct{ Reason string }

type coClose struct{}

// coCloseErr: the coroutine is being closed and a __close handler raised err.
type coCloseErr struct{ err *LuaError }
type coAbort struct{}

func typeName(v Value) string {
	switch v.(type) {
	case nil:
		return "nil"
	case bool:
		return "boolean"
	case int64, float64:
		return "number"
	case string, *ErrStr:
		return "string"
	case *Table:
		return "table"
	case *Closure, *Builtin:
		return "function"
	case *Coroutine:
		return "thread"
	}
	return "?"
}

func truthy(v Value) bool {
	if v == nil {
		return false
	}
	if b, ok := v.(bool); ok {
		return b
	}
	return true
}

func toNM(v Value) (nm.V, bool) {
	switch x := v.(type) {
	case int64:
		return nm.I(x), true
	case float64:
		return nm.F(x), true
	case string:
		return nm.S(x), true
	case bool:
		return nm.B(x), true
	case nil:
		return nm.NilV, true
	}
	return nm.NilV, false
}

func fromNM(v nm.V) Value {
	switch v.K {
	case nm.Int:
		return v.I
	case nm.Float:
		return v.F
	case nm.Str:
		return v.S
	case nm.Bool:
		return v.B
	}
	return nil
}

// Namer mirrors gl.Namer: ordinals by first appearance, shared across kinds.
type Namer struct{ ids map[interface{}]int }

func (n *Namer) id(kind string, key interface{}) string {
	i, ok := n.ids[key]
	if !ok {
		i = len(n.ids) + 1
		n.ids[key] = i
	}
	return kind + "#" + strconv.Itoa(i)
}

// Enc encodes a value exactly like gl.Namer.Enc does for golua values, except
// for *ErrStr which encodes as a pattern (see Match).
func (n *Namer) Enc(v Value) string {
	switch x := v.(type) {
	case nil:
		return "n"
	case bool:
		if x {
			return "b:true"
		}
		return "b:false"
	case int64:
		return "i:" + strconv.FormatInt(x, 10)
	case float64:
		if x != x {
			return "f:nan"
		}
		return "f:" + strconv.FormatUint(math.Float64bits(x), 16)
	case string:
		return "s:" + strconv.Quote(x)
	case *ErrStr:
		return fmt.Sprintf("es:%d:%d:%d:%s", x.Mode, x.Lo, x.Hi, x.Msg)
	case *Table:
		return n.id("t", x)
	case *Closure, *Builtin:
		return n.id("fn", x)
	case *Coroutine:
		return n.id("th", x)
	}
	return "?"
}

func (n *Namer) EncList(vs []Value) []string {
	out := make([]string, len(vs))
	for i, v := range vs {
		out[i] = n.Enc(v)
	}
	return out
}
