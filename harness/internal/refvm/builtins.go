package refvm

import (
	"math"
	"sort"
	"strings"

	"verif/internal/lg"
	nm "verif/internal/numodel"
)

func arg(args []Value, i int) Value {
	if i < len(args) {
		return args[i]
	}
	return nil
}

func (it *Interp) builtin(name string, fn func(it *Interp, fr *frame, args []Value) []Value) *Builtin {
	return &Builtin{Name: name, fn: fn}
}

func (it *Interp) argInt(args []Value, i int, what string) int64 {
	switch x := arg(args, i).(type) {
	case int64:
		return x
	case float64:
		if n, ok := nm.FloatToInt(x); ok {
			return n
		}
	case string:
		if v, st := nm.StringToNumber(x); st == nm.Val {
			if v.K == nm.Int {
				return v.I
			}
			if n, ok := nm.FloatToInt(v.F); ok {
				return n
			}
		}
	case *ErrStr:
		unspecified("opaque string as integer argument")
	}
	it.libError(what + "-badarg")
	return 0
}

func (it *Interp) argTable(args []Value, i int, what string) *Table {
	if t, ok := arg(args, i).(*Table); ok {
		return t
	}
	it.libError(what + "-badarg")
	return nil
}

func (it *Interp) argStr(args []Value, i int, what string) string {
	switch x := arg(args, i).(type) {
	case string:
		return x
	case int64:
		s, _ := it.tostr(x)
		return s
	case float64:
		unspecified("float converted to string")
	case *ErrStr:
		unspecified("opaque string passed to a string function")
	}
	it.libError(what + "-badarg")
	return ""
}

func (it *Interp) tostringValue(fr *frame, v Value) Value {
	if h := it.metamethod(v, "__tostring"); h != nil {
		it.feat("mm-__tostring")
		r := first(it.call(h, []Value{v}, fr, false))
		switch r.(type) {
		case string, *ErrStr:
			return r
		}
		// reference: "'__tostring' must return a string"
		it.libError("tostring-nonstring")
	}
	switch x := v.(type) {
	case nil:
		return "nil"
	case bool:
		if x {
			return "true"
		}
		return "false"
	case int64:
		s, _ := it.tostr(x)
		return s
	case float64:
		unspecified("float to string conversion format")
	case string, *ErrStr:
		return x
	}
	// tables, functions, threads: address-dependent
	if t, ok := v.(*Table); ok && t.meta != nil && t.meta.Get("__name") != nil {
		unspecified("__name")
	}
	return &ErrStr{Mode: ModeAny}
}

func (it *Interp) setupGlobals() {
	G := it.G
	set := func(t *Table, name string, fn func(it *Interp, fr *frame, args []Value) []Value) *Builtin {
		b := it.builtin(name, fn)
		t.Set(name, b)
		return b
	}
	G.Set("_G", G)
	set(G, "emit", func(it *Interp, fr *frame, args []Value) []Value {
		if len(it.Trace) < it.MaxTrace {
			it.Trace = append(it.Trace, it.N.EncList(args))
		} else {
			unspecified("trace too long")
		}
		return nil
	})
	set(G, "type", func(it *Interp, fr *frame, args []Value) []Value {
		if len(args) == 0 {
			it.libError("type-noarg")
		}
		return []Value{typeName(args[0])}
	})
	set(G, "tostring", func(it *Interp, fr *frame, args []Value) []Value {
		if len(args) == 0 {
			it.libError("tostring-noarg")
		}
		return []Value{it.tostringValue(fr, args[0])}
	})
	set(G, "tonumber", func(it *Interp, fr *frame, args []Value) []Value {
		if len(args) == 0 {
			it.libError("tonumber-noarg")
		}
		if len(args) >= 2 && args[1] != nil {
			unspecified("tonumber with base (not modelled)")
		}
		switch x := args[0].(type) {
		case int64, float64:
			return []Value{x}
		case string:
			v, st := nm.StringToNumber(x)
			switch st {
			case nm.Val:
				return []Value{fromNM(v)}
			case nm.Skip:
				unspecified("tonumber of a numeral the manual leaves open")
			}
			return []Value{nil}
		case *ErrStr:
			unspecified("tonumber of an opaque string")
		}
		return []Value{nil}
	})
	set(G, "select", func(it *Interp, fr *frame, args []Value) []Value {
		if s, ok := arg(args, 0).(string); ok && s == "#" {
			return []Value{int64(len(args) - 1)}
		}
		n := it.argInt(args, 0, "select")
		rest := args[1:]
		if n < 0 {
			n = int64(len(rest)) + n
			if n < 0 {
				it.libError("select-range")
			}
			return rest[n:]
		}
		if n == 0 {
			it.libError("select-range")
		}
		if n > int64(len(rest)) {
			return nil
		}
		return rest[n-1:]
	})
	set(G, "rawget", func(it *Interp, fr *frame, args []Value) []Value {
		t := it.argTable(args, 0, "rawget")
		if len(args) < 2 {
			it.libError("rawget-noarg")
		}
		if isOpaque(args[1]) {
			unspecified("opaque key")
		}
		return []Value{t.Get(args[1])}
	})
	set(G, "rawset", func(it *Interp, fr *frame, args []Value) []Value {
		t := it.argTable(args, 0, "rawset")
		if len(args) < 3 {
			it.libError("rawset-noarg")
		}
		if isOpaque(args[1]) {
			unspecified("opaque key")
		}
		if _, ok := normKey(args[1]); !ok {
			it.libError("rawset-badkey")
		}
		t.Set(args[1], args[2])
		return []Value{t}
	})
	set(G, "rawequal", func(it *Interp, fr *frame, args []Value) []Value {
		if len(args) < 2 {
			it.libError("rawequal-noarg")
		}
		return []Value{it.rawEquals(args[0], args[1])}
	})
	set(G, "rawlen", func(it *Interp, fr *frame, args []Value) []Value {
		switch x := arg(args, 0).(type) {
		case string:
			return []Value{int64(len(x))}
		case *Table:
			n, unique := x.Border()
			if !unique {
				unspecified("rawlen of a table with several borders")
			}
			return []Value{n}
		case *ErrStr:
			unspecified("rawlen of an opaque string")
		}
		it.libError("rawlen-badarg")
		return nil
	})
	set(G, "setmetatable", func(it *Interp, fr *frame, args []Value) []Value {
		t := it.argTable(args, 0, "setmetatable")
		if len(args) < 2 {
			it.libError("setmetatable-noarg")
		}
		var m *Table
		switch x := args[1].(type) {
		case nil:
		case *Table:
			m = x
		default:
			it.libError("setmetatable-badarg")
		}
		if t.meta != nil && t.meta.Get("__metatable") != nil {
			it.libError("setmetatable-protected")
		}
		if m != nil && m.Get("__gc") != nil {
			unspecified("__gc timing")
		}
		t.meta = m
		it.feat("setmetatable")
		return []Value{t}
	})
	set(G, "getmetatable", func(it *Interp, fr *frame, args []Value) []Value {
		if len(args) == 0 {
			it.libError("getmetatable-noarg")
		}
		m := it.metaOf(args[0])
		if m == nil {
			return []Value{nil}
		}
		if p := m.Get("__metatable"); p != nil {
			return []Value{p}
		}
		return []Value{m}
	})
	set(G, "assert", func(it *Interp, fr *frame, args []Value) []Value {
		if len(args) == 0 {
			it.libError("assert-noarg")
		}
		if truthy(args[0]) {
			return args
		}
		if len(args) >= 2 {
			it.throw(args[1])
		}
		it.libError("assert-failed")
		return nil
	})
	set(G, "error", func(it *Interp, fr *frame, args []Value) []Value {
		v := arg(args, 0)
		level := int64(1)
		if len(args) >= 2 && args[1] != nil {
			level = it.argInt(args, 1, "error")
		}
		s, isStr := v.(string)
		if _, op := v.(*ErrStr); op && level > 0 {
			unspecified("position added to an opaque message")
		}
		if !isStr || level <= 0 {
			it.feat("error-value-" + typeName(v))
			it.throw(v)
		}
		// position: level 1 = where error was called, level 2 = where the
		// function that called error was called
		if fr == nil {
			unspecified("error called from a non-Lua function with a position level")
		}
		target := fr
		if level == 2 {
			if !fr.viaCall || fr.caller == nil {
				unspecified("error level 2 from a function not entered by a plain call")
			}
			target = fr.caller
		} else if level > 2 {
			unspecified("error level > 2")
		}
		sp, ok := it.span(target)
		if !ok {
			unspecified("no line information for error position")
		}
		it.feat("error-string-level-" + string(rune('0'+level)))
		if sp.Lo == sp.Hi {
			it.throw(it.chunk + ":" + itoa(sp.Lo) + ": " + s)
		}
		it.throw(&ErrStr{Lo: sp.Lo, Hi: sp.Hi, Msg: s, Mode: ModeExact})
		return nil
	})
	set(G, "pcall", func(it *Interp, fr *frame, args []Value) []Value {
		if len(args) == 0 {
			it.libError("pcall-noarg")
		}
		return it.protectedCall(args[0], args[1:], nil, false)
	})
	set(G, "xpcall", func(it *Interp, fr *frame, args []Value) []Value {
		if len(args) < 2 {
			it.libError("xpcall-noarg")
		}
		switch args[1].(type) {
		case *Closure, *Builtin:
		default:
			unspecified("xpcall with a non-function handler")
		}
		return it.protectedCall(args[0], args[2:], args[1], true)
	})
	set(G, "ipairs", func(it *Interp, fr *frame, args []Value) []Value {
		if len(args) == 0 {
			it.libError("ipairs-noarg")
		}
		return []Value{it.hostFuncs["ipairs-iter"], args[0], int64(0)}
	})
	it.hostFuncs["ipairs-iter"] = it.builtin("ipairs-iter", func(it *Interp, fr *frame, args []Value) []Value {
		i := it.argInt(args, 1, "ipairs") + 1
		v := it.index(fr, arg(args, 0), i)
		if v == nil {
			return []Value{nil}
		}
		return []Value{i, v}
	})
	next := set(G, "next", func(it *Interp, fr *frame, args []Value) []Value {
		t := it.argTable(args, 0, "next")
		if isOpaque(arg(args, 1)) {
			unspecified("opaque key")
		}
		k, v, ok := t.Next(arg(args, 1))
		if !ok {
			it.libError("next-invalid-key")
		}
		it.feat("next")
		if k == nil {
			return []Value{nil}
		}
		return []Value{k, v}
	})
	set(G, "pairs", func(it *Interp, fr *frame, args []Value) []Value {
		if len(args) == 0 {
			it.libError("pairs-noarg")
		}
		if h := it.metamethod(args[0], "__pairs"); h != nil {
			it.feat("mm-__pairs")
			rs := it.call(h, []Value{args[0]}, fr, false)
			for len(rs) < 3 {
				rs = append(rs, nil)
			}
			return rs[:3]
		}
		it.argTable(args, 0, "pairs")
		return []Value{next, args[0], nil}
	})

	// string library (subset) ------------------------------------------------
	str := NewTable()
	G.Set("string", str)
	it.strMeta = NewTable()
	it.strMeta.Set("__index", str)
	set(str, "len", func(it *Interp, fr *frame, args []Value) []Value {
		return []Value{int64(len(it.argStr(args, 0, "len")))}
	})
	set(str, "upper", func(it *Interp, fr *frame, args []Value) []Value {
		return []Value{asciiMap(it.argStr(args, 0, "upper"), 'a', 'z', -32)}
	})
	set(str, "lower", func(it *Interp, fr *frame, args []Value) []Value {
		return []Value{asciiMap(it.argStr(args, 0, "lower"), 'A', 'Z', 32)}
	})
	set(str, "rep", func(it *Interp, fr *frame, args []Value) []Value {
		s := it.argStr(args, 0, "rep")
		n := it.argInt(args, 1, "rep")
		sep := ""
		if len(args) >= 3 && args[2] != nil {
			sep = it.argStr(args, 2, "rep")
		}
		if n <= 0 {
			return []Value{""}
		}
		if (int64(len(s))+int64(len(sep)))*n > 1<<16 {
			unspecified("string.rep result too large for the reference run")
		}
		it.burn(n)
		return []Value{strings.Repeat(s+sep, int(n-1)) + s}
	})
	set(str, "sub", func(it *Interp, fr *frame, args []Value) []Value {
		s := it.argStr(args, 0, "sub")
		l := int64(len(s))
		i := it.argInt(args, 1, "sub")
		j := int64(-1)
		if len(args) >= 3 && args[2] != nil {
			j = it.argInt(args, 2, "sub")
		}
		if i < 0 {
			i = l + i + 1
			if i < 1 {
				i = 1
			}
		} else if i == 0 {
			i = 1
		}
		if j < 0 {
			j = l + j + 1
		} else if j > l {
			j = l
		}
		if i > j {
			return []Value{""}
		}
		return []Value{s[i-1 : j]}
	})
	set(str, "byte", func(it *Interp, fr *frame, args []Value) []Value {
		s := it.argStr(args, 0, "byte")
		l := int64(len(s))
		i := int64(1)
		if len(args) >= 2 && args[1] != nil {
			i = it.argInt(args, 1, "byte")
		}
		if i < 0 {
			i = l + i + 1
		}
		if len(args) >= 3 && args[2] != nil {
			unspecified("string.byte with a range (not modelled)")
		}
		if i < 1 || i > l {
			return nil
		}
		return []Value{int64(s[i-1])}
	})
	set(str, "reverse", func(it *Interp, fr *frame, args []Value) []Value {
		s := []byte(it.argStr(args, 0, "reverse"))
		for i, j := 0, len(s)-1; i < j; i, j = i+1, j-1 {
			s[i], s[j] = s[j], s[i]
		}
		return []Value{string(s)}
	})

	// math library (subset) --------------------------------------------------
	m := NewTable()
	G.Set("math", m)
	m.Set("maxinteger", int64(math.MaxInt64))
	m.Set("mininteger", int64(math.MinInt64))
	m.Set("huge", math.Inf(1))
	for _, fn := range []string{"type", "tointeger", "floor", "ceil", "abs", "max", "min", "fmod", "ult"} {
		fn := fn
		set(m, fn, func(it *Interp, fr *frame, args []Value) []Value {
			if len(args) == 0 {
				it.libError("math-noarg")
			}
			need := 1
			if fn == "fmod" || fn == "ult" {
				need = 2
			}
			if len(args) < need {
				it.libError("math-noarg")
			}
			if fn != "max" && fn != "min" {
				args = args[:need]
			}
			vs := make([]nm.V, len(args))
			for i, a := range args {
				switch a.(type) {
				case int64, float64:
				case string, *ErrStr:
					unspecified("string passed to a math function")
				default:
					if fn == "type" || fn == "tointeger" {
						return []Value{nil}
					}
					it.libError("math-badarg")
				}
				vs[i], _ = toNM(a)
			}
			r, st := nm.Math(fn, vs...)
			switch st {
			case nm.Skip:
				unspecified("math.%s left open", fn)
			case nm.Err:
				it.libError("math-badarg")
			}
			out := make([]Value, len(r))
			for i, v := range r {
				out[i] = fromNM(v)
			}
			return out
		})
	}

	// table library (subset) -------------------------------------------------
	tb := NewTable()
	G.Set("table", tb)
	set(tb, "pack", func(it *Interp, fr *frame, args []Value) []Value {
		t := NewTable()
		for i, v := range args {
			t.Set(int64(i+1), v)
		}
		t.Set("n", int64(len(args)))
		return []Value{t}
	})
	unpack := func(it *Interp, fr *frame, args []Value) []Value {
		i := int64(1)
		if len(args) >= 2 && args[1] != nil {
			i = it.argInt(args, 1, "unpack")
		}
		var j int64
		if len(args) >= 3 && args[2] != nil {
			j = it.argInt(args, 2, "unpack")
		} else {
			lv := it.length(fr, arg(args, 0))
			n, ok := lv.(int64)
			if !ok {
				unspecified("non-integer __len in unpack")
			}
			j = n
		}
		if i > j {
			return nil
		}
		if j-i >= 1000 || j-i < 0 {
			unspecified("unpack range too large for the reference run")
		}
		out := make([]Value, 0, j-i+1)
		for k := i; k <= j; k++ {
			out = append(out, it.index(fr, arg(args, 0), k))
		}
		return out
	}
	set(tb, "unpack", unpack)
	set(tb, "insert", func(it *Interp, fr *frame, args []Value) []Value {
		t := it.argTable(args, 0, "insert")
		if t.meta != nil {
			unspecified("table.insert on a table with a metatable (access pattern not fixed)")
		}
		n, unique := t.Border()
		if !unique {
			unspecified("table.insert on a table with several borders")
		}
		switch len(args) {
		case 2:
			t.Set(n+1, args[1])
		case 3:
			pos := it.argInt(args, 1, "insert")
			if pos < 1 || pos > n+1 {
				it.libError("insert-position")
			}
			for k := n + 1; k > pos; k-- {
				t.Set(k, t.Get(k-1))
			}
			t.Set(pos, args[2])
		default:
			it.libError("insert-nargs")
		}
		return nil
	})
	set(tb, "remove", func(it *Interp, fr *frame, args []Value) []Value {
		t := it.argTable(args, 0, "remove")
		if t.meta != nil {
			unspecified("table.remove on a table with a metatable")
		}
		n, unique := t.Border()
		if !unique {
			unspecified("table.remove on a table with several borders")
		}
		pos := n
		if len(args) >= 2 {
			pos = it.argInt(args, 1, "remove")
			if n+1 != pos && (pos < 1 || pos > n+1) && !(n == 0 && pos == 0) {
				it.libError("remove-position")
			}
		}
		v := t.Get(pos)
		for ; pos < n; pos++ {
			t.Set(pos, t.Get(pos+1))
		}
		if pos >= 1 || (pos == 0 && n == 0) {
			if _, ok := normKey(pos); ok {
				t.Set(pos, nil)
			}
		}
		return []Value{v}
	})
	set(tb, "concat", func(it *Interp, fr *frame, args []Value) []Value {
		t := it.argTable(args, 0, "concat")
		if t.meta != nil {
			unspecified("table.concat on a table with a metatable")
		}
		sep := ""
		if len(args) >= 2 && args[1] != nil {
			sep = it.argStr(args, 1, "concat")
		}
		i := int64(1)
		if len(args) >= 3 && args[2] != nil {
			i = it.argInt(args, 2, "concat")
		}
		var j int64
		if len(args) >= 4 && args[3] != nil {
			j = it.argInt(args, 3, "concat")
		} else {
			n, unique := t.Border()
			if !unique {
				unspecified("table.concat on a table with several borders")
			}
			j = n
		}
		if j-i > 10000 {
			unspecified("concat range too large")
		}
		var sb strings.Builder
		for k := i; k <= j; k++ {
			switch x := t.Get(k).(type) {
			case string:
				sb.WriteString(x)
			case int64:
				s, _ := it.tostr(x)
				sb.WriteString(s)
			case float64:
				unspecified("float to string in concat")
			case *ErrStr:
				unspecified("opaque string in concat")
			default:
				it.libError("concat-badvalue")
			}
			if k < j {
				sb.WriteString(sep)
			}
		}
		return []Value{sb.String()}
	})
	set(tb, "sort", func(it *Interp, fr *frame, args []Value) []Value {
		t := it.argTable(args, 0, "sort")
		if t.meta != nil {
			unspecified("table.sort on a table with a metatable")
		}
		n, unique := t.Border()
		if !unique {
			unspecified("table.sort on a table with several borders")
		}
		if len(args) >= 2 && args[1] != nil {
			unspecified("table.sort with a comparator (number of calls not fixed)")
		}
		vals := make([]Value, n)
		allNum, allStr := true, true
		for k := int64(1); k <= n; k++ {
			vals[k-1] = t.Get(k)
			if !isNumber(vals[k-1]) {
				allNum = false
			}
			if _, ok := vals[k-1].(string); !ok {
				allStr = false
			}
		}
		if n > 1 && !allNum && !allStr {
			unspecified("table.sort on mixed values (error point not fixed)")
		}
		for _, v := range vals {
			if f, ok := v.(float64); ok && f != f {
				unspecified("sort with NaN")
			}
		}
		sort.SliceStable(vals, func(a, b int) bool { return it.less(fr, "<", vals[a], vals[b]) })
		for k := int64(1); k <= n; k++ {
			t.Set(k, vals[k-1])
		}
		return nil
	})

	// coroutine library ------------------------------------------------------
	it.setupCoroutines(set)
}

func asciiMap(s string, lo, hi byte, delta int) string {
	b := []byte(s)
	for i, c := range b {
		if c >= lo && c <= hi {
			b[i] = byte(int(c) + delta)
		}
	}
	return string(b)
}

func itoa(i int) string {
	if i == 0 {
		return "0"
	}
	neg := i < 0
	if neg {
		i = -i
	}
	var b [20]byte
	p := len(b)
	for i > 0 {
		p--
		b[p] = byte('0' + i%10)
		i /= 10
	}
	if neg {
		p--
		b[p] = '-'
	}
	return string(b[p:])
}

// protectedCall implements pcall/xpcall.
func (it *Interp) protectedCall(fn Value, args []Value, handler Value, isX bool) (out []Value) {
	p := it.prot()
	n := len(*p)
	*p = append(*p, protMark{handler: handler, isX: isX})
	depth := it.depth
	closing := it.closing
	it.closing = 0
	defer func() {
		pp := it.prot()
		*pp = (*pp)[:n]
		it.closing = closing
		if r := recover(); r != nil {
			le, ok := r.(*LuaError)
			if !ok {
				panic(r)
			}
			it.depth = depth
			if isX && !le.handled {
				unspecified("error reached xpcall without passing its handler")
			}
			it.feat("protected-call-caught")
			out = []Value{false, le.Value}
		}
	}()
	if isX {
		// the call itself may fail ("attempt to call"): that error is raised
		// inside the protected region too
	}
	res := it.call(fn, args, nil, false)
	it.feat("protected-call-ok")
	return append([]Value{true}, res...)
}

var _ = lg.IsMulti
