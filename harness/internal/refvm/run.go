package refvm

import (
	"fmt"
	"regexp"
	"strconv"
	"strings"

	"verif/internal/lg"
)

func sprint(x interface{}) string { return fmt.Sprint(x) }

// Result of a reference run.
type Result struct {
	Kind     string     // "ok", "error", "unspecified"
	Trace    [][]string // emit events, each a list of encoded values
	Rets     []string
	Err      string // encoded error value (Kind error)
	Reason   string // Kind unspecified
	Features map[string]int
	Fuel     int64 // fuel consumed
}

// Options of a run.
type Options struct {
	Chunk    string // chunk name used in positions
	Fuel     int64
	MaxTrace int
	// Setup is called with the interpreter before the run (extra host functions).
	Setup func(it *Interp)
}

// Run executes the chunk with the given arguments.
func Run(c *lg.Chunk, lines lg.Lines, args []Value, o Options) (res Result) {
	if o.Fuel == 0 {
		o.Fuel = 2000000
	}
	if o.MaxTrace == 0 {
		o.MaxTrace = 20000
	}
	if o.Chunk == "" {
		o.Chunk = "chunk"
	}
	it := &Interp{G: NewTable(), lines: lines, chunk: o.Chunk, N: &Namer{ids: map[interface{}]int{}}, fuel: o.Fuel,
		labels: map[*lg.Block]map[string]int{}, done: make(chan struct{}), MaxTrace: o.MaxTrace, Features: map[string]int{}, hostFuncs: map[string]*Builtin{}}
	if bad := lg.Validate(c); bad != "" {
		// not a Lua program: a bug of the generator, never a verdict on golua
		return Result{Kind: "unspecified", Reason: "invalid program generated: " + bad, Features: map[string]int{}}
	}
	it.setupGlobals()
	if o.Setup != nil {
		o.Setup(it)
	}
	defer func() {
		it.abortAll()
		res.Trace = it.Trace
		res.Features = it.Features
		res.Fuel = o.Fuel - it.fuel
		if r := recover(); r != nil {
			switch e := r.(type) {
			case *LuaError:
				res.Kind = "error"
				res.Err = it.N.Enc(e.Value)
			case *Unspecified:
				res.Kind = "unspecified"
				res.Reason = e.Reason
			case coClose, coAbort, coCloseErr:
				res.Kind = "unspecified"
				res.Reason = "coroutine unwinding escaped (interpreter bug)"
			default:
				res.Kind = "unspecified"
				res.Reason = "reference interpreter panic: " + fmt.Sprint(r)
			}
		}
	}()
	clos := &Closure{fn: c.Fn, up: map[*lg.Decl]*cell{}}
	vals := it.call(clos, args, nil, false)
	res.Kind = "ok"
	res.Rets = it.N.EncList(vals)
	return
}

// SetGlobal lets Setup install extra globals.
func (it *Interp) SetGlobal(name string, v Value) { it.G.Set(name, v) }

// NewBuiltin creates a host function for Setup.
func NewBuiltin(name string, fn func(args []Value) []Value) *Builtin {
	return &Builtin{Name: name, fn: func(it *Interp, fr *frame, args []Value) []Value { return fn(args) }}
}

var posRE = regexp.MustCompile(`^([^:]*):(\d+): (.*)$`)

// Match reports whether the value encoding `got` produced by golua (gl.Namer)
// is admissible for the reference encoding `want` (which may be a pattern for
// strings whose text the manual does not fix).
func Match(want, got, chunk string) bool {
	if !strings.HasPrefix(want, "es:") {
		return want == got
	}
	if !strings.HasPrefix(got, "s:") {
		return false
	}
	s, err := strconv.Unquote(got[2:])
	if err != nil {
		return false
	}
	parts := strings.SplitN(want, ":", 5)
	mode, _ := strconv.Atoi(parts[1])
	lo, _ := strconv.Atoi(parts[2])
	hi, _ := strconv.Atoi(parts[3])
	msg := parts[4]
	switch mode {
	case ModeAny:
		return true
	case ModeSuffix:
		return strings.HasSuffix(s, msg)
	}
	// the (?s) is needed: messages may contain newlines
	m := regexp.MustCompile(`(?s)^([^:]*):(\d+): (.*)$`).FindStringSubmatch(s)
	if m == nil || m[1] != chunk {
		return false
	}
	line, _ := strconv.Atoi(m[2])
	if line < lo || line > hi {
		return false
	}
	if mode == ModeExact {
		return m[3] == msg
	}
	return true
}

// MatchList compares two lists of encodings.
func MatchList(want, got []string, chunk string) bool {
	if len(want) != len(got) {
		return false
	}
	for i := range want {
		if !Match(want[i], got[i], chunk) {
			return false
		}
	}
	return true
}
