// Package tabmodel is the reference model of a Lua 5.4 table used by the C03
// check: a Go map keyed by a *normalised* key, written from the manual only
// (§2.1 "any float with integral value used as a key is converted to its
// respective integer", "any key with value nil is not considered part of the
// table", NaN and nil are not valid keys; §3.4.4 primitive equality; §3.4.7
// border; §6.1 next/pairs).  It uses no golua code.
package tabmodel

import (
	"errors"
	"fmt"
	"math"
	"sort"
	"strconv"
)

// Kind of a model value.
type Kind uint8

const (
	Nil Kind = iota
	Bool
	Int
	Float
	Str
	Ref // table, function, userdata, thread: compared by identity
)

// Val is a Lua value as the model sees it.  Reference values are identified by
// an ordinal R (the index in the harness's object pool); RK names their type
// for rendering only.
type Val struct {
	K  Kind
	B  bool
	I  int64
	F  float64
	S  string
	R  int
	RK string
}

var NilV = Val{}

func B(b bool) Val           { return Val{K: Bool, B: b} }
func I(i int64) Val          { return Val{K: Int, I: i} }
func F(f float64) Val        { return Val{K: Float, F: f} }
func S(s string) Val         { return Val{K: Str, S: s} }
func R(i int, rk string) Val { return Val{K: Ref, R: i, RK: rk} }

func (v Val) IsNil() bool { return v.K == Nil }
func (v Val) IsNaN() bool { return v.K == Float && v.F != v.F }

// Key is a normalised, comparable table key.
type Key struct {
	K  Kind
	B  bool
	I  int64
	FB uint64 // bits of a float key (never NaN, never integral-in-int64-range)
	S  string
	R  int
}

var (
	ErrNilKey = errors.New("table index is nil")
	ErrNaNKey = errors.New("table index is NaN")
)

// FloatToInt: the float has an exact integer value representable as int64
// (manual §3.4.3 "float to integer conversion ... exact representation").
func FloatToInt(f float64) (int64, bool) {
	if f != f || math.IsInf(f, 0) {
		return 0, false
	}
	if f != math.Floor(f) {
		return 0, false
	}
	// -2^63 <= f < 2^63, both bounds are exact floats
	if f < -9223372036854775808.0 || f >= 9223372036854775808.0 {
		return 0, false
	}
	return int64(f), true
}

// Normalize maps a value used as a key to the key it denotes.
func Normalize(v Val) (Key, error) {
	switch v.K {
	case Nil:
		return Key{}, ErrNilKey
	case Bool:
		return Key{K: Bool, B: v.B}, nil
	case Int:
		return Key{K: Int, I: v.I}, nil
	case Float:
		if v.F != v.F {
			return Key{}, ErrNaNKey
		}
		if i, ok := FloatToInt(v.F); ok {
			return Key{K: Int, I: i}, nil
		}
		return Key{K: Float, FB: math.Float64bits(v.F)}, nil
	case Str:
		return Key{K: Str, S: v.S}, nil
	case Ref:
		return Key{K: Ref, R: v.R}, nil
	}
	return Key{}, fmt.Errorf("bad kind %d", v.K)
}

// KeyVal is the value `next` has to return for a key: the normalised one.
func (k Key) Val(rk func(int) string) Val {
	switch k.K {
	case Bool:
		return B(k.B)
	case Int:
		return I(k.I)
	case Float:
		return F(math.Float64frombits(k.FB))
	case Str:
		return S(k.S)
	case Ref:
		n := ""
		if rk != nil {
			n = rk(k.R)
		}
		return R(k.R, n)
	}
	return NilV
}

// Same: a and b are the identical Lua value including the number subtype (what
// a table must hand back for a stored value).  NaN is the same as NaN.
func Same(a, b Val) bool {
	if a.K != b.K {
		return false
	}
	switch a.K {
	case Nil:
		return true
	case Bool:
		return a.B == b.B
	case Int:
		return a.I == b.I
	case Float:
		if a.F != a.F || b.F != b.F {
			return a.F != a.F && b.F != b.F
		}
		return math.Float64bits(a.F) == math.Float64bits(b.F)
	case Str:
		return a.S == b.S
	case Ref:
		return a.R == b.R
	}
	return false
}

// RawEqual is primitive equality, manual §3.4.4: different basic types are
// different; numbers compare by mathematical value regardless of subtype;
// strings by content; tables, userdata, threads (and functions, up to the
// closure caveat handled by the caller) by reference.
func RawEqual(a, b Val) bool {
	num := func(v Val) bool { return v.K == Int || v.K == Float }
	if num(a) && num(b) {
		switch {
		case a.K == Int && b.K == Int:
			return a.I == b.I
		case a.K == Float && b.K == Float:
			return a.F == b.F
		case a.K == Int:
			i, ok := FloatToInt(b.F)
			return ok && i == a.I
		default:
			i, ok := FloatToInt(a.F)
			return ok && i == b.I
		}
	}
	if a.K != b.K {
		return false
	}
	switch a.K {
	case Nil:
		return true
	case Bool:
		return a.B == b.B
	case Str:
		return a.S == b.S
	case Ref:
		return a.R == b.R
	}
	return false
}

// SameSlot: a and b, used as keys, address the same field.  Invalid keys
// address no field.
func SameSlot(a, b Val) bool {
	ka, ea := Normalize(a)
	kb, eb := Normalize(b)
	return ea == nil && eb == nil && ka == kb
}

// Table is the reference map.
type Table struct {
	m map[Key]Val
}

func New() *Table { return &Table{m: map[Key]Val{}} }

func (t *Table) Clone() *Table {
	c := New()
	for k, v := range t.m {
		c.m[k] = v
	}
	return c
}

// Get returns the value most recently assigned to any key equal to k, nil
// otherwise (also for nil and NaN, which are never present).
func (t *Table) Get(k Val) Val {
	key, err := Normalize(k)
	if err != nil {
		return NilV
	}
	return t.m[key]
}

// GetKey is Get for an already normalised key.
func (t *Table) GetKey(k Key) Val { return t.m[k] }

func (t *Table) Present(k Val) bool { return !t.Get(k).IsNil() }

// Set is the raw assignment t[k] = v; v == nil removes the field.
func (t *Table) Set(k, v Val) error {
	key, err := Normalize(k)
	if err != nil {
		return err
	}
	if v.IsNil() {
		delete(t.m, key)
		return nil
	}
	t.m[key] = v
	return nil
}

func (t *Table) Count() int { return len(t.m) }

// IsBorder: manual §3.4.7, "(border == 0 or t[border] ~= nil) and
// (t[border + 1] == nil or border == math.maxinteger)".
func (t *Table) IsBorder(n int64) bool {
	if n < 0 {
		return false
	}
	if n != 0 {
		if _, ok := t.m[Key{K: Int, I: n}]; !ok {
			return false
		}
	}
	if n == math.MaxInt64 {
		return true
	}
	_, ok := t.m[Key{K: Int, I: n + 1}]
	return !ok
}

// Keys returns the present keys in a deterministic order.
func (t *Table) Keys() []Key {
	ks := make([]Key, 0, len(t.m))
	for k := range t.m {
		ks = append(ks, k)
	}
	sort.Slice(ks, func(i, j int) bool { return keyLess(ks[i], ks[j]) })
	return ks
}

func keyLess(a, b Key) bool {
	if a.K != b.K {
		return a.K < b.K
	}
	switch a.K {
	case Bool:
		return !a.B && b.B
	case Int:
		return a.I < b.I
	case Float:
		return a.FB < b.FB
	case Str:
		return a.S < b.S
	case Ref:
		return a.R < b.R
	}
	return false
}

// Traversal checks one next/pairs traversal during which only existing fields
// are assigned or cleared (manual §6.1 next): every key visited must be a
// present field at the moment it is returned, be handed out in its normalised
// form with its current value and at most once; at the end every key still
// present (the set of fields can only shrink) must have been visited.
type Traversal struct {
	t       *Table
	visited map[Key]bool
	Steps   int
}

func (t *Table) BeginTraversal() *Traversal {
	return &Traversal{t: t, visited: map[Key]bool{}}
}

// Visit records that next returned (k, v).
func (tr *Traversal) Visit(k, v Val) error {
	tr.Steps++
	key, err := Normalize(k)
	if err != nil {
		return fmt.Errorf("traversal returned the invalid key %s", Show(k))
	}
	// The key handed out must be the normalised key itself (an integral float is
	// "converted to its respective integer").
	if k.K == Float && key.K == Int {
		return fmt.Errorf("traversal returned float key %s for the integer key %d", Show(k), key.I)
	}
	cur, ok := tr.t.m[key]
	if !ok {
		return fmt.Errorf("traversal visited key %s which is absent", Show(k))
	}
	if tr.visited[key] {
		return fmt.Errorf("traversal visited key %s twice", Show(k))
	}
	tr.visited[key] = true
	if !Same(cur, v) {
		return fmt.Errorf("traversal returned value %s for key %s, the field holds %s", Show(v), Show(k), Show(cur))
	}
	return nil
}

// Assign applies an update made during the traversal.  It reports whether the
// update is legal (the field exists); illegal updates are not applied.
func (tr *Traversal) Assign(k, v Val) bool {
	if !tr.t.Present(k) {
		return false
	}
	tr.t.Set(k, v)
	return true
}

// End is called when next returned nil.
func (tr *Traversal) End() error {
	for _, k := range tr.t.Keys() {
		if !tr.visited[k] {
			return fmt.Errorf("traversal ended without visiting key %s, present throughout", Show(k.Val(nil)))
		}
	}
	return nil
}

// Show renders a value readably (Lua-like).
func Show(v Val) string {
	switch v.K {
	case Nil:
		return "nil"
	case Bool:
		return strconv.FormatBool(v.B)
	case Int:
		return strconv.FormatInt(v.I, 10)
	case Float:
		return ShowFloat(v.F)
	case Str:
		return strconv.Quote(v.S)
	case Ref:
		if v.RK != "" {
			return fmt.Sprintf("<%s#%d>", v.RK, v.R)
		}
		return fmt.Sprintf("<ref#%d>", v.R)
	}
	return "?"
}

// ShowFloat renders a float so that it reads back as a float.
func ShowFloat(f float64) string {
	switch {
	case f != f:
		return "nan"
	case math.IsInf(f, 1):
		return "inf"
	case math.IsInf(f, -1):
		return "-inf"
	case f == 0 && math.Signbit(f):
		return "-0.0"
	}
	s := strconv.FormatFloat(f, 'g', -1, 64)
	for _, c := range s {
		if c == '.' || c == 'e' {
			return s
		}
	}
	return s + ".0"
}
