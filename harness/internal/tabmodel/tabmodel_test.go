package tabmodel

import (
	"math"
	"testing"
)

func TestNormalize(t *testing.T) {
	same := func(a, b Val) bool { return SameSlot(a, b) }
	if !same(F(2), I(2)) || !same(F(math.Copysign(0, -1)), I(0)) || !same(F(1<<53), I(1<<53)) {
		t.Fatal("integral floats must denote the integer key")
	}
	if !same(F(-9223372036854775808.0), I(math.MinInt64)) {
		t.Fatal("-2^63")
	}
	if same(F(9223372036854775808.0), I(math.MaxInt64)) || same(F(9223372036854775808.0), I(math.MinInt64)) {
		t.Fatal("2^63 is not an int64")
	}
	if same(F(0.5), I(0)) || same(S("1"), I(1)) || same(B(true), I(1)) {
		t.Fatal("distinct keys")
	}
	if _, err := Normalize(F(math.NaN())); err != ErrNaNKey {
		t.Fatal("nan")
	}
	if _, err := Normalize(NilV); err != ErrNilKey {
		t.Fatal("nil")
	}
	if same(F(math.NaN()), F(math.NaN())) {
		t.Fatal("nan addresses nothing")
	}
}

func TestTable(t *testing.T) {
	m := New()
	m.Set(I(1), S("a"))
	m.Set(F(2), S("b"))
	m.Set(I(4), B(false))
	if !Same(m.Get(F(1)), S("a")) || !Same(m.Get(I(2)), S("b")) || !m.Present(I(4)) {
		t.Fatal("get")
	}
	if !m.IsBorder(2) || !m.IsBorder(4) || m.IsBorder(0) || m.IsBorder(1) || m.IsBorder(3) || m.IsBorder(5) {
		t.Fatal("border")
	}
	m.Set(I(1), NilV)
	if !m.IsBorder(0) || !m.IsBorder(2) || !m.IsBorder(4) {
		t.Fatal("border with hole at 1")
	}
	tr := m.BeginTraversal()
	if tr.Visit(I(2), S("b")) != nil {
		t.Fatal("visit")
	}
	if tr.Visit(I(2), S("b")) == nil {
		t.Fatal("dup visit must fail")
	}
	if !tr.Assign(F(4), NilV) || tr.Assign(I(4), I(1)) || tr.Assign(I(9), I(1)) {
		t.Fatal("assign legality")
	}
	if tr.End() != nil {
		t.Fatal("end")
	}
	m.Set(I(7), I(1))
	if m.BeginTraversal().End() == nil {
		t.Fatal("missed key must fail")
	}
	if tr2 := m.BeginTraversal(); tr2.Visit(F(7), I(1)) == nil {
		t.Fatal("float spelling of an integer key must not be handed out")
	}
	if !RawEqual(I(1), F(1)) || RawEqual(I(1), S("1")) || RawEqual(F(math.NaN()), F(math.NaN())) || !RawEqual(F(0), F(math.Copysign(0, -1))) {
		t.Fatal("rawequal")
	}
	if RawEqual(I(1<<53+1), F(1<<53)) {
		t.Fatal("2^53+1 ~= 2^53 float")
	}
}
