package eng

import (
	"fmt"
	"math/rand"
	"strings"

	"verif/internal/gl"
	"verif/internal/lg"
	"verif/internal/vp"
)

// Corpus describes a run of generated programs through the comparison.
type Corpus struct {
	Programs int
	Options  func(r *rand.Rand) lg.GenOptions
	NStyles  int // 1..4 renderings per program
	NArgs    int // argument tuples per rendering
	Salt     int64
	// NonTrivial decides whether a decided case counts for the evidence.
	NonTrivial func(cs *Case, p *lg.Program) bool
	// Extra is called for every decided case (additional monitors).
	Extra func(c *vp.Child, cs *Case, p *lg.Program, id string)
	// Transform may rewrite the generated program before it is rendered.
	Transform func(p *lg.Program, r *rand.Rand)
	// Variant, if set, changes how each case is executed.
	Variant *Variant
	// OnOutcome, if set, receives golua's outcome of every case, including the
	// cases the reference cannot decide (golua is then run all the same).
	OnOutcome func(id, text string, args []Arg, got *gl.Outcome)
}

// AfterCase, if set, is called after every decided case of Run and RunFixed
// (additional monitors of a property, e.g. the goroutine-leak monitor).
var AfterCase func(c *vp.Child, cs *Case, id string)

// GenProgram generates program i of a corpus (a pure function of seed, salt, i).
func GenProgram(seed, salt int64, i int, opt func(r *rand.Rand) lg.GenOptions) (*lg.Program, *rand.Rand) {
	r := rand.New(rand.NewSource(seed*1000003 + salt*100000007 + int64(i)*7919 + 17))
	o := lg.DefaultGenOptions()
	if opt != nil {
		o = opt(r)
	} else {
		o.Stmts = 15 + r.Intn(45)
	}
	g := lg.NewGen(r, o)
	return g.Program(), r
}

// Run executes the part of the corpus that belongs to the child's batch.
func (cp Corpus) Run(c *vp.Child) {
	feats := map[string]int{}
	for i := 0; i < cp.Programs; i++ {
		if !c.Mine(i) {
			continue
		}
		p, r := GenProgram(c.Seed, cp.Salt, i, cp.Options)
		if cp.Transform != nil {
			cp.Transform(p, r)
		}
		styles := Styles(r, 4)
		chosen := []int{0, 1, 2, 3}
		if cp.NStyles < 4 {
			chosen = []int{0}
			for k := 1; k < cp.NStyles; k++ {
				chosen = append(chosen, 1+(i+k)%3)
			}
		}
		for _, si := range chosen {
			text, lines := lg.Render(p.Chunk, styles[si])
			for a := 0; a < cp.NArgs; a++ {
				args := ArgsFor(r, p.ArgKinds)
				id := fmt.Sprintf("p%d/s%d/a%d", i, si, a)
				c.Begin(id, "-- args: "+ArgsLua(args)+"\n"+text)
				var cs *Case
				if cp.Variant != nil {
					cs = CheckVariant(p, text, lines, args, *cp.Variant)
				} else {
					cs = Check(p, text, lines, args)
				}
				c.Eval(1)
				if cp.OnOutcome != nil && !resourceSkip(cs.Skip) {
					if cs.Got == nil {
						cs.Got = RunText(text, args)
					}
					cp.OnOutcome(id, text, args, cs.Got)
				}
				if cs.Skip != "" {
					c.Inconclusive("reference: " + SkipClass(cs.Skip))
					continue
				}
				for k, v := range cs.Want.Features {
					feats[k] += v
				}
				if cp.NonTrivial == nil || cp.NonTrivial(cs, p) {
					c.NonTrivial(vp.Hash(text, ArgsLua(args)))
				}
				if cs.Mis != nil {
					c.Violation(cs.Mis.What, Sig(cs), cs.Mis.String()+"\n(reference: "+cs.Want.Kind+", "+fmt.Sprint(len(cs.Want.Trace))+" events)", cs.Describe())
				} else if c.WantSample() && cs.Events >= 5 && len(text) < 1500 {
					c.Sample(map[string]interface{}{"program": text, "args": ArgsLua(args), "events": cs.Events, "outcome": cs.Want.Kind})
				}
				if cp.Extra != nil {
					cp.Extra(c, cs, p, id)
				}
				if AfterCase != nil {
					AfterCase(c, cs, id)
				}
			}
		}
		for k, v := range p.Features {
			feats["gen:"+k] += v
		}
	}
	for k, v := range feats {
		c.Feature(k, int64(v))
	}
	if ops := gl.OpCounts(); ops != nil {
		for k, v := range ops {
			c.Feature("vm:"+k, int64(v))
		}
	}
	for k, v := range gl.PointCounts() {
		c.Feature("handoff:"+k, v)
	}
}

// resourceSkip: the reference gave up for lack of resources (the program may
// not terminate or may be huge): golua is not run on it without a verdict.
func resourceSkip(reason string) bool {
	for _, w := range []string{"fuel", "too long", "too large", "call depth", "panic"} {
		if strings.Contains(reason, w) {
			return true
		}
	}
	return false
}

// SkipClass shortens a reason to a class (numbers and details removed).
func SkipClass(s string) string {
	if i := strings.IndexAny(s, "0123456789"); i > 0 {
		s = s[:i]
	}
	if len(s) > 60 {
		s = s[:60]
	}
	return s
}

// Sig is a signature of a mismatch: its kind and the shape of the first
// divergence, without numbers.
func Sig(cs *Case) string {
	d := cs.Mis.Detail
	if i := strings.IndexByte(d, '\n'); i > 0 {
		d = d[:i]
	}
	var b strings.Builder
	digits := false
	for i := 0; i < len(d) && b.Len() < 120; i++ {
		ch := d[i]
		if ch >= '0' && ch <= '9' {
			if !digits {
				b.WriteByte('N')
			}
			digits = true
			continue
		}
		digits = false
		b.WriteByte(ch)
	}
	return b.String()
}

// NFeatures counts the distinct feature kinds of a reference run.
func NFeatures(cs *Case) int { return len(cs.Want.Features) }

// RunFixed runs n deterministic programs (an enumerated matrix rather than
// PRNG-generated ones) in the given number of renderings, without arguments.
func RunFixed(c *vp.Child, n int, nstyles int, get func(i int) (*lg.Program, string), nonTrivial func(cs *Case) bool) {
	feats := map[string]int{}
	for i := 0; i < n; i++ {
		if !c.Mine(i) {
			continue
		}
		p, label := get(i)
		r := rand.New(rand.NewSource(c.Seed*7919 + int64(i)))
		styles := Styles(r, 4)
		for si := 0; si < nstyles && si < 4; si++ {
			text, lines := lg.Render(p.Chunk, styles[si])
			id := fmt.Sprintf("%s/s%d", label, si)
			c.Begin(id, "-- "+label+"\n"+text)
			cs := Check(p, text, lines, nil)
			c.Eval(1)
			if cs.Skip != "" {
				c.Inconclusive("reference: " + SkipClass(cs.Skip))
				continue
			}
			for k, v := range cs.Want.Features {
				feats[k] += v
			}
			if nonTrivial == nil || nonTrivial(cs) {
				c.NonTrivial(vp.Hash(text))
			}
			if cs.Mis != nil {
				c.Violation(cs.Mis.What, label+": "+Sig(cs), cs.Mis.String()+"\n(reference: "+cs.Want.Kind+", "+fmt.Sprint(len(cs.Want.Trace))+" events)", "-- "+label+"\n"+text)
			} else if c.WantSample() && si == 0 {
				c.Sample(map[string]interface{}{"case": label, "program": text, "events": cs.Events, "reference_trace": cs.Want.Trace})
			}
			if AfterCase != nil {
				AfterCase(c, cs, id)
			}
		}
	}
	for k, v := range feats {
		c.Feature(k, int64(v))
	}
}
