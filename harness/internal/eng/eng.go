// Package eng is the shared "generated program vs reference interpreter"
// engine: it generates lg programs, renders them, runs the text through golua
// and the tree through refvm, and compares the observable behaviour.
package eng

import (
	"fmt"
	"math"
	"math/rand"
	"sort"
	"strings"

	rt "github.com/arnodel/golua/runtime"

	"verif/internal/gl"
	"verif/internal/lg"
	"verif/internal/refvm"
)

const ChunkName = "chunk"

// Styles are the renderings every program is tried in.
func Styles(r *rand.Rand, n int) []lg.Style {
	all := []lg.Style{
		{},
		{Redundant: true, Sugar: true, Semis: true},
		{Noise: true, AltLiteral: true},
		{Redundant: true, Noise: true, AltLiteral: true, Sugar: true, Semis: true},
	}
	if n > len(all) {
		n = len(all)
	}
	out := all[:n]
	for i := range out {
		out[i].Rnd = rand.New(rand.NewSource(r.Int63()))
	}
	return out
}

// Arg is one argument value in both worlds.
type Arg struct {
	Ref refvm.Value
	Rt  rt.Value
	Lua string
}

func IntArg(i int64) Arg { return Arg{Ref: i, Rt: rt.IntValue(i), Lua: fmt.Sprint(i)} }
func FloatArg(f float64) Arg {
	return Arg{Ref: f, Rt: rt.FloatValue(f), Lua: fmt.Sprintf("%v", f)}
}
func StrArg(s string) Arg { return Arg{Ref: s, Rt: rt.StringValue(s), Lua: fmt.Sprintf("%q", s)} }
func BoolArg(b bool) Arg  { return Arg{Ref: b, Rt: rt.BoolValue(b), Lua: fmt.Sprint(b)} }
func NilArg() Arg         { return Arg{Ref: nil, Rt: rt.NilValue, Lua: "nil"} }

var intArgs = []int64{0, 1, -1, 2, 5, 10, 100, 1 << 31, 1 << 53, math.MaxInt64, math.MinInt64, 7, 3}
var floatArgs = []float64{0, 0.5, -1.5, 2, 1e10, 3.25, math.Inf(1), math.NaN(), -0.0, 1 << 53}
var strArgs = []string{"", "a", "abc", "10", "0x10", "hello world", "z", "1e2", "\x00\xff", " 5 "}

// ArgsFor draws an argument tuple for the program's declared kinds; sometimes
// with a value of another kind, sometimes shorter or longer.
func ArgsFor(r *rand.Rand, kinds []lg.Kind) []Arg {
	var out []Arg
	for _, k := range kinds {
		kk := k
		if r.Intn(8) == 0 {
			kk = lg.KAny
		}
		switch kk {
		case lg.KInt:
			out = append(out, IntArg(intArgs[r.Intn(len(intArgs))]))
		case lg.KFloat:
			out = append(out, FloatArg(floatArgs[r.Intn(len(floatArgs))]))
		case lg.KStr:
			out = append(out, StrArg(strArgs[r.Intn(len(strArgs))]))
		case lg.KBool:
			out = append(out, BoolArg(r.Intn(2) == 0))
		default:
			switch r.Intn(5) {
			case 0:
				out = append(out, NilArg())
			case 1:
				out = append(out, IntArg(intArgs[r.Intn(len(intArgs))]))
			case 2:
				out = append(out, StrArg(strArgs[r.Intn(len(strArgs))]))
			case 3:
				out = append(out, BoolArg(r.Intn(2) == 0))
			default:
				out = append(out, FloatArg(floatArgs[r.Intn(len(floatArgs))]))
			}
		}
	}
	switch r.Intn(10) {
	case 0:
		if len(out) > 0 {
			out = out[:len(out)-1]
		}
	case 1:
		out = append(out, IntArg(42), StrArg("extra"))
	}
	return out
}

func ArgsLua(as []Arg) string {
	p := make([]string, len(as))
	for i, a := range as {
		p[i] = a.Lua
	}
	return strings.Join(p, ", ")
}

// Mismatch describes a disagreement between golua and the reference.
type Mismatch struct {
	What   string // "compile", "kind", "trace", "rets", "error", "panic", "hook"
	Detail string
}

func (m *Mismatch) String() string { return m.What + ": " + m.Detail }

// Compare checks golua's outcome against the reference result.
func Compare(want refvm.Result, got *gl.Outcome) *Mismatch {
	if got.Kind == gl.Panic {
		return &Mismatch{"panic", got.PanicMsg + "\n" + got.Stack}
	}
	if got.Kind == gl.CompileError {
		return &Mismatch{"compile", "golua rejects the program: " + got.ErrMsg}
	}
	n := len(want.Trace)
	if len(got.TraceV) < n {
		n = len(got.TraceV)
	}
	for i := 0; i < n; i++ {
		if !refvm.MatchList(want.Trace[i], got.TraceV[i], ChunkName) {
			return &Mismatch{"trace", fmt.Sprintf("event %d: reference %v, golua %v", i, want.Trace[i], got.TraceV[i])}
		}
	}
	if len(want.Trace) != len(got.TraceV) {
		extra := ""
		if len(got.TraceV) > n {
			extra = fmt.Sprintf("; golua's next event %v", got.TraceV[n])
		} else {
			extra = fmt.Sprintf("; the reference's next event %v", want.Trace[n])
		}
		return &Mismatch{"trace", fmt.Sprintf("reference has %d events, golua %d%s (golua outcome %s %s)", len(want.Trace), len(got.TraceV), extra, got.Kind, got.ErrMsg)}
	}
	switch want.Kind {
	case "ok":
		if got.Kind != gl.OK {
			return &Mismatch{"kind", fmt.Sprintf("reference completes with %v, golua: %s %s", want.Rets, got.Kind, got.ErrMsg)}
		}
		if !refvm.MatchList(want.Rets, got.RetsV, ChunkName) {
			return &Mismatch{"rets", fmt.Sprintf("reference returns %v, golua %v", want.Rets, got.RetsV)}
		}
	case "error":
		if got.Kind != gl.LuaError {
			return &Mismatch{"kind", fmt.Sprintf("reference raises %s, golua: %s rets=%v", want.Err, got.Kind, got.RetsV)}
		}
		if !refvm.Match(want.Err, got.ErrVal, ChunkName) {
			return &Mismatch{"error", fmt.Sprintf("reference raises %s, golua raises %s", want.Err, got.ErrVal)}
		}
	}
	if len(got.Reports) > 0 {
		return &Mismatch{"hook", strings.Join(got.Reports, "; ")}
	}
	return nil
}

// Case is one generated program in one rendering with one argument tuple.
type Case struct {
	Text   string
	Args   []Arg
	Want   refvm.Result
	Got    *gl.Outcome
	Mis    *Mismatch
	Skip   string // reason the reference gave no verdict
	Events int
}

// RunText runs source text in a fresh golua session.
// SessOptions gives the options of the golua sessions the engine creates
// (a check may run its cases in runtimes created with options, e.g. inside a
// runtime context that has a host message handler).
var SessOptions = func() gl.Options { return gl.Options{} }

func RunText(text string, args []Arg) *gl.Outcome {
	s := gl.NewSess(SessOptions())
	defer s.Close()
	clos, out := s.Compile(ChunkName, text)
	if out != nil {
		return out
	}
	rargs := make([]rt.Value, len(args))
	for i, a := range args {
		rargs[i] = a.Rt
	}
	return s.Call(rt.FunctionValue(clos), rargs)
}

// RunRef runs the tree in the reference interpreter.
func RunRef(p *lg.Program, lines lg.Lines, args []Arg) refvm.Result {
	rargs := make([]refvm.Value, len(args))
	for i, a := range args {
		rargs[i] = a.Ref
	}
	return refvm.Run(p.Chunk, lines, rargs, refvm.Options{Chunk: ChunkName})
}

// Check runs one program/rendering/arguments through both and compares.
func Check(p *lg.Program, text string, lines lg.Lines, args []Arg) *Case {
	c := &Case{Text: text, Args: args}
	c.Want = RunRef(p, lines, args)
	if c.Want.Kind == "unspecified" {
		c.Skip = c.Want.Reason
		return c
	}
	c.Events = len(c.Want.Trace)
	c.Got = RunText(text, args)
	c.Mis = Compare(c.Want, c.Got)
	return c
}

// Describe renders a case as a replayable witness.
func (c *Case) Describe() string {
	var b strings.Builder
	fmt.Fprintf(&b, "-- args: %s\n%s", ArgsLua(c.Args), c.Text)
	return b.String()
}

// FeatureKeys returns the sorted keys with non-zero counts.
func FeatureKeys(m map[string]int) []string {
	var ks []string
	for k, v := range m {
		if v > 0 {
			ks = append(ks, k)
		}
	}
	sort.Strings(ks)
	return ks
}

// Variant changes how a case is run on both sides (used by C13: the chunk is
// dumped and reloaded; function literals go through redump).
type Variant struct {
	// HostPrelude is Lua source run in the golua session before the program.
	HostPrelude string
	// RefSetup installs the reference's counterpart of the prelude.
	RefSetup func(it *refvm.Interp)
	// Via turns the compiled closure into the function that is called (may use
	// a second session, returned so that it is closed afterwards). A non-nil
	// Mismatch aborts the case with that verdict.
	Via func(s *gl.Sess, clos *rt.Closure) (f rt.Value, run *gl.Sess, mis *Mismatch)
}

// CheckVariant is Check with a Variant.
func CheckVariant(p *lg.Program, text string, lines lg.Lines, args []Arg, v Variant) *Case {
	c := &Case{Text: text, Args: args}
	rargs := make([]refvm.Value, len(args))
	for i, a := range args {
		rargs[i] = a.Ref
	}
	c.Want = refvm.Run(p.Chunk, lines, rargs, refvm.Options{Chunk: ChunkName, Setup: v.RefSetup})
	if c.Want.Kind == "unspecified" {
		c.Skip = c.Want.Reason
		return c
	}
	c.Events = len(c.Want.Trace)
	s := gl.NewSess(SessOptions())
	defer s.Close()
	if v.HostPrelude != "" {
		pc, out := s.Compile("prelude", v.HostPrelude)
		if out == nil {
			out = s.Call(rt.FunctionValue(pc), nil)
		}
		if out.Kind != gl.OK {
			c.Got = out
			c.Mis = &Mismatch{"prelude", "host prelude failed: " + out.Kind + " " + out.ErrMsg + out.PanicMsg}
			return c
		}
	}
	clos, out := s.Compile(ChunkName, text)
	if out != nil {
		c.Got = out
		c.Mis = Compare(c.Want, out)
		return c
	}
	f := rt.FunctionValue(clos)
	run := s
	if v.Via != nil {
		var mis *Mismatch
		f, run, mis = v.Via(s, clos)
		if run != nil && run != s {
			defer run.Close()
		}
		if mis != nil {
			c.Mis = mis
			return c
		}
		if run == nil {
			run = s
		}
	}
	rtargs := make([]rt.Value, len(args))
	for i, a := range args {
		rtargs[i] = a.Rt
	}
	c.Got = run.Call(f, rtargs)
	c.Mis = Compare(c.Want, c.Got)
	return c
}
