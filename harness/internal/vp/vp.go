// Package vp is the shared skeleton of every check: a parent process that plans
// stages, builds the child binaries from /repo's current tree, runs batches of
// cases in child processes under a watchdog, aggregates what the monitors saw,
// matches violations against the committed known-findings file and writes the
// evidence file.  The child side offers the journal ("log the case before
// running it"), the counters and the violation recorder.
package vp

import (
	"encoding/json"
	"fmt"
	"hash/fnv"
	"math/rand"
	"os"
	"path/filepath"
	"sort"
	"strconv"
	"strings"
	"sync"
)

// Tier is "quick" or "thorough".
type Tier string

const (
	Quick    Tier = "quick"
	Thorough Tier = "thorough"
)

// Root of the verification tree (overridable for snapshots run by `vp run`).
func Root() string {
	if r := os.Getenv("VERIF_ROOT"); r != "" {
		return r
	}
	return "/verif"
}

// Stage is one homogeneous set of batches run by child processes.
type Stage struct {
	Name     string
	Race     bool     // build the child with -race
	Asan     bool     // build the child with -asan
	Tags     []string // extra build tags (on top of verif)
	NoVerif  bool     // build without the verif tag (hooks off)
	NBatches int
	Env      []string // extra environment for the children
	// Wrap, if set, returns the full argv to execute given the child's argv
	// (e.g. to put strace in front).  workdir is the batch's scratch dir.
	Wrap     func(batch int, argv []string, workdir string) []string
	TimeoutS int // watchdog per batch (SIGQUIT), default 300
	Procs    int // parallel children, default 16
	// CrashInconclusive: a child that dies is counted inconclusive rather
	// than as a violation (only for stages where a crash is the documented
	// effect of a defect judged by another property).
	CrashInconclusive bool
	// TimeoutIsViolation: the watchdog firing is a violation (deadlock
	// checks); otherwise it is inconclusive.
	TimeoutIsViolation bool
	// DeadlockOnly refines TimeoutIsViolation: the watchdog firing is a
	// violation only when the goroutine dump shows no running or runnable
	// goroutine (every goroutine parked: a deadlock); a dump with a goroutine
	// still at work is inconclusive (slow machine).
	DeadlockOnly bool
	// CrashSig, if set, computes the signature of a child crash from the
	// excerpt of the child's log and the journalled last case (default: the
	// first panic / fatal line of the log).
	CrashSig func(logTail, lastCase string) string
}

func (s Stage) variant() string {
	v := "plain"
	if s.NoVerif {
		v = "nohooks"
	}
	if s.Race {
		v += "-race"
	}
	if s.Asan {
		v += "-asan"
	}
	for _, t := range s.Tags {
		v += "-" + t
	}
	return v
}

// Violation is one refuting observation.
type Violation struct {
	Property string `json:"property"`
	Kind     string `json:"kind"`
	// Sig is a short canonical signature of the minimised witness; known
	// findings are matched against it.
	Sig    string `json:"sig"`
	Detail string `json:"detail"`
	Input  string `json:"input,omitempty"`
	Stage  string `json:"stage"`
	Batch  int    `json:"batch"`
	CaseID string `json:"case_id,omitempty"`
}

// BatchResult is what a child writes when it finishes.
type BatchResult struct {
	Stage         string            `json:"stage"`
	Batch         int               `json:"batch"`
	Completed     bool              `json:"completed"`
	Evaluations   int64             `json:"evaluations"`
	Features      map[string]int64  `json:"features"`
	Samples       []interface{}     `json:"samples"`
	Violations    []Violation       `json:"violations"`
	Inconclusive  int64             `json:"inconclusive"`
	InconclReason map[string]int64  `json:"inconclusive_reasons"`
	Outputs       map[string]string `json:"outputs,omitempty"`
	NonTrivial    int64             `json:"nontrivial"`
	// Hashes of the non-trivial cases are in a side file (binary, 8 bytes each).
	// Filled by the parent for crashed / timed-out children:
	ExitCode int    `json:"exit_code"`
	Crashed  bool   `json:"crashed"`
	TimedOut bool   `json:"timed_out"`
	NotRun   bool   `json:"not_run"` // the child process could not be started or waited for
	LastCase string `json:"last_case,omitempty"`
	LogTail  string `json:"log_tail,omitempty"`
}

// Prop is implemented by each property's check.
type Prop interface {
	ID() string
	// Plan returns the stages for a tier.
	Plan(tier Tier) []Stage
	// RunBatch executes the cases of one batch in a child process.
	RunBatch(c *Child)
	// Describe returns the rule text, assumptions and the floor of distinct
	// non-trivial cases below which a run counts as broken.
	Describe(tier Tier) Description
}

// Finisher is optionally implemented by props that need a cross-batch /
// cross-stage decision in the parent (differential checks).
type Finisher interface {
	Finish(p *Parent)
}

// Replayer is optionally implemented to re-run one recorded witness.
type Replayer interface {
	Replay(c *Child, input string)
}

type Description struct {
	Rule        string
	Assumptions []string
	Floor       int64
	Exhaustive  bool
	Extra       map[string]interface{}
}

// ---------------------------------------------------------------------------
// Child side

type Child struct {
	Prop    string
	Stage   string
	Tier    Tier
	Seed    int64
	Batch   int
	NB      int
	WorkDir string // scratch directory private to this batch

	res      BatchResult
	hashes   map[uint64]struct{}
	journal  *os.File
	mu       sync.Mutex
	maxSamp  int
	curCase  string
	curInput string
	maxViol  int
}

func (c *Child) Thorough() bool { return c.Tier == Thorough }

// Pick returns q for the quick tier and t for thorough.
func (c *Child) Pick(q, t int) int {
	if c.Tier == Thorough {
		return t
	}
	return q
}

// Rand returns a PRNG determined by (seed, stage, batch, salt).
func (c *Child) Rand(salt string) *rand.Rand {
	h := fnv.New64a()
	fmt.Fprintf(h, "%d|%s|%d|%s", c.Seed, c.Stage, c.Batch, salt)
	return rand.New(rand.NewSource(int64(h.Sum64())))
}

// Mine reports whether item i of a global enumeration belongs to this batch.
func (c *Child) Mine(i int) bool { return i%c.NB == c.Batch }

// Begin journals the case about to be executed so that the input that kills
// the process is known.  input may be large; it is written in full.
func (c *Child) Begin(caseID, input string) {
	c.mu.Lock()
	c.curCase, c.curInput = caseID, input
	c.mu.Unlock()
	if c.journal != nil {
		c.journal.Truncate(0)
		c.journal.Seek(0, 0)
		c.journal.WriteString(caseID + "\n" + input)
	}
}

// BeginLight records the current case for violation attribution without
// touching the journal file (for sub-microsecond pointwise cases the caller
// journals per group with Begin).
func (c *Child) BeginLight(caseID string) {
	c.curCase = caseID
}

func (c *Child) Eval(n int64) { c.res.Evaluations += n }

// NonTrivial records a distinct non-trivial case by content hash.
func (c *Child) NonTrivial(h uint64) {
	c.mu.Lock()
	c.hashes[h] = struct{}{}
	c.mu.Unlock()
}

func Hash(parts ...string) uint64 {
	h := fnv.New64a()
	for _, p := range parts {
		h.Write([]byte(p))
		h.Write([]byte{0})
	}
	return h.Sum64()
}

func (c *Child) Feature(name string, n int64) {
	c.mu.Lock()
	c.res.Features[name] += n
	c.mu.Unlock()
}

// Sample keeps up to a few written-out cases for the evidence file.
func (c *Child) Sample(x interface{}) {
	c.mu.Lock()
	if len(c.res.Samples) < c.maxSamp {
		c.res.Samples = append(c.res.Samples, x)
	}
	c.mu.Unlock()
}

func (c *Child) WantSample() bool { return len(c.res.Samples) < c.maxSamp }

func (c *Child) Output(k, v string) {
	c.mu.Lock()
	if c.res.Outputs == nil {
		c.res.Outputs = map[string]string{}
	}
	c.res.Outputs[k] = v
	c.mu.Unlock()
}

func (c *Child) Inconclusive(reason string) {
	c.mu.Lock()
	c.res.Inconclusive++
	c.res.InconclReason[reason]++
	c.mu.Unlock()
}

// Violation records a refuting observation.  sig must be a short canonical
// signature of the witness.
func (c *Child) Violation(kind, sig, detail, input string) {
	c.mu.Lock()
	defer c.mu.Unlock()
	if len(c.res.Violations) >= c.maxViol {
		c.res.Features["violations_dropped_over_cap"]++
		return
	}
	if input == "" {
		input = c.curInput
	}
	if len(input) > 1<<16 {
		input = input[:1<<16] + "...[truncated]"
	}
	if len(detail) > 1<<14 {
		detail = detail[:1<<14] + "...[truncated]"
	}
	c.res.Violations = append(c.res.Violations, Violation{
		Property: c.Prop, Kind: kind, Sig: sig, Detail: detail, Input: input,
		Stage: c.Stage, Batch: c.Batch, CaseID: c.curCase,
	})
}

func (c *Child) NViolations() int { return len(c.res.Violations) }

func (c *Child) resultPath() string { return filepath.Join(c.WorkDir, "result.json") }

// Flush writes the result file (called at the end, and may be called
// periodically so that a later crash keeps earlier observations).
func (c *Child) Flush(completed bool) {
	c.mu.Lock()
	defer c.mu.Unlock()
	c.res.Completed = completed
	c.res.NonTrivial = int64(len(c.hashes))
	b, _ := json.Marshal(&c.res)
	tmp := c.resultPath() + ".tmp"
	os.WriteFile(tmp, b, 0o644)
	os.Rename(tmp, c.resultPath())
	hb := make([]byte, 0, 8*len(c.hashes))
	for h := range c.hashes {
		hb = append(hb, byte(h), byte(h>>8), byte(h>>16), byte(h>>24), byte(h>>32), byte(h>>40), byte(h>>48), byte(h>>56))
	}
	os.WriteFile(filepath.Join(c.WorkDir, "hashes.bin"), hb, 0o644)
}

func newChild(prop, stage string, tier Tier, seed int64, batch, nb int, workdir string) *Child {
	c := &Child{Prop: prop, Stage: stage, Tier: tier, Seed: seed, Batch: batch, NB: nb, WorkDir: workdir,
		hashes: map[uint64]struct{}{}, maxSamp: 4, maxViol: 50}
	c.res.Stage, c.res.Batch = stage, batch
	c.res.Features = map[string]int64{}
	c.res.InconclReason = map[string]int64{}
	os.MkdirAll(workdir, 0o755)
	c.journal, _ = os.Create(filepath.Join(workdir, "journal"))
	return c
}

// ---------------------------------------------------------------------------

func envInt(name string, def int64) int64 {
	if v := os.Getenv(name); v != "" {
		if n, err := strconv.ParseInt(strings.TrimSpace(v), 10, 64); err == nil {
			return n
		}
	}
	return def
}

func sortedKeys(m map[string]int64) []string {
	ks := make([]string, 0, len(m))
	for k := range m {
		ks = append(ks, k)
	}
	sort.Strings(ks)
	return ks
}
