package vp

import (
	"bufio"
	"bytes"
	"encoding/json"
	"flag"
	"fmt"
	"os"
	"os/exec"
	"path/filepath"
	"regexp"
	"sort"
	"strings"
	"sync"
	"time"
)

// Parent is the orchestrating side of a check.
type Parent struct {
	Prop    Prop
	Tier    Tier
	Seed    int64
	Results map[string][]BatchResult // by stage name

	mu           sync.Mutex
	violations   []Violation
	features     map[string]int64
	samples      []interface{}
	hashes       map[uint64]struct{}
	evaluations  int64
	inconclusive int64
	inconclWhy   map[string]int64
	broken       []string
	raceRuns     int64
	start        time.Time
}

func (p *Parent) AddViolation(v Violation) {
	p.mu.Lock()
	v.Property = p.Prop.ID()
	p.violations = append(p.violations, v)
	p.mu.Unlock()
}

func (p *Parent) Feature(name string, n int64) {
	p.mu.Lock()
	p.features[name] += n
	p.mu.Unlock()
}

func (p *Parent) Inconclusive(reason string, n int64) {
	p.mu.Lock()
	p.inconclusive += n
	p.inconclWhy[reason] += n
	p.mu.Unlock()
}

func (p *Parent) Broken(why string) {
	p.mu.Lock()
	p.broken = append(p.broken, why)
	p.mu.Unlock()
}

// Main is the entry point of every cmd/<id> binary.
func Main(prop Prop) {
	var (
		child  = flag.Bool("child", false, "run one batch (internal)")
		stage  = flag.String("stage", "", "stage name (child)")
		batch  = flag.Int("batch", 0, "batch index (child)")
		nb     = flag.Int("nb", 1, "number of batches (child)")
		work   = flag.String("work", "", "scratch dir (child)")
		tierF  = flag.String("tier", "", "quick|thorough")
		seedF  = flag.Int64("seed", -1, "seed (default $VERIF_SEED or 1)")
		replay = flag.String("replay", "", "replay a recorded witness")
		onlySt = flag.String("only-stage", "", "parent: run only this stage (debugging)")
		keep   = flag.Bool("keep", false, "parent: keep the work directory")
		noEvid = flag.Bool("no-evidence", false, "parent: do not write the evidence file (debugging)")
	)
	flag.Parse()
	tier := Tier(*tierF)
	if tier == "" {
		tier = Tier(os.Getenv("VERIF_TIER"))
	}
	if tier != Thorough {
		tier = Quick
	}
	seed := *seedF
	if seed < 0 {
		seed = envInt("VERIF_SEED", 1)
	}
	if *child {
		c := newChild(prop.ID(), *stage, tier, seed, *batch, *nb, *work)
		prop.RunBatch(c)
		c.Flush(true)
		os.Exit(0)
	}
	if *replay != "" {
		os.Exit(doReplay(prop, tier, seed, *replay))
	}
	p := &Parent{Prop: prop, Tier: tier, Seed: seed, Results: map[string][]BatchResult{},
		features: map[string]int64{}, hashes: map[uint64]struct{}{}, inconclWhy: map[string]int64{}, start: time.Now()}
	os.Exit(p.run(*onlySt, *keep, *noEvid))
}

func doReplay(prop Prop, tier Tier, seed int64, path string) int {
	b, err := os.ReadFile(path)
	if err != nil {
		fmt.Println("cannot read", path, err)
		return 2
	}
	var v Violation
	if err := json.Unmarshal(b, &v); err != nil {
		fmt.Println("bad replay file:", err)
		return 2
	}
	r, ok := prop.(Replayer)
	if !ok {
		fmt.Printf("property %s: witness (stage %s case %s)\n%s\n--- input ---\n%s\n", v.Property, v.Stage, v.CaseID, v.Detail, v.Input)
		return 0
	}
	dir, _ := os.MkdirTemp(filepath.Join(Root(), "work"), "replay")
	defer os.RemoveAll(dir)
	c := newChild(prop.ID(), v.Stage, tier, seed, 0, 1, dir)
	r.Replay(c, v.Input)
	for _, nv := range c.res.Violations {
		fmt.Printf("reproduced: kind=%s sig=%s\n%s\n", nv.Kind, nv.Sig, nv.Detail)
	}
	if len(c.res.Violations) > 0 {
		return 1
	}
	fmt.Println("not reproduced")
	return 0
}

func (p *Parent) harnessDir() string { return filepath.Join(Root(), "harness") }
func (p *Parent) binDir() string     { return filepath.Join(Root(), "bin") }
func (p *Parent) workDir() string    { return filepath.Join(Root(), "work", p.Prop.ID()) }

func (p *Parent) build(s Stage) (string, error) {
	id := strings.ToLower(p.Prop.ID())
	out := filepath.Join(p.binDir(), id+"-"+s.variant())
	tags := []string{}
	if !s.NoVerif {
		tags = append(tags, "verif")
	}
	tags = append(tags, s.Tags...)
	args := []string{"build", "-ldflags=-checklinkname=0", "-tags", strings.Join(tags, ","), "-o", out + ".tmp"}
	if s.Race {
		args = append(args, "-race")
	}
	if s.Asan {
		args = append(args, "-asan")
	}
	args = append(args, "./cmd/"+id)
	cmd := exec.Command("go", args...)
	cmd.Dir = p.harnessDir()
	cmd.Env = append(os.Environ(), "GOFLAGS=-mod=mod", "GOPROXY=off", "GOSUMDB=off", "GOTOOLCHAIN=local")
	b, err := cmd.CombinedOutput()
	if err != nil {
		return "", fmt.Errorf("go %s: %v\n%s", strings.Join(args, " "), err, b)
	}
	if err := os.Rename(out+".tmp", out); err != nil {
		return "", err
	}
	return out, nil
}

func (p *Parent) run(onlyStage string, keep, noEvidence bool) int {
	id := p.Prop.ID()
	os.RemoveAll(p.workDir())
	os.MkdirAll(p.workDir(), 0o755)
	os.MkdirAll(p.binDir(), 0o755)
	plan := p.Prop.Plan(p.Tier)
	bins := map[string]string{}
	for _, s := range plan {
		if onlyStage != "" && s.Name != onlyStage {
			continue
		}
		v := s.variant()
		if _, ok := bins[v]; ok {
			continue
		}
		if v == "plain" && os.Getenv("VERIF_PLAIN_BUILT") == "1" {
			if exe, err := os.Executable(); err == nil {
				bins[v] = exe
				continue
			}
		}
		t0 := time.Now()
		bin, err := p.build(s)
		if err != nil {
			fmt.Printf("BROKEN property=%s build of variant %s failed: %v\n", id, v, err)
			p.Broken("build failed: " + v)
			return p.finish(plan, noEvidence, keep)
		}
		fmt.Printf("[%s] built %s in %.1fs\n", id, v, time.Since(t0).Seconds())
		bins[v] = bin
	}
	for _, s := range plan {
		if onlyStage != "" && s.Name != onlyStage {
			continue
		}
		p.runStage(s, bins[s.variant()])
	}
	if f, ok := p.Prop.(Finisher); ok {
		f.Finish(p)
	}
	return p.finish(plan, noEvidence, keep)
}

func (p *Parent) runStage(s Stage, bin string) {
	id := p.Prop.ID()
	procs := s.Procs
	if procs <= 0 {
		procs = 16
	}
	timeout := s.TimeoutS
	if timeout <= 0 {
		timeout = 300
	}
	t0 := time.Now()
	results := make([]BatchResult, s.NBatches)
	sem := make(chan struct{}, procs)
	var wg sync.WaitGroup
	for b := 0; b < s.NBatches; b++ {
		wg.Add(1)
		sem <- struct{}{}
		go func(b int) {
			defer wg.Done()
			defer func() { <-sem }()
			results[b] = p.runBatch(s, bin, b, timeout)
		}(b)
	}
	wg.Wait()
	p.Results[s.Name] = results
	// aggregate
	var ev, nt int64
	for _, r := range results {
		ev += r.Evaluations
		nt += r.NonTrivial
		p.evaluations += r.Evaluations
		for k, v := range r.Features {
			p.features[s.Name+"/"+k] += v
		}
		for k, v := range r.InconclReason {
			p.inconclWhy[k] += v
		}
		p.inconclusive += r.Inconclusive
		if len(p.samples) < 8 {
			for _, sm := range r.Samples {
				if len(p.samples) < 8 {
					p.samples = append(p.samples, sm)
				}
			}
		}
		p.violations = append(p.violations, r.Violations...)
		switch {
		case r.TimedOut:
			if s.TimeoutIsViolation && s.DeadlockOnly && !dumpShowsDeadlock(filepath.Join(p.workDir(), s.Name, fmt.Sprintf("b%03d", r.Batch), "log")) {
				p.inconclusive++
				p.inconclWhy["watchdog fired in stage "+s.Name+" with goroutines still at work (not a deadlock)"]++
			} else if s.TimeoutIsViolation {
				p.violations = append(p.violations, Violation{Property: id, Kind: "hang", Sig: "hang " + firstLine(r.LastCase),
					Detail: "watchdog fired; goroutine dump:\n" + r.LogTail, Input: r.LastCase, Stage: s.Name, Batch: r.Batch})
			} else {
				p.inconclusive++
				p.inconclWhy["watchdog fired in stage "+s.Name]++
			}
		case r.NotRun:
			p.inconclusive++
			p.inconclWhy["a child of stage "+s.Name+" could not be run (host resources)"]++
		case r.Crashed:
			if s.CrashInconclusive {
				p.inconclusive++
				p.inconclWhy["child crashed in stage "+s.Name]++
			} else {
				sig := crashSig(r.LogTail)
				if s.CrashSig != nil {
					sig = s.CrashSig(r.LogTail, r.LastCase)
				}
				p.violations = append(p.violations, Violation{Property: id, Kind: "crash", Sig: "crash " + sig,
					Detail: fmt.Sprintf("child exited with status %d\n%s", r.ExitCode, r.LogTail), Input: r.LastCase, Stage: s.Name, Batch: r.Batch})
			}
		}
	}
	fmt.Printf("[%s] stage %-18s %d batches, %d evaluations, %d non-trivial, %.1fs\n", id, s.Name, s.NBatches, ev, nt, time.Since(t0).Seconds())
}

var goroutineStateRE = regexp.MustCompile(`(?m)^goroutine \d+ (?:gp=\S+ m=\S+ (?:mp=\S+ )?)?\[([a-zA-Z ]+)`)

// dumpShowsDeadlock reads the SIGQUIT goroutine dump in a child's log: true
// when there is a dump and no goroutine in it is running or runnable.
func dumpShowsDeadlock(path string) bool {
	b, err := os.ReadFile(path)
	if err != nil {
		return false
	}
	if i := bytes.Index(b, []byte("SIGQUIT")); i >= 0 {
		b = b[i:]
	} else {
		return false
	}
	ms := goroutineStateRE.FindAllSubmatch(b, -1)
	if len(ms) == 0 {
		return false
	}
	for _, m := range ms {
		st := string(m[1])
		if strings.HasPrefix(st, "running") || strings.HasPrefix(st, "runnable") || strings.HasPrefix(st, "syscall") {
			return false
		}
	}
	return true
}

func firstLine(s string) string {
	if i := strings.IndexByte(s, '\n'); i >= 0 {
		return s[:i]
	}
	return s
}

var crashLineRE = regexp.MustCompile(`(?m)^(panic: .*|fatal error: .*|==\d+==ERROR: .*|SIGSEGV.*|runtime: .*)$`)

func crashSig(log string) string {
	m := crashLineRE.FindString(log)
	if m == "" {
		return "unknown"
	}
	// strip addresses
	m = regexp.MustCompile(`0x[0-9a-f]+`).ReplaceAllString(m, "0x?")
	if len(m) > 160 {
		m = m[:160]
	}
	return m
}

func (p *Parent) runBatch(s Stage, bin string, b int, timeout int) BatchResult {
	dir := filepath.Join(p.workDir(), s.Name, fmt.Sprintf("b%03d", b))
	os.MkdirAll(dir, 0o755)
	argv := []string{bin, "-child", "-stage", s.Name, "-batch", fmt.Sprint(b), "-nb", fmt.Sprint(s.NBatches),
		"-tier", string(p.Tier), "-seed", fmt.Sprint(p.Seed), "-work", dir}
	if s.Wrap != nil {
		argv = s.Wrap(b, argv, dir)
	}
	full := append([]string{"-k", "15", "-s", "QUIT", fmt.Sprint(timeout)}, argv...)
	cmd := exec.Command("timeout", full...)
	logf, _ := os.Create(filepath.Join(dir, "log"))
	cmd.Stdout, cmd.Stderr = logf, logf
	cmd.Dir = dir
	cmd.Env = append(os.Environ(), "VERIF_ROOT="+Root())
	if s.Race {
		cmd.Env = append(cmd.Env, "GORACE=halt_on_error=0 log_path="+filepath.Join(dir, "race"))
	}
	cmd.Env = append(cmd.Env, s.Env...)
	err := cmd.Run()
	logf.Close()
	code := 0
	if err != nil {
		if ee, ok := err.(*exec.ExitError); ok {
			code = ee.ExitCode()
		} else {
			code = -1
		}
	}
	var r BatchResult
	if rb, e := os.ReadFile(filepath.Join(dir, "result.json")); e == nil {
		json.Unmarshal(rb, &r)
	}
	r.Stage, r.Batch, r.ExitCode = s.Name, b, code
	if hb, e := os.ReadFile(filepath.Join(dir, "hashes.bin")); e == nil {
		p.mu.Lock()
		for i := 0; i+8 <= len(hb); i += 8 {
			var h uint64
			for j := 0; j < 8; j++ {
				h |= uint64(hb[i+j]) << (8 * j)
			}
			p.hashes[h] = struct{}{}
		}
		p.mu.Unlock()
	}
	if s.Race && code == 66 && r.Completed {
		// 66 is the race detector's exit status when it reported races; the
		// reports themselves are collected from the race log below
		code = 0
		r.ExitCode = 0
	}
	if code != 0 || !r.Completed {
		jb, _ := os.ReadFile(filepath.Join(dir, "journal"))
		r.LastCase = string(jb)
		if len(r.LastCase) > 1<<16 {
			r.LastCase = r.LastCase[:1<<16]
		}
		r.LogTail = logExcerpt(filepath.Join(dir, "log"))
		switch {
		case code == 124 || code == 137:
			r.TimedOut = true
		case code == -1:
			// the child could not be started or waited for (fork/exec failure on an
			// exhausted host): not an observation of golua at all
			r.NotRun = true
		default:
			r.Crashed = true
		}
	}
	if s.Race {
		p.mu.Lock()
		p.raceRuns++
		p.mu.Unlock()
		matches, _ := filepath.Glob(filepath.Join(dir, "race.*"))
		for _, m := range matches {
			for _, rep := range parseRaceReports(m) {
				r.Violations = append(r.Violations, Violation{Property: p.Prop.ID(), Kind: "race", Sig: "race " + rep.sig,
					Detail: rep.text, Input: r.LastCase, Stage: s.Name, Batch: b})
			}
		}
	}
	return r
}

// logExcerpt returns the informative part of a child's log: from the first
// panic / fatal error / race line, up to 120 lines, else the last 40 lines.
func logExcerpt(path string) string {
	b, err := os.ReadFile(path)
	if err != nil {
		return ""
	}
	if len(b) > 4<<20 {
		b = append(b[:2<<20:2<<20], b[len(b)-(2<<20):]...)
	}
	lines := strings.Split(string(b), "\n")
	start := -1
	for i, l := range lines {
		if strings.HasPrefix(l, "panic:") || strings.HasPrefix(l, "fatal error:") || strings.HasPrefix(l, "SIGQUIT") ||
			strings.Contains(l, "ERROR: AddressSanitizer") || strings.HasPrefix(l, "runtime:") || strings.HasPrefix(l, "unexpected fault") {
			start = i
			break
		}
	}
	if start < 0 {
		if len(lines) > 40 {
			lines = lines[len(lines)-40:]
		}
		return strings.Join(lines, "\n")
	}
	end := start + 160
	if end > len(lines) {
		end = len(lines)
	}
	return strings.Join(lines[start:end], "\n")
}

type raceReport struct{ sig, text string }

var frameRE = regexp.MustCompile(`^\s+([A-Za-z0-9_./\-]+(?:\(\*?[A-Za-z0-9_]+\))?[A-Za-z0-9_.]*)\(`)

// parseRaceReports splits a race log into reports and computes for each a
// signature made of the outermost-in-golua function of each of the two stacks.
func parseRaceReports(path string) []raceReport {
	f, err := os.Open(path)
	if err != nil {
		return nil
	}
	defer f.Close()
	var reps []raceReport
	var cur []string
	flush := func() {
		if len(cur) == 0 {
			return
		}
		text := strings.Join(cur, "\n")
		cur = nil
		if !strings.Contains(text, "WARNING: DATA RACE") {
			return
		}
		// stacks: split at blank lines; take the first golua frame of the first two stacks
		blocks := strings.Split(text, "\n\n")
		var tops []string
		for _, b := range blocks {
			if len(tops) >= 2 {
				break
			}
			ls := strings.Split(b, "\n")
			hdr := ""
			for _, l := range ls {
				if strings.Contains(l, " by goroutine") || strings.Contains(l, "by main goroutine") {
					hdr = l
					break
				}
			}
			if hdr == "" || !(strings.Contains(hdr, "Read at") || strings.Contains(hdr, "Write at") || strings.Contains(hdr, "Previous") || strings.Contains(hdr, "read at") || strings.Contains(hdr, "write at")) {
				continue
			}
			top := ""
			for _, l := range ls {
				if strings.Contains(l, "github.com/arnodel/golua") && !strings.HasPrefix(strings.TrimSpace(l), "/") {
					t := strings.TrimSpace(l)
					if i := strings.IndexByte(t, '('); i > 0 {
						// keep receiver parentheses: cut at the last '(' that starts the args
						t = t[:strings.LastIndexByte(t, '(')]
					}
					top = strings.TrimPrefix(t, "github.com/arnodel/golua/")
					break
				}
			}
			if top == "" {
				top = "?"
			}
			tops = append(tops, top)
		}
		sort.Strings(tops)
		if len(text) > 6000 {
			text = text[:6000] + "\n...[truncated]"
		}
		reps = append(reps, raceReport{sig: strings.Join(tops, " / "), text: text})
	}
	sc := bufio.NewScanner(f)
	sc.Buffer(make([]byte, 1<<20), 1<<20)
	for sc.Scan() {
		l := sc.Text()
		if strings.HasPrefix(l, "==================") {
			flush()
			continue
		}
		cur = append(cur, l)
	}
	flush()
	return reps
}

// ---------------------------------------------------------------------------
// Known findings

type KnownFinding struct {
	Status   string `json:"status"` // "known" or "fixed"
	Property string `json:"property"`
	ID       string `json:"id"`
	SigRegex string `json:"sig_regex,omitempty"`
	What     string `json:"what"`
	Commit   string `json:"commit,omitempty"`
}

func loadKnown() []KnownFinding {
	b, err := os.ReadFile(filepath.Join(Root(), "known_findings.json"))
	if err != nil {
		return nil
	}
	var k struct {
		Findings []KnownFinding `json:"findings"`
	}
	if err := json.Unmarshal(b, &k); err != nil {
		fmt.Println("warning: known_findings.json does not parse:", err)
	}
	return k.Findings
}

func (p *Parent) finish(plan []Stage, noEvidence, keep bool) int {
	id := p.Prop.ID()
	desc := p.Prop.Describe(p.Tier)
	known := loadKnown()
	// de-duplicate violations by (kind, sig)
	seen := map[string]bool{}
	var uniq []Violation
	for _, v := range p.violations {
		k := v.Kind + "|" + v.Sig
		if seen[k] {
			continue
		}
		seen[k] = true
		uniq = append(uniq, v)
	}
	var real []Violation
	knownHit := map[string]int{}
	for _, v := range uniq {
		matched := false
		for _, k := range known {
			if k.Status != "known" || k.Property != id || k.SigRegex == "" {
				continue
			}
			if re, err := regexp.Compile(k.SigRegex); err == nil && re.MatchString(v.Kind+" "+v.Sig) {
				if knownHit[k.ID] == 0 {
					fmt.Printf("KNOWN-FINDING: property=%s %s [%s]\n", id, k.What, k.ID)
				}
				knownHit[k.ID]++
				matched = true
				break
			}
		}
		if !matched {
			real = append(real, v)
		}
	}
	replayDir := filepath.Join(Root(), "replay", id)
	if len(real) > 0 {
		os.RemoveAll(replayDir)
		os.MkdirAll(replayDir, 0o755)
	}
	if len(real) > 25 {
		groups := map[string]int64{}
		example := map[string]string{}
		for _, v := range real {
			w := strings.Fields(v.Sig)
			if len(w) > 2 {
				w = w[:2]
			}
			k := v.Kind + " " + strings.Join(w, " ")
			groups[k]++
			if groups[k] <= 3 {
				d := firstLine(v.Detail)
				if len(d) > 220 {
					d = d[:220]
				}
				example[k] += "\n        e.g. " + d
			}
		}
		for _, k := range sortedKeys(groups) {
			fmt.Printf("  violation group: %-40s x%d%s\n", k, groups[k], example[k])
		}
	}
	for i, v := range real {
		if i >= 25 {
			fmt.Printf("... and %d more violations\n", len(real)-i)
			break
		}
		path := filepath.Join(replayDir, fmt.Sprintf("%03d.json", i))
		b, _ := json.MarshalIndent(v, "", " ")
		os.WriteFile(path, b, 0o644)
		fmt.Printf("VIOLATION property=%s replay=%s\n", id, path)
		d := v.Detail
		if len(d) > 1500 {
			d = d[:1500] + "..."
		}
		fmt.Printf("  kind=%s sig=%s stage=%s\n  %s\n", v.Kind, v.Sig, v.Stage, strings.ReplaceAll(d, "\n", "\n  "))
	}
	distinct := int64(len(p.hashes))
	if distinct < desc.Floor {
		p.broken = append(p.broken, fmt.Sprintf("only %d distinct non-trivial cases, floor is %d", distinct, desc.Floor))
	}
	wall := time.Since(p.start).Seconds()
	if !noEvidence {
		cov := map[string]interface{}{
			"evaluations":          p.evaluations,
			"distinct_nontrivial":  distinct,
			"rule":                 desc.Rule,
			"samples":              p.samples,
			"features_observed":    p.features,
			"inconclusive":         p.inconclusive,
			"inconclusive_reasons": p.inconclWhy,
			"known_findings_hit":   knownHit,
			"stages":               stageNames(plan),
			"race_detector_runs":   p.raceRuns,
		}
		if desc.Exhaustive {
			cov["exhaustive"] = true
		}
		for k, v := range desc.Extra {
			cov[k] = v
		}
		if len(p.broken) > 0 {
			cov["broken"] = p.broken
		}
		if len(p.samples) == 0 {
			cov["samples"] = []interface{}{"(no sample recorded)"}
		}
		ev := map[string]interface{}{
			"property_id": id,
			"tier":        string(p.Tier),
			"seed":        p.Seed,
			"level":       "exploration",
			"coverage":    cov,
			"assumptions": desc.Assumptions,
			"wall_s":      wall,
			"violations":  len(real),
		}
		b, _ := json.MarshalIndent(ev, "", " ")
		os.MkdirAll(filepath.Join(Root(), "evidence"), 0o755)
		os.WriteFile(filepath.Join(Root(), "evidence", id+".json"), append(b, '\n'), 0o644)
	}
	fmt.Printf("[%s] tier=%s seed=%d evaluations=%d distinct_nontrivial=%d inconclusive=%d violations=%d known=%d wall=%.1fs\n",
		id, p.Tier, p.Seed, p.evaluations, distinct, p.inconclusive, len(real), len(knownHit), wall)
	if len(p.inconclWhy) > 0 {
		for _, k := range sortedKeys(p.inconclWhy) {
			fmt.Printf("  inconclusive: %s x%d\n", k, p.inconclWhy[k])
		}
	}
	if len(real) > 0 {
		return 1
	}
	if !keep {
		os.RemoveAll(p.workDir())
	}
	if len(p.broken) > 0 {
		for _, b := range p.broken {
			fmt.Printf("BROKEN property=%s %s\n", id, b)
		}
		return 2
	}
	return 0
}

func stageNames(plan []Stage) []string {
	var n []string
	for _, s := range plan {
		n = append(n, fmt.Sprintf("%s(%s x%d)", s.Name, s.variant(), s.NBatches))
	}
	return n
}

var _ = bytes.NewReader
