// Package c01 checks property C01: generated Lua programs, in several textual
// renderings and with several argument tuples, must behave in golua exactly as
// the reference interpreter (refvm) says the manual prescribes.
package c01

import (
	"fmt"
	"strings"

	"verif/internal/eng"
	"verif/internal/lg"
	"verif/internal/vp"
)

type Prop struct{}

func (Prop) ID() string { return "C01" }

func (Prop) Plan(t vp.Tier) []vp.Stage {
	if t == vp.Thorough {
		return []vp.Stage{
			{Name: "programs", NBatches: 64, TimeoutS: 2400},
			{Name: "programs-race", NBatches: 16, Race: true, TimeoutS: 2400},
		}
	}
	return []vp.Stage{
		{Name: "programs", NBatches: 16, TimeoutS: 2400},
		{Name: "programs-race", NBatches: 4, Race: true, TimeoutS: 2400},
	}
}

func (Prop) Describe(t vp.Tier) vp.Description {
	return vp.Description{
		Rule: "Each case is one generated program (lg generator: locals/closures/varargs/multiple assignment/all loop forms/goto/break/tail calls/" +
			"tables/metamethods/methods/pcall/error/coroutines/to-be-closed variables) in one textual rendering (plain, redundant parentheses+sugar+semicolons, " +
			"noisy whitespace/comments+alternative literal spellings, all combined) called with one argument tuple. golua compiles and runs the text; the " +
			"reference interpreter refvm executes the tree; the monitor compares the sequence of emit() events, the returned values and the error value/position " +
			"and collects the reports of the verif hooks. A case the reference cannot decide (behaviour the manual leaves open) gives no verdict. " +
			"Non-trivial: the reference run produced >= 3 events and exercised >= 3 distinct feature kinds; distinct by hash of (text, arguments).",
		Assumptions: []string{
			"refvm is a correct reading of the Lua 5.4 manual for the constructs the generator uses; where the manual is silent (float formatting, error message texts, order of evaluation, pairs order, length of tables with holes, equality of closures, positions of library errors) no verdict is given",
			"the embedding caller uses Thread.CallContext (the protected entry point); a bare rt.Call does not close pending to-be-closed variables of the main thread on error",
			"held on the programs generated for this seed, not on all programs",
		},
		Floor: map[vp.Tier]int64{vp.Quick: 1500, vp.Thorough: 40000}[t],
	}
}

// Corpus returns the C01 corpus for a stage.
func Corpus(c *vp.Child) eng.Corpus {
	cp := eng.Corpus{
		Programs: c.Pick(2000, 60000),
		NStyles:  c.Pick(2, 4),
		NArgs:    c.Pick(2, 3),
		NonTrivial: func(cs *eng.Case, p *lg.Program) bool {
			return cs.Events >= 3 && eng.NFeatures(cs) >= 3
		},
	}
	if strings.HasSuffix(c.Stage, "-race") {
		cp.Programs = c.Pick(120, 3000)
	}
	return cp
}

func (Prop) RunBatch(c *vp.Child) { Corpus(c).Run(c) }

// Replay re-runs a recorded witness: the program text with its "-- args:" header.
func (Prop) Replay(c *vp.Child, input string) {
	out := eng.RunText(input, nil)
	fmt.Printf("golua outcome (called without arguments): %s\n", out.String())
	for _, r := range out.Reports {
		fmt.Println("hook report:", r)
	}
	fmt.Println("(the reference's expectation is in the violation's detail)")
}
