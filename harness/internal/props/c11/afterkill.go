package c11

import (
	"fmt"
	"strings"

	"verif/internal/eng"
	"verif/internal/gl"
	"verif/internal/vp"
)

// Stage "after-kill": protected calls that are left in an unusual way - the
// execution context around them is killed by its CPU or memory limit, or
// stopped with ctx:killnow / an error through several levels - must not leave
// anything behind: an error raised afterwards, in the code around, still
// reaches exactly the nearest protected call with its value intact, and a
// message handler of a protected call that is over never runs again.
//
// The reference interpreter has no execution contexts; the expected events of
// these templates follow from the property itself and are written down here:
//   ("ctx", "killed")                         the inner context was killed
//   then, per catcher, the catcher's results for error(errobj).
// Any ("stale", …) event is a violation whatever else happens.

var killers = []struct{ name, src string }{
	{"cpu-in-xpcall", `runtime.callcontext({kill = {cpu = 3000}}, function() xpcall(function() while true do end end, stale) end)`},
	{"cpu-in-nested-xpcall", `runtime.callcontext({kill = {cpu = 3000}}, function() xpcall(function() xpcall(function() while true do end end, stale2) end, stale) end)`},
	{"cpu-in-pcall-in-xpcall", `runtime.callcontext({kill = {cpu = 3000}}, function() xpcall(function() pcall(function() while true do end end) end, stale) end)`},
	{"mem-in-xpcall", `runtime.callcontext({kill = {memory = 20000}}, function() xpcall(function() local t = {} while true do t[#t + 1] = {} end end, stale) end)`},
	{"cpu-in-xpcall-in-coroutine", `runtime.callcontext({kill = {cpu = 3000}}, function() local co = coroutine.wrap(function() xpcall(function() while true do end end, stale) end) co() end)`},
	{"cpu-in-handler", `runtime.callcontext({kill = {cpu = 3000}}, function() xpcall(function() error("x") end, function(m) for i = 1, 10000000 do end emit("stale", "looping handler ran to its end", m) return "stale result 3" end) end)`},
	{"cpu-in-close-handler-in-xpcall", `runtime.callcontext({kill = {cpu = 3000}}, function() xpcall(function() local c <close> = setmetatable({}, {__close = function() for i = 1, 10000000 do end emit("stale", "close handler ran to its end") end}) end, stale) end)`},
	{"cpu-xpcall-of-callcontext", `xpcall(function() return runtime.callcontext({kill = {cpu = 3000}}, function() xpcall(function() while true do end end, stale2) end) end, stale)`},
}

var afterCatchers = []struct {
	name, pre, post string
	// expected events after ("ctx", "killed"), with %ID% for the error value's id
	want []string
}{
	{"pcall", `emit("caught", pcall(function()`, `end))`, []string{`s:"caught" b:false ERR`}},
	{"xpcall", `emit("caught", xpcall(function()`, `end, function(m) emit("handler", m) return "handled" end))`, []string{`s:"handler" ERR`, `s:"caught" b:false s:"handled"`}},
	{"pcall-in-xpcall", `emit("outer", xpcall(function() emit("caught", pcall(function()`, `end)) end, stale))`, []string{`s:"caught" b:false ERR`, `s:"outer" b:true`}},
	{"coroutine.resume", `emit("caught", coroutine.resume(coroutine.create(function()`, `end)))`, []string{`s:"caught" b:false ERR`}},
	{"wrap-in-pcall", `emit("caught", pcall(coroutine.wrap(function()`, `end)))`, []string{`s:"caught" b:false ERR`}},
}

func afterKillProgram(killer, pre, post string, second bool) string {
	var b strings.Builder
	b.WriteString(`local errobj = setmetatable({}, {__tostring = function() return "errobj" end})
local function stale(m) emit("stale", "handler 1", m) return "stale result" end
local function stale2(m) emit("stale", "handler 2", m) return "stale result 2" end
`)
	b.WriteString(pre + "\n")
	b.WriteString("  local ctx = " + killer + "\n")
	b.WriteString(`  emit("ctx", type(ctx) == "userdata" and ctx.status or ctx)` + "\n")
	b.WriteString("  error(errobj)\n")
	b.WriteString(post + "\n")
	if second {
		// and once more from the top level: a plain error in a plain pcall
		b.WriteString(`emit("again", pcall(error, errobj))` + "\n")
		b.WriteString(`emit("again", xpcall(error, function(m) return m end, errobj))` + "\n")
	}
	return b.String()
}

func afterKill(c *vp.Child) {
	k := 0
	for _, kl := range killers {
		for _, ca := range afterCatchers {
			k++
			if !c.Mine(k) {
				continue
			}
			text := afterKillProgram(kl.src, ca.pre, ca.post, true)
			label := "after-kill:" + kl.name + "/" + ca.name
			c.Begin(label, text)
			out := eng.RunText(text, nil)
			c.Eval(1)
			c.NonTrivial(vp.Hash(label))
			fail := func(what string) {
				c.Violation("after-kill", label, what+"\ntrace: "+strings.Join(out.Trace, " | ")+"\noutcome: "+out.Kind+" "+out.ErrMsg+out.PanicMsg, text)
			}
			if out.Kind != gl.OK {
				fail("the program did not run to its end: " + out.Kind + " " + out.ErrMsg + out.PanicMsg)
				continue
			}
			// the error value's ordinal name: the first table-valued item of a "caught"/"handler" event
			var got []string
			errName := ""
			for _, ev := range out.TraceV {
				if len(ev) > 0 && ev[0] == `s:"stale"` {
					fail("a message handler of a protected call that was already over ran: " + strings.Join(ev, " "))
				}
				for _, it := range ev[1:] {
					if strings.HasPrefix(it, "t#") && errName == "" {
						errName = it
					}
				}
				got = append(got, strings.Join(ev, " "))
			}
			if errName == "" {
				errName = "t#?"
			}
			want := []string{`s:"ctx" s:"killed"`}
			if kl.name == "cpu-xpcall-of-callcontext" {
				// the context is returned through xpcall: (true, ctx)
				want = []string{`s:"ctx" b:true`}
			}
			for _, w := range ca.want {
				want = append(want, strings.ReplaceAll(w, "ERR", errName))
			}
			want = append(want, `s:"again" b:false `+errName, `s:"again" b:false `+errName)
			if strings.Join(got, " | ") != strings.Join(want, " | ") {
				fail(fmt.Sprintf("events differ from what the property prescribes:\n  got:  %s\n  want: %s", strings.Join(got, " | "), strings.Join(want, " | ")))
			}
		}
	}
}
