// Package c11 checks property C11 (errors reach exactly the nearest protected
// call, with their value intact): an enumerated matrix of error site x nearest
// catcher, and generated programs with error sites at every kind of position
// under nested protected calls, are run by golua and by the reference
// interpreter; who catches the error, the identity of the error value, the
// position prefix of messages, the xpcall handler's single run before
// unwinding, and a fixed health suite after the catch must all agree.
package c11

import (
	"fmt"
	"math/rand"
	"strings"

	"verif/internal/eng"
	"verif/internal/lg"
	"verif/internal/vp"
)

type Prop struct{}

func (Prop) ID() string { return "C11" }

func (Prop) Plan(t vp.Tier) []vp.Stage {
	nb := 16
	if t == vp.Thorough {
		nb = 48
	}
	return []vp.Stage{
		{Name: "matrix", NBatches: 8, TimeoutS: 900},
		{Name: "after-kill", NBatches: 4, TimeoutS: 900},
		{Name: "programs", NBatches: nb, TimeoutS: 2400},
		{Name: "programs-race", NBatches: 8, Race: true, TimeoutS: 2400},
	}
}

func (Prop) Describe(t vp.Tier) vp.Description {
	return vp.Description{
		Rule: fmt.Sprintf("Stage matrix: every cell (%d) of {run-time errors of each operator kind, for-loop errors, error(v) for v of every type and levels 0/1/2, errors raised inside each metamethod "+
			"(__add __index __newindex __call __lt __le __eq __concat __len __unm __tostring __close), inside an iterator, a nested function, a to-be-closed scope, a tail-called function, a vararg function, a method} x "+
			"{pcall, pcall of a function defined on other lines, xpcall, pcall in pcall, xpcall in pcall, pcall in xpcall, coroutine.resume, coroutine.wrap in pcall, resume inside xpcall, no protected call (the embedding caller)}, "+
			"in 4 renderings, followed by a fixed health suite (closures, deep and tail calls, a coroutine generator, table growth, string building, another caught error). The events, including the handler's "+
			"('handler', message, identity) event and the ('close', id, error) events, the catcher's results and the 'chunk:line:' prefix must equal the reference's. "+
			"Stage after-kill: 8 ways of leaving protected calls by a killed execution context (cpu/memory limit hit inside xpcall, nested xpcall, pcall in xpcall, a coroutine, a message handler, a __close handler) x 5 catchers: an error(errobj) raised afterwards "+
			"in the code around must reach exactly that catcher with the same table, the catcher's own handler runs once, and no handler of a protected call that is over runs (expected events written down from the property; the reference has no contexts). "+
			"Stage programs: generated programs weighted towards error sites, raising metamethods and iterators, nested pcall/xpcall/coroutines, with the health suite appended. "+
			"Non-trivial: at least one error was caught by a protected call or reached the embedding caller and >= 3 events; distinct by program text and arguments.", len(lg.ErrMatrix())),
		Assumptions: []string{
			"refvm is a correct reading of manual sections 2.3, 6.1 (error, pcall, xpcall) and 6.2; texts of interpreter-generated messages are not compared, only their chunk:line: prefix; positions of errors raised by library functions are not compared",
			"errors raised by an xpcall message handler itself, error level 2 from a function not entered by a plain call, and pcall(error, ...) give no verdict",
			"the embedding caller uses Thread.CallContext",
		},
		Floor: map[vp.Tier]int64{vp.Quick: 2000, vp.Thorough: 30000}[t],
		Extra: map[string]interface{}{"matrix_cells": len(lg.ErrMatrix())},
	}
}

func errOptions(r *rand.Rand) lg.GenOptions {
	o := lg.DefaultGenOptions()
	o.Stmts = 12 + r.Intn(30)
	o.WError = 14
	o.WPcall = 14
	o.WCoroutine = 6
	o.WTBC = 5
	o.WMeta = 6
	o.ErrInMeta = true
	o.Health = true
	return o
}

func caught(cs *eng.Case) bool {
	f := cs.Want.Features
	return cs.Events >= 3 && (f["protected-call-caught"] >= 1 || f["co-resume-error"] >= 1 || cs.Want.Kind == "error")
}

func (Prop) RunBatch(c *vp.Child) {
	if c.Stage == "after-kill" {
		afterKill(c)
		return
	}
	if c.Stage == "matrix" {
		cells := lg.ErrMatrix()
		eng.RunFixed(c, len(cells), 4, func(i int) (*lg.Program, string) {
			return cells[i].Program(), "err:" + cells[i].String()
		}, caught)
		return
	}
	cp := eng.Corpus{
		Programs:   c.Pick(1500, 30000),
		Options:    errOptions,
		NStyles:    c.Pick(2, 4),
		NArgs:      c.Pick(1, 2),
		Salt:       11,
		NonTrivial: func(cs *eng.Case, p *lg.Program) bool { return caught(cs) },
	}
	if strings.HasSuffix(c.Stage, "-race") {
		cp.Programs = c.Pick(150, 3000)
	}
	cp.Run(c)
}

func (Prop) Replay(c *vp.Child, input string) {
	out := eng.RunText(input, nil)
	fmt.Printf("golua outcome (called without arguments): %s\n", out.String())
	for _, r := range out.Reports {
		fmt.Println("hook report:", r)
	}
}
