// Package c02 checks property C02 (numbers) by comparing golua, through the
// full compile-and-run pipeline and through its exported Go functions, with
// the numodel reference on a boundary lattice (exhaustive ordered pairs),
// random operands and an enumerated numeral grammar.
package c02

import (
	"fmt"
	"math"
	"math/rand"
	"strconv"
	"strings"

	rt "github.com/arnodel/golua/runtime"

	"verif/internal/gl"
	nm "verif/internal/numodel"
	"verif/internal/vp"
)

type Prop struct{}

func (Prop) ID() string { return "C02" }

func (Prop) Plan(t vp.Tier) []vp.Stage {
	st := []vp.Stage{
		{Name: "lattice", NBatches: 16, TimeoutS: 240},
		{Name: "random", NBatches: 16, TimeoutS: 900},
		{Name: "numerals", NBatches: 16, TimeoutS: 900},
		{Name: "lattice-race", NBatches: 4, Race: true, TimeoutS: 600},
	}
	return st
}

func (Prop) Describe(t vp.Tier) vp.Description {
	return vp.Description{
		Rule: "Each case is (operator-or-function, operand tuple) evaluated by golua both through a compiled chunk " +
			"(`local a,b=...` with every operator wrapped in pcall) and through the exported Go functions, compared with the numodel " +
			"reference (big.Int mod 2^64, exact big.Float comparison, big.Rat numerals). Operands: all ordered pairs of a boundary " +
			"lattice (exhaustive), PRNG operands biased to the lattice neighbourhoods, numeric strings; numerals: every string up to a " +
			"length bound over a numeral alphabet through tonumber / rt.StringToNumber / load('return '..s). A case is non-trivial when at " +
			"least one operand is not a small integer (|n|<=1000) or the numeral has more than one character; distinct by hash of (stage, operands).",
		Assumptions: []string{
			"numodel is a correct reading of the Lua 5.4 manual; where the manual defers to C (pow on inexact results, strtod out of the double range, a%inf with opposite signs, string operands of bitwise operators, NaN in max/min) the model answers 'skip' and no verdict is given",
			"Go float64 + - * / and math.Floor/Mod are IEEE-754 correct",
			"held on the operands enumerated/sampled, not on all 2^128 pairs",
		},
		Floor: map[vp.Tier]int64{vp.Quick: 20000, vp.Thorough: 500000}[t],
		Extra: map[string]interface{}{"lattice_size": len(lattice())},
	}
}

// ---------------------------------------------------------------------------

func lattice() []nm.V {
	var vs []nm.V
	addI := func(xs ...int64) {
		for _, x := range xs {
			vs = append(vs, nm.I(x))
		}
	}
	addF := func(xs ...float64) {
		for _, x := range xs {
			vs = append(vs, nm.F(x))
		}
	}
	addI(0, 1, -1, 2, -2, 3, -3, 7, -7, 62, 63, 64, 65, -63, -64, 1<<31, -(1 << 31), 1<<32-1, 1<<32+1,
		1<<53-1, -(1<<53 - 1), 1<<53, -(1 << 53), 1<<53+1, -(1<<53 + 1), 1<<62, -(1 << 62),
		math.MaxInt64-1, math.MaxInt64, math.MinInt64, math.MinInt64+1, math.MaxInt64-511, math.MaxInt64-512)
	addF(0, math.Copysign(0, -1), 0.5, -0.5, 1, -1, 1.5, -1.5, 2, 3, -3, 64, 1<<53, -(1 << 53), 1<<53+2,
		9223372036854774784, -9223372036854774784, 9223372036854775808, -9223372036854775808,
		9223372036854777856, -9223372036854777856, 18446744073709551616, -18446744073709551616,
		math.SmallestNonzeroFloat64, math.MaxFloat64, -math.MaxFloat64, math.Inf(1), math.Inf(-1), math.NaN(), 1e100, 0.1)
	for _, s := range []string{"10", "0x10", "1e1", " 7 ", "abc", "", "-3", "9223372036854775807", "9223372036854775808", "0x7fffffffffffffff", "1e", "0x", "5.", ".5"} {
		vs = append(vs, nm.S(s))
	}
	return vs
}

func toRT(v nm.V) rt.Value {
	switch v.K {
	case nm.Int:
		return rt.IntValue(v.I)
	case nm.Float:
		return rt.FloatValue(v.F)
	case nm.Str:
		return rt.StringValue(v.S)
	case nm.Bool:
		return rt.BoolValue(v.B)
	}
	return rt.NilValue
}

const errEnc = `s:"\x00ERR"`

// one entry per returned value of the chunk
type opSpec struct {
	name string
	lua  string // expression using a, b
	// model returns expected encodings; status Skip = no verdict
	model func(a, b nm.V) (string, nm.Status)
	// loose: compare as numbers only (value fixed, subtype not)
	loose bool
}

func binModel(f func(op string, a, b nm.V) (nm.V, nm.Status), op string) func(a, b nm.V) (string, nm.Status) {
	return func(a, b nm.V) (string, nm.Status) {
		v, st := f(op, a, b)
		return v.Enc(), st
	}
}

func mathModel(fn string, nargs int, idx int) func(a, b nm.V) (string, nm.Status) {
	return func(a, b nm.V) (string, nm.Status) {
		var vs []nm.V
		var st nm.Status
		if nargs == 1 {
			vs, st = nm.Math(fn, a)
		} else {
			vs, st = nm.Math(fn, a, b)
		}
		if st != nm.Val {
			return "", st
		}
		return vs[idx].Enc(), nm.Val
	}
}

var ops = func() []opSpec {
	var o []opSpec
	for _, op := range []string{"+", "-", "*", "/", "//", "%", "^"} {
		o = append(o, opSpec{name: op, lua: "a" + op + "b", model: binModel(nm.Arith, op)})
	}
	for _, op := range []string{"&", "|", "~", "<<", ">>"} {
		o = append(o, opSpec{name: op, lua: "a" + op + "b", model: binModel(nm.Bitwise, op)})
	}
	for _, op := range []string{"==", "~=", "<", "<=", ">", ">="} {
		o = append(o, opSpec{name: op, lua: "a" + op + "b", model: binModel(nm.Compare, op)})
	}
	o = append(o,
		opSpec{name: "unm", lua: "-a", model: func(a, b nm.V) (string, nm.Status) { v, st := nm.Unm(a); return v.Enc(), st }},
		opSpec{name: "bnot", lua: "~a", model: func(a, b nm.V) (string, nm.Status) { v, st := nm.BNot(a); return v.Enc(), st }},
		opSpec{name: "math.type", lua: "math.type(a)", model: mathModel("type", 1, 0)},
		opSpec{name: "math.tointeger", lua: "math.tointeger(a)", model: mathModel("tointeger", 1, 0)},
		opSpec{name: "math.floor", lua: "math.floor(a)", model: mathModel("floor", 1, 0)},
		opSpec{name: "math.ceil", lua: "math.ceil(a)", model: mathModel("ceil", 1, 0)},
		opSpec{name: "math.abs", lua: "math.abs(a)", model: mathModel("abs", 1, 0)},
		opSpec{name: "math.fmod", lua: "math.fmod(a,b)", model: mathModel("fmod", 2, 0)},
		opSpec{name: "math.modf#1", lua: "(math.modf(a))", model: mathModel("modf", 1, 0), loose: true},
		opSpec{name: "math.modf#2", lua: "(select(2, math.modf(a)))", model: mathModel("modf", 1, 1), loose: true},
		opSpec{name: "math.max", lua: "math.max(a,b)", model: mathModel("max", 2, 0)},
		opSpec{name: "math.min", lua: "math.min(a,b)", model: mathModel("min", 2, 0)},
		opSpec{name: "math.ult", lua: "math.ult(a,b)", model: mathModel("ult", 2, 0)},
		opSpec{name: "tonumber", lua: "tonumber(a)", model: func(a, b nm.V) (string, nm.Status) {
			switch a.K {
			case nm.Int, nm.Float:
				return a.Enc(), nm.Val
			case nm.Str:
				v, st := nm.StringToNumber(a.S)
				if st == nm.Err {
					return "n", nm.Val
				}
				return v.Enc(), st
			}
			return "", nm.Skip
		}},
	)
	return o
}()

func chunkSource() string {
	var b strings.Builder
	b.WriteString("local a, b = ...\nlocal E = \"\\0ERR\"\nlocal function P(f) local ok, r = pcall(f) if ok then return r end return E end\nreturn ")
	for i, o := range ops {
		if i > 0 {
			b.WriteString(",\n ")
		}
		fmt.Fprintf(&b, "P(function() return %s end)", o.lua)
	}
	b.WriteString("\n")
	return b.String()
}

type evaluator struct {
	c    *vp.Child
	sess *gl.Sess
	f    rt.Value
	n    int
}

func newEvaluator(c *vp.Child) *evaluator {
	e := &evaluator{c: c}
	e.reset()
	return e
}

func (e *evaluator) reset() {
	if e.sess != nil {
		e.sess.Close()
	}
	e.sess = gl.NewSess(gl.Options{})
	clos, out := e.sess.Compile("c02", chunkSource())
	if out != nil {
		e.c.Violation("compile", "c02 operator chunk does not compile", out.ErrMsg+out.PanicMsg, chunkSource())
		e.c.Flush(true)
		panic("operator chunk does not compile: " + out.ErrMsg + out.PanicMsg)
	}
	e.f = rt.FunctionValue(clos)
}

func small(v nm.V) bool { return v.K == nm.Int && v.I >= -1000 && v.I <= 1000 }

func splitEnc(s string) []string {
	// encodings never contain a bare comma except inside quoted strings; the
	// only strings returned are short literals without commas.
	if s == "" {
		return nil
	}
	return strings.Split(s, ",")
}

func (e *evaluator) pair(a, b nm.V) {
	c := e.c
	e.n++
	if e.n%20000 == 0 {
		e.reset()
	}
	in := fmt.Sprintf("a=%s b=%s", a.Lua(), b.Lua())
	c.Begin("pair "+a.Enc()+" "+b.Enc(), in)
	e.sess.Trace = nil
	out := e.sess.Call(e.f, []rt.Value{toRT(a), toRT(b)})
	if out.Kind != gl.OK {
		c.Violation("outcome", "pipeline "+out.Kind+" "+a.Enc()+" "+b.Enc(), out.String()+"\n"+out.Stack, in)
		e.reset()
		return
	}
	got := splitEnc(out.Rets)
	if len(got) != len(ops) {
		c.Violation("shape", "result count", fmt.Sprintf("expected %d results, got %d: %s", len(ops), len(got), out.Rets), in)
		return
	}
	nontriv := !small(a) || !small(b)
	for i, o := range ops {
		c.Eval(1)
		want, st := o.model(a, b)
		switch st {
		case nm.Skip:
			c.Feature("model-skip", 1)
			continue
		case nm.Err:
			want = errEnc
		}
		ok := got[i] == want
		if !ok && o.loose && st == nm.Val {
			ok = looseEq(got[i], want)
		}
		if !ok {
			c.Violation("mismatch", fmt.Sprintf("lua %s %s %s", o.name, a.Enc(), b.Enc()),
				fmt.Sprintf("%s with a=%s b=%s: golua gives %s, the manual gives %s", o.lua, a.Lua(), b.Lua(), got[i], want), in)
		}
	}
	for _, r := range out.Reports {
		c.Violation("hook", "hook "+r, r, in)
	}
	// order axioms on golua's own answers (numbers only)
	if (a.K == nm.Int || a.K == nm.Float) && (b.K == nm.Int || b.K == nm.Float) {
		idx := map[string]int{}
		for i, o := range ops {
			idx[o.name] = i
		}
		t := func(n string) bool { return got[idx[n]] == "b:true" }
		nan := (a.K == nm.Float && a.F != a.F) || (b.K == nm.Float && b.F != b.F)
		if !nan {
			cnt := 0
			for _, n := range []string{"<", "==", ">"} {
				if t(n) {
					cnt++
				}
			}
			if cnt != 1 {
				c.Violation("axiom", fmt.Sprintf("trichotomy %s %s", a.Enc(), b.Enc()),
					fmt.Sprintf("a=%s b=%s: a<b=%v a==b=%v a>b=%v", a.Lua(), b.Lua(), t("<"), t("=="), t(">")), in)
			}
		}
		if t("<=") != (t("<") || t("==")) {
			c.Violation("axiom", fmt.Sprintf("le-consistency %s %s", a.Enc(), b.Enc()),
				fmt.Sprintf("a=%s b=%s: a<=b=%v but a<b=%v a==b=%v", a.Lua(), b.Lua(), t("<="), t("<"), t("==")), in)
		}
		c.Eval(2)
	}
	e.goAPI(a, b, in)
	if nontriv {
		c.NonTrivial(vp.Hash(c.Stage[:3], a.Enc(), b.Enc()))
	}
	if c.WantSample() && nontriv {
		c.Sample(map[string]interface{}{"a": a.Lua(), "b": b.Lua(), "results": out.Rets})
	}
}

func looseEq(got, want string) bool {
	dec := func(s string) (nm.V, bool) {
		switch {
		case strings.HasPrefix(s, "i:"):
			n, err := strconv.ParseInt(s[2:], 10, 64)
			return nm.I(n), err == nil
		case s == "f:nan":
			return nm.F(math.NaN()), true
		case strings.HasPrefix(s, "f:"):
			u, err := strconv.ParseUint(s[2:], 16, 64)
			return nm.F(math.Float64frombits(u)), err == nil
		}
		return nm.NilV, false
	}
	g, ok1 := dec(got)
	w, ok2 := dec(want)
	return ok1 && ok2 && nm.NumEq(g, w)
}

// goAPI checks the exported Go functions on the same operands.
func (e *evaluator) goAPI(a, b nm.V, in string) {
	c := e.c
	x, y := toRT(a), toRT(b)
	n := gl.NewNamer()
	type bin struct {
		name string
		f    func() (rt.Value, bool, error)
	}
	w2 := func(f func(x, y rt.Value) (rt.Value, bool)) func() (rt.Value, bool, error) {
		return func() (rt.Value, bool, error) { v, ok := f(x, y); return v, ok, nil }
	}
	bins := []bin{
		{"+", w2(rt.Add)}, {"-", w2(rt.Sub)}, {"*", w2(rt.Mul)}, {"/", w2(rt.Div)}, {"^", w2(rt.Pow)},
		{"//", func() (rt.Value, bool, error) { return rt.Idiv(x, y) }},
		{"%", func() (rt.Value, bool, error) { return rt.Mod(x, y) }},
	}
	numeric := func(v nm.V) bool { return v.K == nm.Int || v.K == nm.Float }
	if numeric(a) && numeric(b) {
		for _, bn := range bins {
			c.Eval(1)
			want, st := nm.Arith(bn.name, a, b)
			if st == nm.Skip {
				continue
			}
			v, ok, err := bn.f()
			got := n.Enc(v)
			if st == nm.Err {
				if err == nil {
					c.Violation("mismatch", fmt.Sprintf("go %s %s %s", bn.name, a.Enc(), b.Enc()),
						fmt.Sprintf("rt op %s(%s,%s) returned %s, the manual defines an error", bn.name, a.Lua(), b.Lua(), got), in)
				}
				continue
			}
			if !ok || err != nil || got != want.Enc() {
				c.Violation("mismatch", fmt.Sprintf("go %s %s %s", bn.name, a.Enc(), b.Enc()),
					fmt.Sprintf("rt op %s(%s,%s) = %s ok=%v err=%v, the manual gives %s", bn.name, a.Lua(), b.Lua(), got, ok, err, want.Enc()), in)
			}
		}
		// Lt via the exported function
		c.Eval(1)
		want, _ := nm.Compare("<", a, b)
		lt, err := rt.Lt(e.sess.R.MainThread(), x, y)
		if err != nil || lt != want.B {
			c.Violation("mismatch", fmt.Sprintf("go Lt %s %s", a.Enc(), b.Enc()),
				fmt.Sprintf("rt.Lt(%s,%s) = %v err=%v, exact comparison gives %v", a.Lua(), b.Lua(), lt, err, want.B), in)
		}
		weq, _ := nm.Compare("==", a, b)
		eq, okeq := rt.RawEqual(x, y)
		if (eq && okeq) != weq.B {
			c.Violation("mismatch", fmt.Sprintf("go RawEqual %s %s", a.Enc(), b.Enc()),
				fmt.Sprintf("rt.RawEqual(%s,%s) = %v,%v, exact comparison gives %v", a.Lua(), b.Lua(), eq, okeq, weq.B), in)
		}
	}
	// unary conversions on a
	switch a.K {
	case nm.Float:
		c.Eval(2)
		wi, wok := nm.FloatToInt(a.F)
		gi, tp := rt.FloatToInt(a.F)
		if (tp == rt.IsInt) != wok || (wok && gi != wi) {
			c.Violation("mismatch", "go FloatToInt "+a.Enc(), fmt.Sprintf("rt.FloatToInt(%s) = %d,%v; exact: %d,%v", a.Lua(), gi, tp == rt.IsInt, wi, wok), in)
		}
		gi2, ok2 := rt.ToInt(x)
		if ok2 != wok || (wok && gi2 != wi) {
			c.Violation("mismatch", "go ToInt "+a.Enc(), fmt.Sprintf("rt.ToInt(%s) = %d,%v; exact: %d,%v", a.Lua(), gi2, ok2, wi, wok), in)
		}
	case nm.Int:
		c.Eval(1)
		gf, ok := rt.ToFloat(x)
		if !ok || gf != nm.IntToFloat(a.I) {
			c.Violation("mismatch", "go ToFloat "+a.Enc(), fmt.Sprintf("rt.ToFloat(%s) = %v,%v; nearest: %v", a.Lua(), gf, ok, nm.IntToFloat(a.I)), in)
		}
	case nm.Str:
		c.Eval(1)
		e.checkStringToNumber(a.S, in)
	}
}

func (e *evaluator) checkStringToNumber(s string, in string) {
	c := e.c
	want, st := nm.StringToNumber(s)
	if st == nm.Skip {
		c.Feature("model-skip", 1)
		return
	}
	gi, gf, tp := rt.StringToNumber(s)
	got := "n"
	switch tp {
	case rt.IsInt:
		got = nm.I(gi).Enc()
	case rt.IsFloat:
		got = nm.F(gf).Enc()
	}
	w := "n"
	if st == nm.Val {
		w = want.Enc()
	}
	if got != w {
		c.Violation("mismatch", "go StringToNumber "+strconv.Quote(s),
			fmt.Sprintf("rt.StringToNumber(%q) = %s, the manual's numeral rules give %s", s, got, w), in)
	}
}

// ---------------------------------------------------------------------------

func (Prop) RunBatch(c *vp.Child) {
	switch c.Stage {
	case "lattice", "lattice-race":
		runLattice(c)
	case "random":
		runRandom(c)
	case "numerals":
		runNumerals(c)
	}
}

func runLattice(c *vp.Child) {
	e := newEvaluator(c)
	defer e.sess.Close()
	lat := lattice()
	k := 0
	stride := 1
	if c.Stage == "lattice-race" {
		stride = c.Pick(10, 1) // quick: 10 % of the pairs under -race/checkptr
	}
	for i, a := range lat {
		for j, b := range lat {
			k++
			if !c.Mine(k) {
				continue
			}
			if stride > 1 && (i*len(lat)+j+int(c.Seed))%stride != 0 {
				continue
			}
			e.pair(a, b)
		}
	}
	c.Feature("lattice-values", int64(len(lat)))
}

func randOperand(r *rand.Rand, lat []nm.V) nm.V {
	switch r.Intn(10) {
	case 0, 1, 2: // neighbourhood of a lattice value
		v := lat[r.Intn(len(lat))]
		switch v.K {
		case nm.Int:
			return nm.I(v.I + int64(r.Intn(9)-4)) // wraps in Go as in the lattice intent
		case nm.Float:
			if v.F != v.F || math.IsInf(v.F, 0) {
				return v
			}
			bits := math.Float64bits(v.F) + uint64(r.Intn(9)-4)
			f := math.Float64frombits(bits)
			if f != f {
				return v
			}
			return nm.F(f)
		}
		return v
	case 3: // random 64-bit integer
		return nm.I(int64(r.Uint64()))
	case 4: // random bit pattern float
		f := math.Float64frombits(r.Uint64())
		if f != f {
			f = math.NaN()
		}
		return nm.F(f)
	case 5: // integer-valued float of random magnitude
		e := r.Intn(70)
		f := math.Ldexp(float64(r.Int63n(1<<53)), e-53)
		f = math.Trunc(f)
		if r.Intn(2) == 0 {
			f = -f
		}
		return nm.F(f)
	case 6: // power of two +- small, as integer
		e := uint(r.Intn(64))
		return nm.I(int64(uint64(1)<<e) + int64(r.Intn(5)-2))
	case 7: // small ints (shifts, divisors)
		return nm.I(int64(r.Intn(140) - 70))
	case 8: // fractional floats
		return nm.F((r.Float64() - 0.5) * math.Ldexp(1, r.Intn(80)-10))
	default: // numeric strings
		switch r.Intn(4) {
		case 0:
			return nm.S(strconv.FormatInt(int64(r.Uint64()), 10))
		case 1:
			return nm.S("0x" + strconv.FormatUint(r.Uint64(), 16))
		case 2:
			return nm.S(strconv.FormatFloat((r.Float64()-0.5)*1e6, 'g', -1, 64))
		default:
			return nm.S(" " + strconv.Itoa(r.Intn(1000)) + "\t")
		}
	}
}

func runRandom(c *vp.Child) {
	e := newEvaluator(c)
	defer e.sess.Close()
	r := c.Rand("pairs")
	lat := lattice()
	n := c.Pick(20000, 2000000) / c.NB
	for i := 0; i < n; i++ {
		e.pair(randOperand(r, lat), randOperand(r, lat))
	}
}

// ---------------------------------------------------------------------------
// numerals

const numeralAlphabet = "019afxX.eEpP+- _n"

func runNumerals(c *vp.Child) {
	s := gl.NewSess(gl.Options{})
	defer s.Close()
	e := &evaluator{c: c, sess: s}
	clos, out := s.Compile("numerals", `local s = ...
local f = load("return " .. s)
local lv, lok = nil, false
if f then lok, lv = pcall(f) end
local ok, arith = pcall(function() return s + 0 end)
if not ok then arith = "\0ERR" end
return tonumber(s), lok, lv, arith`)
	if out != nil {
		c.Violation("compile", "numeral chunk", out.ErrMsg+out.PanicMsg, "")
		return
	}
	fn := rt.FunctionValue(clos)
	maxLen := c.Pick(4, 5)
	alpha := numeralAlphabet
	idx := 0
	buf := make([]byte, 0, 8)
	var rec func(depth int)
	check := func(str string, viaLua bool) {
		c.Eval(1)
		e.checkStringToNumber(str, "tonumber("+strconv.Quote(str)+")")
		if len(str) > 1 {
			c.NonTrivial(vp.Hash("num", str))
		}
		if !viaLua {
			return
		}
		c.Begin("numeral "+strconv.Quote(str), str)
		s.Trace = nil
		o := s.Call(fn, []rt.Value{rt.StringValue(str)})
		if o.Kind != gl.OK {
			c.Violation("outcome", "numeral pipeline "+o.Kind+" "+strconv.Quote(str), o.String()+"\n"+o.Stack, str)
			return
		}
		got := splitEnc(o.Rets)
		if len(got) != 4 {
			// the numeral may contain a comma-free value only; shape errors are real
			c.Violation("shape", "numeral result count "+strconv.Quote(str), o.Rets, str)
			return
		}
		c.Eval(3)
		want, st := nm.StringToNumber(str)
		if st != nm.Skip {
			w := "n"
			if st == nm.Val {
				w = want.Enc()
			}
			if got[0] != w {
				c.Violation("mismatch", "lua tonumber "+strconv.Quote(str), fmt.Sprintf("tonumber(%q) = %s, the manual's numeral rules give %s", str, got[0], w), str)
			}
			// string arithmetic coercion: s+0
			wa := errEnc
			if st == nm.Val {
				v, st2 := nm.Arith("+", want, nm.I(0))
				if st2 == nm.Val {
					wa = v.Enc()
				}
			}
			if got[3] != wa {
				c.Violation("mismatch", "lua coercion "+strconv.Quote(str), fmt.Sprintf("%q+0 = %s, the manual gives %s", str, got[3], wa), str)
			}
		}
		// as a source literal: only when the whole string is one unsigned numeral
		lit, lst := nm.ParseNumeral(str)
		if lst == nm.Val {
			if got[1] != "b:true" || got[2] != lit.Enc() {
				c.Violation("mismatch", "literal "+strconv.Quote(str), fmt.Sprintf("load('return %s')() = %s,%s, the manual gives true,%s", str, got[1], got[2], lit.Enc()), str)
			}
		}
		if c.WantSample() && st == nm.Val && len(str) >= 3 {
			c.Sample(map[string]interface{}{"numeral": str, "tonumber,loadok,loadvalue,s+0": o.Rets})
		}
	}
	rec = func(depth int) {
		if depth > 0 {
			idx++
			if c.Mine(idx) {
				str := string(buf)
				// every string goes through the Go API; through Lua when it looks numeric-ish or 1 in 8
				_, st := nm.StringToNumber(str)
				check(str, st == nm.Val || idx%8 == 0)
			}
		}
		if depth == maxLen {
			return
		}
		for i := 0; i < len(alpha); i++ {
			buf = append(buf, alpha[i])
			rec(depth + 1)
			buf = buf[:len(buf)-1]
		}
	}
	rec(0)
	// long forms
	r := c.Rand("long")
	n := c.Pick(3000, 200000) / c.NB
	for i := 0; i < n; i++ {
		check(randNumeral(r), true)
	}
	for i, str := range longForms() {
		if c.Mine(i) {
			check(str, true)
		}
	}
}

func longForms() []string {
	l := []string{
		"9223372036854775807", "9223372036854775808", "9223372036854775809", "18446744073709551615", "18446744073709551616",
		"-9223372036854775808", "-9223372036854775809", "+-5", "-+5", "--5", "++5", "+5", "- 5", "5 5", "0x7fffffffffffffff",
		"0x8000000000000000", "0xffffffffffffffff", "0x10000000000000000", "0x1ffffffffffffffff", "-0x8000000000000000",
		"0x.1", "0x1.", "0x.p1", "0xp1", "0x1p", "0x1p+", "0x1p+1", "0X1P-1", "1e+", "1e-", "1e+1", "1E-1", ".e1", "1.e1", ".1e1",
		"1e1.5", "1..2", "1.2.3", "0x1.8p1", "0x.8", "0xA.8p0", "inf", "nan", "Inf", "NaN", "infinity", "-inf", "0x1_0", "1_0", "1_000.5",
		"1e1_0", "0b101", "0o17", "1e10", "1e15", "1e16", "1e22", "1e23", "123456789012345678", "1234567890123456789", "12345678901234567890",
		"0.1", "0.3", "4.35", "2.2250738585072014e-308", "1.7976931348623157e308", "9007199254740993", "9007199254740992.5", "0x1.fffffffffffff8p0",
		"0x1.00000000000008p0", "0x1.000000000000080000001p0", " 10 ", "\t10\n", "\v10\f", "10\r", "1 0", "", " ", "0x", "0x ", "x10", "1x", "1f", "0xg",
		"1e308", "1e-307", "5e-1", "00012", "0.", ".0", ".", "0x0", "0x00000000000000000001", "-0", "-0.0", "+0.0", "1e0", "0e0", "0x0p0", "-0x0p0",
	}
	return l
}

func randNumeral(r *rand.Rand) string {
	var b strings.Builder
	if r.Intn(6) == 0 {
		b.WriteString([]string{" ", "\t", "\n"}[r.Intn(3)])
	}
	if r.Intn(4) == 0 {
		b.WriteString([]string{"-", "+"}[r.Intn(2)])
	}
	digits := func(set string, n int) {
		for i := 0; i < n; i++ {
			b.WriteByte(set[r.Intn(len(set))])
		}
	}
	if r.Intn(3) == 0 {
		b.WriteString([]string{"0x", "0X"}[r.Intn(2)])
		digits("0123456789abcdefABCDEF", r.Intn(20))
		if r.Intn(3) == 0 {
			b.WriteByte('.')
			digits("0123456789abcdef", r.Intn(16))
		}
		if r.Intn(3) == 0 {
			b.WriteString([]string{"p", "P"}[r.Intn(2)])
			if r.Intn(2) == 0 {
				b.WriteString([]string{"-", "+"}[r.Intn(2)])
			}
			digits("0123456789", r.Intn(4))
		}
	} else {
		digits("0123456789", r.Intn(22))
		if r.Intn(3) == 0 {
			b.WriteByte('.')
			digits("0123456789", r.Intn(20))
		}
		if r.Intn(3) == 0 {
			b.WriteString([]string{"e", "E"}[r.Intn(2)])
			if r.Intn(2) == 0 {
				b.WriteString([]string{"-", "+"}[r.Intn(2)])
			}
			digits("0123456789", r.Intn(4))
		}
	}
	if r.Intn(8) == 0 {
		b.WriteString([]string{" ", "\t", "x", "_", "."}[r.Intn(5)])
	}
	return b.String()
}
