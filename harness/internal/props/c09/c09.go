// Package c09 checks property C09 (coroutines): enumerated and random action
// scripts over up to three coroutines, and generated coroutine-heavy programs,
// are run by golua and by the reference interpreter (values transferred,
// statuses, legality errors, error delivery, close). The same workloads run
// on -race builds under several GOMAXPROCS values and hand-off delay settings
// while the hooks watch the owner token; after every case no dead coroutine
// may still own a goroutine; a hang is a deadlock when the goroutine dump
// shows every goroutine parked.
package c09

import (
	"fmt"
	"math/rand"
	"strings"
	"sync"

	"verif/internal/eng"
	"verif/internal/gl"
	"verif/internal/lg"
	"verif/internal/vp"
)

type Prop struct{}

func (Prop) ID() string { return "C09" }

type variant struct {
	name  string
	procs string
	delay string
}

var raceVariants = []variant{
	{"race-p1", "1", ""},
	{"race-p2-yield", "2", "end.after-send=yield"},
	{"race-p16-sleep", "16", "end.after-send=sleep:200us"},
	{"race-p4-allyield", "4", "*=yield"},
	{"race-p16", "16", ""},
	{"race-p2-sleepall", "2", "*=sleep:20us"},
}

func (Prop) Plan(t vp.Tier) []vp.Stage {
	st := []vp.Stage{
		{Name: "scripts", NBatches: 16, TimeoutS: 1800, TimeoutIsViolation: true, DeadlockOnly: true},
		{Name: "programs", NBatches: 16, TimeoutS: 1800, TimeoutIsViolation: true, DeadlockOnly: true},
		{Name: "callbacks", NBatches: 4, TimeoutS: 900, TimeoutIsViolation: true, DeadlockOnly: true},
		{Name: "callbacks-race", NBatches: 2, Race: true, TimeoutS: 900, TimeoutIsViolation: true, DeadlockOnly: true},
	}
	nv := 3
	if t == vp.Thorough {
		nv = len(raceVariants)
	}
	for _, v := range raceVariants[:nv] {
		env := []string{"GOMAXPROCS=" + v.procs}
		if v.delay != "" {
			env = append(env, "VERIF_DELAY="+v.delay)
		}
		st = append(st, vp.Stage{Name: v.name, NBatches: 8, Race: true, Env: env, TimeoutS: 2400, TimeoutIsViolation: true, DeadlockOnly: true})
	}
	return st
}

var (
	scriptsOnce sync.Once
	scripts     []lg.CoScript
)

func allScripts(t vp.Tier) []lg.CoScript {
	scriptsOnce.Do(func() {
		scripts = append(scripts, lg.EnumCoScripts(1, 3)...)
		scripts = append(scripts, lg.EnumCoScripts(2, 3)...)
		if t == vp.Thorough {
			scripts = append(scripts, lg.EnumCoScripts(1, 4)...)
		}
	})
	return scripts
}

func (Prop) Describe(t vp.Tier) vp.Description {
	return vp.Description{
		Rule: fmt.Sprintf("Stage scripts: every action script (%d) with 1 coroutine and at most 3 steps (thorough: 4) and with 2 coroutines and at most 3 steps in total, over body steps "+
			"{yield, yield several values, return, error(string), error(table), own status, running/isyieldable, declare <close> (plain and raising handler), yield inside pcall, close self, resume/close/status of coroutine j} and main steps "+
			"{resume, resume with arguments, close, status of coroutine j, yield from main, running}, each with coroutine.create and with coroutine.wrap, plus PRNG scripts with 3 coroutines and up to 6 steps per body; every step emits what it observed and the "+
			"event sequence must equal the reference's. Stage programs: generated coroutine-heavy programs. Stages race-*: slices of both on -race builds (data races, checkptr) under GOMAXPROCS in {1,2,4,16} with delays injected at the hand-off points "+
			"(yield / sleep after the send in Thread.end, at every point); the hooks assert that no Lua instruction or Go function runs in a thread other than the owner of the baton. After every case: no dead coroutine may still own a goroutine "+
			"(start/exit hook events, polled for up to 5 s: a goroutine that is merely slow to exit on a loaded host is not a leak). A batch that does not finish is a deadlock only if the SIGQUIT dump shows no running/runnable goroutine. "+
			"Stage callbacks: a coroutine yields from inside a callback (sort comparator, gsub function, metamethod handlers, load reader, iterator, protected calls) with a <close> variable pending, then is closed or resumed to its end: invariants that hold whatever the construct does (dead after close, handler exactly once, nothing runs afterwards, return value delivered once). " +
			"Non-trivial: >= 2 coroutine hand-offs (resume/yield/close) in the reference run; distinct by program text.", len(allScripts(t))),
		Assumptions: []string{
			"refvm's coroutine semantics is a correct reading of manual section 6.2; texts of the 'cannot resume ...' messages are not compared; a second coroutine.close after an error gives no verdict",
			"the race detector only sees the interleavings that occurred; GOMAXPROCS and delay points widen them but do not enumerate schedules",
			"termination by quota inside a coroutine is judged by C05/C06; suspended coroutines that are never resumed keep their goroutine by design (not 'finished, failed or closed')",
		},
		Floor: map[vp.Tier]int64{vp.Quick: 3000, vp.Thorough: 40000}[t],
		Extra: map[string]interface{}{"scripts_enumerated": len(allScripts(t))},
	}
}

func coOptions(r *rand.Rand) lg.GenOptions {
	o := lg.DefaultGenOptions()
	o.Stmts = 10 + r.Intn(25)
	o.WCoroutine = 18
	o.WPcall = 6
	o.WTBC = 5
	o.WError = 6
	o.WMeta = 1
	o.WMethod = 1
	o.WVararg = 2
	return o
}

func handoffs(cs *eng.Case) bool {
	f := cs.Want.Features
	return f["co-resume"]+f["co-yield"]+f["co-close"]+f["co-wrap"] >= 2
}

func (Prop) RunBatch(c *vp.Child) {
	var leakChecks, leaked int64
	eng.AfterCase = func(c *vp.Child, cs *eng.Case, id string) {
		if !gl.HooksEnabled {
			return
		}
		n, _, _ := gl.DeadThreadsWithGoroutine(5000)
		leakChecks++
		if n > 0 {
			leaked += int64(n)
			c.Violation("goroutine-leak", "dead coroutine still owns a goroutine", fmt.Sprintf("%d dead coroutine(s) whose goroutine has not exited 5000 polls (>= 5 s) after the case ended", n), "")
		}
		gl.ForgetThreads()
	}
	defer func() {
		c.Feature("leak-checks", leakChecks)
		_, starts, exits := gl.DeadThreadsWithGoroutine(0)
		c.Feature("coroutine-goroutines-started", starts)
		c.Feature("coroutine-goroutines-exited", exits)
	}()
	all := allScripts(c.Tier)
	race := strings.HasPrefix(c.Stage, "race-")
	switch {
	case strings.HasPrefix(c.Stage, "callbacks"):
		callbacks(c)
	case c.Stage == "scripts":
		// quick: all one-coroutine scripts and every third two-coroutine script
		// (rotating with the seed); thorough: all of them, in two renderings
		var idx []int
		for i := range all {
			if c.Thorough() || len(all[i].Bodies) == 1 || (i+int(c.Seed))%3 == 0 {
				idx = append(idx, i)
			}
		}
		eng.RunFixed(c, len(idx), c.Pick(1, 2), func(i int) (*lg.Program, string) {
			return all[idx[i]].Program(), "script:" + all[idx[i]].String()
		}, handoffs)
		nr := c.Pick(1500, 20000)
		eng.RunFixed(c, nr, 1, func(i int) (*lg.Program, string) {
			r := rand.New(rand.NewSource(c.Seed*31 + int64(i)))
			s := lg.RandomCoScript(r, 2+r.Intn(2), 6, 8)
			return s.Program(), "rscript:" + s.String()
		}, handoffs)
	case c.Stage == "programs" || race:
		if race {
			// a slice of the scripts: every stride-th one, shifted by the seed
			stride := c.Pick(60, 6)
			var idx []int
			for i := int(c.Seed) % stride; i < len(all); i += stride {
				idx = append(idx, i)
			}
			eng.RunFixed(c, len(idx), 1, func(i int) (*lg.Program, string) {
				return all[idx[i]].Program(), "script:" + all[idx[i]].String()
			}, handoffs)
			nr := c.Pick(300, 4000)
			eng.RunFixed(c, nr, 1, func(i int) (*lg.Program, string) {
				r := rand.New(rand.NewSource(c.Seed*37 + int64(i)))
				s := lg.RandomCoScript(r, 2+r.Intn(2), 6, 8)
				return s.Program(), "rscript:" + s.String()
			}, handoffs)
		}
		cp := eng.Corpus{
			Programs:   c.Pick(1200, 20000),
			Options:    coOptions,
			NStyles:    1,
			NArgs:      c.Pick(1, 2),
			Salt:       9,
			NonTrivial: func(cs *eng.Case, p *lg.Program) bool { return handoffs(cs) },
		}
		if race {
			cp.Programs = c.Pick(100, 1500)
		}
		cp.Run(c)
	}
}

func (Prop) Replay(c *vp.Child, input string) {
	out := eng.RunText(input, nil)
	fmt.Printf("golua outcome (called without arguments): %s\n", out.String())
	for _, r := range out.Reports {
		fmt.Println("hook report:", r)
	}
}
