package c09

import (
	"fmt"
	"strings"

	"verif/internal/eng"
	"verif/internal/gl"
	"verif/internal/vp"
)

// Stage "callbacks": a coroutine yields from inside a function that the
// library or a metamethod dispatch calls back (sort comparator, gsub
// replacement function, __index/__lt/__add/__concat/__len/__call/__eq/
// __tostring handlers, a load reader, a generic-for iterator, a pcall body),
// with a to-be-closed variable pending. Whether such a yield is allowed is
// implementation-defined (the reference implementation refuses some of them),
// so no reference trace is used; the monitor checks what must hold whatever the
// construct does:
//   I1  after coroutine.close(co) returned, status(co) is "dead" and no event of
//       the coroutine's body appears any more; close's first result is a boolean;
//   I2  the pending __close handler ran exactly once by the time the coroutine is
//       dead (closed or finished);
//   I3  resuming a dead coroutine fails (false, message) and runs nothing;
//   I4  when resumed to completion instead, the code after the construct runs
//       exactly once and the body's return value is delivered exactly once;
//   I5  no goroutine is left behind by the dead coroutine (the AfterCase monitor).

var callbackConstructs = []struct{ name, src string }{
	{"sort-comparator", `local first = true; local t = {3, 1, 2}; table.sort(t, function(a, b) if first then first = false; coroutine.yield("in") end return a < b end)`},
	{"sort-lt-metamethod", `local first = true; local mt = {__lt = function(a, b) if first then first = false; coroutine.yield("in") end return a.v < b.v end}; local t = {setmetatable({v = 2}, mt), setmetatable({v = 1}, mt)}; table.sort(t)`},
	{"gsub-function", `local s = ("abc"):gsub("%w", function(ch) if ch == "b" then coroutine.yield("in") end return ch end)`},
	{"gsub-table-index", `local repl = setmetatable({}, {__index = function(t, k) if k == "b" then coroutine.yield("in") end return k end}); local s = ("abc"):gsub("%w", repl)`},
	{"index-metamethod", `local o = setmetatable({}, {__index = function(t, k) coroutine.yield("in") return 1 end}); local v = o.x`},
	{"newindex-metamethod", `local o = setmetatable({}, {__newindex = function(t, k, v) coroutine.yield("in") rawset(t, k, v) end}); o.x = 1`},
	{"add-metamethod", `local o = setmetatable({}, {__add = function(a, b) coroutine.yield("in") return 1 end}); local v = o + 1`},
	{"concat-metamethod", `local o = setmetatable({}, {__concat = function(a, b) coroutine.yield("in") return "c" end}); local v = "x" .. o`},
	{"len-metamethod", `local o = setmetatable({}, {__len = function(a) coroutine.yield("in") return 3 end}); local v = #o`},
	{"eq-metamethod", `local mt = {__eq = function(a, b) coroutine.yield("in") return true end}; local v = setmetatable({}, mt) == setmetatable({}, mt)`},
	{"lt-metamethod", `local mt = {__lt = function(a, b) coroutine.yield("in") return true end}; local v = setmetatable({}, mt) < setmetatable({}, mt)`},
	{"call-metamethod", `local o = setmetatable({}, {__call = function(self, x) coroutine.yield("in") return x end}); local v = o(5)`},
	{"tostring-metamethod", `local o = setmetatable({}, {__tostring = function(a) coroutine.yield("in") return "o" end}); local v = tostring(o)`},
	{"unm-metamethod", `local o = setmetatable({}, {__unm = function(a) coroutine.yield("in") return 1 end}); local v = -o`},
	{"load-reader", `local n = 0; local f = load(function() n = n + 1; if n == 1 then coroutine.yield("in") return "return 1" end return nil end)`},
	{"for-iterator", `for i in function(s, c) if c == 0 then coroutine.yield("in") return 1 end return nil end, nil, 0 do local x = i end`},
	{"pcall-body", `pcall(function() coroutine.yield("in") end)`},
	{"xpcall-body", `xpcall(function() coroutine.yield("in") end, function(m) return m end)`},
	{"pcall-in-sort", `local first = true; pcall(table.sort, {3, 1, 2}, function(a, b) if first then first = false; coroutine.yield("in") end return a < b end)`},
	{"select-unpack-call", `local function y(...) coroutine.yield("in") return ... end; local a, b = select(2, y(1, 2, 3))`},
	{"ipairs-index", `local o = setmetatable({}, {__index = function(t, i) if i == 1 then coroutine.yield("in") return "v" end return nil end}); for i, v in ipairs(o) do local x = v end`},
	{"table-concat-index", `local o = setmetatable({}, {__index = function(t, i) coroutine.yield("in") return "v" end, __len = function() return 1 end}); local s = table.concat(o)`},
	{"table-unpack-index", `local o = setmetatable({}, {__index = function(t, i) coroutine.yield("in") return "v" end}); local a = table.unpack(o, 1, 1)`},
	{"pcall-body-tbc-inside", `pcall(function() local g2 <close> = mkc(2); coroutine.yield("in") end)`},
	{"xpcall-body-tbc-inside", `xpcall(function() local g2 <close> = mkc(2); local g3 <close> = mkc(3); coroutine.yield("in") end, function(m) return m end)`},
	{"nested-pcall-tbc-inside", `pcall(function() local g2 <close> = mkc(2); pcall(function() local g3 <close> = mkc(3); coroutine.yield("in") end) end)`},
	{"callcontext-tbc-inside", `runtime.callcontext({kill = {cpu = 1000000}}, function() local g2 <close> = mkc(2); coroutine.yield("in") end)`},
	{"sort-comparator-tbc-inside", `local first = true; local t = {3, 1, 2}; table.sort(t, function(a, b) if first then first = false; local g2 <close> = mkc(2); coroutine.yield("in") end return a < b end)`},
	{"index-metamethod-tbc-inside", `local o = setmetatable({}, {__index = function(t, k) local g2 <close> = mkc(2); coroutine.yield("in") return 1 end}); local v = o.x`},
	{"tbc-handler", `do local h <close> = setmetatable({}, {__close = function() coroutine.yield("in") end}) end`},
	{"nested-wrap", `local inner = coroutine.wrap(function() coroutine.yield("x") return "y" end); inner(); coroutine.yield("in"); inner()`},
}

func callbackProgram(construct string, closeIt bool, wrap bool) string {
	var b strings.Builder
	b.WriteString(`local function mkc(id) emit("declare", id) return setmetatable({}, {__close = function(o, e) emit("close-handler", id, e == nil) end}) end
local co = coroutine.create(function(p)
  local guard <close> = mkc(1)
  emit("body", "start", p)
  ` + construct + `
  emit("body", "after construct")
  return "ret"
end)
emit("main", "first", coroutine.resume(co, 7))
emit("main", "status", coroutine.status(co))
`)
	if closeIt {
		b.WriteString(`emit("main", "close", coroutine.close(co))
`)
	} else {
		b.WriteString(`for i = 1, 10 do
  if coroutine.status(co) ~= "suspended" then break end
  emit("main", "resume", coroutine.resume(co, i))
end
`)
	}
	b.WriteString(`emit("main", "final status", coroutine.status(co))
emit("main", "resume dead", coroutine.resume(co))
emit("main", "status again", coroutine.status(co))
emit("main", "end")
`)
	return b.String()
}

func has(ev []string, vals ...string) bool {
	if len(ev) < len(vals) {
		return false
	}
	for i, v := range vals {
		if ev[i] != `s:"`+v+`"` {
			return false
		}
	}
	return true
}

// handover: a dying coroutine whose pending __close handler yields is
// suspended once more and then resumed by ANOTHER coroutine; when the handler
// returns, the coroutine's error (or results) must go to the thread that
// resumed it last, and every thread involved must end up dead.
func handover(c *vp.Child, k0 int) {
	for vi, v := range []struct{ name, ending, wantB string }{
		{"error", `error("boom", 0)`, `s:"B" b:false s:"boom"`},
		{"return", `return "ret", 2`, `s:"B" b:true s:"ret" i:2`},
		{"error-table", `error(setmetatable({}, {__tostring = function() return "E" end}))`, `s:"B" b:false t#`},
	} {
		if !c.Mine(k0 + vi) {
			continue
		}
		text := `local co = coroutine.create(function()
  local v <close> = setmetatable({}, {__close = function(_, e)
    emit("close", e ~= nil)
    local x = coroutine.yield("from close handler")
    emit("close resumed", x)
  end})
  ` + v.ending + `
end)
emit("main1", coroutine.resume(co))
emit("status", coroutine.status(co))
local B = coroutine.create(function()
  emit("B", coroutine.resume(co, "hi from B"))
  emit("status in B", coroutine.status(co))
  return "B done"
end)
emit("main2", coroutine.resume(B))
emit("B status", coroutine.status(B))
emit("again", (coroutine.resume(B)))
emit("co again", (coroutine.resume(co)))
`
		label := "handover:" + v.name
		c.Begin(label, text)
		out := eng.RunText(text, nil)
		c.Eval(1)
		c.NonTrivial(vp.Hash(label))
		var got []string
		for _, ev := range out.TraceV {
			got = append(got, strings.Join(ev, " "))
		}
		want := []string{
			fmt.Sprintf(`s:"close" b:%v`, v.name != "return"),
			`s:"main1" b:true s:"from close handler"`,
			`s:"status" s:"suspended"`,
			`s:"close resumed" s:"hi from B"`,
			v.wantB,
			`s:"status in B" s:"dead"`,
			`s:"main2" b:true s:"B done"`,
			`s:"B status" s:"dead"`,
			`s:"again" b:false`,
			`s:"co again" b:false`,
		}
		ok := out.Kind == gl.OK && len(got) == len(want)
		for i := 0; ok && i < len(want); i++ {
			if got[i] != want[i] && !(strings.HasSuffix(want[i], "t#") && strings.HasPrefix(got[i], want[i])) {
				ok = false
			}
		}
		if !ok || len(out.Reports) > 0 {
			c.Violation("callback-handover", label, fmt.Sprintf("a dying coroutine suspended in its __close handler and resumed by another coroutine:\n  got:  %s\n  want: %s\n  outcome: %s %s %s", strings.Join(got, " | "), strings.Join(want, " | "), out.Kind, out.ErrMsg, strings.Join(out.Reports, "; ")), text)
		}
	}
}

func callbacks(c *vp.Child) {
	handover(c, 1000)
	k := 0
	for _, cc := range callbackConstructs {
		for _, closeIt := range []bool{true, false} {
			k++
			if !c.Mine(k) {
				continue
			}
			text := callbackProgram(cc.src, closeIt, false)
			label := fmt.Sprintf("callback:%s/close=%v", cc.name, closeIt)
			c.Begin(label, text)
			out := eng.RunText(text, nil)
			c.Eval(1)
			c.NonTrivial(vp.Hash(label))
			fail := func(inv, what string) {
				c.Violation("callback-"+inv, label+": "+what, what+"\ntrace: "+strings.Join(out.Trace, " | ")+"\noutcome: "+out.Kind+" "+out.ErrMsg+out.PanicMsg, text)
			}
			if len(out.Reports) > 0 {
				fail("hook", out.Reports[0])
			}
			if out.Kind != gl.OK {
				fail("outcome", "the program did not run to its end: "+out.Kind+" "+out.ErrMsg+out.PanicMsg)
				continue
			}
			tv := out.TraceV
			// locate the events
			var closeHandlers, afterConstruct, rets int
			declared, closedIDs := map[string]int{}, map[string]int{}
			firstYielded := false
			closeIdx, finalIdx := -1, -1
			for i, ev := range tv {
				switch {
				case has(ev, "declare") && len(ev) >= 2:
					declared[ev[1]]++
				case has(ev, "close-handler"):
					closeHandlers++
					if len(ev) >= 2 {
						closedIDs[ev[1]]++
					}
				case has(ev, "body", "after construct"):
					afterConstruct++
				case has(ev, "main", "first") && len(ev) >= 4 && ev[2] == "b:true" && ev[3] == `s:"in"`:
					firstYielded = true
				case has(ev, "main", "close"):
					closeIdx = i
				case has(ev, "main", "final status"):
					finalIdx = i
				}
				if has(ev, "main") && len(ev) >= 4 && ev[2] == "b:true" && ev[3] == `s:"ret"` {
					rets++
				}
			}
			c.Feature(fmt.Sprintf("callback-yielded-%v", firstYielded), 1)
			if finalIdx < 0 {
				fail("outcome", "no final status event")
				continue
			}
			final := tv[finalIdx]
			if !firstYielded {
				// the construct did not let the coroutine yield (refused with an error, or the
				// library does not call back): the coroutine must then simply be dead or have ended
				if len(final) < 3 || (final[2] != `s:"dead"` && final[2] != `s:"suspended"`) {
					fail("I1", "unexpected final status "+strings.Join(final, " "))
				}
				continue
			}
			if len(final) < 3 || final[2] != `s:"dead"` {
				fail("I1", "the coroutine is not dead at the end: "+strings.Join(final, " "))
			}
			if closeHandlers < 1 {
				fail("I2", fmt.Sprintf("the pending __close handler ran %d times", closeHandlers))
			}
			for id, n := range declared {
				if closedIDs[id] != n {
					fail("I2", fmt.Sprintf("to-be-closed value %s was declared %d times and its __close handler ran %d times by the time the coroutine was dead", id, n, closedIDs[id]))
				}
			}
			// I3
			for i := finalIdx + 1; i < len(tv); i++ {
				if has(tv[i], "main", "resume dead") && (len(tv[i]) < 3 || tv[i][2] != "b:false") {
					fail("I3", "resuming the dead coroutine did not fail: "+strings.Join(tv[i], " "))
				}
				if has(tv[i], "body") || has(tv[i], "close-handler") {
					fail("I3", "code of the dead coroutine ran: "+strings.Join(tv[i], " "))
				}
				if has(tv[i], "main", "status again") && (len(tv[i]) < 3 || tv[i][2] != `s:"dead"`) {
					fail("I3", "status after resuming the dead coroutine: "+strings.Join(tv[i], " "))
				}
			}
			if closeIt {
				if closeIdx < 0 || len(tv[closeIdx]) < 3 || (tv[closeIdx][2] != "b:true" && tv[closeIdx][2] != "b:false") {
					fail("I1", "coroutine.close did not return a boolean first")
				}
				if afterConstruct != 0 || rets != 0 {
					fail("I1", "the body of the closed coroutine went on running")
				}
				for i := closeIdx + 1; i < len(tv) && closeIdx >= 0; i++ {
					if has(tv[i], "body") || has(tv[i], "close-handler") {
						fail("I1", "an event of the coroutine after close returned: "+strings.Join(tv[i], " "))
					}
				}
			} else {
				if afterConstruct != 1 {
					fail("I4", fmt.Sprintf("the code after the construct ran %d times", afterConstruct))
				}
				if rets != 1 {
					fail("I4", fmt.Sprintf("the body's return value was delivered %d times", rets))
				}
			}
		}
	}
}
