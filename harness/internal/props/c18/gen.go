package c18

import (
	"encoding/json"
	"fmt"
	"math/rand"
	"strings"
)

// CtxDef is the definition of one nested context of a history.
type CtxDef struct {
	ID     int    `json:"id"`
	Via    string `json:"via"`    // "lua": runtime.callcontext ; "go": Thread.CallContext from a host function
	Policy int    `json:"policy"` // 0 default, 1 share, 2 isolate (via "go" only)
	Cpu    uint64 `json:"cpu"`
	Mem    uint64 `json:"mem"`
	Exit   string `json:"exit"` // done error kill-now kill-cpu kill-mem lua-kill-now lua-kill-cpu fin-kill
}

func (d CtxDef) Iso() bool { return d.Policy == 2 || d.Cpu > 0 || d.Mem > 0 }

// History is one generated case: a Lua chunk plus what the host does around it.
type History struct {
	Seed       int64    `json:"seed"`
	Index      int      `json:"index"`
	RtCtx      bool     `json:"rtctx"` // the runtime itself is created inside a limited context
	RtCpu      uint64   `json:"rtcpu,omitempty"`
	RtMem      uint64   `json:"rtmem,omitempty"`
	PreCloseGC int      `json:"preclose_gc"` // 0 none, 1 host GC and wait for Go finalisers, 2 host GC without waiting
	Ctx        []CtxDef `json:"ctx"`
	Lua        string   `json:"-"`
	NObj       int      `json:"nobj"`
	// Coroutines and memory limits are never mixed in one history: a finished
	// coroutine's goroutine gives its 2 kB back after it has handed control
	// over (Thread.end), i.e. possibly inside whatever context the program has
	// entered by then; that is C09/C06's finding, not C18's.
	Coroutines bool `json:"coroutines"`
}

// Input renders the history as the replayable witness text.
func (h *History) Input() string {
	b, _ := json.Marshal(h)
	return "--C18 " + string(b) + "\n" + h.Lua
}

// ParseInput is the inverse of Input.
func ParseInput(s string) (*History, error) {
	nl := strings.IndexByte(s, '\n')
	if nl < 0 || !strings.HasPrefix(s, "--C18 ") {
		return nil, fmt.Errorf("not a C18 witness")
	}
	h := &History{}
	if err := json.Unmarshal([]byte(s[6:nl]), h); err != nil {
		return nil, err
	}
	h.Lua = s[nl+1:]
	return h, nil
}

const prelude = `local K, R, RES, ERRF, SPIN, NEST = {}, {}, {}, {}, {}, {}
regkr(K, R)
local function fin(o)
  local id = oid(o)
  local c = runtime.context()
  gcev(id, c.kill.cpu, c.status)
  if NEST[id] then GC() end
  if RES[id] and RES[id] > 0 then RES[id] = RES[id] - 1; R[id] = o; resev(id) end
  if SPIN[id] then hkill(SPIN[id], "now") end
  gcend(id)
  if ERRF[id] then error("fin" .. id) end
end
local MT = {__gc = fin}
local function churn(n) local t = {} for i = 1, n do t[i] = {i} end return #t end
`

type gobj struct {
	id     int
	ud     bool
	hasGC  bool
	rel    bool
	pool   int // static owner pool
	kept   bool
	res    bool // may be resurrected
	noDrop bool
	dead   bool // its pool's context has ended
}

type gen struct {
	r      *rand.Rand
	h      *History
	b      strings.Builder
	objs   []*gobj
	nextID int
	nextC  int
	indent int
}

type gscope struct {
	pool    int  // nearest isolated context (0 = root)
	limited bool // a hard limit is in force (collectgarbage is not callable)
	memlim  bool // a memory limit is in force
	depth   int
	inCo    bool
	cpu     uint64 // CPU limit of the innermost cpu-limited context (0 none)
	mem     uint64
}

// Generate builds history number idx for the given seed.
// With noCoroutines the same history is built without its coroutine blocks.
func Generate(seed int64, idx int, noCoroutines bool) *History {
	r := rand.New(rand.NewSource(seed*1000003 + int64(idx)*7919 + 12345))
	h := &History{Seed: seed, Index: idx}
	g := &gen{r: r, h: h, nextID: 1, nextC: 1}
	sc := gscope{}
	h.Coroutines = r.Intn(3) == 0 && !noCoroutines
	if r.Intn(8) == 0 {
		h.RtCtx = true
		h.RtCpu = 50_000_000 + uint64(r.Intn(1000))
		if r.Intn(2) == 0 && !h.Coroutines {
			h.RtMem = 64<<20 + uint64(r.Intn(1000))
		}
		sc.limited = true
		sc.memlim = h.RtMem > 0
		sc.cpu = h.RtCpu
		sc.mem = h.RtMem
	}
	h.PreCloseGC = []int{0, 1, 1, 2}[r.Intn(4)]
	g.b.WriteString(prelude)
	n := 6 + r.Intn(30)
	g.block(sc, n)
	h.Lua = g.b.String()
	h.NObj = g.nextID - 1
	return h
}

func (g *gen) line(format string, a ...interface{}) {
	g.b.WriteString(strings.Repeat(" ", g.indent))
	fmt.Fprintf(&g.b, format, a...)
	g.b.WriteByte('\n')
}

func (g *gen) mtExpr() string {
	if g.r.Intn(3) == 0 {
		return "{__gc = fin}"
	}
	return "MT"
}

func (g *gen) collectStmt(sc gscope) string {
	if !sc.limited && g.r.Intn(2) == 0 {
		if g.r.Intn(4) == 0 {
			return `collectgarbage("step")`
		}
		return "collectgarbage()"
	}
	return "GC()"
}

func (g *gen) pick(pred func(o *gobj) bool) *gobj {
	var c []*gobj
	for _, o := range g.objs {
		if !o.dead && pred(o) {
			c = append(c, o)
		}
	}
	if len(c) == 0 {
		return nil
	}
	return c[g.r.Intn(len(c))]
}

func (g *gen) create(sc gscope, forceKeep bool, spin int) *gobj {
	r := g.r
	o := &gobj{id: g.nextID, pool: sc.pool}
	g.nextID++
	o.kept = forceKeep || r.Intn(5) < 2
	switch r.Intn(10) {
	case 0, 1, 2, 3, 4:
		o.hasGC = true
	case 5, 6:
		o.ud, o.hasGC, o.rel = true, true, true
	case 7:
		o.ud, o.rel = true, true
	case 8:
		o.ud, o.hasGC = true, true
	default:
		o.hasGC = true
	}
	if spin > 0 {
		o.hasGC = true
		o.noDrop = true
		g.line("SPIN[%d] = %d", o.id, spin)
	}
	if o.hasGC && spin == 0 {
		switch r.Intn(12) {
		case 0, 1, 2:
			o.res = true
			g.line("RES[%d] = %d", o.id, 1+r.Intn(2))
		case 3:
			g.line("ERRF[%d] = true", o.id)
		case 4:
			g.line("NEST[%d] = true", o.id)
		}
	}
	keep := ""
	if o.kept {
		keep = fmt.Sprintf(" K[%d] = o keepev(%d)", o.id, o.id)
	}
	if !o.ud {
		switch r.Intn(3) {
		case 0:
			g.line("do local o = {id = %d} tnew(%d)%s hmark(o, %s, %d) end", o.id, o.id, keep, g.mtExpr(), o.id)
		default:
			g.line("do local o = {id = %d} tnew(%d)%s markev(%d) setmetatable(o, %s) end", o.id, o.id, keep, o.id, g.mtExpr())
		}
	} else {
		rel := "false"
		if o.rel {
			rel = "true"
		}
		switch {
		case !o.hasGC:
			g.line("do local o = mkud(%d, %s, nil)%s end", o.id, rel, keep)
		case r.Intn(3) == 0:
			g.line("do local o = mkud(%d, %s, nil)%s markev(%d) debug.setmetatable(o, %s) end", o.id, rel, keep, o.id, g.mtExpr())
		case r.Intn(2) == 0:
			g.line("do local o = mkud(%d, %s, nil)%s hmark(o, %s, %d) end", o.id, rel, keep, g.mtExpr(), o.id)
		default:
			g.line("do local o = mkud(%d, %s, %s)%s end", o.id, rel, g.mtExpr(), keep)
		}
	}
	g.objs = append(g.objs, o)
	return o
}

func (g *gen) remarkStmt(o *gobj, ref string) string {
	switch {
	case g.r.Intn(3) == 0:
		return fmt.Sprintf("hmark(%s, %s, %d)", ref, g.mtExpr(), o.id)
	case o.ud:
		return fmt.Sprintf("markev(%d) debug.setmetatable(%s, %s)", o.id, ref, g.mtExpr())
	default:
		return fmt.Sprintf("markev(%d) setmetatable(%s, %s)", o.id, ref, g.mtExpr())
	}
}

func (g *gen) op(sc gscope) {
	r := g.r
	x := r.Intn(100)
	switch {
	case x < 34:
		g.create(sc, false, 0)
	case x < 48: // drop
		if o := g.pick(func(o *gobj) bool { return o.kept && !o.noDrop }); o != nil {
			o.kept = false
			g.line("dropev(%d) K[%d] = nil", o.id, o.id)
		} else {
			g.create(sc, false, 0)
		}
	case x < 56: // re-mark a kept value in its own pool
		if o := g.pick(func(o *gobj) bool { return o.kept && o.hasGC && o.pool == sc.pool }); o != nil {
			g.line("%s", g.remarkStmt(o, fmt.Sprintf("K[%d]", o.id)))
		} else {
			g.create(sc, true, 0)
		}
	case x < 62: // re-mark a resurrected value
		if o := g.pick(func(o *gobj) bool { return o.res && o.pool == sc.pool }); o != nil {
			g.line("if R[%d] then %s end", o.id, g.remarkStmt(o, fmt.Sprintf("R[%d]", o.id)))
		} else {
			g.line("%s", g.collectStmt(sc))
		}
	case x < 67: // drop a resurrected value
		if o := g.pick(func(o *gobj) bool { return o.res }); o != nil {
			g.line("if R[%d] then rdropev(%d) R[%d] = nil end", o.id, o.id, o.id)
		} else {
			g.line("churn(%d)", 5+r.Intn(40))
		}
	case x < 77:
		g.line("%s", g.collectStmt(sc))
	case x < 85:
		g.line("hostgc(%v)", r.Intn(4) != 0)
	case x < 89:
		g.line("churn(%d)", 5+r.Intn(40))
	case x < 97:
		if sc.depth < 3 && !sc.inCo {
			g.context(sc)
		} else {
			g.line("hostgc(true) %s", g.collectStmt(sc))
		}
	default: // x >= 97
		if !sc.inCo && g.h.Coroutines {
			g.coroutine(sc)
		} else {
			g.line("churn(%d)", 5+r.Intn(40))
		}
	}
}

func (g *gen) block(sc gscope, n int) {
	for i := 0; i < n; i++ {
		g.op(sc)
	}
}

func (g *gen) coroutine(sc gscope) {
	r := g.r
	sc2 := sc
	sc2.inCo = true
	// The pieces are generated in the order in which they execute (first part
	// of the body, what the caller does between the two resumes, second part)
	// and assembled afterwards, so that each piece only refers to what exists
	// when it runs.
	outer := g.b
	sub := func(indent int, f func()) string {
		g.b = strings.Builder{}
		g.indent += indent
		f()
		g.indent -= indent
		return g.b.String()
	}
	part1 := sub(2, func() { g.block(sc2, 1+r.Intn(4)) })
	yield := r.Intn(2) == 0
	var between, part2 string
	if yield {
		between = sub(0, func() { g.block(sc2, r.Intn(3)) }) // no context may be opened between the two resumes
		part2 = sub(2, func() { g.block(sc2, 1+r.Intn(4)) })
	}
	g.b = outer
	g.line("do local co = coroutine.wrap(function()")
	g.b.WriteString(part1)
	if yield {
		g.indent += 2
		g.line("coroutine.yield()")
		g.indent -= 2
		g.b.WriteString(part2)
	}
	g.line("end)")
	g.line("co()")
	if yield {
		g.b.WriteString(between)
		g.line("co()")
	}
	g.line("end")
}

func (g *gen) context(sc gscope) {
	r := g.r
	d := CtxDef{ID: g.nextC}
	g.nextC++
	level := sc.depth // 0,1,2
	cpuBase := []uint64{4_000_000, 200_000, 12_000}[level]
	memBase := []uint64{8 << 20, 1 << 20, 160 << 10}[level]
	if sc.cpu > 0 && cpuBase*4 > sc.cpu {
		cpuBase = sc.cpu / 5
	}
	if sc.mem > 0 && memBase*4 > sc.mem {
		memBase = sc.mem / 5
	}
	switch r.Intn(10) {
	case 0, 1, 2:
		d.Cpu = cpuBase + uint64(d.ID)*7
	case 3:
		d.Mem = memBase + uint64(d.ID)*8
	case 4, 5:
		d.Cpu = cpuBase + uint64(d.ID)*7
		d.Mem = memBase + uint64(d.ID)*8
	case 6:
		d.Policy = 2
	default: // shared
	}
	if r.Intn(2) == 0 {
		d.Via = "go"
		if d.Policy == 0 && r.Intn(3) == 0 {
			d.Policy = 1 // explicit share; with limits the context is isolated all the same
		}
	} else {
		d.Via = "lua"
		d.Policy = 0
	}
	// how it ends
	switch x := r.Intn(20); {
	case x < 8:
		d.Exit = "done"
	case x < 11:
		d.Exit = "error"
	case x < 13:
		d.Exit = "kill-now"
	case x < 15:
		if d.Cpu > 0 {
			d.Exit = "kill-cpu"
		} else {
			d.Exit = "kill-now"
		}
	case x < 16:
		if d.Mem > 0 {
			d.Exit = "kill-mem"
		} else {
			d.Exit = "lua-kill-now"
		}
	case x < 17:
		d.Exit = "lua-kill-now"
	case x < 18:
		if d.Cpu > 0 {
			d.Exit = "lua-kill-cpu"
		} else {
			d.Exit = "done"
		}
	default:
		if d.Iso() {
			d.Exit = "fin-kill"
		} else {
			d.Exit = "done"
		}
	}
	if g.h.Coroutines && d.Mem > 0 {
		d.Mem = 0
		if d.Cpu == 0 {
			d.Cpu = cpuBase + uint64(d.ID)*7
		}
		if d.Exit == "kill-mem" {
			d.Exit = "kill-cpu"
		}
	}
	g.h.Ctx = append(g.h.Ctx, d)

	sc2 := sc
	sc2.depth++
	if d.Iso() {
		sc2.pool = d.ID
	}
	if d.Cpu > 0 || d.Mem > 0 {
		sc2.limited = true
	}
	if d.Mem > 0 {
		sc2.memlim = true
		sc2.mem = d.Mem
	}
	if d.Cpu > 0 {
		sc2.cpu = d.Cpu
	}
	if d.Via == "lua" {
		lim := ""
		switch {
		case d.Cpu > 0 && d.Mem > 0:
			lim = fmt.Sprintf("kill = {cpu = %d, memory = %d}", d.Cpu, d.Mem)
		case d.Cpu > 0:
			lim = fmt.Sprintf("kill = {cpu = %d}", d.Cpu)
		case d.Mem > 0:
			lim = fmt.Sprintf("kill = {memory = %d}", d.Mem)
		}
		g.line("do local c = runtime.callcontext({%s}, function()", lim)
	} else {
		g.line("do local st, used = hcallctx(%d, function()", d.ID)
	}
	g.indent += 2
	g.line("enter(%d)", d.ID)
	if d.Exit == "fin-kill" {
		g.create(sc2, true, d.ID)
	}
	g.block(sc2, 2+r.Intn(10))
	switch d.Exit {
	case "done", "fin-kill":
		g.line("leaving(%d)", d.ID)
	case "error":
		g.line("leaving(%d)", d.ID)
		g.line("error(\"e%d\")", d.ID)
	case "kill-now":
		g.line("hkill(%d, \"now\")", d.ID)
	case "kill-cpu":
		g.line("hkill(%d, \"cpu\")", d.ID)
	case "kill-mem":
		g.line("hkill(%d, \"mem\")", d.ID)
	case "lua-kill-now":
		g.line("killing2(%d) runtime.killcontext()", d.ID)
	case "lua-kill-cpu":
		g.line("killing2(%d) while true do end", d.ID)
	}
	g.indent -= 2
	if d.Via == "lua" {
		g.line("end) cexit(%d, c.status, c.used.cpu) end", d.ID)
	} else {
		g.line("end) cexit(%d, st, used) end", d.ID)
	}
	if d.Iso() {
		for _, o := range g.objs {
			if o.pool == d.ID {
				o.dead = true
			}
		}
	}
}
