package c18

import (
	"fmt"
	"reflect"
	"runtime"
	"runtime/debug"
	"sync"
	"time"

	rt "github.com/arnodel/golua/runtime"

	"verif/internal/gl"
)

// execLog is the event log of one execution, appended to by host callbacks.
// It has its own lock: ReleaseResources is called by golua and the harness
// must not become the data race it is looking for.
type execLog struct {
	mu   sync.Mutex
	evs  []Ev
	ctx  map[int]CtxDef
	gcTO int // host GC waits that timed out (Go finalisers did not get to run)
	// the program's keep table and resurrect table (emptied after Close, see Execute)
	keep, res *rt.Table
}

func (l *execLog) add(e Ev) {
	l.mu.Lock()
	if len(l.evs) < 20000 {
		l.evs = append(l.evs, e)
	}
	l.mu.Unlock()
}

// releasable Go value of a harness userdata
type relVal struct {
	l  *execLog
	id int
}

func (v *relVal) ReleaseResources(d *rt.UserData) { v.l.add(Ev{K: "release", ID: v.id}) }

var _ rt.UserDataResourceReleaser = (*relVal)(nil)

// Go value of a harness userdata that releases nothing
type plainVal struct {
	id  int
	pad [2]uint64
}

func isNilIface(x interface{}) bool {
	if x == nil {
		return true
	}
	v := reflect.ValueOf(x)
	switch v.Kind() {
	case reflect.Ptr, reflect.Interface, reflect.Map, reflect.Slice, reflect.Func, reflect.Chan:
		return v.IsNil()
	}
	return false
}

func observe(t *rt.Thread) (cpu, mem, used uint64, depth int, policy string) {
	ctx := t.RuntimeContext()
	hl := ctx.HardLimits()
	cpu, mem = hl.Cpu, hl.Memory
	used = ctx.UsedResources().Cpu
	for p := ctx.Parent(); !isNilIface(p) && depth < 64; p = p.Parent() {
		depth++
	}
	switch ctx.GCPolicy() {
	case rt.IsolateGCPolicy:
		policy = "isolate"
	case rt.ShareGCPolicy:
		policy = "share"
	default:
		policy = "other"
	}
	return
}

type sentinel struct {
	p   *int
	pad [4]uint64
}

//go:noinline
func armSentinel(done chan struct{}) {
	s := &sentinel{p: new(int)}
	runtime.SetFinalizer(s, func(*sentinel) { close(done) })
}

// hostGC runs Go's collector and, when wait is set, gives the finaliser
// goroutine the time to run what that cycle queued (a sentinel object's own
// finaliser tells us the queue was served).  Timing only decides how many
// finalisations are seen early, never a verdict.
func hostGC(l *execLog, wait bool) {
	if !wait {
		runtime.GC()
		runtime.Gosched()
		return
	}
	done := make(chan struct{})
	armSentinel(done)
	runtime.GC()
	tm := time.NewTimer(500 * time.Millisecond)
	select {
	case <-done:
		tm.Stop()
	case <-tm.C:
		l.mu.Lock()
		l.gcTO++
		l.mu.Unlock()
	}
	runtime.Gosched()
}

const allFlags = rt.ComplyCpuSafe | rt.ComplyMemSafe | rt.ComplyTimeSafe | rt.ComplyIoSafe

func install(s *gl.Sess, l *execLog) {
	r := s.R
	env := r.GlobalEnv()
	reg := func(name string, nArgs int, f func(t *rt.Thread, c *rt.GoCont) (rt.Cont, error)) {
		r.SetEnvGoFunc(env, name, f, nArgs, false).SolemnlyDeclareCompliance(allFlags)
	}
	simple := func(name, kind string) {
		reg(name, 1, func(t *rt.Thread, c *rt.GoCont) (rt.Cont, error) {
			id, err := c.IntArg(0)
			if err != nil {
				return nil, err
			}
			l.add(Ev{K: kind, ID: int(id)})
			return c.Next(), nil
		})
	}
	reg("regkr", 2, func(t *rt.Thread, c *rt.GoCont) (rt.Cont, error) {
		l.keep, _ = c.Arg(0).TryTable()
		l.res, _ = c.Arg(1).TryTable()
		return c.Next(), nil
	})
	simple("keepev", "keep")
	simple("dropev", "drop")
	simple("resev", "res")
	simple("rdropev", "rdrop")
	simple("markev", "mark")
	simple("leaving", "leaving")
	simple("killing2", "killing")
	reg("tnew", 1, func(t *rt.Thread, c *rt.GoCont) (rt.Cont, error) {
		id, err := c.IntArg(0)
		if err != nil {
			return nil, err
		}
		l.add(Ev{K: "obj", ID: int(id), Kind: "table"})
		return c.Next(), nil
	})
	hasGC := func(v rt.Value) (*rt.Table, bool) {
		mt, ok := v.TryTable()
		if !ok {
			return nil, false
		}
		return mt, !rt.RawGet(mt, rt.StringValue("__gc")).IsNil()
	}
	// mkud(id, releasable, metatable-or-nil): creates the userdata through the Go API
	reg("mkud", 3, func(t *rt.Thread, c *rt.GoCont) (rt.Cont, error) {
		id, err := c.IntArg(0)
		if err != nil {
			return nil, err
		}
		rel, err := c.BoolArg(1)
		if err != nil {
			return nil, err
		}
		l.add(Ev{K: "obj", ID: int(id), Kind: "ud", Rel: rel})
		mt, gc := hasGC(c.Arg(2))
		if gc {
			l.add(Ev{K: "mark", ID: int(id), Via: "new"})
		}
		var val interface{}
		if rel {
			val = &relVal{l: l, id: int(id)}
		} else {
			val = &plainVal{id: int(id)}
		}
		return c.PushingNext1(t.Runtime, t.NewUserDataValue(val, mt)), nil
	})
	// hmark(value, metatable, id): logs the mark and sets the metatable through the Go API in one step
	reg("hmark", 3, func(t *rt.Thread, c *rt.GoCont) (rt.Cont, error) {
		id, err := c.IntArg(2)
		if err != nil {
			return nil, err
		}
		mt, err := c.TableArg(1)
		if err != nil {
			return nil, err
		}
		l.add(Ev{K: "mark", ID: int(id), Via: "go"})
		t.SetRawMetatable(c.Arg(0), mt)
		return c.Next(), nil
	})
	reg("oid", 1, func(t *rt.Thread, c *rt.GoCont) (rt.Cont, error) {
		v := c.Arg(0)
		if tbl, ok := v.TryTable(); ok {
			return c.PushingNext1(t.Runtime, tbl.Get(rt.StringValue("id"))), nil
		}
		if u, ok := v.TryUserData(); ok {
			switch x := u.Value().(type) {
			case *relVal:
				return c.PushingNext1(t.Runtime, rt.IntValue(int64(x.id))), nil
			case *plainVal:
				return c.PushingNext1(t.Runtime, rt.IntValue(int64(x.id))), nil
			}
		}
		return c.PushingNext1(t.Runtime, rt.IntValue(-1)), nil
	})
	// gcev(id, kill.cpu-or-nil, status): first thing a __gc handler does
	reg("gcev", 3, func(t *rt.Thread, c *rt.GoCont) (rt.Cont, error) {
		id, err := c.IntArg(0)
		if err != nil {
			return nil, err
		}
		e := Ev{K: "gc", ID: int(id)}
		if n, ok := c.Arg(1).TryInt(); ok {
			e.LuaCpu = n
		}
		e.Status, _ = c.Arg(2).TryString()
		e.Cpu, e.Mem, e.Used, e.Depth, _ = observe(t)
		l.add(e)
		return c.Next(), nil
	})
	reg("gcend", 1, func(t *rt.Thread, c *rt.GoCont) (rt.Cont, error) {
		id, err := c.IntArg(0)
		if err != nil {
			return nil, err
		}
		e := Ev{K: "gcend", ID: int(id)}
		_, _, e.Used, _, _ = observe(t)
		l.add(e)
		return c.Next(), nil
	})
	reg("enter", 1, func(t *rt.Thread, c *rt.GoCont) (rt.Cont, error) {
		id, err := c.IntArg(0)
		if err != nil {
			return nil, err
		}
		d := l.ctx[int(id)]
		e := Ev{K: "enter", ID: int(id), Iso: d.Iso(), ReqCpu: d.Cpu, ReqMem: d.Mem, Via: d.Via}
		e.Cpu, e.Mem, e.Used, e.Depth, e.Policy = observe(t)
		l.add(e)
		return c.Next(), nil
	})
	reg("cexit", 3, func(t *rt.Thread, c *rt.GoCont) (rt.Cont, error) {
		id, err := c.IntArg(0)
		if err != nil {
			return nil, err
		}
		e := Ev{K: "exit", ID: int(id)}
		e.Status, _ = c.Arg(1).TryString()
		if n, ok := c.Arg(2).TryInt(); ok {
			e.Used = uint64(n)
		}
		l.add(e)
		return c.Next(), nil
	})
	// hkill(ctxid, how): logs the marker and kills the current context within the same Go call
	reg("hkill", 2, func(t *rt.Thread, c *rt.GoCont) (rt.Cont, error) {
		id, err := c.IntArg(0)
		if err != nil {
			return nil, err
		}
		how, err := c.StringArg(1)
		if err != nil {
			return nil, err
		}
		l.add(Ev{K: "killing", ID: int(id), Atomic: true, Via: how})
		switch how {
		case "now":
			t.KillContext()
		case "cpu":
			for i := 0; i < 1<<14; i++ {
				t.RequireCPU(1 << 16)
			}
		case "mem":
			for i := 0; i < 1<<14; i++ {
				t.RequireMem(1 << 16)
			}
		}
		l.add(Ev{K: "killfail", ID: int(id)})
		return c.Next(), nil
	})
	// hcallctx(ctxid, f): Thread.CallContext with the definition of ctxid (GC policy included)
	reg("hcallctx", 2, func(t *rt.Thread, c *rt.GoCont) (rt.Cont, error) {
		id, err := c.IntArg(0)
		if err != nil {
			return nil, err
		}
		d := l.ctx[int(id)]
		f := c.Arg(1)
		res := rt.NewTerminationWith(c, 0, true)
		def := rt.RuntimeContextDef{HardLimits: rt.RuntimeResources{Cpu: d.Cpu, Memory: d.Mem}}
		switch d.Policy {
		case 1:
			def.GCPolicy = rt.ShareGCPolicy
		case 2:
			def.GCPolicy = rt.IsolateGCPolicy
		}
		ctx, _ := t.CallContext(def, func() error { return rt.Call(t, f, nil, res) })
		next := c.Next()
		t.Push1(next, rt.StringValue(ctx.Status().String()))
		t.Push1(next, rt.IntValue(int64(ctx.UsedResources().Cpu)))
		return next, nil
	})
	reg("GC", 0, func(t *rt.Thread, c *rt.GoCont) (rt.Cont, error) {
		l.add(Ev{K: "collect"})
		t.CollectGarbage()
		return c.Next(), nil
	})
	reg("hostgc", 1, func(t *rt.Thread, c *rt.GoCont) (rt.Cont, error) {
		wait, _ := c.BoolArg(0)
		l.add(Ev{K: "hostgc"})
		hostGC(l, wait)
		return c.Next(), nil
	})
}

func callMain(t *rt.Thread, f rt.Value) (kind, detail string) {
	defer func() {
		if r := recover(); r != nil {
			if _, ok := r.(rt.ContextTerminationError); ok {
				kind, detail = gl.Killed, fmt.Sprint(r)
			} else {
				kind, detail = gl.Panic, fmt.Sprint(r)+"\n"+string(debug.Stack())
			}
		}
	}()
	term := rt.NewTerminationWith(nil, 0, true)
	if err := rt.Call(t, f, nil, term); err != nil {
		return gl.LuaError, err.Error()
	}
	return gl.OK, ""
}

// Result of executing a history once.
type Result struct {
	Log      []Ev
	Outcome  string // ok | compile-error | error | killed | panic | close-panic
	Detail   string
	GcWaitTO int
}

// Execute runs the history on a fresh runtime and returns the event log.
func Execute(h *History) (res Result) {
	l := &execLog{ctx: map[int]CtxDef{}}
	for _, d := range h.Ctx {
		l.ctx[d.ID] = d
	}
	var opt gl.Options
	if h.RtCtx {
		opt.Ctx = &rt.RuntimeContextDef{HardLimits: rt.RuntimeResources{Cpu: h.RtCpu, Memory: h.RtMem}}
	}
	s := gl.NewSess(opt)
	install(s, l)
	finish := func() {
		l.mu.Lock()
		res.Log = append([]Ev(nil), l.evs...)
		res.GcWaitTO = l.gcTO
		l.mu.Unlock()
	}
	clos, out := s.Compile("c18", h.Lua)
	if out != nil {
		s.Close()
		res.Outcome, res.Detail = out.Kind, out.ErrMsg+out.PanicMsg
		return
	}
	{
		e := Ev{K: "start"}
		e.Cpu, e.Mem, e.Used, e.Depth, _ = observe(s.R.MainThread())
		l.add(e)
	}
	// The chunk is called with the bare primitive (rt.Call) so that no context
	// other than the ones of the history is pushed around it.
	gl.ResetReports()
	kind, detail := callMain(s.R.MainThread(), rt.FunctionValue(clos))
	reports := gl.TakeReports()
	res.Outcome = kind
	if kind != gl.OK {
		res.Detail = detail
		func() {
			defer func() { recover() }()
			s.Close()
		}()
		finish()
		return
	}
	for _, r := range reports {
		res.Detail += "hook report: " + r + "\n"
	}
	switch h.PreCloseGC {
	case 1:
		hostGC(l, true)
	case 2:
		hostGC(l, false)
	}
	l.add(Ev{K: "closing"})
	func() {
		defer func() {
			if r := recover(); r != nil {
				res.Outcome = "close-panic"
				res.Detail = fmt.Sprint(r) + "\n" + string(debug.Stack())
			}
		}()
		s.Close()
	}()
	l.add(Ev{K: "closed"})
	finish()
	// Housekeeping of the monitor's own process, after the history is over: the
	// default pool leaves Go finalisers on the values it managed, and a value
	// that is still in the keep table reaches itself (value -> metatable ->
	// __gc closure -> keep table -> value), a cycle through an object with a
	// finaliser, which Go never frees - the whole runtime would stay behind
	// for every history and each forced collection would get slower.
	for _, tb := range []*rt.Table{l.keep, l.res} {
		if tb == nil {
			continue
		}
		for id := 1; id <= h.NObj; id++ {
			tb.Set(rt.IntValue(int64(id)), rt.NilValue)
		}
	}
	return
}
