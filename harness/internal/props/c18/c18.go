// Package c18 checks property C18 (finalisers and resource release run exactly
// once, in order, inside their context) with an offline checker over the event
// log of generated histories executed by the real runtime: on the default
// (clone) pool, on the other pool implementation (build tag safepool), and
// under the race detector.
package c18

import (
	"fmt"
	"runtime"
	"sort"
	"strings"

	"verif/internal/vp"
)

type Prop struct{}

func (Prop) ID() string { return "C18" }

func (Prop) Plan(t vp.Tier) []vp.Stage {
	// Every history forces several Go collections; with 16 children of 16 Ps
	// each on a shared machine the stop-the-world phases dominate, so the
	// children run with few Ps (RunBatch varies the number per batch).
	env := []string{"GOMAXPROCS=2"}
	return []vp.Stage{
		{Name: "clonepool", NBatches: 16, TimeoutS: 3000, Env: env},
		{Name: "unsafepool", NBatches: 16, Tags: []string{"safepool"}, TimeoutS: 3000, Env: env},
		{Name: "clonepool-race", NBatches: 16, Race: true, TimeoutS: 4000, Env: env},
		{Name: "unsafepool-race", NBatches: 16, Race: true, Tags: []string{"safepool"}, TimeoutS: 4000, Env: env},
	}
}

func nHistories(c *vp.Child) int {
	if strings.HasSuffix(c.Stage, "-race") {
		return c.Pick(600, 8000)
	}
	return c.Pick(1500, 60000)
}

func (Prop) Describe(t vp.Tier) vp.Description {
	return vp.Description{
		Rule: "Each case is a PRNG-generated history rendered as one Lua chunk and executed on a fresh runtime that is then closed: create tables/userdata with __gc " +
			"(Lua setmetatable, debug.setmetatable, Runtime.SetRawMetatable, Runtime.NewUserDataValue; userdata Go values implement ReleaseResources or not), re-mark, keep in / drop from a keep table, " +
			"resurrect in __gc, erroring and collecting __gc handlers, collectgarbage()/Thread.CollectGarbage, host runtime.GC() with and without waiting for Go's finaliser goroutine, coroutines, " +
			"nested contexts (runtime.callcontext and Thread.CallContext; cpu/memory limits, share/isolate policy) left normally, by error, by kill (killcontext, cpu, memory, from Lua or from Go, or from a finaliser at context exit), runtime optionally created inside a limited context. " +
			"Host callbacks log mark/keep/drop/gc/gcend/release/enter/leaving/killing/exit/closing/closed with what runtime.context() and the Go API report; the offline checker applies count and order rules only. " +
			"Every history runs on both pool implementations and on -race builds of both. A history is non-trivial when it marked >= 3 values, saw >= 2 finalisations and at least one of them happened before Close " +
			"(through Go's finaliser or at a context exit); distinct by hash of (pool implementation, history text).",
		Assumptions: []string{
			"the host callbacks log in the order the interpreter reaches them; marks and drops are logged while the value is still referenced, so log order = program order",
			"what the documentation leaves open is not demanded: finalisation at the exit of a context without hard limits and without the isolate policy, values marked in two different pools or during Close (counted as 'murky', skipped), " +
				"the position of a value that is re-marked while still pending (either its first or its last mark is accepted), what happens to other pending finalisers when a finaliser kills a share-policy context (not generated)",
			"ownership of a value = the nearest enclosing context that has hard limits or the isolate policy at the time it is marked (quotas.md, gc.quotas.lua, userdata.quotas.lua)",
			"timing (when Go's collector and finaliser goroutine run) only decides how many finalisations are seen before Close, never a verdict",
			"held on the histories executed, not on all histories",
		},
		Floor: map[vp.Tier]int64{vp.Quick: 1500, vp.Thorough: 40000}[t],
	}
}

func poolName(stage string) string {
	if strings.HasPrefix(stage, "unsafepool") {
		return "unsafepool"
	}
	return "clonepool"
}

// A forced collection costs ~0.2 ms with one P and 5-15 ms with more Ps on a
// loaded machine, so most batches run with 1 P (Go's finaliser goroutine then
// runs when the interpreter blocks or is preempted) and a quarter with 2 or 4
// (really in parallel with the interpreter); the latter get fewer histories so
// that all batches take about the same time.
func batchProcs(batch int) (procs, weight int) {
	switch batch % 8 {
	case 0:
		return 2, 2
	case 3:
		return 4, 1
	}
	return 1, 4
}

// mine reports whether history i belongs to this batch (weighted round robin).
func mine(c *vp.Child, i int) bool {
	total := 0
	for b := 0; b < c.NB; b++ {
		_, w := batchProcs(b)
		total += w
	}
	slot := i % total
	for b := 0; b < c.NB; b++ {
		_, w := batchProcs(b)
		if slot < w {
			return b == c.Batch
		}
		slot -= w
	}
	return false
}

func (Prop) RunBatch(c *vp.Child) {
	n := nHistories(c)
	procs, _ := batchProcs(c.Batch)
	runtime.GOMAXPROCS(procs)
	c.Feature(fmt.Sprintf("batches-with-GOMAXPROCS=%d", procs), 1)
	k := 0
	for i := 0; i < n; i++ {
		if !mine(c, i) {
			continue
		}
		h := Generate(c.Seed, i, false)
		runOne(c, h, 1)
		c.Feature(fmt.Sprintf("histories-with-GOMAXPROCS=%d", procs), 1)
		if k++; k%64 == 0 {
			c.Flush(false)
		}
	}
}

func nontrivial(st Stats) bool {
	return st.Marks >= 3 && st.GcRunning+st.GcCtxExit+st.GcClose >= 2 && st.GcRunning+st.GcCtxExit >= 1
}

func runOne(c *vp.Child, h *History, reps int) {
	input := h.Input()
	c.Begin(fmt.Sprintf("history seed=%d index=%d", h.Seed, h.Index), input)
	for rep := 0; rep < reps; rep++ {
		res := Execute(h)
		c.Eval(1)
		if res.GcWaitTO > 0 {
			c.Feature("hostgc-wait-timeout", int64(res.GcWaitTO))
		}
		if strings.Contains(res.Detail, "hook report: ") {
			for _, ln := range strings.Split(res.Detail, "\n") {
				if strings.HasPrefix(ln, "hook report: ") {
					c.Violation("hook", "hook "+firstWords(ln[13:], 6), ln, input)
				}
			}
		}
		switch res.Outcome {
		case "ok":
		case "killed":
			// the runtime-level context ran out of budget: nothing to judge
			c.Inconclusive("runtime-level context killed")
			continue
		default:
			c.Violation("outcome", "outcome "+res.Outcome+" "+firstWords(res.Detail, 8),
				"history ended with outcome "+res.Outcome+": "+res.Detail+"\nlog: "+LogString(res.Log), input)
			continue
		}
		fs, st := Check(res.Log)
		if st.Inconclusive != "" {
			c.Inconclusive(st.Inconclusive)
			c.Feature("inconclusive-history", 1)
			continue
		}
		record(c, st)
		if rep == 0 {
			recordPlan(c, h)
		}
		seen := map[string]bool{}
		for _, f := range fs {
			if seen[f.Sig] {
				continue
			}
			seen[f.Sig] = true
			c.Violation(f.Rule, f.Sig+" pool="+poolName(c.Stage),
				f.Detail+"\nevent log (violation at position "+fmt.Sprint(f.At)+"):\n"+LogString(res.Log), input)
		}
		if nontrivial(st) {
			c.NonTrivial(vp.Hash(poolName(c.Stage), h.Lua))
			if c.WantSample() && st.GcRunning > 0 && len(h.Ctx) > 0 && len(h.Lua) < 6000 {
				c.Sample(map[string]interface{}{"pool": poolName(c.Stage), "history": input, "log": LogString(res.Log)})
			}
		}
	}
}

func firstWords(s string, n int) string {
	f := strings.Fields(s)
	if len(f) > n {
		f = f[:n]
	}
	out := strings.Join(f, " ")
	if len(out) > 120 {
		out = out[:120]
	}
	return out
}

func record(c *vp.Child, st Stats) {
	add := func(k string, n int) {
		if n > 0 {
			c.Feature(k, int64(n))
		}
	}
	add("marks", st.Marks)
	add("gc-while-running(go-finaliser)", st.GcRunning)
	add("gc-at-context-exit", st.GcCtxExit)
	add("gc-at-close", st.GcClose)
	add("release-while-running", st.RelRunning)
	add("release-at-context-exit", st.RelCtxExit)
	add("release-at-close", st.RelClose)
	add("resurrections", st.Resurrect)
	add("re-marks-after-finalisation", st.Remarks)
	add("finalised-again-after-re-mark", st.Refinalised)
	add("kill-inside-finaliser", st.KillInFinaliser)
	add("murky-values-skipped", st.Murky)
	add("charged-checks", st.ChargedChecks)
	add("inside-context-checks", st.InsideCheck)
	add("order-pairs-at-close", st.OrderPairsClose)
	add("order-pairs-at-context-exit", st.OrderPairsExit)
	keys := make([]string, 0, len(st.Exits))
	for k := range st.Exits {
		keys = append(keys, k)
	}
	sort.Strings(keys)
	for _, k := range keys {
		add("context-exit/"+k, st.Exits[k])
	}
}

// recordPlan counts what the history was made of (planned, as opposed to the
// observed counts of record).
func recordPlan(c *vp.Child, h *History) {
	if h.RtCtx {
		c.Feature("plan/runtime-created-inside-limited-context", 1)
	}
	if h.Coroutines {
		c.Feature("plan/history-with-coroutine-blocks", 1)
	}
	c.Feature(fmt.Sprintf("plan/host-gc-before-close=%s", []string{"none", "wait", "nowait"}[h.PreCloseGC%3]), 1)
	for _, d := range h.Ctx {
		lim := "nolimit"
		switch {
		case d.Cpu > 0 && d.Mem > 0:
			lim = "cpu+mem"
		case d.Cpu > 0:
			lim = "cpu"
		case d.Mem > 0:
			lim = "mem"
		}
		c.Feature(fmt.Sprintf("plan/context via=%s limits=%s policy=%s", d.Via, lim, []string{"default", "share", "isolate"}[d.Policy%3]), 1)
		c.Feature("plan/context-end="+d.Exit, 1)
	}
}

// Replay re-executes a recorded witness.  Whether a dropped value is noticed
// before Close depends on Go's collector, so the witness is run several times.
func (Prop) Replay(c *vp.Child, input string) {
	h, err := ParseInput(input)
	if err != nil {
		fmt.Println("cannot parse witness:", err)
		return
	}
	runOne(c, h, 20)
}
