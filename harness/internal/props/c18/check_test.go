package c18

import (
	"strings"
	"testing"
)

// The checker on hand-written logs: a correct log passes, and each rule fires
// on a log that breaks exactly that rule.

func goodLog() []Ev {
	return []Ev{
		{K: "start"},
		{K: "obj", ID: 1, Kind: "table"}, {K: "keep", ID: 1}, {K: "mark", ID: 1},
		{K: "obj", ID: 2, Kind: "ud", Rel: true}, {K: "mark", ID: 2},
		{K: "obj", ID: 3, Kind: "table"}, {K: "keep", ID: 3}, {K: "mark", ID: 3},
		{K: "gc", ID: 2, Status: "live"}, {K: "gcend", ID: 2}, {K: "release", ID: 2},
		// limited context 1
		{K: "enter", ID: 1, Iso: true, ReqCpu: 1000, Cpu: 1000, Depth: 1, Policy: "isolate"},
		{K: "obj", ID: 4, Kind: "ud", Rel: true}, {K: "keep", ID: 4}, {K: "mark", ID: 4},
		{K: "obj", ID: 5, Kind: "table"}, {K: "keep", ID: 5}, {K: "mark", ID: 5},
		{K: "leaving", ID: 1},
		{K: "gc", ID: 5, Status: "live", Cpu: 1000, LuaCpu: 1000, Depth: 1, Used: 10}, {K: "gcend", ID: 5, Used: 20},
		{K: "gc", ID: 4, Status: "live", Cpu: 1000, LuaCpu: 1000, Depth: 1, Used: 21}, {K: "gcend", ID: 4, Used: 30},
		{K: "release", ID: 4},
		{K: "exit", ID: 1, Status: "done", Used: 40},
		// killed context 2
		{K: "enter", ID: 2, Iso: true, ReqCpu: 900, Cpu: 900, Depth: 1, Policy: "isolate"},
		{K: "obj", ID: 6, Kind: "ud", Rel: true}, {K: "keep", ID: 6}, {K: "mark", ID: 6},
		{K: "killing", ID: 2, Atomic: true},
		{K: "release", ID: 6},
		{K: "exit", ID: 2, Status: "killed", Used: 899},
		{K: "closing"},
		{K: "gc", ID: 3, Status: "live"}, {K: "gcend", ID: 3},
		{K: "gc", ID: 1, Status: "live"}, {K: "gcend", ID: 1},
		{K: "closed"},
	}
}

func rules(fs []Finding) string {
	var r []string
	for _, f := range fs {
		r = append(r, f.Rule)
	}
	return strings.Join(r, ",")
}

func without(evs []Ev, k string, id int) []Ev {
	var out []Ev
	for _, e := range evs {
		if e.K == k && e.ID == id {
			continue
		}
		out = append(out, e)
	}
	return out
}

func insertAfter(evs []Ev, k string, id int, add ...Ev) []Ev {
	var out []Ev
	for _, e := range evs {
		out = append(out, e)
		if e.K == k && e.ID == id {
			out = append(out, add...)
		}
	}
	return out
}

func swap(evs []Ev, k1 string, id1 int, k2 string, id2 int) []Ev {
	out := append([]Ev(nil), evs...)
	i1, i2 := -1, -1
	for i, e := range out {
		if e.K == k1 && e.ID == id1 {
			i1 = i
		}
		if e.K == k2 && e.ID == id2 {
			i2 = i
		}
	}
	out[i1], out[i2] = out[i2], out[i1]
	return out
}

func TestCheckerRules(t *testing.T) {
	if fs, st := Check(goodLog()); len(fs) != 0 || st.Inconclusive != "" {
		t.Fatalf("good log rejected: %v %s", fs, st.Inconclusive)
	}
	cases := []struct {
		name string
		log  []Ev
		want string
	}{
		{"double finalise", insertAfter(goodLog(), "release", 2, Ev{K: "gc", ID: 2, Status: "live"}, Ev{K: "gcend", ID: 2}), "double-finalise"},
		{"finalised while kept", insertAfter(goodLog(), "mark", 3, Ev{K: "gc", ID: 1, Status: "live"}, Ev{K: "gcend", ID: 1}), "finalised-while-reachable"},
		{"lost finaliser at close", without(without(goodLog(), "gc", 3), "gcend", 3), "missing-finaliser"},
		{"order at close", swap(swap(goodLog(), "gc", 3, "gc", 1), "gcend", 3, "gcend", 1), "order"},
		{"order at context exit", swap(swap(goodLog(), "gc", 5, "gc", 4), "gcend", 5, "gcend", 4), "order"},
		{"release before finaliser", swap(goodLog(), "release", 4, "gc", 4), "release-before-finaliser"},
		{"double release", insertAfter(goodLog(), "release", 4, Ev{K: "release", ID: 4}), "double-release"},
		{"missing release in done context", without(goodLog(), "release", 4), "missing-release"},
		{"missing release in killed context", without(goodLog(), "release", 6), "missing-release"},
		{"finaliser in killed context", insertAfter(goodLog(), "killing", 2, Ev{K: "gc", ID: 6, Status: "live", Cpu: 900, LuaCpu: 900, Depth: 1}), "gc-in-killed-context"},
		{"finaliser sees killed status", insertAfter(goodLog(), "killing", 2, Ev{K: "gc", ID: 6, Status: "killed", Cpu: 900, LuaCpu: 900, Depth: 1}), "gc-in-nonlive-context"},
		{"lost finaliser at context exit", without(without(goodLog(), "gc", 5), "gcend", 5), "missing-finaliser"},
		{"finaliser after its context", insertAfter(without(without(goodLog(), "gc", 5), "gcend", 5), "exit", 1, Ev{K: "gc", ID: 5, Status: "live"}), "gc-after-owner-exit"},
		{"released while the program holds it", insertAfter(without(goodLog(), "release", 4), "mark", 4, Ev{K: "release", ID: 4}), "released-while-reachable"},
		{"finalised after release", insertAfter(goodLog(), "release", 2, Ev{K: "mark", ID: 2}, Ev{K: "gc", ID: 2, Status: "live"}, Ev{K: "gcend", ID: 2}), "finalise-after-release"},
		{"isolate not reported", func() []Ev {
			l := goodLog()
			for i := range l {
				if l[i].K == "enter" && l[i].ID == 1 {
					l[i].Policy = "share"
				}
			}
			return l
		}(), "policy"},
		{"lua and go views differ", func() []Ev {
			l := goodLog()
			for i := range l {
				if l[i].K == "gc" && l[i].ID == 5 {
					l[i].LuaCpu = 7
				}
			}
			return l
		}(), "context-view-mismatch"},
		{"release after Close", insertAfter(without(goodLog(), "release", 2), "closed", 0, Ev{K: "release", ID: 2}), "release-after-close"},
	}
	for _, c := range cases {
		fs, _ := Check(c.log)
		if !strings.Contains(","+rules(fs)+",", ","+c.want+",") {
			t.Errorf("%s: want rule %s, got [%s]", c.name, c.want, rules(fs))
		}
	}
	// outside its context: the handler sees the parent's limits
	l := goodLog()
	for i := range l {
		if l[i].K == "gc" && l[i].ID == 5 {
			l[i].Cpu, l[i].LuaCpu, l[i].Depth = 0, 0, 0
		}
	}
	if fs, _ := Check(l); !strings.Contains(rules(fs), "gc-outside-context") {
		t.Errorf("outside context: got [%s]", rules(fs))
	}
	// not charged
	l = goodLog()
	for i := range l {
		if l[i].K == "gcend" && l[i].ID == 5 {
			l[i].Used = 10
		}
	}
	if fs, _ := Check(l); !strings.Contains(rules(fs), "not-charged") {
		t.Errorf("not charged: got [%s]", rules(fs))
	}
	// context reports less than what its finaliser had seen
	l = goodLog()
	for i := range l {
		if l[i].K == "exit" && l[i].ID == 1 {
			l[i].Used = 5
		}
	}
	if fs, _ := Check(l); !strings.Contains(rules(fs), "not-charged") {
		t.Errorf("final used: got [%s]", rules(fs))
	}
	// re-marking makes a second finalisation legitimate, and either position is accepted
	l = insertAfter(goodLog(), "release", 2) // copy
	l = insertAfter(l, "mark", 3, Ev{K: "mark", ID: 1})
	if fs, _ := Check(l); len(fs) != 0 {
		t.Errorf("re-mark while pending: got [%s]", rules(fs))
	}
}

func TestInputRoundTrip(t *testing.T) {
	h := Generate(3, 17, false)
	h2, err := ParseInput(h.Input())
	if err != nil || h2.Lua != h.Lua || len(h2.Ctx) != len(h.Ctx) || h2.PreCloseGC != h.PreCloseGC {
		t.Fatalf("round trip failed: %v", err)
	}
}
