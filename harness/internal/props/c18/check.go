package c18

import (
	"fmt"
	"sort"
	"strings"
)

// Ev is one entry of the event log of a history.  The log is written by host
// callbacks only; its order is the order in which the interpreter (and the
// ReleaseResources methods it calls) reached them.
type Ev struct {
	K  string `json:"k"`
	ID int    `json:"id,omitempty"` // object id, or context id for enter/leaving/killing/exit

	// obj
	Kind string `json:"kind,omitempty"` // "table" | "ud"
	Rel  bool   `json:"rel,omitempty"`  // userdata whose Go value implements ReleaseResources

	// gc / gcend / enter / start: what the host callback saw (Go API) when called
	Cpu   uint64 `json:"cpu,omitempty"`  // hard CPU limit in force
	Mem   uint64 `json:"mem,omitempty"`  // hard memory limit in force
	Used  uint64 `json:"used,omitempty"` // CPU used by the current context
	Depth int    `json:"depth,omitempty"`
	// gc: what the Lua handler read from runtime.context(); exit: status of the returned context
	Status string `json:"status,omitempty"`
	LuaCpu int64  `json:"luacpu,omitempty"`

	// enter: the requested definition
	Iso    bool   `json:"iso,omitempty"`
	ReqCpu uint64 `json:"reqcpu,omitempty"`
	ReqMem uint64 `json:"reqmem,omitempty"`
	Policy string `json:"policy,omitempty"` // GCPolicy() reported inside

	Atomic bool   `json:"atomic,omitempty"` // killing: logged by the same Go call that kills
	Via    string `json:"via,omitempty"`
}

func (e Ev) String() string {
	switch e.K {
	case "obj":
		return fmt.Sprintf("obj(%d,%s,rel=%v)", e.ID, e.Kind, e.Rel)
	case "gc":
		return fmt.Sprintf("gc(%d,lim=%d/%d,depth=%d,used=%d,status=%s)", e.ID, e.Cpu, e.Mem, e.Depth, e.Used, e.Status)
	case "gcend":
		return fmt.Sprintf("gcend(%d,used=%d)", e.ID, e.Used)
	case "enter":
		return fmt.Sprintf("enter(%d,iso=%v,req=%d/%d,lim=%d/%d,depth=%d)", e.ID, e.Iso, e.ReqCpu, e.ReqMem, e.Cpu, e.Mem, e.Depth)
	case "exit":
		return fmt.Sprintf("exit(%d,%s,used=%d)", e.ID, e.Status, e.Used)
	case "killing":
		return fmt.Sprintf("killing(%d,atomic=%v)", e.ID, e.Atomic)
	case "start":
		return fmt.Sprintf("start(lim=%d/%d,depth=%d)", e.Cpu, e.Mem, e.Depth)
	case "closing", "closed", "collect", "hostgc", "killfail":
		return e.K
	}
	return fmt.Sprintf("%s(%d)", e.K, e.ID)
}

func LogString(evs []Ev) string {
	var b strings.Builder
	for i, e := range evs {
		if i > 0 {
			b.WriteByte(' ')
		}
		b.WriteString(e.String())
	}
	return b.String()
}

// Finding is one refuting observation of the checker.
type Finding struct {
	Rule   string // short rule name
	Sig    string // canonical signature (rule + classes of the objects involved)
	Detail string
	At     int // index in the log
}

// Stats is what the checker measured on a log (for the evidence file).
type Stats struct {
	Marks, GcRunning, GcCtxExit, GcClose               int
	RelRunning, RelCtxExit, RelClose                   int
	Resurrect, Refinalised, Remarks                    int
	Exits                                              map[string]int // "<iso|shared>-<status>"
	KillInFinaliser, Murky, ChargedChecks, InsideCheck int
	OrderPairsClose, OrderPairsExit                    int
	Inconclusive                                       string
}

type obsKey struct {
	cpu, mem uint64
	depth    int
}

type ctxState struct {
	id         int
	iso        bool
	limited    bool
	pool       int // id of the context whose pool owns values marked here
	obs        obsKey
	entered    bool
	leaving    bool
	killMarked bool // atomic killing marker seen while this was the innermost context
	exited     bool
	status     string
	exitSeq    []seqItem
	maxGcUsed  uint64 // largest used.cpu seen at the end of a finaliser that ran directly in this context
}

type seqItem struct {
	id                  int
	firstMark, lastMark int
	kept                bool
	at                  int
}

type objState struct {
	id        int
	kind      string
	rel       bool
	relOwner  int
	gcOwner   int // -1: never marked
	pending   bool
	firstMark int
	lastMark  int
	kept      bool
	rkept     bool
	gcCount   int
	relCount  int
	murky     bool
	gcStart   *Ev
	gcCtx     int
}

func (o *objState) class() string {
	c := o.kind
	if o.rel {
		c += "+rel"
	}
	return c
}

// Check is the offline checker.  It looks at counts and orders only.
func Check(evs []Ev) ([]Finding, Stats) {
	st := Stats{Exits: map[string]int{}}
	var fs []Finding
	add := func(at int, rule, sig, format string, a ...interface{}) {
		fs = append(fs, Finding{Rule: rule, Sig: rule + " " + sig, Detail: fmt.Sprintf(format, a...), At: at})
	}

	// pre-pass: final status of every context
	exitStatus := map[int]string{}
	for _, e := range evs {
		if e.K == "exit" {
			exitStatus[e.ID] = e.Status
		}
	}

	ctxs := map[int]*ctxState{0: {id: 0, iso: true, pool: 0, entered: true}}
	stack := []int{0}
	objs := map[int]*objState{}
	closing, closed := false, false
	var curGc *objState
	var closeSeq []seqItem

	top := func() *ctxState { return ctxs[stack[len(stack)-1]] }
	ownerName := func(p int) string {
		if p == 0 {
			return "root"
		}
		c := ctxs[p]
		s := "ctx"
		if c != nil && c.limited {
			s += "-limited"
		} else {
			s += "-isolate"
		}
		return s
	}
	poolKilled := func(p int) bool {
		if p == 0 {
			return false
		}
		c := ctxs[p]
		if c == nil {
			return false
		}
		if c.exited {
			return c.status == "killed"
		}
		s, ok := exitStatus[p]
		return ok && s == "killed" || (!ok) // no exit event: abandoned by a kill further out
	}
	checkOrder := func(seq []seqItem, where string, at int, exact bool) {
		start := 0
		if !exact {
			start = len(seq)
			for i, it := range seq {
				if it.kept {
					start = i
					break
				}
			}
		}
		s := seq[start:]
		for i := 0; i < len(s); i++ {
			for j := i + 1; j < len(s); j++ {
				if where == "close" {
					st.OrderPairsClose++
				} else {
					st.OrderPairsExit++
				}
				if s[i].lastMark < s[j].firstMark {
					add(s[j].at, "order", "at="+where,
						"%s-time finalisers are not in reverse order of marking: id %d (marked at log positions %d..%d) was finalised before id %d (marked at %d..%d)",
						where, s[i].id, s[i].firstMark, s[i].lastMark, s[j].id, s[j].firstMark, s[j].lastMark)
					return
				}
			}
		}
	}
	closeCtx := func(c *ctxState, status string, at int, aborted bool) {
		c.exited = true
		c.status = status
		k := "shared-"
		if c.iso {
			k = "iso-"
		}
		if aborted {
			st.Exits[k+"aborted"]++
		} else {
			st.Exits[k+status]++
		}
		if !c.iso {
			return
		}
		ids := make([]int, 0)
		for id := range objs {
			ids = append(ids, id)
		}
		sort.Ints(ids)
		for _, id := range ids {
			o := objs[id]
			if o.murky {
				continue
			}
			if o.gcOwner == c.id && o.pending && status != "killed" {
				add(at, "missing-finaliser", fmt.Sprintf("%s at=ctx-exit status=%s", o.class(), status),
					"id %d was marked for finalisation in context %d, which ended with status %s, and its __gc handler was not called by the time the context was closed", id, c.id, status)
			}
			if o.rel && o.relOwner == c.id && o.relCount == 0 {
				add(at, "missing-release", fmt.Sprintf("%s at=ctx-exit status=%s", o.class(), status),
					"releasable userdata %d was created in context %d (status %s) and ReleaseResources was not called by the time the context was closed", id, c.id, status)
			}
		}
		if status != "killed" {
			checkOrder(c.exitSeq, "ctx-exit", at, false)
		}
	}

	for i, e := range evs {
		switch e.K {
		case "start":
			ctxs[0].obs = obsKey{e.Cpu, e.Mem, e.Depth}
			ctxs[0].limited = e.Cpu > 0 || e.Mem > 0
		case "obj":
			objs[e.ID] = &objState{id: e.ID, kind: e.Kind, rel: e.Rel, gcOwner: -1, relOwner: top().pool}
		case "keep":
			if o := objs[e.ID]; o != nil {
				o.kept = true
			}
		case "drop":
			if o := objs[e.ID]; o != nil {
				o.kept = false
			}
		case "res":
			if o := objs[e.ID]; o != nil {
				o.rkept = true
				st.Resurrect++
			}
		case "rdrop":
			if o := objs[e.ID]; o != nil {
				o.rkept = false
			}
		case "mark":
			o := objs[e.ID]
			if o == nil {
				continue
			}
			st.Marks++
			p := top().pool
			if closing || (o.gcOwner >= 0 && o.gcOwner != p) || (o.rel && o.relOwner != p) {
				if !o.murky {
					st.Murky++
				}
				o.murky = true // marked in two pools or during close: the documentation is silent
			}
			if o.gcOwner < 0 {
				o.gcOwner = p
			}
			if !o.pending {
				o.pending = true
				o.firstMark = i
				if o.gcCount > 0 {
					st.Remarks++
				}
			}
			o.lastMark = i
		case "enter":
			parent := top()
			c := &ctxState{id: e.ID, iso: e.Iso, limited: e.ReqCpu > 0 || e.ReqMem > 0, entered: true, obs: obsKey{e.Cpu, e.Mem, e.Depth}}
			if c.iso {
				c.pool = c.id
			} else {
				c.pool = parent.pool
			}
			ctxs[e.ID] = c
			stack = append(stack, e.ID)
			want := "share"
			if e.Iso {
				want = "isolate"
			}
			if e.Policy != "" && e.Policy != want {
				add(i, "policy", fmt.Sprintf("requested-iso=%v limited=%v reported=%s", e.Iso, c.limited, e.Policy),
					"context %d (hard limits cpu=%d mem=%d, isolate requested=%v) reports GC policy %q", e.ID, e.ReqCpu, e.ReqMem, e.Iso, e.Policy)
			}
		case "leaving":
			if c := ctxs[e.ID]; c != nil {
				c.leaving = true
			}
		case "killing":
			if e.Atomic {
				top().killMarked = true
			}
			if curGc != nil && curGc.gcStart != nil {
				st.KillInFinaliser++
			}
		case "exit":
			// contexts above e.ID on the stack were abandoned by the kill that ended e.ID
			found := false
			for _, id := range stack {
				if id == e.ID {
					found = true
				}
			}
			if !found {
				st.Inconclusive = "exit event for a context that is not open"
				return fs, st
			}
			for len(stack) > 1 {
				id := stack[len(stack)-1]
				stack = stack[:len(stack)-1]
				c := ctxs[id]
				if id == e.ID {
					if (e.Status == "done" || e.Status == "error") && !c.leaving {
						st.Inconclusive = "context body ended before its last statement (unplanned error)"
						return fs, st
					}
					if c.limited && e.Used < c.maxGcUsed {
						add(i, "not-charged", "final-used-below-finaliser-used",
							"context %d reports used.cpu=%d after it ended, but a finaliser that ran inside it had already seen used.cpu=%d", id, e.Used, c.maxGcUsed)
					}
					closeCtx(c, e.Status, i, false)
					break
				}
				closeCtx(c, "killed", i, true)
			}
		case "gc":
			o := objs[e.ID]
			if o == nil {
				add(i, "gc-unknown", "", "finaliser called for unknown id %d", e.ID)
				continue
			}
			if closed {
				add(i, "gc-after-close", o.class(), "finaliser of id %d ran after the runtime was closed", e.ID)
				continue
			}
			if o.murky {
				o.pending = false
				o.gcCount++
				continue
			}
			P := o.gcOwner
			pc := ctxs[P]
			phase := "running"
			if closing {
				phase = "close"
			} else if pc != nil && P != 0 && pc.leaving {
				phase = "ctx-exit"
			}
			if !o.pending {
				add(i, "double-finalise", fmt.Sprintf("%s owner=%s phase=%s", o.class(), ownerName(P), phase),
					"id %d was finalised again (finalisation #%d) without having been marked again since its previous finalisation", e.ID, o.gcCount+1)
			}
			if o.relCount > 0 {
				add(i, "finalise-after-release", o.class(), "id %d was finalised after its ReleaseResources had been called", e.ID)
			}
			switch {
			case pc == nil || P < 0:
				add(i, "gc-unmarked", o.class(), "finaliser called for id %d which was never marked", e.ID)
			case pc.exited:
				add(i, "gc-after-owner-exit", fmt.Sprintf("%s owner=%s status=%s", o.class(), ownerName(P), pc.status),
					"id %d belongs to context %d which had already ended (status %s) when its finaliser ran", e.ID, P, pc.status)
			case pc.killMarked:
				add(i, "gc-in-killed-context", fmt.Sprintf("%s owner=%s", o.class(), ownerName(P)),
					"id %d belongs to context %d; its finaliser ran after that context had been killed (finalisers of a killed context must be skipped)", e.ID, P)
			}
			if e.Cpu < 1<<62 && e.LuaCpu != int64(e.Cpu) {
				add(i, "context-view-mismatch", o.class(),
					"inside the finaliser of id %d runtime.context().kill.cpu is %d but the Go API reports a hard CPU limit of %d", e.ID, e.LuaCpu, e.Cpu)
			}
			if e.Status != "live" {
				add(i, "gc-in-nonlive-context", fmt.Sprintf("%s status=%s", o.class(), e.Status),
					"the finaliser of id %d saw runtime.context().status=%q", e.ID, e.Status)
			}
			if phase == "running" && (o.kept || o.rkept) {
				add(i, "finalised-while-reachable", fmt.Sprintf("%s owner=%s", o.class(), ownerName(P)),
					"id %d was finalised while the program still holds it (keep-set=%v, resurrected-global=%v) and neither its context nor the runtime was being closed", e.ID, o.kept, o.rkept)
			}
			// where did it run?
			o.gcCtx = -1
			if pc != nil && !pc.exited {
				k := obsKey{e.Cpu, e.Mem, e.Depth}
				for j := len(stack) - 1; j >= 0; j-- {
					x := ctxs[stack[j]]
					if x.pool == P && x.obs == k {
						o.gcCtx = x.id
						break
					}
				}
				if o.gcCtx < 0 {
					// A share-policy child has been pushed but its body has not
					// logged enter() yet: finalisers of the parent's pool may
					// already run inside it (between continuations).
					for j := i + 1; j < len(evs); j++ {
						n := evs[j]
						if n.K == "enter" {
							if !n.Iso && top().pool == P && (obsKey{n.Cpu, n.Mem, n.Depth}) == k {
								o.gcCtx = n.ID
							}
							break
						}
						if n.K == "exit" || n.K == "closing" {
							break
						}
					}
				}
				if pc.limited {
					st.InsideCheck++
					if o.gcCtx < 0 {
						add(i, "gc-outside-context", fmt.Sprintf("%s owner=%s phase=%s", o.class(), ownerName(P), phase),
							"id %d was created in limited context %d (which saw limits cpu=%d mem=%d depth=%d); its finaliser ran where the limits are cpu=%d mem=%d depth=%d, which is no open context sharing that pool",
							e.ID, P, pc.obs.cpu, pc.obs.mem, pc.obs.depth, e.Cpu, e.Mem, e.Depth)
					}
				}
			}
			ev := e
			o.gcStart = &ev
			curGc = o
			it := seqItem{id: e.ID, firstMark: o.firstMark, lastMark: o.lastMark, kept: o.kept || o.rkept, at: i}
			switch phase {
			case "close":
				st.GcClose++
				if P == 0 {
					closeSeq = append(closeSeq, it)
				}
			case "ctx-exit":
				st.GcCtxExit++
				pc.exitSeq = append(pc.exitSeq, it)
			default:
				st.GcRunning++
			}
			if o.gcCount > 0 && o.pending {
				st.Refinalised++
			}
			o.pending = false
			o.gcCount++
		case "gcend":
			o := objs[e.ID]
			if o == nil || o.gcStart == nil || o.murky {
				continue
			}
			g := o.gcStart
			o.gcStart = nil
			if g.Cpu > 0 {
				st.ChargedChecks++
				if e.Used <= g.Used {
					add(i, "not-charged", o.class()+" handler-cpu-unchanged",
						"the finaliser of id %d ran under a hard CPU limit of %d but used.cpu was %d when it started and %d when it ended", e.ID, g.Cpu, g.Used, e.Used)
				}
			}
			if o.gcCtx > 0 {
				// (a context whose enter() has not been logged yet is not in the map: skipped)
				if x := ctxs[o.gcCtx]; x != nil && x.entered && !x.exited && e.Used > x.maxGcUsed {
					x.maxGcUsed = e.Used
				}
			}
		case "release":
			o := objs[e.ID]
			if o == nil || !o.rel {
				add(i, "release-unknown", "", "ReleaseResources called for unknown id %d", e.ID)
				continue
			}
			o.relCount++
			P := o.relOwner
			pc := ctxs[P]
			phase := "running"
			if closing {
				phase = "close"
				st.RelClose++
			} else if pc != nil && P != 0 && (pc.leaving || pc.killMarked || poolKilled(P)) {
				phase = "ctx-exit"
				st.RelCtxExit++
			} else {
				st.RelRunning++
			}
			if o.relCount > 1 {
				add(i, "double-release", fmt.Sprintf("%s owner=%s phase=%s", o.class(), ownerName(P), phase),
					"ReleaseResources of id %d was called %d times", e.ID, o.relCount)
			}
			if o.murky {
				continue
			}
			if closed {
				add(i, "release-after-close", o.class(), "ReleaseResources of id %d ran after Close had returned", e.ID)
			}
			if pc != nil && pc.exited && P != 0 {
				add(i, "release-after-owner-exit", fmt.Sprintf("%s owner=%s", o.class(), ownerName(P)),
					"ReleaseResources of id %d ran after its context %d had been closed", e.ID, P)
			}
			if o.gcOwner >= 0 && o.pending && !poolKilled(o.gcOwner) {
				add(i, "release-before-finaliser", fmt.Sprintf("%s owner=%s phase=%s", o.class(), ownerName(P), phase),
					"ReleaseResources of id %d was called while its __gc finaliser was still owed (context not killed)", e.ID)
			}
			if phase == "running" && (o.kept || o.rkept) {
				add(i, "released-while-reachable", fmt.Sprintf("%s owner=%s", o.class(), ownerName(P)),
					"ReleaseResources of id %d was called while the program still holds it and nothing was being closed", e.ID)
			}
		case "closing":
			closing = true
			if len(stack) != 1 {
				st.Inconclusive = "runtime closed with contexts still open"
				return fs, st
			}
		case "closed":
			closed = true
			ids := make([]int, 0)
			for id := range objs {
				ids = append(ids, id)
			}
			sort.Ints(ids)
			for _, id := range ids {
				o := objs[id]
				if o.murky {
					continue
				}
				if o.gcOwner == 0 && o.pending {
					add(i, "missing-finaliser", fmt.Sprintf("%s at=close", o.class()),
						"id %d was marked for finalisation (log position %d) in the runtime's own context and its __gc handler was not called by the time Close returned", id, o.lastMark)
				}
				if o.rel && o.relOwner == 0 && o.relCount == 0 {
					add(i, "missing-release", fmt.Sprintf("%s at=close", o.class()),
						"ReleaseResources of userdata %d was not called by the time Close returned", id)
				}
			}
			checkOrder(closeSeq, "close", i, true)
		}
	}
	return fs, st
}
