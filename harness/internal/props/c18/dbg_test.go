package c18

import (
	"fmt"
	"os"
	"runtime"
	"strconv"
	"testing"
)

func TestDebugRun(t *testing.T) {
	n, _ := strconv.Atoi(os.Getenv("C18_N"))
	if n == 0 {
		t.Skip()
	}
	show := os.Getenv("C18_SHOW") != ""
	bad := map[string]int{}
	tot := Stats{Exits: map[string]int{}}
	for i := 0; i < n; i++ {
		h := Generate(1, i, false)
		res := Execute(h)
		if res.Outcome != "ok" {
			bad["outcome "+res.Outcome]++
			if bad["outcome "+res.Outcome] <= 2 {
				fmt.Println("=== OUTCOME", res.Outcome, res.Detail, "\n", h.Input())
			}
			continue
		}
		fs, st := Check(res.Log)
		if st.Inconclusive != "" {
			bad["inconclusive "+st.Inconclusive]++
			if bad["inconclusive "+st.Inconclusive] <= 2 {
				fmt.Println("=== INCONCLUSIVE", st.Inconclusive, "\n", h.Input(), "\n", LogString(res.Log))
			}
			continue
		}
		tot.Marks += st.Marks
		tot.GcRunning += st.GcRunning
		tot.GcCtxExit += st.GcCtxExit
		tot.GcClose += st.GcClose
		tot.RelRunning += st.RelRunning
		tot.RelCtxExit += st.RelCtxExit
		tot.RelClose += st.RelClose
		tot.Resurrect += st.Resurrect
		tot.Refinalised += st.Refinalised
		tot.KillInFinaliser += st.KillInFinaliser
		tot.Murky += st.Murky
		for k, v := range st.Exits {
			tot.Exits[k] += v
		}
		for _, f := range fs {
			bad[f.Sig]++
			if bad[f.Sig] <= 1 {
				fmt.Println("=== FINDING", f.Sig, "\n", f.Detail, "\n", h.Input(), "\n", LogString(res.Log))
			}
		}
		if show && i < 3 {
			fmt.Println(h.Input(), "\n", LogString(res.Log))
		}
	}
	fmt.Printf("%+v\n", tot)
	for k, v := range bad {
		fmt.Println(v, k)
	}
}

func TestDebugMem(t *testing.T) {
	n, _ := strconv.Atoi(os.Getenv("C18_MEM"))
	if n == 0 {
		t.Skip()
	}
	var ms runtime.MemStats
	for i := 0; i < n; i++ {
		h := Generate(1, i, false)
		Execute(h)
		if i%100 == 99 {
			runtime.GC()
			runtime.ReadMemStats(&ms)
			fmt.Println(i+1, "heap MB", ms.HeapAlloc>>20, "objects", ms.HeapObjects)
		}
	}
}
