package c12

// A corpus of valid chunks covering every production of the complete syntax of
// Lua 5.4 (§9 of the manual) with the values they return (written by hand from
// the manual), and the equivalent re-spellings under which each has to be
// accepted and to return the same values.

import (
	"fmt"
	"math/rand"
	"strings"

	nm "verif/internal/numodel"
	"verif/internal/vp"
)

type chunk struct {
	name string
	src  string
	want string
}

// w builds the expected encoding of a list of values.
func w(vals ...interface{}) string {
	var parts []string
	for _, v := range vals {
		switch x := v.(type) {
		case nil:
			parts = append(parts, "n")
		case int:
			parts = append(parts, nm.I(int64(x)).Enc())
		case int64:
			parts = append(parts, nm.I(x).Enc())
		case float64:
			parts = append(parts, nm.F(x).Enc())
		case string:
			parts = append(parts, nm.S(x).Enc())
		case bool:
			parts = append(parts, nm.B(x).Enc())
		default:
			panic("bad expected value")
		}
	}
	return strings.Join(parts, ",")
}

func corpus() []chunk {
	return []chunk{
		// --- chunk, block, empty statement, return
		{"empty-chunk", ``, w()},
		{"only-semicolons", `;;;`, w()},
		{"return-nothing", `return`, w()},
		{"return-semicolon", `return;`, w()},
		{"return-value-semicolon", `return 1;`, w(1)},
		{"semicolons-everywhere", `;local a = 1; ; local b = 2;; do ; end; return a + b;`, w(3)},
		{"return-in-function-forms", `local function f() return end local function g() return; end local function h() return 1, 2; end
return select("#", f()), select("#", g()), select("#", h())`, w(0, 0, 2)},
		// --- assignment
		{"assign-single", `local a a = 1 return a`, w(1)},
		{"assign-multi-short", `local a, b, c a, b, c = 1, 2 return a, b, c`, w(1, 2, nil)},
		{"assign-multi-long", `local a, b a, b = 1, 2, 3 return a, b`, w(1, 2)},
		{"assign-swap", `local a, b = 1, 2 a, b = b, a return a, b`, w(2, 1)},
		{"assign-index", `local t = {} t[1], t.x, t["y z"] = 10, 20, 30 return t[1], t.x, t["y z"]`, w(10, 20, 30)},
		{"assign-nested-index", `local t = {u = {v = {}}} t.u.v.w = 5 t.u["v"].z = 6 return t.u.v.w, t["u"]["v"]["z"]`, w(5, 6)},
		{"assign-global", `x = 5 local r = x x = nil return r, x`, w(5, nil)},
		{"assign-evaluates-first", `local i = 1 local a = {} i, a[i] = i + 1, 20 return i, a[1], a[2]`, w(2, 20, nil)},
		{"assign-call-result-field", `local t = {} local function f() return t end f().x = 3 f()["y"] = 4 return t.x, t.y`, w(3, 4)},
		{"assign-paren-prefix", `local t = {} (t).x = 1 ;(t)["y"] = 2 return t.x + t.y`, w(3)},
		{"index-expression-keys", `local t = {} local k = "a" t[k .. "b"] = 1 t[1 + 1] = 2 t[true] = 3 return t.ab, t[2], t[true]`, w(1, 2, 3)},
		{"index-float-int-keys", `local t = {} t[1.0] = "a" t[2] = "b" return t[1], t[2.0], #t`, w("a", "b", 2)},
		// --- function calls
		{"call-statement", `local n = 0 local function f() n = n + 1 end f() f() return n`, w(2)},
		{"call-string-args", `local function f(s) return s .. "!" end return f"a", f'b', f[[c]], f[==[d]==], f "e"`, w("a!", "b!", "c!", "d!", "e!")},
		{"call-table-arg", `local function f(t) return t[1], t.k end return f{7, k = 8}`, w(7, 8)},
		{"call-table-arg-space", `local function f(t) return #t end return f {1, 2, 3}, f{}`, w(3, 0)},
		{"method-call", `local o = {v = 3} function o:get(d) return self.v + d end return o:get(1), o.get(o, 2), o:get(3)`, w(4, 5, 6)},
		{"method-call-literal-args", `local o = {} function o:m(s) return s end return o:m"x", o:m{1}[1], o:m[[y]]`, w("x", 1, "y")},
		{"chained-calls", `local function f() return function() return function() return 9 end end end return f()()()`, w(9)},
		{"chained-string-calls", `local function f(s) return function(t) return s .. t end end return f"a""b", f 'a' 'c', f[[a]][[d]]`, w("ab", "ac", "ad")},
		{"call-on-parenthesised", `return ("x"):rep(3), ("%d"):format(5), #("abc"):upper(), ({10, 20})[2], (function() return 4 end)()`, w("xxx", "5", 3, 20, 4)},
		{"call-paren-on-next-line", "local function f(x) return x end local r = f\n(3) return r", w(3)},
		{"call-mix", `local t = {f = function(self, x) return x end, g = {h = function(x) return x + 1 end}} return t:f(1), t.g.h(1), t["g"]["h"](2), t.f(t, 5)`, w(1, 2, 3, 5)},
		{"anonymous-function-call", `return (function(a, b) return a - b end)(5, 3)`, w(2)},
		// --- labels, goto, break
		{"goto-continue", `local s = 0
for i = 1, 5 do
  if i % 2 == 0 then goto continue end
  s = s + i
  ::continue::
end
return s`, w(9)},
		{"goto-backward", `local i = 0 ::top:: i = i + 1 if i < 3 then goto top end return i`, w(3)},
		{"label-at-block-end", `local n = 0 do goto e; n = 1 ::e:: end do do goto out end n = n + 10 ::out:: end ::last:: return n`, w(0)},
		{"label-void-statements-after", `local n = 0 do goto e n = 1 ::e:: ; ; end return n`, w(0)},
		{"goto-out-of-nested-loops", `local found
for i = 1, 3 do
  for j = 1, 3 do
    if i * j == 6 then found = i * 10 + j goto done end
  end
end
::done::
return found`, w(23)},
		{"labels-same-name-in-sibling-blocks", `local n = 0 do goto l ::l:: n = n + 1 end do goto l ::l:: n = n + 1 end return n`, w(2)},
		{"break-while", `local i = 0 while true do i = i + 1 if i == 4 then break end end return i`, w(4)},
		{"break-for-repeat", `local n = 0 for i = 1, 10 do n = i if i == 3 then break end end repeat n = n + 1 break until false return n`, w(4)},
		{"break-inner-only", `local n = 0 for i = 1, 3 do for j = 1, 3 do if j == 2 then break end n = n + 1 end end return n`, w(3)},
		{"break-mid-block", `local n = 0 while true do n = n + 1 break end return n`, w(1)},
		// --- blocks, loops, conditionals
		{"do-scope", `local x = 1 do local x = 2 end return x`, w(1)},
		{"do-return", `do return 5 end`, w(5)},
		{"while", `local i, s = 0, 0 while i < 4 do i = i + 1 s = s + i end return s`, w(10)},
		{"while-false", `local n = 0 while false do n = 1 end while nil do n = 2 end return n`, w(0)},
		{"repeat-scope", `local i = 0 repeat local j = i i = i + 1 until j == 2 return i`, w(3)},
		{"repeat-nested", `local n = 0 repeat repeat n = n + 1 until n % 2 == 0 until n >= 4 return n`, w(4)},
		{"if-elseif-else", `local function f(x) if x == 1 then return "one" elseif x == 2 then return "two" elseif x == 3 then return "three" else return "many" end end return f(1), f(2), f(3), f(4)`, w("one", "two", "three", "many")},
		{"if-no-else", `local r = 0 if true then r = 1 end if false then r = 2 end if nil then r = 3 elseif 0 then r = r + 10 end return r`, w(11)},
		{"if-nested-else-if", `local function f(a, b) if a then if b then return 1 else return 2 end else if b then return 3 else return 4 end end end return f(true, true), f(true, false), f(false, true), f(false, false)`, w(1, 2, 3, 4)},
		{"if-empty-blocks", `if true then else end if false then elseif true then end return 1`, w(1)},
		{"for-numeric", `local s = 0 for i = 1, 3 do s = s + i end for i = 10, 1, -3 do s = s + i end for i = 1, 0 do s = s + 100 end return s`, w(28)},
		{"for-numeric-float", `local s = 0 for x = 1.0, 2.0, 0.5 do s = s + x end return s`, w(4.5)},
		{"for-numeric-expressions", `local n, s = 2, 0 for i = n - 1, n * 2, n // 2 do s = s * 10 + i end return s`, w(1234)},
		{"for-loop-variable-is-fresh", `local t = {} for i = 1, 3 do t[i] = function() return i end end return t[1](), t[2](), t[3]()`, w(1, 2, 3)},
		{"for-in-ipairs", `local s = 0 for i, v in ipairs{5, 6, 7} do s = s + i * v end return s`, w(38)},
		{"for-in-custom", `local function it(n, i) if i < n then return i + 1 end end local s = 0 for i in it, 3, 0 do s = s + i end return s`, w(6)},
		{"for-in-three-names", `local t = {} for k, v, extra in function(_, i) if i < 2 then return i + 1, i * 10 end end, nil, 0 do t[#t + 1] = k + v t[#t + 1] = extra == nil end return t[1], t[2], t[3], t[4]`, w(1, true, 12, true)},
		{"for-in-four-values", `local closed = 0 local function it(n, i) if i < n then return i + 1 end end local s = 0 for i in it, 2, 0, nil do s = s + i end return s`, w(3)},
		{"for-in-call-expands", `local function gen() return function(n, i) if i < n then return i + 1 end end, 3, 0 end local s = 0 for i in gen() do s = s + i end return s`, w(6)},
		// --- function definitions
		{"function-global", `function gf() return 1 end local r = gf() gf = nil return r`, w(1)},
		{"function-dotted-method", `local a = {b = {c = {v = 4}}} function a.b.c:m(x) return self.v + x end function a.b.f(x) return x * 2 end function a.g() return 0 end return a.b.c:m(1), a.b.f(4), a.g()`, w(5, 8, 0)},
		{"local-function-recursion", `local function fact(n) if n <= 1 then return 1 end return n * fact(n - 1) end return fact(5)`, w(120)},
		{"local-function-tail", `local function f(n) if n == 0 then return "done" end return f(n - 1) end return f(3)`, w("done")},
		{"function-params", `local function f(a, b, ...) return a, b, select("#", ...) end return f(1), f(1, 2, 3, 4)`, w(1, 1, 2, 2)},
		{"function-only-varargs", `local function f(...) return select("#", ...), ... end return f(1, nil, 3)`, w(3, 1, nil, 3)},
		{"function-no-params", `local f = function() return 7 end return f(1, 2, 3)`, w(7)},
		{"closures", `local function counter() local n = 0 return function() n = n + 1 return n end end local c1, c2 = counter(), counter() c1() c1() return c1(), c2()`, w(3, 1)},
		{"functions-in-constructor", `local t = {f = function() return 1 end, {2}, {{3}}, function() return 4 end} return t.f(), t[1][1], t[2][1][1], t[3]()`, w(1, 2, 3, 4)},
		// --- local declarations and attribs
		{"local-no-value", `local a local b, c return a, b, c`, w(nil, nil, nil)},
		{"local-shadow", `local x = 1 local x = x + 1 return x`, w(2)},
		{"local-const", `local x <const> = 5 local y <const>, z = 6, 7 return x + y + z`, w(18)},
		{"local-const-tight", `local a<const>, b<const> = 1, 2 return a + b`, w(3)},
		{"local-close", `local log = {} do local c <close> = setmetatable({}, {__close = function() log[#log + 1] = "closed" end}) log[#log + 1] = "body" end return log[1], log[2]`, w("body", "closed")},
		{"local-close-nil", `do local x <close> = nil local y <close> = false end return 1`, w(1)},
		{"attrib-names-are-not-reserved", `local const, close = 1, 2 return const + close`, w(3)},
		{"names", `local _a1, __, _ENV_x, A_b9 = 1, 2, 3, 4 return _a1 + __ + _ENV_x + A_b9`, w(10)},
		// --- expressions
		{"constants", `return nil, false, true, 0, "s"`, w(nil, false, true, 0, "s")},
		{"precedence", `return 1 + 2 * 3 // 4 % 5 .. "x" == "2x" and not nil or false`, w(true)},
		{"arithmetic", `return 7 // 2, -7 // 2, 7 % -3, 7.0 // 2, 2 ^ 2, 7 / 2, 3 | 4, 6 & 3, 5 ~ 1, ~0, 1 << 4, 256 >> 4`, w(3, -4, -2, 3.0, 4.0, 3.5, 7, 2, 4, -1, 16, 16)},
		{"comparison", `return 1 < 2, 2 <= 2, 3 > 4, 4 >= 4, 1 == 1.0, "a" ~= "b", "a" < "b"`, w(true, true, false, true, true, true, true)},
		{"logical", `return nil and 1, false or "x", nil or false, 1 and 2, not 0, not nil`, w(nil, "x", false, 2, false, true)},
		{"unary-chains", `return - - 2, not not nil, - -2, ~~5, -#"ab", #"abc" + -1, -2 ^ 2, 2 ^ -1, - - -1, not - 1`, w(2, false, 2, 5, -2, 2, -4.0, 0.5, -1, false)},
		{"concat", `return 1 .. 2 .. 3, "a" .. "b" .. "c" == "abc", 1 .. ""`, w("123", true, "1")},
		{"string-escapes", `return "a\tb\n", 'c\'d', "\65\066\x43\u{44}", "x\z
     y", "\\", '\"'`, w("a\tb\n", "c'd", "ABCD", "xy", "\\", "\"")},
		{"string-lookalikes", `return "--not a comment", "[[", '--[[ ]]', "end", [[--]], [==[]]]==]`, w("--not a comment", "[[", "--[[ ]]", "end", "--", "]]")},
		{"long-strings", "local s = [[\nline1\nline2]] local e = [[]] local e2 = [==[]==] return s, #s, e, e2, #[[\n]], [=[\n\n]=]", w("line1\nline2", 11, "", "", 0, "\n")},
		{"numerals", `return 0xff, 1e2, 0x.8p1, 3., .5, 0xA, 9223372036854775807, 0xffffffffffffffff`, w(255, 100.0, 1.0, 3.0, 0.5, 10, int64(9223372036854775807), -1)},
		{"table-constructor", `local t = {1, 2; 3, x = 4; ["y"] = 5, [-1] = 6,} return #t, t.x, t.y, t[-1]`, w(3, 4, 5, 6)},
		{"table-constructor-forms", `local a, b, c, d = {}, {1}, {1,}, {x = 1;} return #a, #b, #c, d.x, #{{}, {{}}}, ({[1 + 1] = "k"})[2]`, w(0, 1, 1, 1, 2, "k")},
		{"table-constructor-name-key-vs-expression", `local x = "k" local t = {x = 1, [x] = 2, x == "k", x} return t.x, t.k, t[1], t[2]`, w(1, 2, true, "k")},
		{"varargs-in-main-chunk", `return select("#", ...)`, w(0)},
		{"comments-in-program", `-- leading comment
local a = 1 -- trailing
--[[ block
   comment ]] local b = 2 --[==[ another ]] ]==] local c = 3
--[ not a block
local d = 4
return a + b + c + d -- end`, w(10)},
		{"pcall-error", `local ok, e = pcall(error, {code = 1}) return ok, e.code`, w(false, 1)},
		{"deep-nesting", `local r = 0 do while true do repeat if true then for i = 1, 1 do for _ in ipairs{1} do do r = (function() return 42 end)() end end end end until true break end end return r`, w(42)},
		{"env", `local function f() local _ENV = {y = 7} return y end return f()`, w(7)},
		// --- the rules for multi-valued expressions (§3.4.12)
		{"mv-call-arguments", `local function f() return 1, 2, 3 end local function g(...) return select("#", ...) end
return g(f(), 10), g(10, f()), g(f()), g((f())), g(f(), f()), g((f()), (f()))`, w(2, 4, 3, 1, 4, 2)},
		{"mv-assignment", `local function f() return 1, 2, 3 end local a, b, c = f(), 10 local d, e, g = 10, f() local h, i, j, k = f() local l, m = (f())
return a, b, c, d, e, g, h, i, j, k, l, m`, w(1, 10, nil, 10, 1, 2, 1, 2, 3, nil, 1, nil)},
		{"mv-assignment-statement", `local function f() return 1, 2, 3 end local a, b, c, d a, b = f() c, d = (f()) return a, b, c, d`, w(1, 2, 1, nil)},
		{"mv-varargs", `local function v(...) local a, b = ... local t = {...} local u = {..., 0} local x = {0, ...} local y = {(...)}
return a, b, #t, #u, #x, #y, select("#", ...), select("#", (...)), select("#", ..., 0), select("#", 0, ...) end return v(7, 8, 9)`, w(7, 8, 3, 2, 4, 1, 3, 1, 2, 4)},
		{"mv-varargs-paren-assign", `local function v(...) local a, b = (...) local c, d c, d = (...) return a, b, c, d end return v(1, 2)`, w(1, nil, 1, nil)},
		{"mv-return", `local function f() return 1, 2 end local function r1() return f() end local function r2() return (f()) end local function r3() return 0, f() end local function r4() return f(), 0 end
local function r5(...) return ... end local function r6(...) return (...) end local function r7(...) return ..., 0 end local function n(...) return select("#", ...) end
return n(r1()), n(r2()), n(r3()), n(r4()), n(r5(1, 2, 3)), n(r6(1, 2, 3)), n(r7(1, 2, 3)), n(r5()), n(r6())`, w(2, 1, 3, 2, 3, 1, 2, 0, 1)},
		{"mv-statement-call", `local n = 0 local function f() n = n + 1 return 1, 2 end f() f() return n`, w(2)},
		{"mv-method", `local o = {} function o:m(...) return select("#", ...), ... end return o:m(), (o:m(1, 2))`, w(0, 2)},
		{"mv-constructor", `local function f() return 1, 2, 3 end return #{f()}, #{f(), f()}, #{f(),}, #{(f()),}, #{f(), nil == nil}, #{(f())}, #{k = f()}, ({k = f()}).k`, w(3, 4, 3, 1, 2, 1, 0, 1)},
		{"mv-paren-varargs-empty", `local function v(...) return (...) == nil, ((...)), select("#", ((...))) end return v()`, w(true, nil, 1)},
		{"mv-paren-in-operators", `local function f() return 2, 3 end local function v(...) return ... end return f() + 1, (f()) + 1, v(5, 6) + 1, -f(), f() .. ""`, w(3, 3, 6, -2, "2")},
		{"mv-for-in-explist", `local function gen() return function(s, i) if i < s then return i + 1 end end, 2, 0 end local n = 0 for i in (gen()) , 2, 0 do n = n + i end return n`, w(3)},
	}
}

// respell rewrites literal tokens in another spelling that denotes the same
// value: strings through spellString, numerals through spellLeaf.
func respell(ts []tok, r *rand.Rand) []string {
	out := make([]string, len(ts))
	for i, t := range ts {
		out[i] = t.text
		switch t.kind {
		case tkString, tkLongString:
			if v, ok := decodeStringToken(t); ok {
				out[i] = spellString(v, r)
			}
		case tkNumber:
			if v, st := nm.ParseNumeral(t.text); st == nm.Val {
				out[i] = spellLeaf(v, r)
			}
		}
	}
	return out
}

func texts(ts []tok) []string {
	out := make([]string, len(ts))
	for i, t := range ts {
		out[i] = t.text
	}
	return out
}

func runStmts(c *vp.Child) {
	r := newRunner(c)
	defer r.close()
	cp := corpus()
	k := 0
	perStyle := c.Pick(6, 100)
	for ci, ch := range cp {
		ts, err := lex(ch.src)
		if err != nil {
			r.c.Violation("harness", "corpus does not tokenize "+ch.name, err.Error(), ch.src)
			continue
		}
		type variant struct {
			how string
			src string
		}
		var vs []variant
		vs = append(vs, variant{"original", ch.src})
		tt := texts(ts)
		rnd := rand.New(rand.NewSource(int64(vp.Hash("stmts", fmt.Sprint(c.Seed), ch.name))))
		for _, st := range []sepStyle{sepSpace, sepTight, sepNewline, sepCRLF} {
			vs = append(vs, variant{styleNames[st], joinTokens(tt, st, rnd)})
		}
		for _, eol := range []string{"\r", "\n\r"} {
			vs = append(vs, variant{fmt.Sprintf("eol=%q", eol), strings.Join(tt, eol)})
		}
		for i := 0; i < perStyle; i++ {
			for _, st := range []sepStyle{sepBlank, sepComment, sepFlat} {
				vs = append(vs, variant{styleNames[st], joinTokens(tt, st, rnd)})
			}
			vs = append(vs, variant{"respelled literals", joinTokens(respell(ts, rnd), []sepStyle{sepSpace, sepTight, sepBlank, sepComment}[rnd.Intn(4)], rnd)})
		}
		for vi, v := range vs {
			k++
			if !c.Mine(k) {
				continue
			}
			c.Feature("rendering:"+v.how, 1)
			sig := "stmt " + ch.name
			if vi > 0 {
				sig += " rendering=" + v.how
			}
			if r.checkValues(fmt.Sprintf("stmt %d/%d %s", ci, vi, ch.name), v.src, ch.want, sig) {
				if vi > 0 {
					nontrivialHash(c, v.src)
				}
				if c.WantSample() && vi == 8 && ci%9 == c.Batch%9 {
					c.Sample(map[string]interface{}{"chunk": ch.name, "rendering": v.how, "source": v.src, "expected": ch.want})
				}
			}
		}
	}
	if c.Batch == 0 {
		c.Feature("corpus-chunks", int64(len(cp)))
	}
}
