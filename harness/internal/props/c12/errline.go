package c12

// Syntax-error position: single-token corruptions of valid programs for which
// the offending token is determined.  The program before the inserted token is
// a prefix of a valid program, so no error can be reported before it, and the
// inserted token can never continue the construct it is put in, so the error
// is at that token; the line in load's message has to be the line the renderer
// put it on (1 + number of end-of-line sequences before it).

import (
	"fmt"
	"math/rand"
	"strings"

	"verif/internal/vp"
)

// extra multi-line base programs (besides the statement corpus)
var errBases = []chunk{
	{"eb-functions", `local function add(a, b)
  local s = a + b
  if s > 10 then
    return s, "big"
  elseif s > 5 then
    return s, "medium"
  else
    return s, "small"
  end
end
local t = { add(1, 2), x = add(3, 4), [5] = { 6 } }
for i, v in ipairs(t) do
  while v do
    repeat
      v = nil
    until true
  end
end
return t[1], t.x`, ""},
	{"eb-strings", "local s = [[\nmulti\nline]] .. \"a\\\nb\" .. [==[\r\nx\ry]==] --[[ comment\n over lines ]]\nlocal u = s:upper():lower()\ndo local c <const> = #u goto l ::l:: end\nreturn (u)", ""},
	{"eb-table", `local cfg = {
  name = "x",
  list = { 1, 2, 3; 4 },
  fn = function(self, ...)
    return select("#", ...), self.name
  end,
}
function cfg.list:len() return #self end
return cfg:fn(1, 2), cfg.list:len()`, ""},
}

type errCase struct {
	kind  string
	x     string // inserted text
	after string // separator after x
	pos   int    // inserted before token pos; for truncation: tokens[:pos] are kept
	trunc bool
	eofOK bool // the line of the end of the chunk is accepted too
	sig   string
}

// stackAt returns, for every position p (before token p), the innermost open
// construct: one of ( [ { function do if repeat cond hdr, or "" at top level.
func stackAt(ts []tok) []string {
	tops := make([]string, len(ts)+1)
	var st []string
	top := func() string {
		if len(st) == 0 {
			return ""
		}
		return st[len(st)-1]
	}
	pop := func() {
		if len(st) > 0 {
			st = st[:len(st)-1]
		}
	}
	for i, t := range ts {
		tops[i] = top()
		if t.kind == tkOp {
			switch t.text {
			case "(", "[", "{":
				st = append(st, t.text)
			case ")", "]", "}":
				pop()
			}
		}
		if t.kind == tkKeyword {
			switch t.text {
			case "function", "repeat":
				st = append(st, t.text)
			case "if":
				st = append(st, "if", "cond")
			case "elseif":
				st = append(st, "cond")
			case "then":
				if top() == "cond" {
					pop()
				}
			case "while", "for":
				st = append(st, "hdr")
			case "do":
				if top() == "hdr" {
					pop()
				}
				st = append(st, "do")
			case "end", "until":
				pop()
			}
		}
	}
	tops[len(ts)] = top()
	return tops
}

var binaryOnly = []string{"*", "/", "//", "%", "^", "..", "==", "~=", "<=", ">=", "<<", ">>", "&", "|", "and", "or"}

func operandEnd(t tok) bool {
	switch t.kind {
	case tkName, tkNumber, tkString, tkLongString:
		return true
	case tkKeyword:
		return t.text == "nil" || t.text == "true" || t.text == "false" || t.text == "end"
	}
	return t.text == ")" || t.text == "]" || t.text == "}" || t.text == "..."
}

func prevClass(ts []tok, p int) string {
	if p == 0 {
		return "start"
	}
	t := ts[p-1]
	switch t.kind {
	case tkName:
		return "name"
	case tkNumber:
		return "numeral"
	case tkString, tkLongString:
		return "string"
	}
	return t.text
}

// candidates lists the determined corruptions at position p.
func candidates(ts []tok, tops []string, p int, r *rand.Rand) []errCase {
	var out []errCase
	top := tops[p]
	pc := prevClass(ts, p)
	// illegal characters
	x := []string{"$", "@", "!", "?", "`", "\\"}[r.Intn(6)]
	out = append(out, errCase{kind: "illegal-char", x: x, after: " ", pos: p, sig: "errline illegal-char " + x + " top=" + top})
	// closers that do not match the innermost open construct
	for _, cl := range []struct{ x, opener string }{{")", "("}, {"]", "["}, {"}", "{"}} {
		if top != cl.opener {
			out = append(out, errCase{kind: "stray-closer", x: cl.x, after: " ", pos: p, sig: "errline stray-closer " + cl.x + " top=" + top})
		}
	}
	switch top {
	case "(", "[", "{", "", "repeat", "cond", "hdr":
		out = append(out, errCase{kind: "stray-closer", x: "end", after: " ", pos: p, sig: "errline stray-closer end top=" + top})
	}
	if top != "repeat" {
		out = append(out, errCase{kind: "stray-closer", x: "until", after: " ", pos: p, sig: "errline stray-closer until top=" + top})
	}
	if top != "if" {
		out = append(out, errCase{kind: "stray-closer", x: "else", after: " ", pos: p, sig: "errline stray-closer else top=" + top})
		out = append(out, errCase{kind: "stray-closer", x: "elseif", after: " ", pos: p, sig: "errline stray-closer elseif top=" + top})
	}
	if top != "cond" {
		out = append(out, errCase{kind: "stray-closer", x: "then", after: " ", pos: p, sig: "errline stray-closer then top=" + top})
	}
	// a binary-only operator where an operand (or a statement) has to start
	if p == 0 || !operandEnd(ts[p-1]) {
		x := binaryOnly[r.Intn(len(binaryOnly))]
		out = append(out, errCase{kind: "operator-without-operand", x: x, after: " ", pos: p, sig: "errline operator-without-operand after=" + pc})
	}
	// a numeral right after a complete operand
	if p > 0 && operandEnd(ts[p-1]) && ts[p-1].text != "end" {
		out = append(out, errCase{kind: "operand-after-operand", x: "7", after: " ", pos: p, sig: "errline operand-after-operand after=" + pc})
	}
	// unterminated short string (ended by the line break)
	q := []string{`"`, `'`}[r.Intn(2)]
	out = append(out, errCase{kind: "unterminated-string", x: q + "abc", after: []string{"\n", "\r\n", "\r"}[r.Intn(3)], pos: p, sig: "errline unterminated-string"})
	// strings with an invalid escape
	bad := []string{`"a\qb"`, `'\300'`, `"\u{80000000}"`, `"\xZZ"`, `"\256"`, `'\u{}'`, `"\x1"`}[r.Intn(7)]
	out = append(out, errCase{kind: "invalid-escape", x: bad, after: " ", pos: p, sig: "errline invalid-escape " + bad})
	// unterminated long string / long comment: everything after it is swallowed
	lx := []string{"[===[ abc", "--[===[ abc", "[===[", "--[===["}[r.Intn(4)]
	out = append(out, errCase{kind: "unterminated-long-bracket", x: lx, after: " ", pos: p, eofOK: true, sig: "errline unterminated-long-bracket " + lx[:2]})
	out = append(out, errCase{kind: "unterminated-long-bracket-last-line", x: lx, pos: p, trunc: true, sig: "errline unterminated-long-bracket (on the last line) " + lx[:2]})
	// end of chunk inside an open construct
	if p > 0 && top != "" {
		out = append(out, errCase{kind: "truncated", pos: p, trunc: true, sig: "errline truncated top=" + top})
	}
	return out
}

// layout renders the tokens with line-breaking separators and returns the
// separators used (seps[i] stands before token i).
func layout(ts []tok, style sepStyle, r *rand.Rand) []string {
	seps := make([]string, len(ts)+1)
	for i := range ts {
		var s string
		switch {
		case i == 0:
			if r.Intn(2) == 0 {
				s = pickSep(style, r)
				if !sepOK("x", s, ts[0].text) {
					s = ""
				}
			}
		default:
			s = pickSep(style, r)
			if !sepOK(ts[i-1].text, s, ts[i].text) {
				s = " "
			}
		}
		seps[i] = s
	}
	return seps
}

// build returns the corrupted source and the accepted lines.
func (ec *errCase) build(ts []tok, seps []string) (string, []int) {
	var b strings.Builder
	for i := 0; i < ec.pos; i++ {
		b.WriteString(seps[i])
		b.WriteString(ts[i].text)
	}
	if ec.trunc {
		if ec.x != "" {
			b.WriteString(" ")
			b.WriteString(ec.x)
		}
		src := b.String()
		return src, []int{1 + countLines(src)}
	}
	sep := seps[ec.pos]
	if ec.pos > 0 && !sepOK(ts[ec.pos-1].text, sep, ec.x) {
		sep += " "
		if !sepOK(ts[ec.pos-1].text, sep, "x") { // a comment that needs its line break
			sep = " "
		}
	}
	b.WriteString(sep)
	line := 1 + countLines(b.String())
	b.WriteString(ec.x)
	b.WriteString(ec.after)
	for i := ec.pos; i < len(ts); i++ {
		if i > ec.pos {
			b.WriteString(seps[i])
		}
		b.WriteString(ts[i].text)
	}
	src := b.String()
	lines := []int{line}
	if ec.eofOK {
		if strings.Contains(src[strings.Index(src, ec.x)+len(ec.x):], "]===]") {
			return "", nil
		}
		if l := 1 + countLines(src); l != line {
			lines = append(lines, l)
		}
	}
	return src, lines
}

func runErrLine(c *vp.Child) {
	r := newRunner(c)
	defer r.close()
	bases := append(append([]chunk{}, errBases...), corpus()...)
	k := 0
	rounds := c.Pick(2, 30)
	perKind := c.Pick(2, 4)
	for _, base := range bases {
		ts, err := lex(base.src)
		if err != nil || len(ts) < 4 {
			continue
		}
		tops := stackAt(ts)
		for round := 0; round < rounds; round++ {
			for _, style := range []sepStyle{sepNewline, sepBlank, sepComment} {
				k++
				if !c.Mine(k) {
					continue
				}
				rnd := rand.New(rand.NewSource(int64(vp.Hash("errline", fmt.Sprint(c.Seed), base.name, fmt.Sprint(round), fmt.Sprint(style)))))
				seps := layout(ts, style, rnd)
				// the uncorrupted layout has to be accepted (otherwise nothing below means anything)
				var full strings.Builder
				for i, t := range ts {
					full.WriteString(seps[i])
					full.WriteString(t.text)
				}
				if ok, msg, _ := r.load("errline base "+base.name, full.String()); !ok {
					r.violation("reject", "stmt "+base.name+" rendering="+styleNames[style],
						fmt.Sprintf("load rejects a valid chunk: %s\n--- source ---\n%s", msg, full.String()), witness{K: "value", Src: full.String(), Want: "?"})
					continue
				}
				byKind := map[string][]errCase{}
				for p := 0; p <= len(ts); p++ {
					for _, ec := range candidates(ts, tops, p, rnd) {
						byKind[ec.kind] = append(byKind[ec.kind], ec)
					}
				}
				for _, kind := range []string{"illegal-char", "stray-closer", "operator-without-operand", "operand-after-operand", "unterminated-string",
					"invalid-escape", "unterminated-long-bracket", "unterminated-long-bracket-last-line", "truncated"} {
					cs := byKind[kind]
					n := perKind
					if kind == "stray-closer" {
						n *= 4
					}
					for i := 0; i < n && len(cs) > 0; i++ {
						j := rnd.Intn(len(cs))
						ec := cs[j]
						cs[j] = cs[len(cs)-1]
						cs = cs[:len(cs)-1]
						src, lines := ec.build(ts, seps)
						if lines == nil {
							continue
						}
						c.Feature("corruption:"+kind, 1)
						c.Feature(fmt.Sprintf("error-line:%s", lineBucket(lines[0])), 1)
						if r.checkErrLine("errline "+base.name+" "+ec.sig, src, lines, ec.sig) {
							nontrivialHash(c, src)
							if c.WantSample() && kind == "stray-closer" && lines[0] > 3 {
								c.Sample(map[string]interface{}{"corruption": ec.sig, "source": src, "expected_line": lines})
							}
						}
					}
				}
			}
		}
	}
}

func lineBucket(l int) string {
	switch {
	case l == 1:
		return "1"
	case l <= 5:
		return "2-5"
	case l <= 20:
		return "6-20"
	}
	return ">20"
}
