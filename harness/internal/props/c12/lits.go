package c12

// Literal decoding (§3.1): numerals, short strings with every escape
// sequence, long brackets, comments.

import (
	"fmt"
	"math/rand"
	"strconv"
	"strings"

	"verif/internal/gl"
	nm "verif/internal/numodel"
	"verif/internal/vp"
)

// litItem is one expression (normally a single literal token) with the
// encoding of its value, or invalid = must be rejected.
type litItem struct {
	src     string
	want    string
	invalid bool
	accept  bool // only acceptance is checked (value left open by the manual)
	sig     string
	class   string
}

type litBatch struct {
	r     *runner
	items []litItem
	n     int
}

func (lb *litBatch) add(it litItem) {
	c := lb.r.c
	c.Feature("class:"+it.class, 1)
	if it.invalid {
		c.Feature("must-reject", 1)
		src := "return " + it.src
		if lb.r.checkReject("lit "+it.sig, src, it.sig) {
			nontrivialHash(c, src)
		}
		return
	}
	if it.accept {
		src := "return " + it.src
		res := lb.r.run("lit "+it.sig, src, nil)
		c.Eval(1)
		c.Feature("accept-only (value unspecified)", 1)
		if res.kind == gl.CompileError || res.kind == gl.Panic {
			lb.r.violation("reject", it.sig, fmt.Sprintf("a valid literal is not accepted: %s\n--- chunk ---\n%s", res.describe(lb.r.sess.N), src), witness{K: "value", Src: src, Want: "?"})
		}
		return
	}
	lb.items = append(lb.items, it)
	if len(lb.items) >= 12 {
		lb.flush()
	}
}

var listSeps = []string{", ", ",", " ,\n", ",\r\n", ", --c\n", ",--[[c]]", "\t,\t", ",\n\r", ",\r"}

func (lb *litBatch) flush() {
	if len(lb.items) == 0 {
		return
	}
	r := lb.r
	c := r.c
	lb.n++
	rnd := rand.New(rand.NewSource(int64(vp.Hash("litsep", fmt.Sprint(c.Seed), fmt.Sprint(c.Batch), fmt.Sprint(lb.n)))))
	var b strings.Builder
	b.WriteString("return ")
	var wants []string
	for i, it := range lb.items {
		if i > 0 {
			s := listSeps[rnd.Intn(len(listSeps))]
			b.WriteString(s)
		}
		b.WriteString(it.src)
		wants = append(wants, it.want)
	}
	src := b.String()
	res := r.run("literals", src, nil)
	c.Eval(int64(len(lb.items)))
	allOK := res.kind == gl.OK && len(res.vals) == len(wants)
	if allOK {
		for i, v := range res.vals {
			if r.enc(v) != wants[i] {
				allOK = false
			}
		}
	}
	if allOK {
		for _, it := range lb.items {
			nontrivialHash(c, it.src)
		}
		if c.WantSample() && lb.n%7 == 1 {
			c.Sample(map[string]interface{}{"chunk": src, "expected": strings.Join(wants, ","), "observed": r.sess.N.EncList(res.vals)})
		}
	} else {
		anyBad := false
		for _, it := range lb.items {
			if !r.checkValues("lit "+it.sig, "return "+it.src, it.want, it.sig) {
				anyBad = true
			}
		}
		if !anyBad {
			r.violation("value", "literal list", fmt.Sprintf("every literal decodes correctly on its own but the list does not: %s, expected [%s]\n--- chunk ---\n%s",
				res.describe(r.sess.N), strings.Join(wants, ","), src), witness{K: "value", Src: src, Want: strings.Join(wants, ",")})
		}
	}
	lb.items = lb.items[:0]
}

// ---------------------------------------------------------------------------

func runLiterals(c *vp.Child) {
	r := newRunner(c)
	defer r.close()
	lb := &litBatch{r: r}
	k := 0
	mine := func() bool { k++; return c.Mine(k) }

	// numerals
	for _, s := range fixedNumerals() {
		if mine() {
			lb.add(numeralItem(s, "fixed"))
		}
	}
	rnd := c.Rand("numerals")
	nNum := c.Pick(24000, 320000) / c.NB
	for i := 0; i < nNum; i++ {
		s, class := randNumeralLit(rnd)
		lb.add(numeralItem(s, class))
	}
	for _, sp := range numeralContexts {
		if mine() {
			lb.add(litItem{src: sp[0], want: sp[1], sig: "numeral-context " + sp[0], class: "numeral next to an operator"})
		}
	}
	lb.flush()

	// short strings: systematic
	for _, it := range systematicStrings() {
		if mine() {
			lb.add(it)
		}
	}
	rs := c.Rand("strings")
	nStr := c.Pick(16000, 240000) / c.NB
	for i := 0; i < nStr; i++ {
		lb.add(randomString(rs))
	}
	lb.flush()

	// long brackets
	for _, it := range systematicLong() {
		if mine() {
			lb.add(it)
		}
	}
	rl := c.Rand("long")
	nLong := c.Pick(8000, 120000) / c.NB
	for i := 0; i < nLong; i++ {
		lb.add(randomLong(rl))
	}
	lb.flush()

	// comments
	for _, it := range commentCases() {
		if mine() {
			c.Feature("class:"+it.class, 1)
			if r.checkValues("comment "+it.sig, it.src, it.want, it.sig) {
				nontrivialHash(c, it.src)
			}
		}
	}
}

// ---------------------------------------------------------------------------
// numerals

func numeralItem(s, class string) litItem {
	v, st := nm.ParseNumeral(s)
	sig := "numeral " + class
	if class == "fixed" {
		sig += " " + s
	}
	switch st {
	case nm.Val:
		return litItem{src: s, want: v.Enc(), sig: sig, class: "numeral " + class}
	case nm.Skip:
		return litItem{src: s, accept: true, sig: sig, class: "numeral " + class}
	}
	panic("harness bug: generated numeral is not a numeral: " + s)
}

func fixedNumerals() []string {
	l := []string{
		"0", "1", "9", "00", "007", "10", "123456789", "9223372036854775806", "9223372036854775807", "9223372036854775808",
		"9223372036854775809", "09223372036854775807", "09223372036854775808", "18446744073709551615", "18446744073709551616",
		"10000000000000000000", "100000000000000000000", "123456789012345678901234567890", "9223372036854775807.", "9223372036854775808.0",
		"0x0", "0x1", "0xf", "0XF", "0xff", "0Xff", "0xFF", "0x7fffffffffffffff", "0x8000000000000000", "0xffffffffffffffff",
		"0x10000000000000000", "0x1ffffffffffffffff", "0x123456789abcdef01", "0xffffffffffffffffffffffff", "0x00000000000000000000001",
		"0xA", "0Xa", "0xabcdef", "0xABCDEF", "0xaBcDeF",
		"3.", ".5", "3.5", "0.0", "00.50", "3.14159", "1e1", "1E1", "1e+1", "1e-1", "1E+1", "1E-1", "1e01", "1e001", "1.e1", ".1e1", ".5e-1", "5.e+1",
		"1e10", "1e15", "1e16", "1e22", "1e23", "1e100", "1e308", "1.7976931348623157e308", "2.2250738585072014e-308", "1e-300", "1e400", "1e-400", "0e0", "0e999",
		"0x.8", "0x8.", "0x.8p1", "0x8.p1", "0xA.8", "0xa.8p0", "0x1p4", "0x1P4", "0X1p4", "0X1P4", "0x1p+4", "0x1p-4", "0x1p04", "0x.1p4", "0x1.8p1", "0x0.1p-4",
		"0x1p0", "0x0p0", "0x.0", "0x1.fffffffffffffp1023", "0x1p-1022", "0x1p-1074", "0x1.00000000000008p0", "0x1.00000000000008000001p0", "0x1.fffffffffffff8p0",
		"0xffffffffffffffff.0", "0x10000000000000000p0", "0xep1", "0xep+1", "0x1e", "0x1ep1",
		"9007199254740992", "9007199254740993", "9007199254740993.0", "9007199254740992.5", "0.1", "0.3", "4.35", "123456789012345678.0", "1234567890123456789012.0",
		"2.5e-5", "1.0000000000000002", "1.00000000000000011102230246251565404236316680908203125", "0.000001", "100.",
	}
	return l
}

// numerals directly followed or preceded by operator characters that could be
// mistaken for a part of the numeral
var numeralContexts = [][2]string{
	{"0xe+1", "i:15"}, {"0xe-1", "i:13"}, {"0x1e+1", "i:31"}, {"1e+1", "f:4024000000000000"}, {"1e1+1", "f:4026000000000000"},
	{"0x1p+1", "f:4000000000000000"}, {"0x1p1+1", "f:4008000000000000"}, {"1-1", "i:0"}, {"1 - -1", "i:2"}, {"3-.5", "f:4004000000000000"},
	{"0xA-0xa", "i:0"}, {"1 ..2", "s:\"12\""}, {"1 .. 2", "s:\"12\""}, {"2^2", "f:4010000000000000"}, {"2^-1", "f:3fe0000000000000"},
	{"1//1", "i:1"}, {"7//2", "i:3"}, {"7 // 2.0", "f:4008000000000000"}, {"1<2", "b:true"}, {"0x10>>4", "i:1"}, {"1<<62", "i:4611686018427387904"},
	{"5%3", "i:2"}, {"#\"abc\"+1", "i:4"}, {"-0x1", "i:-1"}, {"- 1", "i:-1"}, {"-9223372036854775807-1", "i:-9223372036854775808"},
	{"~0", "i:-1"}, {"~0x0", "i:-1"}, {"1 .. 0x10", "s:\"116\""}, {"3.0==3", "b:true"}, {"0x.8+0x.8", "f:3ff0000000000000"}, {"1e0", "f:3ff0000000000000"},
	{"math.type(1)", "s:\"integer\""}, {"math.type(1.)", "s:\"float\""}, {"math.type(0x1p0)", "s:\"float\""}, {"math.type(0x10)", "s:\"integer\""},
	{"math.type(9223372036854775808)", "s:\"float\""}, {"math.type(0xffffffffffffffffff)", "s:\"integer\""},
}

func randNumeralLit(r *rand.Rand) (string, string) {
	digits := func(set string, n int) string {
		b := make([]byte, n)
		for i := range b {
			b[i] = set[r.Intn(len(set))]
		}
		return string(b)
	}
	const dec = "0123456789"
	const hexd = "0123456789abcdefABCDEF"
	exp := func(marks string, max int) string {
		e := string(marks[r.Intn(len(marks))])
		switch r.Intn(3) {
		case 0:
			e += "+"
		case 1:
			e += "-"
		}
		if r.Intn(6) == 0 {
			e += "0"
		}
		return e + strconv.Itoa(r.Intn(max))
	}
	switch r.Intn(12) {
	case 0:
		return digits(dec, 1+r.Intn(18)), "decimal integer"
	case 1: // around the integer / float frontier
		base := []string{"9223372036854775807", "9223372036854775808", "18446744073709551615", "18446744073709551616", "9007199254740992"}[r.Intn(5)]
		b := []byte(base)
		b[len(b)-1-r.Intn(3)] = dec[r.Intn(10)]
		s := string(b)
		if r.Intn(3) == 0 {
			s = strings.Repeat("0", 1+r.Intn(3)) + s
		}
		return s, "decimal integer at 2^63/2^64"
	case 2:
		return digits("123456789", 1) + digits(dec, 19+r.Intn(25)), "decimal integer overflowing to float"
	case 3:
		switch r.Intn(3) {
		case 0:
			return digits(dec, 1+r.Intn(17)) + ".", "decimal float"
		case 1:
			return "." + digits(dec, 1+r.Intn(17)), "decimal float"
		}
		return digits(dec, 1+r.Intn(17)) + "." + digits(dec, 1+r.Intn(17)), "decimal float"
	case 4:
		m := digits(dec, 1+r.Intn(17))
		switch r.Intn(4) {
		case 0:
			m += "."
		case 1:
			m = "." + m
		case 2:
			m += "." + digits(dec, 1+r.Intn(10))
		}
		return m + exp("eE", 40), "decimal float with exponent"
	case 5:
		return digits("123456789", 1) + "." + digits(dec, 16+r.Intn(12)) + exp("eE", 300), "decimal float, long mantissa, large exponent"
	case 6:
		return []string{"0x", "0X"}[r.Intn(2)] + digits(hexd, 1+r.Intn(16)), "hex integer"
	case 7:
		return []string{"0x", "0X"}[r.Intn(2)] + digits(hexd, 17+r.Intn(12)), "hex integer wrapping modulo 2^64"
	case 8:
		p := []string{"0x", "0X"}[r.Intn(2)]
		switch r.Intn(3) {
		case 0:
			return p + digits(hexd, 1+r.Intn(14)) + ".", "hex float"
		case 1:
			return p + "." + digits(hexd, 1+r.Intn(14)), "hex float"
		}
		return p + digits(hexd, 1+r.Intn(10)) + "." + digits(hexd, 1+r.Intn(10)), "hex float"
	case 9:
		p := []string{"0x", "0X"}[r.Intn(2)] + digits(hexd, 1+r.Intn(14))
		switch r.Intn(3) {
		case 0:
			p += "."
		case 1:
			p += "." + digits(hexd, 1+r.Intn(14))
		}
		return p + exp("pP", 60), "hex float with binary exponent"
	case 10:
		return []string{"0x", "0X"}[r.Intn(2)] + "1." + digits(hexd, 13+r.Intn(8)) + exp("pP", 1000), "hex float, long mantissa, large exponent"
	default:
		return digits(dec, 1+r.Intn(3)), "small decimal integer"
	}
}

// ---------------------------------------------------------------------------
// short strings

type piece struct {
	text string
	name string
}

var escapePieces = []piece{
	{`\a`, `\a`}, {`\b`, `\b`}, {`\f`, `\f`}, {`\n`, `\n`}, {`\r`, `\r`}, {`\t`, `\t`}, {`\v`, `\v`}, {`\\`, `\\`}, {`\"`, `\"`}, {`\'`, `\'`},
	{"\\\n", `\<LF>`}, {"\\\r", `\<CR>`}, {"\\\r\n", `\<CRLF>`}, {"\\\n\r", `\<LFCR>`}, {"\\\n\n", `\<LF><LF>`}, {"\\\r\r", `\<CR><CR>`},
	{`\z`, `\z`}, {`\z `, `\z<sp>`}, {"\\z\n", `\z<LF>`}, {"\\z \t\r\n\v\f ", `\z<ws>`}, {"\\z\r\n\r\n", `\z<CRLF><CRLF>`}, {`\z\z`, `\z\z`}, {"\\z\n\\z\n", `\z<LF>\z<LF>`},
	{`\x41`, `\xXX`}, {`\x00`, `\x00`}, {`\xff`, `\xff`}, {`\xFF`, `\xFF`}, {`\x7f`, `\x7f`}, {`\xaB`, `\xaB`}, {`\x5c`, `\x5c`}, {`\x22`, `\x22`}, {`\x0a`, `\x0a`},
	{`\0`, `\d`}, {`\7`, `\d`}, {`\9`, `\d`}, {`\00`, `\dd`}, {`\10`, `\dd`}, {`\65`, `\dd`}, {`\99`, `\dd`}, {`\000`, `\ddd`}, {`\065`, `\ddd`}, {`\100`, `\ddd`}, {`\199`, `\ddd`}, {`\200`, `\ddd`},
	{`\249`, `\ddd`}, {`\250`, `\ddd`}, {`\255`, `\ddd 255`}, {`\092`, `\ddd`}, {`\034`, `\ddd`}, {`\010`, `\ddd`}, {`\013`, `\ddd`},
	{`\u{0}`, `\u`}, {`\u{41}`, `\u`}, {`\u{7F}`, `\u`}, {`\u{80}`, `\u`}, {`\u{7ff}`, `\u`}, {`\u{800}`, `\u`}, {`\u{FFFF}`, `\u`}, {`\u{10000}`, `\u`}, {`\u{10FFFF}`, `\u`},
	{`\u{110000}`, `\u >10FFFF`}, {`\u{1FFFFF}`, `\u 4 bytes max`}, {`\u{200000}`, `\u 5 bytes`}, {`\u{3FFFFFF}`, `\u 5 bytes max`}, {`\u{4000000}`, `\u 6 bytes`}, {`\u{7FFFFFFF}`, `\u 2^31-1`},
	{`\u{0000000041}`, `\u leading zeros`}, {`\u{00000000007fffffff}`, `\u leading zeros`}, {`\u{D800}`, `\u surrogate`}, {`\u{dfff}`, `\u surrogate`}, {`\u{e9}`, `\u`}, {`\u{20AC}`, `\u`}, {`\u{1F600}`, `\u`},
	// invalid ones
	{`\q`, `invalid \q`}, {`\c`, `invalid \c`}, {`\e`, `invalid \e`}, {`\ `, `invalid \<sp>`}, {`\-`, `invalid \-`}, {`\N`, `invalid \N`}, {`\X41`, `invalid \X`}, {`\U{41}`, `invalid \U`}, {`\A`, `invalid \A`},
	{`\(`, `invalid \(`}, {`\[`, `invalid \[`}, {`\/`, `invalid \/`}, {`\?`, `invalid \?`}, {`\Z`, `invalid \Z`}, {"\\\t", `invalid \<tab>`}, {"\\\x80", `invalid \<80>`}, {"\\\x00", `invalid \<NUL>`},
	{`\256`, `invalid \256`}, {`\300`, `invalid \300`}, {`\999`, `invalid \999`}, {`\260`, `invalid \260`}, {`\x4`, `invalid \xX`}, {`\x`, `invalid \x`}, {`\xg1`, `invalid \xg`}, {`\x1g`, `invalid \x1g`}, {`\x 41`, `invalid \x<sp>`},
	{`\u41`, `invalid \u without brace`}, {`\u{}`, `invalid \u{}`}, {`\u{41`, `invalid \u unclosed`}, {`\u{4g}`, `invalid \u{4g}`}, {`\u{80000000}`, `invalid \u 2^31`}, {`\u{FFFFFFFF}`, `invalid \u 2^32-1`},
	{`\u{100000000}`, `invalid \u 2^32`}, {`\u{FFFFFFFFFFFFFFFFF}`, `invalid \u huge`}, {`\u{ 41}`, `invalid \u{<sp>`}, {`\u{41 }`, `invalid \u <sp>}`}, {`\u`, `invalid \u`}, {`\u{`, `invalid \u{`},
	{"\n", `invalid raw LF`}, {"\r", `invalid raw CR`},
}

var plainPieces = []string{"a", "Z", "0", "1", "9", " ", "f", "x", "u", "z", "n", "[", "]", "-", "--", "[[", "]]", "--[[", "{", "}", "%", "\t", "\x7f", "\x80", "\xff", "\xc3\xa9", "\xe2\x82\xac", "\x00", "\x01", "\x1b", "ab", "end"}

func stringItem(lit, class, name string) litItem {
	sig := "string " + name
	v, ok := decodeShort(lit)
	if !ok {
		return litItem{src: lit, invalid: true, sig: sig, class: class + " (invalid)"}
	}
	return litItem{src: lit, want: nm.S(string(v)).Enc(), sig: sig, class: class}
}

func systematicStrings() []litItem {
	var out []litItem
	quotes := []string{`"`, `'`}
	other := map[string]string{`"`: `'`, `'`: `"`}
	for _, q := range quotes {
		// plain
		for _, p := range plainPieces {
			out = append(out, stringItem(q+p+q, "plain characters", fmt.Sprintf("plain %q quote=%s", p, q)))
		}
		out = append(out, stringItem(q+q, "empty string", "empty quote="+q))
		out = append(out, stringItem(q+other[q]+q, "other quote inside", "other-quote quote="+q))
		for _, e := range escapePieces {
			for _, fol := range []string{"", "1", "a", "f", "}", " ", "\n"} {
				if fol == "\n" && !strings.HasPrefix(e.name, `\z`) {
					continue
				}
				for pos, form := range []string{e.text + fol, "x" + e.text + fol + "y", "x" + e.text + fol, e.text + fol + "y"} {
					posName := []string{"alone", "middle", "end", "start"}[pos]
					name := fmt.Sprintf("escape %s at %s", e.name, posName)
					if fol != "" {
						name += fmt.Sprintf(" followed by %q", fol)
					}
					it := stringItem(q+form+q, "escape "+e.name, name+" quote="+q)
					out = append(out, it)
				}
			}
		}
		// all \xXX
		for b := 0; b < 256; b++ {
			out = append(out, stringItem(fmt.Sprintf("%s\\x%02x%s", q, b, q), `escape \xXX (all bytes)`, fmt.Sprintf(`\x%02x quote=%s`, b, q)))
			out = append(out, stringItem(fmt.Sprintf("%sa\\x%02Xf%s", q, b, q), `escape \xXX (all bytes)`, fmt.Sprintf(`\x%02X followed by f quote=%s`, b, q)))
		}
		// all decimal escapes 0..999 in every width, followed by a digit or not
		for d := 0; d < 1000; d++ {
			for _, f := range []string{"%d", "%02d", "%03d"} {
				e := fmt.Sprintf(f, d)
				for _, fol := range []string{"", "7", "x"} {
					name := fmt.Sprintf(`\%s followed by %q quote=%s`, e, fol, q)
					out = append(out, stringItem(q+`\`+e+fol+q, `escape \ddd (0..999, all widths)`, name))
				}
			}
		}
		// raw bytes
		for b := 0; b < 256; b++ {
			if b == '\n' || b == '\r' || b == '\\' || string(rune(b)) == q {
				continue
			}
			out = append(out, stringItem(q+"a"+string([]byte{byte(b)})+"b"+q, "raw byte (all values)", fmt.Sprintf("raw byte %#02x quote=%s", b, q)))
		}
	}
	// unterminated
	for _, s := range []string{`"abc`, `'abc`, `"abc\"`, `"abc\`, `"abc'`, `'`, `"`, `"\z`, `"\z   `, "\"abc\\\n"} {
		out = append(out, litItem{src: s, invalid: true, sig: fmt.Sprintf("string unterminated %q", s), class: "unterminated string (invalid)"})
	}
	return out
}

func randomString(r *rand.Rand) litItem {
	q := []string{`"`, `'`}[r.Intn(2)]
	var b strings.Builder
	b.WriteString(q)
	n := 1 + r.Intn(7)
	var names []string
	valid := true
	for i := 0; i < n; i++ {
		switch r.Intn(10) {
		case 0, 1, 2:
			b.WriteString(plainPieces[r.Intn(len(plainPieces))])
		case 3:
			fmt.Fprintf(&b, `\x%02x`, r.Intn(256))
		case 4:
			fmt.Fprintf(&b, []string{`\%d`, `\%02d`, `\%03d`}[r.Intn(3)], r.Intn(256))
		case 5:
			var x uint32
			switch r.Intn(6) {
			case 0:
				x = uint32(r.Intn(0x80))
			case 1:
				x = uint32(r.Intn(0x800))
			case 2:
				x = uint32(r.Intn(0x10000))
			case 3:
				x = uint32(r.Intn(0x200000))
			case 4:
				x = uint32(r.Intn(0x4000000))
			default:
				x = uint32(r.Int63n(1 << 31))
			}
			fmt.Fprintf(&b, []string{`\u{%x}`, `\u{%X}`, `\u{%08x}`, `\u{00%x}`}[r.Intn(4)], x)
		default:
			// mostly valid escapes; an invalid one now and then
			var e piece
			for {
				e = escapePieces[r.Intn(len(escapePieces))]
				if !strings.HasPrefix(e.name, "invalid") || (valid && r.Intn(12) == 0) {
					break
				}
			}
			if strings.HasPrefix(e.name, "invalid") {
				valid = false
			}
			names = append(names, e.name)
			b.WriteString(e.text)
		}
	}
	b.WriteString(q)
	lit := b.String()
	if strings.Count(lit, q) != 2+strings.Count(lit, `\`+q) {
		// an unescaped quote of the same kind crept in through a piece: never the case with the pools above
		lit = q + "x" + q
	}
	name := "random " + strings.Join(names, " ")
	if len(name) > 60 {
		name = name[:60]
	}
	return stringItem(lit, "random composition", name)
}

// ---------------------------------------------------------------------------
// long brackets

var longPieces = []string{"a", "]", "]]", "]=]", "]==]", "]===]", "[", "[[", "[=[", "[==[", "=", "==", "\n", "\r", "\r\n", "\n\r", "\n\n", "\\", "\\n", "\\z", "\\]", "\"", "'", "--", "--[[", "--]]", " ", "\t", "\x00", "\xff", "\xc3\xa9", "]=", "=]", "end"}

func longItem(content string, level int, name string) litItem {
	eq := strings.Repeat("=", level)
	lit := "[" + eq + "[" + content + "]" + eq + "]"
	v, ok := decodeLong(lit)
	if !ok {
		panic("harness bug: bad long bracket " + strconv.Quote(lit))
	}
	return litItem{src: lit, want: nm.S(v).Enc(), sig: fmt.Sprintf("longstring level=%d %s", level, name), class: fmt.Sprintf("long bracket level %d", level)}
}

func contentClass(content string) string {
	switch {
	case content == "":
		return "empty"
	case normEOL(content) == "\n":
		return "only a line break"
	case content[0] == '\n' || content[0] == '\r':
		return "leading line break"
	case strings.ContainsAny(content, "\r"):
		return "with CR line ends"
	case strings.Contains(content, "]"):
		return "with closing look-alike"
	}
	return "other"
}

func systematicLong() []litItem {
	var out []litItem
	alpha := []string{"]", "=", "[", "\n", "\r", "a"}
	var rec func(prefix string, depth int)
	var contents []string
	rec = func(prefix string, depth int) {
		contents = append(contents, prefix)
		if depth == 4 {
			return
		}
		for _, a := range alpha {
			rec(prefix+a, depth+1)
		}
	}
	rec("", 0)
	for _, ct := range contents {
		for level := 0; level <= 3; level++ {
			if longOK(ct, level) {
				out = append(out, longItem(ct, level, contentClass(ct)+fmt.Sprintf(" %q", ct)))
			}
		}
	}
	for level := 4; level <= 8; level++ {
		out = append(out, longItem("", level, "empty"))
		out = append(out, longItem("]"+strings.Repeat("=", level-1)+"]", level, "with closing look-alike"))
	}
	// unterminated
	for _, s := range []string{"[[", "[[abc", "[==[abc]]", "[==[abc]=]", "[=[abc]==]", "[[abc]", "[=[", "[===[ ]==] "} {
		out = append(out, litItem{src: s, invalid: true, sig: fmt.Sprintf("longstring unterminated %q", s), class: "unterminated long bracket (invalid)"})
	}
	return out
}

func randomLong(r *rand.Rand) litItem {
	for {
		level := r.Intn(4)
		if r.Intn(10) == 0 {
			level = 4 + r.Intn(3)
		}
		var b strings.Builder
		n := r.Intn(8)
		for i := 0; i < n; i++ {
			b.WriteString(longPieces[r.Intn(len(longPieces))])
		}
		ct := b.String()
		if longOK(ct, level) {
			return longItem(ct, level, contentClass(ct))
		}
	}
}

// ---------------------------------------------------------------------------
// comments

type commentCase struct {
	src, want, sig, class string
}

func commentCases() []commentCase {
	var out []commentCase
	short := []string{"--", "-- c", "--c", "---", "----", "--[", "--[=", "--[==", "--[ [", "--[=x[", "--]]", "--[x]]", "-- [[", "--\t[[", "--- [[", "--\"", "--'", "--[\"", "-- end", "--\\", "--[=]", "--[]", "--=[["}
	long := []string{"--[[]]", "--[[c]]", "--[[ c ]]", "--[=[]=]", "--[==[ c ]==]", "--[===[]===]", "--[[\n]]", "--[[\r\n\r\n]]", "--[[ ] ]]", "--[[ ]=] ]]", "--[=[ ]] ]=]", "--[=[ ]==] ]=]",
		"--[==[ ]] ]=] ]==]", "--[[ [[ ]]", "--[[ --[[ ]]", "--[[ -- ]]", "--[[ \" ]]", "--[[ ' ]]", "--[[\\]]", "--[[ return 9 ]]", "--[[\n-- x\n]]", "--[=[\n]]\n]=]", "--[[]]--[[]]", "--[[]]--x"}
	eols := []string{"\n", "\r\n", "\r", "\n\r"}
	toks := []string{"return", "1", "+", "2"}
	want := "i:3"
	build := func(pos int, cm string) string {
		var b strings.Builder
		for i, t := range toks {
			if i == pos {
				b.WriteString(cm)
			}
			if i > 0 && i != pos {
				b.WriteString(" ")
			}
			b.WriteString(t)
		}
		if pos == len(toks) {
			b.WriteString(cm)
		}
		return b.String()
	}
	for pos := 0; pos <= len(toks); pos++ {
		for _, cm := range short {
			for _, eol := range eols {
				src := build(pos, cm+eol)
				out = append(out, commentCase{src, want, fmt.Sprintf("comment short %q eol=%q at boundary %d", cm, eol, pos), "short comment"})
			}
			if pos == len(toks) {
				out = append(out, commentCase{build(pos, cm), want, fmt.Sprintf("comment short %q at end of chunk", cm), "short comment ending the chunk"})
				out = append(out, commentCase{build(pos, " "+cm), want, fmt.Sprintf("comment short %q at end of chunk", cm), "short comment ending the chunk"})
			}
		}
		for _, cm := range long {
			if strings.HasSuffix(cm, "--x") && pos != len(toks) {
				cm += "\n"
			}
			out = append(out, commentCase{build(pos, cm), want, fmt.Sprintf("comment long %q at boundary %d", cm, pos), "long comment"})
			out = append(out, commentCase{build(pos, " "+cm+" "), want, fmt.Sprintf("comment long %q at boundary %d", cm, pos), "long comment"})
		}
	}
	// the line after a comment is code again
	for _, cm := range short {
		for _, eol := range eols {
			out = append(out, commentCase{"local x = 1 " + cm + eol + "x = x + 1" + eol + "return x", "i:2",
				fmt.Sprintf("comment short %q eol=%q then a statement", cm, eol), "short comment followed by a statement line"})
		}
	}
	for _, cm := range long {
		if strings.HasSuffix(cm, "--x") {
			continue
		}
		out = append(out, commentCase{"local x = 1 " + cm + "x = x + 1 return x", "i:2", fmt.Sprintf("comment long %q then a statement", cm), "long comment followed by a statement"})
	}
	return out
}
