package c12

import (
	"fmt"
	"math/rand"
	"sort"
	"strings"

	rt "github.com/arnodel/golua/runtime"

	"verif/internal/gl"
	nm "verif/internal/numodel"
	"verif/internal/vp"
)

func toRT(v nm.V) rt.Value {
	switch v.K {
	case nm.Int:
		return rt.IntValue(v.I)
	case nm.Float:
		return rt.FloatValue(v.F)
	case nm.Str:
		return rt.StringValue(v.S)
	case nm.Bool:
		return rt.BoolValue(v.B)
	}
	return rt.NilValue
}

// Contexts an expression is placed in.  %s is the expression; truth = only the
// truth value of the expression is observable in that context.
type exprCtx struct {
	name  string
	tmpl  string
	truth bool
}

var exprCtxs = []exprCtx{
	{"return", "return %s", false},
	{"local", "local v = %s return v", false},
	{"paren", "return (%s)", false},
	{"constructor", "local t = {%s} return t[1]", false},
	{"assign", "local v; v = %s; return v", false},
	{"argument", "return (function(...) return ... end)(%s)", false},
	{"select", "return select(1, %s)", false},
	{"field", "local t = {} t.k = %s return t.k", false},
	{"const", "local v <const> = %s return v", false},
	{"do", "do return %s end", false},
	{"keyed", "return ({k = %s}).k", false},
	{"index", "local t = {[1] = %s} return t[1]", false},
	{"if", "if %s then return true else return false end", true},
	{"while", "while %s do return true end return false", true},
	{"repeat", "local n = 0 repeat n = n + 1 until %s or n == 2 return n == 1", true},
	{"notnot", "return not not (%s)", true},
}

var styleNames = map[sepStyle]string{sepSpace: "space", sepTight: "tight", sepBlank: "blank", sepComment: "comment", sepFlat: "flat", sepNewline: "newline", sepCRLF: "crlf"}

// exprCase is one rendering of one tree.
type exprCase struct {
	tree  *node
	mode  string // "lit", "var", "sym"
	extra float64
	style sepStyle
	ctx   int
	seed  int64
}

func (ec *exprCase) simple() bool { return ec.extra == 0 && ec.style == sepSpace && ec.ctx == 0 }

func (ec *exprCase) how() string {
	p := "minimal"
	if ec.extra > 0 {
		p = "redundant"
	}
	return fmt.Sprintf("parens=%s sep=%s ctx=%s", p, styleNames[ec.style], exprCtxs[ec.ctx].name)
}

// build returns the function body and the expected encoding.
func (ec *exprCase) build() (body string, want string, o outcome) {
	r := rand.New(rand.NewSource(ec.seed))
	var ls []*node
	ec.tree.leaves(&ls)
	for _, l := range ls {
		l.lit = ""
		if l.val.sym {
			// (the tree may be a sub-tree whose leaves were renumbered)
			l.val.name, l.val.id = varNames[l.idx], l.idx
		}
		switch {
		case ec.mode == "lit":
			l.lit = spellLeaf(l.val.v, r)
		case ec.mode == "sym" && !l.val.sym:
			l.lit = spellLeaf(l.val.v, r)
		}
	}
	var ts []string
	ec.tree.render(ec.extra, r, &ts)
	e := joinTokens(ts, ec.style, r)
	o = modelOutcome(ec.tree)
	ctx := exprCtxs[ec.ctx]
	body = fmt.Sprintf(ctx.tmpl, e)
	if ec.mode == "sym" {
		return body, o.String(), o
	}
	switch {
	case o.st == nm.Err:
		want = errSentinel
	case ctx.truth:
		e := &evaluator{}
		v, _ := e.eval(ec.tree)
		want = nm.B(v.truthy()).Enc()
	default:
		want = o.enc
	}
	return body, want, o
}

func (ec *exprCase) header() string {
	var ls []*node
	ec.tree.leaves(&ls)
	if ec.mode == "sym" {
		var names, vals []string
		for _, l := range ls {
			if l.val.sym {
				names = append(names, varNames[l.idx])
				vals = append(vals, "L\""+varNames[l.idx]+"\"")
			}
		}
		if len(names) == 0 {
			return ""
		}
		return "local " + strings.Join(names, ", ") + " = " + strings.Join(vals, ", ") + "\n"
	}
	if ec.mode == "var" && len(ls) > 0 {
		return "local " + strings.Join(varNames[:len(ls)], ", ") + " = ...\n"
	}
	return ""
}

func (ec *exprCase) args() []rt.Value {
	if ec.mode != "var" {
		return nil
	}
	var ls []*node
	ec.tree.leaves(&ls)
	var a []rt.Value
	for _, l := range ls {
		a = append(a, toRT(l.val.v))
	}
	return a
}

func wrapBody(mode, body string) string {
	if mode == "sym" {
		return "RUN(function() " + body + " end)"
	}
	return "P(function() " + body + " end)"
}

// symResult encodes what RUN returned.
func (r *runner) symResult(v rt.Value) string {
	t, ok := v.TryTable()
	if !ok {
		return "?not-a-result " + r.enc(v)
	}
	if okv := t.Get(rt.StringValue("ok")); !(okv.Type() == rt.BoolType && okv.AsBool()) {
		return "error"
	}
	enc := r.encSym(t.Get(rt.StringValue("r")), 0)
	var log []string
	if lt, ok := t.Get(rt.StringValue("log")).TryTable(); ok {
		for i := int64(1); ; i++ {
			e := lt.Get(rt.IntValue(i))
			if e.IsNil() {
				break
			}
			log = append(log, r.encSym(e, 0))
		}
	}
	sort.Strings(log)
	o := outcome{st: nm.Val, enc: enc, log: strings.Join(log, ";")}
	return o.String()
}

// checkSym is used by Replay: src returns RUN results, one per expected string.
func (r *runner) checkSym(caseID, src string, wants []string, sig string) bool {
	res := r.run(caseID, src, nil)
	r.c.Eval(1)
	w := witness{K: "symvalue", Src: src, Want: strings.Join(wants, "\x01")}
	if res.kind != gl.OK {
		kind := "value"
		if res.kind == gl.CompileError {
			kind = "reject"
		} else if res.kind == gl.Panic {
			kind = "panic"
		}
		r.violation(kind, sig, fmt.Sprintf("%s\n--- chunk ---\n%s", res.describe(r.sess.N), src), w)
		return false
	}
	ok := len(res.vals) == len(wants)
	var got []string
	for i, v := range res.vals {
		g := r.symResult(v)
		got = append(got, g)
		if i < len(wants) && g != wants[i] {
			ok = false
		}
	}
	if !ok {
		r.violation("value", sig, fmt.Sprintf("the chunk gives %q, the manual gives %q\n--- chunk ---\n%s", got, wants, src), w)
	}
	return ok
}

// runCases runs the cases (same tree, same mode) in one chunk and returns the
// indexes of those that did not hold, with what was observed.
func (r *runner) runCases(id string, cases []*exprCase) (bad []int, got []string, srcs []string, wants []string) {
	if len(cases) == 0 {
		return
	}
	mode := cases[0].mode
	var parts []string
	for _, ec := range cases {
		body, want, _ := ec.build()
		wants = append(wants, want)
		parts = append(parts, wrapBody(mode, body))
		srcs = append(srcs, cases[0].header()+"return "+wrapBody(mode, body))
	}
	src := cases[0].header() + "return " + strings.Join(parts, ",\n")
	args := cases[0].args()
	res := r.run(id, src, args)
	r.c.Eval(int64(len(cases)))
	got = make([]string, len(cases))
	if res.kind == gl.OK && len(res.vals) == len(cases) {
		for i, v := range res.vals {
			if mode == "sym" {
				got[i] = r.symResult(v)
			} else {
				got[i] = r.enc(v)
			}
			if got[i] != wants[i] {
				bad = append(bad, i)
			}
		}
		for _, rep := range res.report {
			r.c.Violation("hook", "hook "+rep, rep, src)
		}
		return
	}
	// the chunk as a whole failed: run every rendering on its own
	for i := range cases {
		res := r.run(id, srcs[i], args)
		switch {
		case res.kind == gl.OK && len(res.vals) == 1:
			if mode == "sym" {
				got[i] = r.symResult(res.vals[0])
			} else {
				got[i] = r.enc(res.vals[0])
			}
		default:
			got[i] = res.describe(r.sess.N)
		}
		if got[i] != wants[i] {
			bad = append(bad, i)
		}
	}
	if len(bad) == 0 {
		// only the combination fails
		got = append(got, res.describe(r.sess.N))
		r.violation("reject", "expr combined chunk", fmt.Sprintf("every rendering is accepted on its own but not their combination: %s\n--- chunk ---\n%s", res.describe(r.sess.N), src),
			witness{K: "reject", Src: src})
	}
	return
}

// single runs one case alone; true when it holds.
func (r *runner) single(ec *exprCase) (ok bool, got, want, src string) {
	bad, g, srcs, wants := r.runCases("minimise", []*exprCase{ec})
	return len(bad) == 0, g[0], wants[0], srcs[0]
}

// report minimises a failing case (descending into failing sub-trees, then
// simplifying the rendering) and records the violation.
func (r *runner) report(ec *exprCase, got, want, src string) {
	cur := ec
	for {
		descended := false
		for _, k := range cur.tree.kids {
			if k.op == "" {
				continue
			}
			sub := *cur
			sub.tree = k
			if ok, g, w, s := r.single(&sub); !ok {
				cur, got, want, src = &sub, g, w, s
				descended = true
				break
			}
		}
		if !descended {
			break
		}
	}
	// then replace sub-trees by single operands as long as the case still fails
	for changed := true; changed; {
		changed = false
		var subs []*node
		collectOps(cur.tree, &subs)
		for _, sub := range subs {
			if sub == cur.tree {
				continue
			}
			repl, ok := leafFor(sub, cur.mode)
			if !ok {
				continue
			}
			cand := *cur
			cand.tree = cloneReplacing(cur.tree, sub, repl)
			if ok, g, w, s := r.single(&cand); !ok {
				cur, got, want, src = &cand, g, w, s
				changed = true
				break
			}
		}
	}
	// restore leaf numbering of the reported tree
	var ls []*node
	cur.tree.leaves(&ls)
	how := " " + cur.how()
	if !cur.simple() {
		simple := *cur
		simple.extra, simple.style, simple.ctx = 0, sepSpace, 0
		if ok, g, w, s := r.single(&simple); !ok {
			cur, got, want, src, how = &simple, g, w, s, ""
		}
		ls = nil
		cur.tree.leaves(&ls)
	}
	sig := "expr/" + cur.mode + " " + cur.tree.prefix(leafClass) + how
	kind := "value"
	if strings.HasPrefix(got, "rejected:") {
		kind = "reject"
	} else if strings.HasPrefix(got, "Go panic:") {
		kind = "panic"
	}
	k := "value"
	if cur.mode == "sym" {
		k = "symvalue"
	}
	argNote := ""
	if cur.mode == "var" {
		var as []string
		for _, l := range ls {
			as = append(as, varNames[l.idx]+"="+l.val.v.Lua())
		}
		argNote = " with " + strings.Join(as, ", ")
		// make the witness self-contained: bind the operands in the chunk
		var vs []string
		for _, l := range ls {
			vs = append(vs, l.val.v.Lua())
		}
		src = strings.Replace(src, "= ...\n", "= "+strings.Join(vs, ", ")+"\n", 1)
	}
	r.violation(kind, sig, fmt.Sprintf("tree %s%s [%s]: golua gives %s, the manual gives %s\n--- chunk ---\n%s",
		cur.tree.prefix(func(n *node) string { return n.val.enc() }), argNote, cur.how(), got, want, src),
		witness{K: k, Src: src, Want: want})
}

// ---------------------------------------------------------------------------

func runExpr(c *vp.Child) {
	r := newRunner(c)
	defer r.close()
	n2 := shapeCount(2)
	for idx := int64(0); idx < n2; idx++ {
		if !c.Mine(int(idx)) {
			continue
		}
		r.tree(idx, shapeAt(idx, 2))
	}
	// flat chains `a op1 b op2 c op3 d` for every triple of binary operators: the
	// tree is the one the precedence and associativity table of §3.4.8 prescribes
	// (these are trees of depth 3 that the depth-2 enumeration does not reach)
	k := 0
	for _, o1 := range binOps {
		for _, o2 := range binOps {
			for _, o3 := range binOps {
				k++
				if !c.Mine(k) {
					continue
				}
				r.tree(int64(1)<<40+int64(k), chainShape([]string{o1.name, o2.name, o3.name}))
				c.Feature("operator-chains-of-3", 1)
			}
		}
	}
	if c.Thorough() {
		n3 := shapeCount(3)
		rnd := c.Rand("depth3")
		per := 200000 / c.NB
		for i := 0; i < per; i++ {
			idx := n2 + rnd.Int63n(n3-n2)
			r.tree(idx, shapeAt(idx, 3))
		}
	}
}

// chainShape builds the tree of `x0 ops[0] x1 ops[1] x2 ...` by precedence
// climbing over the table of §3.4.8.
func chainShape(ops []string) *node {
	pos := 0
	var parse func(minPrec int) *node
	parse = func(minPrec int) *node {
		lhs := &node{}
		for pos < len(ops) {
			op := binByName[ops[pos]]
			if op.prec < minPrec {
				break
			}
			pos++
			next := op.prec + 1
			if op.right {
				next = op.prec
			}
			rhs := parse(next)
			lhs = &node{op: op.name, kids: []*node{lhs, rhs}}
		}
		return lhs
	}
	return parse(0)
}

var renderPlan = []struct {
	extra float64
	style sepStyle
	ctx   int // -1 = random
}{
	{0, sepSpace, 0},
	{0, sepTight, -1},
	{0.35, sepBlank, -1},
	{0.35, sepComment, -1},
	{0, sepNewline, -1},
	{0, sepFlat, -1},
	{0.2, sepCRLF, -1},
}

func (r *runner) tree(idx int64, shape *node) {
	c := r.c
	rnd := rand.New(rand.NewSource(int64(vp.Hash("expr", fmt.Sprint(c.Seed), fmt.Sprint(idx)))))
	var ls []*node
	shape.leaves(&ls)
	nops := shape.nOps()
	if shape.op != "" {
		c.Feature("root-op:"+map[bool]string{true: "unary ", false: ""}[shape.un]+shape.op, 1)
	}
	c.Feature(fmt.Sprintf("trees-depth-%d", shape.depth()), 1)
	for _, mode := range []string{"lit", "var", "sym"} {
		// (reporting a violation renumbers the leaves of the sub-tree it reports)
		ls = ls[:0]
		shape.leaves(&ls)
		// choose the operands
		if mode == "sym" {
			// symbolic operands, a few plain ones mixed in; of three draws keep the
			// one whose term tells most alternative parses apart
			type symCand struct {
				vals       []mval
				alts, dist int
				score      float64
			}
			var best *symCand
			for t := 0; t < 3; t++ {
				for _, l := range ls {
					switch {
					case t == 2:
						l.val = mval{sym: true, id: l.idx, name: varNames[l.idx]}
					case rnd.Intn(8) == 0:
						l.val = plain(nm.I(int64(1 + rnd.Intn(3))))
					case rnd.Intn(8) == 0:
						l.val = plain([]nm.V{nm.S("s"), nm.B(true), nm.NilV, nm.B(false)}[rnd.Intn(4)])
					default:
						l.val = mval{sym: true, id: l.idx, name: varNames[l.idx]}
					}
				}
				o := modelOutcome(shape)
				cd := &symCand{}
				if o.st == nm.Skip {
					cd.score = -1
				} else {
					cd.alts, cd.dist = sensitivity(shape, o)
					cd.score = 1
					if cd.alts > 0 {
						cd.score = float64(cd.dist) / float64(cd.alts)
					}
					if o.st == nm.Err {
						cd.score -= 0.6
					}
				}
				for _, l := range ls {
					cd.vals = append(cd.vals, l.val)
				}
				if best == nil || cd.score > best.score {
					best = cd
				}
				if cd.score >= 1 {
					break
				}
			}
			for i, l := range ls {
				l.val = best.vals[i]
			}
			if o := modelOutcome(shape); o.st == nm.Err {
				c.Feature("sym: expected-error trees", 1)
			}
			c.Feature("sym: alternative parses of the same tokens", int64(best.alts))
			c.Feature("sym: alternative parses giving a different term/outcome", int64(best.dist))
		} else {
			type cand struct {
				vals       []mval
				score      float64
				alts, dist int
				o          outcome
			}
			var best *cand
			tries := 6
			if len(ls) > 4 {
				tries = 3
			}
			for t := 0; t < tries; t++ {
				assign(shape, wAny, mode == "lit", rnd)
				o := modelOutcome(shape)
				cd := &cand{o: o}
				switch o.st {
				case nm.Skip:
					cd.score = -1
				default:
					cd.alts, cd.dist = sensitivity(shape, o)
					if cd.alts > 0 {
						cd.score = float64(cd.dist) / float64(cd.alts)
					} else {
						cd.score = 1
					}
					if o.st == nm.Err {
						cd.score -= 0.6
					}
				}
				for _, l := range ls {
					cd.vals = append(cd.vals, l.val)
				}
				if best == nil || cd.score > best.score {
					best = cd
				}
				if cd.score >= 1 {
					break
				}
			}
			for i, l := range ls {
				l.val = best.vals[i]
			}
			if best.o.st == nm.Skip {
				c.Feature("model-skip (unspecified result)", 1)
				continue
			}
			if best.o.st == nm.Err {
				c.Feature("expected-error trees", 1)
			}
			c.Feature("alternative parses of the same tokens", int64(best.alts))
			c.Feature("alternative parses giving a different value", int64(best.dist))
		}
		var cases []*exprCase
		for k, rp := range renderPlan {
			if mode == "sym" && (k == 4 || k == 6) {
				continue
			}
			if !c.Thorough() && (k == 2 || k == 4 || k == 5) {
				continue // quick tier: 4 of the 7 renderings
			}
			ctx := rp.ctx
			if ctx < 0 {
				if mode == "sym" {
					ctx = rnd.Intn(12) // no truth-only contexts: the term is what is compared
				} else {
					ctx = rnd.Intn(len(exprCtxs))
				}
			}
			cases = append(cases, &exprCase{tree: shape, mode: mode, extra: rp.extra, style: rp.style, ctx: ctx, seed: rnd.Int63()})
		}
		bad, got, srcs, wants := r.runCases(fmt.Sprintf("expr %d %s", idx, mode), cases)
		c.Feature("renderings/"+mode, int64(len(cases)))
		if nops >= 2 {
			for _, s := range srcs {
				nontrivialHash(c, s)
			}
		}
		if len(bad) > 0 {
			// report the first failing rendering (minimised); further ones of the
			// same tree add nothing
			i := bad[0]
			r.report(cases[i], got[i], wants[i], srcs[i])
		}
		if c.WantSample() && nops >= 2 && mode != "var" && idx%97 == 0 {
			c.Sample(map[string]interface{}{"tree": shape.prefix(func(n *node) string { return n.val.enc() }), "mode": mode,
				"chunk": srcs[len(srcs)-2], "expected": wants[len(wants)-2], "observed": got[len(got)-2]})
		}
	}
}

// collectOps lists the operator nodes of a tree (outermost first).
func collectOps(n *node, out *[]*node) {
	if n.op == "" {
		return
	}
	*out = append(*out, n)
	for _, k := range n.kids {
		collectOps(k, out)
	}
}

// leafFor returns a single operand standing for the sub-tree: a fresh symbolic
// operand in sym mode, the sub-tree's value otherwise (when it has one that can
// be written down).
func leafFor(sub *node, mode string) (*node, bool) {
	if mode == "sym" {
		return &node{val: mval{sym: true}}, true
	}
	e := &evaluator{}
	v, st := e.eval(sub)
	if st != nm.Val || v.sym {
		return nil, false
	}
	if mode == "lit" {
		switch v.v.K {
		case nm.Int:
			if v.v.I < 0 {
				return nil, false
			}
		case nm.Float:
			if v.v.F < 0 || v.v.F != v.v.F || v.v.F > 1e300 || (v.v.F == 0 && 1/v.v.F < 0) {
				return nil, false
			}
		}
	}
	if v.v.K == nm.Float && (v.v.F != v.v.F || v.v.F > 1e300 || v.v.F < -1e300) {
		return nil, false
	}
	return &node{val: v}, true
}

func cloneReplacing(n, target, repl *node) *node {
	if n == target {
		return repl
	}
	c := *n
	c.kids = nil
	for _, k := range n.kids {
		c.kids = append(c.kids, cloneReplacing(k, target, repl))
	}
	return &c
}
