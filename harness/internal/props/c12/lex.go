package c12

// An independent tokenizer for Lua 5.4 written from §3.1 of the manual.  It is
// only used on the harness' own programs: to re-space them (any whitespace /
// comment sequence between two tokens), to decide whether two tokens may be
// written without a separator (maximal munch must give the same two tokens
// back), to re-spell literals and to place single-token corruptions on known
// lines.  It shares no code with golua's scanner.

import (
	"fmt"
	"strings"

	nm "verif/internal/numodel"
)

type tokKind int

const (
	tkName tokKind = iota
	tkKeyword
	tkNumber
	tkString     // short literal string, text includes the quotes
	tkLongString // long bracket, text includes the brackets
	tkOp
)

type tok struct {
	kind tokKind
	text string
}

var keywords = map[string]bool{
	"and": true, "break": true, "do": true, "else": true, "elseif": true, "end": true,
	"false": true, "for": true, "function": true, "goto": true, "if": true, "in": true,
	"local": true, "nil": true, "not": true, "or": true, "repeat": true, "return": true,
	"then": true, "true": true, "until": true, "while": true,
}

// longest first
var opTokens = []string{
	"...", "<<", ">>", "//", "==", "~=", "<=", ">=", "::", "..",
	"+", "-", "*", "/", "%", "^", "#", "&", "~", "|", "<", ">", "=",
	"(", ")", "{", "}", "[", "]", ";", ":", ",", ".",
}

func isAlpha(c byte) bool { return c == '_' || (c >= 'a' && c <= 'z') || (c >= 'A' && c <= 'Z') }
func isDigit(c byte) bool { return c >= '0' && c <= '9' }
func isXDigit(c byte) bool {
	return isDigit(c) || (c >= 'a' && c <= 'f') || (c >= 'A' && c <= 'F')
}
func isSpace(c byte) bool {
	return c == ' ' || c == '\t' || c == '\n' || c == '\r' || c == '\v' || c == '\f'
}

// longBracketAt returns the level of an opening long bracket at s[i:] and the
// index just after it, or -1.
func longBracketAt(s string, i int) (level, after int) {
	if i >= len(s) || s[i] != '[' {
		return -1, i
	}
	j := i + 1
	for j < len(s) && s[j] == '=' {
		j++
	}
	if j < len(s) && s[j] == '[' {
		return j - i - 1, j + 1
	}
	return -1, i
}

// lex splits src into tokens, skipping whitespace and comments.
func lex(src string) ([]tok, error) {
	var toks []tok
	i := 0
	for i < len(src) {
		c := src[i]
		switch {
		case isSpace(c):
			i++
		case c == '-' && i+1 < len(src) && src[i+1] == '-':
			i += 2
			if lvl, after := longBracketAt(src, i); lvl >= 0 {
				closer := "]" + strings.Repeat("=", lvl) + "]"
				k := strings.Index(src[after:], closer)
				if k < 0 {
					return nil, fmt.Errorf("unfinished long comment")
				}
				i = after + k + len(closer)
			} else {
				for i < len(src) && src[i] != '\n' && src[i] != '\r' {
					i++
				}
			}
		case isAlpha(c):
			j := i
			for j < len(src) && (isAlpha(src[j]) || isDigit(src[j])) {
				j++
			}
			w := src[i:j]
			if keywords[w] {
				toks = append(toks, tok{tkKeyword, w})
			} else {
				toks = append(toks, tok{tkName, w})
			}
			i = j
		case isDigit(c) || (c == '.' && i+1 < len(src) && isDigit(src[i+1])):
			// like the reference lexer: take every character that can belong to a
			// numeral (alphanumerics, '.', a sign after the exponent mark), then
			// the whole run has to be one numeral.
			j := i
			expo := "eE"
			if c == '0' && i+1 < len(src) && (src[i+1] == 'x' || src[i+1] == 'X') {
				expo = "pP"
				j = i + 2
			}
			for j < len(src) {
				ch := src[j]
				if strings.IndexByte(expo, ch) >= 0 {
					j++
					if j < len(src) && (src[j] == '+' || src[j] == '-') {
						j++
					}
				} else if isXDigit(ch) || ch == '.' || isAlpha(ch) {
					j++
				} else {
					break
				}
			}
			w := src[i:j]
			if _, st := nm.ParseNumeral(w); st == nm.Err {
				return nil, fmt.Errorf("malformed number %q", w)
			}
			toks = append(toks, tok{tkNumber, w})
			i = j
		case c == '"' || c == '\'':
			j := i + 1
			for {
				if j >= len(src) {
					return nil, fmt.Errorf("unfinished string")
				}
				ch := src[j]
				if ch == c {
					j++
					break
				}
				if ch == '\n' || ch == '\r' {
					return nil, fmt.Errorf("unfinished string (newline)")
				}
				if ch == '\\' {
					j++
					if j >= len(src) {
						return nil, fmt.Errorf("unfinished string")
					}
					if src[j] == 'z' {
						j++
						for j < len(src) && isSpace(src[j]) {
							j++
						}
						continue
					}
					if src[j] == '\r' && j+1 < len(src) && src[j+1] == '\n' {
						j++
					} else if src[j] == '\n' && j+1 < len(src) && src[j+1] == '\r' {
						j++
					}
				}
				j++
			}
			toks = append(toks, tok{tkString, src[i:j]})
			i = j
		default:
			if lvl, after := longBracketAt(src, i); lvl >= 0 {
				closer := "]" + strings.Repeat("=", lvl) + "]"
				k := strings.Index(src[after:], closer)
				if k < 0 {
					return nil, fmt.Errorf("unfinished long string")
				}
				j := after + k + len(closer)
				toks = append(toks, tok{tkLongString, src[i:j]})
				i = j
				continue
			}
			found := false
			for _, op := range opTokens {
				if strings.HasPrefix(src[i:], op) {
					toks = append(toks, tok{tkOp, op})
					i += len(op)
					found = true
					break
				}
			}
			if !found {
				return nil, fmt.Errorf("unexpected character %q", c)
			}
		}
	}
	return toks, nil
}

// safeJoin reports whether a and b may be written next to each other without
// a separator: tokenizing the concatenation has to give exactly a and b back.
func safeJoin(a, b string) bool {
	ts, err := lex(a + b)
	if err != nil || len(ts) != 2 {
		return false
	}
	return ts[0].text == a && ts[1].text == b
}

// countLines returns the number of end-of-line sequences in s (\n, \r, \r\n
// and \n\r each count once).
func countLines(s string) int {
	n := 0
	for i := 0; i < len(s); i++ {
		if s[i] == '\n' || s[i] == '\r' {
			if i+1 < len(s) && (s[i+1] == '\n' || s[i+1] == '\r') && s[i+1] != s[i] {
				i++
			}
			n++
		}
	}
	return n
}
