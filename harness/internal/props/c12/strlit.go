package c12

// Model of literal strings (§3.1 of the manual): decoding of short strings with
// every escape sequence, of long brackets, and encoders that produce different
// spellings of the same byte string.

import (
	"fmt"
	"math/rand"
	"strings"
)

// utf8Ext encodes a code point < 2^31 with the original (up to 6 byte) UTF-8
// scheme, as §3.1 prescribes for \u{XXX}.
func utf8Ext(x uint32) []byte {
	switch {
	case x < 0x80:
		return []byte{byte(x)}
	case x < 0x800:
		return []byte{0xC0 | byte(x>>6), 0x80 | byte(x&0x3F)}
	case x < 0x10000:
		return []byte{0xE0 | byte(x>>12), 0x80 | byte(x>>6&0x3F), 0x80 | byte(x&0x3F)}
	case x < 0x200000:
		return []byte{0xF0 | byte(x>>18), 0x80 | byte(x>>12&0x3F), 0x80 | byte(x>>6&0x3F), 0x80 | byte(x&0x3F)}
	case x < 0x4000000:
		return []byte{0xF8 | byte(x>>24), 0x80 | byte(x>>18&0x3F), 0x80 | byte(x>>12&0x3F), 0x80 | byte(x>>6&0x3F), 0x80 | byte(x&0x3F)}
	default:
		return []byte{0xFC | byte(x>>30), 0x80 | byte(x>>24&0x3F), 0x80 | byte(x>>18&0x3F), 0x80 | byte(x>>12&0x3F), 0x80 | byte(x>>6&0x3F), 0x80 | byte(x&0x3F)}
	}
}

// decodeShort decodes a complete short literal string (with its quotes).  ok is
// false when the text is not a valid literal string.
func decodeShort(lit string) (val []byte, ok bool) {
	if len(lit) < 2 {
		return nil, false
	}
	q := lit[0]
	if q != '"' && q != '\'' {
		return nil, false
	}
	i := 1
	for {
		if i >= len(lit) {
			return nil, false
		}
		c := lit[i]
		if c == q {
			return val, i == len(lit)-1
		}
		if c == '\n' || c == '\r' {
			return nil, false
		}
		if c != '\\' {
			val = append(val, c)
			i++
			continue
		}
		i++
		if i >= len(lit) {
			return nil, false
		}
		e := lit[i]
		i++
		switch e {
		case 'a':
			val = append(val, 7)
		case 'b':
			val = append(val, 8)
		case 'f':
			val = append(val, 12)
		case 'n':
			val = append(val, 10)
		case 'r':
			val = append(val, 13)
		case 't':
			val = append(val, 9)
		case 'v':
			val = append(val, 11)
		case '\\', '"', '\'':
			val = append(val, e)
		case '\n', '\r':
			// a backslash followed by a line break results in a newline
			if i < len(lit) && (lit[i] == '\n' || lit[i] == '\r') && lit[i] != e {
				i++
			}
			val = append(val, '\n')
		case 'z':
			for i < len(lit) && isSpace(lit[i]) {
				i++
			}
		case 'x':
			if i+2 > len(lit) || !isXDigit(lit[i]) || !isXDigit(lit[i+1]) {
				return nil, false
			}
			val = append(val, byte(hexv(lit[i])<<4|hexv(lit[i+1])))
			i += 2
		case 'u':
			if i >= len(lit) || lit[i] != '{' {
				return nil, false
			}
			i++
			var x uint64
			n := 0
			for i < len(lit) && isXDigit(lit[i]) {
				x = x<<4 | uint64(hexv(lit[i]))
				if x >= 1<<31 {
					return nil, false
				}
				i++
				n++
			}
			if n == 0 || i >= len(lit) || lit[i] != '}' {
				return nil, false
			}
			i++
			val = append(val, utf8Ext(uint32(x))...)
		default:
			if !isDigit(e) {
				return nil, false
			}
			x := int(e - '0')
			for k := 0; k < 2 && i < len(lit) && isDigit(lit[i]); k++ {
				x = x*10 + int(lit[i]-'0')
				i++
			}
			if x > 255 {
				return nil, false
			}
			val = append(val, byte(x))
		}
	}
}

func hexv(c byte) int {
	switch {
	case c >= '0' && c <= '9':
		return int(c - '0')
	case c >= 'a' && c <= 'f':
		return int(c-'a') + 10
	}
	return int(c-'A') + 10
}

// normEOL converts every end-of-line sequence to "\n".
func normEOL(s string) string {
	var b strings.Builder
	for i := 0; i < len(s); i++ {
		if s[i] == '\n' || s[i] == '\r' {
			if i+1 < len(s) && (s[i+1] == '\n' || s[i+1] == '\r') && s[i+1] != s[i] {
				i++
			}
			b.WriteByte('\n')
		} else {
			b.WriteByte(s[i])
		}
	}
	return b.String()
}

// decodeLong decodes a complete long bracket literal.
func decodeLong(lit string) (string, bool) {
	lvl, after := longBracketAt(lit, 0)
	if lvl < 0 {
		return "", false
	}
	closer := "]" + strings.Repeat("=", lvl) + "]"
	k := strings.Index(lit[after:], closer)
	if k < 0 || after+k+len(closer) != len(lit) {
		return "", false
	}
	body := normEOL(lit[after : after+k])
	if strings.HasPrefix(body, "\n") {
		body = body[1:]
	}
	return body, true
}

// decodeStringToken decodes either kind of string token.
func decodeStringToken(t tok) (string, bool) {
	if t.kind == tkLongString {
		return decodeLong(t.text)
	}
	v, ok := decodeShort(t.text)
	return string(v), ok
}

// longOK reports whether content can be the body of a long bracket of the
// given level (the closing bracket must not occur earlier).
func longOK(content string, level int) bool {
	closer := "]" + strings.Repeat("=", level) + "]"
	return strings.Index(content+closer, closer) == len(content)
}

// spellString writes the byte string val as a literal in a random spelling.
// style: 0 plain escapes where needed, 1 decimal escapes, 2 hex escapes,
// 3 long bracket when possible, 4 mixed.
func spellString(val string, r *rand.Rand) string {
	style := r.Intn(5)
	if style == 3 {
		// long bracket: only when the value has no \r (it would be normalised)
		// and does not start with a newline we could not protect.
		if !strings.Contains(val, "\r") {
			for lvl := r.Intn(3); lvl < 6; lvl++ {
				if longOK(val, lvl) {
					eq := strings.Repeat("=", lvl)
					nl := ""
					if strings.HasPrefix(val, "\n") || r.Intn(3) == 0 {
						nl = []string{"\n", "\r\n", "\r", "\n\r"}[r.Intn(4)]
						if nl == "\r" && strings.HasPrefix(val, "\n") {
							nl = "\n" // "\r" + "\n" would be a single line break
						}
					}
					return "[" + eq + "[" + nl + val + "]" + eq + "]"
				}
			}
		}
		style = 4
	}
	q := byte('"')
	if r.Intn(2) == 0 {
		q = '\''
	}
	var b strings.Builder
	b.WriteByte(q)
	for i := 0; i < len(val); i++ {
		c := val[i]
		nextDigit := i+1 < len(val) && isDigit(val[i+1])
		nextHex := i+1 < len(val) && isXDigit(val[i+1])
		_ = nextHex
		s := style
		if s == 4 {
			s = r.Intn(3)
		}
		plainOK := c >= 0x20 && c != 0x7f && c != q && c != '\\' || c >= 0x80
		switch {
		case s == 0 && plainOK:
			b.WriteByte(c)
		case s == 0 && c == '\n':
			if r.Intn(2) == 0 {
				b.WriteString("\\n")
			} else {
				b.WriteString("\\" + []string{"\n", "\r\n", "\r", "\n\r"}[r.Intn(4)])
			}
		case s == 0 && (c == q || c == '\\'):
			b.WriteByte('\\')
			b.WriteByte(c)
		case s == 0 && c == '\t':
			if r.Intn(2) == 0 {
				b.WriteString("\\t")
			} else {
				b.WriteByte('\t')
			}
		case s == 1 || (s == 0 && !plainOK):
			if nextDigit {
				fmt.Fprintf(&b, "\\%03d", c)
			} else {
				switch r.Intn(3) {
				case 0:
					fmt.Fprintf(&b, "\\%d", c)
				case 1:
					fmt.Fprintf(&b, "\\%03d", c)
				default:
					fmt.Fprintf(&b, "\\%02d", c)
				}
			}
		default:
			if r.Intn(2) == 0 {
				fmt.Fprintf(&b, "\\x%02x", c)
			} else {
				fmt.Fprintf(&b, "\\x%02X", c)
			}
		}
		// \z skips the following whitespace: never put it before a character
		// of the value that is itself whitespace
		if r.Intn(12) == 0 && (i+1 >= len(val) || !isSpace(val[i+1])) {
			b.WriteString("\\z" + []string{"", " ", "\n", " \t\r\n ", "\n\n"}[r.Intn(5)])
		}
	}
	b.WriteByte(q)
	return b.String()
}
