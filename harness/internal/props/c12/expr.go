package c12

// Expression trees over every operator of Lua 5.4, their rendering with the
// minimal parentheses required by the precedence table of §3.4.8, and their
// value under an independent model:
//   - plain operands (numbers, strings, booleans, nil) through numodel;
//   - symbolic operands (tables whose metamethods build a term describing the
//     operation that was applied), for which the result spells out the shape of
//     the tree the compiler built, so that any regrouping is visible.

import (
	"math"
	"math/rand"
	"sort"
	"strconv"
	"strings"

	nm "verif/internal/numodel"
)

type opInfo struct {
	name  string
	prec  int
	right bool
	mm    string // metamethod event name
}

const unaryPrec = 11

// §3.4.8, from lower to higher priority.
var binOps = []opInfo{
	{"or", 1, false, ""}, {"and", 2, false, ""},
	{"<", 3, false, "lt"}, {">", 3, false, "lt"}, {"<=", 3, false, "le"}, {">=", 3, false, "le"}, {"~=", 3, false, "eq"}, {"==", 3, false, "eq"},
	{"|", 4, false, "bor"}, {"~", 5, false, "bxor"}, {"&", 6, false, "band"},
	{"<<", 7, false, "shl"}, {">>", 7, false, "shr"},
	{"..", 8, true, "concat"},
	{"+", 9, false, "add"}, {"-", 9, false, "sub"},
	{"*", 10, false, "mul"}, {"/", 10, false, "div"}, {"//", 10, false, "idiv"}, {"%", 10, false, "mod"},
	{"^", 12, true, "pow"},
}

var unOps = []opInfo{
	{"not", unaryPrec, false, ""}, {"#", unaryPrec, false, "len"}, {"-", unaryPrec, false, "unm"}, {"~", unaryPrec, false, "bnot"},
}

var binByName = func() map[string]opInfo {
	m := map[string]opInfo{}
	for _, o := range binOps {
		m[o.name] = o
	}
	return m
}()

var unByName = func() map[string]opInfo {
	m := map[string]opInfo{}
	for _, o := range unOps {
		m[o.name] = o
	}
	return m
}()

type node struct {
	op   string // "" for a leaf
	un   bool
	kids []*node
	// leaf
	idx int    // position, left to right
	val mval   // value of the leaf
	lit string // literal spelling (literal mode), "" = use the variable
	// atom: an opaque parenthesised sub-tree (only in alternative parses)
	atom *node
}

func (n *node) leaf() bool { return n.op == "" && n.atom == nil }

// shapeCount[d] = number of tree shapes of depth <= d.
func shapeCount(d int) int64 {
	if d == 0 {
		return 1
	}
	t := shapeCount(d - 1)
	return 1 + int64(len(unOps))*t + int64(len(binOps))*t*t
}

// shapeAt decodes the idx-th shape of depth <= d.
func shapeAt(idx int64, d int) *node {
	if idx == 0 || d == 0 {
		return &node{}
	}
	idx--
	t := shapeCount(d - 1)
	if idx < int64(len(unOps))*t {
		return &node{op: unOps[idx/t].name, un: true, kids: []*node{shapeAt(idx%t, d-1)}}
	}
	idx -= int64(len(unOps)) * t
	op := binOps[idx/(t*t)]
	rem := idx % (t * t)
	return &node{op: op.name, kids: []*node{shapeAt(rem/t, d-1), shapeAt(rem%t, d-1)}}
}

func (n *node) leaves(out *[]*node) {
	if n.atom != nil {
		n.atom.leaves(out)
		return
	}
	if n.op == "" {
		n.idx = len(*out)
		*out = append(*out, n)
		return
	}
	for _, k := range n.kids {
		k.leaves(out)
	}
}

func (n *node) nOps() int {
	if n.atom != nil {
		return n.atom.nOps()
	}
	if n.op == "" {
		return 0
	}
	c := 1
	for _, k := range n.kids {
		c += k.nOps()
	}
	return c
}

func (n *node) depth() int {
	if n.atom != nil {
		return n.atom.depth()
	}
	if n.op == "" {
		return 0
	}
	d := 0
	for _, k := range n.kids {
		if kd := k.depth(); kd > d {
			d = kd
		}
	}
	return d + 1
}

// prefix is a canonical structural form: operators and leaf positions.
func (n *node) prefix(leafName func(*node) string) string {
	if n.atom != nil {
		return n.atom.prefix(leafName)
	}
	if n.op == "" {
		return leafName(n)
	}
	var b strings.Builder
	b.WriteByte('(')
	if n.un {
		b.WriteString("u")
	}
	b.WriteString(n.op)
	for _, k := range n.kids {
		b.WriteByte(' ')
		b.WriteString(k.prefix(leafName))
	}
	b.WriteByte(')')
	return b.String()
}

func byIndex(n *node) string { return "$" + strconv.Itoa(n.idx) }

// leafClass names the kind of a leaf for signatures.
func leafClass(n *node) string {
	if n.val.sym {
		return "Y"
	}
	switch n.val.v.K {
	case nm.Int:
		return "I"
	case nm.Float:
		return "F"
	case nm.Str:
		return "S"
	case nm.Bool:
		return "B"
	}
	return "N"
}

// ---------------------------------------------------------------------------
// Rendering

var varNames = []string{"a", "b", "c", "d", "e", "f", "g", "h"}

func prec(n *node) int {
	if n.un {
		return unaryPrec
	}
	return binByName[n.op].prec
}

// needParens says whether child must be parenthesised as operand `side`
// (0 left, 1 right) of parent.
func needParens(parent, child *node, side int) bool {
	if child.op == "" {
		return false
	}
	if parent.un {
		// unary operators bind tighter than every binary operator except ^
		return !child.un && prec(child) < unaryPrec
	}
	p := binByName[parent.op]
	if child.un {
		// as the right operand a unary expression never needs parentheses; as
		// the left operand it does when the parent binds tighter (only ^)
		return side == 0 && p.prec > unaryPrec
	}
	c := binByName[child.op]
	if c.prec != p.prec {
		return c.prec < p.prec
	}
	if p.right {
		return side == 0
	}
	return side == 1
}

// render returns the token sequence of the tree.  extra is the probability of
// redundant parentheses around any sub-expression (0 = minimal rendering).
func (n *node) render(extra float64, r *rand.Rand, out *[]string) {
	wrap := 0
	if extra > 0 && r.Float64() < extra {
		wrap = 1 + r.Intn(2)
	}
	for i := 0; i < wrap; i++ {
		*out = append(*out, "(")
	}
	switch {
	case n.atom != nil:
		*out = append(*out, "(")
		n.atom.render(extra, r, out)
		*out = append(*out, ")")
	case n.op == "":
		if n.lit != "" {
			*out = append(*out, n.lit)
		} else {
			*out = append(*out, varNames[n.idx])
		}
	case n.un:
		*out = append(*out, n.op)
		n.renderKid(0, 1, extra, r, out)
	default:
		n.renderKid(0, 0, extra, r, out)
		*out = append(*out, n.op)
		n.renderKid(1, 1, extra, r, out)
	}
	for i := 0; i < wrap; i++ {
		*out = append(*out, ")")
	}
}

func (n *node) renderKid(i, side int, extra float64, r *rand.Rand, out *[]string) {
	k := n.kids[i]
	if needParens(n, k, side) {
		*out = append(*out, "(")
		k.render(extra, r, out)
		*out = append(*out, ")")
		return
	}
	k.render(extra, r, out)
}

// ---------------------------------------------------------------------------
// Model values and evaluation

type mval struct {
	sym  bool
	id   int    // identity of a symbolic value
	name string // term of a symbolic value
	v    nm.V
}

func plain(v nm.V) mval { return mval{v: v} }

func (m mval) enc() string {
	if m.sym {
		return m.name
	}
	return m.v.Enc()
}

func (m mval) truthy() bool {
	if m.sym {
		return true
	}
	return !(m.v.K == nm.Nil || (m.v.K == nm.Bool && !m.v.B))
}

type evaluator struct {
	log    []string
	nextID int
}

func (e *evaluator) newSym(name string) mval {
	e.nextID++
	return mval{sym: true, id: 1000 + e.nextID, name: name}
}

func term(op string, l, r string) string { return "(" + op + " " + l + " " + r + ")" }

func (e *evaluator) eval(n *node) (mval, nm.Status) {
	if n.atom != nil {
		return e.eval(n.atom)
	}
	if n.op == "" {
		return n.val, nm.Val
	}
	if n.un {
		x, st := e.eval(n.kids[0])
		if st != nm.Val {
			return x, st
		}
		return e.unary(n.op, x)
	}
	switch n.op {
	case "and", "or":
		l, st := e.eval(n.kids[0])
		if st != nm.Val {
			return l, st
		}
		if l.truthy() == (n.op == "or") {
			return l, nm.Val
		}
		return e.eval(n.kids[1])
	}
	l, st := e.eval(n.kids[0])
	if st != nm.Val {
		return l, st
	}
	r, st := e.eval(n.kids[1])
	if st != nm.Val {
		return r, st
	}
	return e.binary(n.op, l, r)
}

func (e *evaluator) unary(op string, x mval) (mval, nm.Status) {
	if op == "not" {
		return plain(nm.B(!x.truthy())), nm.Val
	}
	if x.sym {
		return e.newSym(term(unByName[op].mm, x.name, "n")), nm.Val
	}
	switch op {
	case "-":
		if openNumeral(x.v) {
			return mval{}, nm.Skip
		}
		v, st := nm.Unm(x.v)
		return plain(v), st
	case "~":
		v, st := nm.BNot(x.v)
		return plain(v), st
	case "#":
		if x.v.K == nm.Str {
			return plain(nm.I(int64(len(x.v.S)))), nm.Val
		}
		return mval{}, nm.Err
	}
	return mval{}, nm.Skip
}

func (e *evaluator) binary(op string, l, r mval) (mval, nm.Status) {
	info := binByName[op]
	anySym := l.sym || r.sym
	switch info.mm {
	case "eq":
		var eq bool
		switch {
		case l.sym && r.sym:
			if l.id == r.id {
				eq = true
			} else {
				// __eq is tried only when both operands are tables that are not
				// primitively equal; the harness' metamethod returns 1 (true)
				e.log = append(e.log, term("eq", l.name, r.name))
				eq = true
			}
		case anySym:
			eq = false
		default:
			v, st := nm.Compare("==", l.v, r.v)
			if st != nm.Val {
				return mval{}, st
			}
			eq = v.B
		}
		return plain(nm.B(eq == (op == "=="))), nm.Val
	case "lt", "le":
		if op == ">" || op == ">=" {
			l, r = r, l
		}
		if anySym {
			e.log = append(e.log, term(info.mm, l.enc(), r.enc()))
			// the harness' __lt returns a table (true), __le returns nil (false)
			return plain(nm.B(info.mm == "lt")), nm.Val
		}
		o := "<"
		if info.mm == "le" {
			o = "<="
		}
		v, st := nm.Compare(o, l.v, r.v)
		return plain(v), st
	}
	if anySym {
		return e.newSym(term(info.mm, l.enc(), r.enc())), nm.Val
	}
	switch op {
	case "+", "-", "*", "/", "//", "%", "^":
		if openNumeral(l.v) || openNumeral(r.v) {
			return mval{}, nm.Skip
		}
		v, st := nm.Arith(op, l.v, r.v)
		return plain(v), st
	case "&", "|", "~", "<<", ">>":
		v, st := nm.Bitwise(op, l.v, r.v)
		return plain(v), st
	case "..":
		ls, st := concatOperand(l.v)
		if st != nm.Val {
			return mval{}, st
		}
		rs, st := concatOperand(r.v)
		if st != nm.Val {
			return mval{}, st
		}
		return plain(nm.S(ls + rs)), nm.Val
	}
	return mval{}, nm.Skip
}

// openNumeral: a string that is a numeral by the lexical rules but whose value
// the manual leaves to the C library (outside the double range).  Arithmetic
// on it is not judged.
func openNumeral(v nm.V) bool {
	if v.K != nm.Str {
		return false
	}
	_, st := nm.StringToNumber(v.S)
	return st == nm.Skip
}

func concatOperand(v nm.V) (string, nm.Status) {
	switch v.K {
	case nm.Str:
		return v.S, nm.Val
	case nm.Int:
		return strconv.FormatInt(v.I, 10), nm.Val
	case nm.Float:
		return "", nm.Skip // float -> string format is not specified
	}
	return "", nm.Err
}

// outcome is what is compared with the real run: value, sorted log, or error.
type outcome struct {
	st  nm.Status
	enc string
	log string
}

func (o outcome) String() string {
	switch o.st {
	case nm.Err:
		return "error"
	case nm.Skip:
		return "unspecified"
	}
	if o.log != "" {
		return o.enc + " calls[" + o.log + "]"
	}
	return o.enc
}

func modelOutcome(n *node) outcome {
	e := &evaluator{}
	v, st := e.eval(n)
	if st != nm.Val {
		return outcome{st: st}
	}
	sort.Strings(e.log)
	return outcome{st: nm.Val, enc: v.enc(), log: strings.Join(e.log, ";")}
}

// ---------------------------------------------------------------------------
// Alternative parses of the same token sequence (for the sensitivity measure)

type item struct {
	op   string // "" = operand
	node *node
}

// flatten gives the in-order item sequence of the minimal rendering: operands
// are leaves or parenthesised sub-trees (opaque atoms).
func flatten(n *node, out *[]item) {
	switch {
	case n.op == "" || n.atom != nil:
		*out = append(*out, item{node: n})
	case n.un:
		*out = append(*out, item{op: n.op})
		flattenKid(n, 0, 1, out)
	default:
		flattenKid(n, 0, 0, out)
		*out = append(*out, item{op: n.op})
		flattenKid(n, 1, 1, out)
	}
}

func flattenKid(n *node, i, side int, out *[]item) {
	k := n.kids[i]
	if needParens(n, k, side) {
		*out = append(*out, item{node: &node{atom: k}})
		return
	}
	flatten(k, out)
}

// allParses enumerates every tree over items[i:j] of the ambiguous grammar
// exp ::= exp binop exp | unop exp | operand, up to limit trees.
func allParses(items []item, i, j int, limit int, memo map[[2]int][]*node) []*node {
	key := [2]int{i, j}
	if v, ok := memo[key]; ok {
		return v
	}
	var res []*node
	if j-i == 1 {
		if items[i].op == "" {
			res = []*node{items[i].node}
		}
		memo[key] = res
		return res
	}
	if items[i].op != "" {
		if _, ok := unByName[items[i].op]; ok {
			for _, t := range allParses(items, i+1, j, limit, memo) {
				res = append(res, &node{op: items[i].op, un: true, kids: []*node{t}})
			}
		}
	}
	for k := i + 1; k < j-1 && len(res) < limit; k++ {
		if items[k].op == "" || items[k-1].op != "" {
			continue // not an operator in binary position
		}
		if _, ok := binByName[items[k].op]; !ok {
			continue
		}
		ls := allParses(items, i, k, limit, memo)
		if len(ls) == 0 {
			continue
		}
		rs := allParses(items, k+1, j, limit, memo)
		for _, l := range ls {
			for _, r := range rs {
				res = append(res, &node{op: items[k].op, kids: []*node{l, r}})
				if len(res) >= limit {
					break
				}
			}
		}
	}
	memo[key] = res
	return res
}

// sensitivity returns (number of other parses, number of those whose value
// differs from the intended tree's).
func sensitivity(n *node, want outcome) (alts, distinguished int) {
	var items []item
	flatten(n, &items)
	if len(items) > 9 {
		return 0, 0
	}
	me := n.prefix(byIndex)
	for _, t := range allParses(items, 0, len(items), 400, map[[2]int][]*node{}) {
		if t.prefix(byIndex) == me {
			continue
		}
		alts++
		o := modelOutcome(t)
		if o.st != want.st || o.enc != want.enc || o.log != want.log {
			distinguished++
		}
	}
	return
}

// ---------------------------------------------------------------------------
// Operand assignment (plain mode), directed by the type each position wants

type want int

const (
	wAny want = iota
	wNum
	wInt
	wSmall
	wStr
	wStrOrInt
	wBool
	wCmpNum // numbers only (no numeric strings): operands of an order comparison
)

var (
	intPool   = []int64{0, 1, 2, 3, 5, 7, 10, 12, 13, 100, 255, 1 << 31, 1<<53 + 1, math.MaxInt64}
	negPool   = []int64{-1, -2, -3, -7, -13, math.MinInt64}
	floatPool = []float64{0.5, 1.5, 2.0, 0.25, 3.0, 100, 0.1, 2.5, 7.0, 1e15}
	strPool   = []string{"a", "b", "ab", "", "10", "2", "abc", "0x10", "1e1"}
	numStrs   = []string{"10", "2", "0x10", "1e1", " 5 "}
)

// assign gives every leaf of n a plain value.  lits: values must be writable
// as a single literal token (no negative numbers).
func assign(n *node, w want, lits bool, r *rand.Rand) {
	if n.op == "" {
		n.val = plain(leafValue(w, lits, r))
		return
	}
	if n.un {
		switch n.op {
		case "not":
			assign(n.kids[0], wAny, lits, r)
		case "#":
			assign(n.kids[0], wStr, lits, r)
		case "-":
			if w == wInt || w == wSmall || w == wStr || w == wStrOrInt {
				assign(n.kids[0], wInt, lits, r)
			} else {
				assign(n.kids[0], wNum, lits, r)
			}
		case "~":
			assign(n.kids[0], wInt, lits, r)
		}
		return
	}
	l, rr := n.kids[0], n.kids[1]
	switch n.op {
	case "and", "or":
		assign(l, w, lits, r)
		assign(rr, w, lits, r)
	case "==", "~=":
		cw := []want{wNum, wNum, wStr, wBool, wAny, wInt}[r.Intn(6)]
		assign(l, cw, lits, r)
		assign(rr, cw, lits, r)
	case "<", ">", "<=", ">=":
		cw := wCmpNum
		if producesString(l) || producesString(rr) || (!producesNumber(l) && !producesNumber(rr) && r.Intn(4) == 0) {
			cw = wStr
		}
		assign(l, cw, lits, r)
		assign(rr, cw, lits, r)
	case "..":
		assign(l, wStrOrInt, lits, r)
		assign(rr, wStrOrInt, lits, r)
	case "&", "|", "~":
		assign(l, wInt, lits, r)
		assign(rr, wInt, lits, r)
	case "<<", ">>":
		assign(l, wInt, lits, r)
		assign(rr, wSmall, lits, r)
	case "^":
		assign(l, wSmall, lits, r)
		assign(rr, wSmall, lits, r)
	case "/":
		assign(l, wNum, lits, r)
		assign(rr, wNum, lits, r)
	default: // + - * // %
		cw := wNum
		if w == wInt || w == wSmall || w == wStrOrInt || w == wStr {
			cw = wInt // keep the result an integer where it will be turned into a string
		}
		assign(l, cw, lits, r)
		assign(rr, cw, lits, r)
	}
}

func producesString(n *node) bool { return n.op == ".." }
func producesNumber(n *node) bool {
	switch n.op {
	case "", "and", "or", "..", "not", "==", "~=", "<", ">", "<=", ">=":
		return false
	}
	return true
}

func leafValue(w want, lits bool, r *rand.Rand) nm.V {
	pickInt := func() nm.V {
		if !lits && r.Intn(4) == 0 {
			return nm.I(negPool[r.Intn(len(negPool))])
		}
		if r.Intn(3) > 0 {
			return nm.I(int64(1 + r.Intn(13)))
		}
		return nm.I(intPool[r.Intn(len(intPool))])
	}
	pickFloat := func() nm.V {
		f := floatPool[r.Intn(len(floatPool))]
		if !lits && r.Intn(4) == 0 {
			f = -f
		}
		return nm.F(f)
	}
	pickStr := func() nm.V { return nm.S(strPool[r.Intn(len(strPool))]) }
	pickBool := func() nm.V {
		switch r.Intn(3) {
		case 0:
			return nm.B(true)
		case 1:
			return nm.B(false)
		}
		return nm.NilV
	}
	switch w {
	case wInt:
		return pickInt()
	case wSmall:
		return nm.I(int64(r.Intn(5)))
	case wNum, wCmpNum:
		switch r.Intn(10) {
		case 0, 1, 2:
			return pickFloat()
		case 3:
			if w == wNum {
				return nm.S(numStrs[r.Intn(len(numStrs))])
			}
		}
		return pickInt()
	case wStr:
		return pickStr()
	case wStrOrInt:
		if r.Intn(2) == 0 {
			return pickInt()
		}
		return pickStr()
	case wBool:
		return pickBool()
	}
	switch r.Intn(5) {
	case 0:
		return pickInt()
	case 1:
		return pickFloat()
	case 2:
		return pickStr()
	default:
		return pickBool()
	}
}

// spellLeaf writes a plain value as one literal token in a random spelling
// that denotes exactly that value.
func spellLeaf(v nm.V, r *rand.Rand) string {
	switch v.K {
	case nm.Int:
		var s string
		switch r.Intn(4) {
		case 0:
			s = "0x" + strconv.FormatInt(v.I, 16)
		case 1:
			s = "0X" + strings.ToUpper(strconv.FormatInt(v.I, 16))
		case 2:
			s = "0" + strconv.FormatInt(v.I, 10)
		default:
			s = strconv.FormatInt(v.I, 10)
		}
		if got, st := nm.ParseNumeral(s); st == nm.Val && got.Enc() == v.Enc() {
			return s
		}
		return strconv.FormatInt(v.I, 10)
	case nm.Float:
		var s string
		switch r.Intn(4) {
		case 0:
			s = strconv.FormatFloat(v.F, 'x', -1, 64)
		case 1:
			s = strconv.FormatFloat(v.F, 'e', -1, 64)
		case 2:
			s = strconv.FormatFloat(v.F, 'f', -1, 64)
			if !strings.Contains(s, ".") {
				s += []string{".", ".0", ".00"}[r.Intn(3)]
			} else if strings.HasPrefix(s, "0.") && r.Intn(2) == 0 {
				s = s[1:]
			}
		default:
			s = strings.ToUpper(strconv.FormatFloat(v.F, 'e', 17, 64))
		}
		if got, st := nm.ParseNumeral(s); st == nm.Val && got.Enc() == v.Enc() {
			return s
		}
		return strconv.FormatFloat(v.F, 'x', -1, 64)
	case nm.Str:
		return spellString(v.S, r)
	case nm.Bool:
		if v.B {
			return "true"
		}
		return "false"
	}
	return "nil"
}
