package c12

import (
	"math/rand"
	"strings"
)

// Separators that may stand between any two tokens.
var (
	blanks     = []string{" ", " ", " ", "\t", "  ", "\n", "\n", "\r\n", "\r", "\n\r", "\f", "\v", " \n ", "\n\n"}
	blanksFlat = []string{" ", " ", "\t", "  ", "\f", "\v"}
	comments   = []string{
		"--\n", "-- c\n", "--[\n", "--[=\n", "--[==x\n", "--]]\n", "-- [[ \n", "--c\r\n", "--c\r", "--[=x[\n", "---\n", "--[ [\n",
		"--[[]]", "--[[ c ]]", "--[==[ ]] ]=] ]==]", "--[[\n\n]]", "--[=[\r\n]=]", "--[[ -- ]]", "--[[ [[ ]]", "--[===[]===]",
		"--[[ ]=] ]]", "--[=[ ]] ]=]", "--[[\"]]", "--[[\r]]", "--[[--[[]]",
	}
	commentsFlat = []string{"--[[]]", "--[[ c ]]", "--[==[ ]] ]=] ]==]", "--[[ -- ]]", "--[[ [[ ]]", "--[===[]===]", "--[[ ]=] ]]", "--[=[ ]] ]=]", "--[[\"]]", "--[[--[[]]"}
)

// sepStyle selects the separator distribution.
type sepStyle int

const (
	sepSpace   sepStyle = iota // single spaces
	sepTight                   // nothing where the lexical rules allow it
	sepBlank                   // random whitespace including line breaks
	sepComment                 // random whitespace and comments
	sepFlat                    // random whitespace/comments without line breaks
	sepNewline                 // every token on its own line
	sepCRLF                    // every token on its own line, \r\n
)

// joinTokens writes the tokens with separators of the given style.  A
// separator is only used when the harness' own tokenizer gets the two
// neighbouring tokens back unchanged; otherwise a space is used.
func joinTokens(ts []string, style sepStyle, r *rand.Rand) string {
	var b strings.Builder
	lead := func() string {
		switch style {
		case sepComment:
			if r.Intn(3) == 0 {
				return pickSep(style, r)
			}
		case sepBlank:
			if r.Intn(3) == 0 {
				return blanks[r.Intn(len(blanks))]
			}
		}
		return ""
	}
	b.WriteString(lead())
	for i, t := range ts {
		if i > 0 {
			prev := ts[i-1]
			s := pickSep(style, r)
			if !sepOK(prev, s, t) {
				s = " "
			}
			b.WriteString(s)
		}
		b.WriteString(t)
	}
	if len(ts) > 0 {
		// trailing trivia: anything that is a separator before a harmless token
		s := lead()
		if s != "" && sepOK(ts[len(ts)-1], s, "x") {
			b.WriteString(s)
		}
	}
	return b.String()
}

func pickSep(style sepStyle, r *rand.Rand) string {
	switch style {
	case sepSpace:
		return " "
	case sepTight:
		return ""
	case sepBlank:
		return blanks[r.Intn(len(blanks))]
	case sepNewline:
		return "\n"
	case sepCRLF:
		return "\r\n"
	case sepFlat:
		if r.Intn(3) == 0 {
			return blanksFlat[r.Intn(len(blanksFlat))] + commentsFlat[r.Intn(len(commentsFlat))] + blanksFlat[r.Intn(len(blanksFlat))]
		}
		return blanksFlat[r.Intn(len(blanksFlat))]
	default:
		switch r.Intn(4) {
		case 0:
			return blanks[r.Intn(len(blanks))] + comments[r.Intn(len(comments))] + pickTail(r)
		case 1:
			return comments[r.Intn(len(comments))]
		default:
			return blanks[r.Intn(len(blanks))]
		}
	}
}

func pickTail(r *rand.Rand) string {
	if r.Intn(2) == 0 {
		return ""
	}
	return blanks[r.Intn(len(blanks))]
}

func sepOK(prev, sep, next string) bool {
	ts, err := lex(prev + sep + next)
	return err == nil && len(ts) == 2 && ts[0].text == prev && ts[1].text == next
}
