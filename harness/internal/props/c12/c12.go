// Package c12 checks property C12 (the front end accepts Lua 5.4 syntax and
// decodes it faithfully).  Every case is a piece of source text produced by the
// harness' own generators and renderers, compiled and run by the real scanner,
// parser, compiler and VM; the observed value (type and exact bits), the
// acceptance / rejection and the line of a syntax error are compared with what
// an independent model written from the reference manual says.
package c12

import (
	"encoding/json"
	"fmt"
	"regexp"
	"runtime/debug"
	"strconv"
	"strings"

	rt "github.com/arnodel/golua/runtime"

	"verif/internal/gl"
	"verif/internal/vp"
)

type Prop struct{}

func (Prop) ID() string { return "C12" }

func (Prop) Plan(t vp.Tier) []vp.Stage {
	return []vp.Stage{
		{Name: "expr", NBatches: 32, TimeoutS: 1500},
		{Name: "literals", NBatches: 16, TimeoutS: 900},
		{Name: "stmts", NBatches: 16, TimeoutS: 900},
		{Name: "errline", NBatches: 16, TimeoutS: 900},
	}
}

func (Prop) Describe(t vp.Tier) vp.Description {
	return vp.Description{
		Rule: "A case is one source text compiled (and, when its behaviour is determined, run) by golua's scanner, parser, compiler and VM, " +
			"compared with an independent model written from the manual: (expr) every expression tree of depth <= 2 (thorough: plus a sample of depth 3) over all 21 binary and 4 unary operators, " +
			"rendered with the minimal parentheses of the precedence table and with random redundant parentheses / whitespace / comments / line breaks / literal spellings, " +
			"once with plain operands (value = numodel's, type and exact bits; operands chosen to maximise the number of alternative parses of the same token sequence that give a different value) " +
			"and once with symbolic operands whose metamethods record the tree that was built; (literals) numerals, short strings with every escape, long brackets, comments against the lexical rules of §3.1, invalid escapes must be rejected; " +
			"(stmts) a corpus of chunks covering every production of the grammar of §9, each in many equivalent spellings, must be accepted and return the expected values, including the multi-value adjustment rules; " +
			"(errline) single-token corruptions whose offending token is determined must be rejected by load with that token's line. " +
			"A case is counted non-trivial when its source text is distinct (by hash) and contains at least two operators, or a literal with an escape / exponent / hex digits / long bracket / >= 10 digits, " +
			"or is a re-spelling of a corpus chunk, or a corruption.",
		Assumptions: []string{
			"the harness' tokenizer, renderer, literal decoders and numodel are a correct reading of the Lua 5.4 manual (§3.1, §3.4.8, §9)",
			"where the manual leaves a result open (float to string conversion, pow on inexact results, numerals outside the double range, string order outside lower-case ASCII/digits, the line of an unfinished multi-line token) no verdict is given or both readings are accepted",
			"the expected values of the statement corpus were written by hand from the manual",
			"held on the trees / spellings / corruptions enumerated or sampled, not on all programs",
		},
		Floor: map[vp.Tier]int64{vp.Quick: 60000, vp.Thorough: 600000}[t],
		Extra: map[string]interface{}{"shapes_depth2": shapeCount(2), "shapes_depth3": shapeCount(3), "corpus_chunks": len(corpus())},
	}
}

func (Prop) RunBatch(c *vp.Child) {
	switch c.Stage {
	case "expr":
		runExpr(c)
	case "literals":
		runLiterals(c)
	case "stmts":
		runStmts(c)
	case "errline":
		runErrLine(c)
	}
}

// ---------------------------------------------------------------------------
// The runner: one golua session reused for many chunks.

const prelude = `
E = "\0ERR"
function P(f, ...) local ok, r = pcall(f, ...) if ok then return r end return E end
function PN(f, ...) return select('#', f(...)), f(...) end
local mt = {}
local function S(op, a, b) return setmetatable({op = op, l = a, r = b}, mt) end
local function binary(n) mt["__" .. n] = function(a, b) return S(n, a, b) end end
binary "add" binary "sub" binary "mul" binary "div" binary "mod" binary "pow" binary "idiv"
binary "band" binary "bor" binary "bxor" binary "shl" binary "shr" binary "concat"
mt.__unm = function(a) return S("unm", a) end
mt.__bnot = function(a) return S("bnot", a) end
mt.__len = function(a) return S("len", a) end
local LOG = {}
mt.__lt = function(a, b) LOG[#LOG + 1] = S("lt", a, b) return LOG end
mt.__le = function(a, b) LOG[#LOG + 1] = S("le", a, b) return nil end
mt.__eq = function(a, b) LOG[#LOG + 1] = S("eq", a, b) return 1 end
function L(name) return setmetatable({name = name}, mt) end
function RUN(f) LOG = {} local ok, r = pcall(f) local res = {ok = ok, r = r, log = LOG} LOG = {} return res end
function LOAD(src) local f, err = load(src, "=chunk") return f ~= nil, err end
`

type runner struct {
	c    *vp.Child
	sess *gl.Sess
	n    int
}

func newRunner(c *vp.Child) *runner {
	r := &runner{c: c}
	r.reset()
	return r
}

func (r *runner) close() {
	if r.sess != nil {
		r.sess.Close()
		r.sess = nil
	}
}

func (r *runner) reset() {
	r.close()
	r.sess = gl.NewSess(gl.Options{})
	r.n = 0
	clos, out := r.sess.Compile("prelude", prelude)
	if out != nil {
		r.c.Violation("reject", "prelude", "the harness prelude does not compile: "+out.ErrMsg+out.PanicMsg, prelude)
		r.c.Flush(true)
		panic("prelude does not compile: " + out.ErrMsg + out.PanicMsg)
	}
	if o := r.sess.Call(rt.FunctionValue(clos), nil); o.Kind != gl.OK {
		r.c.Violation("outcome", "prelude", "the harness prelude does not run: "+o.String(), prelude)
		r.c.Flush(true)
		panic("prelude does not run: " + o.String())
	}
}

// result of running one chunk
type result struct {
	kind   string // gl.OK, gl.CompileError, gl.LuaError, gl.Panic
	vals   []rt.Value
	msg    string
	stack  string
	report []string
}

func (res *result) describe(n *gl.Namer) string {
	switch res.kind {
	case gl.OK:
		return "values " + n.EncList(res.vals)
	case gl.CompileError:
		return "rejected: " + res.msg
	case gl.LuaError:
		return "run-time error: " + res.msg
	}
	return "Go panic: " + res.msg
}

// run compiles and calls src; every Go panic is caught and reported as such.
func (r *runner) run(caseID, src string, args []rt.Value) (res *result) {
	r.n++
	if r.n > 4000 {
		r.reset()
	}
	r.c.Begin(caseID, src)
	res = &result{}
	clos, out := r.sess.Compile("chunk", src)
	if out != nil {
		res.kind, res.msg, res.stack = out.Kind, out.ErrMsg+out.PanicMsg, out.Stack
		if out.Kind == gl.Panic {
			r.reset()
		}
		return res
	}
	defer func() {
		if p := recover(); p != nil {
			res.kind, res.msg, res.stack = gl.Panic, fmt.Sprint(p), string(debug.Stack())
			res.vals = nil
			r.reset()
		}
	}()
	gl.ResetReports()
	term := rt.NewTerminationWith(nil, 0, true)
	err := rt.Call(r.sess.R.MainThread(), rt.FunctionValue(clos), args, term)
	res.report = gl.TakeReports()
	if err != nil {
		res.kind, res.msg = gl.LuaError, err.Error()
		return res
	}
	res.kind = gl.OK
	res.vals = append([]rt.Value(nil), term.Etc()...)
	return res
}

// load runs the Lua function load on src with chunk name "=chunk" and returns
// (accepted, message).
func (r *runner) load(caseID, src string) (ok bool, msg string, res *result) {
	res = r.run(caseID, "return LOAD(...)", []rt.Value{rt.StringValue(src)})
	// journal the real input
	r.c.Begin(caseID, src)
	if res.kind != gl.OK || len(res.vals) < 1 {
		return false, "", res
	}
	if res.vals[0].Type() == rt.BoolType && res.vals[0].AsBool() {
		return true, "", res
	}
	if len(res.vals) > 1 && res.vals[1].Type() == rt.StringType {
		msg = res.vals[1].AsString()
	}
	return false, msg, res
}

func (r *runner) enc(v rt.Value) string { return r.sess.N.Enc(v) }

// encSym encodes a value that may be a symbolic term built by the prelude.
func (r *runner) encSym(v rt.Value, depth int) string {
	if depth > 40 {
		return "?deep"
	}
	if t, ok := v.TryTable(); ok {
		if name := t.Get(rt.StringValue("name")); name.Type() == rt.StringType {
			return name.AsString()
		}
		if op := t.Get(rt.StringValue("op")); op.Type() == rt.StringType {
			return term(op.AsString(), r.encSym(t.Get(rt.StringValue("l")), depth+1), r.encSym(t.Get(rt.StringValue("r")), depth+1))
		}
	}
	return r.enc(v)
}

// ---------------------------------------------------------------------------
// Witnesses: every violation carries a self-contained JSON input that Replay
// can run again.

type witness struct {
	K     string `json:"k"`               // value | symvalue | reject | accept | errline
	Src   string `json:"src"`             // chunk
	Want  string `json:"want,omitempty"`  // expected encoding
	Lines []int  `json:"lines,omitempty"` // accepted error lines
	Sig   string `json:"sig"`
	Kind  string `json:"kind"`
}

func (w witness) json() string {
	b, _ := json.Marshal(w)
	return string(b)
}

func (r *runner) violation(kind, sig, detail string, w witness) {
	w.Sig, w.Kind = sig, kind
	r.c.Violation(kind, sig, detail, w.json())
}

const errSentinel = "s:\"\\x00ERR\""

// checkValues runs src and compares the encoded list of returned values.
// It returns true when the case held.
func (r *runner) checkValues(caseID, src, want, sig string) bool {
	res := r.run(caseID, src, nil)
	r.c.Eval(1)
	w := witness{K: "value", Src: src, Want: want}
	for _, rep := range res.report {
		r.violation("hook", "hook "+rep, rep, w)
	}
	switch res.kind {
	case gl.OK:
		got := r.sess.N.EncList(res.vals)
		if got == want {
			return true
		}
		r.violation("value", sig, fmt.Sprintf("the chunk returns [%s], the manual gives [%s]\n--- chunk ---\n%s", got, want, src), w)
	case gl.CompileError:
		r.violation("reject", sig, fmt.Sprintf("a valid chunk is rejected: %s\n--- chunk ---\n%s", res.msg, src), w)
	case gl.LuaError:
		r.violation("value", sig, fmt.Sprintf("the chunk raises %q, the manual gives [%s]\n--- chunk ---\n%s", res.msg, want, src), w)
	default:
		r.violation("panic", sig, fmt.Sprintf("Go panic %s\n%s\n--- chunk ---\n%s", res.msg, res.stack, src), w)
	}
	return false
}

// checkReject: src is not a valid chunk and has to be refused by the compiler.
func (r *runner) checkReject(caseID, src, sig string) bool {
	res := r.run(caseID, src, nil)
	r.c.Eval(1)
	w := witness{K: "reject", Src: src}
	switch res.kind {
	case gl.CompileError:
		return true
	case gl.Panic:
		r.violation("panic", sig, fmt.Sprintf("Go panic %s\n%s\n--- chunk ---\n%s", res.msg, res.stack, src), w)
	default:
		r.violation("accept", sig, fmt.Sprintf("an invalid chunk is accepted (%s)\n--- chunk ---\n%s", res.describe(r.sess.N), src), w)
	}
	return false
}

var lineRE = regexp.MustCompile(`^=?chunk:(\d+):`)

// checkErrLine: load(src) has to fail and its message has to carry one of the
// given lines.
func (r *runner) checkErrLine(caseID, src string, lines []int, sig string) bool {
	ok, msg, res := r.load(caseID, src)
	r.c.Eval(1)
	w := witness{K: "errline", Src: src, Lines: lines}
	if res.kind != gl.OK {
		r.violation("panic", sig, fmt.Sprintf("load does not return: %s\n%s\n--- source ---\n%s", res.describe(r.sess.N), res.stack, src), w)
		return false
	}
	if ok {
		r.violation("accept", sig, fmt.Sprintf("load accepts an invalid chunk\n--- source ---\n%s", src), w)
		return false
	}
	m := lineRE.FindStringSubmatch(msg)
	if m == nil {
		r.violation("errline", sig+" noline", fmt.Sprintf("load's message %q carries no line; the offending token is on line %v\n--- source ---\n%s", msg, lines, src), w)
		return false
	}
	got, _ := strconv.Atoi(m[1])
	for _, l := range lines {
		if l == got {
			return true
		}
	}
	r.violation("errline", sig, fmt.Sprintf("load reports line %d (%q); the offending token is on line %v\n--- source ---\n%s", got, msg, lines, src), w)
	return false
}

// Replay re-runs one witness.
func (Prop) Replay(c *vp.Child, input string) {
	var w witness
	if err := json.Unmarshal([]byte(input), &w); err != nil {
		fmt.Println("witness is not JSON:", err)
		return
	}
	r := newRunner(c)
	defer r.close()
	switch w.K {
	case "value":
		r.checkValues("replay", w.Src, w.Want, w.Sig)
	case "symvalue":
		r.checkSym("replay", w.Src, strings.Split(w.Want, "\x01"), w.Sig)
	case "reject":
		r.checkReject("replay", w.Src, w.Sig)
	case "errline":
		r.checkErrLine("replay", w.Src, w.Lines, w.Sig)
	}
}

func nontrivialHash(c *vp.Child, src string) { c.NonTrivial(vp.Hash("C12", src)) }
