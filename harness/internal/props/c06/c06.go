// Package c06 checks property C06 (a memory limit bounds accounted and real
// allocation).
package c06

import (
	"fmt"
	goruntime "runtime"
	"strings"

	"verif/internal/eng"
	"verif/internal/gl"
	"verif/internal/quota"
	"verif/internal/vp"
)

type Prop struct{}

func (Prop) ID() string { return "C06" }

func (Prop) Plan(t vp.Tier) []vp.Stage {
	nb := 16
	if t == vp.Thorough {
		nb = 48
	}
	return []vp.Stage{
		{Name: "ladder", NBatches: nb, TimeoutS: 2400},
		{Name: "interceptors", NBatches: 12, TimeoutS: 2400},
		{Name: "amplifiers", NBatches: 16, TimeoutS: 2400, Env: []string{"GOMAXPROCS=2", "GOGC=50"}},
		{Name: "ladder-race", NBatches: 4, Race: true, TimeoutS: 2400},
	}
}

func (Prop) Describe(t vp.Tier) vp.Description {
	return vp.Description{
		Rule: "Stage ladder: a generated program (tables, strings, closures, coroutines, pcall weighted up) runs in a fresh runtime under memory limits M = 2^9 .. 2^24 (and M+-1 around the first limit it survives): the set of limits that kill it must be downward closed (killed at M and not at some M' < M is a violation), " +
			"a killed run must report status 'killed', used < M, no results, and an event trace that is a prefix of the surviving run's; a surviving run must equal the unlimited run (events, results, error). The verif hooks report accounted memory reaching the limit, counter wrap, release below zero and any Lua code running in a context that is no longer live. " +
			"Stage interceptors: never-ending allocating programs that try to survive a kill (pcall retry loops, looping handlers, coroutines, pending <close> variables, __gc handlers, callbacks) under a ladder of limits: always killed, used < M, traces prefix-ordered. " +
			"Stage amplifiers: every library call with a size parameter N in {1e3, 1e6, 2^31, 2^40, maxint} under M in {64 kB, 1 MB, 16 MB}: the Go heap's cumulative allocation (MemStats.TotalAlloc, monotone and GC-independent) across the call must grow by less than 8 MB + 64*M, and the process must survive. " +
			"Non-trivial: ladder: the program was killed under at least one limit and survived another; distinct by (program, limit).",
		Assumptions: []string{
			"the constant 64 is this check's reading of 'a constant times M'; 8 MB covers Go allocator and runtime slack that is not the interpreter's doing",
			"accounted memory is not expected to shrink when values become garbage (golua only releases what it pools), so no equality of usage is demanded, only the bound and monotonicity of kills",
			"programs with a coroutine yielding inside a protected call are excluded (known finding coroutine-yield-across-context, see C05/C07)",
		},
		Floor: map[vp.Tier]int64{vp.Quick: 800, vp.Thorough: 7000}[t],
	}
}

func reportHooks(c *vp.Child, o *gl.Outcome, what, text string) {
	if len(o.Reports) > 0 {
		kind := o.Reports[0]
		if i := strings.IndexByte(kind, ':'); i > 0 {
			kind = kind[:i]
		}
		c.Violation("hook-"+kind, what, strings.Join(o.Reports, "\n"), text)
	}
	if o.Kind == gl.Panic {
		c.Violation("panic", what, o.PanicMsg+"\n"+o.Stack, text)
	}
}

func tail(tr []string) []string {
	if len(tr) > 10 {
		return append([]string{fmt.Sprintf("... %d earlier events ...", len(tr)-10)}, tr[len(tr)-10:]...)
	}
	return tr
}

const hugeMem = 1 << 40

func ladder(c *vp.Child) {
	n := c.Pick(1200, 10000)
	if strings.HasSuffix(c.Stage, "-race") {
		n = c.Pick(40, 600)
	}
	progs := quota.Corpus(c, n, 6)
	for i, p := range progs {
		if !c.Mine(i) {
			continue
		}
		in := "-- args: " + eng.ArgsLua(p.Args) + "\n" + p.Text
		c.Begin(p.Label, in)
		base := quota.Run(p.Text, p.Args, 0, hugeMem)
		c.Eval(1)
		reportHooks(c, base, "unlimited run", in)
		if base.Kind == gl.Panic || base.Kind == gl.CompileError || base.Kind == gl.Killed {
			c.Inconclusive("baseline " + base.Kind)
			continue
		}
		T := quota.Clean(base.Trace)
		var limits []uint64
		for e := 9; e <= 24; e++ {
			limits = append(limits, 1<<uint(e))
		}
		killedAt := map[uint64]bool{}
		firstSurvive := uint64(0)
		run := func(M uint64) {
			o := quota.Run(p.Text, p.Args, 0, M)
			c.Eval(1)
			what := fmt.Sprintf("memory limit %d", M)
			reportHooks(c, o, what, in)
			tr := quota.Clean(o.Trace)
			if o.Kind == gl.Killed || o.CtxStatus == "killed" {
				killedAt[M] = true
				switch {
				case o.Kind != gl.Killed || o.CtxStatus != "killed":
					c.Violation("status", "killed/status mismatch", fmt.Sprintf("%s: outcome %s but context status %s", what, o.Kind, o.CtxStatus), in)
				case o.UsedMem >= M:
					c.Violation("used-reaches-limit", "ladder", fmt.Sprintf("%s: accounted memory %d >= limit", what, o.UsedMem), in)
				case !quota.IsPrefix(tr, T):
					c.Violation("ran-after-kill", "ladder trace is not a prefix", fmt.Sprintf("%s: killed, but its events are not a prefix of the surviving run's.\nlimited:   %v\nunlimited: %v", what, tail(tr), tail(T)), in)
				}
				c.Feature("kills", 1)
				return
			}
			killedAt[M] = false
			if firstSurvive == 0 || M < firstSurvive {
				firstSurvive = M
			}
			same := o.Kind == base.Kind && strings.Join(tr, "|") == strings.Join(T, "|") && quota.Clean([]string{o.Rets})[0] == quota.Clean([]string{base.Rets})[0] && quota.Clean([]string{o.ErrVal})[0] == quota.Clean([]string{base.ErrVal})[0]
			if !same {
				c.Violation("differs-when-surviving", "ladder ended "+o.Kind, fmt.Sprintf("%s: ended %s/%s rets=[%s] err=%s after %d events; the unlimited run ended %s rets=[%s] err=%s after %d events", what, o.Kind, o.CtxStatus, o.Rets, o.ErrVal, len(tr), base.Kind, base.Rets, base.ErrVal, len(T)), in)
			}
			if o.UsedMem >= M {
				c.Violation("used-reaches-limit", "ladder (survived)", fmt.Sprintf("%s: accounted memory %d >= limit though the context survived", what, o.UsedMem), in)
			}
			c.Feature("survivals", 1)
		}
		for _, M := range limits {
			run(M)
		}
		if firstSurvive > 1 {
			run(firstSurvive - 1)
			run(firstSurvive + 1)
		}
		// monotonicity: no kill above a survival
		var minSurvive, maxKill uint64
		for M, k := range killedAt {
			if k && M > maxKill {
				maxKill = M
			}
			if !k && (minSurvive == 0 || M < minSurvive) {
				minSurvive = M
			}
		}
		if minSurvive != 0 && maxKill > minSurvive {
			c.Violation("not-monotone", "killed under a larger limit than one it survives", fmt.Sprintf("survives memory limit %d but is killed under the larger limit %d", minSurvive, maxKill), in)
		}
		if minSurvive != 0 && maxKill != 0 {
			c.NonTrivial(vp.Hash(p.Text, eng.ArgsLua(p.Args)))
		}
		if c.WantSample() && len(p.Text) < 1000 && maxKill > 0 {
			c.Sample(map[string]interface{}{"program": p.Text, "largest_killing_limit": maxKill, "smallest_surviving_limit": minSurvive})
		}
	}
}

func interceptors(c *vp.Child) {
	ladder := []uint64{1 << 10, 1 << 12, 1 << 14, 1 << 16, 1 << 18, 1 << 20}
	if c.Thorough() {
		ladder = []uint64{1 << 10, 3000, 1 << 12, 10000, 1 << 14, 50000, 1 << 16, 200000, 1 << 18, 1 << 20, 1 << 22}
	}
	for i, t := range quota.Interceptors {
		if !c.Mine(i) {
			continue
		}
		text := "local sink = {}\n" + strings.ReplaceAll(t.Src, "$WORK", "sink[#sink + 1] = {n}")
		var prev []string
		for _, M := range ladder {
			c.Begin(fmt.Sprintf("%s/M%d", t.Name, M), text)
			// a CPU limit as a safety net: the memory limit must act first
			o := quota.Run(text, nil, 200000000, M)
			c.Eval(1)
			what := fmt.Sprintf("interceptor %s under memory limit %d", t.Name, M)
			reportHooks(c, o, what, text)
			tr := quota.Clean(o.Trace)
			switch {
			case o.Kind != gl.Killed || o.CtxStatus != "killed":
				c.Violation("not-killed", "interceptor "+t.Name+" ended "+o.Kind, fmt.Sprintf("%s: ended %s (status %s, used mem %d cpu %d) err=%s after %d events", what, o.Kind, o.CtxStatus, o.UsedMem, o.UsedCPU, o.ErrMsg, len(tr)), text)
			case !strings.Contains(o.ErrMsg, "emory") && t.Name != "callcontext-inside":
				c.Violation("killed-by-cpu-first", "interceptor "+t.Name, fmt.Sprintf("%s: killed, but not by the memory limit: %s (used mem %d cpu %d)", what, o.ErrMsg, o.UsedMem, o.UsedCPU), text)
			case o.UsedMem >= M:
				c.Violation("used-reaches-limit", "interceptor "+t.Name, fmt.Sprintf("%s: accounted %d", what, o.UsedMem), text)
			case prev != nil && !quota.IsPrefix(prev, tr):
				c.Violation("ran-after-kill", "interceptor "+t.Name+" traces not prefix-ordered", fmt.Sprintf("%s: the trace under the previous, smaller limit is not a prefix of this one.\nsmaller: %v\nthis:    %v", what, tail(prev), tail(tr)), text)
			}
			prev = tr
			c.NonTrivial(vp.Hash(t.Name, fmt.Sprint(M)))
			c.Feature("interceptor-"+t.Name+"-"+o.Kind, 1)
		}
	}
}

func amplifiers(c *vp.Child) {
	k := 0
	var ms goruntime.MemStats
	for _, a := range quota.Amplifiers {
		for _, n := range quota.Sizes {
			for _, M := range []uint64{64 << 10, 1 << 20, 16 << 20} {
				k++
				if !c.Mine(k) {
					continue
				}
				text := strings.ReplaceAll(a.Src, "$N", n)
				c.Begin(fmt.Sprintf("%s/N=%s/M=%d", a.Name, n, M), text)
				// build the runtime first so that only the call is measured
				goruntime.GC()
				goruntime.ReadMemStats(&ms)
				before := ms.TotalAlloc
				t0 := quota.CPUTime()
				o := quota.Run(text, nil, 50000000, M)
				dt := quota.CPUTime() - t0
				goruntime.ReadMemStats(&ms)
				delta := ms.TotalAlloc - before
				c.Eval(1)
				what := fmt.Sprintf("%s with N=%s under memory limit %d", a.Name, n, M)
				reportHooks(c, o, what, text)
				// creating a runtime with all libraries allocates about 1.5 MB
				bound := uint64(8<<20) + 64*M
				if delta > bound {
					c.Violation("heap-growth", a.Name+" N="+n, fmt.Sprintf("%s: the Go heap's cumulative allocation grew by %d bytes across the call (bound 8 MB + 64*M = %d); outcome %s, accounted memory %d", what, delta, bound, o.Kind, o.UsedMem), text)
				}
				// every amplifier returns the size of what it built: a context that
				// survives cannot have built more than its limit
				if o.Kind == gl.OK && strings.HasPrefix(o.Rets, "i:") {
					var size uint64
					fmt.Sscanf(o.Rets, "i:%d", &size)
					// (only the templates that return `#` of a value they still hold)
					if size > M && (strings.Contains(text, "return #") || strings.HasPrefix(a.Name, "holds-")) && a.Name != "table.remove-loop" {
						c.Violation("built-more-than-limit", a.Name, fmt.Sprintf("%s: the context ended 'done' having built a value of %d bytes (accounted memory %d, limit %d)", what, size, o.UsedMem, M), text)
					}
				}
				if o.CtxStatus == "killed" && o.UsedMem >= M && strings.Contains(o.ErrMsg, "emory") {
					c.Violation("used-reaches-limit", a.Name, fmt.Sprintf("%s: accounted %d", what, o.UsedMem), text)
				}
				if dt > 30 {
					confirmed, inconclusive, best, cal := quota.ConfirmSlow(dt, 30, func() float64 {
						t0 := quota.CPUTime()
						quota.Run(text, nil, 50000000, M)
						return quota.CPUTime() - t0
					})
					switch {
					case confirmed:
						c.Violation("unmetered-work", a.Name+" N="+n, fmt.Sprintf("%s: %.1f s of CPU time in each of 4 runs (first %.1f s; calibration %.2f s)", what, best, dt, cal), text)
					case inconclusive:
						c.Inconclusive(fmt.Sprintf("%s: %.1f s of CPU time, but the machine's calibration run took %.2f s", what, best, cal))
					default:
						c.Feature("amplifier-slow-once-not-confirmed", 1)
					}
				}
				c.NonTrivial(vp.Hash(a.Name, n, fmt.Sprint(M)))
				c.Feature("amplifier-outcome-"+o.Kind, 1)
				if delta > bound/4 {
					c.Feature("amplifier-above-quarter-of-bound", 1)
				}
			}
		}
	}
}

func (Prop) RunBatch(c *vp.Child) {
	switch {
	case strings.HasPrefix(c.Stage, "ladder"):
		ladder(c)
	case c.Stage == "interceptors":
		interceptors(c)
	case c.Stage == "amplifiers":
		amplifiers(c)
	}
}

func (Prop) Replay(c *vp.Child, input string) {
	for e := 9; e <= 24; e += 3 {
		o := quota.Run(input, nil, 0, 1<<uint(e))
		fmt.Printf("memory limit 2^%d: kind=%s status=%s used=%d events=%d %s\n", e, o.Kind, o.CtxStatus, o.UsedMem, len(o.Trace), o.ErrMsg)
	}
}
