// Package c08 checks property C08: compliance flags gate every Go function,
// and a context that requires iosafe has no access to the outside.
//
// Stage "gate" (in-process monitor): every Go function reachable at run time
// from the global environment, package.loaded, the string / file / context
// metatables and the iterators the library returns is called under each of the
// 16 subsets of {cpusafe, memsafe, timesafe, iosafe}, in six spellings, with
// argument tuples biased to paths, shell commands and module names that point
// into a sentinel directory.  Refusals must be upward closed in the required
// set, independent of spelling and arguments, ordinary errors (catchable,
// context status "error"/"done", never "killed"), leave no effect, and let the
// context and the runtime continue.
//
// Stage "iosafe" (system call log monitor): the same calls plus small hostile
// programs run in contexts that require iosafe while the child process is
// traced by strace; each call is bracketed by two marker system calls, and the
// parent checks that between them the process family made no call that opens,
// creates, deletes, renames or changes a file, starts a process or touches a
// socket.  The sentinel directory tree and the process's children are compared
// around each window as well.  Positive controls (contexts that do not require
// iosafe, and the harness itself, doing each kind of operation between
// markers) must be found by the same parser, or the run is BROKEN.
package c08

import (
	"encoding/json"
	"fmt"
	"os"
	"os/exec"
	"path/filepath"
	"sort"
	"strings"

	"verif/internal/vp"
)

type Prop struct{}

func (Prop) ID() string { return "C08" }

func envWrap(workdir string) []string {
	return []string{"/usr/bin/env",
		"TMPDIR=" + filepath.Join(workdir, "tmp"),
		"HOME=" + filepath.Join(workdir, "home"),
		"GOLUA_PLUGINS_ROOT=" + filepath.Join(workdir, "plugins"),
	}
}

func wrapEnv(batch int, argv []string, workdir string) []string {
	return append(envWrap(workdir), argv...)
}

func stracePath() string {
	if p, err := exec.LookPath("strace"); err == nil {
		return p
	}
	return "strace"
}

func wrapStrace(batch int, argv []string, workdir string) []string {
	w := []string{stracePath(), "-f", "--seccomp-bpf", "-e", straceTrace, "-e", "signal=none", "-s", "200",
		"-o", filepath.Join(workdir, "strace.log")}
	w = append(w, envWrap(workdir)...)
	return append(w, argv...)
}

func (Prop) Plan(t vp.Tier) []vp.Stage {
	nb := 16
	if t == vp.Thorough {
		nb = 48
	}
	return []vp.Stage{
		{Name: "gate", NBatches: nb, TimeoutS: 900, Wrap: wrapEnv, CrashInconclusive: true, Env: []string{"GOMAXPROCS=2"}},
		{Name: "iosafe", NBatches: nb, TimeoutS: 1200, Wrap: wrapStrace, CrashInconclusive: true, Env: []string{"GOMAXPROCS=2"}},
	}
}

func (Prop) Describe(t vp.Tier) vp.Description {
	return vp.Description{
		Rule: "gate: a case is (Go function found by walking the live runtime, required flag set S out of all 16, call spelling out of " +
			"direct / pcall,xpcall,gsub-callback / __call,__index,__concat,__close metamethod / coroutine body, coroutine.wrap / load'ed chunk / nested context, " +
			"argument tuple), run inside Runtime.CallContext(RequiredFlags=S); the function's refusals ('missing flags' error) must be upward closed in S, the same " +
			"for every spelling and tuple, catchable, leave the sentinel table, callback, coroutine, globals, default files and sentinel directory untouched, " +
			"not enter any Go function body (hook counter, direct spelling) and leave the context status 'done'/'error' with the next statement running. " +
			"Non-trivial: S is not empty. iosafe: a case is one such call (or one of the hostile recipe programs, spelled with runtime.callcontext in Lua) in a context " +
			"requiring iosafe, executed between two marker system calls under strace -f; verdict from the system call log of the whole thread family between the " +
			"markers (no open/creat/unlink/rename/mkdir/rmdir/chmod/chown/truncate/link/execve/fork/non-thread clone/socket call), the sentinel tree " +
			"(names, inode, mode, size, mtime, ctime at each window, content hashes every 8th) and wait4(-1) (no child processes). Non-trivial: the tuple " +
			"contains a path/command/module/host string aimed at the sentinel directory, or the function ran (was not refused), or it is a recipe. Distinct by hash " +
			"of (function, S, spelling, tuple).",
		Assumptions: []string{
			"OUT OF REACH: the quantifier's 'all call paths in the source from a function declared iosafe to an operating-system primitive' is a static call-graph statement; only its dynamic counterpart is monitored (every reachable function actually driven with hostile arguments under a system call monitor)",
			"reachability is what the walk finds in a runtime with lib.LoadAll: tables, metatables of tables and userdata, the string metatable, and the values returned by ipairs, pairs, string.gmatch, utf8.codes, io.lines, file:lines, coroutine.wrap, runtime.context (and its kill/killnow/stopnow fields), package.searchers[2]; Go functions registered by an embedder are not covered",
			"a refusal is recognised by the error text 'missing flags: ' (runtime.CheckRequiredFlags); under the empty set os.exit and golib.import are not executed",
			"file handles opened OUTSIDE the iosafe context and handed in (including the standard streams and a default input/output set beforehand) may be read and written inside it: the repository's own lib/iolib/lua/safeio.quotas.lua states this as intended, so it is not flagged; only the three standard streams are passed in here",
			"finalizers (__gc) installed inside an iosafe context run later, outside it, and are not covered",
			"metadata-only system calls (stat, access, readlink, getcwd) and wait/kill/exit are tolerated inside a window and only counted; the Go runtime's own opens of /sys/devices/system/cpu/online, /sys/kernel/mm/transparent_hugepage/hpage_pmd_size, /proc/self/maps and new threads (clone with CLONE_THREAD) are allow-listed; time zone data is loaded before the first window",
			"strace 6.1 with --seccomp-bpf reports every traced call of every thread and child process in order; the positive controls of each batch (open, create, remove, rename, popen, searchpath, mkdir, chmod, truncate, rewrite, connect) confirm this for the run, a missing control makes the run BROKEN",
			"held on the tuples sampled, not on all argument values",
		},
		Floor: map[vp.Tier]int64{vp.Quick: 40000, vp.Thorough: 350000}[t],
		Extra: map[string]interface{}{
			"flag_sets":        16,
			"spelling_classes": spellClassNames,
			"spellings":        spellClasses,
			"recipes":          len(recipes),
			"strace":           "strace -f --seccomp-bpf -e " + straceTrace + " -e signal=none",
		},
	}
}

func (Prop) RunBatch(c *vp.Child) {
	switch c.Stage {
	case "gate":
		runGate(c)
	case "iosafe":
		runIosafe(c)
	}
}

// ---------------------------------------------------------------------------
// Parent side: the offline checker over the system call logs.

func batchDir(stage string, b int) string {
	return filepath.Join(vp.Root(), "work", "C08", stage, fmt.Sprintf("b%03d", b))
}

func (Prop) Finish(p *vp.Parent) {
	// a batch that died: os.exit running in a constrained context ends the
	// process without a panic; anything else is another property's business
	// and has already been counted inconclusive by the runner.
	for _, stage := range []string{"gate", "iosafe"} {
		for _, r := range p.Results[stage] {
			for why, n := range r.InconclReason {
				if strings.HasPrefix(why, "control ") {
					p.Broken(fmt.Sprintf("stage %s batch %d: %s (x%d)", stage, r.Batch, why, n))
				}
			}
			if !r.Crashed {
				continue
			}
			first := r.LastCase
			if i := strings.IndexByte(first, '\n'); i >= 0 {
				first = first[:i]
			}
			if strings.Contains(first, "os.exit") && !strings.Contains(first, " {} ") && !strings.Contains(r.LogTail, "panic:") && !strings.Contains(r.LogTail, "fatal error:") {
				p.AddViolation(vp.Violation{Kind: "gate-process-exit", Sig: "os.exit", Stage: stage, Batch: r.Batch, CaseID: first,
					Detail: fmt.Sprintf("the child process ended (status %d) while calling os.exit in a context requiring flags: the function ran although it declares none\n%s", r.ExitCode, r.LogTail),
					Input:  r.LastCase})
			} else {
				fmt.Printf("[C08] stage %s batch %d died at: %s\n%s\n", stage, r.Batch, first, indent(r.LogTail, 30))
			}
		}
	}
	res, ok := p.Results["iosafe"]
	if !ok {
		return
	}
	if _, err := exec.LookPath("strace"); err != nil {
		p.Broken("strace not found: the system call monitor did not run")
		return
	}
	var windows, checked, controlsSeen int64
	tolerated := map[string]int64{}
	for _, r := range res {
		dir := batchDir("iosafe", r.Batch)
		recs, err := readWindows(filepath.Join(dir, "windows.jsonl"))
		if err != nil {
			p.Broken(fmt.Sprintf("batch %d: %v", r.Batch, err))
			continue
		}
		lg, err := parseStrace(filepath.Join(dir, "strace.log"))
		if err != nil {
			p.Broken(fmt.Sprintf("batch %d: strace log: %v", r.Batch, err))
			continue
		}
		if len(recs) == 0 {
			p.Broken(fmt.Sprintf("batch %d: no windows were recorded", r.Batch))
			continue
		}
		for i, rec := range recs {
			windows++
			w := lg.window(rec.ID)
			if !w.found {
				p.Broken(fmt.Sprintf("batch %d: the BEGIN marker of window %s is not in the strace log (%d lines)", r.Batch, rec.ID, lg.lines))
				break
			}
			if !w.closed && !(i == len(recs)-1 && (r.Crashed || r.TimedOut)) {
				p.Broken(fmt.Sprintf("batch %d: the END marker of window %s is not in the strace log", r.Batch, rec.ID))
				break
			}
			if rec.Kind == "control" {
				seen := map[string]bool{}
				for _, c := range w.violations {
					seen[c] = true
				}
				ok := true
				for _, want := range rec.Expect {
					if !seen[want] {
						ok = false
						p.Broken(fmt.Sprintf("batch %d: positive control %s: no system call of class %q found between its markers — the monitor cannot see what it must see", r.Batch, rec.ID, want))
					}
				}
				if len(rec.Expect) == 0 && len(w.violations) > 0 {
					ok = false
					p.Broken(fmt.Sprintf("batch %d: negative control %s (pure computation in an iosafe context) shows system calls the checker would flag: noise the allow-list does not cover\n%s",
						r.Batch, rec.ID, w.describe(w.violations...)))
				}
				if ok {
					controlsSeen++
				}
				continue
			}
			checked++
			for _, c := range []string{clsStat, clsProc, clsThread, clsUnknown} {
				for _, ev := range w.byClass[c] {
					tolerated[c+"/"+ev.name]++
				}
			}
			tolerated["allow-listed-runtime-opens"] += int64(w.noise)
			if n := len(w.byClass[clsUnknown]); n > 0 {
				p.Inconclusive("unclassified system call inside an iosafe window: "+w.byClass[clsUnknown][0].name, int64(n))
			}
			for _, c := range w.violations {
				p.AddViolation(vp.Violation{Kind: "iosafe-syscall", Sig: rec.Func + " " + c, Stage: "iosafe", Batch: r.Batch, CaseID: rec.ID,
					Detail: fmt.Sprintf("%s ran in a context requiring %s (spelling %s, arguments (%s)) and, between the markers of window %s, the process made system calls of class %q:\n%s",
						rec.Func, rec.Flags, rec.Spelling, rec.Args, rec.ID, c, w.describe(c)),
					Input: rec.Input})
			}
		}
	}
	p.Feature("iosafe/windows-in-log", windows)
	p.Feature("iosafe/windows-checked-against-syscall-log", checked)
	p.Feature("iosafe/controls-confirmed", controlsSeen)
	for k, v := range tolerated {
		if v > 0 {
			p.Feature("iosafe/tolerated-in-window/"+k, v)
		}
	}
	if controlsSeen == 0 {
		p.Broken("no positive control was confirmed")
	}
	// declared sets, for the reader of the evidence
	byset := map[string][]string{}
	for _, r := range p.Results["gate"] {
		for k, v := range r.Outputs {
			if strings.HasPrefix(k, "gate/") {
				byset[v] = append(byset[v], strings.TrimPrefix(k, "gate/"))
			}
		}
	}
	judged := map[string]bool{}
	var enumerated []string
	for _, r := range p.Results["gate"] {
		for k, v := range r.Outputs {
			if strings.HasPrefix(k, "gate/") {
				judged[strings.TrimPrefix(k, "gate/")] = true
			}
			if k == "functions" {
				enumerated = strings.Split(v, "\n")
			}
		}
	}
	for _, name := range enumerated {
		if !judged[name] {
			p.Inconclusive("no gate verdict for "+name+" (its batch died)", 1)
		}
	}
	var keys []string
	for k := range byset {
		keys = append(keys, k)
	}
	sort.Strings(keys)
	for _, k := range keys {
		sort.Strings(byset[k])
		fmt.Printf("[C08] %d functions %s\n", len(byset[k]), k)
		if len(byset[k]) <= 40 {
			fmt.Printf("        %s\n", strings.Join(byset[k], " "))
		}
	}
}

func indent(s string, maxLines int) string {
	ls := strings.Split(s, "\n")
	if len(ls) > maxLines {
		ls = ls[:maxLines]
	}
	return "    " + strings.Join(ls, "\n    ")
}

func readWindows(path string) ([]windowRec, error) {
	b, err := os.ReadFile(path)
	if err != nil {
		return nil, err
	}
	var recs []windowRec
	for _, l := range strings.Split(string(b), "\n") {
		if strings.TrimSpace(l) == "" {
			continue
		}
		var r windowRec
		if err := json.Unmarshal([]byte(l), &r); err != nil {
			return nil, fmt.Errorf("windows.jsonl: %v", err)
		}
		recs = append(recs, r)
	}
	return recs, nil
}
