package c08

import (
	"bufio"
	"fmt"
	"os"
	"regexp"
	"strconv"
	"strings"
)

// The strace invocation (see wrapStrace).  tgkill is left out of the process
// set: the Go runtime preempts goroutines with tgkill(SIGURG) thousands of
// times per second and the property says nothing about signals.
const straceTrace = "trace=%file,%network,clone,clone3,fork,vfork,execve,execveat,wait4,waitid,exit_group,kill,tkill,pidfd_open,openat2,ftruncate,fchmod,fchown"

// Classes of traced system calls.
const (
	clsOpen    = "open"    // opens / creates a file or directory
	clsFsmod   = "fsmod"   // deletes, renames, creates, changes a file or directory
	clsExec    = "exec"    // starts a process / loads a program
	clsNet     = "net"     // any socket call
	clsThread  = "thread"  // a new thread of the same process (Go runtime)
	clsStat    = "stat"    // looks at metadata only (tolerated, counted)
	clsProc    = "proc"    // wait/exit/kill (tolerated, counted)
	clsUnknown = "unknown" // not classified: inconclusive
)

var syscallClass = map[string]string{
	"open": clsOpen, "openat": clsOpen, "openat2": clsOpen, "creat": clsOpen, "open_by_handle_at": clsOpen, "name_to_handle_at": clsOpen,
	"unlink": clsFsmod, "unlinkat": clsFsmod, "rmdir": clsFsmod, "rename": clsFsmod, "renameat": clsFsmod, "renameat2": clsFsmod,
	"mkdir": clsFsmod, "mkdirat": clsFsmod, "mknod": clsFsmod, "mknodat": clsFsmod, "link": clsFsmod, "linkat": clsFsmod,
	"symlink": clsFsmod, "symlinkat": clsFsmod, "truncate": clsFsmod, "ftruncate": clsFsmod, "chmod": clsFsmod, "fchmod": clsFsmod,
	"fchmodat": clsFsmod, "fchmodat2": clsFsmod, "chown": clsFsmod, "fchown": clsFsmod, "lchown": clsFsmod, "fchownat": clsFsmod,
	"utime": clsFsmod, "utimes": clsFsmod, "utimensat": clsFsmod, "futimesat": clsFsmod, "setxattr": clsFsmod, "lsetxattr": clsFsmod,
	"removexattr": clsFsmod, "lremovexattr": clsFsmod, "mount": clsFsmod, "umount2": clsFsmod, "chroot": clsFsmod, "pivot_root": clsFsmod,
	"swapon": clsFsmod, "swapoff": clsFsmod, "acct": clsFsmod, "fsconfig": clsFsmod, "move_mount": clsFsmod, "open_tree": clsOpen,
	"execve": clsExec, "execveat": clsExec, "fork": clsExec, "vfork": clsExec, "uselib": clsExec,
	"stat": clsStat, "lstat": clsStat, "newfstatat": clsStat, "fstatat64": clsStat, "statx": clsStat, "access": clsStat, "faccessat": clsStat,
	"faccessat2": clsStat, "readlink": clsStat, "readlinkat": clsStat, "getcwd": clsStat, "statfs": clsStat, "chdir": clsStat,
	"getxattr": clsStat, "lgetxattr": clsStat, "listxattr": clsStat, "llistxattr": clsStat, "inotify_add_watch": clsStat, "fanotify_mark": clsStat,
	"wait4": clsProc, "waitid": clsProc, "exit_group": clsProc, "exit": clsProc, "kill": clsProc, "tkill": clsProc, "tgkill": clsProc, "pidfd_open": clsProc,
	"socket": clsNet, "socketpair": clsNet, "connect": clsNet, "bind": clsNet, "listen": clsNet, "accept": clsNet, "accept4": clsNet,
	"sendto": clsNet, "sendmsg": clsNet, "sendmmsg": clsNet, "recvfrom": clsNet, "recvmsg": clsNet, "recvmmsg": clsNet,
	"getsockname": clsNet, "getpeername": clsNet, "getsockopt": clsNet, "setsockopt": clsNet, "shutdown": clsNet,
}

// Paths the Go runtime / glibc open on their own (thread creation, huge page
// size).  None of them can be produced by the hostile arguments, which all
// point into the sentinel directory.
var noisePaths = []string{
	"/sys/devices/system/cpu/online",
	"/sys/kernel/mm/transparent_hugepage/hpage_pmd_size",
	"/proc/self/maps",
	"/proc/self/auxv",
}

type sysEvent struct {
	line int
	pid  int
	name string
	args string // everything after "name(" (entry part and, if any, the resumed part)
	ret  string
	text string // the entry line as written
}

func (e *sysEvent) class() string {
	switch e.name {
	case "clone", "clone3":
		if strings.Contains(e.args, "CLONE_THREAD") {
			return clsThread
		}
		return clsExec
	}
	if c, ok := syscallClass[e.name]; ok {
		return c
	}
	return clsUnknown
}

func (e *sysEvent) noise() bool {
	if e.class() != clsOpen {
		return false
	}
	for _, p := range noisePaths {
		if strings.Contains(e.args, `"`+p+`"`) && strings.Contains(e.args, "O_RDONLY") && !strings.Contains(e.args, "O_CREAT") {
			return true
		}
	}
	return false
}

var (
	lineRE    = regexp.MustCompile(`^(\d+)\s+(.*)$`)
	entryRE   = regexp.MustCompile(`^([a-z_0-9]+)\((.*)$`)
	resumedRE = regexp.MustCompile(`^<\.\.\. ([a-z_0-9]+) resumed>(.*)$`)
	retRE     = regexp.MustCompile(`\)\s+= (-?\d+|\?|0x[0-9a-f]+)(?: .*)?$`)
	markerRE  = regexp.MustCompile(`"/VERIF-(BEGIN|END)-([^"]+)"`)
)

type straceLog struct {
	events  []*sysEvent
	rootPid int
	family  map[int]bool // the threads of the traced process
	creator map[int]*sysEvent
	begin   map[string]int // window id -> index in events of the BEGIN marker
	end     map[string]int
	lines   int
}

func parseStrace(path string) (*straceLog, error) {
	f, err := os.Open(path)
	if err != nil {
		return nil, err
	}
	defer f.Close()
	lg := &straceLog{family: map[int]bool{}, creator: map[int]*sysEvent{}, begin: map[string]int{}, end: map[string]int{}}
	pending := map[int]*sysEvent{}
	sc := bufio.NewScanner(f)
	sc.Buffer(make([]byte, 1<<20), 1<<22)
	for sc.Scan() {
		lg.lines++
		m := lineRE.FindStringSubmatch(sc.Text())
		if m == nil {
			continue
		}
		pid, _ := strconv.Atoi(m[1])
		rest := m[2]
		if lg.rootPid == 0 {
			lg.rootPid = pid
		}
		if strings.HasPrefix(rest, "+++") || strings.HasPrefix(rest, "---") {
			continue
		}
		if rm := resumedRE.FindStringSubmatch(rest); rm != nil {
			if ev := pending[pid]; ev != nil && ev.name == rm[1] {
				ev.args += rm[2]
				if r := retRE.FindStringSubmatch(rm[2]); r != nil {
					ev.ret = r[1]
				}
				delete(pending, pid)
			}
			continue
		}
		em := entryRE.FindStringSubmatch(rest)
		if em == nil {
			continue
		}
		ev := &sysEvent{line: lg.lines, pid: pid, name: em[1], args: em[2], text: sc.Text()}
		if strings.HasSuffix(rest, "<unfinished ...>") {
			ev.args = strings.TrimSuffix(ev.args, "<unfinished ...>")
			pending[pid] = ev
		} else if r := retRE.FindStringSubmatch(rest); r != nil {
			ev.ret = r[1]
		}
		lg.events = append(lg.events, ev)
	}
	if err := sc.Err(); err != nil {
		return nil, err
	}
	// process family: closure of thread creations from the root
	lg.family[lg.rootPid] = true
	for changed := true; changed; {
		changed = false
		for _, ev := range lg.events {
			switch ev.name {
			case "clone", "clone3", "fork", "vfork":
				child, err := strconv.Atoi(ev.ret)
				if err != nil || child <= 0 {
					continue
				}
				if lg.creator[child] == nil {
					lg.creator[child] = ev
				}
				if ev.class() == clsThread && lg.family[ev.pid] && !lg.family[child] {
					lg.family[child] = true
					changed = true
				}
			}
		}
	}
	for i, ev := range lg.events {
		if mm := markerRE.FindStringSubmatch(ev.args); mm != nil && lg.family[ev.pid] {
			if mm[1] == "BEGIN" {
				lg.begin[mm[2]] = i
			} else {
				lg.end[mm[2]] = i
			}
		}
	}
	return lg, nil
}

// windowReport is what happened between the two markers of one window.
type windowReport struct {
	found      bool
	closed     bool
	byClass    map[string][]*sysEvent // events of the process family inside the window (noise excluded)
	noise      int
	spawned    []int       // pids of processes created inside the window
	foreign    []*sysEvent // what those processes (and their descendants) did, wherever it is in the log
	violations []string    // classes among open, fsmod, exec, net that occurred
}

func (lg *straceLog) window(id string) *windowReport {
	r := &windowReport{byClass: map[string][]*sysEvent{}}
	b, ok := lg.begin[id]
	if !ok {
		return r
	}
	r.found = true
	e, ok := lg.end[id]
	if ok {
		r.closed = true
	} else {
		e = len(lg.events)
	}
	spawned := map[int]bool{}
	for i := b + 1; i < e; i++ {
		ev := lg.events[i]
		if !lg.family[ev.pid] {
			continue
		}
		if markerRE.MatchString(ev.args) {
			continue
		}
		if ev.noise() {
			r.noise++
			continue
		}
		c := ev.class()
		r.byClass[c] = append(r.byClass[c], ev)
		if c == clsExec {
			if child, err := strconv.Atoi(ev.ret); err == nil && child > 0 {
				spawned[child] = true
				r.spawned = append(r.spawned, child)
			}
		}
	}
	if len(spawned) > 0 {
		// descendants of the spawned processes
		for changed := true; changed; {
			changed = false
			for child, cr := range lg.creator {
				if spawned[cr.pid] && !spawned[child] {
					spawned[child] = true
					changed = true
				}
			}
		}
		for _, ev := range lg.events {
			if spawned[ev.pid] && len(r.foreign) < 40 {
				r.foreign = append(r.foreign, ev)
			}
		}
	}
	for _, c := range []string{clsOpen, clsFsmod, clsExec, clsNet} {
		if len(r.byClass[c]) > 0 {
			r.violations = append(r.violations, c)
		}
	}
	return r
}

func (r *windowReport) describe(classes ...string) string {
	var b strings.Builder
	for _, c := range classes {
		for i, ev := range r.byClass[c] {
			if i >= 12 {
				fmt.Fprintf(&b, "  ... %d more %s calls\n", len(r.byClass[c])-i, c)
				break
			}
			fmt.Fprintf(&b, "  [%s] line %d: %s\n", c, ev.line, squeeze(ev.text))
			if ev.ret != "" && strings.HasSuffix(ev.text, "<unfinished ...>") {
				fmt.Fprintf(&b, "        = %s\n", ev.ret)
			}
		}
	}
	if len(r.foreign) > 0 {
		fmt.Fprintf(&b, "  processes created in the window: %v; they did:\n", r.spawned)
		for _, ev := range r.foreign {
			fmt.Fprintf(&b, "    line %d: %s\n", ev.line, squeeze(ev.text))
		}
	}
	return b.String()
}

func squeeze(s string) string {
	if len(s) > 300 {
		return s[:300] + "..."
	}
	return s
}
