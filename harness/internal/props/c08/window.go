package c08

import (
	"encoding/json"
	"fmt"
	"net"
	"os"
	"path/filepath"
	"runtime"
	"strings"
	"syscall"
	"time"

	rt "github.com/arnodel/golua/runtime"

	"verif/internal/gl"
	"verif/internal/vp"
)

// A window is one bracketed stretch of execution in the strace log.
type windowRec struct {
	ID       string   `json:"id"`
	Kind     string   `json:"kind"` // "case", "recipe", "control"
	Func     string   `json:"func"`
	Flags    string   `json:"flags"`
	Spelling string   `json:"spelling,omitempty"`
	Args     string   `json:"args,omitempty"`
	Input    string   `json:"input,omitempty"`
	Expect   []string `json:"expect,omitempty"` // control: syscall classes that must be seen
	Refused  *bool    `json:"refused,omitempty"`
}

type winWriter struct {
	f       *os.File
	n       int
	prev    string // metadata snapshot at the end of the previous window
	prevGen int
}

func (w *winWriter) put(rec windowRec) {
	b, _ := json.Marshal(rec)
	w.f.Write(append(b, '\n'))
}

func mark(kind, id string) { syscall.Access("/VERIF-"+kind+"-"+id, 0) }

// childrenState: "none" if the process has no child processes at all;
// otherwise it reaps them (waiting up to half a second for running ones, so
// that their late effects do not land in a later window) and says what it saw.
func childrenState() string {
	var ws syscall.WaitStatus
	reaped, waited := 0, 0
	for {
		pid, err := syscall.Wait4(-1, &ws, syscall.WNOHANG, nil)
		switch {
		case err == syscall.ECHILD:
			if reaped == 0 && waited == 0 {
				return "none"
			}
			return fmt.Sprintf("%d child process(es) reaped", reaped)
		case err == syscall.EINTR:
			continue
		case err != nil:
			return "wait4: " + err.Error()
		case pid == 0:
			waited++
			if waited > 100 {
				return fmt.Sprintf("%d child process(es) reaped, at least one still running", reaped)
			}
			time.Sleep(5 * time.Millisecond)
		default:
			reaped++
		}
	}
}

func warmUp(fx *fixture) {
	time.Now().Local().Zone()
	time.Now().Format(time.RFC1123)
	os.Hostname()
	os.Getwd()
	os.TempDir()
	// threads, coroutine goroutines, the compiler, the GC
	se, err := newSession(fx)
	if err == nil {
		se.runSrc("warm", `
			local co = coroutine.wrap(function() for i = 1, 3 do coroutine.yield(i) end end)
			co() co()
			local t = {}
			for i = 1, 2000 do t[i] = tostring(i) end
			return runtime.callcontext({flags="iosafe cpusafe memsafe timesafe"}, function() return os.date(), os.time(), os.clock(), os.getenv("HOME") end)`)
		se.close()
	}
	runtime.GC()
}

func runIosafe(c *vp.Child) {
	fx := newFixture(c.WorkDir)
	wf, err := os.Create(filepath.Join(c.WorkDir, "windows.jsonl"))
	if err != nil {
		c.Violation("harness", "windows file", err.Error(), "")
		return
	}
	defer wf.Close()
	w := &winWriter{f: wf}
	warmUp(fx)
	if st := childrenState(); st != "none" {
		c.Inconclusive("child processes before the first window: " + st)
	}
	runControls(c, fx, w, "a")
	runCases(c, fx, w)
	runRecipes(c, fx, w)
	runControls(c, fx, w, "z")
}

// window runs body between the markers and does the child-side checks: the
// sentinel tree (names, inode, mode, size, mtime, ctime at every window
// boundary; plus content hashes against the pristine tree every 8th window)
// and the process's children.  It returns the description of a tree change
// ("" if none) and the children state ("none" if there are none).
func (w *winWriter) window(c *vp.Child, fx *fixture, rec windowRec, body func()) (treeDiff, children string) {
	if w.prev == "" || w.prevGen != fx.gen {
		w.prev, w.prevGen = snapshot(fx.sent, false), fx.gen
	}
	w.put(rec)
	mark("BEGIN", rec.ID)
	body()
	mark("END", rec.ID)
	after := snapshot(fx.sent, false)
	if after != w.prev {
		treeDiff = diffSnap(w.prev, after)
	}
	w.prev = after
	children = childrenState()
	w.n++
	if treeDiff == "" && (w.n%8 == 0 || rec.Kind != "case") {
		if full := snapshot(fx.sent, true); full != fx.base {
			treeDiff = "(content comparison with the pristine tree)\n" + diffSnap(fx.base, full)
		}
	}
	return
}

// ---------------------------------------------------------------------------
// Positive controls: OUTSIDE the claimed verdicts.  Contexts that do not
// require iosafe (or the harness itself) perform file, process and network
// operations between markers; the parent must find each of them in the log,
// and the child-side tree / child-process checks must see them too.

func runControls(c *vp.Child, fx *fixture, w *winWriter, tag string) {
	id := func(n string) string { return fmt.Sprintf("ctl-%s-%s-b%d", n, tag, c.Batch) }
	lua := func(name, flags, src string, expect []string, wantTree, wantChild bool) {
		se, err := newSession(fx)
		if err != nil {
			c.Inconclusive("control session: " + err.Error())
			return
		}
		defer se.close()
		clos, err := se.load(name, "local SENT = ...\nreturn runtime.callcontext({flags=\""+flags+"\"}, function()\n"+src+"\nend)")
		if err != nil {
			c.Inconclusive("control does not compile: " + err.Error())
			return
		}
		rec := windowRec{ID: id(name), Kind: "control", Func: "control:" + name, Flags: flags, Input: src, Expect: expect}
		var o *gl.Outcome
		diff, ch := w.window(c, fx, rec, func() {
			o = se.s.Call(rt.FunctionValue(clos), []rt.Value{rt.StringValue(fx.sent)})
		})
		if o.Kind != gl.OK {
			c.Inconclusive("control " + name + " failed: " + o.String())
		}
		if wantTree && diff == "" {
			c.Inconclusive("control " + name + ": the sentinel tree comparison did not see the change")
		}
		if wantChild && ch == "none" {
			c.Inconclusive("control " + name + ": the child-process check did not see the spawned process")
		}
		c.Feature("control/"+name, 1)
		fx.restore()
	}
	lua("open", "cpusafe memsafe", `local f = assert(io.open(SENT.."/keep.txt", "r")) local s = f:read("a") f:close() return s`, []string{"open"}, false, false)
	lua("create", "", `local f = assert(io.open(SENT.."/ctl-created.txt", "w")) f:write("x") f:close()`, []string{"open"}, true, false)
	lua("remove", "cpusafe", `assert(os.remove(SENT.."/victim.txt"))`, []string{"fsmod"}, true, false)
	lua("rename", "timesafe", `assert(os.rename(SENT.."/victim.txt", SENT.."/moved.txt"))`, []string{"fsmod"}, true, false)
	lua("popen", "cpusafe memsafe", `local p = assert(io.popen("echo ctl > "..SENT.."/ctl-popen.txt")) p:read("a") p:close()`, []string{"exec"}, true, false)
	lua("popen-unreaped", "", `local p = assert(io.popen("exit 0")) p:read("a")`, []string{"exec"}, false, true)
	lua("searchpath", "", `return package.searchpath("mod", SENT.."/?.lua")`, []string{"open"}, false, false)
	lua("quiet", "iosafe", `local t = {} for i = 1, 100 do t[i] = tostring(i) end local co = coroutine.wrap(function() coroutine.yield(1) end) co() return #t, os.time(), os.date(), os.clock()`, nil, false, false)
	// harness-level operations for the classes no library function reaches
	goCtl := func(name string, expect []string, wantTree bool, op func()) {
		rec := windowRec{ID: id(name), Kind: "control", Func: "control:" + name, Expect: expect}
		diff, _ := w.window(c, fx, rec, op)
		if wantTree && diff == "" {
			c.Inconclusive("control " + name + ": the sentinel tree comparison did not see the change")
		}
		c.Feature("control/"+name, 1)
		fx.restore()
	}
	goCtl("go-mkdir", []string{"fsmod"}, true, func() { os.Mkdir(filepath.Join(fx.sent, "ctl-dir"), 0o755) })
	goCtl("go-chmod", []string{"fsmod"}, true, func() { os.Chmod(filepath.Join(fx.sent, "keep.txt"), 0o600) })
	goCtl("go-truncate", []string{"fsmod"}, true, func() { os.Truncate(filepath.Join(fx.sent, "keep.txt"), 1) })
	goCtl("go-rewrite-same-size", []string{"open"}, true, func() { os.WriteFile(filepath.Join(fx.sent, "keep.txt"), []byte("KEEP\n"), 0o644) })
	goCtl("go-connect", []string{"net"}, false, func() {
		if cn, err := net.DialTimeout("tcp", "127.0.0.1:9", 200*time.Millisecond); err == nil {
			cn.Close()
		}
	})
}

// ---------------------------------------------------------------------------
// Cases: every reachable function, hostile tuples, every spelling, in
// contexts that require iosafe.

func ioSets(r intner, n int) []int {
	// {iosafe} always; then the other supersets
	sets := []int{ioBit}
	others := []int{ioBit | 1, ioBit | 2, ioBit | 3, ioBit | 4, ioBit | 5, ioBit | 6, ioBit | 7}
	for len(sets) < n && len(others) > 0 {
		i := r.Intn(len(others))
		sets = append(sets, others[i])
		others = append(others[:i], others[i+1:]...)
	}
	return sets
}

func runCases(c *vp.Child, fx *fixture, w *winWriter) {
	paths, err := enumerate(fx)
	if err != nil {
		c.Violation("harness", "enumeration", err.Error(), "")
		return
	}
	if c.Batch == 0 {
		c.Feature("functions-enumerated", int64(len(paths)))
	}
	nTuples := c.Pick(4, 24)
	nSets := c.Pick(2, 4)
	seq, samples := 0, 0
	for fi := range paths {
		if !c.Mine(fi) {
			continue
		}
		path := &paths[fi]
		name := path.name
		r := c.Rand("tuples/" + name)
		for ti := 0; ti < nTuples; ti++ {
			exprs := genTuple(r, name, ti)
			hostile := false
			for _, e := range exprs {
				if isHostileExpr(e) {
					hostile = true
				}
			}
			for _, s := range ioSets(r, nSets) {
				for ci, class := range spellClasses {
					spelling := class[(ti+s)%len(class)]
					se, err := newSession(fx)
					if err != nil {
						c.Violation("harness", "session setup", err.Error(), "")
						return
					}
					f, err := se.resolve(path)
					if err != nil {
						c.Violation("harness", "function vanished "+name, err.Error(), "")
						se.close()
						continue
					}
					if spelling == "load_expr" && f.expr == "" {
						spelling = "load_vararg"
					}
					seq++
					id := fmt.Sprintf("b%d-%d", c.Batch, seq)
					input := caseInput(f, s, spelling, exprs)
					c.Begin(id+" "+name+" "+setName(s)+" "+spelling, input)
					tuple, err := se.evalTuple(exprs, f.v)
					if err != nil {
						c.Violation("harness", "argument tuple "+strings.Join(exprs, ","), err.Error(), input)
						se.close()
						continue
					}
					rec := windowRec{ID: id, Kind: "case", Func: name, Flags: setName(s), Spelling: spelling, Args: strings.Join(exprs, ", "), Input: input}
					var res callResult
					diff, ch := w.window(c, fx, rec, func() { res = se.call(f, s, spelling, tuple) })
					c.Eval(1)
					c.Feature("spelling/"+spellClassNames[ci], 1)
					if res.refused {
						c.Feature("refused-in-window", 1)
					} else {
						c.Feature("ran-in-window", 1)
						c.Feature("ran-outcome/"+res.out.Kind, 1)
					}
					if hostile || !res.refused {
						c.NonTrivial(vp.Hash("iosafe", name, setName(s), spelling, strings.Join(exprs, ",")))
					}
					judgeWindowChild(c, fx, name, diff, ch, input)
					if c.WantSample() && hostile && !res.refused && ti > 1 && samples < 2 && strings.HasPrefix(name, "io") {
						samples++
						c.Sample(map[string]interface{}{"window": id, "function": name, "required": setName(s), "spelling": spelling,
							"arguments": strings.Join(exprs, ", "), "result": res.post + " " + res.out.Kind + " " + res.out.ErrMsg,
							"checked": "strace log between /VERIF-BEGIN-" + id + " and /VERIF-END-" + id + ", sentinel tree, child processes"})
					}
					se.close()
				}
			}
		}
	}
	// a final full comparison with the pristine tree
	if now := snapshot(fx.sent, true); now != fx.base {
		c.Violation("iosafe-tree", "end-of-batch", "sentinel tree differs from the pristine one at the end of the batch:\n"+diffSnap(fx.base, now), "")
		fx.rebuild()
	}
}

func judgeWindowChild(c *vp.Child, fx *fixture, name, diff, children, input string) {
	if diff != "" {
		c.Violation("iosafe-tree", name, "the sentinel directory changed during a window in which the context required iosafe:\n"+diff, input)
		fx.rebuild()
	}
	if children != "none" {
		c.Violation("iosafe-child", name, "after a window in which the context required iosafe the process has child processes: "+children, input)
	}
}

// ---------------------------------------------------------------------------
// Recipes: small hostile programs (several calls, idiomatic use) run inside
// runtime.callcontext({flags=...}) spelled in Lua.

type recipe struct{ name, src string }

// recipePre is host code run before the iosafe context is entered (outside the
// sandbox), per recipe.
var recipePre = map[string]string{
	"resume-coroutine-suspended-in-outer-pcall": `local co = coroutine.wrap(function() pcall(function() coroutine.yield() end) coroutine.yield() end) co()`,
}

var recipes = []recipe{
	{"open-write", `local f = io.open(P, "w") if f then f:write("pwn") f:close() end`},
	{"open-append", `local f = io.open(K, "a") if f then f:write("pwn") f:flush() f:close() end`},
	{"open-read", `local f = io.open(K, "r") if f then emit(f:read("a")) f:close() end`},
	{"lines", `for l in io.lines(D) do emit(l) end`},
	{"lines-fmt", `for a, b in io.lines(D, "n", "l") do emit(a, b) end`},
	{"output-write", `io.output(P) io.write("pwn") io.flush() io.close()`},
	{"input-read", `io.input(D) emit(io.read("a"))`},
	{"require", `package.path = SENT.."/?.lua" local m = require("mod") emit(m)`},
	{"require-rel", `package.path = "./sentinel/?.lua;sentinel/?/init.lua" local m = require("mod") emit(m)`},
	{"searcher", `package.path = SENT.."/?.lua" local l, p = package.searchers[2]("mod") emit(l, p) if type(l) == "function" then l("mod", p) end`},
	{"searchpath", `emit(package.searchpath("mod", SENT.."/?.lua"))`},
	{"loadfile", `local f = loadfile(SENT.."/mod.lua") if f then f() end`},
	{"dofile", `dofile(SENT.."/mod.lua")`},
	{"rename", `emit(os.rename(V, SENT.."/moved.txt"))`},
	{"remove", `emit(os.remove(V))`},
	{"remove-dir", `emit(os.remove(SENT.."/sub/inner.txt")) emit(os.remove(SENT.."/sub"))`},
	{"popen-read", `local p = io.popen("echo pwn > "..SENT.."/pwn") if p then p:read("a") p:close() end`},
	{"popen-write", `local p = io.popen("cat > "..SENT.."/pwn", "w") if p then p:write("pwn") p:close() end`},
	{"popen-lines", `for l in io.popen("cat "..K):lines() do emit(l) end`},
	{"tmpfile", `local f = io.tmpfile() if f then f:write("x") f:close() end`},
	{"tmpname", `emit(os.tmpname())`},
	{"goimport", `emit(golib.import("os"))`},
	{"goimport-path", `emit(golib.import(SENT.."/plugin", true))`},
	{"load-text", `local g = load("return io.open(...)") local f = g(P, "w") if f then f:write("pwn") f:close() end`},
	{"load-text-popen", `local g = load("local p = io.popen(...) return p and p:read('a')") g("echo pwn > "..SENT.."/pwn")`},
	{"gsub-remove", `string.gsub(V, ".+", os.remove)`},
	{"gsub-open", `string.gsub(P, ".+", function(p) local f = io.open(p, "w") if f then f:close() end end)`},
	{"wrap-open", `local f = coroutine.wrap(io.open)(P, "w") if f then f:close() end`},
	{"coroutine-popen", `local co = coroutine.create(function(c) local p = io.popen(c) return p and p:read("a") end) coroutine.resume(co, "echo pwn > "..SENT.."/pwn")`},
	{"index-open", `local o = setmetatable({}, {__index = function(_, k) return io.open(k, "w") end}) local f = o[P] if f then f:close() end`},
	{"call-popen", `local o = setmetatable({}, {__call = function(_, c) return io.popen(c) end}) local p = o("echo pwn > "..SENT.."/pwn") if p then p:read("a") end`},
	{"concat-remove", `local o = setmetatable({}, {__concat = os.remove}) local _ = V .. o`},
	{"close-remove", `do local x <close> = setmetatable({}, {__close = function() os.remove(V) end}) end`},
	{"handler-open", `xpcall(error, function(m) local f = io.open(P, "w") if f then f:close() end return m end, "x")`},
	{"nested-drop-flags", `runtime.callcontext({flags = ""}, function() pcall(function() local f = io.open(P, "w") if f then f:write("pwn") f:close() end end) local p = io.popen("echo pwn > "..SENT.."/pwn") if p then p:read("a") end end)`},
	{"nested-drop-flags-2", `runtime.callcontext({flags = "cpusafe"}, function() pcall(os.remove, V) pcall(dofile, SENT.."/mod.lua") local f = loadfile(SENT.."/mod.lua") if f then f() end end)`},
	{"nested-limits", `runtime.callcontext({kill = {cpu = 100000}}, function() pcall(function() local f = io.open(P, "w") if f then f:close() end end) pcall(os.remove, V) pcall(require, "sentinel.mod") end)`},
	{"remove-protected", `pcall(os.remove, SENT.."/sub/inner.txt") pcall(os.remove, SENT.."/sub") pcall(os.rename, K, SENT.."/k2") pcall(io.lines, D) pcall(io.input, D) pcall(io.output, P) pcall(io.tmpfile) pcall(os.tmpname)`},
	{"hook-open", `debug.sethook(function() local f = io.open(P, "w") if f then f:close() end end, "", 1) for i = 1, 10 do end debug.sethook()`},
	{"stdout-path", `local f = io.stdout f:write("") emit(io.type(f)) emit(pcall(f.seek, f, "cur"))`},
	// the host hands the sandbox a coroutine that is suspended inside a pcall made OUTSIDE the
	// sandbox; resuming it inside lets that pcall finish there
	{"resume-coroutine-suspended-in-outer-pcall", `pcall(co) local f = io.open(P, "w") if f then f:write("pwn") f:close() end pcall(os.remove, V)`},
	// an error escapes the sandboxed function while a to-be-closed variable is pending: its
	// handler still runs inside the sandbox (always spelled unprotected, see runRecipes)
	{"escaping-error-close-handler-io", `local x <close> = setmetatable({}, {__close = function() os.remove(V) local f = io.open(P, "w") if f then f:write("pwn") f:close() end local p = io.popen("echo pwn > "..SENT.."/pwn") if p then p:read("a") end end}) error("boom")`},
	{"escaping-error-two-close-handlers", `local y <close> = setmetatable({}, {__close = function() pcall(os.remove, V) pcall(dofile, SENT.."/mod.lua") end}) local x <close> = setmetatable({}, {__close = function() error("again") end}) error({})`},
	{"getenv-date", `emit(os.getenv("HOME"), os.getenv("PATH") ~= nil) emit(os.date("%Y"), os.time(), os.clock())`},
}

func runRecipes(c *vp.Child, fx *fixture, w *winWriter) {
	seq := 0
	idx := 0
	for _, rc := range recipes {
		for s := 0; s < 16; s++ {
			if s&ioBit == 0 {
				continue
			}
			for wrap := 0; wrap < 3; wrap++ {
				idx++
				if !c.Mine(idx) {
					continue
				}
				escaping := strings.HasPrefix(rc.name, "escaping-")
				if wrap > 0 && !c.Thorough() && (idx/3)%4 != 0 && !escaping {
					continue
				}
				seq++
				id := fmt.Sprintf("b%d-r%d", c.Batch, seq)
				body := "local P, K, D, V = SENT..\"/new.txt\", SENT..\"/keep.txt\", SENT..\"/data.txt\", SENT..\"/victim.txt\"\n"
				form := wrap
				if escaping {
					form = 2 // the error must leave the context function
				}
				switch form {
				case 0: // every statement group protected, so later ones still run
					body += "pcall(function() " + rc.src + " end)"
				case 1: // inside a coroutine
					body += "local co = coroutine.wrap(function() " + rc.src + " end) pcall(co)"
				case 2: // unprotected: the first refusal ends the context function
					body += rc.src
				}
				// limits whose flags the set already contains are added to every other
				// definition: flags and limits given together must both take effect
				lim := ""
				if idx%2 == 0 && s&1 != 0 {
					lim = ", kill={cpu=1000000000}"
				} else if idx%2 == 0 && s&2 != 0 {
					lim = ", kill={memory=1000000000}"
				}
				src := "local SENT = ...\n" + recipePre[rc.name] + "\nreturn runtime.callcontext({flags=\"" + flagString(s) + "\"" + lim + "}, function()\n" + body + "\nend)"
				se, err := newSession(fx)
				if err != nil {
					c.Violation("harness", "session setup", err.Error(), "")
					return
				}
				name := "recipe:" + rc.name
				c.Begin(id+" "+name+" "+setName(s), src)
				clos, err := se.load(rc.name, src)
				if err != nil {
					c.Violation("harness", "recipe "+rc.name, err.Error(), src)
					se.close()
					continue
				}
				rec := windowRec{ID: id, Kind: "recipe", Func: name, Flags: setName(s), Spelling: []string{"pcall", "coroutine", "plain"}[wrap], Input: src}
				var o *gl.Outcome
				diff, ch := w.window(c, fx, rec, func() {
					o = se.s.Call(rt.FunctionValue(clos), []rt.Value{rt.StringValue(fx.sent)})
				})
				c.Eval(1)
				c.Feature("recipe-windows", 1)
				c.Feature("recipe-outcome/"+o.Kind, 1)
				c.NonTrivial(vp.Hash("recipe", rc.name, setName(s), fmt.Sprint(wrap)))
				judgeWindowChild(c, fx, name, diff, ch, src)
				if c.WantSample() && wrap == 0 && s == ioBit && seq%5 == 1 {
					c.Sample(map[string]interface{}{"window": id, "recipe": rc.name, "program": src, "outcome": o.String()})
				}
				se.close()
			}
		}
	}
}
