package c08

import (
	"fmt"
	"sort"
	"strings"

	"verif/internal/gl"
	"verif/internal/vp"
)

// Functions that are not executed under the EMPTY flag set (nothing is
// required there, so nothing is claimed about them; running them would end
// the process / start the Go tool chain).  Under every non-empty set they are
// called like all others.
var skipUnconstrained = map[string]bool{"os.exit": true, "golib.import": true}

func caseInput(f *fn, s int, spelling string, exprs []string) string {
	return fmt.Sprintf("function: %s\nrequired flags: %s\nspelling: %s\narguments: (%s)\n"+
		"-- SENT = sentinel directory, T = {1,2,3,x=\"x\"}, CB = function(...) emit(\"cb\") return ... end,\n"+
		"-- CO = suspended coroutine emitting \"co\", F = the function itself; the call runs inside\n"+
		"-- Runtime.CallContext(RuntimeContextDef{RequiredFlags: %s})", f.name, setName(s), spelling, strings.Join(exprs, ", "), setName(s))
}

type gateStats struct {
	refused, accepted [16]int
	refusedBy         [16]string // one spelling+tuple that was refused
	acceptedBy        [16]string
}

func runGate(c *vp.Child) {
	fx := newFixture(c.WorkDir)
	paths, err := enumerate(fx)
	if err != nil {
		c.Violation("harness", "enumeration", err.Error(), "")
		return
	}
	se, err := newSession(fx)
	if err != nil {
		c.Violation("harness", "session setup", err.Error(), "")
		return
	}
	if c.Batch == 0 {
		c.Feature("functions-enumerated", int64(len(paths)))
		var all []string
		for _, p := range paths {
			all = append(all, p.name)
		}
		c.Output("functions", strings.Join(all, "\n"))
	}
	nTuples := c.Pick(4, 32)
	fresh := func() bool {
		se.close()
		se, err = newSession(fx)
		if err != nil {
			c.Violation("harness", "session setup", err.Error(), "")
			return false
		}
		return true
	}
	for fi := range paths {
		if !c.Mine(fi) {
			continue
		}
		path := &paths[fi]
		name := path.name
		var st gateStats
		r := c.Rand("tuples/" + name) // same tuples whatever the batch layout
		for ti := 0; ti < nTuples; ti++ {
			exprs := genTuple(r, name, ti)
			hostile := false
			for _, e := range exprs {
				if isHostileExpr(e) {
					hostile = true
				}
			}
			se.dirty = true // a fresh runtime for every (function, tuple)
			for s := 0; s < 16; s++ {
				if s == 0 && skipUnconstrained[name] {
					continue
				}
				for ci, class := range spellClasses {
					spelling := class[(ti+s)%len(class)]
					if se.dirty {
						if !fresh() {
							return
						}
					}
					f, err := se.resolve(path)
					if err != nil {
						c.Violation("harness", "function vanished "+name, err.Error(), "")
						se.dirty = true
						continue
					}
					if spelling == "load_expr" && f.expr == "" {
						spelling = "load_vararg"
					}
					input := caseInput(f, s, spelling, exprs)
					caseID := fmt.Sprintf("%s %s %s #%d", name, setName(s), spelling, ti)
					c.Begin(caseID, input)
					tuple, err := se.evalTuple(exprs, f.v)
					if err != nil {
						c.Violation("harness", "argument tuple "+strings.Join(exprs, ","), err.Error(), input)
						se.dirty = true
						continue
					}
					res := se.call(f, s, spelling, tuple)
					c.Eval(1)
					c.Feature("spelling/"+spellClassNames[ci], 1)
					if s != 0 {
						c.NonTrivial(vp.Hash("gate", name, setName(s), spelling, strings.Join(exprs, ",")))
					}
					if res.refused {
						st.refused[s]++
						if st.refusedBy[s] == "" {
							st.refusedBy[s] = spelling + "(" + strings.Join(exprs, ", ") + ")"
						}
						c.Feature("refused", 1)
						checkRefusal(c, se, f, s, spelling, res, input)
						if se.dirty {
							fx.restore()
						}
					} else {
						st.accepted[s]++
						if st.acceptedBy[s] == "" {
							st.acceptedBy[s] = spelling + "(" + strings.Join(exprs, ", ") + ")"
						}
						c.Feature("accepted", 1)
						c.Feature("accepted-outcome/"+res.out.Kind, 1)
						if strings.HasPrefix(spelling, "go-") && res.entered == 0 {
							c.Violation("gate-no-error", fmt.Sprintf("%s %s", name, setName(s)),
								fmt.Sprintf("%s called under %s: the function body was not entered (hook count 0) but the call did not fail with the refusal error: %s",
									name, setName(s), res.out.String()), input)
						}
						// keep the runtime for the next call only if nothing the
						// checks rely on can have changed
						if strings.HasPrefix(name, "debug.") || se.state() != se.base {
							se.dirty = true
						}
						// a process started by an allowed call (io.popen without
						// iosafe) may still be writing: wait for it before restoring
						if st := childrenState(); st != "none" {
							c.Feature("accepted-call-started-process", 1)
						}
						fx.restore()
					}
					if c.WantSample() && c.Batch == 0 && s == 9 && res.refused && hostile && (ci == 1 || ci == 3) {
						c.Sample(map[string]interface{}{"function": name, "required": setName(s), "spelling": spelling,
							"arguments": strings.Join(exprs, ", "), "result": "refused: " + res.post + res.out.ErrMsg, "context_status": res.out.CtxStatus})
					}
				}
			}
		}
		judgeGate(c, name, &st)
	}
	se.close()
}

// checkRefusal: a refusal must be an ordinary, catchable error that leaves no
// effect and lets the context continue.
func checkRefusal(c *vp.Child, se *session, f *fn, s int, spelling string, res callResult, input string) {
	sig := fmt.Sprintf("%s %s", f.name, setName(s))
	if res.entered > 0 {
		c.Violation("gate-ran-refused", sig, fmt.Sprintf("%s under %s failed with the refusal error but %d Go function bodies were entered", f.name, setName(s), res.entered), input)
		se.dirty = true
	}
	if eff := se.effectsAfterRefusal(); eff != "" {
		c.Violation("gate-effect", sig, fmt.Sprintf("%s under %s (%s) was refused (%s%s) but had an effect: %s", f.name, setName(s), spelling, res.post, res.out.ErrMsg, eff), input)
		se.dirty = true
	}
	switch spelling {
	case "go-pushcontext":
		// no CallContext here, so no status to set: the call just returns the error
		if res.out.Kind != gl.LuaError {
			c.Violation("gate-not-ordinary", sig+" "+spelling, fmt.Sprintf("refusal of %s under %s between PushContext/PopContext: outcome %s", f.name, setName(s), res.out.Kind), input)
			se.dirty = true
		}
	case "go-direct", "direct":
		// the error ends the function run in the context: status must be "error", not "killed"
		if res.out.Kind != gl.LuaError || res.out.CtxStatus != "error" {
			c.Violation("gate-not-ordinary", sig+" "+spelling, fmt.Sprintf("uncaught refusal of %s under %s: outcome %s, context status %q (expected an ordinary error, status \"error\")",
				f.name, setName(s), res.out.Kind, res.out.CtxStatus), input)
			se.dirty = true
		}
	default:
		if !res.caught {
			c.Violation("gate-not-catchable", sig+" "+spelling, fmt.Sprintf("refusal of %s under %s escaped the protecting construct of spelling %s: %s",
				f.name, setName(s), spelling, res.out.String()), input)
			se.dirty = true
		} else if !res.alive || res.out.Kind != gl.OK || res.out.CtxStatus != "done" {
			c.Violation("gate-context-stopped", sig+" "+spelling, fmt.Sprintf("after the refusal of %s under %s the context did not keep running: alive=%v outcome=%s status=%q\n%s",
				f.name, setName(s), res.alive, res.out.Kind, res.out.CtxStatus, res.out.String()), input)
			se.dirty = true
		}
	}
	// the runtime is usable afterwards (outside the context)
	if !se.dirty {
		se.s.Trace = nil
		o := se.s.Call(se.CB, nil)
		if o.Kind != gl.OK || len(o.Trace) != 1 {
			c.Violation("gate-runtime-broken", sig, "after a refusal the runtime does not run a plain function: "+o.String(), input)
			se.dirty = true
		}
	}
}

func judgeGate(c *vp.Child, name string, st *gateStats) {
	declared := 0
	for s := 0; s < 16; s++ {
		if st.refused[s] > 0 && st.accepted[s] > 0 {
			c.Violation("gate-inconsistent", fmt.Sprintf("%s %s", name, setName(s)),
				fmt.Sprintf("%s under %s: refused in %d calls (e.g. %s) but ran in %d calls (e.g. %s): whether a function is gated must not depend on spelling or arguments",
					name, setName(s), st.refused[s], st.refusedBy[s], st.accepted[s], st.acceptedBy[s]), "")
		}
		if st.accepted[s] > 0 {
			declared |= s
		}
	}
	// refusals must be upward closed: refused under S' and S' subset of S => refused under S
	for s := 0; s < 16; s++ {
		if st.accepted[s] == 0 {
			continue
		}
		for sub := 0; sub < 16; sub++ {
			if sub&s == sub && sub != s && st.refused[sub] > 0 {
				c.Violation("gate-not-upward-closed", fmt.Sprintf("%s %s>%s", name, setName(s), setName(sub)),
					fmt.Sprintf("%s is refused under %s (%s) but runs under the larger requirement %s (%s)", name, setName(sub), st.refusedBy[sub], setName(s), st.acceptedBy[s]), "")
			}
		}
	}
	c.Feature("declared-set/"+setName(declared), 1)
	var acc []string
	for s := 0; s < 16; s++ {
		if st.accepted[s] > 0 {
			acc = append(acc, setName(s))
		}
	}
	sort.Strings(acc)
	c.Output("gate/"+name, "accepted under: "+strings.Join(acc, " "))
}
