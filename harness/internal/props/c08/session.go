package c08

import (
	"crypto/sha256"
	"fmt"
	"hash/fnv"
	"os"
	"path/filepath"
	"runtime/debug"
	"sort"
	"strconv"
	"strings"
	"sync"
	"syscall"

	"github.com/arnodel/golua/code"
	rt "github.com/arnodel/golua/runtime"

	"verif/internal/gl"
)

// ---------------------------------------------------------------------------
// The sentinel directory: the only part of the file system the hostile
// arguments point at.  It lives inside the batch's work directory.

type fixture struct {
	work string // batch work dir (also the cwd of the child)
	sent string // absolute path of the sentinel directory
	base string // snapshot (with content hashes) of the pristine sentinel directory
	meta string // metadata-only snapshot of the pristine directory
	gen  int    // incremented whenever the tree is rebuilt
	n    int
}

var fixtureFiles = map[string]string{
	"keep.txt":      "keep\n",
	"data.txt":      "12 line one\nline two\n3.5\n",
	"victim.txt":    "victim\n",
	"mod.lua":       "emit('mod-ran')\nreturn {loaded = true}\n",
	"sub/inner.txt": "inner\n",
	"plugin/x.go":   "package x\n",
}

func newFixture(work string) *fixture {
	fx := &fixture{work: work, sent: filepath.Join(work, "sentinel")}
	os.MkdirAll(filepath.Join(work, "tmp"), 0o755)
	os.MkdirAll(filepath.Join(work, "home"), 0o755)
	os.Setenv("TMPDIR", filepath.Join(work, "tmp"))
	os.Chdir(work)
	// The io library wraps os.Stdout/os.Stderr and fsyncs them whenever a
	// runtime is closed; the batch log is a regular file, so point the
	// library's standard streams at /dev/null (already-open streams, no
	// verdict depends on them).  Go's own crash output still goes to fd 2.
	if null, err := os.OpenFile("/dev/null", os.O_RDWR, 0); err == nil {
		os.Stdout, os.Stderr = null, null
	}
	fx.rebuild()
	return fx
}

// rebuild recreates the pristine sentinel tree and records its snapshot.
func (fx *fixture) rebuild() {
	os.RemoveAll(fx.sent)
	for name, content := range fixtureFiles {
		p := filepath.Join(fx.sent, name)
		os.MkdirAll(filepath.Dir(p), 0o755)
		os.WriteFile(p, []byte(content), 0o644)
	}
	fx.base = snapshot(fx.sent, true)
	fx.meta = snapshot(fx.sent, false)
	fx.gen++
}

// restore brings the tree back to pristine if it differs (after calls that
// were allowed to touch it).
func (fx *fixture) restore() {
	if snapshot(fx.sent, false) != fx.meta {
		fx.rebuild()
	}
}

// changed compares the tree with the pristine one: metadata (which includes
// ctime, so any write shows) every time, content hashes every 16th time.
func (fx *fixture) changed() string {
	fx.n++
	if now := snapshot(fx.sent, false); now != fx.meta {
		return diffSnap(fx.meta, now)
	}
	if fx.n%16 == 0 {
		if now := snapshot(fx.sent, true); now != fx.base {
			return diffSnap(fx.base, now)
		}
	}
	return ""
}

// snapshot lists the tree: relative name, inode, mode, size, mtime, ctime and
// (withHash) a content hash, sorted by name.
func snapshot(dir string, withHash bool) string {
	var lines []string
	filepath.Walk(dir, func(p string, info os.FileInfo, err error) error {
		if err != nil {
			lines = append(lines, p+" ERR "+err.Error())
			return nil
		}
		rel, _ := filepath.Rel(dir, p)
		l := fmt.Sprintf("%s mode=%v size=%d mtime=%d", rel, info.Mode(), info.Size(), info.ModTime().UnixNano())
		if info.IsDir() {
			l = fmt.Sprintf("%s mode=%v mtime=%d", rel, info.Mode(), info.ModTime().UnixNano())
		}
		if st, ok := info.Sys().(*syscall.Stat_t); ok {
			l += fmt.Sprintf(" ino=%d ctime=%d.%d", st.Ino, st.Ctim.Sec, st.Ctim.Nsec)
		}
		if withHash && info.Mode().IsRegular() {
			b, err := os.ReadFile(p)
			if err != nil {
				l += " unreadable"
			} else {
				l += fmt.Sprintf(" sha=%x", sha256.Sum256(b))
			}
		}
		lines = append(lines, l)
		return nil
	})
	sort.Strings(lines)
	return strings.Join(lines, "\n")
}

// diffSnap describes what differs between two snapshots (for the reports).
func diffSnap(a, b string) string {
	am := map[string]bool{}
	for _, l := range strings.Split(a, "\n") {
		am[l] = true
	}
	bm := map[string]bool{}
	for _, l := range strings.Split(b, "\n") {
		bm[l] = true
	}
	var out []string
	for _, l := range strings.Split(a, "\n") {
		if !bm[l] {
			out = append(out, "- "+l)
		}
	}
	for _, l := range strings.Split(b, "\n") {
		if !am[l] {
			out = append(out, "+ "+l)
		}
	}
	return strings.Join(out, "\n")
}

// ---------------------------------------------------------------------------
// Flag sets

var flagNames = []string{"cpusafe", "memsafe", "timesafe", "iosafe"}
var flagBits = []rt.ComplianceFlags{rt.ComplyCpuSafe, rt.ComplyMemSafe, rt.ComplyTimeSafe, rt.ComplyIoSafe}

const ioBit = 8 // index of iosafe in the 4-bit set encoding

func flagsOf(s int) rt.ComplianceFlags {
	var f rt.ComplianceFlags
	for i, b := range flagBits {
		if s&(1<<i) != 0 {
			f |= b
		}
	}
	return f
}

func flagString(s int) string {
	var n []string
	for i, name := range flagNames {
		if s&(1<<i) != 0 {
			n = append(n, name)
		}
	}
	return strings.Join(n, " ")
}

func setName(s int) string {
	if s == 0 {
		return "{}"
	}
	return "{" + strings.ReplaceAll(flagString(s), " ", ",") + "}"
}

// ---------------------------------------------------------------------------
// Sessions: a fresh runtime with the standard library, the sentinels used to
// observe effects, the call spellings and the enumeration of Go functions.

type step struct {
	kind byte // 'k' string key, 'i' integer key, 'm' metatable
	s    string
	i    int64
}

// fnPath is how a Go function was reached by the walk; it is resolved again
// in every fresh runtime.
type fnPath struct {
	name  string // canonical path, e.g. io.open, io.stderr<mt>.__index.read, string.gmatch()
	expr  string // Lua expression denoting it from the global environment ("" if none)
	root  string // "G" global environment, "S" string metatable, otherwise the key of a produced value
	steps []step
}

type fn struct {
	name string
	expr string
	v    rt.Value
}

type session struct {
	ncalls int // calls made so far (limits are added to every other context definition)
	s      *gl.Sess
	fx     *fixture
	prod   *rt.Table // produced values, made on demand
	T      *rt.Table
	CB, CO rt.Value
	bodies *rt.Table
	check  rt.Value
	base   string // state baseline
	dirty  bool   // an accepted call may have changed interpreter state
}

const preludeSrc = `
local SENT = ...
local K = {}
K.T = {1, 2, 3, x = "x"}
K.CB = function(...) emit("cb") return ... end
K.CO = coroutine.create(function() emit("co") coroutine.yield(1) emit("co") end)
K.check = function()
  return coroutine.status(K.CO), io.output() == io.stdout, io.input() == io.stdin,
    getmetatable("").__index == string, package.path, package.loaded.mod
end
return K
`

const producersSrc = `
local SENT = ...
local P = {}
P["ipairs()"] = (ipairs({}))
P["pairs()"] = (pairs({}))
P["string.gmatch()"] = string.gmatch("a b", "%a+")
P["utf8.codes()"] = (utf8.codes("ab"))
P["io.lines()"] = io.lines()
P["io.stdin:lines()"] = io.stdin:lines()
P["coroutine.wrap()"] = coroutine.wrap(function(...) local a = ... while true do a = coroutine.yield(a) end end)
P["runtime.context()"] = runtime.context()
P["runtime.context().kill"] = runtime.context().kill
P["runtime.context().killnow"] = runtime.context().killnow
P["runtime.context().stopnow"] = runtime.context().stopnow
local pp = package.path
package.path = SENT .. "/?.lua"
P["package.searchers[2]()"] = (package.searchers[2]("mod"))
package.path = pp
return P
`

// The call spellings.  Every body runs INSIDE the context under test; it
// reports through emit: "pre", then "post" <ok> <error value>, then "alive".
const bodiesSrc = `
local pack, unpack = table.pack, table.unpack
local pcall, xpcall, setmetatable, load, type = pcall, xpcall, setmetatable, load, type
local cocreate, coresume, cowrap = coroutine.create, coroutine.resume, coroutine.wrap
local callcontext = runtime.callcontext
local gsub = string.gsub
local B = {}

function B.direct(f, a)
  emit("pre")
  local r = pack(f(unpack(a, 1, a.n)))
  emit("post", true)
  emit("alive")
end

function B.pcall(f, a)
  emit("pre")
  local ok, e = pcall(f, unpack(a, 1, a.n))
  emit("post", ok, e)
  emit("alive")
end

function B.xpcall(f, a)
  emit("pre")
  local ok, e = xpcall(f, function(m) return m end, unpack(a, 1, a.n))
  emit("post", ok, e)
  emit("alive")
end

function B.gsub(f, a)
  emit("pre")
  local s = a[1]
  if type(s) ~= "string" or s == "" then s = "x" end
  local ok, e = pcall(gsub, s, ".+", f)
  emit("post", ok, e)
  emit("alive")
end

function B.meta_call(f, a)
  emit("pre")
  local obj = setmetatable({}, {__call = f})
  local ok, e = pcall(function() return obj(unpack(a, 1, a.n)) end)
  emit("post", ok, e)
  emit("alive")
end

function B.meta_index(f, a)
  emit("pre")
  local obj = setmetatable({}, {__index = f})
  local k = a[1]
  if k == nil then k = "k" end
  local ok, e = pcall(function() return obj[k] end)
  emit("post", ok, e)
  emit("alive")
end

function B.meta_concat(f, a)
  emit("pre")
  local obj = setmetatable({}, {__concat = f})
  local x = a[1]
  local ok, e = pcall(function() return x .. obj end)
  emit("post", ok, e)
  emit("alive")
end

function B.meta_close(f, a)
  emit("pre")
  local ok, e = pcall(function() local x <close> = setmetatable({}, {__close = f}) end)
  emit("post", ok, e)
  emit("alive")
end

function B.co_body(f, a)
  emit("pre")
  local co = cocreate(f)
  local ok, e = coresume(co, unpack(a, 1, a.n))
  emit("post", ok, e)
  emit("alive")
end

function B.co_wrap(f, a)
  emit("pre")
  local w = cowrap(function(...) return f(...) end)
  local ok, e = pcall(w, unpack(a, 1, a.n))
  emit("post", ok, e)
  emit("alive")
end

function B.load_vararg(f, a)
  emit("pre")
  local chunk = load("local f, a, u = ... return f(u(a, 1, a.n))")
  local ok, e = pcall(chunk, f, a, unpack)
  emit("post", ok, e)
  emit("alive")
end

function B.load_expr(f, a, expr)
  emit("pre")
  local chunk = load("local a, u = ... return " .. expr .. "(u(a, 1, a.n))")
  local ok, e = pcall(chunk, a, unpack)
  emit("post", ok, e)
  emit("alive")
end

function B.nested(f, a)
  emit("pre")
  local c, e = callcontext({flags = ""}, f, unpack(a, 1, a.n))
  emit("post", c.status ~= "error", e)
  emit("alive")
end

return B
`

// spelling classes; the variant used within a class rotates with the tuple.
var spellClasses = [][]string{
	{"go-direct", "direct", "go-pushcontext"},
	{"pcall", "xpcall", "gsub"},
	{"meta_call", "meta_index", "meta_concat", "meta_close"},
	{"co_body", "co_wrap"},
	{"load_vararg", "load_expr"},
	{"nested"},
}
var spellClassNames = []string{"direct", "pcall", "metamethod", "coroutine", "load", "nested-context"}

// callRaw calls f and returns the raw values (recovering from panics).
func callRaw(s *gl.Sess, f rt.Value, args ...rt.Value) (res []rt.Value, err error) {
	defer func() {
		if r := recover(); r != nil {
			err = fmt.Errorf("panic: %v\n%s", r, debug.Stack())
		}
	}()
	term := rt.NewTerminationWith(nil, 0, true)
	if e := rt.Call(s.R.MainThread(), f, args, term); e != nil {
		return nil, e
	}
	return term.Etc(), nil
}

// The harness's own chunks are compiled once per process and loaded into each
// fresh runtime (code units are immutable).
var (
	unitMu    sync.Mutex
	unitCache = map[string]*code.Unit{}
)

func (se *session) load(name, src string) (clos *rt.Closure, err error) {
	defer func() {
		if r := recover(); r != nil {
			err = fmt.Errorf("panic compiling %s: %v", name, r)
		}
	}()
	unitMu.Lock()
	unit := unitCache[src]
	unitMu.Unlock()
	if unit == nil {
		var e error
		unit, _, e = se.s.R.CompileLuaChunk(name, []byte(src))
		if e != nil {
			return nil, fmt.Errorf("%s does not compile: %v", name, e)
		}
		unitMu.Lock()
		if len(unitCache) < 100000 {
			unitCache[src] = unit
		}
		unitMu.Unlock()
	}
	return se.s.R.LoadLuaUnit(unit, rt.TableValue(se.s.R.GlobalEnv())), nil
}

func (se *session) runSrc(name, src string, args ...rt.Value) ([]rt.Value, error) {
	clos, err := se.load(name, src)
	if err != nil {
		return nil, err
	}
	return callRaw(se.s, rt.FunctionValue(clos), args...)
}

func newSession(fx *fixture) (*session, error) {
	se := &session{s: gl.NewSess(gl.Options{}), fx: fx}
	sent := rt.StringValue(fx.sent)
	k, err := se.runSrc("prelude", preludeSrc, sent)
	if err != nil || len(k) == 0 {
		return nil, fmt.Errorf("prelude: %v", err)
	}
	kt := k[0].AsTable()
	se.T = kt.Get(rt.StringValue("T")).AsTable()
	se.CB = kt.Get(rt.StringValue("CB"))
	se.CO = kt.Get(rt.StringValue("CO"))
	se.check = kt.Get(rt.StringValue("check"))
	b, err := se.runSrc("bodies", bodiesSrc)
	if err != nil || len(b) == 0 {
		return nil, fmt.Errorf("bodies: %v", err)
	}
	se.bodies = b[0].AsTable()
	se.s.Trace = nil
	se.base = se.state()
	return se, nil
}

func (se *session) close() { se.s.Close() }

func (se *session) produced() (*rt.Table, error) {
	if se.prod == nil {
		res, err := se.runSrc("producers", producersSrc, rt.StringValue(se.fx.sent))
		if err != nil || len(res) == 0 {
			return nil, fmt.Errorf("producers: %v", err)
		}
		se.prod = res[0].AsTable()
	}
	return se.prod, nil
}

// resolve finds the function of a path in this runtime.
func (se *session) resolve(p *fnPath) (*fn, error) {
	var v rt.Value
	switch p.root {
	case "G":
		v = rt.TableValue(se.s.R.GlobalEnv())
	case "S":
		v = rt.TableValue(se.s.R.RawMetatable(rt.StringValue("")))
	default:
		pt, err := se.produced()
		if err != nil {
			return nil, err
		}
		v = pt.Get(rt.StringValue(p.root))
	}
	for _, st := range p.steps {
		switch st.kind {
		case 'm':
			var m *rt.Table
			if t, ok := v.TryTable(); ok {
				m = t.Metatable()
			} else if u, ok := v.TryUserData(); ok {
				m = u.Metatable()
			}
			if m == nil {
				return nil, fmt.Errorf("%s: no metatable on the way", p.name)
			}
			v = rt.TableValue(m)
		default:
			t, ok := v.TryTable()
			if !ok {
				return nil, fmt.Errorf("%s: not a table on the way", p.name)
			}
			if st.kind == 'k' {
				v = t.Get(rt.StringValue(st.s))
			} else {
				v = t.Get(rt.IntValue(st.i))
			}
		}
	}
	c, ok := v.TryCallable()
	if !ok {
		return nil, fmt.Errorf("%s: not a function in this runtime", p.name)
	}
	if _, isGo := c.(*rt.GoFunction); !isGo {
		return nil, fmt.Errorf("%s: not a Go function in this runtime", p.name)
	}
	return &fn{name: p.name, expr: p.expr, v: v}, nil
}

// state returns a canonical description of the interpreter-side sentinels.
func (se *session) state() string {
	var b strings.Builder
	n := 0
	var k rt.Value
	var ok bool
	for {
		k, _, ok = se.T.Next(k)
		if !ok || k.IsNil() {
			break
		}
		n++
	}
	fmt.Fprintf(&b, "T:n=%d", n)
	for _, key := range []rt.Value{rt.IntValue(1), rt.IntValue(2), rt.IntValue(3), rt.StringValue("x")} {
		b.WriteString("," + se.s.N.Enc(se.T.Get(key)))
	}
	fmt.Fprintf(&b, " Tmeta=%v", se.T.Metatable() != nil)
	// fingerprint of the global environment and of the library tables in it
	// (values by identity), so that a replaced or removed entry shows
	h := fnv.New64a()
	fp := func(t *rt.Table) int {
		var ks []string
		var k, v rt.Value
		var ok bool
		for {
			k, v, ok = t.Next(k)
			if !ok || k.IsNil() {
				break
			}
			ks = append(ks, se.s.N.Enc(k)+"="+se.s.N.Enc(v))
		}
		sort.Strings(ks)
		for _, x := range ks {
			h.Write([]byte(x))
			h.Write([]byte{0})
		}
		return len(ks)
	}
	env := se.s.R.GlobalEnv()
	g := fp(env)
	k = rt.NilValue
	var v rt.Value
	var libs []*rt.Table
	for {
		k, v, ok = env.Next(k)
		if !ok || k.IsNil() {
			break
		}
		if t, isT := v.TryTable(); isT && t != env {
			libs = append(libs, t)
		}
	}
	sort.Slice(libs, func(i, j int) bool { return se.s.N.Enc(rt.TableValue(libs[i])) < se.s.N.Enc(rt.TableValue(libs[j])) })
	for _, t := range libs {
		h.Write([]byte(se.s.N.Enc(rt.TableValue(t))))
		fp(t)
	}
	fmt.Fprintf(&b, " G=%d:%x", g, h.Sum64())
	res, err := callRaw(se.s, se.check)
	if err != nil {
		fmt.Fprintf(&b, " check-error=%v", err)
	} else {
		b.WriteString(" check=" + se.s.N.EncList(res))
	}
	return b.String()
}

func isIdent(s string) bool {
	if s == "" {
		return false
	}
	for i, c := range s {
		if !(c == '_' || (c >= 'a' && c <= 'z') || (c >= 'A' && c <= 'Z') || (i > 0 && c >= '0' && c <= '9')) {
			return false
		}
	}
	switch s {
	case "and", "break", "do", "else", "elseif", "end", "false", "for", "function", "goto", "if", "in", "local", "nil", "not", "or", "repeat", "return", "then", "true", "until", "while":
		return false
	}
	return true
}

// enumerate walks (breadth first, keys sorted) everything reachable from the
// global environment, the string metatable and the produced values through
// table fields, metatables of tables and of userdata, and records every Go
// function under the first (shortest) path that reaches it.  It is run once
// per process, in a runtime of its own, before the harness adds anything.
func enumerate(fx *fixture) ([]fnPath, error) {
	s := gl.NewSess(gl.Options{})
	defer s.Close()
	se := &session{s: s, fx: fx}
	pt, err := se.produced()
	if err != nil {
		return nil, err
	}
	type item struct {
		v          rt.Value
		name, expr string
		root       string
		steps      []step
	}
	ext := func(st []step, x step) []step {
		n := make([]step, len(st)+1)
		copy(n, st)
		n[len(st)] = x
		return n
	}
	seen := map[interface{}]bool{}
	seenFn := map[*rt.GoFunction]bool{}
	r := s.R
	q := []item{{v: rt.TableValue(r.GlobalEnv()), root: "G"}}
	if sm := r.RawMetatable(rt.StringValue("")); sm != nil {
		q = append(q, item{v: rt.TableValue(sm), name: "<stringmeta>", expr: `getmetatable("")`, root: "S"})
	}
	var later []item
	var k, v rt.Value
	var ok bool
	for {
		k, v, ok = pt.Next(k)
		if !ok || k.IsNil() {
			break
		}
		later = append(later, item{v: v, name: k.AsString(), root: k.AsString()})
	}
	sort.Slice(later, func(i, j int) bool { return later[i].name < later[j].name })
	seen[pt] = true
	var out []fnPath
	phase := 0
	for {
		if len(q) == 0 {
			if phase == 0 {
				phase = 1
				q = later
				continue
			}
			break
		}
		it := q[0]
		q = q[1:]
		meta := func(m *rt.Table) {
			if m == nil {
				return
			}
			ex := ""
			if it.expr != "" {
				ex = "getmetatable(" + it.expr + ")"
			}
			q = append(q, item{v: rt.TableValue(m), name: it.name + "<mt>", expr: ex, root: it.root, steps: ext(it.steps, step{kind: 'm'})})
		}
		switch it.v.Type() {
		case rt.TableType:
			t := it.v.AsTable()
			if seen[t] {
				continue
			}
			seen[t] = true
			type kv struct {
				ks   string
				k, v rt.Value
			}
			var kvs []kv
			var k, v rt.Value
			for {
				k, v, ok = t.Next(k)
				if !ok || k.IsNil() {
					break
				}
				switch k.Type() {
				case rt.StringType:
					kvs = append(kvs, kv{"s" + k.AsString(), k, v})
				case rt.IntType:
					kvs = append(kvs, kv{fmt.Sprintf("i%020d", k.AsInt()), k, v})
				}
			}
			sort.Slice(kvs, func(i, j int) bool { return kvs[i].ks < kvs[j].ks })
			for _, e := range kvs {
				var name, expr string
				var st step
				if e.k.Type() == rt.StringType {
					ks := e.k.AsString()
					st = step{kind: 'k', s: ks}
					if it.name == "" && it.root == "G" {
						if ks == "emit" {
							continue
						}
						name = ks
						if isIdent(ks) {
							expr = ks
						}
					} else {
						name = it.name + "." + ks
						if it.expr != "" {
							if isIdent(ks) {
								expr = it.expr + "." + ks
							} else {
								expr = it.expr + "[" + strconv.Quote(ks) + "]"
							}
						}
					}
				} else {
					st = step{kind: 'i', i: e.k.AsInt()}
					name = fmt.Sprintf("%s[%d]", it.name, e.k.AsInt())
					if it.expr != "" {
						expr = fmt.Sprintf("%s[%d]", it.expr, e.k.AsInt())
					}
				}
				q = append(q, item{v: e.v, name: name, expr: expr, root: it.root, steps: ext(it.steps, st)})
			}
			meta(t.Metatable())
		case rt.UserDataType:
			u := it.v.AsUserData()
			if seen[u] {
				continue
			}
			seen[u] = true
			meta(u.Metatable())
		case rt.FunctionType:
			c, _ := it.v.TryCallable()
			if g, isGo := c.(*rt.GoFunction); isGo && !seenFn[g] {
				seenFn[g] = true
				out = append(out, fnPath{name: it.name, expr: it.expr, root: it.root, steps: it.steps})
			}
		}
	}
	sort.Slice(out, func(i, j int) bool { return out[i].name < out[j].name })
	return out, nil
}

// ---------------------------------------------------------------------------
// Argument tuples: Lua expressions over SENT (sentinel dir), T (sentinel
// table), CB (callback that emits "cb"), CO (suspended coroutine that emits
// "co"), F (the function under test).

var hostilePaths = []string{
	`SENT.."/keep.txt"`, `SENT.."/new.txt"`, `"sentinel/keep.txt"`, `"sentinel/new2.txt"`, `SENT.."/sub"`,
	`SENT.."/mod.lua"`, `SENT.."/victim.txt"`, `"./sentinel/data.txt"`, `SENT.."/nodir/x"`, `SENT.."/data.txt"`,
}
var hostileCmds = []string{
	`"echo pwn > "..SENT.."/pwn"`, `"/bin/touch "..SENT.."/pwn2"`, `"exit 3"`, `"cat "..SENT.."/keep.txt"`,
}
var hostileMods = []string{
	`"mod"`, `"sentinel.mod"`, `SENT.."/plugin"`, `"os"`, `SENT.."/?.lua"`, `"./sentinel/?.lua"`,
}
var hostileNet = []string{`"127.0.0.1:9"`, `"localhost:80"`, `"tcp://127.0.0.1:9"`}
var modeArgs = []string{
	`"w"`, `"r"`, `"a"`, `"r+"`, `"w+"`, `"a+"`, `"rb"`, `"n"`, `"l"`, `"L"`, `"a"`, `"set"`, `"cur"`, `"end"`, `"no"`, `"full"`,
	`"line"`, `"collect"`, `"count"`, `"*t"`, `"%c"`, `"!%H"`, `"C"`, `"bt"`, `"t"`, `"return 1"`, `"%s"`, `"x"`, `""`, `"."`, `"/"`, `"crl"`, `"S"`, `"#"`,
}
var miscArgs = []string{
	`nil`, `true`, `false`, `0`, `1`, `-1`, `2`, `3`, `10`, `1.5`, `T`, `{}`, `CB`, `CO`, `F`, `io.stdout`, `io.stderr`, `io.stdin`,
	`print`, `runtime.context()`, `_G`, `{SENT.."/keep.txt"}`,
}

func isHostileExpr(e string) bool {
	return strings.Contains(e, "SENT") || strings.Contains(e, "sentinel") || strings.Contains(e, "127.0.0.1") ||
		strings.Contains(e, "localhost") || e == `"mod"` || e == `"os"` || e == `"exit 3"`
}

type intner interface{ Intn(int) int }

func pick(r intner, pool []string) string { return pool[r.Intn(len(pool))] }

func genArg(r intner, pos int) string {
	x := r.Intn(100)
	switch {
	case x < 40:
		return pick(r, hostilePaths)
	case x < 50:
		return pick(r, hostileCmds)
	case x < 58:
		return pick(r, hostileMods)
	case x < 62:
		return pick(r, hostileNet)
	case x < 80:
		return pick(r, modeArgs)
	default:
		return pick(r, miscArgs)
	}
}

// genTuple returns the argument expressions for tuple number i of a function.
func genTuple(r intner, name string, i int) []string {
	var n int
	switch {
	case i == 0:
		n = 1
	case i == 1:
		n = 2
	default:
		n = []int{0, 1, 1, 2, 2, 2, 3, 3, 4}[r.Intn(9)]
	}
	t := make([]string, n)
	for p := range t {
		t[p] = genArg(r, p)
	}
	if n > 0 && r.Intn(10) < 7 {
		switch {
		case strings.HasPrefix(name, "io.stderr<mt>") || strings.HasPrefix(name, "io.type") || strings.HasPrefix(name, "io.close") || strings.HasPrefix(name, "io.flush"):
			t[0] = pick(r, []string{"io.stdout", "io.stderr", "io.stdin"})
		case strings.HasPrefix(name, "runtime.context().kill<mt>"):
			t[0] = "runtime.context().kill"
		case strings.HasPrefix(name, "runtime.context()<mt>") || name == "runtime.contextdue" || name == "runtime.stopcontext":
			t[0] = "runtime.context()"
		}
	}
	if i < 2 && !strings.Contains(name, "<mt>") {
		// the first two tuples are (path) and (path, path) / (path, mode)
		t[0] = pick(r, hostilePaths)
		if i == 1 && r.Intn(3) > 0 {
			t[1] = pick(r, hostilePaths)
		}
	}
	return t
}

func (se *session) evalTuple(exprs []string, f rt.Value) (rt.Value, error) {
	src := "local SENT, T, CB, CO, F = ...\nreturn table.pack(" + strings.Join(exprs, ", ") + ")"
	res, err := se.runSrc("args", src, rt.StringValue(se.fx.sent), rt.TableValue(se.T), se.CB, se.CO, f)
	if err != nil {
		return rt.NilValue, err
	}
	return res[0], nil
}

// ---------------------------------------------------------------------------
// One call of a function under a flag set in a spelling.

type callResult struct {
	refused bool  // failed with the "missing flags" error
	entered int64 // Go function entries counted by the hook (go-direct only), -1 unknown
	caught  bool  // the refusal was seen as an ordinary error value by the protecting construct
	alive   bool  // the statement after the call ran
	out     *gl.Outcome
	post    string // the "post" event
	effects string // "" or description of effects seen although refused
}

const missingFlags = "missing flags: "

func (se *session) call(f *fn, s int, spelling string, tuple rt.Value) callResult {
	se.s.Trace = nil
	def := rt.RuntimeContextDef{RequiredFlags: flagsOf(s)}
	// every other call the definition also carries the hard limits whose flags the
	// set already contains (a limit implies its flag, so the required set is the
	// same): flags and limits given together must both take effect
	se.ncalls++
	if se.ncalls%2 == 0 {
		if s&1 != 0 {
			def.HardLimits.Cpu = 1 << 40
		}
		if s&2 != 0 {
			def.HardLimits.Memory = 1 << 40
		}
	}
	res := callResult{entered: -1}
	if spelling == "go-direct" || spelling == "go-pushcontext" {
		at := tuple.AsTable()
		n := at.Get(rt.StringValue("n")).AsInt()
		args := make([]rt.Value, n)
		for i := range args {
			args[i] = at.Get(rt.IntValue(int64(i + 1)))
		}
		before := gl.OpCounts()["gofunction"]
		if spelling == "go-direct" {
			res.out = se.s.CallInContext(def, f.v, args)
		} else {
			res.out = se.pushCall(def, f.v, args)
		}
		if gl.HooksEnabled {
			res.entered = int64(gl.OpCounts()["gofunction"] - before)
		}
		res.refused = res.out.Kind == gl.LuaError && strings.Contains(res.out.ErrMsg, missingFlags)
		res.alive = true
		res.caught = res.refused
		return res
	}
	body := se.bodies.Get(rt.StringValue(spelling))
	res.out = se.s.CallInContext(def, body, []rt.Value{f.v, tuple, rt.StringValue(f.expr)})
	for _, ev := range res.out.Trace {
		if strings.HasPrefix(ev, `s:"post"`) {
			res.post = ev
		}
		if ev == `s:"alive"` {
			res.alive = true
		}
	}
	if spelling == "direct" {
		res.refused = res.out.Kind == gl.LuaError && strings.Contains(res.out.ErrMsg, missingFlags) && res.post == ""
		res.caught = res.refused
		res.alive = true
		return res
	}
	if strings.HasPrefix(res.post, `s:"post",b:false,`) && strings.Contains(res.post, missingFlags) {
		res.refused = true
		res.caught = true
	} else if res.post == "" && res.out.Kind == gl.LuaError && strings.Contains(res.out.ErrMsg, missingFlags) {
		// the refusal escaped the protecting construct
		res.refused = true
	}
	return res
}

// pushCall runs f between Runtime.PushContext and PopContext (the embedder's
// other way of entering a context).
func (se *session) pushCall(def rt.RuntimeContextDef, f rt.Value, args []rt.Value) (out *gl.Outcome) {
	out = &gl.Outcome{}
	r := se.s.R
	popped := false
	defer func() {
		if p := recover(); p != nil {
			if _, ok := p.(rt.ContextTerminationError); ok {
				out.Kind = gl.Killed
				out.ErrMsg = fmt.Sprint(p)
			} else {
				out.Kind = gl.Panic
				out.PanicMsg = fmt.Sprint(p)
				out.Stack = string(debug.Stack())
			}
			if !popped {
				func() {
					defer func() { recover() }()
					r.PopContext()
				}()
			}
		}
		out.Trace = se.s.Trace
	}()
	r.PushContext(def)
	term := rt.NewTerminationWith(nil, 0, true)
	err := rt.Call(r.MainThread(), f, args, term)
	popped = true
	ctx := r.PopContext()
	if ctx != nil {
		out.CtxStatus = ctx.Status().String()
	}
	if err != nil {
		out.Kind = gl.LuaError
		out.ErrMsg = err.Error()
		return
	}
	out.Kind = gl.OK
	out.Rets = se.s.N.EncList(term.Etc())
	return
}

// effectsAfterRefusal checks the sentinels; "" means nothing changed.
func (se *session) effectsAfterRefusal() string {
	var eff []string
	for _, ev := range se.s.Trace {
		if ev == `s:"cb"` || ev == `s:"co"` || ev == `s:"mod-ran"` {
			eff = append(eff, "callback/coroutine/module code ran: "+ev)
			break
		}
	}
	if st := se.state(); st != se.base {
		eff = append(eff, "interpreter state changed: "+se.base+" -> "+st)
	}
	if d := se.fx.changed(); d != "" {
		eff = append(eff, "sentinel directory changed:\n"+d)
	}
	return strings.Join(eff, "; ")
}
