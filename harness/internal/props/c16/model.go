package c16

// The reference model of the numeric for loop, written from the Lua 5.4 manual
// §3.3.5.  It uses numodel values and exact comparison only; no golua code.
//
//   * all three control values must be numbers and the step must not be zero,
//     otherwise the loop raises an error;
//   * start and step both integers: integer loop; the body sees start,
//     start+step, ... (mathematical integers) while the value is <= limit
//     (>= limit for a negative step), the comparison with the limit being the
//     exact one (a float limit beyond the integer range "clips"), and the loop
//     ends when the next value would not fit an integer ("never wraps around");
//   * otherwise the three values are converted to floats and the progression is
//     start + k*step in floats.
//
// What the manual leaves open is not judged:
//   * numeric strings as control values                       -> Skip
//   * an integer loop whose limit is NaN                      -> Skip
//   * whether a float loop accumulates or multiplies: the model only follows
//     the progression while every partial sum start+k*step is exactly a float
//     (then both agree); the first inexact sum makes the rest "any" (TailAny)
//   * an integer converted to float that has no exact representation becomes
//     the nearest higher or the nearest lower float (§3.4.3): both accepted
//   * NaN as start / limit of a float loop: "continues while value <= limit"
//     gives no iteration, "not executed if the initial value is already greater
//     than the limit" (and the reference implementation) gives one; both
//     accepted for the FIRST iteration only.  From the second value on the loop
//     continues only while the comparison is true, so a NaN ends it.
//   * a NaN step (neither positive nor negative): zero or one iteration.

import (
	"math"
	"math/big"
	"strings"

	nm "verif/internal/numodel"
)

// KTable marks a table operand (numodel has no such kind).
const KTable nm.Kind = 100

const (
	TailEnd  = iota // the loop ends right after Vals
	TailMore        // the loop goes on after len(Vals) == cap iterations
	TailAny         // the manual does not determine what follows Vals
)

// Seq is one acceptable behaviour.
type Seq struct {
	Vals []nm.V
	Tail int
	// Overflow is set when an integer loop ended because the next value does
	// not fit (evidence only).
	Overflow bool
}

type Expect struct {
	St   nm.Status // Val: one of Alts must be observed; Err: an error; Skip: no verdict
	Kind string    // "int", "float", "error", "skip"
	Why  string
	Alts []Seq
}

func isNum(v nm.V) bool { return v.K == nm.Int || v.K == nm.Float }

func isZeroNum(v nm.V) bool {
	return (v.K == nm.Int && v.I == 0) || (v.K == nm.Float && v.F == 0)
}

// definitelyNotNumber: no reading of the manual makes v a number.
func definitelyNotNumber(v nm.V) (notnum bool, open bool) {
	switch v.K {
	case nm.Int, nm.Float:
		return false, false
	case nm.Str:
		_, st := nm.StringToNumber(v.S)
		if st == nm.Err {
			return true, false // not even a numeral
		}
		return false, true // numeric string (or C-library dependent): coercion in 'for' is open
	}
	return true, false // nil, boolean, table
}

var (
	bigMax = big.NewInt(math.MaxInt64)
	bigMin = big.NewInt(math.MinInt64)
)

// Model returns what the manual prescribes for `for v = a, b, c` observed for
// at most cap iterations.
func Model(a, b, c nm.V, cap int) Expect {
	open := false
	for _, v := range []nm.V{a, b, c} {
		nn, op := definitelyNotNumber(v)
		if nn {
			return Expect{St: nm.Err, Kind: "error", Why: "non-number control value"}
		}
		open = open || op
	}
	if isNum(c) && isZeroNum(c) {
		return Expect{St: nm.Err, Kind: "error", Why: "zero step"}
	}
	if open {
		return Expect{St: nm.Skip, Kind: "skip", Why: "string control value"}
	}
	if a.K == nm.Int && c.K == nm.Int {
		if b.K == nm.Float && b.F != b.F {
			return Expect{St: nm.Skip, Kind: "skip", Why: "integer loop with NaN limit"}
		}
		return Expect{St: nm.Val, Kind: "int", Alts: []Seq{intSeq(a.I, b, c.I, cap)}}
	}
	return floatModel(a, b, c, cap)
}

func intSeq(start int64, limit nm.V, step int64, cap int) Seq {
	var s Seq
	v := big.NewInt(start)
	st := big.NewInt(step)
	for k := 0; ; k++ {
		if v.Cmp(bigMax) > 0 || v.Cmp(bigMin) < 0 {
			s.Tail, s.Overflow = TailEnd, true
			return s
		}
		cur := nm.I(v.Int64())
		op := "<="
		if step < 0 {
			op = ">="
		}
		r, _ := nm.Compare(op, cur, limit)
		if !r.B {
			s.Tail = TailEnd
			return s
		}
		if k == cap {
			s.Tail = TailMore
			return s
		}
		s.Vals = append(s.Vals, cur)
		v = new(big.Int).Add(v, st)
	}
}

// floatCands returns the floats an operand may become by "conversion to
// float": itself, or for an integer without exact float representation the two
// neighbouring floats.
func floatCands(v nm.V) []float64 {
	if v.K == nm.Float {
		return []float64{v.F}
	}
	n := nm.IntToFloat(v.I) // nearest
	if back, ok := nm.FloatToInt(n); ok && back == v.I {
		return []float64{n}
	}
	// n is inexact: the other neighbour is on the other side of v.I
	r, _ := nm.Compare("<", nm.F(n), nm.I(v.I))
	var other float64
	if r.B { // n < v: other is the next float up
		other = math.Nextafter(n, math.Inf(1))
		return []float64{n, other}
	}
	other = math.Nextafter(n, math.Inf(-1))
	return []float64{other, n}
}

// addExact returns v+step and whether that float is exactly the real sum.
func addExact(v, step float64) (float64, bool) {
	if math.IsInf(v, 0) || math.IsInf(step, 0) || v != v || step != step {
		return v + step, true // IEEE: inf or NaN, no rounding involved
	}
	s := v + step
	if math.IsInf(s, 0) {
		return s, false
	}
	// Knuth's TwoSum error term (exact in round-to-nearest without overflow)
	bb := s - v
	err := (v - (s - bb)) + (step - bb)
	if err != 0 || math.IsInf(bb, 0) {
		return s, false
	}
	return s, true
}

func floatCond(v, limit, step float64) bool {
	if step > 0 {
		return v <= limit
	}
	return v >= limit
}

// floatSeq follows one float loop.  refFirst selects the reading "the body is
// not executed if the initial value is already greater than the limit" for the
// first iteration.
func floatSeq(start, limit, step float64, refFirst bool, cap int) Seq {
	var s Seq
	run0 := floatCond(start, limit, step)
	if refFirst {
		if step > 0 {
			run0 = !(limit < start)
		} else {
			run0 = !(start < limit)
		}
	}
	if !run0 {
		s.Tail = TailEnd
		return s
	}
	if cap == 0 {
		s.Tail = TailMore
		return s
	}
	s.Vals = append(s.Vals, nm.F(start))
	v := start
	for k := 1; ; k++ {
		nx, exact := addExact(v, step)
		if !exact {
			s.Tail = TailAny
			return s
		}
		if !floatCond(nx, limit, step) {
			s.Tail = TailEnd
			return s
		}
		if k == cap {
			s.Tail = TailMore
			return s
		}
		s.Vals = append(s.Vals, nm.F(nx))
		v = nx
	}
}

func floatModel(a, b, c nm.V, cap int) Expect {
	e := Expect{St: nm.Val, Kind: "float"}
	as, bs, cs := floatCands(a), floatCands(b), floatCands(c)
	for _, sc := range cs {
		if sc != sc {
			// NaN step: no direction.  Whatever the reading, the second value is
			// NaN and ends the loop.
			e.Alts = append(e.Alts, Seq{Tail: TailEnd})
			for _, sa := range as {
				if cap == 0 {
					e.Alts = append(e.Alts, Seq{Tail: TailMore})
				} else {
					e.Alts = append(e.Alts, Seq{Vals: []nm.V{nm.F(sa)}, Tail: TailEnd})
				}
			}
			continue
		}
		for _, sa := range as {
			for _, sb := range bs {
				e.Alts = append(e.Alts, floatSeq(sa, sb, sc, false, cap))
				if sa != sa || sb != sb {
					e.Alts = append(e.Alts, floatSeq(sa, sb, sc, true, cap))
				}
			}
		}
	}
	e.Alts = dedupe(e.Alts)
	return e
}

func seqKey(s Seq) string {
	var k strings.Builder
	for _, v := range s.Vals {
		k.WriteString(v.Enc())
		k.WriteByte(',')
	}
	k.WriteByte('|')
	k.WriteByte(byte('0' + s.Tail))
	return k.String()
}

func dedupe(alts []Seq) []Seq {
	seen := map[string]bool{}
	var out []Seq
	for _, s := range alts {
		k := seqKey(s)
		if !seen[k] {
			seen[k] = true
			out = append(out, s)
		}
	}
	return out
}

// Count gives the complete behaviour of a loop that the manual determines
// fully and that runs at most max iterations: the number of iterations, the
// first and the last value.  ok is false when the manual leaves something open
// or the loop is longer than max.
func Count(a, b, c nm.V, max int64) (n int64, first, last nm.V, ok bool) {
	if !isNum(a) || !isNum(b) || !isNum(c) || isZeroNum(c) {
		return 0, nm.NilV, nm.NilV, false
	}
	if a.K == nm.Int && c.K == nm.Int {
		if b.K == nm.Float && b.F != b.F {
			return 0, nm.NilV, nm.NilV, false
		}
		// closed form: the last admissible integer L (limit floored/ceiled and
		// clipped to the integer range), count = floor(|L-start| / |step|) + 1
		var lim *big.Int
		switch {
		case b.K == nm.Int:
			lim = big.NewInt(b.I)
		case math.IsInf(b.F, 1):
			lim = new(big.Int).Lsh(big.NewInt(1), 70)
		case math.IsInf(b.F, -1):
			lim = new(big.Int).Neg(new(big.Int).Lsh(big.NewInt(1), 70))
		default:
			fl := math.Floor(b.F)
			if c.I < 0 {
				fl = math.Ceil(b.F)
			}
			lim, _ = new(big.Float).SetPrec(2000).SetFloat64(fl).Int(nil)
		}
		if lim.Cmp(bigMax) > 0 {
			lim = new(big.Int).Set(bigMax)
		}
		if lim.Cmp(bigMin) < 0 {
			lim = new(big.Int).Set(bigMin)
		}
		// after clipping, a limit on the wrong side of the range means no iteration
		// exactly when start is already beyond the true limit:
		r, _ := nm.Compare(map[bool]string{true: "<=", false: ">="}[c.I > 0], a, b)
		if !r.B {
			return 0, nm.NilV, nm.NilV, true
		}
		st := big.NewInt(a.I)
		diff := new(big.Int).Sub(lim, st)
		stp := big.NewInt(c.I)
		if c.I < 0 {
			diff.Neg(diff)
			stp.Neg(stp)
		}
		q := new(big.Int).Quo(diff, stp) // diff >= 0
		cnt := new(big.Int).Add(q, big.NewInt(1))
		if !cnt.IsInt64() || cnt.Int64() > max {
			return 0, nm.NilV, nm.NilV, false
		}
		lastV := new(big.Int).Mul(q, big.NewInt(c.I))
		lastV.Add(lastV, st)
		return cnt.Int64(), a, nm.I(lastV.Int64()), true
	}
	e := floatModel(a, b, c, int(max))
	if len(e.Alts) != 1 || e.Alts[0].Tail != TailEnd {
		return 0, nm.NilV, nm.NilV, false
	}
	vs := e.Alts[0].Vals
	if len(vs) == 0 {
		return 0, nm.NilV, nm.NilV, true
	}
	return int64(len(vs)), vs[0], vs[len(vs)-1], true
}
