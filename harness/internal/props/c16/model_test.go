package c16

import (
	"math"
	"math/big"
	"math/rand"
	"testing"

	nm "verif/internal/numodel"
)

func vals(s Seq) []string {
	var o []string
	for _, v := range s.Vals {
		o = append(o, v.Enc())
	}
	return o
}

func TestManualExamples(t *testing.T) {
	type tc struct {
		a, b, c nm.V
		n       int
		tail    int
		kind    string
	}
	mx, mn := int64(math.MaxInt64), int64(math.MinInt64)
	for i, c := range []tc{
		{nm.I(1), nm.I(3), nm.I(1), 3, TailEnd, "int"},
		{nm.I(mx - 1), nm.F(1e100), nm.I(1), 2, TailEnd, "int"},
		{nm.I(1), nm.I(-10), nm.I(1), 0, TailEnd, "int"},
		{nm.I(mn), nm.I(mn + 1), nm.I(1), 2, TailEnd, "int"},
		{nm.I(mn + 2), nm.F(-1e100), nm.I(-1), 3, TailEnd, "int"},
		{nm.F(1), nm.I(6), nm.I(2), 3, TailEnd, "float"},
		{nm.I(1), nm.I(100), nm.I(1), 8, TailMore, "int"},
		{nm.I(1), nm.F(2.5), nm.I(1), 2, TailEnd, "int"},
		{nm.I(-1), nm.F(-2.5), nm.I(-1), 2, TailEnd, "int"},
		{nm.I(1), nm.F(9223372036854775808), nm.I(mx), 1, TailEnd, "int"},
		{nm.I(1), nm.F(math.Inf(-1)), nm.I(1), 0, TailEnd, "int"},
		{nm.F(1), nm.F(2), nm.F(0.1), 2, TailAny, "float"}, // 1.0, 1.1 exact? 1+0.1 is inexact -> only 1.0 determined
		{nm.F(math.Inf(1)), nm.F(0), nm.F(math.Inf(-1)), 1, TailEnd, "float"},
	} {
		e := Model(c.a, c.b, c.c, 8)
		if e.Kind != c.kind || len(e.Alts) != 1 {
			t.Fatalf("case %d: kind %s alts %d", i, e.Kind, len(e.Alts))
		}
		s := e.Alts[0]
		if i == 11 {
			if len(s.Vals) != 1 || s.Tail != TailAny {
				t.Errorf("case %d: %v tail %d", i, vals(s), s.Tail)
			}
			continue
		}
		if len(s.Vals) != c.n || s.Tail != c.tail {
			t.Errorf("case %d: got %v tail %d", i, vals(s), s.Tail)
		}
	}
	if e := Model(nm.I(1), nm.I(2), nm.I(0), 8); e.St != nm.Err {
		t.Error("zero step")
	}
	if e := Model(nm.I(1), nm.I(2), nm.F(math.Copysign(0, -1)), 8); e.St != nm.Err {
		t.Error("zero float step")
	}
	if e := Model(nm.I(1), nm.NilV, nm.I(1), 8); e.St != nm.Err {
		t.Error("nil limit")
	}
	if e := Model(nm.S("1"), nm.I(2), nm.I(1), 8); e.St != nm.Skip {
		t.Error("string start")
	}
	if e := Model(nm.S("x"), nm.I(2), nm.I(1), 8); e.St != nm.Err {
		t.Error("non numeric string start")
	}
	if e := Model(nm.I(1), nm.F(math.NaN()), nm.I(1), 8); e.St != nm.Skip {
		t.Error("nan limit int loop")
	}
	// NaN limit in a float loop: zero or one iteration, never more
	e := Model(nm.F(1), nm.F(math.NaN()), nm.I(1), 8)
	for _, s := range e.Alts {
		if len(s.Vals) > 1 || s.Tail != TailEnd {
			t.Errorf("nan limit float loop: %v tail %d", vals(s), s.Tail)
		}
	}
	if len(e.Alts) != 2 {
		t.Errorf("nan limit float loop alts %d", len(e.Alts))
	}
}

// addExact against rational arithmetic.
func TestAddExact(t *testing.T) {
	r := rand.New(rand.NewSource(1))
	n := 0
	for i := 0; i < 300000; i++ {
		var a, b float64
		switch r.Intn(3) {
		case 0:
			a, b = math.Float64frombits(r.Uint64()), math.Float64frombits(r.Uint64())
		case 1:
			a = math.Ldexp(float64(r.Int63n(1<<53)), r.Intn(40)-20)
			b = math.Ldexp(float64(r.Int63n(1<<20)), r.Intn(40)-20)
		default:
			a = float64(r.Int63n(1 << 54))
			b = float64(r.Intn(7)-3) * 0.5
		}
		if a != a || b != b || math.IsInf(a, 0) || math.IsInf(b, 0) {
			continue
		}
		s, ex := addExact(a, b)
		ra, rb := new(big.Rat).SetFloat64(a), new(big.Rat).SetFloat64(b)
		sum := new(big.Rat).Add(ra, rb)
		want := false
		if !math.IsInf(s, 0) {
			want = new(big.Rat).SetFloat64(s).Cmp(sum) == 0
		}
		if ex != want {
			t.Fatalf("addExact(%x,%x)=%x,%v want exact=%v", a, b, s, ex, want)
		}
		if want {
			n++
		}
	}
	if n < 1000 {
		t.Fatalf("only %d exact sums exercised", n)
	}
}

// Count's closed form against the step-by-step integer model.
func TestCountClosedForm(t *testing.T) {
	r := rand.New(rand.NewSource(2))
	pick := func() nm.V {
		switch r.Intn(6) {
		case 0:
			return nm.I(math.MaxInt64 - int64(r.Intn(50)))
		case 1:
			return nm.I(math.MinInt64 + int64(r.Intn(50)))
		case 2:
			return nm.I(int64(r.Intn(41) - 20))
		case 3:
			return nm.F(float64(r.Intn(41)-20) + 0.5)
		case 4:
			return nm.F([]float64{9223372036854775808, -9223372036854775808, math.Inf(1), math.Inf(-1), 1e100, -1e100, 9223372036854774784}[r.Intn(7)])
		}
		return nm.I(int64(r.Uint64()))
	}
	checked := 0
	for i := 0; i < 200000; i++ {
		a, b, c := pick(), pick(), pick()
		if a.K != nm.Int || c.K != nm.Int || c.I == 0 {
			continue
		}
		n, first, last, ok := Count(a, b, c, 60)
		s := intSeq(a.I, b, c.I, 61)
		if s.Tail == TailMore || len(s.Vals) > 60 {
			if ok {
				t.Fatalf("count says %d for a loop of more than 61 iterations: %v %v %v", n, a, b, c)
			}
			continue
		}
		if !ok || n != int64(len(s.Vals)) {
			t.Fatalf("count(%v,%v,%v)=%d,%v; stepwise %d", a, b, c, n, ok, len(s.Vals))
		}
		if n > 0 && (first.Enc() != s.Vals[0].Enc() || last.Enc() != s.Vals[n-1].Enc()) {
			t.Fatalf("first/last differ for %v %v %v", a, b, c)
		}
		checked++
	}
	if checked < 10000 {
		t.Fatalf("checked only %d", checked)
	}
}
