// Package c16 checks property C16 (numeric for loops): every (start, limit,
// step) triple of a boundary lattice, random triples near the boundaries and
// generated programs with literal bounds are run by golua through the full
// pipeline; the (value, math.type) sequence the loop body reports through the
// host callback is compared with the model of model.go (Lua 5.4 manual
// §3.3.5).  Loop bodies are capped at 8 observed iterations and every call runs
// inside a CPU-limited context, so that a loop that neither ends nor reaches
// the cap is caught as a termination violation instead of hanging the monitor.
package c16

import (
	"fmt"
	"math"
	"math/rand"
	"strconv"
	"strings"

	rt "github.com/arnodel/golua/runtime"

	"verif/internal/gl"
	nm "verif/internal/numodel"
	"verif/internal/vp"
)

type Prop struct{}

func (Prop) ID() string { return "C16" }

func (Prop) Plan(t vp.Tier) []vp.Stage {
	nb := map[vp.Tier]int{vp.Quick: 16, vp.Thorough: 64}[t]
	return []vp.Stage{
		{Name: "lattice", NBatches: nb, TimeoutS: 1800},
		{Name: "random", NBatches: nb, TimeoutS: 1800},
		{Name: "literal", NBatches: 16, TimeoutS: 900},
	}
}

func (Prop) Describe(t vp.Tier) vp.Description {
	return vp.Description{
		Rule: "A case is one (start, limit, step) triple. golua runs it through compiled chunks (`local a,b,c = ...` + the loop; compiled once per session, " +
			"called per triple inside a CPU-limited context) in several shapes: plain; without step; control expressions as emitting function calls with the loop " +
			"variable shadowing an outer local and a global and assigned in the body; body creating one closure per iteration over the loop variable and assigning it " +
			"directly / through the closure; an uncapped counting loop (when the model's iteration count is <= 1500); and as generated source with literal bounds, " +
			"optionally nested in an outer loop. The body emits (value, math.type) for at most 8 iterations plus a 'more' flag. The trace is compared with the " +
			"model written from the manual §3.3.5 (big-integer progression with exact limit comparison for integer loops, float progression followed only while partial " +
			"sums are exact). Triples: all triples over the boundary lattice (exhaustive), all triples with a non-number in one position, PRNG triples near the " +
			"boundaries. A case is non-trivial when the model gives a verdict and at least one operand is not an integer with |n|<=1000; distinct by hash of the triple.",
		Assumptions: []string{
			"model.go is a correct reading of the Lua 5.4 manual §3.3.5; not judged (no verdict, still executed for crash-freedom and termination): numeric strings as control values, an integer loop with a NaN limit, the continuation of a float loop after the first partial sum that is not exactly representable (accumulate vs multiply)",
			"accepted alternatives: an integer without exact float representation may convert to either neighbouring float (§3.4.3); a float loop whose start or limit is NaN may run zero times or once; a NaN step gives zero or one iteration",
			"error message texts are not compared, only error / no error and what was observed before it",
			"held on the triples enumerated/sampled and on 8 observed iterations per loop (up to 1500 for the counting shape), not on all 2^192 triples",
		},
		Floor:      map[vp.Tier]int64{vp.Quick: 60000, vp.Thorough: 1500000}[t],
		Exhaustive: true,
		Extra:      map[string]interface{}{"lattice_size": len(lattice(t == vp.Thorough)), "observed_iterations_cap": capIter},
	}
}

const capIter = 8
const countMax = 1500

// ---------------------------------------------------------------------------
// operands

func lattice(thorough bool) []nm.V {
	var vs []nm.V
	addI := func(xs ...int64) {
		for _, x := range xs {
			vs = append(vs, nm.I(x))
		}
	}
	addF := func(xs ...float64) {
		for _, x := range xs {
			vs = append(vs, nm.F(x))
		}
	}
	mx, mn := int64(math.MaxInt64), int64(math.MinInt64)
	negz := math.Copysign(0, -1)
	const p63 = 9223372036854775808.0
	// 15 integers + 19 floats = 34
	addI(0, 1, -1, 2, -2, 3, -3, 1<<53, -(1 << 53), mx-2, mx-1, mx, mn, mn+1, mn+2)
	addF(0, negz, 0.5, -0.5, 1, 1.5, -1.5, 1<<53, -(1 << 53), p63, -p63, p63+2048, -(p63 + 2048), p63-1024,
		math.Inf(1), math.Inf(-1), math.NaN(), math.MaxFloat64, math.SmallestNonzeroFloat64)
	if thorough {
		addI(4, -4, 7, -8, 10, 100, -100, 1<<31, -(1 << 31), 1<<53+1, 1<<53-1, -(1<<53 + 1), 1<<62, -(1 << 62),
			mx-3, mx-8, mx/2, mx/2+1, mn+3, mn+8, mn/2, mx-1023, mx-1024, mn+1024)
		addF(-1, 2, -2, 3, 2.5, 0.25, 0.1, -0.1, 1e100, -1e100, -(p63 - 1024), p63-2048, 2*p63, -2*p63, 1<<53+2,
			-math.MaxFloat64, -math.SmallestNonzeroFloat64, 1e308, 4611686018427387904, 1.0/3)
	}
	return vs
}

func nonNumbers() []nm.V {
	return []nm.V{nm.NilV, nm.B(true), nm.B(false), {K: KTable}, nm.S("abc"), nm.S(""), nm.S("10"), nm.S("0x10"), nm.S("1e1"), nm.S(" 2 "), nm.S("1x")}
}

func encOp(v nm.V) string {
	if v.K == KTable {
		return "T"
	}
	return v.Enc()
}

func decOp(s string) (nm.V, bool) {
	switch {
	case s == "T":
		return nm.V{K: KTable}, true
	case s == "n":
		return nm.NilV, true
	case s == "b:true":
		return nm.B(true), true
	case s == "b:false":
		return nm.B(false), true
	case s == "f:nan":
		return nm.F(math.NaN()), true
	case strings.HasPrefix(s, "i:"):
		n, err := strconv.ParseInt(s[2:], 10, 64)
		return nm.I(n), err == nil
	case strings.HasPrefix(s, "f:"):
		u, err := strconv.ParseUint(s[2:], 16, 64)
		return nm.F(math.Float64frombits(u)), err == nil
	case strings.HasPrefix(s, "s:"):
		u, err := strconv.Unquote(s[2:])
		return nm.S(u), err == nil
	}
	return nm.NilV, false
}

func luaOp(v nm.V) string {
	if v.K == KTable {
		return "{}"
	}
	return v.Lua()
}

func toRT(v nm.V) rt.Value {
	switch v.K {
	case nm.Int:
		return rt.IntValue(v.I)
	case nm.Float:
		return rt.FloatValue(v.F)
	case nm.Str:
		return rt.StringValue(v.S)
	case nm.Bool:
		return rt.BoolValue(v.B)
	case KTable:
		return rt.TableValue(rt.NewTable())
	}
	return rt.NilValue
}

// cls is the operand class used in violation signatures.
func cls(v nm.V) string {
	switch v.K {
	case nm.Int:
		switch {
		case v.I == 0:
			return "0"
		case v.I > math.MaxInt64-(1<<20):
			return "int~max"
		case v.I < math.MinInt64+(1<<20):
			return "int~min"
		case v.I > 1<<53 || v.I < -(1<<53):
			return "int>2^53"
		case v.I < 0:
			return "-int"
		}
		return "+int"
	case nm.Float:
		f := v.F
		switch {
		case f != f:
			return "nan"
		case math.IsInf(f, 1):
			return "+inf"
		case math.IsInf(f, -1):
			return "-inf"
		case f == 0 && math.Signbit(f):
			return "-0.0"
		case f == 0:
			return "0.0"
		case f >= 9223372036854775808.0:
			return "+flt>=2^63"
		case f < -9223372036854775808.0:
			return "-flt<-2^63"
		case f != math.Trunc(f) && f < 0:
			return "-flt.frac"
		case f != math.Trunc(f):
			return "+flt.frac"
		case f < 0:
			return "-flt"
		}
		return "+flt"
	case nm.Str:
		return "str"
	case nm.Bool:
		return "bool"
	case KTable:
		return "table"
	}
	return "nil"
}

func small(v nm.V) bool { return v.K == nm.Int && v.I >= -1000 && v.I <= 1000 }

// ---------------------------------------------------------------------------
// the chunks

const srcPlain = `local a, b, c = ...
local n = 0
for i = a, b, c do
  n = n + 1
  if n > 8 then emit("more") break end
  emit(i, math.type(i))
end
emit("end")
`

const srcNoStep = `local a, b = ...
local n = 0
for i = a, b do
  n = n + 1
  if n > 8 then emit("more") break end
  emit(i, math.type(i))
end
emit("end")
`

const srcCalls = `local a, b, c = ...
local i = "outer"
x = "global"
local function A() emit("A") return a end
local function B() emit("B") return b end
local function C() emit("C") return c end
local n = 0
for i = A(), B(), C() do
  n = n + 1
  if n > 8 then emit("more") break end
  emit(i, math.type(i))
  i = "changed"
  for x = 1, 1 do end
end
emit("end")
emit(i, x)
`

const srcBody = `local a, b, c = ...
local fs, first = {}, nil
local n = 0
for i = a, b, c do
  n = n + 1
  if n > 8 then emit("more") break end
  if n == 1 then first = i end
  fs[n] = function(set, v) if set then i = v end return i end
  emit(i, math.type(i))
  local m = n % 4
  if m == 2 then i = nil
  elseif m == 3 then fs[n](true, "s" .. n)
  elseif m == 0 then i = first end
end
emit("end")
for k = 1, #fs do emit(k, (fs[k]())) end
`

// the control expressions are bare local variables that the body assigns to,
// directly and through a closure: "the three control expressions are evaluated
// only once, before the loop starts", so the iteration is not disturbed; and the
// loop must not write its normalised limit/step back into those variables
const srcCtrl = `local a, b, c = ...
local n = 0
local function poke() b, c = b, c; if n == 2 then b = -b; c = -c end end
for i = a, b, c do
  n = n + 1
  if n > 8 then emit("more") break end
  emit(i, math.type(i))
  if n == 1 then emit("seen", a, b, c) end
  if n == 2 then poke() end
  if n == 3 then a, b, c = nil, "limit changed", "step changed" end
end
emit("end")
emit(n, a, b, c)
`

const srcCount = `local a, b, c = ...
local n, first, last = 0, nil, nil
for i = a, b, c do
  n = n + 1
  if n == 1 then first = i end
  last = i
end
return n, first, last
`

const (
	evMore = `s:"more"`
	evEnd  = `s:"end"`
)

type evaluator struct {
	c     *vp.Child
	sess  *gl.Sess
	fn    map[string]rt.Value
	calls int
}

func newEvaluator(c *vp.Child) *evaluator {
	e := &evaluator{c: c}
	e.reset()
	return e
}

func (e *evaluator) reset() {
	if e.sess != nil {
		e.sess.Close()
	}
	e.sess = gl.NewSess(gl.Options{})
	e.fn = map[string]rt.Value{}
	for name, src := range map[string]string{"plain": srcPlain, "nostep": srcNoStep, "calls": srcCalls, "body": srcBody, "count": srcCount, "ctrl": srcCtrl} {
		clos, out := e.sess.Compile("c16-"+name, src)
		if out != nil {
			e.c.Violation("compile", "chunk "+name+" does not compile", out.ErrMsg+out.PanicMsg, src)
			e.c.Flush(true)
			panic("chunk does not compile: " + out.ErrMsg + out.PanicMsg)
		}
		e.fn[name] = rt.FunctionValue(clos)
	}
	e.calls = 0
}

// run calls one shape inside a CPU-limited context.
func (e *evaluator) run(shape string, cpu uint64, args ...nm.V) *gl.Outcome {
	e.calls++
	if e.calls > 5000 {
		e.reset()
	}
	e.sess.Trace = nil
	e.sess.N = gl.NewNamer()
	vals := make([]rt.Value, len(args))
	for i, a := range args {
		vals[i] = toRT(a)
	}
	out := e.sess.CallInContext(rt.RuntimeContextDef{HardLimits: rt.RuntimeResources{Cpu: cpu}}, e.fn[shape], vals)
	if out.Kind == gl.Panic || out.Kind == gl.Killed {
		// do not trust the runtime's state after a panic / kill
		e.reset()
	}
	return out
}

// ---------------------------------------------------------------------------
// observation and comparison

type obs struct {
	pre   []string
	vals  []string // value events: "<enc>,s:\"integer|float\""
	more  bool
	ended bool
	post  []string
}

func parseTrace(tr []string, npre int) obs {
	var o obs
	i := 0
	for ; i < len(tr) && i < npre; i++ {
		o.pre = append(o.pre, tr[i])
	}
	for ; i < len(tr); i++ {
		if tr[i] == evMore || tr[i] == evEnd {
			break
		}
		o.vals = append(o.vals, tr[i])
	}
	if i < len(tr) && tr[i] == evMore {
		o.more = true
		i++
	}
	if i < len(tr) && tr[i] == evEnd {
		o.ended = true
		i++
	}
	o.post = tr[i:]
	return o
}

func wantEvent(v nm.V) string {
	if v.K == nm.Int {
		return v.Enc() + `,s:"integer"`
	}
	return v.Enc() + `,s:"float"`
}

func isZeroEvent(s string) bool {
	return s == `f:0,s:"float"` || s == `f:8000000000000000,s:"float"`
}

// matchAlt returns "" when the observation is one the alternative allows, or
// a short reason.
func matchAlt(o obs, alt Seq, floatLoop bool) string {
	for k, v := range alt.Vals {
		if k >= len(o.vals) {
			return fmt.Sprintf("missing-iteration@%d", k+1)
		}
		w := wantEvent(v)
		if o.vals[k] == w {
			continue
		}
		if k > 0 && v.K == nm.Float && v.F == 0 && isZeroEvent(o.vals[k]) {
			continue // sign of a zero sum is not fixed by the manual
		}
		if strings.HasPrefix(o.vals[k], v.Enc()+",") || (strings.HasPrefix(o.vals[k], "i:") != (v.K == nm.Int)) {
			return fmt.Sprintf("wrong-type@%d", k+1)
		}
		return fmt.Sprintf("wrong-value@%d", k+1)
	}
	switch alt.Tail {
	case TailEnd:
		if len(o.vals) > len(alt.Vals) || o.more {
			return fmt.Sprintf("extra-iteration@%d", len(alt.Vals)+1)
		}
	case TailMore:
		if !o.more {
			return "ended-before-cap"
		}
	case TailAny:
		for k := len(alt.Vals); k < len(o.vals); k++ {
			if !strings.HasPrefix(o.vals[k], "f:") || !strings.HasSuffix(o.vals[k], `,s:"float"`) {
				return fmt.Sprintf("wrong-type@%d", k+1)
			}
		}
	}
	return ""
}

func describeAlts(e Expect) string {
	var b strings.Builder
	for i, a := range e.Alts {
		if i > 0 {
			b.WriteString("  or  ")
		}
		b.WriteString("[")
		for j, v := range a.Vals {
			if j > 0 {
				b.WriteString(" ")
			}
			b.WriteString(luaOp(v))
			if v.K == nm.Float {
				b.WriteString("(float)")
			}
		}
		b.WriteString("]")
		switch a.Tail {
		case TailEnd:
			b.WriteString(" then ends")
		case TailMore:
			b.WriteString(" then continues")
		case TailAny:
			b.WriteString(" then unspecified")
		}
	}
	return b.String()
}

type tcase struct {
	a, b, c nm.V
	in      string
}

func (t tcase) sig(shape, kind, reason string) string {
	dir := ""
	switch {
	case isNum(t.c) && isZeroNum(t.c):
		dir = " zero"
	case t.c.K == nm.Int && t.c.I < 0, t.c.K == nm.Float && t.c.F < 0:
		dir = " down"
	case isNum(t.c):
		dir = " up"
	}
	return fmt.Sprintf("%s %s-loop %s start=%s limit=%s step=%s%s", shape, kind, reason, cls(t.a), cls(t.b), cls(t.c), dir)
}

// checkOutcome handles the parts common to every capped shape.  It returns
// the parsed observation and whether the sequence check should go on.
func (e *evaluator) checkOutcome(shape string, t tcase, exp Expect, out *gl.Outcome, npre int) (obs, bool) {
	c := e.c
	o := parseTrace(out.Trace, npre)
	for _, r := range out.Reports {
		c.Violation("hook", "hook "+r, r, t.in)
	}
	switch out.Kind {
	case gl.Panic:
		c.Violation("panic", t.sig(shape, exp.Kind, "go-panic"), out.PanicMsg+"\n"+out.Stack, t.in)
		return o, false
	case gl.Killed:
		c.Violation("termination", t.sig(shape, exp.Kind, "cpu-budget-exhausted"),
			fmt.Sprintf("shape %s with %s: the loop neither ended nor reached the %d-iteration cap within its CPU budget (used %d); trace so far: %s",
				shape, t.in, capIter, out.UsedCPU, strings.Join(out.Trace, " | ")), t.in)
		return o, false
	}
	switch exp.St {
	case nm.Skip:
		c.Feature("no-verdict:"+exp.Why, 1)
		return o, false
	case nm.Err:
		if out.Kind != gl.LuaError {
			c.Violation("mismatch", t.sig(shape, exp.Kind, "no-error"),
				fmt.Sprintf("shape %s with %s: the manual makes this an error (%s); golua ran it: %s", shape, t.in, exp.Why, out.String()), t.in)
			return o, false
		}
		if len(o.vals) > 0 || o.more || o.ended || len(o.post) > 0 {
			c.Violation("mismatch", t.sig(shape, exp.Kind, "body-ran-before-error"),
				fmt.Sprintf("shape %s with %s: error %q raised after the body/the rest already ran: %s", shape, t.in, out.ErrMsg, strings.Join(out.Trace, " | ")), t.in)
		}
		c.Feature("error:"+exp.Why, 1)
		return o, false
	}
	if out.Kind != gl.OK {
		c.Violation("mismatch", t.sig(shape, exp.Kind, "unexpected-error"),
			fmt.Sprintf("shape %s with %s: golua raises %q; the manual gives %s", shape, t.in, out.ErrMsg, describeAlts(exp)), t.in)
		return o, false
	}
	if !o.ended {
		c.Violation("mismatch", t.sig(shape, exp.Kind, "no-end-event"),
			fmt.Sprintf("shape %s with %s: chunk returned without reaching the statement after the loop: %s", shape, t.in, strings.Join(out.Trace, " | ")), t.in)
		return o, false
	}
	return o, true
}

func (e *evaluator) checkSeq(shape string, t tcase, exp Expect, out *gl.Outcome, o obs) bool {
	reason, best := "", -1
	for i, alt := range exp.Alts {
		r := matchAlt(o, alt, exp.Kind == "float")
		if r == "" {
			if i > 0 {
				e.c.Feature("matched-alternative-reading", 1)
			}
			return true
		}
		// report the reason against the reading that agrees longest
		agree := 0
		for agree < len(alt.Vals) && agree < len(o.vals) && o.vals[agree] == wantEvent(alt.Vals[agree]) {
			agree++
		}
		if agree > best {
			reason, best = r, agree
		}
	}
	e.c.Violation("mismatch", t.sig(shape, exp.Kind, reason),
		fmt.Sprintf("shape %s, for v = %s, %s, %s (%s loop): golua's body saw [%s]%s; the manual gives %s",
			shape, luaOp(t.a), luaOp(t.b), luaOp(t.c), exp.Kind, strings.Join(o.vals, " | "),
			map[bool]string{true: " and continued", false: " and ended"}[o.more], describeAlts(exp)), t.in)
	return false
}

func valueOf(ev string) string {
	if i := strings.LastIndex(ev, `,s:"`); i >= 0 {
		return ev[:i]
	}
	return ev
}

const cpuCapped = 4000

func (e *evaluator) shapePlain(t tcase, exp Expect) (obs, bool) {
	out := e.run("plain", cpuCapped, t.a, t.b, t.c)
	e.c.Eval(1)
	o, ok := e.checkOutcome("plain", t, exp, out, 0)
	if !ok {
		return o, false
	}
	if len(o.post) != 0 {
		e.c.Violation("mismatch", t.sig("plain", exp.Kind, "events-after-end"), strings.Join(out.Trace, " | "), t.in)
	}
	return o, e.checkSeq("plain", t, exp, out, o)
}

func (e *evaluator) shapeNoStep(t tcase) {
	exp := Model(t.a, t.b, nm.I(1), capIter)
	out := e.run("nostep", cpuCapped, t.a, t.b)
	e.c.Eval(1)
	t2 := tcase{a: t.a, b: t.b, c: nm.I(1), in: t.in + " (step omitted)"}
	o, ok := e.checkOutcome("nostep", t2, exp, out, 0)
	if ok {
		e.checkSeq("nostep", t2, exp, out, o)
	}
}

func (e *evaluator) shapeCalls(t tcase, exp Expect) {
	c := e.c
	out := e.run("calls", cpuCapped, t.a, t.b, t.c)
	c.Eval(1)
	o, ok := e.checkOutcome("calls", t, exp, out, 3)
	// the three control expressions are evaluated exactly once, before anything else
	if out.Kind == gl.OK || out.Kind == gl.LuaError {
		seen := map[string]int{}
		for _, p := range o.pre {
			seen[p]++
		}
		total := 0
		for _, ev := range out.Trace {
			if ev == `s:"A"` || ev == `s:"B"` || ev == `s:"C"` {
				total++
			}
		}
		if seen[`s:"A"`] != 1 || seen[`s:"B"`] != 1 || seen[`s:"C"`] != 1 || total != 3 {
			c.Violation("mismatch", t.sig("calls", exp.Kind, "control-expressions-not-evaluated-once"),
				fmt.Sprintf("with %s: the control expressions must each be evaluated exactly once before the loop starts; trace: %s", t.in, strings.Join(out.Trace, " | ")), t.in)
		}
	}
	if !ok {
		return
	}
	e.checkSeq("calls", t, exp, out, o)
	if len(o.post) != 1 || o.post[0] != `s:"outer",s:"global"` {
		c.Violation("mismatch", t.sig("calls", exp.Kind, "loop-variable-not-local"),
			fmt.Sprintf("with %s: after the loop the outer local i and the global x must be untouched (\"outer\", \"global\"); got %v", t.in, o.post), t.in)
	}
}

func (e *evaluator) shapeBody(t tcase, exp Expect) {
	c := e.c
	out := e.run("body", cpuCapped, t.a, t.b, t.c)
	c.Eval(1)
	o, ok := e.checkOutcome("body", t, exp, out, 0)
	if !ok {
		return
	}
	// assignments to the loop variable (direct and through a closure) must not disturb the iteration
	e.checkSeq("body", t, exp, out, o)
	// each closure still sees its own iteration's variable
	if len(o.post) != len(o.vals) {
		c.Violation("mismatch", t.sig("body", exp.Kind, "closure-count"),
			fmt.Sprintf("with %s: %d iterations but %d closures: %s", t.in, len(o.vals), len(o.post), strings.Join(out.Trace, " | ")), t.in)
		return
	}
	for k := 1; k <= len(o.post); k++ {
		var want string
		switch k % 4 {
		case 1:
			want = valueOf(o.vals[k-1])
		case 2:
			want = "n"
		case 3:
			want = fmt.Sprintf(`s:"s%d"`, k)
		case 0:
			want = valueOf(o.vals[0])
		}
		want = fmt.Sprintf("i:%d,%s", k, want)
		if o.post[k-1] != want {
			c.Violation("mismatch", t.sig("body", exp.Kind, fmt.Sprintf("closure-sees-other-iteration@%d", k)),
				fmt.Sprintf("with %s: the closure created in iteration %d must see that iteration's own variable (%s), it returns %s; trace: %s",
					t.in, k, want, o.post[k-1], strings.Join(out.Trace, " | ")), t.in)
			return
		}
	}
	c.Feature("closures-checked", int64(len(o.post)))
}

// shapeCtrl: the control variables are assigned inside the loop.
func (e *evaluator) shapeCtrl(t tcase, exp Expect) {
	c := e.c
	out := e.run("ctrl", cpuCapped, t.a, t.b, t.c)
	c.Eval(1)
	// the ("seen", a, b, c) event of the first iteration is taken out before the common parsing
	var seen string
	part := *out
	part.Trace = nil
	for _, ev := range out.Trace {
		if strings.HasPrefix(ev, `s:"seen",`) {
			seen = ev
			continue
		}
		part.Trace = append(part.Trace, ev)
	}
	o, ok := e.checkOutcome("ctrl", t, exp, &part, 0)
	if !ok {
		return
	}
	if !e.checkSeq("ctrl", t, exp, &part, o) {
		return
	}
	orig := t.a.Enc() + "," + t.b.Enc() + "," + t.c.Enc()
	if len(o.vals) >= 1 && seen != `s:"seen",`+orig {
		c.Violation("mismatch", t.sig("ctrl", exp.Kind, "control-variables-rewritten"),
			fmt.Sprintf("with %s: inside the first iteration the variables used as control expressions hold %s, they were given %s (the loop wrote its own copies back)", t.in, seen, orig), t.in)
		return
	}
	if len(o.post) != 1 {
		c.Violation("mismatch", t.sig("ctrl", exp.Kind, "no-final-event"), fmt.Sprintf("with %s: %s", t.in, strings.Join(out.Trace, " | ")), t.in)
		return
	}
	n := len(o.vals)
	if o.more {
		n++
	}
	var want string
	switch {
	case n >= 3:
		want = fmt.Sprintf(`i:%d,n,s:"limit changed",s:"step changed"`, n)
	case n == 2:
		// poke negated limit and step (whatever that gives): only a and the count are fixed
		want = ""
	default:
		want = fmt.Sprintf("i:%d,%s", n, orig)
	}
	if want != "" && o.post[0] != want {
		c.Violation("mismatch", t.sig("ctrl", exp.Kind, "control-variables-after-loop"),
			fmt.Sprintf("with %s: after the loop (n, a, b, c) = %s, expected %s", t.in, o.post[0], want), t.in)
	}
}

func (e *evaluator) shapeCount(t tcase) {
	c := e.c
	n, first, last, ok := Count(t.a, t.b, t.c, countMax)
	if !ok {
		return
	}
	out := e.run("count", 60000, t.a, t.b, t.c)
	c.Eval(1)
	switch out.Kind {
	case gl.Killed:
		c.Violation("termination", t.sig("count", "counted", "cpu-budget-exhausted"),
			fmt.Sprintf("for v = %s, %s, %s: the manual implies exactly %d iterations; golua was still running after %d VM instructions",
				luaOp(t.a), luaOp(t.b), luaOp(t.c), n, out.UsedCPU), t.in)
		return
	case gl.Panic:
		c.Violation("panic", t.sig("count", "counted", "go-panic"), out.PanicMsg+"\n"+out.Stack, t.in)
		return
	case gl.LuaError:
		c.Violation("mismatch", t.sig("count", "counted", "unexpected-error"), out.ErrMsg, t.in)
		return
	}
	want := fmt.Sprintf("i:%d,n,n", n)
	if n > 0 {
		want = fmt.Sprintf("i:%d,%s,%s", n, first.Enc(), last.Enc())
		if first.K == nm.Float && t.a.K == nm.Int {
			// start converted int->float with two candidates never reaches here (Count refuses)
		}
	}
	got := out.Rets
	if got != want && !(n > 0 && last.K == nm.Float && last.F == 0 && zeroTolerant(got, want)) {
		c.Violation("mismatch", t.sig("count", "counted", "count-first-last"),
			fmt.Sprintf("for v = %s, %s, %s: golua ran (count, first, last) = %s; the manual gives %s", luaOp(t.a), luaOp(t.b), luaOp(t.c), got, want), t.in)
	}
	switch {
	case n == 0:
		c.Feature("count:0", 1)
	case n <= 8:
		c.Feature("count:1-8", 1)
	case n <= 100:
		c.Feature("count:9-100", 1)
	default:
		c.Feature("count:101-1500", 1)
	}
}

func zeroTolerant(got, want string) bool {
	return strings.ReplaceAll(got, "f:8000000000000000", "f:0") == strings.ReplaceAll(want, "f:8000000000000000", "f:0")
}

// triple runs every shape on one triple.
func (e *evaluator) triple(a, b, cc nm.V) {
	c := e.c
	in := fmt.Sprintf("a=%s b=%s c=%s", encOp(a), encOp(b), encOp(cc))
	t := tcase{a: a, b: b, c: cc, in: in}
	c.Begin("triple "+in, in)
	exp := Model(a, b, cc, capIter)
	o, ok := e.shapePlain(t, exp)
	e.shapeCalls(t, exp)
	e.shapeBody(t, exp)
	e.shapeCtrl(t, exp)
	if cc.K == nm.Int && cc.I == 1 {
		e.shapeNoStep(t)
	}
	if exp.St == nm.Val {
		e.shapeCount(t)
	}
	// evidence
	c.Feature("loop:"+exp.Kind, 1)
	if exp.St == nm.Val {
		alt := exp.Alts[0]
		switch alt.Tail {
		case TailEnd:
			c.Feature(fmt.Sprintf("model:ends-after-%d", len(alt.Vals)), 1)
		case TailMore:
			c.Feature("model:continues-beyond-cap", 1)
		case TailAny:
			c.Feature("model:float-sum-inexact-rest-unjudged", 1)
		}
		if alt.Overflow {
			c.Feature("model:integer-loop-ended-by-overflow", 1)
		}
		if len(exp.Alts) > 1 {
			c.Feature("model:several-readings-accepted", 1)
		}
		if exp.Kind == "int" && b.K == nm.Float {
			if b.F >= 9223372036854775808.0 || b.F < -9223372036854775808.0 {
				c.Feature("model:float-limit-clipped", 1)
			} else if b.F != math.Trunc(b.F) {
				c.Feature("model:float-limit-fractional", 1)
			}
		}
	}
	if exp.St != nm.Skip && (!small(a) || !small(b) || !small(cc)) {
		c.NonTrivial(vp.Hash("triple", encOp(a), encOp(b), encOp(cc)))
		if ok && c.WantSample() && len(o.vals) >= 2 && (exp.Kind == "float" || exp.Alts[0].Overflow) {
			c.Sample(map[string]interface{}{"for": fmt.Sprintf("for v = %s, %s, %s", luaOp(a), luaOp(b), luaOp(cc)),
				"loop": exp.Kind, "body_saw": o.vals, "continued_beyond_cap": o.more, "model": describeAlts(exp)})
		}
	}
}

// ---------------------------------------------------------------------------
// stages

func (Prop) RunBatch(c *vp.Child) {
	switch c.Stage {
	case "lattice":
		runLattice(c)
	case "random":
		runRandom(c)
	case "literal":
		runLiteral(c)
	}
}

func runLattice(c *vp.Child) {
	e := newEvaluator(c)
	defer func() { e.sess.Close() }()
	lat := lattice(c.Thorough())
	k := 0
	for _, a := range lat {
		for _, b := range lat {
			for _, s := range lat {
				k++
				if c.Mine(k) {
					e.triple(a, b, s)
				}
			}
		}
	}
	// a non-number (or a string) in one position, lattice values in the others
	sub := lattice(false)
	nn := nonNumbers()
	for pos := 0; pos < 3; pos++ {
		for _, x := range nn {
			for _, p := range sub {
				for _, q := range sub {
					k++
					if !c.Mine(k) {
						continue
					}
					switch pos {
					case 0:
						e.triple(x, p, q)
					case 1:
						e.triple(p, x, q)
					default:
						e.triple(p, q, x)
					}
				}
			}
		}
	}
	// non-numbers in two or three positions
	for _, x := range nn {
		for _, y := range nn {
			for _, p := range []nm.V{nm.I(1), nm.I(0), nm.F(0.5)} {
				k++
				if !c.Mine(k) {
					continue
				}
				e.triple(x, y, p)
				e.triple(x, p, y)
				e.triple(p, x, y)
				e.triple(x, y, x)
			}
		}
	}
	c.Feature("lattice-values", int64(len(lat)))
}

func randNear(r *rand.Rand, lat []nm.V) nm.V {
	v := lat[r.Intn(len(lat))]
	switch v.K {
	case nm.Int:
		return nm.I(v.I + int64(r.Intn(9)-4)) // may wrap: another boundary value
	case nm.Float:
		if v.F != v.F || math.IsInf(v.F, 0) || r.Intn(3) == 0 {
			return v
		}
		f := math.Float64frombits(math.Float64bits(v.F) + uint64(r.Intn(9)-4))
		if f != f {
			return v
		}
		return nm.F(f)
	}
	return v
}

func randStep(r *rand.Rand) int64 {
	var s int64
	switch r.Intn(6) {
	case 0:
		s = 1
	case 1:
		s = int64(r.Intn(5) + 1)
	case 2:
		s = int64(r.Intn(1000) + 1)
	case 3:
		s = int64(1)<<uint(r.Intn(63)) + int64(r.Intn(3)-1)
	case 4:
		s = r.Int63()
	default:
		s = math.MaxInt64 - int64(r.Intn(4))
	}
	if s == 0 {
		s = 1
	}
	return s
}

func randTriple(r *rand.Rand, lat []nm.V) (nm.V, nm.V, nm.V) {
	mx, mn := int64(math.MaxInt64), int64(math.MinInt64)
	const p63 = 9223372036854775808.0
	switch r.Intn(14) {
	case 0, 1: // integer loop running into maxinteger
		s := randStep(r)
		k := int64(r.Intn(12))
		if r.Intn(4) == 0 {
			k = int64(r.Intn(1400))
		}
		var start int64
		if s <= (mx)/(k+1) {
			start = mx - k*s - int64(r.Intn(int(min64(s, 1000))))
		} else {
			start = mx - int64(r.Intn(1000))
		}
		lims := []nm.V{nm.I(mx), nm.I(mx - int64(r.Intn(5))), nm.F(p63), nm.F(math.Inf(1)), nm.F(1e100), nm.F(p63 - 1024), nm.F(p63 + 2048), nm.F(math.MaxFloat64)}
		return nm.I(start), lims[r.Intn(len(lims))], nm.I(s)
	case 2, 3: // integer loop running into mininteger
		s := randStep(r)
		k := int64(r.Intn(12))
		if r.Intn(4) == 0 {
			k = int64(r.Intn(1400))
		}
		var start int64
		if s <= (mx)/(k+1) {
			start = mn + k*s + int64(r.Intn(int(min64(s, 1000))))
		} else {
			start = mn + int64(r.Intn(1000))
		}
		lims := []nm.V{nm.I(mn), nm.I(mn + int64(r.Intn(5))), nm.F(-p63), nm.F(math.Inf(-1)), nm.F(-1e100), nm.F(-p63 - 2048), nm.F(-math.MaxFloat64)}
		return nm.I(start), lims[r.Intn(len(lims))], nm.I(-s)
	case 4: // integer loop, fractional / integral float limit nearby
		start := int64(r.Intn(41) - 20)
		s := int64(r.Intn(7) - 3)
		lim := float64(start) + float64(r.Intn(41)-20)*0.25
		if r.Intn(4) == 0 {
			start += []int64{1 << 53, -(1 << 53), 1 << 62, mx - 100, mn + 100}[r.Intn(5)]
			lim = float64(start) + float64(r.Intn(9)-4)*1024
		}
		return nm.I(start), nm.F(lim), nm.I(s)
	case 5: // integer loop over the whole range with huge steps
		return nm.I(int64(r.Uint64())), nm.I(int64(r.Uint64())), nm.I(int64(r.Uint64()) | 1)
	case 6: // float loop with exactly representable fractions
		start := float64(r.Intn(33)-16) * 0.25
		step := float64(r.Intn(17)-8) * 0.125
		lim := start + float64(r.Intn(65)-20)*0.125
		a, b, s := nm.F(start), nm.F(lim), nm.F(step)
		// mix in integer operands where the value is integral
		if start == math.Trunc(start) && r.Intn(2) == 0 {
			a = nm.I(int64(start))
		} else if step == math.Trunc(step) && r.Intn(2) == 0 {
			s = nm.I(int64(step))
		}
		if lim == math.Trunc(lim) && r.Intn(2) == 0 {
			b = nm.I(int64(lim))
		}
		return a, b, s
	case 7: // float loop around 2^53 where sums stop being exact
		base := float64(int64(1)<<53 - int64(r.Intn(12)))
		if r.Intn(2) == 0 {
			base = -base
		}
		step := float64(r.Intn(7) - 3)
		return nm.F(base), nm.F(base + float64(r.Intn(41)-20)), nm.F(step)
	case 8: // float loop with an integer operand beyond 2^53 (inexact conversion)
		i := int64(1)<<uint(53+r.Intn(10)) + int64(r.Intn(2048)) - 1024
		if r.Intn(2) == 0 {
			i = -i
		}
		switch r.Intn(3) {
		case 0:
			return nm.I(i), nm.F(float64(i) + float64(r.Intn(9)-4)*4096), nm.F(float64(r.Intn(5)-2) * 2048)
		case 1:
			st := float64(i) - float64(r.Intn(9))*2048
			return nm.F(st), nm.I(i), nm.F(float64(r.Intn(5)-2) * 1024)
		default:
			return nm.F(float64(r.Intn(100))), nm.F(float64(i)), nm.I(i / int64(r.Intn(7)+1))
		}
	case 9: // float loops with huge / tiny / special steps
		sp := []float64{math.Inf(1), math.Inf(-1), math.MaxFloat64, -math.MaxFloat64, math.SmallestNonzeroFloat64, -math.SmallestNonzeroFloat64, 1e300, -1e300, math.NaN(), 0.1, -0.1, 1e-300}
		a := randNear(r, lat)
		b := randNear(r, lat)
		return a, b, nm.F(sp[r.Intn(len(sp))])
	case 10: // step 1 (also exercises the omitted-step shape)
		return randNear(r, lat), randNear(r, lat), nm.I(1)
	case 11: // ordinary small loops of every length around the cap
		start := int64(r.Intn(21) - 10)
		s := int64(r.Intn(9) - 4)
		n := int64(r.Intn(14))
		return nm.I(start), nm.I(start + s*n + int64(r.Intn(3)-1)), nm.I(s)
	default:
		return randNear(r, lat), randNear(r, lat), randNear(r, lat)
	}
}

func min64(a, b int64) int64 {
	if a < b {
		return a
	}
	return b
}

func runRandom(c *vp.Child) {
	e := newEvaluator(c)
	defer func() { e.sess.Close() }()
	r := c.Rand("triples")
	lat := lattice(true)
	n := c.Pick(100000, 5000000) / c.NB
	for i := 0; i < n; i++ {
		a, b, s := randTriple(r, lat)
		e.triple(a, b, s)
	}
}

// ---------------------------------------------------------------------------
// literal programs: the bounds are numerals in the source text, the loop sits
// inside pcall, optionally nested in an outer loop and after padding locals.

func literalSource(a, b, s nm.V, hasStep bool, nest bool, pad int) string {
	var sb strings.Builder
	step := "none"
	if hasStep {
		step = encOp(s)
	}
	fmt.Fprintf(&sb, "-- C16 a=%s b=%s c=%s nest=%v pad=%d\n", encOp(a), encOp(b), step, nest, pad)
	for i := 0; i < pad; i++ {
		fmt.Fprintf(&sb, "local p%d = %d\n", i, i)
	}
	sb.WriteString("local n = 0\nreturn pcall(function()\n")
	if nest {
		sb.WriteString("for o = 1, 2 do\nn = 0\n")
	}
	fmt.Fprintf(&sb, "for i = %s, %s", luaOp(a), luaOp(b))
	if hasStep {
		fmt.Fprintf(&sb, ", %s", luaOp(s))
	}
	sb.WriteString(" do\n  n = n + 1\n  if n > 8 then emit(\"more\") break end\n  emit(i, math.type(i))\nend\nemit(\"end\")\n")
	if nest {
		sb.WriteString("end\n")
	}
	sb.WriteString("end)\n")
	return sb.String()
}

func (e *evaluator) literal(a, b, s nm.V, hasStep, nest bool, pad int) {
	c := e.c
	src := literalSource(a, b, s, hasStep, nest, pad)
	if !hasStep {
		s = nm.I(1)
	}
	in := fmt.Sprintf("a=%s b=%s c=%s", encOp(a), encOp(b), encOp(s))
	t := tcase{a: a, b: b, c: s, in: src}
	c.Begin("literal "+in, src)
	c.Eval(1)
	exp := Model(a, b, s, capIter)
	e.calls++
	if e.calls > 3000 {
		e.reset()
	}
	clos, cout := e.sess.Compile("lit", src)
	if cout != nil {
		c.Violation("compile", t.sig("literal", exp.Kind, "does-not-compile"), cout.ErrMsg+cout.PanicMsg, src)
		return
	}
	e.sess.Trace = nil
	out := e.sess.CallInContext(rt.RuntimeContextDef{HardLimits: rt.RuntimeResources{Cpu: 2 * cpuCapped}}, rt.FunctionValue(clos), nil)
	if out.Kind == gl.Panic || out.Kind == gl.Killed {
		defer e.reset()
	}
	// translate pcall's result into the outcome the shared checker expects
	if out.Kind == gl.OK {
		switch {
		case strings.HasPrefix(out.Rets, "b:false"):
			out.Kind = gl.LuaError
			out.ErrMsg = out.Rets
		case out.Rets != "b:true":
			c.Violation("mismatch", t.sig("literal", exp.Kind, "pcall-result"), out.Rets, src)
			return
		}
	}
	tr := out.Trace
	rounds := 1
	if nest && exp.St == nm.Val {
		rounds = 2
	}
	for round := 0; round < rounds; round++ {
		// cut the trace at the first "end"
		cut := len(tr)
		for i, ev := range tr {
			if ev == evEnd {
				cut = i + 1
				break
			}
		}
		part := *out
		part.Trace = tr[:cut]
		tr = tr[cut:]
		shape := "literal"
		if round == 1 {
			shape = "literal-reentered"
		}
		o, ok := e.checkOutcome(shape, t, exp, &part, 0)
		if !ok {
			return
		}
		if !e.checkSeq(shape, t, exp, &part, o) {
			return
		}
	}
	if len(tr) != 0 {
		c.Violation("mismatch", t.sig("literal", exp.Kind, "events-after-end"), strings.Join(out.Trace, " | "), src)
	}
	c.Feature("loop:"+exp.Kind, 1)
	if nest {
		c.Feature("nested", 1)
	}
	if exp.St != nm.Skip && (!small(a) || !small(b) || !small(s)) {
		c.NonTrivial(vp.Hash("literal", encOp(a), encOp(b), encOp(s), fmt.Sprint(hasStep, nest)))
	}
}

func runLiteral(c *vp.Child) {
	e := newEvaluator(c)
	defer func() { e.sess.Close() }()
	lat := lattice(c.Thorough())
	all := append(append([]nm.V{}, lat...), nonNumbers()...)
	r := c.Rand("literal")
	k := 0
	// every pair with the step omitted
	for _, a := range all {
		for _, b := range all {
			k++
			if c.Mine(k) {
				e.literal(a, b, nm.NilV, false, r.Intn(3) == 0, r.Intn(6))
			}
		}
	}
	// a deterministic sample of the triples
	stride := c.Pick(13, 11)
	base := lattice(false)
	for i, a := range base {
		for j, b := range base {
			for l, s := range base {
				k++
				if (i*31+j*7+l+int(c.Seed))%stride != 0 || !c.Mine(k) {
					continue
				}
				e.literal(a, b, s, true, r.Intn(3) == 0, r.Intn(6))
			}
		}
	}
	// random triples as literals
	rl := lattice(true)
	n := c.Pick(3000, 60000) / c.NB
	for i := 0; i < n; i++ {
		a, b, s := randTriple(r, rl)
		e.literal(a, b, s, true, r.Intn(3) == 0, r.Intn(6))
	}
}

// ---------------------------------------------------------------------------
// replay

func parseInput(in string) (a, b, c nm.V, ok bool) {
	// accepts "a=<enc> b=<enc> c=<enc>" possibly inside a "-- C16 ..." header line
	line := in
	if i := strings.IndexByte(in, '\n'); i >= 0 {
		line = in[:i]
	}
	get := func(key, next string) (string, bool) {
		i := strings.Index(line, key+"=")
		if i < 0 {
			return "", false
		}
		rest := line[i+len(key)+1:]
		if next != "" {
			j := strings.Index(rest, " "+next+"=")
			if j < 0 {
				return "", false
			}
			rest = rest[:j]
		} else if j := strings.Index(rest, " nest="); j >= 0 {
			rest = rest[:j]
		} else if j := strings.Index(rest, " ("); j >= 0 {
			rest = rest[:j]
		}
		return rest, true
	}
	as, ok1 := get("a", "b")
	bs, ok2 := get("b", "c")
	cs, ok3 := get("c", "")
	if !ok1 || !ok2 || !ok3 {
		return
	}
	var o1, o2, o3 bool
	a, o1 = decOp(as)
	b, o2 = decOp(bs)
	if cs == "none" {
		c, o3 = nm.I(1), true
	} else {
		c, o3 = decOp(cs)
	}
	return a, b, c, o1 && o2 && o3
}

func (Prop) Replay(c *vp.Child, input string) {
	a, b, s, ok := parseInput(input)
	if !ok {
		fmt.Println("cannot parse the witness input:", input)
		return
	}
	e := newEvaluator(c)
	defer func() { e.sess.Close() }()
	fmt.Printf("for v = %s, %s, %s: model %s\n", luaOp(a), luaOp(b), luaOp(s), describeAlts(Model(a, b, s, capIter)))
	e.triple(a, b, s)
	if strings.HasPrefix(input, "-- C16") {
		e.literal(a, b, s, !strings.Contains(input, " c=none "), strings.Contains(input, "nest=true"), 0)
	}
}
