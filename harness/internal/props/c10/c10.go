// Package c10 checks property C10 (to-be-closed variables): an enumerated
// matrix of wrapper construct x exit kind x pending-variable layout, and
// generated programs with to-be-closed variables at arbitrary positions, are
// run by golua and by the reference interpreter; the order, multiplicity and
// arguments of the __close calls (which emit events) must agree, and the
// close-stack hook must find every frame balanced.
package c10

import (
	"fmt"
	"math/rand"
	"strings"

	"verif/internal/eng"
	"verif/internal/lg"
	"verif/internal/vp"
)

type Prop struct{}

func (Prop) ID() string { return "C10" }

func (Prop) Plan(t vp.Tier) []vp.Stage {
	nb := 16
	if t == vp.Thorough {
		nb = 48
	}
	return []vp.Stage{
		{Name: "matrix", NBatches: 16, TimeoutS: 900},
		{Name: "around-contexts", NBatches: 4, TimeoutS: 600},
		{Name: "programs", NBatches: nb, TimeoutS: 2400},
		{Name: "programs-race", NBatches: 8, Race: true, TimeoutS: 2400},
	}
}

func (Prop) Describe(t vp.Tier) vp.Description {
	return vp.Description{
		Rule: fmt.Sprintf("Stage matrix: every valid cell (%d) of {do, while, numeric for, generic for, generic for with closing value, repeat, function, pcall, coroutine, coroutine.wrap} x "+
			"{fall off the end, break, goto out, goto continue, return, return f() (tail call disabled), error(string), error(table), error level 2, yield then coroutine.close, yield then resume, "+
			"yield inside pcall then close, declaration of a non-closable value} x {1,2,3 pending variables (one nil/false)} x {a handler that raises} x {exit from a nested block with its own variable} x "+
			"{exit statement nested in an if}, each in 4 renderings: the sequence of ('close', id, error) events and of scope markers must equal the reference's. "+
			"Stage programs: generated programs weighted towards to-be-closed variables (in blocks, loop bodies, function bodies, generic-for closing values, coroutines closed while suspended, handlers that raise). "+
			"Non-trivial: the reference run declared >= 2 to-be-closed variables and ran >= 1 handler; distinct by program text.", len(lg.TBCMatrix())),
		Assumptions: []string{
			"refvm is a correct reading of manual section 3.3.8 and of coroutine.close; a __close handler raising under xpcall, and a second coroutine.close after an error, give no verdict",
			"the embedding caller uses Thread.CallContext",
			"termination by quota (handlers must NOT run) is judged by C05, not here",
		},
		Floor:      map[vp.Tier]int64{vp.Quick: 2500, vp.Thorough: 30000}[t],
		Exhaustive: false,
		Extra:      map[string]interface{}{"matrix_cells": len(lg.TBCMatrix())},
	}
}

func tbcOptions(r *rand.Rand) lg.GenOptions {
	o := lg.DefaultGenOptions()
	o.Stmts = 12 + r.Intn(30)
	o.WTBC = 16
	o.WGoto = 6
	o.WCoroutine = 6
	o.WPcall = 7
	o.WError = 8
	o.WMeta = 1
	o.WMethod = 1
	o.WStringOps = 1
	return o
}

func nonTrivial(cs *eng.Case) bool {
	return cs.Want.Features["tbc-declared"] >= 2 && cs.Want.Features["close-handler-run"] >= 1
}

func (Prop) RunBatch(c *vp.Child) {
	if c.Stage == "around-contexts" {
		runAround(c)
		return
	}
	if c.Stage == "matrix" {
		cells := lg.TBCMatrix()
		eng.RunFixed(c, len(cells), 4, func(i int) (*lg.Program, string) {
			return cells[i].Program(), "tbc:" + cells[i].String()
		}, func(cs *eng.Case) bool { return cs.Want.Features["close-handler-run"] >= 1 })
		return
	}
	cp := eng.Corpus{
		Programs:   c.Pick(1500, 30000),
		Options:    tbcOptions,
		NStyles:    c.Pick(2, 4),
		NArgs:      c.Pick(1, 2),
		Salt:       10,
		NonTrivial: func(cs *eng.Case, p *lg.Program) bool { return nonTrivial(cs) },
	}
	if strings.HasSuffix(c.Stage, "-race") {
		cp.Programs = c.Pick(150, 3000)
	}
	cp.Run(c)
}

func (Prop) Replay(c *vp.Child, input string) {
	out := eng.RunText(input, nil)
	fmt.Printf("golua outcome (called without arguments): %s\n", out.String())
	for _, r := range out.Reports {
		fmt.Println("hook report:", r)
	}
}
