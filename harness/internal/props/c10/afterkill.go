package c10

import (
	"strings"

	"verif/internal/eng"
	"verif/internal/gl"
	"verif/internal/vp"
)

// Stage "around-contexts": to-be-closed variables that are pending AROUND an
// execution context must be closed exactly as if the context were an ordinary
// call, however that context ends (done, error, killed by its cpu or memory
// limit, killed through a pcall inside it, killed inside a coroutine). The
// variables pending INSIDE a killed context are not closed (quotas.md: a
// killed context runs no more Lua code), inside a context that ends normally
// or with an error they are. The reference interpreter has no contexts; the
// expected event sequences are written down here from the property and
// quotas.md.

const aroundPrelude = `local function mkc(id) return setmetatable({}, {__close = function(o, e) emit("close", id, e ~= nil) end}) end
`

var aroundBodies = []struct{ name, call, status string }{
	{"done", `runtime.callcontext({kill = {cpu = 100000}}, function() local k <close> = mkc("k") emit("inside") end)`, "done"},
	{"error", `runtime.callcontext({kill = {cpu = 100000}}, function() local k <close> = mkc("k") emit("inside") error("boom") end)`, "error"},
	{"killed-cpu", `runtime.callcontext({kill = {cpu = 2000}}, function() local k <close> = mkc("k") emit("inside") while true do end end)`, "killed"},
	{"killed-mem", `runtime.callcontext({kill = {memory = 30000}}, function() local k <close> = mkc("k") emit("inside") local t = {} while true do t[#t + 1] = {} end end)`, "killed"},
	{"killed-through-pcall", `runtime.callcontext({kill = {cpu = 2000}}, function() local k <close> = mkc("k") emit("inside") pcall(function() local k2 <close> = mkc("k2") while true do end end) end)`, "killed"},
	{"killed-in-coroutine", `runtime.callcontext({kill = {cpu = 2000}}, function() local k <close> = mkc("k") emit("inside") coroutine.wrap(function() local k2 <close> = mkc("k2") while true do end end)() end)`, "killed"},
	{"killed-killnow", `runtime.callcontext({kill = {cpu = 100000}}, function() local k <close> = mkc("k") emit("inside") runtime.killcontext() end)`, "killed"},
}

// inner events by body: what happens between ("inside") and the status event
func aroundInner(status string) []string {
	switch status {
	case "done":
		return []string{`s:"inside"`, `s:"close" s:"k" b:false`}
	case "error":
		return []string{`s:"inside"`, `s:"close" s:"k" b:true`}
	}
	return []string{`s:"inside"`} // killed: nothing of the context runs any more
}

var aroundShapes = []struct {
	name string
	// $CALL is the context call; events expected before / after the context's own events
	src          string
	before, after []string
}{
	{"block", `do
  local a <close> = mkc("a")
  local ctx = $CALL
  emit("status", ctx.status)
  do local b <close> = mkc("b") emit("in-b") end
  emit("after-b")
end
emit("end")`, nil, []string{`s:"in-b"`, `s:"close" s:"b" b:false`, `s:"after-b"`, `s:"close" s:"a" b:false`, `s:"end"`}},
	{"two-frames", `local function inner()
  local i <close> = mkc("i")
  local ctx = $CALL
  emit("status", ctx.status)
  return "r"
end
local function outer()
  local o <close> = mkc("o")
  local r = inner()
  emit("inner returned", r)
end
outer()
emit("end")`, nil, []string{`s:"close" s:"i" b:false`, `s:"inner returned" s:"r"`, `s:"close" s:"o" b:false`, `s:"end"`}},
	{"genfor-closing-value", `for i in function(s, c) if c < 2 then return c + 1 end end, nil, 0, mkc("loop") do
  local v <close> = mkc("v" .. i)
  local ctx = $CALL
  emit("status", ctx.status)
end
emit("end")`, nil, nil}, // expected built specially below
	{"in-pcall", `emit("pcall", pcall(function()
  local a <close> = mkc("a")
  local ctx = $CALL
  emit("status", ctx.status)
  error("after")
end) ~= nil)
emit("end")`, nil, []string{`s:"close" s:"a" b:true`, `s:"pcall" b:true`, `s:"end"`}},
	{"in-coroutine", `local co = coroutine.wrap(function()
  local a <close> = mkc("a")
  local ctx = $CALL
  emit("status", ctx.status)
  coroutine.yield("y")
  emit("resumed")
end)
emit("first", co())
co()
emit("end")`, nil, []string{`s:"first" s:"y"`, `s:"resumed"`, `s:"close" s:"a" b:false`, `s:"end"`}},
}

func runAround(c *vp.Child) {
	k := 0
	for _, sh := range aroundShapes {
		for _, body := range aroundBodies {
			k++
			if !c.Mine(k) {
				continue
			}
			text := aroundPrelude + strings.ReplaceAll(sh.src, "$CALL", body.call)
			label := "around:" + sh.name + "/" + body.name
			c.Begin(label, text)
			out := eng.RunText(text, nil)
			c.Eval(1)
			c.NonTrivial(vp.Hash(label))
			fail := func(what string) {
				c.Violation("around-contexts", label, what+"\ntrace: "+strings.Join(out.Trace, " | ")+"\noutcome: "+out.Kind+" "+out.ErrMsg+out.PanicMsg, text)
			}
			if len(out.Reports) > 0 {
				fail("hook: " + out.Reports[0])
			}
			if out.Kind != gl.OK {
				fail("the program did not run to its end: " + out.Kind + " " + out.ErrMsg + out.PanicMsg)
				continue
			}
			var want []string
			ctxEvents := append(append([]string{}, aroundInner(body.status)...), `s:"status" s:"`+body.status+`"`)
			if sh.name == "genfor-closing-value" {
				for i := 1; i <= 2; i++ {
					want = append(want, ctxEvents...)
					want = append(want, `s:"close" s:"v`+string(rune('0'+i))+`" b:false`)
				}
				want = append(want, `s:"close" s:"loop" b:false`, `s:"end"`)
			} else {
				want = append(want, sh.before...)
				want = append(want, ctxEvents...)
				want = append(want, sh.after...)
			}
			var got []string
			for _, ev := range out.TraceV {
				got = append(got, strings.Join(ev, " "))
			}
			if strings.Join(got, " | ") != strings.Join(want, " | ") {
				fail("events differ from what the property prescribes:\n  got:  " + strings.Join(got, " | ") + "\n  want: " + strings.Join(want, " | "))
			}
		}
	}
}
