// Package c13 checks property C13 (string.dump followed by load reproduces the
// function): every generated chunk is compiled, dumped, loaded in a FRESH
// runtime and run there; its events, results and errors (with line
// information) must be those the reference prescribes for the source program.
// Inside the programs, function literals without upvalues go through
// redump(f) = load(string.dump(f)). Dumping twice, and dumping the reloaded
// function, must give identical bytes.
package c13

import (
	"fmt"
	"math/rand"
	"strings"

	rt "github.com/arnodel/golua/runtime"

	"verif/internal/eng"
	"verif/internal/gl"
	"verif/internal/lg"
	"verif/internal/refvm"
	"verif/internal/vp"
)

type Prop struct{}

func (Prop) ID() string { return "C13" }

func (Prop) Plan(t vp.Tier) []vp.Stage {
	nb := 16
	if t == vp.Thorough {
		nb = 48
	}
	return []vp.Stage{
		{Name: "dump-load", NBatches: nb, TimeoutS: 2400},
		{Name: "dump-load-race", NBatches: 4, Race: true, TimeoutS: 2400},
	}
}

func (Prop) Describe(t vp.Tier) vp.Description {
	return vp.Description{
		Rule: "Each case is a generated program (C01 generator; constants of every type, nested prototypes, varargs, closures, coroutines, to-be-closed variables) whose function literals that capture no local variable " +
			"are wrapped into redump(f) = load(string.dump(f), 'chunk', 'b'). The chunk itself is compiled, dumped with string.dump, loaded with load(bytes, name, 'b') in a fresh runtime and called there with the argument tuple. " +
			"Monitors: (1) the reloaded function's events/results/error value and chunk:line: positions must equal the reference's for the source program; (2) string.dump(f) twice gives identical bytes; " +
			"(3) string.dump(load(string.dump(f))) gives the same bytes again; (4) load of the dump must succeed. Non-trivial: >= 3 events and the dumped chunk contains >= 1 nested function; distinct by text and arguments.",
		Assumptions: []string{
			"the reference defines redump as the identity, which is what the manual promises for functions whose only upvalue is _ENV",
			"refvm is a correct reading of the manual for the generated constructs (see C01)",
		},
		Floor: map[vp.Tier]int64{vp.Quick: 1500, vp.Thorough: 30000}[t],
	}
}

const prelude = `function redump(f) return (assert(load(string.dump(f), "chunk", "b"))) end`

func callLua(s *gl.Sess, fname []string, args ...rt.Value) ([]rt.Value, error) {
	v := rt.TableValue(s.R.GlobalEnv())
	for _, n := range fname {
		t, ok := v.TryTable()
		if !ok {
			return nil, fmt.Errorf("%s is not a table", n)
		}
		v = t.Get(rt.StringValue(n))
	}
	term := rt.NewTerminationWith(nil, 0, true)
	if err := rt.Call(s.R.MainThread(), v, args, term); err != nil {
		return nil, err
	}
	return term.Etc(), nil
}

func dump(s *gl.Sess, f rt.Value) (string, error) {
	rs, err := callLua(s, []string{"string", "dump"}, f)
	if err != nil {
		return "", err
	}
	if len(rs) == 0 {
		return "", fmt.Errorf("string.dump returned nothing")
	}
	str, ok := rs[0].TryString()
	if !ok {
		return "", fmt.Errorf("string.dump returned a %s", rs[0].TypeName())
	}
	return str, nil
}

var stats struct{ dumps, bytes int64 }

func via(s *gl.Sess, clos *rt.Closure) (f rt.Value, run *gl.Sess, mis *eng.Mismatch) {
	defer func() {
		if r := recover(); r != nil {
			mis = &eng.Mismatch{What: "panic", Detail: fmt.Sprint("dump/load panicked: ", r)}
		}
	}()
	fv := rt.FunctionValue(clos)
	d1, err := dump(s, fv)
	if err != nil {
		return fv, nil, &eng.Mismatch{What: "dump", Detail: "string.dump failed: " + err.Error()}
	}
	d2, err := dump(s, fv)
	if err != nil || d1 != d2 {
		return fv, nil, &eng.Mismatch{What: "dump-nondeterministic", Detail: fmt.Sprintf("two dumps of the same function differ (%d and %d bytes) %v", len(d1), len(d2), err)}
	}
	stats.dumps++
	stats.bytes += int64(len(d1))
	s2 := gl.NewSess(gl.Options{})
	pc, out := s2.Compile("prelude", prelude)
	if out == nil {
		out = s2.Call(rt.FunctionValue(pc), nil)
	}
	if out.Kind != gl.OK {
		return fv, s2, &eng.Mismatch{What: "prelude", Detail: out.ErrMsg}
	}
	rs, err := callLua(s2, []string{"load"}, rt.StringValue(d1), rt.StringValue(eng.ChunkName), rt.StringValue("b"))
	if err != nil {
		return fv, s2, &eng.Mismatch{What: "load", Detail: "load of the dump raised: " + err.Error()}
	}
	if len(rs) == 0 || rs[0].IsNil() {
		msg := ""
		if len(rs) > 1 {
			msg, _ = rs[1].TryString()
		}
		return fv, s2, &eng.Mismatch{What: "load", Detail: "load of the dump failed: " + msg}
	}
	g := rs[0]
	d3, err := dump(s2, g)
	if err != nil || d3 != d1 {
		return g, s2, &eng.Mismatch{What: "redump-differs", Detail: fmt.Sprintf("dump of the reloaded function differs from the original dump (%d vs %d bytes) %v", len(d3), len(d1), err)}
	}
	return g, s2, nil
}

func variant() *eng.Variant {
	return &eng.Variant{
		HostPrelude: prelude,
		RefSetup: func(it *refvm.Interp) {
			it.SetGlobal("redump", refvm.NewBuiltin("redump", func(args []refvm.Value) []refvm.Value {
				if len(args) == 0 {
					return []refvm.Value{nil}
				}
				return []refvm.Value{args[0]}
			}))
		},
		Via: via,
	}
}

// upvalueLayout: functions with k upvalues (with and without a global among
// them) are dumped and reloaded; the reloaded function must have the same
// number of upvalues under the same names, every upvalue a fresh variable of
// its own (distinct ids; writing one does not show in another), independent of
// the original function's variables.
func upvalueLayout(c *vp.Child) {
	n := 0
	for k := 1; k <= 7; k++ {
		for _, useGlobal := range []bool{false, true} {
			for _, firstWrite := range []int{1, 2, k} {
				if firstWrite > k {
					continue
				}
				n++
				var b strings.Builder
				names := make([]string, k)
				for i := range names {
					names[i] = fmt.Sprintf("u%d", i+1)
				}
				fmt.Fprintf(&b, "local %s = %s\n", strings.Join(names, ", "), strings.Join(func() []string {
					v := make([]string, k)
					for i := range v {
						v[i] = fmt.Sprint((i + 1) * 11)
					}
					return v
				}(), ", "))
				// f writes one upvalue and returns all of them (and touches a global if asked)
				fmt.Fprintf(&b, "local function f(x)\n  %s = x\n", names[firstWrite-1])
				if useGlobal {
					b.WriteString("  local _ = type(x)\n")
				}
				fmt.Fprintf(&b, "  return %s\nend\n", strings.Join(names, ", "))
				b.WriteString(`local g = assert(load(string.dump(f), "chunk", "b"))
local nf, ng = {}, {}
for i = 1, 20 do local n = debug.getupvalue(f, i); if not n then break end nf[#nf + 1] = n end
for i = 1, 20 do local n = debug.getupvalue(g, i); if not n then break end ng[#ng + 1] = n end
emit("names", table.concat(nf, ","), table.concat(ng, ","))
local distinct = true
for i = 1, #ng do for j = i + 1, #ng do if debug.upvalueid(g, i) == debug.upvalueid(g, j) then distinct = false end end end
emit("distinct ids", distinct)
for i = 1, #ng do debug.setupvalue(g, i, i * 100) end
local vals = {}
for i = 1, #ng do local _, v = debug.getupvalue(g, i); vals[#vals + 1] = v end
emit("own cells", table.unpack(vals))
`)
				// behaviour without the debug library: a reloaded function that writes one of its
				// upvalues and returns the others sees nil in the others
				fmt.Fprintf(&b, "local function w()\n  %s = 5\n  return %s\nend\n", names[firstWrite-1], strings.Join(names, ", "))
				b.WriteString("local r = table.pack(load(string.dump(w))())\nlocal fives = 0\nfor i = 1, r.n do if r[i] == 5 then fives = fives + 1 end end\nemit(\"written once\", r.n, fives)\n")
				fmt.Fprintf(&b, "emit(\"originals\", %s)\n", strings.Join(names, ", "))
				text := b.String()
				if !c.Mine(n) {
					continue
				}
				c.Begin(fmt.Sprintf("upvalues/k%d/g%v/w%d", k, useGlobal, firstWrite), text)
				out := eng.RunText(text, nil)
				c.Eval(1)
				c.NonTrivial(vp.Hash(text))
				fail := func(what string) {
					c.Violation("upvalue-layout", fmt.Sprintf("k=%d global=%v: %s", k, useGlobal, what), fmt.Sprintf("%s\noutcome: %s", what, out.String()), text)
				}
				if out.Kind != gl.OK || len(out.TraceV) != 5 {
					fail("the template did not run to its end: " + out.Kind + " " + out.ErrMsg)
					continue
				}
				tv := out.TraceV
				if len(tv[0]) != 3 || tv[0][1] != tv[0][2] {
					fail("the reloaded function's upvalue names differ from the original's: " + strings.Join(tv[0], " "))
				}
				if len(tv[1]) != 2 || tv[1][1] != "b:true" {
					fail("two upvalues of the reloaded function are the same variable (upvalueid)")
				}
				for i := 1; i < len(tv[2]); i++ {
					if tv[2][i] != fmt.Sprintf("i:%d", i*100) {
						fail(fmt.Sprintf("after setting upvalue i to i*100 for every i, upvalue %d holds %s", i, tv[2][i]))
						break
					}
				}
				if len(tv[3]) != 3 || tv[3][1] != fmt.Sprintf("i:%d", k) || tv[3][2] != "i:1" {
					fail("a reloaded function that writes 5 to one upvalue and returns all of them returned: " + strings.Join(tv[3], " ") + " (expected exactly one 5)")
				}
				for i := 1; i < len(tv[4]); i++ {
					if tv[4][i] != fmt.Sprintf("i:%d", i*11) {
						fail("the original function's variables changed: " + strings.Join(tv[4], " "))
						break
					}
				}
				c.Feature("upvalue-layout-cases", 1)
			}
		}
	}
}

// structureSizes: chunks whose structure (not their behaviour) is large - N
// nested function literals, N sibling functions, N distinct constants - are
// accepted by the parser and the compiler; whatever string.dump accepts, load
// of the dump must accept too and the reloaded chunk must compute the same.
func structureSizes(c *vp.Child) {
	k := 0
	for _, shape := range []struct{ name, build, use string }{
		{"nested-functions", `("return function() "):rep(N) .. "return 'leaf'" .. (" end"):rep(N)`, `local v = g for i = 1, N + 1 do v = v() end return v`},
		{"sibling-functions", `(function() local t = {"local fs = {}"} for i = 1, N do t[#t + 1] = "fs[" .. i .. "] = function() return " .. i .. " end" end t[#t + 1] = "return fs" return table.concat(t, "\n") end)()`, `local fs = g() local s = 0 for i = 1, N do s = s + fs[i]() end return s`},
		{"constants", `(function() local t = {} for i = 1, N do t[#t + 1] = "'k" .. i .. "'" end return "return select('#', " .. table.concat(t, ", ") .. ")" end)()`, `return g()`},
	} {
		for _, n := range []int{1, 50, 199, 200, 201, 202, 255, 256, 257, 1000, 2000} {
			if shape.name == "constants" && n > 250 {
				continue // a call takes at most ~250 arguments
			}
			k++
			if !c.Mine(k) {
				continue
			}
			text := fmt.Sprintf(`local N = %d
local src = %s
local f, e0 = load(src, "=src")
if not f then emit("source rejected") return end
local function run(g) %s end
emit("original", pcall(run, f))
local d = string.dump(f)
local g, e = load(d, "=dump", "b")
emit("reload", g ~= nil, e)
if g then emit("reloaded", pcall(run, g)) emit("same dump", string.dump(g) == d) end
`, n, shape.build, shape.use)
			label := fmt.Sprintf("structure/%s/N=%d", shape.name, n)
			c.Begin(label, text)
			out := eng.RunText(text, nil)
			c.Eval(1)
			c.NonTrivial(vp.Hash(label))
			fail := func(what string) {
				c.Violation("structure-size", label, what+"\ntrace: "+strings.Join(out.Trace, " | ")+"\noutcome: "+out.Kind+" "+out.ErrMsg+out.PanicMsg, text)
			}
			if out.Kind != gl.OK {
				fail("the template did not run to its end")
				continue
			}
			tv := out.TraceV
			if len(tv) == 1 && len(tv[0]) == 1 && tv[0][0] == `s:"source rejected"` {
				c.Feature("structure-source-rejected", 1)
				continue // the compiler refuses the source: nothing to dump
			}
			if len(tv) != 4 {
				fail("load of the dump failed or the events are incomplete")
				continue
			}
			if len(tv[1]) < 2 || tv[1][1] != "b:true" {
				fail("load(string.dump(f)) refused a chunk that the compiler and string.dump accepted: " + strings.Join(tv[1], " "))
				continue
			}
			if strings.Join(tv[0][1:], " ") != strings.Join(tv[2][1:], " ") {
				fail("the reloaded chunk computes " + strings.Join(tv[2][1:], " ") + ", the original " + strings.Join(tv[0][1:], " "))
			}
			if len(tv[3]) < 2 || tv[3][1] != "b:true" {
				fail("the dump of the reloaded chunk differs from the dump it was loaded from")
			}
		}
	}
}

func (Prop) RunBatch(c *vp.Child) {
	if c.Stage == "dump-load" {
		upvalueLayout(c)
		structureSizes(c)
	}
	var wrapped int64
	cp := eng.Corpus{
		Programs: c.Pick(2000, 30000),
		NStyles:  c.Pick(1, 2),
		NArgs:    c.Pick(2, 3),
		Salt:     13,
		Transform: func(p *lg.Program, r *rand.Rand) {
			n := lg.WrapRedump(p.Chunk, func() bool { return r.Intn(3) != 0 })
			wrapped += int64(n)
			p.Features["redump-wrapped"] += n
		},
		Variant: variant(),
		NonTrivial: func(cs *eng.Case, p *lg.Program) bool {
			return cs.Events >= 3 && (p.Features["pure-function"]+p.Features["impure-function"]+p.Features["closures-in-loop"]+p.Features["class"] > 0)
		},
	}
	if strings.HasSuffix(c.Stage, "-race") {
		cp.Programs = c.Pick(100, 2000)
	}
	cp.Run(c)
	c.Feature("functions-wrapped-in-redump", wrapped)
	c.Feature("chunks-dumped", stats.dumps)
	c.Feature("dump-bytes", stats.bytes)
}

func (Prop) Replay(c *vp.Child, input string) {
	out := eng.RunText(input, nil)
	fmt.Printf("golua outcome of the source text without dump/load (called without arguments): %s\n", out.String())
}
