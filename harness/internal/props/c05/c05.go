// Package c05 checks property C05 (a CPU limit is a hard, exact and
// uninterceptable bound).
package c05

import (
	"sync/atomic"

	"fmt"
	"github.com/arnodel/golua/ir"
	"os"
	"path/filepath"
	"sort"
	"strings"

	"verif/internal/eng"
	"verif/internal/gl"
	"verif/internal/quota"
	"verif/internal/vp"
)

type Prop struct{}

func (Prop) ID() string { return "C05" }

func (Prop) Plan(t vp.Tier) []vp.Stage {
	nb := 16
	if t == vp.Thorough {
		nb = 48
	}
	return []vp.Stage{
		{Name: "exact", NBatches: nb, TimeoutS: 2400},
		{Name: "interceptors", NBatches: 12, TimeoutS: 2400},
		{Name: "amplifiers", NBatches: 16, TimeoutS: 2400, Env: []string{"GOMAXPROCS=2"}},
		{Name: "exact-race", NBatches: 4, Race: true, TimeoutS: 2400},
	}
}

func (Prop) Describe(t vp.Tier) vp.Description {
	return vp.Description{
		Rule: "Stage exact: a generated program (pcall/xpcall/coroutines/to-be-closed variables weighted up) runs twice in a fresh runtime inside a context with a huge CPU limit: its usage u must be identical both times (deterministic accounting). " +
			"Then for every L in {1, 2, u/3, u/2, u-2, u-1, u, u+1, u+2, 2u} and PRNG picks in [1,u] it runs again with CPU limit L: for L <= u the context must end 'killed' with used < L, return nothing, and its event trace must be a prefix of the unlimited trace " +
			"(no Lua code - handler, coroutine, __close - produced an event after the kill); for L > u it must end exactly like the unlimited run (status, events, results, error, used == u). The verif hooks report any VM instruction or Go function entry in a context that is no longer live, and any counter wrap or overshoot. " +
			"Stage interceptors: never-ending programs that try to survive a kill (pcall retry loops, xpcall with a looping handler, nested pcall, coroutines that pcall their body, pending <close> variables in the main thread and in a suspended coroutine, __gc handlers, " +
			"raising __tostring, looping metamethods, an inner callcontext, sort comparators, gsub callbacks) under a ladder of limits: always killed, used < L, traces prefix-ordered along the ladder, no hook report. " +
			"Stage amplifiers: every library call with a size parameter N in {1e3, 1e6, 2^31, 2^40, maxint} under CPU limit 1e4..1e6 and memory limit 1 MB..64 MB must come back (value, error or kill) having used less than 20 s of process CPU time. " +
			"Non-trivial: exact: u >= 50 and at least one kill observed; interceptors/amplifiers: each (template, limit). Distinct by (program, limit).",
		Assumptions: []string{
			"an explicit inner runtime.callcontext is a sandbox boundary of its own (the inner context is killed, the parent goes on): judged by C07; the exactness corpus does not use it",
			"__gc events are not ordered (finaliser timing), they are removed from traces before comparison; that no finaliser runs after a kill is judged by the liveness hook",
			"time (millis) limits are not exercised: expiry depends on the wall clock",
			"the 20 s CPU-time bound is three orders of magnitude above the honest cost of a killed call; the wall-clock watchdog firing is inconclusive",
		},
		Floor: map[vp.Tier]int64{vp.Quick: 1500, vp.Thorough: 15000}[t],
	}
}

func noGC(tr []string) []string { return quota.Clean(tr) }

func limits(c *vp.Child, r interface{ Intn(int) int }, u uint64) []uint64 {
	set := map[uint64]bool{}
	add := func(x uint64) {
		if x >= 1 {
			set[x] = true
		}
	}
	for _, x := range []uint64{1, 2, u / 3, u / 2, u - 2, u - 1, u, u + 1, u + 2, 2 * u} {
		add(x)
	}
	for i, n := 0, c.Pick(4, 30); i < n && u > 2; i++ {
		add(1 + uint64(r.Intn(int(u))))
	}
	var out []uint64
	for x := range set {
		out = append(out, x)
	}
	sort.Slice(out, func(i, j int) bool { return out[i] < out[j] })
	return out
}

const huge = 1 << 40

func reportHooks(c *vp.Child, o *gl.Outcome, what, text string) {
	if len(o.Reports) > 0 {
		kind := o.Reports[0]
		if i := strings.IndexByte(kind, ':'); i > 0 {
			kind = kind[:i]
		}
		c.Violation("hook-"+kind, what, strings.Join(o.Reports, "\n"), text)
	}
	if o.Kind == gl.Panic {
		c.Violation("panic", what, o.PanicMsg+"\n"+o.Stack, text)
	}
}

// desyncWitnesses: a coroutine yields inside a protected call and is resumed
// later; golua's execution contexts belong to the runtime, not to the
// coroutine, so the context stack no longer matches the call structure (known
// finding coroutine-yield-across-context, see C07). These fixed witnesses keep
// reporting it for C05 (a limit above the program's usage kills it); the
// generated corpus avoids the construct so that other violations stay visible.
var desyncWitnesses = []struct{ name, src string }{
	{"yield-in-pcall-resumed-later", `
local co = coroutine.wrap(function()
  pcall(function() for i = 1, 20 do local x = i end coroutine.yield(1) for i = 1, 20 do local x = i end end)
  return 2
end)
emit(pcall(co))
for i = 1, 300 do local y = i end
emit(pcall(co))
for i = 1, 300 do local y = i end
emit("done")`},
}

func desync(c *vp.Child) {
	ws := desyncWitnesses
	// the generated program on which the defect was first seen by this check
	if b, err := os.ReadFile(filepath.Join(vp.Root(), "corpus", "c05_desync_witness.lua")); err == nil {
		ws = append(ws, struct{ name, src string }{"generated-witness", string(b)})
	}
	for _, w := range ws {
		c.Begin("desync/"+w.name, w.src)
		base := quota.Run(w.src, nil, huge, 0)
		u := base.UsedCPU
		bad := ""
		for _, L := range []uint64{u + 1, u + 2, u + 10, 2 * u} {
			o := quota.Run(w.src, nil, L, 0)
			c.Eval(1)
			if o.Kind != base.Kind || strings.Join(o.Trace, "|") != strings.Join(base.Trace, "|") {
				bad = fmt.Sprintf("usage alone %d; with limit %d > usage: %s/%s used %d after %d of %d events", u, L, o.Kind, o.CtxStatus, o.UsedCPU, len(o.Trace), len(base.Trace))
				break
			}
		}
		if bad != "" {
			c.Violation("desync", "coroutine-yield-across-context "+w.name, bad, w.src)
		}
		c.Feature("desync-witness-"+w.name, 1)
	}
}

func exact(c *vp.Child) {
	if c.Batch == 0 && c.Stage == "exact" {
		desync(c)
	}
	n := c.Pick(2500, 20000)
	if strings.HasSuffix(c.Stage, "-race") {
		n = c.Pick(40, 600)
	}
	progs := quota.Corpus(c, n, 5)
	r := c.Rand("limits")
	for i, p := range progs {
		if !c.Mine(i) {
			continue
		}
		in := "-- args: " + eng.ArgsLua(p.Args) + "\n" + p.Text
		c.Begin(p.Label, in)
		base := quota.Run(p.Text, p.Args, huge, 0)
		base2 := quota.Run(p.Text, p.Args, huge, 0)
		c.Eval(2)
		reportHooks(c, base, "unlimited run", in)
		if base.Kind == gl.Panic || base.Kind == gl.CompileError {
			c.Inconclusive("baseline " + base.Kind)
			continue
		}
		if base.Kind == gl.Killed {
			c.Inconclusive("program needs more than the huge limit")
			continue
		}
		u := base.UsedCPU
		T := noGC(base.Trace)
		if base2.UsedCPU != u || strings.Join(noGC(base2.Trace), "|") != strings.Join(T, "|") {
			c.Violation("nondeterministic", "cpu usage or trace differs between two unlimited runs", fmt.Sprintf("first run: used %d, %d events; second run: used %d, %d events", u, len(T), base2.UsedCPU, len(base2.Trace)), in)
			continue
		}
		c.Feature("programs", 1)
		kills := 0
		for _, L := range limits(c, r, u) {
			o := quota.Run(p.Text, p.Args, L, 0)
			c.Eval(1)
			what := fmt.Sprintf("limit %d (unlimited usage %d)", L, u)
			reportHooks(c, o, what, in)
			tr := noGC(o.Trace)
			if L <= u {
				rel := "L<=u"
				switch {
				case o.Kind != gl.Killed || o.CtxStatus != "killed":
					c.Violation("not-killed", rel+" ended "+o.Kind+"/"+o.CtxStatus, fmt.Sprintf("%s: the context ended %s (status %s, used %d) with rets=[%s] err=%s; a limit at or below the program's usage must kill it. trace has %d events, unlimited %d",
						what, o.Kind, o.CtxStatus, o.UsedCPU, o.Rets, o.ErrVal, len(tr), len(T)), in)
				case o.UsedCPU >= L:
					c.Violation("used-reaches-limit", rel, fmt.Sprintf("%s: used %d >= limit", what, o.UsedCPU), in)
				case !quota.IsPrefix(tr, T):
					c.Violation("ran-after-kill", rel+" trace is not a prefix", fmt.Sprintf("%s: killed, but its events are not a prefix of the unlimited run's: Lua code produced events after the kill or diverged.\nlimited:   %v\nunlimited: %v", what, tail(tr), tail(T)), in)
				default:
					kills++
				}
				c.Feature("kills-at-L<=u", 1)
			} else {
				same := o.Kind == base.Kind && o.CtxStatus == base.CtxStatus && quota.Clean([]string{o.Rets, o.ErrVal})[0] == quota.Clean([]string{base.Rets, base.ErrVal})[0] && quota.Clean([]string{o.ErrVal})[0] == quota.Clean([]string{base.ErrVal})[0] && strings.Join(tr, "|") == strings.Join(T, "|")
				if !same {
					c.Violation("differs-above-usage", "L>u ended "+o.Kind+"/"+o.CtxStatus, fmt.Sprintf("%s: ended %s/%s used %d rets=[%s] err=%s with %d events; the unlimited run ended %s/%s rets=[%s] err=%s with %d events",
						what, o.Kind, o.CtxStatus, o.UsedCPU, o.Rets, o.ErrVal, len(tr), base.Kind, base.CtxStatus, base.Rets, base.ErrVal, len(T)), in)
				} else if o.UsedCPU != u {
					c.Violation("usage-depends-on-limit", "L>u", fmt.Sprintf("%s: used %d, unlimited run used %d", what, o.UsedCPU, u), in)
				}
				c.Feature("completions-at-L>u", 1)
			}
		}
		if u >= 50 && kills > 0 {
			c.NonTrivial(vp.Hash(p.Text, eng.ArgsLua(p.Args)))
		}
		if c.WantSample() && len(p.Text) < 1200 && u > 100 {
			c.Sample(map[string]interface{}{"program": p.Text, "unlimited_cpu": u, "events": len(T), "limits_tried": len(limits(c, r, u))})
		}
	}
}

func tail(tr []string) []string {
	if len(tr) > 12 {
		return append([]string{fmt.Sprintf("... %d earlier events ...", len(tr)-12)}, tr[len(tr)-12:]...)
	}
	return tr
}

func interceptors(c *vp.Child) {
	ladder := []uint64{10, 37, 100, 333, 1000, 3000, 10000, 50000, 200000}
	if c.Thorough() {
		ladder = append(ladder, 23, 57, 150, 700, 2000, 7000, 30000, 100000, 1000000)
		sort.Slice(ladder, func(i, j int) bool { return ladder[i] < ladder[j] })
	}
	for i, t := range quota.Interceptors {
		if !c.Mine(i) {
			continue
		}
		text := strings.ReplaceAll(t.Src, "$WORK", "n = (n or 0) + 1")
		var prev []string
		for _, L := range ladder {
			c.Begin(fmt.Sprintf("%s/L%d", t.Name, L), text)
			o := quota.Run(text, nil, L, 0)
			c.Eval(1)
			what := fmt.Sprintf("interceptor %s under cpu limit %d", t.Name, L)
			reportHooks(c, o, what, text)
			tr := noGC(o.Trace)
			switch {
			case o.Kind != gl.Killed || o.CtxStatus != "killed":
				c.Violation("not-killed", "interceptor "+t.Name+" ended "+o.Kind, fmt.Sprintf("%s: ended %s (status %s, used %d) err=%s after %d events: a never-ending program must be killed", what, o.Kind, o.CtxStatus, o.UsedCPU, o.ErrMsg, len(tr)), text)
			case o.UsedCPU >= L:
				c.Violation("used-reaches-limit", "interceptor "+t.Name, fmt.Sprintf("%s: used %d", what, o.UsedCPU), text)
			case prev != nil && !quota.IsPrefix(prev, tr):
				c.Violation("ran-after-kill", "interceptor "+t.Name+" traces not prefix-ordered", fmt.Sprintf("%s: the trace under the previous, smaller limit is not a prefix of this one: code ran after that kill.\nsmaller: %v\nthis:    %v", what, tail(prev), tail(tr)), text)
			}
			prev = tr
			c.NonTrivial(vp.Hash(t.Name, fmt.Sprint(L)))
			c.Feature("interceptor-"+t.Name+"-"+o.Kind, 1)
		}
	}
}

func amplifiers(c *vp.Child) {
	k := 0
	for _, a := range quota.Amplifiers {
		for _, n := range quota.Sizes {
			for _, lim := range []struct{ cpu, mem uint64 }{{10000, 1 << 20}, {1000000, 64 << 20}} {
				k++
				if !c.Mine(k) {
					continue
				}
				text := strings.ReplaceAll(a.Src, "$N", n)
				c.Begin(fmt.Sprintf("%s/N=%s/cpu=%d", a.Name, n, lim.cpu), text)
				t0 := quota.CPUTime()
				o := quota.Run(text, nil, lim.cpu, lim.mem)
				dt := quota.CPUTime() - t0
				c.Eval(1)
				what := fmt.Sprintf("%s with N=%s under cpu %d / memory %d", a.Name, n, lim.cpu, lim.mem)
				reportHooks(c, o, what, text)
				if dt > 20 {
					// confirm against the machine: a loaded host makes fresh-memory work erratic
					confirmed, inconclusive, best, cal := quota.ConfirmSlow(dt, 20, func() float64 {
						t0 := quota.CPUTime()
						quota.Run(text, nil, lim.cpu, lim.mem)
						return quota.CPUTime() - t0
					})
					switch {
					case confirmed:
						c.Violation("unmetered-work", a.Name+" N="+n, fmt.Sprintf("%s: used %.1f s of process CPU time before coming back in each of 4 runs (first %.1f s; calibration %.2f s) (%s, status %s, accounted cpu %d)", what, best, dt, cal, o.Kind, o.CtxStatus, o.UsedCPU), text)
					case inconclusive:
						c.Inconclusive(fmt.Sprintf("%s: %.1f s of CPU time, but the machine's calibration run took %.2f s", what, best, cal))
					default:
						c.Feature("amplifier-slow-once-not-confirmed", 1)
					}
				}
				if o.CtxStatus == "killed" && o.UsedCPU >= lim.cpu {
					c.Violation("used-reaches-limit", a.Name, fmt.Sprintf("%s: used %d", what, o.UsedCPU), text)
				}
				c.NonTrivial(vp.Hash(a.Name, n, fmt.Sprint(lim.cpu)))
				c.Feature("amplifier-outcome-"+o.Kind, 1)
				if dt > 1 {
					c.Feature("amplifier-slower-than-1s", 1)
				}
			}
		}
	}
}

// superlinear: the work the compiler does for load() inside a limited context
// must stay linear in the size of the chunk ("a constant times the memory the
// context may hold"; the CPU counter is only charged once, for the source
// length, before compiling). The monitor is the verif hook counting the
// lexical scopes visited by name resolution (ir.VerifScopeVisits), a
// deterministic work counter: the same template is loaded at size n and at
// size 4n; linear work gives 4 times the visits, quadratic work 16 times. A
// verdict needs a ratio above 8 and more than 1e8 visits at the larger size
// (about 100 visits per source byte). Process CPU time is recorded as
// information only (it is not reliable on a loaded host).
var superlinearTemplates = []struct{ name, src string }{
	// a chunk with $N local variables, all captured by one function
	{"load-many-locals", `local t = {} for i = 1, $N do t[#t + 1] = "local a" .. i .. " = " .. i end
t[#t + 1] = "return function() return 0" for i = 1, $N do t[#t + 1] = " + a" .. i end t[#t + 1] = " end"
local f, err = load(table.concat(t, "\n")) return f == nil`},
	// references to a global from inside deeply nested blocks
	{"load-globals-in-deep-blocks", `local d = math.min($N // 2, 9000) local t = {} for i = 1, d do t[#t + 1] = "do local v" .. i .. " = 0" end
for i = 1, $N do t[#t + 1] = "g = g" end for i = 1, d do t[#t + 1] = "end" end
local f, err = load(table.concat(t, "\n")) return f == nil`},
	// $N locals in one block, then $N jumps back to a label in front of them
	{"load-gotos-out-of-many-scopes", `local t = {"local x = 0", "::top::"} for i = 1, $N do t[#t + 1] = "local a" .. i .. " = " .. i end
for i = 1, $N do t[#t + 1] = "if x == " .. i .. " then goto top end" end
local f, err = load(table.concat(t, "\n")) return f == nil`},
	// $N labels declared in nested blocks of one function
	{"load-many-labels-in-nested-scopes", `local t = {} for i = 1, $N do t[#t + 1] = "local b" .. i .. " = 0 ::l" .. i .. ":: b" .. i .. " = 1" end
local f, err = load(table.concat(t, "\n")) return f == nil`},
	// a chunk that is one long sequence of statements on globals
	{"load-many-statements", `local t = {} for i = 1, $N * 4 do t[#t + 1] = "x = (x or 0) + " .. i end
local f, err = load(table.concat(t, "\n")) return f == nil`},
	// many sibling blocks, each with a few locals
	{"load-many-blocks", `local t = {} for i = 1, $N do t[#t + 1] = "do local a, b = " .. i .. ", x; x = a + (b or 0) end" end
local f, err = load(table.concat(t, "\n")) return f == nil`},
	// many small functions
	{"load-many-functions", `local t = {"local r = 0"} for i = 1, $N do t[#t + 1] = "r = r + (function(p) local q = p + " .. i .. " return q end)(r)" end
local f, err = load(table.concat(t, "\n")) return f == nil`},
	{"load-long-concat-chain", `local t = {} for i = 1, $N do t[#t + 1] = "'s" .. i .. "'" end
local f, err = load("return " .. table.concat(t, " .. ")) return f == nil`},
	{"load-big-table-constructor", `local t = {} for i = 1, $N * 4 do t[#t + 1] = "k" .. i .. " = " .. i end
local f, err = load("return {" .. table.concat(t, ", ") .. "}") return f == nil`},
}

func superlinear(c *vp.Child, k0 int) {
	const n1, n2 = 4000, 16000
	for i, tpl := range superlinearTemplates {
		if !c.Mine(k0 + i) {
			continue
		}
		measure := func(n int) (visits uint64, secs float64, o *gl.Outcome) {
			text := strings.ReplaceAll(tpl.src, "$N", fmt.Sprint(n))
			v0 := atomic.LoadUint64(&ir.VerifScopeVisits)
			t0 := quota.CPUTime()
			o = quota.Run(text, nil, 2000000000, 1<<30)
			return atomic.LoadUint64(&ir.VerifScopeVisits) - v0, quota.CPUTime() - t0, o
		}
		text2 := strings.ReplaceAll(tpl.src, "$N", fmt.Sprint(n2))
		c.Begin("superlinear/"+tpl.name, text2)
		v1, t1, o1 := measure(n1)
		v2, t2, o2 := measure(n2)
		c.Eval(2)
		c.NonTrivial(vp.Hash("superlinear", tpl.name))
		if o1.Kind != gl.OK || o2.Kind != gl.OK {
			c.Violation("superlinear-outcome", tpl.name, fmt.Sprintf("the template did not run to its end: %s / %s", o1.String(), o2.String()), text2)
			continue
		}
		if v1 == 0 || v2 == 0 {
			c.Violation("hook-silent", tpl.name, "the scope-visit hook counted nothing while a chunk was compiled", text2)
			continue
		}
		ratio := float64(v2) / float64(v1)
		c.Sample(fmt.Sprintf("superlinear %s: scope visits %d at n=%d, %d at n=%d (ratio %.1f); cpu time %.2f s / %.2f s; accounted cpu %d / %d", tpl.name, v1, n1, v2, n2, ratio, t1, t2, o1.UsedCPU, o2.UsedCPU))
		if ratio > 8 && v2 > 100000000 {
			c.Violation("superlinear-unmetered", tpl.name, fmt.Sprintf("%s: name resolution visited %d lexical scopes for size %d and %d for size %d (ratio %.1f for 4 times the size; linear work gives 4) "+
				"while the CPU counter advanced by %d and %d in all; process CPU time %.2f s and %.2f s", tpl.name, v1, n1, v2, n2, ratio, o1.UsedCPU, o2.UsedCPU, t1, t2), text2)
		}
	}
}

func (Prop) RunBatch(c *vp.Child) {
	switch {
	case strings.HasPrefix(c.Stage, "exact"):
		exact(c)
	case c.Stage == "interceptors":
		interceptors(c)
	case c.Stage == "amplifiers":
		amplifiers(c)
		superlinear(c, 100003)
	}
}

func (Prop) Replay(c *vp.Child, input string) {
	base := quota.Run(input, nil, huge, 0)
	fmt.Printf("unlimited: %s status=%s used=%d\n", base.String(), base.CtxStatus, base.UsedCPU)
	for _, L := range []uint64{base.UsedCPU - 1, base.UsedCPU, base.UsedCPU + 1} {
		o := quota.Run(input, nil, L, 0)
		fmt.Printf("limit %d: kind=%s status=%s used=%d events=%d\n", L, o.Kind, o.CtxStatus, o.UsedCPU, len(o.Trace))
	}
}
