package c17

import (
	"fmt"
	"math"
	"math/rand"
	"strconv"
	"strings"

	rt "github.com/arnodel/golua/runtime"

	pm "verif/internal/packmodel"
	"verif/internal/vp"
)

// measureNative asks golua for its implementation-defined choices.
func measureNative(e *env) (pm.Native, bool) {
	size := func(f string) (int, bool) {
		rets, msg, k := e.call(e.packsize, sv(f))
		if k != kOK || len(rets) != 1 || rets[0].Type() != rt.IntType {
			e.violation("rejects-wellformed", "packsize fmt="+strconv.Quote(f), fmt.Sprintf("string.packsize(%q) should give the native size: %s %s", f, msg, showList(rets)), "")
			return 0, false
		}
		return int(rets[0].AsInt()), true
	}
	var nat pm.Native
	ok := true
	get := func(f string, dst *int) {
		n, o := size(f)
		*dst = n
		ok = ok && o
		if o && (n < 1 || n > 16) {
			e.violation("native", "native size "+f, fmt.Sprintf("string.packsize(%q) = %d is not a usable size", f, n), "")
			ok = false
		}
	}
	get("h", &nat.Short)
	get("i", &nat.Int)
	get("l", &nat.Long)
	get("T", &nat.SizeT)
	get("f", &nat.Float)
	get("d", &nat.Double)
	if !ok {
		return nat, false
	}
	// lua_Integer and lua_Number are 64-bit in this implementation
	for _, f := range []string{"j", "J", "n"} {
		if n, o := size(f); o && n != 8 {
			e.violation("packsize-value", "packsize fmt="+strconv.Quote(f), fmt.Sprintf("string.packsize(%q) = %d, but a Lua integer/float has 8 bytes", f, n), "")
			ok = false
		}
	}
	// native maximum alignment: padding in front of a 16-byte integer after one byte
	if n, o := size("!xi16"); o {
		nat.MaxAlign = n - 17 + 1
		if nat.MaxAlign < 1 || nat.MaxAlign > 16 || nat.MaxAlign&(nat.MaxAlign-1) != 0 {
			e.violation("native", "native alignment", fmt.Sprintf("string.packsize(\"!xi16\") = %d gives no usable native alignment", n), "")
			ok = false
		}
	} else {
		ok = false
	}
	rets, msg, k := e.call(e.pack, sv("=I2"), rt.IntValue(1))
	if k != kOK || len(rets) != 1 || rets[0].Type() != rt.StringType || len(rets[0].AsString()) != 2 {
		e.violation("rejects-valid", "pack fmt=\"=I2\" vals=pos", "string.pack(\"=I2\", 1): "+msg+showList(rets), "")
		return nat, false
	}
	nat.Little = rets[0].AsString()[0] == 1
	return nat, ok
}

func fq(f string) string {
	if len(f) > 24 {
		return strconv.Quote(f[:24]) + "..."
	}
	return strconv.Quote(f)
}

type packer struct {
	e   *env
	nat pm.Native
	r   *rand.Rand
}

const universal = "0" // a numeric string is acceptable to every directive

// defaultVals builds arguments for an enumerated format.
func defaultVals(F *pm.Format, st pm.Status) []pm.V {
	if st != pm.OK {
		vs := make([]pm.V, 8)
		for i := range vs {
			vs[i] = pm.StrV(universal)
		}
		return vs
	}
	var vs []pm.V
	for _, it := range F.Items {
		if !it.HasValue() {
			continue
		}
		switch it.Kind {
		case pm.KInt, pm.KUint:
			vs = append(vs, pm.IntV(1))
		case pm.KFloat:
			vs = append(vs, pm.FloatV(1.5))
		case pm.KFixed:
			if it.Size == 0 {
				vs = append(vs, pm.StrV(""))
			} else {
				vs = append(vs, pm.StrV("a"))
			}
		default:
			vs = append(vs, pm.StrV("a"))
		}
	}
	return vs
}

// check runs one (format, values) case through packsize, pack and unpack and
// returns what disagreed with the model.
func (p *packer) check(f string, vals []pm.V, extras bool) []finding {
	e := p.e
	c := e.c
	var fs []finding
	F, st := pm.Parse(f, p.nat)
	add := func(kind, fn, detail string) {
		sig := fn + " [" + F.Class(st) + "]"
		if st == pm.OK {
			sig += " vals=" + classes(vals)
		}
		fs = append(fs, finding{kind, sig, detail})
	}
	c.Feature("format-status-"+st.String(), 1)
	witness := fmt.Sprintf("string.pack(%s, %s)", luaStr(f), luaArgs(vals))

	// --- packsize
	c.Eval(1)
	rets, msg, k := e.call(e.packsize, sv(f))
	switch {
	case k == kPanic:
		add("panic", "packsize", "string.packsize("+luaStr(f)+") panics: "+msg)
	case st == pm.Err && k == kOK:
		add("accepts-malformed", "packsize", fmt.Sprintf("string.packsize(%s) = %s, but the format is malformed: %s", luaStr(f), showList(rets), F.Why))
	case st == pm.OK:
		size, sst := F.Size()
		switch {
		case sst == pm.Err && k == kOK:
			add("packsize-variable", "packsize", fmt.Sprintf("string.packsize(%s) = %s for a variable-size format", luaStr(f), showList(rets)))
		case sst == pm.OK && k != kOK:
			add("rejects-wellformed", "packsize", fmt.Sprintf("string.packsize(%s) raises %q, the manual gives %d", luaStr(f), msg, size))
		case sst == pm.OK && (len(rets) != 1 || !isIntVal(rets[0], int64(size))):
			add("packsize-value", "packsize", fmt.Sprintf("string.packsize(%s) = %s, the manual gives %d", luaStr(f), showList(rets), size))
		}
	}

	// --- pack
	c.Eval(1)
	args := make([]rt.Value, 0, len(vals)+1)
	args = append(args, sv(f))
	for _, v := range vals {
		args = append(args, toRT(v))
	}
	rets, msg, k = e.call(e.pack, args...)
	var packed string
	var P *pm.Packed
	roundTrip := false
	switch {
	case k == kPanic:
		add("panic", "pack", witness+" panics: "+msg)
	case k == kOK && (len(rets) != 1 || rets[0].Type() != rt.StringType):
		add("pack-result", "pack", witness+" returns "+showList(rets))
	case st == pm.Err && k == kOK:
		add("accepts-malformed", "pack", fmt.Sprintf("%s = %q, but the format is malformed: %s", witness, rets[0].AsString(), F.Why))
	case st == pm.OK:
		var pst pm.Status
		var why string
		P, pst, why = F.Pack(vals)
		c.Feature("pack-status-"+pst.String(), 1)
		switch {
		case pst == pm.Err && k == kOK:
			add("accepts-bad-value", "pack", fmt.Sprintf("%s = %q, the manual requires an error: %s", witness, rets[0].AsString(), why))
		case pst == pm.OK && k != kOK:
			add("rejects-valid", "pack", fmt.Sprintf("%s raises %q, the manual gives %q", witness, msg, string(P.Bytes)))
		case pst == pm.OK:
			packed = rets[0].AsString()
			roundTrip = true
			if len(packed) != len(P.Bytes) {
				add("pack-bytes", "pack", fmt.Sprintf("%s = %q (%d bytes), the manual gives %q (%d bytes)", witness, packed, len(packed), string(P.Bytes), len(P.Bytes)))
				roundTrip = false
			} else {
				for i := range P.Bytes {
					if P.Known[i] && packed[i] != P.Bytes[i] {
						add("pack-bytes", "pack", fmt.Sprintf("%s = %q, the manual gives %q (first difference at byte %d)", witness, packed, string(P.Bytes), i+1))
						break
					}
				}
			}
			if size, sst := F.Size(); sst == pm.OK && size != len(packed) {
				add("packsize-vs-pack", "pack", fmt.Sprintf("#%s = %d but the fixed size of the format is %d", witness, len(packed), size))
			}
		}
	}

	// --- unpack
	if st == pm.Err {
		c.Eval(1)
		data := strings.Repeat("\x00", 40)
		rets, msg, k = e.call(e.unpack, sv(f), sv(data))
		switch {
		case k == kPanic:
			add("panic", "unpack", fmt.Sprintf("string.unpack(%s, ('\\0'):rep(40)) panics: %s", luaStr(f), msg))
		case k == kOK:
			add("accepts-malformed", "unpack", fmt.Sprintf("string.unpack(%s, ('\\0'):rep(40)) = %s, but the format is malformed: %s", luaStr(f), showList(rets), F.Why))
		}
	}
	if st == pm.Skip {
		c.Eval(1)
		if _, msg, k = e.call(e.unpack, sv(f), sv(strings.Repeat("\x00", 40))); k == kPanic {
			add("panic", "unpack", fmt.Sprintf("string.unpack(%s, ('\\0'):rep(40)) panics: %s", luaStr(f), msg))
		}
	}
	if roundTrip {
		c.Eval(1)
		rets, msg, k = e.call(e.unpack, sv(f), sv(packed))
		uw := fmt.Sprintf("string.unpack(%s, %s)", luaStr(f), witness)
		switch {
		case k == kPanic:
			add("panic", "unpack", uw+" panics: "+msg)
		case k == kErr:
			add("roundtrip", "unpack", fmt.Sprintf("%s raises %q; packed = %q", uw, msg, packed))
		default:
			ok := len(rets) == len(P.Back)+1
			for i := 0; ok && i < len(P.Back); i++ {
				ok = sameValue(rets[i], P.Back[i])
			}
			ok = ok && isIntVal(rets[len(rets)-1], int64(len(packed))+1)
			if !ok {
				add("roundtrip", "unpack", fmt.Sprintf("%s = %s; expected %s, %d; packed = %q", uw, showList(rets), showVs(P.Back), len(packed)+1, packed))
			}
		}
		if extras {
			p.extras(F, f, packed, add)
		}
	}
	return fs
}

// unpackAgainstModel compares string.unpack(f, data, init) with the model.
// init is 1-based and within [1, len+1].
func (p *packer) unpackAgainstModel(F *pm.Format, f string, data string, init int, what string, add func(kind, fn, detail string)) {
	e := p.e
	e.c.Eval(1)
	want, next, st, why := F.Unpack([]byte(data), init-1)
	e.c.Feature("unpack-status-"+st.String(), 1)
	var rets []rt.Value
	var msg string
	var k outcome
	call := fmt.Sprintf("string.unpack(%s, %s, %d)", luaStr(f), luaStr(data), init)
	if init == 1 {
		rets, msg, k = e.call(e.unpack, sv(f), sv(data))
	} else {
		rets, msg, k = e.call(e.unpack, sv(f), sv(data), rt.IntValue(int64(init)))
	}
	switch {
	case k == kPanic:
		add("panic", "unpack", call+" panics: "+msg)
	case st == pm.Err && k == kOK:
		add("unpack-accepts", "unpack "+what, fmt.Sprintf("%s = %s, the manual requires an error: %s", call, showList(rets), why))
	case st == pm.OK && k == kErr:
		add("unpack-rejects", "unpack "+what, fmt.Sprintf("%s raises %q, the manual gives %s, %d", call, msg, showVs(want), next+1))
	case st == pm.OK:
		ok := len(rets) == len(want)+1
		for i := 0; ok && i < len(want); i++ {
			ok = sameValue(rets[i], want[i])
		}
		ok = ok && isIntVal(rets[len(rets)-1], int64(next)+1)
		if !ok {
			add("unpack-value", "unpack "+what, fmt.Sprintf("%s = %s, the manual gives %s, %d", call, showList(rets), showVs(want), next+1))
		}
	}
}

func unaligned(F *pm.Format) bool {
	for _, it := range F.Items {
		if it.Align > 1 {
			return false
		}
	}
	return true
}

// extras: unpack at an offset, with negative / out-of-range init, truncated.
func (p *packer) extras(F *pm.Format, f string, packed string, add func(kind, fn, detail string)) {
	e := p.e
	r := p.r
	// truncation: every prefix class (a few cut points)
	if len(packed) > 0 {
		cuts := []int{0, len(packed) - 1, r.Intn(len(packed))}
		for _, cut := range cuts {
			p.unpackAgainstModel(F, f, packed[:cut], 1, "truncated", add)
		}
	}
	if !unaligned(F) {
		return
	}
	// at an offset
	k := 1 + r.Intn(5)
	junk := make([]byte, k)
	for i := range junk {
		junk[i] = byte(r.Intn(256))
	}
	data := string(junk) + packed
	p.unpackAgainstModel(F, f, data, k+1, "init", add)
	// negative init: the manual does not describe it for unpack; accept an
	// error or the end-relative reading, nothing else.
	if len(packed) > 0 {
		e.c.Eval(1)
		want, next, st, _ := F.Unpack([]byte(data), k)
		rets, msg, kk := e.call(e.unpack, sv(f), sv(data), rt.IntValue(int64(-len(packed))))
		call := fmt.Sprintf("string.unpack(%s, %s, %d)", luaStr(f), luaStr(data), -len(packed))
		switch {
		case kk == kPanic:
			add("panic", "unpack", call+" panics: "+msg)
		case kk == kOK && st == pm.OK:
			ok := len(rets) == len(want)+1
			for i := 0; ok && i < len(want); i++ {
				ok = sameValue(rets[i], want[i])
			}
			ok = ok && isIntVal(rets[len(rets)-1], int64(next)+1)
			if !ok {
				add("unpack-value", "unpack negative-init", fmt.Sprintf("%s = %s, reading from the end gives %s, %d", call, showList(rets), showVs(want), next+1))
			}
		}
	}
	// past the end: init > len+1 cannot be a position of the string
	needs := false
	for _, it := range F.Items {
		if it.Kind != pm.KAlign && !(it.Kind == pm.KFixed && it.Size == 0) {
			needs = true
		}
	}
	if needs {
		for _, init := range []int64{int64(len(data)) + 2, int64(len(data)) + 1 + int64(r.Intn(1000)), math.MaxInt64} {
			e.c.Eval(1)
			rets, msg, kk := e.call(e.unpack, sv(f), sv(data), rt.IntValue(init))
			call := fmt.Sprintf("string.unpack(%s, %s, %d)", luaStr(f), luaStr(data), init)
			switch {
			case kk == kPanic:
				add("panic", "unpack", call+" panics: "+msg)
			case kk == kOK:
				add("unpack-accepts", "unpack init-past-end", fmt.Sprintf("%s = %s, but there is no data at that position", call, showList(rets)))
			}
		}
		for _, init := range []int64{-int64(len(data)) - 1, math.MinInt64} {
			// before the start: error or clamped to 1 are both plausible; only a panic is judged
			e.c.Eval(1)
			if _, msg, kk := e.call(e.unpack, sv(f), sv(data), rt.IntValue(init)); kk == kPanic {
				add("panic", "unpack", fmt.Sprintf("string.unpack(%s, %s, %d) panics: %s", luaStr(f), luaStr(data), init, msg))
			}
		}
	}
}

func (p *packer) report(fs []finding, in string) {
	for _, f := range fs {
		p.e.violation(f.kind, f.sig, f.detail, in)
	}
}

// run executes a case; a failing multi-directive case is first reduced to a
// single directive (same configuration prefix) if that still fails.
func (p *packer) run(id string, f string, vals []pm.V, extras bool) {
	c := p.e.c
	in := fmt.Sprintf("string.pack(%s, %s)", luaStr(f), luaArgs(vals))
	c.Begin(id, in)
	fs := p.check(f, vals, extras)
	F, st := pm.Parse(f, p.nat)
	if st == pm.OK && F.NValues() > 0 || st != pm.OK && len(f) >= 2 {
		c.NonTrivial(vp.Hash("pack", f, showVs(vals)))
	}
	if len(fs) > 0 {
		if st == pm.OK && F.NValues() > 1 {
			if red := p.reduce(F, f, vals); len(red) > 0 {
				fs = red
			}
		}
		p.report(fs, in)
	} else if p.e.wantSample(2) && st == pm.OK && F.NValues() >= 2 && len(f) > 6 {
		if P, pst, _ := F.Pack(vals); pst == pm.OK {
			p.e.sample(map[string]interface{}{"format": f, "values": showVs(vals), "packed_bytes": fmt.Sprintf("% x", P.Bytes), "unpack": showVs(P.Back) + ", " + strconv.Itoa(len(P.Bytes)+1)})
		}
	}
	p.e.hookReports(in)
}

// reduce tries each value directive on its own (with the endianness and
// alignment configuration that was in force) and returns the findings of
// the first one that fails.
func (p *packer) reduce(F *pm.Format, f string, vals []pm.V) []finding {
	vi := 0
	for _, it := range F.Items {
		if !it.HasValue() {
			continue
		}
		if vi >= len(vals) {
			break
		}
		v := vals[vi]
		vi++
		pre := ">"
		if it.Little {
			pre = "<"
		}
		single := pre + it.Text
		if it.Align > 1 {
			single = pre + "!" + strconv.Itoa(it.Align) + it.Text
		}
		if fs := p.check(single, []pm.V{v}, false); len(fs) > 0 {
			return fs
		}
		if it.Align > 1 {
			// alignment faults only show at an unaligned offset
			if fs := p.check(pre+"!"+strconv.Itoa(it.Align)+"x"+it.Text, []pm.V{v}, false); len(fs) > 0 {
				return fs
			}
		}
	}
	return nil
}

// ---------------------------------------------------------------------------
// value generation

func intBounds(size int, signed bool) (lo, hi int64) {
	if size >= 8 {
		return math.MinInt64, math.MaxInt64
	}
	if signed {
		return -(int64(1) << (8*uint(size) - 1)), int64(1)<<(8*uint(size)-1) - 1
	}
	return 0, int64(1)<<(8*uint(size)) - 1
}

func randIn(r *rand.Rand, lo, hi int64) int64 {
	span := uint64(hi) - uint64(lo)
	if span == math.MaxUint64 {
		return int64(r.Uint64())
	}
	return int64(uint64(lo) + r.Uint64()%(span+1))
}

// boundaryInts lists the interesting values for an integer option.
func boundaryInts(size int, signed bool) []int64 {
	lo, hi := intBounds(size, signed)
	vs := []int64{0, 1, -1, 2, 127, 128, -128, -129, 255, 256, lo, lo + 1, hi, hi - 1, math.MaxInt64, math.MinInt64, math.MaxInt64 - 1, math.MinInt64 + 1,
		0x0102030405060708, -0x0102030405060708, int64(-0x8000000000000000 + 0x0102030405060708)}
	if size < 8 {
		vs = append(vs, lo-1, hi+1, hi+2, (hi+1)*2-1, (hi+1)*2, -(hi + 1), -(hi+1)*2)
		vs = append(vs, 0x0102030405060708&hi)
	}
	seen := map[int64]bool{}
	var out []int64
	for _, v := range vs {
		if !seen[v] {
			seen[v] = true
			out = append(out, v)
		}
	}
	return out
}

func randInt(r *rand.Rand, size int, signed bool, bad bool) int64 {
	lo, hi := intBounds(size, signed)
	if bad && size < 8 {
		switch r.Intn(4) {
		case 0:
			return hi + 1
		case 1:
			return lo - 1
		case 2:
			if r.Intn(2) == 0 {
				return randIn(r, hi+1, math.MaxInt64)
			}
			return randIn(r, math.MinInt64, lo-1)
		default:
			return []int64{math.MaxInt64, math.MinInt64}[r.Intn(2)]
		}
	}
	switch r.Intn(6) {
	case 0:
		return []int64{lo, hi, lo + 1, hi - 1}[r.Intn(4)]
	case 1:
		v := []int64{0, 1, -1, 2}[r.Intn(4)]
		if v < lo {
			v = 0
		}
		return v
	default:
		if size >= 8 {
			return int64(r.Uint64())
		}
		return randIn(r, lo, hi)
	}
}

var floatLattice = []float64{0, math.Copysign(0, -1), 1, -1, 0.5, 1.5, -1.5, 2, 1 << 24, 1<<24 + 1, 1 << 53, 123.456, 0.1, 1e-3, 1e10, 1e38,
	math.MaxFloat32, -math.MaxFloat32, math.SmallestNonzeroFloat32, math.MaxFloat64, -math.MaxFloat64, math.SmallestNonzeroFloat64,
	3.5e38, 1e39, -1e300, math.Inf(1), math.Inf(-1), math.NaN(), 2.2250738585072014e-308, 1.1754943508222875e-38, 1.1754942106924411e-38}

func randFloat(r *rand.Rand, size int, bad bool) float64 {
	if size == 4 {
		switch r.Intn(8) {
		case 0:
			return floatLattice[r.Intn(len(floatLattice))]
		case 1: // inexact in a 4-byte float
			return (r.Float64() - 0.5) * math.Ldexp(1, r.Intn(200)-100)
		case 2:
			if bad {
				return math.Ldexp(1+r.Float64(), 128+r.Intn(100))
			}
		}
		f := math.Float32frombits(r.Uint32())
		return float64(f) // NaNs included
	}
	switch r.Intn(6) {
	case 0:
		return floatLattice[r.Intn(len(floatLattice))]
	case 1:
		return float64(r.Int63n(1<<20)) - 1<<19
	}
	return math.Float64frombits(r.Uint64())
}

func randBytes(r *rand.Rand, n int, noZero bool) string {
	b := make([]byte, n)
	for i := range b {
		switch r.Intn(4) {
		case 0:
			const set = "a\x00\xff\n\x80 0z"
			b[i] = set[r.Intn(len(set))]
		default:
			b[i] = byte(r.Intn(256))
		}
		if noZero && b[i] == 0 {
			b[i] = 1 + byte(r.Intn(255))
		}
	}
	return string(b)
}

func randLen(r *rand.Rand) int {
	switch r.Intn(10) {
	case 0:
		return 0
	case 1:
		return 1
	case 2:
		return 20 + r.Intn(300)
	}
	return r.Intn(12)
}

func (p *packer) valuesFor(F *pm.Format, badProb int) []pm.V {
	r := p.r
	var vs []pm.V
	for _, it := range F.Items {
		if !it.HasValue() {
			continue
		}
		bad := badProb > 0 && r.Intn(badProb) == 0
		switch it.Kind {
		case pm.KInt:
			vs = append(vs, pm.IntV(randInt(r, it.Size, true, bad)))
		case pm.KUint:
			vs = append(vs, pm.IntV(randInt(r, it.Size, false, bad)))
		case pm.KFloat:
			vs = append(vs, pm.FloatV(randFloat(r, it.Size, bad)))
		case pm.KFixed:
			n := it.Size
			switch {
			case bad:
				n = it.Size + 1 + r.Intn(3)
			case r.Intn(2) == 0 && it.Size > 0:
				n = r.Intn(it.Size + 1)
			}
			vs = append(vs, pm.StrV(randBytes(r, n, false)))
		case pm.KZ:
			s := randBytes(r, randLen(r), !bad)
			if bad && strings.IndexByte(s, 0) < 0 {
				s += "\x00x"
			}
			vs = append(vs, pm.StrV(s))
		case pm.KLenStr:
			n := randLen(r)
			if it.Size == 1 && r.Intn(6) == 0 {
				n = []int{255, 256, 254, 300}[r.Intn(4)]
			}
			if it.Size == 2 && r.Intn(40) == 0 {
				n = []int{65535, 65536}[r.Intn(2)]
			}
			vs = append(vs, pm.StrV(randBytes(r, n, false)))
		}
	}
	// sometimes drop the last value: "not enough values"
	if len(vs) > 0 && badProb > 0 && r.Intn(badProb*4) == 0 {
		vs = vs[:len(vs)-1]
	}
	return vs
}

// ---------------------------------------------------------------------------
// format generation

var pow2Aligns = []string{"!1", "!2", "!4", "!8", "!16"}

func intDirective(r *rand.Rand) string {
	c := "iI"[r.Intn(2)]
	return string(c) + strconv.Itoa(1+r.Intn(16))
}

func valueDirective(r *rand.Rand) string {
	switch n := r.Intn(100); {
	case n < 40:
		return intDirective(r)
	case n < 60:
		return string("bBhHlLjJTiI"[r.Intn(11)])
	case n < 75:
		return string("fdn"[r.Intn(3)])
	case n < 83:
		if r.Intn(4) == 0 {
			return "s"
		}
		return "s" + strconv.Itoa([]int{1, 2, 4, 8, 3, 16, 1 + r.Intn(16)}[r.Intn(7)])
	case n < 90:
		return "z"
	default:
		return "c" + strconv.Itoa([]int{0, 1, 2, 5, 17, r.Intn(40)}[r.Intn(6)])
	}
}

func alignableDirective(r *rand.Rand) string {
	switch r.Intn(5) {
	case 0:
		return string("bBhHlLjJTiIfdnx"[r.Intn(15)])
	case 1:
		return "s" + strconv.Itoa(1<<uint(r.Intn(5)))
	}
	c := "iI"[r.Intn(2)]
	if r.Intn(3) == 0 {
		return string(c) + strconv.Itoa(1+r.Intn(16))
	}
	return string(c) + strconv.Itoa(1<<uint(r.Intn(5)))
}

func genFormat(r *rand.Rand, maxItems int) string {
	var b strings.Builder
	conf := func() {
		switch r.Intn(12) {
		case 0, 1, 2:
			b.WriteByte("<>="[r.Intn(3)])
		case 3, 4:
			switch r.Intn(10) {
			case 0:
				b.WriteString("!")
			case 1:
				b.WriteString("!" + strconv.Itoa(1+r.Intn(16)))
			default:
				b.WriteString(pow2Aligns[r.Intn(len(pow2Aligns))])
			}
		case 5:
			b.WriteByte(' ')
		case 6:
			b.WriteByte('x')
		case 7:
			b.WriteString("X" + alignableDirective(r))
		}
	}
	if r.Intn(2) == 0 {
		b.WriteByte("<>="[r.Intn(3)])
	}
	if r.Intn(3) == 0 {
		b.WriteString(pow2Aligns[r.Intn(len(pow2Aligns))])
	}
	n := 1 + r.Intn(maxItems)
	for i := 0; i < n; i++ {
		conf()
		b.WriteString(valueDirective(r))
	}
	conf()
	return b.String()
}

const enumAlphabet = "<>=! bBhHjJlTiIfdnszxXc012789y"

// ---------------------------------------------------------------------------

func runPack(c *vp.Child) {
	e := newEnv(c)
	defer e.s.Close()
	nat, ok := measureNative(e)
	c.Output("native", fmt.Sprintf("%+v", nat))
	if !ok {
		c.Inconclusive("native sizes could not be measured")
		return
	}
	p := &packer{e: e, nat: nat, r: c.Rand("pack")}
	idx := 0

	// (1) every format string up to a length bound over the option alphabet
	maxLen := c.Pick(3, 4)
	buf := make([]byte, 0, 8)
	var rec func(d int)
	rec = func(d int) {
		if d > 0 {
			idx++
			if c.Mine(idx) {
				f := string(buf)
				F, st := pm.Parse(f, nat)
				p.run("enum "+strconv.Quote(f), f, defaultVals(F, st), false)
				c.Feature("enum-formats", 1)
			}
		}
		if d == maxLen {
			return
		}
		for i := 0; i < len(enumAlphabet); i++ {
			buf = append(buf, enumAlphabet[i])
			rec(d + 1)
			buf = buf[:len(buf)-1]
		}
	}
	rec(0)

	// (2) every single directive x endianness x boundary values
	for _, pre := range []string{"<", ">", "=", "", "<!8", ">!16"} {
		var dirs []string
		for n := 1; n <= 16; n++ {
			dirs = append(dirs, "i"+strconv.Itoa(n), "I"+strconv.Itoa(n))
		}
		for _, d := range "bBhHlLjJTiI" {
			dirs = append(dirs, string(d))
		}
		for _, d := range dirs {
			f := pre + d
			F, st := pm.Parse(f, nat)
			if st != pm.OK || len(F.Items) != 1 {
				continue
			}
			it := F.Items[0]
			for _, v := range boundaryInts(it.Size, it.Kind == pm.KInt) {
				idx++
				if c.Mine(idx) {
					p.run("single "+f, f, []pm.V{pm.IntV(v)}, true)
					c.Feature("single-int", 1)
				}
			}
		}
		for _, d := range []string{"f", "d", "n"} {
			for _, v := range floatLattice {
				idx++
				if c.Mine(idx) {
					p.run("single "+pre+d, pre+d, []pm.V{pm.FloatV(v)}, true)
					c.Feature("single-float", 1)
				}
			}
		}
		strs := []string{"", "a", "ab", "hello", "a\x00b", "\x00", "\xff\xfe", strings.Repeat("x", 255), strings.Repeat("y", 256), strings.Repeat("z", 70000)}
		sdirs := []string{"z", "s", "c0", "c1", "c2", "c5", "c255", "c256", "c300"}
		for n := 1; n <= 16; n++ {
			sdirs = append(sdirs, "s"+strconv.Itoa(n))
		}
		for _, d := range sdirs {
			for _, s := range strs {
				if len(s) > 300 && d != "s2" && d != "s1" && d != "z" && d != "s3" {
					continue
				}
				idx++
				if c.Mine(idx) {
					p.run("single "+pre+d, pre+d, []pm.V{pm.StrV(s)}, true)
					c.Feature("single-string", 1)
				}
			}
		}
	}

	// (3) PRNG multi-directive formats
	n := c.Pick(100000, 2400000) / c.NB
	maxItems := c.Pick(4, 6)
	for i := 0; i < n; i++ {
		f := genFormat(p.r, maxItems)
		F, st := pm.Parse(f, nat)
		var vals []pm.V
		if st == pm.OK {
			bad := 0
			if p.r.Intn(4) == 0 {
				bad = 3
			}
			vals = p.valuesFor(F, bad)
		} else {
			vals = defaultVals(F, st)
		}
		p.run("rand "+strconv.Itoa(i), f, vals, p.r.Intn(3) == 0)
		c.Feature("random-formats", 1)
		for _, it := range F.Items {
			c.Feature("directive-"+[...]string{"signed-int", "unsigned-int", "float", "c-fixed", "z", "s-length-prefixed", "x-padding", "X-align"}[it.Kind], 1)
		}
	}
}

// ---------------------------------------------------------------------------
// unpack of arbitrary data

func runUnpackData(c *vp.Child) {
	e := newEnv(c)
	defer e.s.Close()
	nat, ok := measureNative(e)
	if !ok {
		c.Inconclusive("native sizes could not be measured")
		return
	}
	p := &packer{e: e, nat: nat, r: c.Rand("unpack")}
	r := p.r
	run := func(id string, F *pm.Format, f string, data string, init int, what string) {
		in := fmt.Sprintf("string.unpack(%s, %s, %d)", luaStr(f), luaStr(data), init)
		c.Begin(id, in)
		var fs []finding
		add := func(kind, fn, detail string) {
			fs = append(fs, finding{kind, fn + " [" + F.Class(pm.OK) + "]", detail})
		}
		p.unpackAgainstModel(F, f, data, init, what, add)
		if len(fs) > 0 && F.NValues() > 1 {
			// reduce: single directives on the same data at the offset the model reached
			off := init - 1
			for _, it := range F.Items {
				sub := &pm.Format{Items: []pm.Item{it}}
				pre := ">"
				if it.Little {
					pre = "<"
				}
				if it.Align > 1 {
					pre += "!" + strconv.Itoa(it.Align)
				}
				var fs2 []finding
				f2 := pre + it.Text
				if F2, st2 := pm.Parse(f2, nat); st2 == pm.OK && off <= len(data) {
					p.unpackAgainstModel(F2, f2, data, off+1, what, func(kind, fn, detail string) {
						fs2 = append(fs2, finding{kind, fn + " [" + F2.Class(pm.OK) + "]", detail})
					})
				}
				if len(fs2) > 0 {
					fs = fs2
					break
				}
				_, nx, st, _ := sub.Unpack([]byte(data), off)
				if st != pm.OK {
					break
				}
				off = nx
			}
		}
		p.report(fs, in)
		c.NonTrivial(vp.Hash("unpack", f, data, strconv.Itoa(init)))
		if e.wantSample(1) && len(fs) == 0 && F.NValues() >= 2 && what == "corrupted" {
			if want, next, st, _ := F.Unpack([]byte(data), init-1); st == pm.OK {
				e.sample(map[string]interface{}{"unpack_format": f, "data_bytes": fmt.Sprintf("% x", data), "init": init, "result": showVs(want) + ", " + strconv.Itoa(next+1)})
			}
		}
		e.hookReports(in)
	}

	// (1) single integer directives of every width on crafted extension bytes
	idx := 0
	for _, pre := range []string{"<", ">"} {
		for n := 1; n <= 16; n++ {
			for _, d := range []string{"i", "I", "s"} {
				f := pre + d + strconv.Itoa(n)
				F, st := pm.Parse(f, nat)
				if st != pm.OK {
					continue
				}
				pats := [][]byte{}
				for _, low := range []byte{0x00, 0x7f, 0x80, 0xff, 0x01} {
					for _, ext := range []byte{0x00, 0xff, 0x01, 0x80} {
						for _, odd := range []int{-1, 8, n - 1} {
							b := make([]byte, n)
							for k := 0; k < n; k++ {
								x := low
								if k >= 8 {
									x = ext
								}
								if k == 7 && n > 8 {
									x = low
								}
								if k == odd && k >= 8 {
									x ^= 0x10
								}
								if pre == "<" {
									b[k] = x
								} else {
									b[n-1-k] = x
								}
							}
							pats = append(pats, b)
						}
					}
				}
				for _, b := range pats {
					idx++
					if !c.Mine(idx) {
						continue
					}
					data := string(b)
					if d == "s" {
						data += "abc"
					}
					run("ext "+f, F, f, data, 1, "crafted")
					c.Feature("crafted-int", 1)
				}
			}
		}
	}

	// (2) PRNG formats on corrupted / truncated / random data
	n := c.Pick(120000, 3000000) / c.NB
	maxItems := c.Pick(4, 6)
	for i := 0; i < n; i++ {
		f := genFormat(r, maxItems)
		F, st := pm.Parse(f, nat)
		if st != pm.OK {
			continue
		}
		var data []byte
		what := "random"
		if P, pst, _ := F.Pack(p.valuesFor(F, 0)); pst == pm.OK && r.Intn(5) != 0 {
			data = append([]byte(nil), P.Bytes...)
			switch r.Intn(5) {
			case 0:
				what = "intact"
			case 1:
				what = "truncated"
				if len(data) > 0 {
					data = data[:r.Intn(len(data))]
				}
			case 2:
				what = "extended"
				data = append(data, []byte(randBytes(r, 1+r.Intn(4), false))...)
			default:
				what = "corrupted"
				for k := 0; k < 1+r.Intn(3) && len(data) > 0; k++ {
					data[r.Intn(len(data))] = []byte{0, 0xff, 0x80, 0x7f, byte(r.Intn(256))}[r.Intn(5)]
				}
			}
		} else {
			size := 0
			for _, it := range F.Items {
				size += it.Size + 1
			}
			data = make([]byte, r.Intn(size+8))
			for k := range data {
				data[k] = []byte{0, 0, 0xff, 0xff, 1, byte(r.Intn(256))}[r.Intn(6)]
			}
		}
		init := 1
		if unaligned(F) && r.Intn(4) == 0 && len(data) > 0 {
			init = 1 + r.Intn(len(data)+1)
		}
		run("data "+strconv.Itoa(i), F, f, string(data), init, what)
		c.Feature("data-"+what, 1)
	}
}
