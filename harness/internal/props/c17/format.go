package c17

import (
	"fmt"
	"math"
	"math/rand"
	"strconv"
	"strings"

	rt "github.com/arnodel/golua/runtime"

	pm "verif/internal/packmodel"
	"verif/internal/vp"
)

// one directive with its argument
type fmtPiece struct {
	lit  string // literal text in front (no '%')
	spec pm.Spec
	arg  pm.V // VInt for integer conversions and c, VStr for s
}

func (p fmtPiece) modified() bool {
	s := p.spec
	return s.Minus || s.Plus || s.Space || s.Sharp || s.Zero || s.Width >= 0 || s.Prec >= 0
}

// expected output of a piece; ok=false: no verdict.
func (p fmtPiece) expect() ([]byte, bool, string) {
	if ok, why := p.spec.Defined(); !ok {
		return nil, false, why
	}
	switch p.spec.Conv {
	case 'c':
		return p.spec.FormatChar(p.arg.I), true, ""
	case 's':
		if p.modified() && strings.IndexByte(p.arg.S, 0) >= 0 {
			return nil, false, "embedded zero under a modifier"
		}
		return p.spec.FormatStr(p.arg.S), true, ""
	}
	return p.spec.FormatInt(p.arg.I), true, ""
}

func specClass(s pm.Spec) string {
	var b strings.Builder
	b.WriteByte('%')
	if s.Minus {
		b.WriteByte('-')
	}
	if s.Plus {
		b.WriteByte('+')
	}
	if s.Space {
		b.WriteByte(' ')
	}
	if s.Sharp {
		b.WriteByte('#')
	}
	if s.Zero {
		b.WriteByte('0')
	}
	if s.Width >= 0 {
		b.WriteByte('W')
	}
	if s.Prec >= 0 {
		b.WriteString(".P")
	}
	b.WriteByte(s.Conv)
	return b.String()
}

func argClass(p fmtPiece) string {
	if p.spec.Conv == 's' {
		for i := 0; i < len(p.arg.S); i++ {
			if p.arg.S[i] >= 0x80 {
				return "non-ascii"
			}
		}
		return vclass(p.arg)
	}
	return vclass(p.arg)
}

func checkFormat(e *env, pieces []fmtPiece, tail string, id string) {
	c := e.c
	var f strings.Builder
	var want []byte
	judged := true
	why := ""
	args := []rt.Value{rt.NilValue}
	var argTexts []string
	for _, p := range pieces {
		f.WriteString(p.lit)
		f.WriteString(p.spec.String())
		want = append(want, strings.ReplaceAll(p.lit, "%%", "%")...)
		w, ok, y := p.expect()
		if !ok {
			judged = false
			why = y
		}
		want = append(want, w...)
		args = append(args, toRT(p.arg))
		argTexts = append(argTexts, luaArg(p.arg))
	}
	f.WriteString(tail)
	want = append(want, strings.ReplaceAll(tail, "%%", "%")...)
	fs := f.String()
	args[0] = sv(fs)
	in := fmt.Sprintf("string.format(%s, %s)", luaStr(fs), strings.Join(argTexts, ", "))
	c.Begin(id, in)
	c.Eval(1)
	rets, msg, k := e.call(e.format, args...)
	minimal := ""
	sig := func() string {
		// reduce: the first piece that fails on its own, with as few flags as possible
		fails := func(p fmtPiece) bool {
			w, ok, _ := p.expect()
			if !ok {
				return false
			}
			r2, _, k2 := e.call(e.format, sv(p.spec.String()), toRT(p.arg))
			return k2 != kOK || len(r2) != 1 || r2[0].Type() != rt.StringType || r2[0].AsString() != string(w)
		}
		for _, p := range pieces {
			if !fails(p) {
				continue
			}
			for changed := true; changed; {
				changed = false
				try := func(q fmtPiece) {
					if !changed && q.spec != p.spec && fails(q) {
						p = q
						changed = true
					}
				}
				q := p
				q.spec.Minus = false
				try(q)
				q = p
				q.spec.Plus = false
				try(q)
				q = p
				q.spec.Space = false
				try(q)
				q = p
				q.spec.Sharp = false
				try(q)
				q = p
				q.spec.Zero = false
				try(q)
				q = p
				q.spec.Width = -1
				try(q)
				q = p
				q.spec.Prec = -1
				try(q)
			}
			if p.arg.K == pm.VInt {
				for _, v := range []int64{0, 1, -1} {
					q := p
					q.arg = pm.IntV(v)
					if fails(q) {
						p = q
						break
					}
				}
			} else {
				for _, v := range []string{"a", "abc", "\xc3\xa9"} {
					q := p
					q.arg = pm.StrV(v)
					if fails(q) {
						p = q
						break
					}
				}
			}
			w, _, _ := p.expect()
			r2, m2, _ := e.call(e.format, sv(p.spec.String()), toRT(p.arg))
			minimal = fmt.Sprintf("\nminimal: string.format(%q, %s) = %s %s, C printf gives %q", p.spec.String(), luaArg(p.arg), showList(r2), m2, string(w))
			return specClass(p.spec) + " arg=" + argClass(p)
		}
		var cl []string
		for _, p := range pieces {
			cl = append(cl, specClass(p.spec))
		}
		return strings.Join(cl, "")
	}
	switch {
	case k == kPanic:
		e.violation("panic", "format "+sig(), in+" panics: "+msg, in)
	case !judged:
		c.Feature("format-not-judged: "+why, 1)
	case k == kErr:
		sg := sig()
		e.violation("format-raises", "format "+sg, fmt.Sprintf("%s raises %q, C printf gives %q%s", in, msg, string(want), minimal), in)
	case len(rets) != 1 || rets[0].Type() != rt.StringType || rets[0].AsString() != string(want):
		sg := sig()
		e.violation("format-output", "format "+sg, fmt.Sprintf("%s = %s, C printf gives %q%s", in, showList(rets), string(want), minimal), in)
	}
	nt := false
	for _, p := range pieces {
		nt = nt || p.modified()
		if judged {
			c.Feature("conv-"+string(p.spec.Conv), 1)
		}
	}
	if nt && judged {
		c.NonTrivial(vp.Hash("fmt", fs, strings.Join(argTexts, ",")))
	}
	if e.wantSample(2) && judged && len(pieces) >= 2 && nt && k == kOK {
		e.sample(map[string]interface{}{"call": in, "result": string(want)})
	}
	e.hookReports(in)
}

var fmtInts = []int64{0, 1, -1, 7, 8, 9, 10, 255, -255, 256, 1234567, -1234567, math.MaxInt64, math.MinInt64, 1 << 32, -(1 << 31), 65, 0x7fffffff}
var fmtChars = []int64{0, 1, 10, 37, 65, 97, 127, 128, 255, 256 + 65, -1}
var fmtStrs = []string{"", "a", "hello", "hello world, long one", "h\xc3\xa9llo", "\xe6\x97\xa5\xe6\x9c\xac\xe8\xaa\x9e", "\xff\xfe\x80", "a\x00b", "%d", "\xc2\x80x", "tab\tnl\n"}
var fmtWidths = []int{-1, 1, 2, 5, 12, 25}
var fmtPrecs = []int{-1, 0, 1, 2, 3, 7, 25}

func randSpec(r *rand.Rand, conv byte, wild bool) pm.Spec {
	s := pm.Spec{Width: -1, Prec: -1, Conv: conv}
	flag := func(p int) bool { return r.Intn(p) == 0 }
	s.Minus = flag(4)
	switch conv {
	case 'd', 'i':
		s.Plus, s.Space, s.Zero = flag(4), flag(5), flag(3)
	case 'u':
		s.Zero = flag(3)
	case 'o', 'x', 'X':
		s.Sharp, s.Zero = flag(3), flag(3)
	}
	if wild { // flag combinations outside what ISO C defines: no verdict, must not panic
		s.Plus, s.Space, s.Sharp, s.Zero = flag(3), flag(3), flag(3), flag(3)
	}
	if flag(2) {
		s.Width = []int{1, 2, 3, 5, 8, 10, 20, 40, 99}[r.Intn(9)]
		if flag(4) {
			s.Width = 1 + r.Intn(99)
		}
	}
	if conv != 'c' && flag(3) {
		s.Prec = []int{0, 1, 2, 3, 5, 10, 20, 40, 99}[r.Intn(9)]
	}
	return s
}

func randFmtInt(r *rand.Rand) int64 {
	switch r.Intn(4) {
	case 0:
		return fmtInts[r.Intn(len(fmtInts))]
	case 1:
		return int64(r.Intn(2001) - 1000)
	}
	return int64(r.Uint64()) >> uint(r.Intn(64))
}

func randFmtStr(r *rand.Rand) string {
	if r.Intn(3) == 0 {
		return fmtStrs[r.Intn(len(fmtStrs))]
	}
	n := r.Intn(14)
	var b []byte
	for len(b) < n {
		switch r.Intn(5) {
		case 0:
			b = append(b, utf8Oddities[r.Intn(len(utf8Oddities))]...)
		case 1:
			b = append(b, byte(128+r.Intn(128)))
		default:
			b = append(b, byte(32+r.Intn(95)))
		}
	}
	return string(b)
}

func randLit(r *rand.Rand) string {
	switch r.Intn(4) {
	case 0:
		return ""
	case 1:
		return "%%"
	}
	const set = "abc xyz=:,[]01\n\t\x00\xc3\xa9"
	n := r.Intn(5)
	b := make([]byte, n)
	for i := range b {
		b[i] = set[r.Intn(len(set))]
	}
	return string(b)
}

func runFormat(c *vp.Child) {
	e := newEnv(c)
	defer e.s.Close()
	idx := 0
	mine := func() bool { idx++; return c.Mine(idx) }
	// (1) every flag subset x width x precision x conversion x boundary argument
	for _, conv := range []byte("diuoxX") {
		for fl := 0; fl < 32; fl++ {
			for _, w := range fmtWidths {
				for _, pr := range fmtPrecs {
					s := pm.Spec{Minus: fl&1 != 0, Plus: fl&2 != 0, Space: fl&4 != 0, Sharp: fl&8 != 0, Zero: fl&16 != 0, Width: w, Prec: pr, Conv: conv}
					if ok, _ := s.Defined(); !ok {
						// undefined in ISO C: one probe for crash-freedom only
						if mine() {
							checkFormat(e, []fmtPiece{{spec: s, arg: pm.IntV(-255)}}, "", "grid "+s.String())
						}
						continue
					}
					for _, v := range fmtInts {
						if mine() {
							checkFormat(e, []fmtPiece{{spec: s, arg: pm.IntV(v)}}, "", "grid "+s.String())
							c.Feature("grid-int", 1)
						}
					}
				}
			}
		}
	}
	for _, minus := range []bool{false, true} {
		for _, w := range fmtWidths {
			for _, v := range fmtChars {
				if mine() {
					checkFormat(e, []fmtPiece{{spec: pm.Spec{Minus: minus, Width: w, Prec: -1, Conv: 'c'}, arg: pm.IntV(v)}}, "", "grid c")
					c.Feature("grid-char", 1)
				}
			}
			for _, pr := range fmtPrecs {
				for _, s := range fmtStrs {
					if mine() {
						checkFormat(e, []fmtPiece{{spec: pm.Spec{Minus: minus, Width: w, Prec: pr, Conv: 's'}, arg: pm.StrV(s)}}, "", "grid s")
						c.Feature("grid-str", 1)
					}
				}
			}
		}
	}
	// (2) argument coercions stated by the manual: a float with an integral
	// value is accepted by the integer conversions, any other float is not.
	for _, conv := range []byte("diuoxXc") {
		for _, f := range []float64{3, -3, 65, 0, 1 << 40} {
			if !mine() {
				continue
			}
			s := pm.Spec{Width: -1, Prec: -1, Conv: conv}
			var want []byte
			if conv == 'c' {
				if f < 0 || f > 255 {
					continue
				}
				want = s.FormatChar(int64(f))
			} else {
				want = s.FormatInt(int64(f))
			}
			in := fmt.Sprintf("string.format(%q, %s)", s.String(), luaArg(pm.FloatV(f)))
			c.Begin("coerce", in)
			c.Eval(1)
			rets, msg, k := e.call(e.format, sv(s.String()), rt.FloatValue(f))
			switch {
			case k == kPanic:
				e.violation("panic", "format "+specClass(s)+" arg=float", in+" panics: "+msg, in)
			case k != kOK || len(rets) != 1 || rets[0].Type() != rt.StringType || rets[0].AsString() != string(want):
				e.violation("format-output", "format "+specClass(s)+" arg=integral-float", fmt.Sprintf("%s = %s %s, expected %q", in, showList(rets), msg, string(want)), in)
			}
		}
		for _, f := range []float64{3.5, -0.25, 1e100, math.Inf(1), math.NaN()} {
			if !mine() {
				continue
			}
			s := pm.Spec{Width: -1, Prec: -1, Conv: conv}
			in := fmt.Sprintf("string.format(%q, %s)", s.String(), luaArg(pm.FloatV(f)))
			c.Begin("coerce", in)
			c.Eval(1)
			rets, msg, k := e.call(e.format, sv(s.String()), rt.FloatValue(f))
			switch {
			case k == kPanic:
				e.violation("panic", "format "+specClass(s)+" arg=float", in+" panics: "+msg, in)
			case k == kOK:
				e.violation("format-accepts", "format "+specClass(s)+" arg=non-integral-float", fmt.Sprintf("%s = %s: the number has no integer representation", in, showList(rets)), in)
			}
		}
	}
	// (3) malformed conversion specifications: ISO C leaves them undefined, a
	// Go panic escaping to the host is not an acceptable outcome.
	for _, f := range []string{"%", "abc%", "%5", "%-", "%.", "%.3", "%#", "%0", "% ", "%+", "%5.", "%-5.3", "%d%", "%p", "%5p", "%s", "%d", "%c", "%q", "%x%x", "%%%", "%55555", "%.55555", "%1", "%ll", "%h", "%*d", "%[1]d", "%v", "%T", "%!", "%\x00", "%\xff", "%5\x00d"} {
		for nargs := 0; nargs <= 2; nargs++ {
			if !mine() {
				continue
			}
			args := []rt.Value{sv(f)}
			for i := 0; i < nargs; i++ {
				args = append(args, rt.IntValue(int64(7+i)))
			}
			in := fmt.Sprintf("string.format(%s) with %d extra integer arguments", luaStr(f), nargs)
			c.Begin("malformed", in)
			c.Eval(1)
			if _, msg, k := e.call(e.format, args...); k == kPanic {
				e.violation("panic", "format malformed "+panicSig(msg), in+" panics: "+msg, in)
			}
			c.Feature("malformed-spec-probes", 1)
		}
	}
	// (4) PRNG multi-directive formats
	r := c.Rand("format")
	n := c.Pick(100000, 2400000) / c.NB
	for i := 0; i < n; i++ {
		np := 1 + r.Intn(4)
		wild := r.Intn(10) == 0
		var pieces []fmtPiece
		for j := 0; j < np; j++ {
			conv := "diuoxXcs"[r.Intn(8)]
			p := fmtPiece{lit: randLit(r), spec: randSpec(r, conv, wild)}
			switch conv {
			case 'c':
				p.arg = pm.IntV(int64(r.Intn(256)))
			case 's':
				p.arg = pm.StrV(randFmtStr(r))
			default:
				p.arg = pm.IntV(randFmtInt(r))
			}
			pieces = append(pieces, p)
		}
		checkFormat(e, pieces, randLit(r), "rand "+strconv.Itoa(i))
		c.Feature("random-format", 1)
	}
}
