// Package c17 checks property C17 (value serialisation round trips) by
// running golua's string.pack / unpack / packsize / format, tostring and
// tonumber on enumerated and generated arguments and comparing with
// independent models written from the manual: packmodel (binary layout,
// printf conversions, a reader for Lua literals) and numodel.
package c17

import (
	"fmt"
	"math"
	"runtime/debug"
	"strconv"
	"strings"

	rt "github.com/arnodel/golua/runtime"

	"verif/internal/gl"
	pm "verif/internal/packmodel"
	"verif/internal/vp"
)

type Prop struct{}

func (Prop) ID() string { return "C17" }

func (Prop) Plan(t vp.Tier) []vp.Stage {
	return []vp.Stage{
		{Name: "pack", NBatches: 16, TimeoutS: 900},
		{Name: "unpack-data", NBatches: 16, TimeoutS: 900},
		{Name: "quote", NBatches: 16, TimeoutS: 900},
		{Name: "tostring", NBatches: 16, TimeoutS: 900},
		{Name: "format", NBatches: 16, TimeoutS: 900},
	}
}

func (Prop) Describe(t vp.Tier) vp.Description {
	return vp.Description{
		Rule: "Each case is an argument tuple given to the real Lua functions of a golua runtime and judged by a model that uses no golua code. " +
			"pack: (format, values) -> string.packsize, string.pack, string.unpack of the packed string (plus unpack at an offset, with a negative/past-the-end init, and of every proper prefix class) " +
			"against packmodel (§6.4.2 layout with native sizes/alignment/endianness measured from packsize and passed as parameters): formats are every string up to a length bound over a 30-character option alphabet " +
			"(well-formed and malformed), every single integer/float/string directive x 3 endianness prefixes x boundary values exhaustively, and PRNG multi-directive formats (endianness switches, !n, i/I 1..16, native options, f d n, s[n], z, cN, x, Xop, spaces) x boundary-biased values including out-of-range ones. " +
			"unpack-data: well-formed formats x corrupted/truncated/random byte strings, decoded by the model (sign/zero extension of 9..16 byte integers, announced lengths, truncation). " +
			"quote: load('return '..string.format('%q', v))() must have the bit pattern and math.type of v, and the text must be a literal by the model's §3.1 reader with the same value: every byte string up to a length bound over a 12-byte alphabet (all escape classes) exhaustively, PRNG longer strings (random bytes, UTF-8 with non-printable runes), the C02 number lattice and PRNG numbers. " +
			"tostring: tonumber(tostring(n)) for lattice and PRNG integers (same value and math.type) and finite floats (numeric equality, judged when 14 significant digits denote the float). " +
			"format: %d %i %u %c %x %X %o %s with every flag subset x widths x precisions x boundary arguments exhaustively and PRNG multi-directive formats, against a hand-written ISO C printf model; flag combinations ISO C leaves undefined get no verdict. " +
			"A case is non-trivial when it has at least one value-carrying directive / a non-empty string or a number that is not a small integer / at least one flag, width or precision; distinct by hash of (stage, arguments).",
		Assumptions: []string{
			"packmodel / the printf model / the literal reader are correct readings of the Lua 5.4 manual §6.4, §6.4.2, §3.1 and of ISO C fprintf; they were written without golua's code",
			"native sizes (h i l T f d, s without a number), native alignment of a bare '!' and native endianness are implementation-defined: measured once per batch with string.packsize / string.pack and taken as parameters; j J n are 8 bytes because Lua integers/floats are 64-bit here",
			"no verdict (skip) where the manual is silent: 'X' followed by c, z, a configuration option, space or X; finite floats beyond the 4-byte float range given to 'f'; negative init of unpack (error or end-relative accepted); printf flag combinations undefined in ISO C; %s of strings with embedded zeros under modifiers; float -> string format (only tonumber(tostring(x)) == x is judged, and only for floats of <= 14 significant digits)",
			"the value obtained by load is observed through golua's own compiler; the independent literal reader guards against an output that only golua's lexer accepts",
			"held on the argument tuples enumerated/sampled, not on all formats x values",
		},
		Floor: map[vp.Tier]int64{vp.Quick: 150000, vp.Thorough: 4000000}[t],
	}
}

// ---------------------------------------------------------------------------
// calling golua

type outcome int

const (
	kOK outcome = iota
	kErr
	kPanic
)

type env struct {
	c                                            *vp.Child
	s                                            *gl.Sess
	pack, unpack, packsize, format, tostr, tonum rt.Value
	quoteChunk, tostringChunk                    rt.Value
	calls                                        int
	seen                                         map[string]bool
	samples                                      int
}

const quoteSrc = `local v = ...
local q = string.format("%q", v)
local f, err = load("return " .. q)
if not f then return q, false, err end
local ok, r = pcall(f)
return q, ok, r`

const tostringSrc = `local v = ...
local s = tostring(v)
local r = tonumber(s)
return s, r, r == v, math.type(r)`

func newEnv(c *vp.Child) *env {
	e := &env{c: c}
	e.reset()
	return e
}

func (e *env) reset() {
	if e.s != nil {
		func() {
			defer func() { recover() }()
			e.s.Close()
		}()
	}
	e.s = gl.NewSess(gl.Options{})
	g := e.s.R.GlobalEnv()
	str, _ := g.Get(rt.StringValue("string")).TryTable()
	if str == nil {
		e.c.Violation("setup", "no string table", "the global 'string' is not a table", "")
		e.c.Flush(true)
		panic("no string library")
	}
	e.pack = str.Get(rt.StringValue("pack"))
	e.unpack = str.Get(rt.StringValue("unpack"))
	e.packsize = str.Get(rt.StringValue("packsize"))
	e.format = str.Get(rt.StringValue("format"))
	e.tostr = g.Get(rt.StringValue("tostring"))
	e.tonum = g.Get(rt.StringValue("tonumber"))
	comp := func(name, src string) rt.Value {
		clos, out := e.s.Compile(name, src)
		if out != nil {
			e.c.Violation("setup", "chunk "+name, out.ErrMsg+out.PanicMsg, src)
			e.c.Flush(true)
			panic("helper chunk does not compile: " + out.ErrMsg + out.PanicMsg)
		}
		return rt.FunctionValue(clos)
	}
	e.quoteChunk = comp("quote", quoteSrc)
	e.tostringChunk = comp("tostring", tostringSrc)
	e.calls = 0
}

func (e *env) call(f rt.Value, args ...rt.Value) (rets []rt.Value, msg string, k outcome) {
	e.calls++
	if e.calls > 200000 {
		e.reset()
	}
	defer func() {
		if r := recover(); r != nil {
			k = kPanic
			msg = fmt.Sprint(r) + "\n" + string(debug.Stack())
			rets = nil
			e.reset()
		}
	}()
	term := rt.NewTerminationWith(nil, 0, true)
	if err := rt.Call(e.s.R.MainThread(), f, args, term); err != nil {
		return nil, err.Error(), kErr
	}
	return append([]rt.Value(nil), term.Etc()...), "", kOK
}

func panicSig(msg string) string {
	l := msg
	if i := strings.IndexByte(l, '\n'); i >= 0 {
		l = l[:i]
	}
	// drop volatile numbers
	var b strings.Builder
	for i := 0; i < len(l); i++ {
		if l[i] >= '0' && l[i] <= '9' {
			if b.Len() == 0 || b.String()[b.Len()-1] != '#' {
				b.WriteByte('#')
			}
			continue
		}
		b.WriteByte(l[i])
	}
	s := b.String()
	if len(s) > 80 {
		s = s[:80]
	}
	return s
}

// violation records a refuting observation once per (kind, signature) and
// batch; repeats are only counted (the parent de-duplicates by the same key,
// and the child keeps at most 50 records).
func (e *env) violation(kind, sig, detail, in string) {
	if e.seen == nil {
		e.seen = map[string]bool{}
	}
	k := kind + "|" + sig
	if e.seen[k] {
		e.c.Feature("repeated-violation "+kind, 1)
		return
	}
	e.seen[k] = true
	e.c.Violation(kind, sig, detail, in)
}

// wantSample limits the written-out samples to batch 0 and n per stage so that
// the evidence file shows cases of every stage.
func (e *env) wantSample(n int) bool {
	return e.c.Batch == 0 && e.samples < n && e.c.WantSample()
}

func (e *env) sample(x interface{}) {
	e.samples++
	e.c.Sample(x)
}

func (e *env) hookReports(in string) {
	for _, r := range gl.TakeReports() {
		e.c.Violation("hook", "hook "+r, r, in)
	}
}

// ---------------------------------------------------------------------------
// values

func sv(s string) rt.Value { return rt.StringValue(s) }

func toRT(v pm.V) rt.Value {
	switch v.K {
	case pm.VInt:
		return rt.IntValue(v.I)
	case pm.VFloat:
		return rt.FloatValue(v.F)
	}
	return rt.StringValue(v.S)
}

func showRT(v rt.Value) string {
	if v.IsNil() {
		return "nil"
	}
	switch v.Type() {
	case rt.IntType:
		return strconv.FormatInt(v.AsInt(), 10)
	case rt.FloatType:
		f := v.AsFloat()
		return "float " + strconv.FormatFloat(f, 'g', -1, 64) + fmt.Sprintf(" [%016x]", math.Float64bits(f))
	case rt.StringType:
		return strconv.Quote(v.AsString())
	case rt.BoolType:
		return strconv.FormatBool(v.AsBool())
	}
	return v.TypeName()
}

func showList(vs []rt.Value) string {
	p := make([]string, len(vs))
	for i, v := range vs {
		p[i] = showRT(v)
	}
	return strings.Join(p, ", ")
}

func showV(v pm.V) string {
	switch v.K {
	case pm.VInt:
		return strconv.FormatInt(v.I, 10)
	case pm.VFloat:
		if v.Approx {
			return fmt.Sprintf("float %v or %v", v.Lo, v.Hi)
		}
		return "float " + strconv.FormatFloat(v.F, 'g', -1, 64) + fmt.Sprintf(" [%016x]", math.Float64bits(v.F))
	}
	if len(v.S) > 60 {
		return fmt.Sprintf("string(len %d) %q...", len(v.S), v.S[:40])
	}
	return strconv.Quote(v.S)
}

func showVs(vs []pm.V) string {
	p := make([]string, len(vs))
	for i, v := range vs {
		p[i] = showV(v)
	}
	return strings.Join(p, ", ")
}

// luaArg renders a value as Lua source for the witness text.
func luaArg(v pm.V) string {
	switch v.K {
	case pm.VInt:
		if v.I == math.MinInt64 {
			return "math.mininteger"
		}
		return strconv.FormatInt(v.I, 10)
	case pm.VFloat:
		switch {
		case v.F != v.F:
			return "0/0"
		case math.IsInf(v.F, 1):
			return "math.huge"
		case math.IsInf(v.F, -1):
			return "-math.huge"
		case v.F == 0 && math.Signbit(v.F):
			return "-0.0"
		}
		return strconv.FormatFloat(v.F, 'x', -1, 64)
	}
	return luaStr(v.S)
}

func luaStr(s string) string {
	if len(s) > 80 {
		return fmt.Sprintf("(%s):rep(%d) --[[or similar, len %d]]", luaStr(s[:1]), len(s), len(s))
	}
	var b strings.Builder
	b.WriteByte('"')
	for i := 0; i < len(s); i++ {
		c := s[i]
		switch {
		case c == '"' || c == '\\':
			b.WriteByte('\\')
			b.WriteByte(c)
		case c >= 32 && c < 127:
			b.WriteByte(c)
		default:
			fmt.Fprintf(&b, "\\x%02x", c)
		}
	}
	b.WriteByte('"')
	return b.String()
}

func luaArgs(vs []pm.V) string {
	p := make([]string, len(vs))
	for i, v := range vs {
		p[i] = luaArg(v)
	}
	return strings.Join(p, ", ")
}

// vclass is the coarse class of a value used in violation signatures.
func vclass(v pm.V) string {
	switch v.K {
	case pm.VInt:
		switch {
		case v.I == 0:
			return "0"
		case v.I == math.MinInt64:
			return "minint"
		case v.I == math.MaxInt64:
			return "maxint"
		case v.I < 0:
			return "neg"
		}
		return "pos"
	case pm.VFloat:
		switch {
		case v.F != v.F:
			return "nan"
		case math.IsInf(v.F, 0):
			return "inf"
		case v.F == 0:
			return "fzero"
		case float64(float32(v.F)) != v.F:
			return "f64"
		}
		return "f32"
	}
	switch {
	case len(v.S) == 0:
		return "empty"
	case strings.IndexByte(v.S, 0) >= 0:
		return "str0"
	}
	return "str"
}

func classes(vs []pm.V) string {
	p := make([]string, len(vs))
	for i, v := range vs {
		p[i] = vclass(v)
	}
	return strings.Join(p, ",")
}

func sameValue(got rt.Value, want pm.V) bool {
	switch want.K {
	case pm.VInt:
		return got.Type() == rt.IntType && got.AsInt() == want.I
	case pm.VFloat:
		if got.Type() != rt.FloatType {
			return false
		}
		g := got.AsFloat()
		if want.Approx {
			return g == want.Lo || g == want.Hi
		}
		if want.F != want.F {
			return g != g
		}
		return math.Float64bits(g) == math.Float64bits(want.F)
	}
	return got.Type() == rt.StringType && got.AsString() == want.S
}

func isIntVal(v rt.Value, n int64) bool { return v.Type() == rt.IntType && v.AsInt() == n }

type finding struct{ kind, sig, detail string }

// ---------------------------------------------------------------------------

func (Prop) RunBatch(c *vp.Child) {
	switch c.Stage {
	case "pack":
		runPack(c)
	case "unpack-data":
		runUnpackData(c)
	case "quote":
		runQuote(c)
	case "tostring":
		runTostring(c)
	case "format":
		runFormat(c)
	}
}
