package c17

import (
	"fmt"
	"math"
	"math/rand"
	"strconv"

	rt "github.com/arnodel/golua/runtime"

	nm "verif/internal/numodel"
	pm "verif/internal/packmodel"
	"verif/internal/vp"
)

// the 12-byte alphabet: NUL, newline, CR, double quote, backslash, DEL, a C1
// lead byte and continuation (0xc2 0x80 is a valid UTF-8 control rune), 0xff,
// ESC, a digit (digit right after a decimal escape), a letter.
var quoteAlphabet = []byte{0x00, '\n', '\r', '"', '\\', 0x7f, 0x80, 0xc2, 0xff, 0x1b, '1', 'a'}

func intLattice() []int64 {
	return []int64{0, 1, -1, 2, -2, 3, -3, 7, -7, 10, 100, 255, 256, -255, 1000, 1<<31 - 1, 1 << 31, -(1 << 31), 1<<32 - 1, 1<<32 + 1,
		1<<53 - 1, -(1<<53 - 1), 1 << 53, -(1 << 53), 1<<53 + 1, -(1<<53 + 1), 1 << 62, -(1 << 62),
		math.MaxInt64 - 1, math.MaxInt64, math.MinInt64, math.MinInt64 + 1, math.MaxInt64 - 511, math.MaxInt64 - 512,
		999999999999999, 1e15, 1e18, 123456789012345678}
}

func floatLatticeNum() []float64 {
	return []float64{0, math.Copysign(0, -1), 0.5, -0.5, 1, -1, 1.5, -1.5, 2, 3, -3, 10, 64, 100, 1e15, 1e16, 1e17, 1e20, 1e21, 1e22, 1e100, -1e100,
		1 << 53, -(1 << 53), 1<<53 + 2, 9223372036854774784, -9223372036854774784, 9223372036854775808, -9223372036854775808,
		9223372036854777856, -9223372036854777856, 18446744073709551616, -18446744073709551616,
		math.SmallestNonzeroFloat64, -math.SmallestNonzeroFloat64, math.MaxFloat64, -math.MaxFloat64, math.Inf(1), math.Inf(-1), math.NaN(),
		0.1, 0.2, 0.3, 1.0 / 3, 2.0 / 3, 3.14, 3.14159265358979, math.Pi, math.E, 1e-5, 1e-4, 1e-7, 123456.789, 5e-324, 2.2250738585072014e-308,
		4.35, 0.30000000000000004, 1e14, 99999999999999, 99999999999999.9, 12345678901234, 1234567890123456}
}

func randInt64(r *rand.Rand) int64 {
	switch r.Intn(5) {
	case 0:
		return int64(r.Intn(2001) - 1000)
	case 1:
		e := uint(r.Intn(64))
		return int64(uint64(1)<<e) + int64(r.Intn(5)-2)
	case 2:
		l := intLattice()
		return l[r.Intn(len(l))] + int64(r.Intn(9)-4)
	}
	return int64(r.Uint64()) >> uint(r.Intn(64))
}

func randFloat64(r *rand.Rand) float64 {
	switch r.Intn(8) {
	case 0: // integer-valued
		f := math.Trunc(math.Ldexp(float64(r.Int63n(1<<53)), r.Intn(75)-53))
		if r.Intn(2) == 0 {
			f = -f
		}
		return f
	case 1: // short decimals
		d := float64(r.Int63n(1000000)) / math.Pow(10, float64(r.Intn(8)))
		if r.Intn(2) == 0 {
			d = -d
		}
		return d
	case 2:
		l := floatLatticeNum()
		v := l[r.Intn(len(l))]
		if v != v || math.IsInf(v, 0) {
			return v
		}
		f := math.Float64frombits(math.Float64bits(v) + uint64(r.Intn(9)-4))
		if f != f {
			return v
		}
		return f
	case 3:
		return (r.Float64() - 0.5) * math.Ldexp(1, r.Intn(80)-10)
	case 4: // up to 14 significant digits with an exponent
		m := r.Int63n(100000000000000)
		f, _ := strconv.ParseFloat(strconv.FormatInt(m, 10)+"e"+strconv.Itoa(r.Intn(60)-30), 64)
		return f
	}
	f := math.Float64frombits(r.Uint64())
	if f != f {
		return math.NaN()
	}
	return f
}

func encNum(v nm.V) string { return v.Enc() }

// quoteVerdict runs one value through %q, load and the literal reader and
// returns the findings (kind, explanation); q is the text produced.
func quoteVerdict(e *env, v rt.Value) (fs [][2]string, q string, back rt.Value, panicked bool) {
	want := e.s.N.Enc(v)
	in := "string.format('%q', " + showRT(v) + ")"
	rets, msg, k := e.call(e.quoteChunk, v)
	switch {
	case k == kPanic:
		return [][2]string{{"panic", in + " / load panics: " + msg}}, "", rt.NilValue, true
	case k == kErr:
		return [][2]string{{"q-raises", in + " raises " + strconv.Quote(msg)}}, "", rt.NilValue, false
	case len(rets) < 2 || rets[0].Type() != rt.StringType:
		return [][2]string{{"q-shape", in + " returns " + showList(rets)}}, "", rt.NilValue, false
	}
	q = rets[0].AsString()
	loaded := rets[1].Type() == rt.BoolType && rets[1].AsBool() && len(rets) >= 3
	switch {
	case !loaded:
		why := ""
		if len(rets) >= 3 {
			why = showRT(rets[2])
		}
		fs = append(fs, [2]string{"q-load", fmt.Sprintf("%s = %s, and load('return '..that) fails: %s", in, strconv.Quote(q), why)})
	case e.s.N.Enc(rets[2]) != want:
		fs = append(fs, [2]string{"q-value", fmt.Sprintf("%s = %s, which loads as %s, not as %s", in, strconv.Quote(q), showRT(rets[2]), showRT(v))})
	}
	if loaded {
		back = rets[2]
	}
	// the independent reading of the literal
	d := pm.DecodeQ(q)
	switch d.Kind {
	case pm.QUnknown:
		e.c.Feature("q-form-not-read-by-model", 1)
	case pm.QInvalid:
		fs = append(fs, [2]string{"q-literal", fmt.Sprintf("%s = %s is not a Lua literal (%s)", in, strconv.Quote(q), d.Why)})
	case pm.QString:
		if v.Type() != rt.StringType || v.AsString() != d.S {
			fs = append(fs, [2]string{"q-literal", fmt.Sprintf("%s = %s denotes %q by the manual's escape rules", in, strconv.Quote(q), d.S)})
		}
	case pm.QNumber:
		if encNum(d.N) != want {
			fs = append(fs, [2]string{"q-literal", fmt.Sprintf("%s = %s denotes %s by the manual's numeral rules", in, strconv.Quote(q), d.N.Lua())})
		}
	case pm.QNil:
		if !v.IsNil() {
			fs = append(fs, [2]string{"q-literal", in + " = nil"})
		}
	case pm.QBool:
		if v.Type() != rt.BoolType || v.AsBool() != d.B {
			fs = append(fs, [2]string{"q-literal", in + " = " + q})
		}
	}
	return
}

// shrinkString removes bytes while the %q round trip still fails.
func shrinkString(e *env, s string) string {
	bad := func(t string) bool {
		fs, _, _, _ := quoteVerdict(e, rt.StringValue(t))
		return len(fs) > 0
	}
	for n := len(s) / 2; n >= 1; {
		shrunk := false
		for i := 0; i+n <= len(s); i++ {
			t := s[:i] + s[i+n:]
			if bad(t) {
				s = t
				shrunk = true
				i--
			}
		}
		if !shrunk || n > len(s) {
			n /= 2
		}
		if n > len(s) && len(s) > 0 {
			n = len(s)
		}
	}
	return s
}

// checkQuote judges one value.
func checkQuote(e *env, v rt.Value, sigClass string, nontrivial bool) {
	c := e.c
	want := e.s.N.Enc(v)
	in := "string.format('%q', " + showRT(v) + ")"
	c.Begin("q "+want, in)
	c.Eval(2)
	fs, q, back, _ := quoteVerdict(e, v)
	if len(fs) > 0 {
		extra := ""
		if v.Type() == rt.StringType && len(v.AsString()) > 1 {
			m := shrinkString(e, v.AsString())
			sigClass = strClass(m)
			if m != v.AsString() {
				mfs, _, _, _ := quoteVerdict(e, rt.StringValue(m))
				if len(mfs) > 0 {
					extra = "\nminimal: " + mfs[0][1]
				}
			}
		}
		for _, f := range fs {
			what := "load of %q "
			if f[0] == "q-literal" {
				what = "literal of %q "
			}
			e.violation(f[0], what+sigClass, f[1]+extra, in)
		}
	}
	if nontrivial {
		c.NonTrivial(vp.Hash("q", want))
	}
	if e.wantSample(2) && nontrivial && len(q) > 6 && len(fs) == 0 {
		e.sample(map[string]interface{}{"value": showRT(v), "%q": q, "loads_back_as": showRT(back)})
	}
	e.hookReports(in)
}

// strClass: which escape classes a string touches (for signatures).
func strClass(s string) string {
	var ctl, hi, quote, digitAfter, nl, utf bool
	for i := 0; i < len(s); i++ {
		ch := s[i]
		switch {
		case ch == '\n' || ch == '\r':
			nl = true
		case ch < 32 || ch == 127:
			ctl = true
			if i+1 < len(s) && s[i+1] >= '0' && s[i+1] <= '9' {
				digitAfter = true
			}
		case ch == '"' || ch == '\\':
			quote = true
		case ch >= 0x80:
			hi = true
			if ch >= 0xc2 && ch < 0xf5 && i+1 < len(s) && s[i+1]&0xc0 == 0x80 {
				utf = true
			}
		}
	}
	cl := "string"
	for _, x := range []struct {
		b bool
		n string
	}{{ctl, "ctl"}, {digitAfter, "digit-after"}, {nl, "newline"}, {quote, "quote"}, {hi, "high"}, {utf, "utf8"}} {
		if x.b {
			cl += "+" + x.n
		}
	}
	return cl
}

func numClass(v rt.Value) string {
	if v.Type() == rt.IntType {
		return "integer " + vclass(pm.IntV(v.AsInt()))
	}
	f := v.AsFloat()
	switch {
	case f != f:
		return "float nan"
	case math.IsInf(f, 0):
		return "float inf"
	case f == 0 && math.Signbit(f):
		return "float -0.0"
	case f == math.Trunc(f) && math.Abs(f) < 1e15:
		return "float integral"
	case f == math.Trunc(f):
		return "float integral-large"
	}
	return "float fractional"
}

var utf8Oddities = []string{"\u0080", "\u0085", "\u009f", "\u00a0", "\u00ad", "\u200b", "\u2028", "\u2029", "\ufeff", "\ufffd", "\ue000", "\U0010ffff", "\U000e0001", "\u00e9", "\u65e5\u672c", "\u0378"}

func randString(r *rand.Rand) string {
	n := 4 + r.Intn(40)
	b := make([]byte, 0, n+8)
	mode := r.Intn(4)
	for len(b) < n {
		switch {
		case mode == 0:
			b = append(b, quoteAlphabet[r.Intn(len(quoteAlphabet))])
		case mode == 1:
			b = append(b, byte(r.Intn(256)))
		case mode == 2 && r.Intn(3) == 0:
			b = append(b, utf8Oddities[r.Intn(len(utf8Oddities))]...)
		case mode == 2:
			b = append(b, " az09\\\"\n\t\x00\x7f"[r.Intn(11)])
		default:
			switch r.Intn(3) {
			case 0:
				b = append(b, quoteAlphabet[r.Intn(len(quoteAlphabet))])
			case 1:
				b = append(b, byte(r.Intn(256)))
			default:
				b = append(b, byte(32+r.Intn(95)))
			}
		}
	}
	return string(b)
}

func runQuote(c *vp.Child) {
	e := newEnv(c)
	defer e.s.Close()
	// (1) exhaustive strings over the alphabet
	maxLen := c.Pick(3, 4)
	idx := 0
	buf := make([]byte, 0, 8)
	var rec func(d int)
	rec = func(d int) {
		idx++
		if c.Mine(idx) {
			s := string(buf)
			checkQuote(e, rt.StringValue(s), strClass(s), len(s) > 0)
			c.Feature("strings-exhaustive", 1)
		}
		if d == maxLen {
			return
		}
		for _, b := range quoteAlphabet {
			buf = append(buf, b)
			rec(d + 1)
			buf = buf[:len(buf)-1]
		}
	}
	rec(0)
	// every single byte and every byte followed by a digit
	for b := 0; b < 256; b++ {
		for _, suf := range []string{"", "0", "9", "a"} {
			idx++
			if c.Mine(idx) {
				s := string([]byte{byte(b)}) + suf
				checkQuote(e, rt.StringValue(s), strClass(s), true)
				c.Feature("strings-bytes", 1)
			}
		}
	}
	for _, s := range utf8Oddities {
		idx++
		if c.Mine(idx) {
			checkQuote(e, rt.StringValue(s), strClass(s), true)
			checkQuote(e, rt.StringValue("x"+s+"1"), strClass(s), true)
		}
	}
	// (2) numbers: lattice
	for _, i := range intLattice() {
		idx++
		if c.Mine(idx) {
			v := rt.IntValue(i)
			checkQuote(e, v, numClass(v), i < -1000 || i > 1000)
			c.Feature("lattice-int", 1)
		}
	}
	for _, f := range floatLatticeNum() {
		idx++
		if c.Mine(idx) {
			v := rt.FloatValue(f)
			checkQuote(e, v, numClass(v), true)
			c.Feature("lattice-float", 1)
		}
	}
	for _, v := range []rt.Value{rt.NilValue, rt.BoolValue(true), rt.BoolValue(false)} {
		idx++
		if c.Mine(idx) {
			checkQuote(e, v, "constant", false)
		}
	}
	// (3) PRNG
	r := c.Rand("quote")
	n := c.Pick(80000, 2000000) / c.NB
	for i := 0; i < n; i++ {
		switch r.Intn(3) {
		case 0:
			s := randString(r)
			checkQuote(e, rt.StringValue(s), strClass(s), true)
			c.Feature("random-string", 1)
		case 1:
			x := randInt64(r)
			v := rt.IntValue(x)
			checkQuote(e, v, numClass(v), x < -1000 || x > 1000)
			c.Feature("random-int", 1)
		default:
			v := rt.FloatValue(randFloat64(r))
			checkQuote(e, v, numClass(v), true)
			c.Feature("random-float", 1)
		}
	}
}

// ---------------------------------------------------------------------------
// tonumber(tostring(n))

func fits14Digits(f float64) bool {
	g, err := strconv.ParseFloat(strconv.FormatFloat(f, 'e', 13, 64), 64)
	return err == nil && g == f
}

func rtToNum(v rt.Value) (nm.V, bool) {
	switch v.Type() {
	case rt.IntType:
		return nm.I(v.AsInt()), true
	case rt.FloatType:
		return nm.F(v.AsFloat()), true
	}
	return nm.NilV, false
}

func checkTostring(e *env, v rt.Value) {
	c := e.c
	in := "tonumber(tostring(" + showRT(v) + "))"
	c.Begin("ts "+e.s.N.Enc(v), in)
	c.Eval(1)
	rets, msg, k := e.call(e.tostringChunk, v)
	switch {
	case k == kPanic:
		e.violation("panic", "tostring "+numClass(v), in+" panics: "+msg, in)
		return
	case k == kErr:
		e.violation("tostring-raises", "tostring "+numClass(v), in+" raises "+strconv.Quote(msg), in)
		return
	case len(rets) != 4 || rets[0].Type() != rt.StringType:
		e.violation("tostring-shape", "tostring "+numClass(v), in+": tostring gives "+showList(rets), in)
		return
	}
	s := rets[0].AsString()
	back, isNum := rtToNum(rets[1])
	orig, _ := rtToNum(v)
	if v.Type() == rt.IntType {
		if !isNum || back.K != nm.Int || back.I != orig.I {
			e.violation("tostring-roundtrip", "tonumber(tostring) "+numClass(v), fmt.Sprintf("tostring(%s) = %q and tonumber of that is %s", showRT(v), s, showRT(rets[1])), in)
		}
		if x := v.AsInt(); x < -1000 || x > 1000 {
			c.NonTrivial(vp.Hash("ts", e.s.N.Enc(v)))
		}
		c.Feature("tostring-int", 1)
		return
	}
	f := v.AsFloat()
	if f != f || math.IsInf(f, 0) {
		c.Feature("tostring-nonfinite-not-judged", 1)
		return
	}
	eq := isNum && nm.NumEq(back, orig)
	luaEq := rets[2].Type() == rt.BoolType && rets[2].AsBool()
	if eq != luaEq {
		e.violation("tostring-eq", "r == v disagrees "+numClass(v), fmt.Sprintf("tostring(%s) = %q, tonumber gives %s; Lua's r == v says %v, exact comparison says %v", showRT(v), s, showRT(rets[1]), luaEq, eq), in)
	}
	if fits14Digits(f) {
		if !eq {
			e.violation("tostring-roundtrip", "tonumber(tostring) "+numClass(v), fmt.Sprintf("tostring(%s) = %q and tonumber of that is %s", showRT(v), s, showRT(rets[1])), in)
		}
		c.Feature("tostring-float-judged", 1)
		c.NonTrivial(vp.Hash("ts", e.s.N.Enc(v)))
	} else if eq {
		c.Feature("tostring-float-over-14-digits-roundtrips", 1)
	} else {
		c.Feature("tostring-float-over-14-digits-lossy-not-judged", 1)
	}
	if e.wantSample(1) && fits14Digits(f) && f != math.Trunc(f) {
		e.sample(map[string]interface{}{"number": showRT(v), "tostring": s, "tonumber": showRT(rets[1])})
	}
	e.hookReports(in)
}

func runTostring(c *vp.Child) {
	e := newEnv(c)
	defer e.s.Close()
	idx := 0
	for _, i := range intLattice() {
		idx++
		if c.Mine(idx) {
			checkTostring(e, rt.IntValue(i))
		}
	}
	for _, f := range floatLatticeNum() {
		idx++
		if c.Mine(idx) {
			checkTostring(e, rt.FloatValue(f))
		}
	}
	for _, f := range floatLattice {
		idx++
		if c.Mine(idx) {
			checkTostring(e, rt.FloatValue(f))
		}
	}
	r := c.Rand("tostring")
	n := c.Pick(120000, 3000000) / c.NB
	for i := 0; i < n; i++ {
		if r.Intn(2) == 0 {
			checkTostring(e, rt.IntValue(randInt64(r)))
		} else {
			checkTostring(e, rt.FloatValue(randFloat64(r)))
		}
	}
}
