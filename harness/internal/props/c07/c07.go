// Package c07 checks property C07 (nested execution contexts conserve budgets
// and report status truthfully): operation histories on golua's context stack
// are executed against the real runtime and against the ctxmodel stack machine
// in lock step, comparing every getter of every context of the stack after
// every operation; generated Lua programs nest runtime.callcontext / pcall /
// coroutines and have every returned context checked.
package c07

import (
	"fmt"
	"hash/fnv"
	"math/rand"
	"runtime/debug"
	"strings"
	"time"

	rt "github.com/arnodel/golua/runtime"

	cm "verif/internal/ctxmodel"
	"verif/internal/vp"
)

type Prop struct{}

func (Prop) ID() string { return "C07" }

func (Prop) Plan(t vp.Tier) []vp.Stage {
	st := []vp.Stage{
		{Name: "enum-cpu", NBatches: 32, TimeoutS: 1500},
		{Name: "enum-mem", NBatches: 32, TimeoutS: 1500},
		{Name: "random", NBatches: 16, TimeoutS: 1200},
		{Name: "timepop", NBatches: 4, TimeoutS: 300},
		{Name: "lua", NBatches: 16, TimeoutS: 1500},
		{Name: "exit-handlers", NBatches: 4, TimeoutS: 600},
	}
	if t == vp.Thorough {
		st = append(st, vp.Stage{Name: "enum-cpu-deep", NBatches: 64, TimeoutS: 3000})
	}
	return st
}

const (
	two63 = uint64(1) << 63
	maxU  = ^uint64(0)
)

// the value set of the property's quantifier
var valueSet = []uint64{0, 1, 2, 3, 10, two63, maxU - 1, maxU}

// enumDepth is the length of the exhaustively enumerated histories.
func enumDepth(t vp.Tier, stage string) int {
	switch stage {
	case "enum-cpu":
		return 5
	case "enum-cpu-deep":
		return 6
	}
	if t == vp.Thorough {
		return 5
	}
	return 4
}

// alphabetCPUDeep is the cpu alphabet without the values 2 and 2^64-2 (their
// neighbours 1, 3 and 2^64-1 stay), used one operation deeper in the thorough tier.
func alphabetCPUDeep() []op {
	var a []op
	for _, o := range alphabetCPU() {
		if (o.k == opPush || o.k == opCPU) && (o.n == 2 || o.n == maxU-1 || o.def == hc(2) || o.def == hc(maxU-1)) {
			continue
		}
		a = append(a, o)
	}
	return a
}

func (Prop) Describe(t vp.Tier) vp.Description {
	return vp.Description{
		Rule: "Go level: a case is a history over {PushContext(def), PopContext, RequireCPU(n), RequireMem(n), ReleaseMem(n), SetStopLevel(soft|hard), " +
			"CallContext(def, f) with f = a nested history ending ok|error|killed}; after every operation HardLimits, SoftLimits, UsedResources, Status, Due, RequiredFlags " +
			"of the active context and of every ancestor reached through Parent(), the stack depth, the context returned by PopContext/CallContext and the error returned by " +
			"CallContext are compared with the ctxmodel stack machine (written from quotas.md), plus the structural clauses (child hard <= parent hard - used, soft <= hard, " +
			"flags include the parent's, used < kill). Stages enum-cpu / enum-mem enumerate EVERY applicable history of the stated length over the stated alphabets " +
			"(limits and amounts from {0,1,2,3,10,2^63,2^64-2,2^64-1}); random samples 5e4 / 1e6 histories of 40 operations over full definitions (cpu, memory, time, soft limits, flags). " +
			"timepop makes a time limit expire while a child context is being popped and checks the stack stays balanced (no expiry verdict). " +
			"Lua level: generated programs nest runtime.callcontext, pcall and coroutines; for each returned context status (predicted from the program's shape), " +
			"child.kill <= parent.kill - parent.used, stop <= kill, used < kill, due <=> stop requested or used >= stop, flags inclusion, parent.used grows by at least child.used, " +
			"stack depth equal before/after, root used < L0 are checked. Non-trivial: a history/program with at least 2 nested contexts in which a hard or soft limit was reached; " +
			"distinct by the hash of the shortest such prefix (Go) or of the program text (Lua).",
		Assumptions: []string{
			"ctxmodel is a correct reading of quotas.md; what the document leaves open is not judged: the used counter of a resource without any limit, how much of a ReleaseMem is honoured (0..n), due of a context created under a parent that had a stop requested or of a force-killed context, pushing a child onto a context on which a kill was requested, operations on the root context",
			"time (Millis) limits are only checked for order relations (child <= parent, child <= requested, soft <= hard); no expiry verdicts; only limits >= 2^40 ms are generated outside the timepop stage",
			"Lua level: every finite part of a generated program is given at least 6 times the CPU it can consume (the bound is validated by the measured maximum used/limit ratio in the evidence), so that only the terminal construct decides the status",
			"exhaustive means: every applicable history of the stated length over the stated alphabet, not all uint64 values",
		},
		Floor:      map[vp.Tier]int64{vp.Quick: 20000, vp.Thorough: 200000}[t],
		Exhaustive: true,
		Extra: map[string]interface{}{
			"exhaustive_space": fmt.Sprintf("stage enum-cpu: all applicable histories of exactly %d operations over an alphabet of %d operations; stage enum-mem: exactly %d operations over %d; thorough tier also enum-cpu-deep: exactly %d operations over the %d-operation cpu alphabet without the values 2 and 2^64-2 (shorter histories are prefixes of the enumerated ones)",
				enumDepth(t, "enum-cpu"), len(alphabetCPU()), enumDepth(t, "enum-mem"), len(alphabetMem()), enumDepth(t, "enum-cpu-deep"), len(alphabetCPUDeep())),
			"alphabet_cpu":     histString(alphabetCPU()),
			"alphabet_mem":     histString(alphabetMem()),
		},
	}
}

func (Prop) RunBatch(c *vp.Child) {
	debug.SetGCPercent(1000) // tiny live heap, millions of short-lived context copies
	switch c.Stage {
	case "enum-cpu":
		runEnum(c, alphabetCPU(), enumDepth(c.Tier, c.Stage))
	case "enum-mem":
		runEnum(c, alphabetMem(), enumDepth(c.Tier, c.Stage))
	case "enum-cpu-deep":
		runEnum(c, alphabetCPUDeep(), enumDepth(c.Tier, c.Stage))
	case "random":
		runRandom(c)
	case "timepop":
		runTimePop(c)
	case "lua":
		runLua(c)
	case "exit-handlers":
		runExitHandlers(c)
	}
}

// ---------------------------------------------------------------------------
// exhaustive enumeration

func hc(v uint64) cm.Def { return cm.Def{Hard: cm.Res{Cpu: v}} }
func hm(v uint64) cm.Def { return cm.Def{Hard: cm.Res{Mem: v}} }

func alphabetCPU() []op {
	var a []op
	for _, v := range valueSet {
		a = append(a, op{k: opPush, def: hc(v)})
	}
	a = append(a,
		op{k: opPush, def: cm.Def{Soft: cm.Res{Cpu: 2}}},
		op{k: opPush, def: cm.Def{Hard: cm.Res{Cpu: 10}, Soft: cm.Res{Cpu: 3}}},
		op{k: opPush, def: cm.Def{Hard: cm.Res{Cpu: 3}, Soft: cm.Res{Cpu: 10}}},
		op{k: opPop})
	for _, v := range valueSet {
		a = append(a, op{k: opCPU, n: v})
	}
	a = append(a, op{k: opStopSoft}, op{k: opStopHard},
		op{k: opCall}, op{k: opCall, def: hc(3)}, op{k: opCall, def: hc(10)}, op{k: opCall, def: hc(maxU)},
		op{k: opEndOK}, op{k: opEndErr})
	return a
}

func alphabetMem() []op {
	var a []op
	for _, v := range valueSet {
		a = append(a, op{k: opPush, def: hm(v)})
	}
	a = append(a,
		op{k: opPush, def: cm.Def{Soft: cm.Res{Mem: 2}}},
		op{k: opPush, def: cm.Def{Hard: cm.Res{Mem: 10}, Soft: cm.Res{Mem: 3}}},
		op{k: opPush, def: cm.Def{Hard: cm.Res{Cpu: 10, Mem: 3}, Soft: cm.Res{Mem: 10}, Flags: cm.IoSafe}},
		op{k: opPop})
	for _, v := range valueSet {
		a = append(a, op{k: opMem, n: v})
	}
	a = append(a, op{k: opRel, n: 1}, op{k: opRel, n: 3}, op{k: opRel, n: two63},
		op{k: opCPU, n: 3},
		op{k: opStopSoft}, op{k: opStopHard},
		op{k: opCall}, op{k: opCall, def: hm(3)}, op{k: opCall, def: hm(10)}, op{k: opCall, def: hm(maxU)},
		op{k: opEndOK}, op{k: opEndErr})
	return a
}

const nonTrivialCap = 150000

func digitsHash(stage string, d []int, n int) uint64 {
	h := fnv.New64a()
	h.Write([]byte(stage))
	var b [1]byte
	for i := 0; i <= n && i < len(d); i++ {
		b[0] = byte(d[i])
		h.Write(b[:])
	}
	return h.Sum64()
}

func runEnum(c *vp.Child, alpha []op, depth int) {
	cnt := &counters{valCls: map[string]int64{}}
	x := newRunner(c, cnt)
	defer x.discard()
	defer cnt.flush(c)
	A, D := len(alpha), depth
	d := make([]int, D)
	ops := make([]op, D)
	nt := 0
	lastChunk := -1
	// advance increments digit k (with carry); false when the space is exhausted
	advance := func(k int) bool {
		for j := k + 1; j < D; j++ {
			d[j] = 0
		}
		for k >= 0 {
			d[k]++
			if d[k] < A {
				return true
			}
			d[k] = 0
			k--
		}
		return false
	}
	for {
		chunk := d[0]*A + d[1]
		if !c.Mine(chunk) {
			if !advance(1) {
				break
			}
			continue
		}
		if chunk != lastChunk {
			lastChunk = chunk
			c.Begin(fmt.Sprintf("%s chunk %d", c.Stage, chunk), "all histories of length "+fmt.Sprint(D)+" starting with: "+alpha[d[0]].String()+" ; "+alpha[d[1]].String())
		}
		for i := range d {
			ops[i] = alpha[d[i]]
		}
		var log []string
		if c.WantSample() && d[D-1] == A/2 && d[D-2] == 5 {
			x.sampleLog = &log
		}
		x.run(ops, nil)
		x.sampleLog = nil
		k := D - 1
		switch {
		case x.invalidAt >= 0:
			k = x.invalidAt
			cnt.pruned++
		case x.violAt >= 0:
			k = x.violAt
			cnt.leaves++
		default:
			cnt.leaves++
			if len(log) > 0 && x.trivAt >= 0 {
				c.Sample(map[string]interface{}{"stage": c.Stage, "history": histString(ops), "observed_after_each_operation": log})
			}
		}
		executed := k + 1
		if x.invalidAt >= 0 {
			executed = k
		}
		c.Eval(int64(executed))
		if x.trivAt >= 0 && nt < nonTrivialCap {
			c.NonTrivial(digitsHash(c.Stage, d, x.trivAt))
			nt++
		}
		if !advance(k) {
			break
		}
	}
	if nt >= nonTrivialCap {
		c.Feature("nontrivial-recording-capped", 1)
	}
}

// ---------------------------------------------------------------------------
// random histories

func pickAmount(r *rand.Rand, rem uint64) uint64 {
	switch r.Intn(20) {
	case 0, 1, 2, 3, 4, 5, 6, 7, 8:
		return uint64(r.Intn(12))
	case 9, 10, 11, 12:
		if rem > 0 {
			return rem - 2 + uint64(r.Intn(4)) // rem-2 .. rem+1 (wraps for tiny rem: fine)
		}
		return uint64(r.Intn(100))
	case 13, 14, 15:
		return valueSet[r.Intn(len(valueSet))]
	case 16:
		return maxU - uint64(r.Intn(20))
	case 17:
		return two63 - 3 + uint64(r.Intn(6))
	case 18:
		return r.Uint64()
	}
	return uint64(r.Intn(1000))
}

func pickLimit(r *rand.Rand, rem uint64, pZero int) uint64 {
	if r.Intn(100) < pZero {
		return 0
	}
	switch r.Intn(10) {
	case 0, 1, 2:
		return uint64(1 + r.Intn(30))
	case 3, 4:
		if rem > 0 {
			return rem - 1 + uint64(r.Intn(3))
		}
		return uint64(1 + r.Intn(200))
	case 5, 6:
		return valueSet[r.Intn(len(valueSet))]
	case 7:
		return maxU - uint64(r.Intn(4))
	case 8:
		return r.Uint64()
	}
	return uint64(1 + r.Intn(2000))
}

func pickMillis(r *rand.Rand) uint64 {
	switch r.Intn(4) {
	case 0:
		return 1<<40 + uint64(r.Intn(1000))
	case 1:
		return two63
	case 2:
		return maxU
	}
	return 1<<40 + r.Uint64()>>20
}

func remOf(h, u uint64) uint64 {
	if h == 0 || u >= h {
		return 0
	}
	return h - u
}

func randDef(r *rand.Rand, top *cm.Ctx) cm.Def {
	var d cm.Def
	if r.Intn(5) == 0 {
		return d // like pcall
	}
	d.Hard.Cpu = pickLimit(r, remOf(top.Hard.Cpu, top.Used.Cpu), 45)
	d.Hard.Mem = pickLimit(r, remOf(top.Hard.Mem, top.Used.Mem), 55)
	d.Soft.Cpu = pickLimit(r, remOf(top.Hard.Cpu, top.Used.Cpu)/2, 70)
	d.Soft.Mem = pickLimit(r, 0, 80)
	if r.Intn(8) == 0 {
		d.Hard.Millis = pickMillis(r)
	}
	if r.Intn(10) == 0 {
		d.Soft.Millis = pickMillis(r)
	}
	if r.Intn(3) == 0 {
		d.Flags = cm.Flags(r.Intn(16))
	}
	return d
}

// genOp chooses the next operation of a random history from the state of
// the lock-step model (workload choice only; verdicts come from the comparison).
func genOp(r *rand.Rand) func(x *runner, inCall bool, base int) op {
	return func(x *runner, inCall bool, base int) op {
		for {
			top := x.m.Top()
			var o op
			w := r.Intn(100)
			switch {
			case w < 18:
				o = op{k: opPush, def: randDef(r, top)}
			case w < 32:
				o = op{k: opCall, def: randDef(r, top)}
			case w < 50:
				if inCall && x.m.Depth() == base {
					o = op{k: opEndOK}
					if r.Intn(3) == 0 {
						o.k = opEndErr
					}
				} else {
					o = op{k: opPop}
				}
			case w < 70:
				o = op{k: opCPU, n: pickAmount(r, remOf(top.Hard.Cpu, top.Used.Cpu))}
			case w < 84:
				o = op{k: opMem, n: pickAmount(r, remOf(top.Hard.Mem, top.Used.Mem))}
			case w < 92:
				o = op{k: opRel, n: pickAmount(r, top.Used.Mem+2)}
				if r.Intn(2) == 0 && top.Used.Mem > 0 {
					o.n = uint64(r.Int63n(int64(top.Used.Mem%(1<<62)) + 1))
				}
			case w < 97:
				o = op{k: opStopSoft}
			default:
				o = op{k: opStopHard}
			}
			if x.valid(o, inCall, base) {
				return o
			}
		}
	}
}

func runRandom(c *vp.Child) {
	cnt := &counters{valCls: map[string]int64{}}
	x := newRunner(c, cnt)
	defer x.discard()
	defer cnt.flush(c)
	r := c.Rand("histories")
	gen := genOp(r)
	n := c.Pick(50000, 1000000) / c.NB
	for i := 0; i < n; i++ {
		var root *cm.Def
		if i%50 == 7 {
			d := randDef(r, &cm.Ctx{})
			root = &d
		}
		// the history is generated while it runs; the journal gets the PRNG
		// coordinates first and the violation record carries the operations
		rootS := ""
		if root != nil {
			rootS = "root" + defString(*root) + " ; "
		}
		c.Begin(fmt.Sprintf("random %d", i), fmt.Sprintf("random history #%d of batch %d (seed %d) %s", i, c.Batch, c.Seed, rootS))
		var log []string
		if c.WantSample() && i%97 == 3 {
			x.sampleLog = &log
		}
		x.rootPrefix = rootS
		x.gen, x.genN = gen, 40
		x.run(nil, root)
		x.gen, x.sampleLog, x.rootPrefix = nil, nil, ""
		cnt.leaves++
		ops := x.ops
		h := rootS + histString(ops)
		done := len(ops)
		if x.violAt >= 0 {
			done = x.violAt + 1
		}
		c.Eval(int64(done))
		if x.trivAt >= 0 {
			c.NonTrivial(vp.Hash("random", h))
			if len(log) > 0 {
				c.Sample(map[string]interface{}{"stage": "random", "history": h, "observed_after_each_operation": log})
			}
		}
	}
}

// ---------------------------------------------------------------------------
// a time limit that expires while a child context is being popped

func runTimePop(c *vp.Child) {
	r := c.Rand("timepop")
	n := c.Pick(12, 60) / c.NB
	if n < 1 {
		n = 1
	}
	cnt := &counters{}
	for i := 0; i < n; i++ {
		limit := uint64(1 + r.Intn(3))
		first := uint64(9000 + r.Intn(900))
		inner := uint64(1 + r.Intn(30))
		// golua looks at the clock when the cpu counter crosses a threshold set
		// 10000 units after the previous look: fill the time-limited context up
		// to just below it so that the child's charge crosses it (workload
		// tuning only; every other value is exercised by the 1-in-3 random fill)
		fill := 10000 - inner + uint64(r.Intn(int(inner)))
		if r.Intn(3) == 0 {
			fill = uint64(r.Intn(9000))
		}
		nested := r.Intn(3) // how many contexts between the time-limited one and the sleeper
		pre := make([]uint64, nested+1)
		for k := 1; k <= nested; k++ {
			if r.Intn(2) == 0 {
				pre[k] = first + 10000 - inner + uint64(r.Intn(int(inner)))
			}
		}
		sleep := time.Duration(8+r.Intn(8)) * time.Millisecond
		desc := fmt.Sprintf("CallContext{millis=%d}: RequireCPU(%d); RequireCPU(%d); %d nested CallContext{} with RequireCPU%v before descending; innermost: [sleep %v; RequireCPU(%d)]", limit, first, fill, nested+1, pre[1:], sleep, inner)
		c.Begin(fmt.Sprintf("timepop %d", i), desc)
		c.Eval(1)
		x := newRunner(c, cnt)
		func() {
			defer func() {
				if p := recover(); p != nil {
					c.Violation("escape", "timepop escape", fmt.Sprintf("%T %v escaped from the outermost CallContext", p, p), desc)
				}
			}()
			t := x.t
			d0 := rt.VerifContextDepth(x.r)
			type rec struct {
				level    int
				before   int
				after    int
				ctxHard  rt.RuntimeResources
				returned bool
			}
			var recs []rec
			var nest func(level int) error
			nest = func(level int) error {
				db := rt.VerifContextDepth(x.r)
				ctx, _ := t.CallContext(rt.RuntimeContextDef{}, func() error {
					if level < nested {
						if pre[level+1] > 0 {
							x.r.RequireCPU(pre[level+1])
						}
						return nest(level + 1)
					}
					time.Sleep(sleep)
					x.r.RequireCPU(inner)
					return nil
				})
				rc := rec{level: level, before: db, after: rt.VerifContextDepth(x.r), returned: true}
				if !isNilCtx(ctx) {
					rc.ctxHard = ctx.HardLimits()
				}
				recs = append(recs, rc)
				return nil
			}
			outer, err := t.CallContext(rt.RuntimeContextDef{HardLimits: rt.RuntimeResources{Millis: limit}}, func() error {
				x.r.RequireCPU(first)
				x.r.RequireCPU(fill)
				return nest(0)
			})
			d1 := rt.VerifContextDepth(x.r)
			_, expired := err.(rt.ContextTerminationError)
			if expired {
				c.Feature("time-limit-expired-during-run", 1)
			} else {
				c.Feature("time-limit-not-expired", 1)
			}
			for _, rc := range recs {
				if rc.after != rc.before {
					c.Violation("desync", "timepop inner-depth", fmt.Sprintf("inner CallContext (level %d) returned with stack depth %d, was %d before it", rc.level, rc.after, rc.before), desc)
				}
			}
			if d1 != d0 {
				c.Violation("desync", "timepop depth", fmt.Sprintf("context stack depth is %d after the outermost CallContext returned (error %v), %d before: a context is left on the stack", d1, err, d0), desc)
			} else if expired {
				c.NonTrivial(vp.Hash("timepop", desc))
			}
			if !isNilCtx(outer) {
				if h := outer.HardLimits(); h.Millis != limit {
					c.Violation("desync", "timepop wrong-context", fmt.Sprintf("the context returned by the outermost CallContext has time limit %d, the one created has %d: it is another context", h.Millis, limit), desc)
				}
				if expired && outer.Status() != rt.StatusKilled {
					c.Violation("mismatch", "timepop status", fmt.Sprintf("CallContext returned a termination error (%v) but the context's status is %s", err, outer.Status()), desc)
				}
			} else if d1 == d0 {
				c.Violation("mismatch", "timepop nil-context", "CallContext returned no context", desc)
			}
			if c.WantSample() && expired {
				c.Sample(map[string]interface{}{"stage": "timepop", "case": desc, "outcome": fmt.Sprint(err), "depth_before_after": []int{d0, d1}})
			}
		}()
		x.dirty = true
		x.discard()
	}
}

// ---------------------------------------------------------------------------

func (Prop) Replay(c *vp.Child, input string) {
	if strings.HasPrefix(input, "-- c07 lua") {
		replayLua(c, input)
		return
	}
	var root *cm.Def
	if strings.HasPrefix(input, "root{") {
		i := strings.Index(input, " ; ")
		if i < 0 {
			i = len(input)
		}
		ops, err := parseHist("push" + input[4:i])
		if err == nil && len(ops) == 1 {
			root = &ops[0].def
		}
		if i < len(input) {
			input = input[i+3:]
		} else {
			input = ""
		}
	}
	input = strings.TrimSuffix(input, " ; (implicit close)")
	ops, err := parseHist(input)
	if err != nil {
		fmt.Println("cannot parse the recorded history:", err)
		return
	}
	cnt := &counters{}
	x := newRunner(c, cnt)
	var log []string
	x.sampleLog = &log
	x.run(ops, root)
	for _, l := range log {
		fmt.Println("  ", l)
	}
	x.discard()
}
