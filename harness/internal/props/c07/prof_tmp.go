package c07

import (
	"os"
	"runtime/pprof"
)

func startProf() func() {
	p := os.Getenv("C07_PROF")
	if p == "" {
		return func() {}
	}
	f, _ := os.Create(p)
	pprof.StartCPUProfile(f)
	return func() { pprof.StopCPUProfile(); f.Close() }
}
