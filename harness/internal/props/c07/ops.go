package c07

import (
	"fmt"
	"strconv"
	"strings"

	rt "github.com/arnodel/golua/runtime"

	cm "verif/internal/ctxmodel"
)

type opKind uint8

const (
	opPush opKind = iota
	opPop
	opCPU
	opMem
	opRel
	opStopSoft
	opStopHard
	opCall
	opEndOK
	opEndErr
	nOpKinds
)

var opNames = [...]string{"push", "pop", "cpu", "mem", "rel", "stop(soft)", "stop(hard)", "call", "end(ok)", "end(err)"}

type op struct {
	k   opKind
	n   uint64
	def cm.Def
}

func defString(d cm.Def) string {
	var p []string
	add := func(k string, v uint64) {
		if v != 0 {
			p = append(p, k+"="+strconv.FormatUint(v, 10))
		}
	}
	add("hc", d.Hard.Cpu)
	add("hm", d.Hard.Mem)
	add("ht", d.Hard.Millis)
	add("sc", d.Soft.Cpu)
	add("sm", d.Soft.Mem)
	add("st", d.Soft.Millis)
	add("f", uint64(d.Flags))
	return "{" + strings.Join(p, ",") + "}"
}

func (o op) String() string {
	switch o.k {
	case opPush, opCall:
		return opNames[o.k] + defString(o.def)
	case opCPU, opMem, opRel:
		return opNames[o.k] + "(" + strconv.FormatUint(o.n, 10) + ")"
	}
	return opNames[o.k]
}

func histString(ops []op) string {
	s := make([]string, len(ops))
	for i, o := range ops {
		s[i] = o.String()
	}
	return strings.Join(s, " ; ")
}

func parseHist(s string) ([]op, error) {
	var ops []op
	for _, f := range strings.Split(s, ";") {
		f = strings.TrimSpace(f)
		if f == "" {
			continue
		}
		var o op
		switch {
		case strings.HasPrefix(f, "push{"), strings.HasPrefix(f, "call{"):
			o.k = opPush
			if f[0] == 'c' {
				o.k = opCall
			}
			body := strings.TrimSuffix(f[5:], "}")
			for _, kv := range strings.Split(body, ",") {
				if kv == "" {
					continue
				}
				p := strings.SplitN(kv, "=", 2)
				if len(p) != 2 {
					return nil, fmt.Errorf("bad def field %q", kv)
				}
				v, err := strconv.ParseUint(p[1], 10, 64)
				if err != nil {
					return nil, err
				}
				switch p[0] {
				case "hc":
					o.def.Hard.Cpu = v
				case "hm":
					o.def.Hard.Mem = v
				case "ht":
					o.def.Hard.Millis = v
				case "sc":
					o.def.Soft.Cpu = v
				case "sm":
					o.def.Soft.Mem = v
				case "st":
					o.def.Soft.Millis = v
				case "f":
					o.def.Flags = cm.Flags(v)
				}
			}
		case strings.HasPrefix(f, "cpu("), strings.HasPrefix(f, "mem("), strings.HasPrefix(f, "rel("):
			o.k = map[string]opKind{"cpu": opCPU, "mem": opMem, "rel": opRel}[f[:3]]
			v, err := strconv.ParseUint(strings.TrimSuffix(f[4:], ")"), 10, 64)
			if err != nil {
				return nil, err
			}
			o.n = v
		default:
			found := false
			for k, n := range opNames {
				if n == f {
					o.k, found = opKind(k), true
				}
			}
			if !found {
				return nil, fmt.Errorf("unknown op %q", f)
			}
		}
		ops = append(ops, o)
	}
	return ops, nil
}

// valClass abstracts an amount or limit for signatures.
func valClass(v uint64) string {
	switch {
	case v == 0:
		return "0"
	case v <= 1000:
		return "small"
	case v < 1<<63:
		return "big"
	}
	return "huge"
}

func defClass(d cm.Def) string {
	var p []string
	add := func(k string, v uint64) {
		if v != 0 {
			p = append(p, k+":"+valClass(v))
		}
	}
	add("hc", d.Hard.Cpu)
	add("hm", d.Hard.Mem)
	add("ht", d.Hard.Millis)
	add("sc", d.Soft.Cpu)
	add("sm", d.Soft.Mem)
	add("st", d.Soft.Millis)
	if d.Flags != 0 {
		p = append(p, "f")
	}
	return "{" + strings.Join(p, ",") + "}"
}

func (o op) class() string {
	switch o.k {
	case opPush, opCall:
		return opNames[o.k] + defClass(o.def)
	case opCPU, opMem, opRel:
		return opNames[o.k] + "(" + valClass(o.n) + ")"
	}
	return opNames[o.k]
}

func ctxClass(c *cm.Ctx) string {
	return fmt.Sprintf("[hc:%s hm:%s sc:%s sm:%s %s]", valClass(c.Hard.Cpu), valClass(c.Hard.Mem), valClass(c.Soft.Cpu), valClass(c.Soft.Mem), c.Status)
}

// ---------------------------------------------------------------------------
// conversions between the model's vocabulary and golua's

func toRTFlags(f cm.Flags) rt.ComplianceFlags {
	var r rt.ComplianceFlags
	if f&cm.MemSafe != 0 {
		r |= rt.ComplyMemSafe
	}
	if f&cm.CpuSafe != 0 {
		r |= rt.ComplyCpuSafe
	}
	if f&cm.IoSafe != 0 {
		r |= rt.ComplyIoSafe
	}
	if f&cm.TimeSafe != 0 {
		r |= rt.ComplyTimeSafe
	}
	return r
}

func fromRTFlags(f rt.ComplianceFlags) cm.Flags {
	var r cm.Flags
	if f&rt.ComplyMemSafe != 0 {
		r |= cm.MemSafe
	}
	if f&rt.ComplyCpuSafe != 0 {
		r |= cm.CpuSafe
	}
	if f&rt.ComplyIoSafe != 0 {
		r |= cm.IoSafe
	}
	if f&rt.ComplyTimeSafe != 0 {
		r |= cm.TimeSafe
	}
	if f&^(rt.ComplyMemSafe|rt.ComplyCpuSafe|rt.ComplyIoSafe|rt.ComplyTimeSafe) != 0 {
		r |= 0x80 // unknown flag: shows up as a discrepancy
	}
	return r
}

func toRTRes(r cm.Res) rt.RuntimeResources {
	return rt.RuntimeResources{Cpu: r.Cpu, Memory: r.Mem, Millis: r.Millis}
}

func fromRTRes(r rt.RuntimeResources) cm.Res {
	return cm.Res{Cpu: r.Cpu, Mem: r.Memory, Millis: r.Millis}
}

func toRTDef(d cm.Def) rt.RuntimeContextDef {
	return rt.RuntimeContextDef{HardLimits: toRTRes(d.Hard), SoftLimits: toRTRes(d.Soft), RequiredFlags: toRTFlags(d.Flags)}
}

func fromRTStatus(s rt.RuntimeContextStatus) cm.Status {
	switch s {
	case rt.StatusLive:
		return cm.Live
	case rt.StatusDone:
		return cm.Done
	case rt.StatusError:
		return cm.Error
	case rt.StatusKilled:
		return cm.Killed
	}
	return cm.Status(0)
}

func observe(c rt.RuntimeContext) cm.Obs {
	return cm.Obs{
		Hard:   fromRTRes(c.HardLimits()),
		Soft:   fromRTRes(c.SoftLimits()),
		Used:   fromRTRes(c.UsedResources()),
		Status: fromRTStatus(c.Status()),
		Due:    c.Due(),
		Flags:  fromRTFlags(c.RequiredFlags()),
	}
}
