package c07

import (
	"fmt"
	"testing"

	rt "github.com/arnodel/golua/runtime"
)

func TestDepth(t *testing.T) {
	h := newLuaHost()
	fmt.Println("go depth", rt.VerifContextDepth(h.s.R))
	h.s.R.SetEnvGoFunc(h.s.R.GlobalEnv(), "dd", func(t *rt.Thread, c *rt.GoCont) (rt.Cont, error) {
		fmt.Println("in dd: depth", rt.VerifContextDepth(t.Runtime), t.Runtime == h.s.R, "status", t.Runtime.Status(), t.Runtime.HardLimits())
		var cx rt.RuntimeContext = t.Runtime.RuntimeContext()
		for i := 0; !isNilCtx(cx) && i < 5; i++ {
			fmt.Println("   level", i, cx.HardLimits(), cx.Status(), cx.RequiredFlags())
			cx = cx.Parent()
		}
		return c.Next(), nil
	}, 0, false)
	clos, _ := h.s.Compile("x", `dd()`)
	o := h.s.Call(rt.FunctionValue(clos), nil)
	fmt.Println(o.String())
	fmt.Println("go depth", rt.VerifContextDepth(h.s.R))
}
