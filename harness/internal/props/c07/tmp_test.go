package c07

import (
	"fmt"
	"testing"

	rt "github.com/arnodel/golua/runtime"
)

func TestWork(t *testing.T) {
	worst := 0.0
	for seed := int64(1); seed < 1500; seed++ {
		lc := genLuaCase(seed)
		if lc.root.status != "done" && lc.root.status != "error" {
			continue
		}
		h := newLuaHost()
		clos, out := h.s.Compile("c07", lc.text)
		if out != nil {
			t.Fatal(out.ErrMsg)
		}
		o := h.s.CallInContext(rt.RuntimeContextDef{HardLimits: rt.RuntimeResources{Cpu: lc.L0 * 50}, SoftLimits: rt.RuntimeResources{Cpu: lc.root.S}}, rt.FunctionValue(clos), nil)
		ratio := float64(o.UsedCPU) / float64(lc.root.work)
		if ratio > worst {
			worst = ratio
			fmt.Printf("seed %d used %d work %d ratio %.2f status %s/%s\n", seed, o.UsedCPU, lc.root.work, ratio, o.CtxStatus, lc.root.status)
			if ratio > 5 {
				fmt.Println(lc.text)
				for _, e := range h.events {
					fmt.Printf("   #%d %s kill=%d used=%d parent %d->%d\n", e.id, e.status, e.killCpu, e.usedCpu, e.ub, e.ua)
				}
				break
			}
		}
		h.s.Close()
	}
}
