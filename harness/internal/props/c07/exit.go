package c07

import (
	"fmt"
	"strings"

	"verif/internal/eng"
	"verif/internal/gl"
	"verif/internal/vp"
)

// Stage "exit-handlers": the code that runs while a limited context is being
// left - __close handlers of the body's pending variables, __gc finalisers of
// the values created in the context - still runs INSIDE that context: its
// limits apply, the status becomes "killed" when a limit is hit there (however
// the body itself ended: return, error, error raised by another handler), and
// `used` stays below the limit. Expected events are written down from the
// property (quotas.md: "killed" means a hard limit was hit; nothing of the
// context runs afterwards).

const exitLimitCPU, exitLimitMem = 10000, 200000

var exitHogs = map[string]string{
	"cpu": `for i = 1, 3000000 do end`,
	"mem": `local t = {} for i = 1, 300000 do t[i] = {i} end`,
}

// $HOG is the work, $KILL the limits table, $H a unique marker
var exitTemplates = []struct {
	name, src string
	// what the inner program must report
	wantStatus string
}{
	{"close-hog-after-error", `local ctx = runtime.callcontext($KILL, function()
  local c <close> = setmetatable({}, {__close = function() $HOG emit("handler finished") end})
  emit("body") error("boom") end)
emit("status", ctx.status, $BELOW)`, "killed"},
	{"close-hog-after-return", `local ctx = runtime.callcontext($KILL, function()
  local c <close> = setmetatable({}, {__close = function() $HOG emit("handler finished") end})
  emit("body") return 1 end)
emit("status", ctx.status, $BELOW)`, "killed"},
	{"close-hog-after-error-table", `local ctx = runtime.callcontext($KILL, function()
  local c <close> = setmetatable({}, {__close = function() $HOG emit("handler finished") end})
  emit("body") error({}) end)
emit("status", ctx.status, $BELOW)`, "killed"},
	{"close-hog-after-other-handler-error", `local ctx = runtime.callcontext($KILL, function()
  local c <close> = setmetatable({}, {__close = function() $HOG emit("handler finished") end})
  local d <close> = setmetatable({}, {__close = function() error("from d") end})
  emit("body") end)
emit("status", ctx.status, $BELOW)`, "killed"},
	{"gc-hog-after-error", `local ctx = runtime.callcontext($KILL, function()
  setmetatable({}, {__gc = function() $HOG emit("handler finished") end})
  emit("body") error("boom") end)
emit("status", ctx.status, $BELOW)`, "killed"},
	{"gc-hog-after-return", `local ctx = runtime.callcontext($KILL, function()
  setmetatable({}, {__gc = function() $HOG emit("handler finished") end})
  emit("body") return 1 end)
emit("status", ctx.status, $BELOW)`, "killed"},
	{"close-hog-in-pcall-after-error", `local ctx = runtime.callcontext($KILL, function()
  emit("pcall", pcall(function()
    local c <close> = setmetatable({}, {__close = function() $HOG emit("handler finished") end})
    emit("body") error("boom") end))
  emit("after pcall") end)
emit("status", ctx.status, $BELOW)`, "killed"},
	{"close-hog-in-xpcall-after-error", `local ctx = runtime.callcontext($KILL, function()
  emit("xpcall", xpcall(function()
    local c <close> = setmetatable({}, {__close = function() $HOG emit("handler finished") end})
    emit("body") error("boom") end, function(m) return m end))
  emit("after xpcall") end)
emit("status", ctx.status, $BELOW)`, "killed"},
	{"close-hog-in-coroutine-after-error", `local ctx = runtime.callcontext($KILL, function()
  local co = coroutine.wrap(function()
    local c <close> = setmetatable({}, {__close = function() $HOG emit("handler finished") end})
    emit("body") error("boom") end)
  emit("wrap", pcall(co))
  emit("after wrap") end)
emit("status", ctx.status, $BELOW)`, "killed"},
	{"close-hog-in-nested-context-after-error", `local outer = runtime.callcontext($KILL, function()
  local inner = runtime.callcontext({}, function()
    local c <close> = setmetatable({}, {__close = function() $HOG emit("handler finished") end})
    emit("body") error("boom") end)
  emit("after inner", inner.status) end)
emit("status", outer.status, true)`, "killed"},
	// control: cheap handlers - the statuses are the ordinary ones
	{"cheap-close-after-error", `local ctx = runtime.callcontext($KILL, function()
  local c <close> = setmetatable({}, {__close = function() emit("cheap handler") end})
  emit("body") error("boom") end)
emit("status", ctx.status, $BELOW)`, "error"},
	{"cheap-close-after-return", `local ctx = runtime.callcontext($KILL, function()
  local c <close> = setmetatable({}, {__close = function() emit("cheap handler") end})
  emit("body") return 1 end)
emit("status", ctx.status, $BELOW)`, "done"},
}

func runExitHandlers(c *vp.Child) {
	k := 0
	for _, tpl := range exitTemplates {
		for _, res := range []string{"cpu", "mem"} {
			k++
			if !c.Mine(k) {
				continue
			}
			kill, below := fmt.Sprintf("{kill = {cpu = %d}}", exitLimitCPU), fmt.Sprintf("ctx.used.cpu < %d", exitLimitCPU)
			if res == "mem" {
				kill, below = fmt.Sprintf("{kill = {memory = %d}}", exitLimitMem), fmt.Sprintf("ctx.used.memory < %d", exitLimitMem)
			}
			text := strings.NewReplacer("$HOG", exitHogs[res], "$KILL", kill, "$BELOW", below).Replace(tpl.src)
			label := "exit-handlers:" + tpl.name + "/" + res
			c.Begin(label, text)
			out := eng.RunText(text, nil)
			c.Eval(1)
			c.NonTrivial(vp.Hash(label))
			fail := func(what string) {
				c.Violation("exit-handlers", tpl.name+"/"+res, what+"\ntrace: "+strings.Join(out.Trace, " | ")+"\noutcome: "+out.Kind+" "+out.ErrMsg+out.PanicMsg, text)
			}
			if len(out.Reports) > 0 {
				fail("hook: " + out.Reports[0])
			}
			if out.Kind != gl.OK {
				fail("the program did not run to its end: " + out.Kind + " " + out.ErrMsg + out.PanicMsg)
				continue
			}
			var status string
			for _, ev := range out.TraceV {
				switch {
				case len(ev) >= 1 && ev[0] == `s:"handler finished"`:
					fail("a handler that needs far more than the context's limit ran to its end")
				case len(ev) >= 1 && strings.HasPrefix(ev[0], `s:"after `) && tpl.wantStatus == "killed":
					fail("code of the killed context ran after the kill: " + strings.Join(ev, " "))
				case len(ev) >= 3 && ev[0] == `s:"status"`:
					status = strings.Join(ev[1:], " ")
				}
			}
			want := `s:"` + tpl.wantStatus + `" b:true`
			if status != want {
				fail(fmt.Sprintf("the context reports (status, used < limit) = %s, expected %s", status, want))
			}
		}
	}
}
