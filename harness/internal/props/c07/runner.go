package c07

import (
	"errors"
	"fmt"
	"io"
	"reflect"
	"regexp"
	"strings"

	rt "github.com/arnodel/golua/runtime"

	cm "verif/internal/ctxmodel"
	"verif/internal/gl"
	"verif/internal/vp"
)

var errSentinel = errors.New("c07: f ends with an error")

const maxStack = 14

// runner executes one history against a real runtime and the model in lock step.
type runner struct {
	c     *vp.Child
	r     *rt.Runtime
	t     *rt.Thread
	m     *cm.Machine
	m0    *cm.Machine
	ops   []op
	pos   int
	stop  bool
	chain []cm.Obs

	invalidAt int // index of the first op that is not applicable (enumeration pruning)
	violAt    int // index of the op after which a discrepancy was seen
	dirty     bool

	// what the history reached
	maxDepth  int
	hit       bool
	trivAt    int // op index at which the history became non-trivial (-1: never)
	cnt       *counters
	sampleLog *[]string

	// gen, when set, supplies further operations once ops is used up (up to genN in total)
	gen  func(x *runner, inCall bool, base int) op
	genN int
	// rootPrefix is prepended to recorded histories (runtime created inside a context)
	rootPrefix string
}

type counters struct {
	ops      [nOpKinds]int64
	kills    int64
	killStop int64
	deadOps  int64
	overRel  int64
	endOK    int64
	endErr   int64
	endKill  int64
	popDone  int64
	popKill  int64
	pruned   int64
	leaves   int64
	checks   int64
	dueTrue  int64
	dueOpen  int64
	depthH   [maxStack + 2]int64
	newRT    int64
	valCls   map[string]int64
}

func (k *counters) flush(c *vp.Child) {
	for i, n := range k.ops {
		if n > 0 {
			c.Feature("op/"+opNames[i], n)
		}
	}
	f := func(name string, n int64) {
		if n > 0 {
			c.Feature(name, n)
		}
	}
	f("kill/by-limit", k.kills)
	f("kill/by-stop", k.killStop)
	f("ops-on-dead-context", k.deadOps)
	f("over-release", k.overRel)
	f("call-end/ok", k.endOK)
	f("call-end/error", k.endErr)
	f("call-end/killed", k.endKill)
	f("pop/done", k.popDone)
	f("pop/killed", k.popKill)
	f("histories", k.leaves)
	f("pruned-prefixes", k.pruned)
	f("stack-comparisons", k.checks)
	f("due/true", k.dueTrue)
	f("due/unspecified", k.dueOpen)
	f("runtimes-created", k.newRT)
	for i, n := range k.depthH {
		if n > 0 {
			c.Feature(fmt.Sprintf("max-stack-depth/%02d", i), n)
		}
	}
	for cls, n := range k.valCls {
		c.Feature("amount-class/"+cls, n)
	}
}

func newRunner(c *vp.Child, cnt *counters) *runner {
	x := &runner{c: c, cnt: cnt}
	x.fresh(nil)
	return x
}

// fresh replaces the runtime (root optionally created inside a context).
func (x *runner) fresh(root *cm.Def) {
	if x.r != nil {
		x.discard()
	}
	if root != nil {
		x.r = rt.New(io.Discard, rt.WithRuntimeContext(toRTDef(*root)))
	} else {
		x.r = rt.New(io.Discard)
	}
	x.t = x.r.MainThread()
	x.dirty = root != nil
	x.cnt.newRT++
}

func (x *runner) discard() {
	defer func() { recover() }()
	r := x.r
	x.r = nil
	for i := 0; i < 64; i++ {
		if !x.safePop(r) {
			break
		}
	}
	r.Close(nil)
}

func (x *runner) safePop(r *rt.Runtime) (more bool) {
	defer func() {
		if recover() != nil {
			more = true
		}
	}()
	return r.PopContext() != nil
}

func isNilCtx(c rt.RuntimeContext) bool {
	if c == nil {
		return true
	}
	v := reflect.ValueOf(c)
	return v.Kind() == reflect.Ptr && v.IsNil()
}

// reset brings the runtime back to its pristine root or replaces it.
func (x *runner) reset() {
	if x.dirty {
		x.fresh(nil)
		return
	}
	ok := true
	func() {
		defer func() {
			if recover() != nil {
				ok = false
			}
		}()
		for i := 0; rt.VerifContextDepth(x.r) > 1; i++ {
			if i > 64 {
				ok = false
				return
			}
			x.r.PopContext()
		}
	}()
	if ok {
		o := observe(x.r.RuntimeContext())
		if o.Status != cm.Live || o.Due || o.Used.Cpu != 0 || o.Used.Mem != 0 || o.Hard != (cm.Res{}) || o.Soft != (cm.Res{}) || o.Flags != 0 {
			ok = false
		}
	}
	if !ok {
		x.fresh(nil)
	}
}

func (x *runner) prefix(idx int) string {
	if idx >= len(x.ops) {
		return histString(x.ops) + " ; (implicit close)"
	}
	return histString(x.ops[:idx+1])
}

func (x *runner) violation(kind, sig, detail string, idx int) {
	if x.stop && x.violAt >= 0 {
		return
	}
	x.stop = true
	if idx >= len(x.ops) {
		idx = len(x.ops) - 1
	}
	x.violAt = idx
	x.dirty = true
	h := x.rootPrefix + x.prefix(idx)
	x.c.Violation(kind, sig, detail+"\nhistory: "+h, h)
}

// readChain observes the active context and all its ancestors.
func (x *runner) readChain() []cm.Obs {
	x.chain = x.chain[:0]
	var c rt.RuntimeContext = x.r.RuntimeContext()
	for i := 0; !isNilCtx(c) && i < 100; i++ {
		x.chain = append(x.chain, observe(c))
		c = c.Parent()
	}
	return x.chain
}

func (x *runner) checkAll(idx int, o op, before snap) {
	if x.stop {
		return
	}
	chain := x.readChain()
	x.cnt.checks++
	if d := rt.VerifContextDepth(x.r); d != len(chain) {
		x.violation("mismatch", "parent-chain after "+o.class(), fmt.Sprintf("Parent() chain has %d contexts, the context stack %d", len(chain), d), idx)
		return
	}
	ds := x.m.Check(chain)
	if len(ds) > 0 {
		var b strings.Builder
		for _, d := range ds {
			b.WriteString(d.Detail + "\n")
		}
		x.violation("mismatch", ds[0].Field+" after "+o.class()+" on "+before.String(), b.String(), idx)
		return
	}
	top := x.m.Top()
	if _, fixed := top.DueWant(); !fixed {
		x.cnt.dueOpen++
	} else if chain[0].Due {
		x.cnt.dueTrue++
	}
	if d := x.m.Depth(); d > x.maxDepth {
		x.maxDepth = d
	}
	if top.HitLimit {
		x.hit = true
	}
	if x.trivAt < 0 && x.hit && x.maxDepth >= 3 {
		x.trivAt = idx
	}
	if x.sampleLog != nil {
		*x.sampleLog = append(*x.sampleLog, fmt.Sprintf("%s -> depth %d, active: hard=%v soft=%v used=%v status=%s due=%v flags=%s",
			o, len(chain), chain[0].Hard, chain[0].Soft, chain[0].Used, chain[0].Status, chain[0].Due, chain[0].Flags))
	}
}

func (x *runner) checkFinished(ctx rt.RuntimeContext, fin *cm.Ctx, idx int, o op, what string) {
	if x.stop {
		return
	}
	if isNilCtx(ctx) {
		x.violation("mismatch", "nil-context after "+o.class(), what+" returned no context", idx)
		return
	}
	ob := observe(ctx)
	ds := fin.Compare(ob, what)
	if isNilCtx(ctx.Parent()) {
		ds = append(ds, cm.Diff{Field: "parent", Detail: what + ": Parent() of the finished context is nil"})
	}
	if len(ds) > 0 {
		var b strings.Builder
		for _, d := range ds {
			b.WriteString(d.Detail + "\n")
		}
		x.violation("mismatch", "finished."+ds[0].Field+" after "+o.class()+" on "+ctxClass(fin), b.String(), idx)
	}
}

// protect runs f; reports whether it was terminated by a
// ContextTerminationError, or panicked with something else.
func protect(f func()) (killed bool, other interface{}) {
	defer func() {
		if r := recover(); r != nil {
			if _, ok := r.(rt.ContextTerminationError); ok {
				killed = true
			} else {
				other = r
			}
		}
	}()
	f()
	return
}

func (x *runner) valid(o op, inCall bool, base int) bool {
	switch o.k {
	case opPush, opCall:
		return x.m.CanPush() && x.m.Depth() < maxStack
	case opPop:
		return x.m.Depth() > base
	case opEndOK, opEndErr:
		return inCall && x.m.Depth() == base
	}
	return x.m.Depth() > 1
}

func (x *runner) classify(v uint64) {
	if x.cnt.valCls != nil {
		x.cnt.valCls[valClass(v)]++
	}
}

type snap struct {
	hc, hm, sc, sm uint64
	st             cm.Status
}

func snapOf(c *cm.Ctx) snap { return snap{c.Hard.Cpu, c.Hard.Mem, c.Soft.Cpu, c.Soft.Mem, c.Status} }

func (s snap) String() string {
	return fmt.Sprintf("[hc:%s hm:%s sc:%s sm:%s %s]", valClass(s.hc), valClass(s.hm), valClass(s.sc), valClass(s.sm), s.st)
}

// exec performs the operation on the real runtime.
func (x *runner) exec(o op) (got rt.RuntimeContext) {
	switch o.k {
	case opPush:
		x.r.PushContext(toRTDef(o.def))
	case opPop:
		got = x.r.PopContext()
	case opCPU:
		x.r.RequireCPU(o.n)
	case opMem:
		x.r.RequireMem(o.n)
	case opRel:
		x.r.ReleaseMem(o.n)
	case opStopSoft:
		x.r.SetStopLevel(rt.SoftStop)
	case opStopHard:
		x.r.SetStopLevel(rt.HardStop)
	}
	return
}

func (x *runner) execProtected(o op) (got rt.RuntimeContext, killed bool, other interface{}) {
	defer func() {
		if r := recover(); r != nil {
			if _, ok := r.(rt.ContextTerminationError); ok {
				killed = true
			} else {
				other = r
			}
		}
	}()
	got = x.exec(o)
	return
}

// step executes one non-call operation.
func (x *runner) step(o op, idx int) {
	top := x.m.Top()
	before := snapOf(top)
	x.cnt.ops[o.k]++
	if top.Dead() && o.k != opPop {
		x.cnt.deadOps++
	}
	var exp cm.Expect
	var fin *cm.Ctx
	var over bool
	var got rt.RuntimeContext
	switch o.k {
	case opPush:
		x.m.Push(o.def, false)
	case opPop:
		fin = x.m.Pop(false)
	case opCPU:
		x.classify(o.n)
		exp = x.m.RequireCPU(o.n)
	case opMem:
		x.classify(o.n)
		exp = x.m.RequireMem(o.n)
	case opRel:
		over = x.m.ReleaseMem(o.n)
	case opStopSoft:
		exp = x.m.Stop(false)
	case opStopHard:
		exp = x.m.Stop(true)
	}
	if exp == cm.MustKill {
		if o.k == opStopHard {
			x.cnt.killStop++
		} else {
			x.cnt.kills++
		}
	}
	const notKilled = "the operation returned although it takes the context to its hard limit (or requests a kill): the context must be terminated"
	if top.ByCall && o.k != opPush && o.k != opRel {
		// inside f of a CallContext: a termination must travel to that CallContext
		got = x.exec(o)
		if exp == cm.MustKill {
			x.violation("kill", "not-killed "+o.class()+" on "+before.String(), notKilled, idx)
			return
		}
	} else {
		var killed bool
		var other interface{}
		got, killed, other = x.execProtected(o)
		switch {
		case other != nil && o.k == opRel && over:
			x.cnt.overRel++ // releasing more than is in use: refusing loudly is allowed
		case other != nil:
			x.violation("panic", "panic "+o.class()+" on "+before.String(), fmt.Sprintf("Go panic %v", other), idx)
			return
		case killed && exp == cm.NoKill:
			x.violation("kill", "unexpected-kill "+o.class()+" on "+before.String(), "ContextTerminationError although the operation stays within the limits", idx)
			return
		case !killed && exp == cm.MustKill:
			x.violation("kill", "not-killed "+o.class()+" on "+before.String(), notKilled, idx)
			return
		}
	}
	if fin != nil {
		if fin.Status == cm.Killed {
			x.cnt.popKill++
		} else {
			x.cnt.popDone++
		}
		x.checkFinished(got, fin, idx, o, "PopContext()")
	}
	x.checkAll(idx, o, before)
}

// callContext runs t.CallContext and reports anything that escapes from it.
func (x *runner) callContext(def rt.RuntimeContextDef, f func() error) (ctx rt.RuntimeContext, err error, escaped interface{}) {
	defer func() {
		if r := recover(); r != nil {
			escaped = r
		}
	}()
	ctx, err = x.t.CallContext(def, f)
	return
}

func (x *runner) call(o op, idx int) {
	before := snapOf(x.m.Top())
	x.cnt.ops[opCall]++
	frame := x.m.Push(o.def, true)
	d0 := rt.VerifContextDepth(x.r)
	returned, endErr := false, false
	ctx, err, esc := x.callContext(toRTDef(o.def), func() error {
		x.checkAll(idx, o, before)
		if !x.stop {
			endErr = x.runSeq(true)
		}
		returned = true
		if endErr && !x.stop {
			return errSentinel
		}
		return nil
	})
	if x.stop {
		return
	}
	endOp := op{k: opEndOK}
	if endErr {
		endOp.k = opEndErr
	}
	at := x.pos - 1
	if at < idx {
		at = idx
	}
	sigctx := "call" + defClass(o.def) + " on " + before.String()
	if esc != nil {
		if msg, ok := esc.(string); ok && strings.HasPrefix(msg, "ctxmodel") {
			x.violation("harness", "model-invariant "+numRE.ReplaceAllString(msg, "N"), msg, at)
			return
		}
		_, isCTE := esc.(rt.ContextTerminationError)
		x.violation("escape", fmt.Sprintf("escape cte=%v %s", isCTE, sigctx), fmt.Sprintf("%T %v escaped from CallContext (stack depth before the call %d, now %d)", esc, esc, d0, rt.VerifContextDepth(x.r)), at)
		return
	}
	if x.m.Top() != frame {
		x.violation("harness", "frame-mismatch", "internal: the model's top is not the call's frame", at)
		return
	}
	_, isCTE := err.(rt.ContextTerminationError)
	var fin *cm.Ctx
	if returned {
		fin = x.m.Pop(endErr)
		switch {
		case endErr:
			x.cnt.endErr++
		default:
			x.cnt.endOK++
		}
		if endErr && err != errSentinel || !endErr && err != nil {
			x.violation("mismatch", "call-error "+endOp.String()+" "+sigctx, fmt.Sprintf("f returned %v, CallContext returned error %v", map[bool]interface{}{true: errSentinel, false: nil}[endErr], err), at)
			return
		}
	} else {
		x.cnt.endKill++
		endOp = x.ops[at]
		if frame.Status != cm.Killed {
			x.violation("kill", "unexpected-kill "+endOp.class()+" in "+sigctx, fmt.Sprintf("f was terminated (%v) although the operation stays within the limits", err), at)
			return
		}
		fin = x.m.Pop(false)
		if !isCTE {
			x.violation("mismatch", "call-error killed "+sigctx, fmt.Sprintf("the context was terminated but CallContext returned error %v", err), at)
			return
		}
	}
	if d1 := rt.VerifContextDepth(x.r); d1 != d0 {
		x.violation("desync", "depth "+endOp.class()+" "+sigctx, fmt.Sprintf("context stack depth is %d after CallContext, %d before", d1, d0), at)
		return
	}
	x.checkFinished(ctx, fin, at, endOp, "CallContext()")
	x.checkAll(at, endOp, snapOf(fin))
}

// runSeq executes operations until the sequence (or the enclosing call) ends.
func (x *runner) runSeq(inCall bool) (endErr bool) {
	base := x.m.Depth()
	for !x.stop {
		if x.pos >= len(x.ops) {
			if x.gen == nil || len(x.ops) >= x.genN {
				break
			}
			x.ops = append(x.ops, x.gen(x, inCall, base))
		}
		o, idx := x.ops[x.pos], x.pos
		if !x.valid(o, inCall, base) {
			x.invalidAt, x.stop = idx, true
			return false
		}
		x.pos++
		switch o.k {
		case opEndOK, opEndErr:
			x.cnt.ops[o.k]++
			return o.k == opEndErr
		case opCall:
			x.call(o, idx)
		default:
			x.step(o, idx)
		}
	}
	for !x.stop && x.m.Depth() > base {
		x.step(op{k: opPop}, len(x.ops))
	}
	return false
}

var numRE = regexp.MustCompile(`\d+`)

// run executes a history from a pristine root.  root != nil: the runtime is
// created inside that context.
func (x *runner) run(ops []op, root *cm.Def) {
	if root != nil {
		x.fresh(root)
		x.m = cm.NewWithRoot(*root)
	} else {
		x.reset()
		if x.m0 == nil {
			x.m0 = cm.New()
		}
		x.m0.Reset()
		x.m = x.m0
	}
	x.ops, x.pos, x.stop = ops, 0, false
	x.invalidAt, x.violAt, x.trivAt = -1, -1, -1
	x.maxDepth, x.hit = 1, false
	gl.ResetReports()
	func() {
		defer func() {
			if r := recover(); r != nil {
				if _, ok := r.(rt.ContextTerminationError); ok {
					x.violation("escape", "escape toplevel", fmt.Sprintf("ContextTerminationError %v reached the embedder through the harness frames", r), x.pos-1)
				} else {
					x.violation("harness", "model-or-harness-panic "+numRE.ReplaceAllString(fmt.Sprint(r), "N"), fmt.Sprintf("%v", r), x.pos-1)
				}
			}
		}()
		if root != nil {
			x.checkAll(0, op{k: opPush, def: *root}, snap{})
		}
		x.runSeq(false)
	}()
	for _, rep := range gl.TakeReports() {
		if strings.HasPrefix(rep, "wrap") || strings.HasPrefix(rep, "overlimit") {
			h := x.rootPrefix + histString(x.ops)
			x.c.Violation("hook", "hook "+numRE.ReplaceAllString(firstWords(rep, 4), "N"), rep+"\nhistory: "+h, h)
			x.dirty = true
		}
	}
	if x.maxDepth <= maxStack+1 {
		x.cnt.depthH[x.maxDepth]++
	}
	if root != nil {
		x.dirty = true
	}
}

func firstWords(s string, n int) string {
	w := strings.Fields(s)
	if len(w) > n {
		w = w[:n]
	}
	return strings.Join(w, " ")
}
