package c07

import (
	"fmt"
	"math/rand"
	"strconv"
	"strings"

	rt "github.com/arnodel/golua/runtime"

	"verif/internal/gl"
	"verif/internal/vp"
)

// ---------------------------------------------------------------------------
// program shapes

type termKind int

const (
	tRet termKind = iota
	tErr
	tLoop
	tKillNow
	tMemHog
	tPcallLoop
	tCoLoop
)

var termNames = [...]string{"return", "error", "loop", "killnow", "memhog", "pcall-loop", "coroutine-loop"}

type stepKind int

const (
	sBurn stepKind = iota
	sChild
	sPBlock // pcall(function() steps end)
	sCBlock // coroutine.wrap(function() steps with yields between end), resumed to the end
	sStop
	sSoftWait
)

type step struct {
	k     stepKind
	n     int
	child *node
	steps []step
	err   bool // pblock ends with error()
}

type node struct {
	id     int
	K      uint64 // kill.cpu, 0 = inherit
	M      uint64 // kill.memory
	S      uint64 // stop.cpu
	T      uint64 // kill.millis
	flags  []string
	steps  []step
	term   termKind
	ownK   bool
	parent *node

	// prediction
	status   string
	reported bool
	stopReq  bool // stopcontext() executed in this node
	inhStop  bool // created after an enclosing node had stopcontext() executed
	work     uint64
}

type lgen struct {
	r      *rand.Rand
	nextID int
	nodes  []*node
	usesCo bool
}

func (g *lgen) genSteps(n *node, depth, contDepth int, inContainer bool) []step {
	var st []step
	cnt := g.r.Intn(4)
	if !inContainer {
		cnt = g.r.Intn(5)
	}
	for i := 0; i < cnt; i++ {
		w := g.r.Intn(100)
		switch {
		case w < 32:
			st = append(st, step{k: sBurn, n: 1 + g.r.Intn(120)})
		case w < 62:
			if depth > 0 && len(g.nodes) < 14 {
				st = append(st, step{k: sChild, child: g.genNode(n, depth-1)})
			}
		case w < 74:
			if contDepth > 0 {
				st = append(st, step{k: sPBlock, steps: g.genSteps(n, depth, contDepth-1, true), err: g.r.Intn(3) == 0})
			}
		case w < 88:
			if contDepth > 0 {
				g.usesCo = true
				st = append(st, step{k: sCBlock, steps: g.genSteps(n, depth, contDepth-1, true)})
			}
		case w < 94:
			if !inContainer {
				st = append(st, step{k: sStop})
			}
		default:
			if !inContainer && n.S == 0 {
				n.S = uint64(1500 + g.r.Intn(2500))
				st = append(st, step{k: sSoftWait})
			}
		}
	}
	return st
}

func (g *lgen) genNode(parent *node, depth int) *node {
	n := &node{id: g.nextID, parent: parent}
	g.nextID++
	g.nodes = append(g.nodes, n)
	n.ownK = parent == nil || g.r.Intn(2) == 0
	if g.r.Intn(4) == 0 && n.S == 0 {
		n.S = uint64(1500 + g.r.Intn(2500))
	}
	if g.r.Intn(6) == 0 {
		n.T = uint64(1e9) + uint64(g.r.Intn(1e9))
	}
	if g.r.Intn(3) == 0 {
		for _, f := range []string{"cpusafe", "memsafe", "iosafe", "timesafe"} {
			if g.r.Intn(3) == 0 {
				n.flags = append(n.flags, f)
			}
		}
	}
	w := g.r.Intn(100)
	switch {
	case w < 42:
		n.term = tRet
	case w < 57:
		n.term = tErr
	case w < 72:
		n.term = tLoop
	case w < 80:
		n.term = tKillNow
	case w < 88:
		n.term = tMemHog
		n.M = uint64(20000 + g.r.Intn(40000))
	case w < 94:
		n.term = tPcallLoop
	default:
		n.term = tCoLoop
		g.usesCo = true
	}
	if n.term == tMemHog {
		// a context with a small memory limit of its own only computes before it
		// hogs memory: the status prediction relies on cpu margins, not memory margins
		for i := g.r.Intn(3); i > 0; i-- {
			n.steps = append(n.steps, step{k: sBurn, n: 1 + g.r.Intn(120)})
		}
	} else {
		n.steps = g.genSteps(n, depth, 2, false)
	}
	if n.term != tMemHog && parent != nil && g.r.Intn(8) == 0 {
		n.M = uint64(2000000 + g.r.Intn(1000000))
	}
	return n
}

// workOf computes an upper bound of the cpu a node can consume before its
// terminal construct, and fixes the limits bottom-up so that every limit is
// at least 6 times that bound.
func workSteps(st []step) uint64 {
	var w uint64
	for _, s := range st {
		switch s.k {
		case sBurn:
			w += uint64(8*s.n) + 40
		case sChild:
			c := s.child
			assignWork(c)
			w += 900
			if c.K > 0 {
				w += c.K
			} else {
				w += c.work
			}
		case sPBlock:
			w += 200 + workSteps(s.steps)
		case sCBlock:
			w += 400 + 120*uint64(len(s.steps)) + workSteps(s.steps)
		case sStop:
			w += 60
		case sSoftWait:
			w += 200
		}
	}
	return w
}

func assignWork(n *node) {
	n.work = 600 + workSteps(n.steps)
	if n.S > 0 {
		n.work += n.S + 300 // a soft-wait loop runs until used >= S
	}
	if n.term == tMemHog {
		n.work += 3000
	}
	if n.ownK {
		n.K = n.work * 6
	}
}

// ---------------------------------------------------------------------------
// prediction from the shape (the "nest model")

type predEvent struct {
	id     int
	status string
}

type predictor struct {
	events []predEvent
}

// evalSteps returns true when the enclosing node's cpu budget is exhausted.
func (p *predictor) evalSteps(owner *node, st []step) bool {
	for _, s := range st {
		switch s.k {
		case sChild:
			c := s.child
			c.inhStop = owner.stopReq || owner.inhStop
			exhaust := p.evalNode(c)
			if exhaust {
				return true
			}
			c.reported = true
			p.events = append(p.events, predEvent{c.id, c.status})
		case sPBlock, sCBlock:
			if p.evalSteps(owner, s.steps) {
				return true
			}
		case sStop:
			owner.stopReq = true
		}
	}
	return false
}

// evalNode sets n.status; returns true when n's end exhausts its parent's
// cpu budget (n inherited all of it and was killed by the cpu limit).
func (p *predictor) evalNode(n *node) bool {
	if p.evalSteps(n, n.steps) {
		n.status = "killed"
		return n.K == 0
	}
	switch n.term {
	case tRet:
		n.status = "done"
	case tErr:
		n.status = "error"
	case tLoop, tPcallLoop, tCoLoop:
		n.status = "killed"
		return n.K == 0
	case tKillNow, tMemHog:
		n.status = "killed"
	}
	return false
}

// ---------------------------------------------------------------------------
// rendering

const prelude = `local rtm = runtime
local function burn(n) local x = 0 for i = 1, n do x = x + i end return x end
local function view()
  local c = rtm.context()
  local k, u = c.kill, c.used
  return u.cpu or 0, k.cpu or 0, u.memory or 0, k.memory or 0, k.millis or 0, c.flags
end
local function rep(id, c, r, ub, ua, mb, ma, pk, pkm, pkt, pf, d0, d1)
  local k, s, u = c.kill, c.stop, c.used
  c07rep(id, c, c.status, k.cpu or 0, k.memory or 0, k.millis or 0, s.cpu or 0, s.memory or 0, u.cpu or 0, u.memory or 0, c.due, c.flags, r, ub, ua, mb, ma, pk, pkm, pkt, pf, d0, d1)
end
`

func (n *node) defText() string {
	var parts []string
	var kill []string
	if n.K > 0 {
		kill = append(kill, "cpu="+strconv.FormatUint(n.K, 10))
	}
	if n.M > 0 {
		kill = append(kill, "memory="+strconv.FormatUint(n.M, 10))
	}
	if n.T > 0 {
		kill = append(kill, "millis="+strconv.FormatUint(n.T, 10))
	}
	if len(kill) > 0 {
		parts = append(parts, "kill={"+strings.Join(kill, ", ")+"}")
	}
	if n.S > 0 {
		parts = append(parts, "stop={cpu="+strconv.FormatUint(n.S, 10)+"}")
	}
	if len(n.flags) > 0 {
		parts = append(parts, `flags="`+strings.Join(n.flags, " ")+`"`)
	}
	return "{" + strings.Join(parts, ", ") + "}"
}

func renderSteps(b *strings.Builder, st []step, ind string, inCo bool) {
	for i, s := range st {
		if inCo && i > 0 {
			b.WriteString(ind + "coroutine.yield()\n")
		}
		switch s.k {
		case sBurn:
			fmt.Fprintf(b, "%sburn(%d)\n", ind, s.n)
		case sChild:
			renderCall(b, s.child, ind)
		case sPBlock:
			b.WriteString(ind + "pcall(function()\n")
			renderSteps(b, s.steps, ind+"  ", false)
			if s.err {
				b.WriteString(ind + "  error(\"pe\", 0)\n")
			}
			b.WriteString(ind + "end)\n")
		case sCBlock:
			b.WriteString(ind + "do local co = coroutine.wrap(function()\n")
			renderSteps(b, s.steps, ind+"    ", true)
			b.WriteString(ind + "    return \"fin\"\n")
			b.WriteString(ind + "  end)\n")
			b.WriteString(ind + "  repeat burn(3) until co() == \"fin\"\n")
			b.WriteString(ind + "end\n")
		case sStop:
			b.WriteString(ind + "rtm.stopcontext()\n")
		case sSoftWait:
			b.WriteString(ind + "while not rtm.contextdue() do end\n")
		}
	}
}

func renderBody(b *strings.Builder, n *node, ind string) {
	renderSteps(b, n.steps, ind, false)
	switch n.term {
	case tRet:
		fmt.Fprintf(b, "%sreturn %d\n", ind, n.id*7+1)
	case tErr:
		fmt.Fprintf(b, "%serror(\"E%d\", 0)\n", ind, n.id)
	case tLoop:
		b.WriteString(ind + "while true do end\n")
	case tKillNow:
		b.WriteString(ind + "rtm.killcontext()\n")
	case tMemHog:
		b.WriteString(ind + "local s = \"0123456789abcdef\"\n" + ind + "while true do s = s .. s end\n")
	case tPcallLoop:
		b.WriteString(ind + "pcall(function() while true do end end)\n" + ind + "return 0\n")
	case tCoLoop:
		b.WriteString(ind + "coroutine.wrap(function() while true do end end)()\n" + ind + "return 0\n")
	}
}

func renderCall(b *strings.Builder, n *node, ind string) {
	fmt.Fprintf(b, "%sdo local ub, pk, mb, pkm, pkt, pf = view(); local d0 = depth()\n", ind)
	fmt.Fprintf(b, "%s  local c, r = rtm.callcontext(%s, function()\n", ind, n.defText())
	renderBody(b, n, ind+"    ")
	fmt.Fprintf(b, "%s  end)\n", ind)
	fmt.Fprintf(b, "%s  local d1 = depth(); local ua, _, ma = view()\n", ind)
	fmt.Fprintf(b, "%s  rep(%d, c, r, ub, ua, mb, ma, pk, pkm, pkt, pf, d0, d1)\n%send\n", ind, n.id, ind)
}

// ---------------------------------------------------------------------------
// the host side

type luaEvent struct {
	id                              int
	ctx                             rt.RuntimeContext
	status                          string
	killCpu, killMem, killMs        uint64
	stopCpu, stopMem                uint64
	usedCpu, usedMem                uint64
	due                             bool
	flags                           string
	res                             rt.Value
	ub, ua, mb, ma, pk, pkm, pkt    uint64
	pf                              string
	d0, d1                          int64
	bad                             string
}

type luaHost struct {
	s      *gl.Sess
	events []luaEvent
}

const allSafe = rt.ComplyCpuSafe | rt.ComplyMemSafe | rt.ComplyTimeSafe | rt.ComplyIoSafe

func numArg(v rt.Value) uint64 {
	if n, ok := v.TryInt(); ok {
		return uint64(n)
	}
	if f, ok := v.TryFloat(); ok {
		return uint64(f)
	}
	return 0
}

func newLuaHost() *luaHost {
	h := &luaHost{s: gl.NewSess(gl.Options{})}
	h.s.BareCall = true // templates run at the runtime's top level, like an embedder's rt.Call
	r := h.s.R
	r.SetEnvGoFunc(r.GlobalEnv(), "depth", func(t *rt.Thread, c *rt.GoCont) (rt.Cont, error) {
		return c.PushingNext1(t.Runtime, rt.IntValue(int64(rt.VerifContextDepth(t.Runtime)))), nil
	}, 0, false).SolemnlyDeclareCompliance(allSafe)
	r.SetEnvGoFunc(r.GlobalEnv(), "c07rep", func(t *rt.Thread, c *rt.GoCont) (rt.Cont, error) {
		a := c.Etc()
		var e luaEvent
		if len(a) < 23 {
			e.bad = fmt.Sprintf("c07rep got %d arguments", len(a))
			h.events = append(h.events, e)
			return c.Next(), nil
		}
		e.id = int(numArg(a[0]))
		if u, ok := a[1].TryUserData(); ok {
			e.ctx, _ = u.Value().(rt.RuntimeContext)
		}
		e.status, _ = a[2].TryString()
		e.killCpu, e.killMem, e.killMs = numArg(a[3]), numArg(a[4]), numArg(a[5])
		e.stopCpu, e.stopMem = numArg(a[6]), numArg(a[7])
		e.usedCpu, e.usedMem = numArg(a[8]), numArg(a[9])
		e.due = rt.Truth(a[10])
		e.flags, _ = a[11].TryString()
		e.res = a[12]
		e.ub, e.ua, e.mb, e.ma = numArg(a[13]), numArg(a[14]), numArg(a[15]), numArg(a[16])
		e.pk, e.pkm, e.pkt = numArg(a[17]), numArg(a[18]), numArg(a[19])
		e.pf, _ = a[20].TryString()
		e.d0, e.d1 = int64(numArg(a[21])), int64(numArg(a[22]))
		h.events = append(h.events, e)
		return c.Next(), nil
	}, 0, true).SolemnlyDeclareCompliance(allSafe)
	return h
}

func flagSet(s string) map[string]bool {
	m := map[string]bool{}
	for _, f := range strings.Fields(s) {
		m[f] = true
	}
	return m
}

const memSlack = 4096

// checkEvent applies the property's clauses to one reported context.
func checkEvent(e *luaEvent, n *node) []string {
	var bad []string
	f := func(format string, a ...interface{}) { bad = append(bad, fmt.Sprintf(format, a...)) }
	if e.status != n.status {
		f("status: ctx.status is %q, the call really ended %q (terminal construct: %s)", e.status, n.status, termNames[n.term])
	}
	// hard limits: never more than requested, never more than the parent has left
	if n.K > 0 && (e.killCpu == 0 || e.killCpu > n.K) {
		f("kill.cpu: %d exceeds the requested %d", e.killCpu, n.K)
	}
	if e.pk > 0 && (e.killCpu == 0 || e.ub >= e.pk || e.killCpu > e.pk-e.ub) {
		f("kill.cpu: %d exceeds what the parent had left (kill %d - used %d)", e.killCpu, e.pk, e.ub)
	}
	if n.K == 0 && e.pk == 0 && e.killCpu != 0 {
		f("kill.cpu: %d although neither the parent nor the definition has a cpu limit", e.killCpu)
	}
	if n.M > 0 && (e.killMem == 0 || e.killMem > n.M) {
		f("kill.memory: %d exceeds the requested %d", e.killMem, n.M)
	}
	if e.pkm > 0 && (e.killMem == 0 || e.killMem > e.pkm) {
		f("kill.memory: %d exceeds the parent's limit %d", e.killMem, e.pkm)
	}
	if n.T > 0 && (e.killMs == 0 || e.killMs > n.T) {
		f("kill.millis: %d exceeds the requested %d", e.killMs, n.T)
	}
	if e.pkt > 0 && (e.killMs == 0 || e.killMs > e.pkt) {
		f("kill.millis: %d exceeds the parent's limit %d", e.killMs, e.pkt)
	}
	// soft <= hard, soft <= requested
	if e.killCpu > 0 && (e.stopCpu == 0 || e.stopCpu > e.killCpu) {
		f("stop.cpu: %d exceeds kill.cpu %d", e.stopCpu, e.killCpu)
	}
	if e.killMem > 0 && (e.stopMem == 0 || e.stopMem > e.killMem) {
		f("stop.memory: %d exceeds kill.memory %d", e.stopMem, e.killMem)
	}
	if n.S > 0 && (e.stopCpu == 0 || e.stopCpu > n.S) {
		f("stop.cpu: %d exceeds the requested %d", e.stopCpu, n.S)
	}
	// used < kill
	if e.killCpu > 0 && e.usedCpu >= e.killCpu {
		f("used>=kill.cpu: used.cpu %d has reached kill.cpu %d", e.usedCpu, e.killCpu)
	}
	if e.killMem > 0 && e.usedMem >= e.killMem {
		f("used>=kill.memory: used.memory %d has reached kill.memory %d", e.usedMem, e.killMem)
	}
	// conservation: what the child used was charged to the parent
	if e.pk > 0 && e.ua < e.ub+e.usedCpu {
		f("conservation: parent's used cpu went from %d to %d while the child used %d", e.ub, e.ua, e.usedCpu)
	}
	if e.pkm > 0 && e.ma+memSlack < e.mb+e.usedMem {
		f("conservation: parent's used memory went from %d to %d while the child used %d", e.mb, e.ma, e.usedMem)
	}
	// due
	reached := (e.stopCpu > 0 && e.usedCpu >= e.stopCpu) || (e.stopMem > 0 && e.usedMem >= e.stopMem)
	switch {
	case n.stopReq || reached:
		if !e.due {
			f("due: false although %s", map[bool]string{true: "stopcontext() was called in it", false: fmt.Sprintf("used (cpu %d, mem %d) has reached stop (cpu %d, mem %d)", e.usedCpu, e.usedMem, e.stopCpu, e.stopMem)}[n.stopReq])
		}
	case n.inhStop || n.term == tKillNow:
		// not fixed by the contract
	default:
		if e.due {
			f("due: true although no stop was requested and used (cpu %d, mem %d) is below stop (cpu %d, mem %d)", e.usedCpu, e.usedMem, e.stopCpu, e.stopMem)
		}
	}
	// flags
	have := flagSet(e.flags)
	want := flagSet(e.pf)
	for _, fl := range n.flags {
		want[fl] = true
	}
	if n.K > 0 {
		want["cpusafe"] = true
	}
	if n.M > 0 {
		want["memsafe"] = true
	}
	if n.T > 0 {
		want["timesafe"] = true
	}
	for fl := range want {
		if !have[fl] {
			f("flags: %q lacks %s (parent's %q + requested %v + implied by the limits)", e.flags, fl, e.pf, n.flags)
		}
	}
	if e.d0 != e.d1 {
		f("depth: context stack depth %d after runtime.callcontext, %d before", e.d1, e.d0)
	}
	// results
	switch n.status {
	case "done":
		if v, ok := e.res.TryInt(); n.term == tRet && (!ok || v != int64(n.id*7+1)) {
			f("result: the call returned %d, callcontext delivered %v", n.id*7+1, e.res)
		}
	case "error":
		if s, ok := e.res.TryString(); !ok || s != fmt.Sprintf("E%d", n.id) {
			f("result: the call raised %q, callcontext delivered %v", fmt.Sprintf("E%d", n.id), e.res)
		}
	}
	// the Lua view and the Go view of the same object agree
	if e.ctx != nil {
		if st := e.ctx.Status().String(); st != e.status {
			f("status: Lua sees %q, the Go object says %q", e.status, st)
		}
		if u := e.ctx.UsedResources(); u.Cpu != e.usedCpu || e.ctx.HardLimits().Cpu != e.killCpu {
			f("lua-vs-go: Lua view (used %d kill %d) differs from the Go object (used %d kill %d)", e.usedCpu, e.killCpu, u.Cpu, e.ctx.HardLimits().Cpu)
		}
	}
	return bad
}

func clauseOf(msg string) string {
	if i := strings.IndexByte(msg, ':'); i > 0 && i < 24 {
		return msg[:i]
	}
	w := strings.Fields(msg)
	if len(w) > 2 {
		w = w[:2]
	}
	return strings.Join(w, " ")
}

// ---------------------------------------------------------------------------

type luaCase struct {
	text   string
	root   *node
	nodes  []*node
	pred   []predEvent
	L0     uint64
	M0     uint64
	usesCo bool
	class  string // "nest" or a desync template name
	expect string // for templates: nothing predicted, generic clauses only
}

func genLuaCase(seed int64) *luaCase {
	g := &lgen{r: rand.New(rand.NewSource(seed))}
	root := g.genNode(nil, 2+g.r.Intn(2))
	root.flags = nil
	root.T = 0
	if root.term == tMemHog {
		root.term = tLoop
		root.M = 0
	}
	root.M = 0
	memLimit := uint64(256 << 20)
	if g.usesCo {
		// golua's Thread.end gives back the coroutine's 2 kB after control has
		// returned to the resumer, i.e. in whatever context is current by then
		// (DESIGN section 8 #2/#15, judged by C06/C09): with a memory limit in
		// force that ends the process ("Too much mem released").  Programs with
		// coroutines therefore run without memory limits.
		memLimit = 0
		for _, n := range g.nodes {
			n.M = 0
			if n.term == tMemHog {
				n.term = tLoop
			}
		}
	}
	assignWork(root)
	p := &predictor{}
	p.evalNode(root)
	var b strings.Builder
	fmt.Fprintf(&b, "-- c07 lua seed=%d\n", seed)
	b.WriteString(prelude)
	renderBody(&b, root, "")
	return &luaCase{text: b.String(), root: root, nodes: g.nodes, pred: p.events, L0: root.K, M0: memLimit, usesCo: g.usesCo, class: "nest"}
}

// desync templates: a coroutine yields while a context opened on ITS Go stack
// is active, and the resumer leaves (or enters) a context of its own meanwhile.
var desyncTemplates = []struct{ name, body string }{
	// the resumer is inside a callcontext and leaves it while the coroutine is suspended inside pcall
	{"yield-in-pcall-then-leave", `
local kb, d0 = rtm.context().kill.cpu or 0, depth()
local c = rtm.callcontext({kill={cpu=K}}, function()
  local co = coroutine.wrap(function() pcall(coroutine.yield) end)
  co()
  return 1
end)
trep(c, nil, kb, rtm.context().kill.cpu or 0, d0, depth())
`},
	// the same with a limited context opened by the coroutine
	{"yield-in-callcontext-then-leave", `
local kb, d0 = rtm.context().kill.cpu or 0, depth()
local c = rtm.callcontext({kill={cpu=K}}, function()
  local co = coroutine.wrap(function() rtm.callcontext({kill={cpu=500}}, coroutine.yield) end)
  co()
  return 1
end)
trep(c, nil, kb, rtm.context().kill.cpu or 0, d0, depth())
`},
	// a coroutine suspended inside a pcall made OUTSIDE the limited context is resumed inside it
	{"resume-pending-pcall-inside", `
local co = coroutine.wrap(function() pcall(function() coroutine.yield() end) end)
co()
local kb, d0 = rtm.context().kill.cpu or 0, depth()
local inside
local c = rtm.callcontext({kill={cpu=K}}, function()
  co()
  inside = rtm.context().kill.cpu or 0
  return 1
end)
trep(c, inside, kb, rtm.context().kill.cpu or 0, d0, depth())
`},
	// the coroutine opens a context with a large limit, yields, is resumed from inside a small
	// context that then ends, and is resumed again: its own context dies under the stale small limit
	{"resume-after-leave", `
local inner
local T = coroutine.create(function()
  inner = rtm.callcontext({kill={cpu=K*100}}, function()
    coroutine.yield("y1")
    local x = 0
    for i = 1, K do x = x + i end
    return x
  end)
end)
local kb, d0 = rtm.context().kill.cpu or 0, depth()
local c = rtm.callcontext({kill={cpu=K}}, function() coroutine.resume(T) return 1 end)
local ka, d1 = rtm.context().kill.cpu or 0, depth()
pcall(coroutine.resume, T)
trep(c, inner and ("inner:" .. inner.status .. ":" .. (inner.used.cpu or 0)), kb, ka, d0, d1)
`},
	// no context of the resumer's involved: after the coroutine yielded inside its callcontext the
	// top-level code runs under that context's limit
	{"yield-in-callcontext-resumer-at-top", `
local T = coroutine.wrap(function() rtm.callcontext({kill={cpu=K}}, coroutine.yield) end)
local kb, d0 = rtm.context().kill.cpu or 0, depth()
T()
trep(nil, nil, kb, rtm.context().kill.cpu or 0, d0, depth())
`},
}

const templatePrelude = `
local function trep(c, r, kb, ka, d0, d1)
  c07rep(0, c, c and c.status or "none", c and (c.kill.cpu or 0) or K, 0, 0, 0, 0, c and (c.used.cpu or 0) or 0, 0, c and c.due or false, c and c.flags or "", r, 0, 0, 0, 0, kb, ka, 0, "", d0, d1)
end
`

func genDesyncCase(i int, r *rand.Rand) *luaCase {
	t := desyncTemplates[i%len(desyncTemplates)]
	K := uint64(5000 + r.Intn(20000))
	n := &node{id: 0, K: K, ownK: true, term: tRet, status: "done"}
	text := fmt.Sprintf("-- c07 lua template=%s K=%d\nlocal K = %d\n", t.name, K, K) + prelude + templatePrelude + t.body
	return &luaCase{text: text, root: n, nodes: []*node{n}, L0: 0, class: t.name}
}

func (h *luaHost) runCase(c *vp.Child, lc *luaCase, idx int) (ok bool) {
	s := h.s
	h.events = h.events[:0]
	s.Trace = nil
	clos, out := s.Compile("c07", lc.text)
	if out != nil {
		c.Violation("harness", "lua-compile", out.ErrMsg+out.PanicMsg, lc.text)
		return false
	}
	d0 := rt.VerifContextDepth(s.R)
	viol := func(kind, sig, detail string) {
		ok = false
		c.Violation(kind, sig, detail, lc.text)
	}
	ok = true
	if lc.class != "nest" {
		// template: run at the top level and apply the generic clauses
		o := s.Call(rt.FunctionValue(clos), nil)
		d1 := rt.VerifContextDepth(s.R)
		c.Eval(1)
		var sym []string
		if o.Kind != gl.OK {
			sym = append(sym, fmt.Sprintf("the chunk ended %s (%s%s)", o.Kind, o.ErrMsg, o.PanicMsg))
		}
		if d1 != d0 {
			sym = append(sym, fmt.Sprintf("context stack depth %d after the chunk, %d before", d1, d0))
		}
		if len(h.events) == 0 {
			sym = append(sym, "the chunk did not get to its report")
		}
		for i := range h.events {
			e := &h.events[i]
			if e.d0 != e.d1 {
				sym = append(sym, fmt.Sprintf("context stack depth %d after the call returned, %d before", e.d1, e.d0))
			}
			if e.pk != e.pkm {
				sym = append(sym, fmt.Sprintf("the active context's kill.cpu is %d after the call returned, %d before (0 = unlimited): the caller now runs in somebody else's context", e.pkm, e.pk))
			}
			if e.killCpu != lc.root.K {
				sym = append(sym, fmt.Sprintf("the context returned by runtime.callcontext({kill={cpu=%d}}, f) has kill.cpu=%d: it is not the context f ran in", lc.root.K, e.killCpu))
			}
			if in, isInt := e.res.TryInt(); isInt && uint64(in) != lc.root.K && lc.class == "resume-pending-pcall-inside" {
				sym = append(sym, fmt.Sprintf("inside runtime.callcontext({kill={cpu=%d}}, f), after resuming the coroutine, f runs under kill.cpu=%d (0 = unlimited)", lc.root.K, in))
			}
			if rs, isStr := e.res.TryString(); isStr && strings.HasPrefix(rs, "inner:killed") {
				sym = append(sym, fmt.Sprintf("the coroutine's own context (kill.cpu=%d) ended %s (status:used): it was killed by the stale limit %d of a context that had already returned", lc.root.K*100, rs, lc.root.K))
			}
		}
		c.Feature("template/"+lc.class, 1)
		if len(sym) > 0 {
			c.Feature("template-fired/"+lc.class, 1)
			viol("desync", "lua coroutine-yield-across-context "+lc.class, strings.Join(sym, "\n"))
		}
		return false // the runtime's context stack cannot be trusted after these
	}
	def := rt.RuntimeContextDef{HardLimits: rt.RuntimeResources{Cpu: lc.L0, Memory: lc.M0}, SoftLimits: rt.RuntimeResources{Cpu: lc.root.S}}
	o := s.CallInContext(def, rt.FunctionValue(clos), nil)
	d1 := rt.VerifContextDepth(s.R)
	c.Eval(int64(1 + len(h.events)))
	byID := map[int]*node{}
	for _, n := range lc.nodes {
		byID[n.id] = n
	}
	shape := "root:" + termNames[lc.root.term]
	if o.Kind == gl.Panic {
		viol("panic", "lua panic "+numRE.ReplaceAllString(firstWords(o.PanicMsg, 6), "N"), o.PanicMsg+"\n"+o.Stack)
		return
	}
	if d1 != d0 {
		viol("desync", "lua depth after-program "+shape, fmt.Sprintf("context stack depth %d after the program, %d before", d1, d0))
	}
	if o.CtxStatus != lc.root.status {
		viol("mismatch", "lua status root "+shape+" got:"+o.CtxStatus, fmt.Sprintf("the outermost context ended %q, the program's shape gives %q (%s)", o.CtxStatus, lc.root.status, o.ErrMsg))
	}
	if o.UsedCPU >= lc.L0 {
		viol("mismatch", "lua used>=kill root", fmt.Sprintf("outermost context: used cpu %d has reached the limit %d", o.UsedCPU, lc.L0))
	}
	// sequence of reported contexts
	for i := 0; i < len(h.events) || i < len(lc.pred); i++ {
		switch {
		case i >= len(h.events):
			n := byID[lc.pred[i].id]
			viol("mismatch", "lua missing-report "+termNames[n.term], fmt.Sprintf("context #%d (%s) should have been reported %q by its parent, which should still be running; %d of %d reports arrived", n.id, termNames[n.term], n.status, len(h.events), len(lc.pred)))
			return
		case i >= len(lc.pred):
			viol("mismatch", "lua extra-report", fmt.Sprintf("context #%d reported %q although its parent should have been killed before", h.events[i].id, h.events[i].status))
			return
		case h.events[i].bad != "":
			viol("harness", "lua bad-report", h.events[i].bad)
			return
		case h.events[i].id != lc.pred[i].id:
			viol("mismatch", "lua report-order", fmt.Sprintf("report %d is for context #%d, expected #%d", i, h.events[i].id, lc.pred[i].id))
			return
		}
		e := &h.events[i]
		n := byID[e.id]
		for _, msg := range checkEvent(e, n) {
			viol("mismatch", "lua "+clauseOf(msg)+" term:"+termNames[n.term], fmt.Sprintf("context #%d %s: %s", n.id, n.defText(), msg))
		}
		if e.killCpu > 0 && n.status != "killed" {
			pm := int64(e.usedCpu * 1000 / e.killCpu)
			if pm > maxPermille {
				maxPermille = pm
			}
		}
		c.Feature("lua-status/"+e.status, 1)
		c.Feature("lua-term/"+termNames[n.term], 1)
		if e.due {
			c.Feature("lua-due/true", 1)
		}
	}
	for _, r := range o.Reports {
		if strings.HasPrefix(r, "wrap") || strings.HasPrefix(r, "overlimit") {
			viol("hook", "hook "+numRE.ReplaceAllString(firstWords(r, 4), "N"), r)
		} else {
			c.Feature("hook-report/"+firstWords(r, 1), 1)
		}
	}
	c.Feature("lua-root/"+o.CtxStatus, 1)
	return
}

var maxPermille int64

func runLua(c *vp.Child) {
	h := newLuaHost()
	defer func() { h.s.Close() }()
	n := c.Pick(3000, 40000) / c.NB
	seedR := c.Rand("lua")
	for i := 0; i < n; i++ {
		seed := seedR.Int63()
		lc := genLuaCase(seed)
		c.Begin(fmt.Sprintf("lua %d seed %d", i, seed), lc.text)
		ok := h.runCase(c, lc, i)
		nKilled, depthMax := 0, 0
		for _, e := range h.events {
			if e.status == "killed" || e.due {
				nKilled++ // a hard limit (or kill) or a soft limit (or stop) was reached
			}
		}
		for _, nd := range lc.nodes {
			d := 0
			for p := nd; p != nil; p = p.parent {
				d++
			}
			if d > depthMax {
				depthMax = d
			}
		}
		if ok && depthMax >= 2 && nKilled > 0 {
			c.NonTrivial(vp.Hash("lua", lc.text))
			if c.WantSample() && i%13 == 5 && len(lc.text) < 3000 {
				var ev []string
				for _, e := range h.events {
					ev = append(ev, fmt.Sprintf("#%d %s kill.cpu=%d stop.cpu=%d used.cpu=%d due=%v flags=%q parent used %d->%d", e.id, e.status, e.killCpu, e.stopCpu, e.usedCpu, e.due, e.flags, e.ub, e.ua))
				}
				c.Sample(map[string]interface{}{"stage": "lua", "program": lc.text, "outermost_limit": lc.L0, "outermost_status": lc.root.status, "reported_contexts": ev})
			}
		}
		if !ok || lc.usesCo || i%200 == 199 {
			// (a finished coroutine's goroutine may still touch the runtime's
			// memory accounting after control is back here - DESIGN section 8 #2 -
			// so a session that ran coroutines is not reused)
			h.s.Close()
			h = newLuaHost()
		}
	}
	// templates for yields across a context boundary
	r := c.Rand("desync")
	for i := 0; i < len(desyncTemplates)*c.Pick(1, 4); i++ {
		lc := genDesyncCase(i, r)
		c.Begin(fmt.Sprintf("lua template %s", lc.class), lc.text)
		h.s.Close()
		h = newLuaHost()
		h.runCase(c, lc, i)
	}
	c.Output("max_used_permille", strconv.FormatInt(maxPermille, 10))
	if maxPermille > 0 {
		c.Feature(fmt.Sprintf("finite-contexts-used-at-most-permille-of-limit/%04d", (maxPermille/50+1)*50), 1)
	}
}

func replayLua(c *vp.Child, input string) {
	first := input
	if i := strings.IndexByte(input, '\n'); i >= 0 {
		first = input[:i]
	}
	h := newLuaHost()
	defer func() { h.s.Close() }()
	var lc *luaCase
	switch {
	case strings.Contains(first, "seed="):
		seed, _ := strconv.ParseInt(strings.TrimSpace(first[strings.Index(first, "seed=")+5:]), 10, 64)
		lc = genLuaCase(seed)
	case strings.Contains(first, "template="):
		f := strings.Fields(first[strings.Index(first, "template=")+9:])
		for i, t := range desyncTemplates {
			if len(f) > 0 && t.name == f[0] {
				lc = genDesyncCase(i, rand.New(rand.NewSource(1)))
			}
		}
	}
	if lc == nil {
		fmt.Println("cannot rebuild the case from its header:", first)
		return
	}
	h.runCase(c, lc, 0)
	for _, e := range h.events {
		fmt.Printf("   #%d %s kill.cpu=%d used.cpu=%d due=%v depth %d->%d\n", e.id, e.status, e.killCpu, e.usedCpu, e.due, e.d0, e.d1)
	}
}
