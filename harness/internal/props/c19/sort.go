package c19

import (
	"fmt"
	"math"
	"math/rand"
	"os"
	"sort"

	rt "github.com/arnodel/golua/runtime"

	"verif/internal/gl"
	sm "verif/internal/strmodel"
	"verif/internal/vp"
)

// The sort driver: builds the comparator named by mode and sorts t, either
// directly or inside a coroutine that is resumed until it finishes.
//
// results: "sorted" | "coerror", number of comparator calls, number of resumes
const sortChunk = `local t, mode, k, seed, co = ...
local calls = 0
local cmp
if mode == "default" then cmp = nil
elseif mode == "lt" then cmp = function(a, b) calls = calls + 1 return a < b end
elseif mode == "gt" then cmp = function(a, b) calls = calls + 1 return a > b end
elseif mode == "key" then cmp = function(a, b) calls = calls + 1 return a.k < b.k end
elseif mode == "truthy" then cmp = function(a, b) calls = calls + 1 if a < b then return 0 end return nil end
elseif mode == "novalue" then cmp = function(a, b) calls = calls + 1 if a < b then return true end end
elseif mode == "novalue-gt" then cmp = function(a, b) calls = calls + 1 if a > b then return 1, 2, 3 end return end
elseif mode == "false" then cmp = function(a, b) calls = calls + 1 return false end
elseif mode == "true" then cmp = function(a, b) calls = calls + 1 return true end
elseif mode == "le" then cmp = function(a, b) calls = calls + 1 return a <= b end
elseif mode == "rand" then
  local s = seed
  cmp = function(a, b)
    calls = calls + 1
    s = (s * 1103515245 + 12345) % 2147483648
    return (s // 65536) % 2 == 0
  end
elseif mode == "err" then
  cmp = function(a, b)
    calls = calls + 1
    if calls == k then error("boom", 0) end
    return a < b
  end
elseif mode == "errnum" then
  cmp = function(a, b)
    calls = calls + 1
    if calls == k then error(42, 0) end
    return a < b
  end
elseif mode == "yield" then
  cmp = function(a, b)
    calls = calls + 1
    if calls % k == 0 then coroutine.yield(calls) end
    return a < b
  end
else error("unknown mode " .. tostring(mode)) end
if not co then
  if cmp == nil then table.sort(t) else table.sort(t, cmp) end
  return "sorted", calls, 0
end
local th = coroutine.create(function() table.sort(t, cmp) return "sorted" end)
local resumes = 0
while true do
  local ok, v = coroutine.resume(th)
  resumes = resumes + 1
  if not ok then return "coerror", calls, resumes, v end
  if coroutine.status(th) == "dead" then return v, calls, resumes end
end`

func sortBudget(n int) uint64 {
	return uint64(1000*float64(n)*math.Log2(float64(n)+2)) + 100000
}

// comparator classes
var (
	consistentModes   = map[string]bool{"default": true, "lt": true, "gt": true, "key": true, "truthy": true, "false": true, "novalue": true, "novalue-gt": true}
	inconsistentModes = map[string]bool{"true": true, "le": true, "rand": true}
)

// modelLess is the order the comparator mode defines (consistent modes only).
func modelLess(mode string, keyOf func(sm.V) sm.V) func(a, b sm.V) bool {
	switch mode {
	case "default", "lt", "truthy", "novalue":
		return func(a, b sm.V) bool { l, _ := sm.Less(a, b); return l }
	case "gt", "novalue-gt":
		return func(a, b sm.V) bool { l, _ := sm.Less(b, a); return l }
	case "key":
		return func(a, b sm.V) bool { l, _ := sm.Less(keyOf(a), keyOf(b)); return l }
	}
	return func(a, b sm.V) bool { return false } // "false": everything is equivalent
}

// comparable reports whether < is defined on every pair of elements.
func comparable(vs []sm.V) bool {
	if len(vs) == 0 {
		return true
	}
	num := func(v sm.V) bool { return v.K == sm.Int || v.K == sm.Float }
	for _, v := range vs {
		switch {
		case num(v) && num(vs[0]):
		case v.K == sm.Str && vs[0].K == sm.Str:
		default:
			return false
		}
		if v.K == sm.Float && v.F != v.F {
			return false
		}
	}
	return true
}

// runSort executes one sort case.  cs.Tabs[0] holds the sequence; for mode
// "key" element i is a fresh table {k = value} (identity tracked here).
func (r *runner) runSort(cs *Case) {
	r.c.Begin("table.sort", caseJSON(cs))
	r.c.Eval(1)
	r.ncalls++
	if r.ncalls%500 == 0 {
		r.reset()
	}
	r.confirmed(func() { r.execSort(cs) })
}

func (r *runner) execSort(cs *Case) {
	c := r.c
	ts := &cs.Tabs[0]
	n := len(ts.Keys)
	elems := make([]sm.V, n) // model view of the elements
	for i := range ts.Keys {
		elems[i] = ts.Vals[i].V()
	}
	// real table
	keyTabs := map[*rt.Table]int{}
	b := rt.NewTable()
	for i, v := range elems {
		rv := r.toRT(v)
		if cs.Mode == "key" {
			kt := rt.NewTable()
			kt.Set(rt.StringValue("k"), rv)
			kt.Set(rt.StringValue("id"), rt.IntValue(int64(i)))
			keyTabs[kt] = i
			rv = rt.TableValue(kt)
		}
		b.Set(rt.IntValue(int64(i+1)), rv)
	}
	arg := rt.TableValue(b)
	var empties []*rt.Table
	if ts.Kind != kPlain {
		vals, err := r.callRaw(r.mkproxy, arg, rt.IntValue(int64(ts.Kind)), rt.IntValue(ts.L))
		if err != nil || len(vals) == 0 {
			r.violation(cs, "harness", "cannot build the proxy", fmt.Sprint(err))
			r.reset()
			return
		}
		arg = vals[0]
		for _, v := range vals {
			if tt, ok := v.TryTable(); ok {
				empties = append(empties, tt)
			}
		}
	}
	budget := sortBudget(n)
	r.sess.Trace = nil
	r.sess.Out.Reset()
	out := r.sess.CallInContext(r.def(budget), r.sortdrv,
		[]rt.Value{arg, rt.StringValue(cs.Mode), rt.IntValue(cs.K), rt.IntValue(cs.Seed), rt.BoolValue(cs.Co)})
	switch out.Kind {
	case gl.Killed:
		r.dirty = true
	case gl.Panic:
		defer r.reset()
	}
	if os.Getenv("VERIF_C19_TRACE") != "" {
		fmt.Fprintf(os.Stderr, "sort n=%d mode=%s k=%d co=%v kind=%d -> %s\n", n, cs.Mode, cs.K, cs.Co, ts.Kind, brief(out))
	}
	c.Feature("sort-mode/"+cs.Mode, 1)
	c.Feature("sort-outcome/"+cs.Mode+"/"+out.Kind, 1)
	c.Feature("sort-cpu/"+cs.Mode, int64(out.UsedCPU))
	c.Feature("sort-nlog2n/"+cs.Mode, int64(float64(n)*math.Log2(float64(n)+2)))
	for _, rep := range out.Reports {
		r.violation(cs, "hook", "hook report", rep)
	}
	switch out.Kind {
	case gl.Panic:
		r.violation(cs, "panic", "Go panic", out.PanicMsg+"\n"+out.Stack)
		return
	case gl.Killed:
		r.violation(cs, "budget", "killed",
			fmt.Sprintf("sorting %d elements did not finish within %d logical CPU units (1000*n*log2(n+2)+10^5): %s", n, budget, brief(out)))
		return
	}
	// final contents
	got, problem := r.readStore(b)
	if problem != "" {
		r.violation(cs, "mismatch", "table unreadable", problem)
		return
	}
	for _, e := range empties {
		if raw, _ := r.readStore(e); len(raw.M)+len(raw.Other) != 0 {
			r.violation(cs, "mismatch", "proxy written raw", raw.String())
		}
	}
	after := make([]sm.V, 0, n)
	extra := len(got.Other) > 0
	for _, k := range got.Keys() {
		if k < 1 || k > int64(n) {
			extra = true
		}
	}
	if cs.Mode == "key" {
		// translate the element tables back to their ordinal
		got = sm.NewStore()
		for i := 1; i <= n; i++ {
			v := b.Get(rt.IntValue(int64(i)))
			if kt, ok := v.TryTable(); ok {
				if id, known := keyTabs[kt]; known {
					got.Set(int64(i), sm.R(1000+id))
					continue
				}
			}
			got.Set(int64(i), sm.S("<foreign value "+r.sess.N.Enc(v)+">"))
		}
	}
	for i := 1; i <= n; i++ {
		after = append(after, got.Get(int64(i)))
	}
	before := elems
	keyOf := func(v sm.V) sm.V { return v }
	if cs.Mode == "key" {
		before = make([]sm.V, n)
		for i := range before {
			before[i] = sm.R(1000 + i)
		}
		keyOf = func(v sm.V) sm.V {
			if v.K == sm.Ref && v.Id >= 1000 && v.Id-1000 < n {
				return elems[v.Id-1000]
			}
			return sm.NilV
		}
	}
	if extra || !sm.SameMultiset(before, after) {
		r.violation(cs, "mismatch", "elements lost or duplicated",
			fmt.Sprintf("after table.sort (%s) the table is not a permutation of its %d elements\nbefore: %s\nafter:  %s (other keys: %v)",
				brief(out), n, clip(sm.EncList(before)), clip(sm.EncList(after)), extra))
		return
	}
	// the verdict on the outcome
	status := ""
	if out.Kind == gl.OK {
		var st string
		if _, err := fmt.Sscanf(out.Rets, "s:%q", &st); err == nil {
			status = st
		}
	}
	needSorted := false
	switch {
	case cs.Mode == "yield" && !cs.Co:
		// yield outside a coroutine: an ordinary error
		if n >= 2 && cs.K == 1 && out.Kind != gl.LuaError {
			r.violation(cs, "mismatch", "want=error got="+out.Kind, "coroutine.yield outside a coroutine must raise an error: "+brief(out))
		}
		if out.Kind == gl.OK {
			needSorted = true
		}
	case cs.Mode == "yield":
		// inside a coroutine: either the implementation can yield across
		// table.sort (then the sort must complete correctly) or it raises an
		// ordinary error, caught by resume
		switch {
		case out.Kind != gl.OK:
			r.violation(cs, "mismatch", "want=value got="+out.Kind, "an error inside the coroutine must be returned by resume: "+brief(out))
		case status == "sorted":
			needSorted = true
			c.Feature("sort-yield-across-works", 1)
		case status == "coerror":
			c.Feature("sort-yield-across-errors", 1)
		default:
			r.violation(cs, "mismatch", "driver result", brief(out))
		}
	case cs.Mode == "err" || cs.Mode == "errnum":
		want := `s:"boom"`
		if cs.Mode == "errnum" {
			want = "i:42"
		}
		switch out.Kind {
		case gl.LuaError:
			if out.ErrVal != want {
				r.violation(cs, "mismatch", "wrong error value", fmt.Sprintf("the comparator raised %s; table.sort raised %s", want, out.ErrVal))
			}
			c.Feature("sort-error-propagated", 1)
		case gl.OK:
			// the comparator was called fewer than k times: then it never raised
			var calls int64
			var st string
			fmt.Sscanf(out.Rets, "s:%q,i:%d", &st, &calls)
			if calls >= cs.K {
				r.violation(cs, "mismatch", "error swallowed", fmt.Sprintf("the comparator raised at call %d of %d but table.sort returned normally", cs.K, calls))
			}
			needSorted = true
		}
	case consistentModes[cs.Mode]:
		cmpOK := cs.Mode == "false" || comparable(elems)
		switch {
		case !cmpOK:
			// < is not defined on some pair: with both kinds present any sort
			// has to compare across them
			if out.Kind != gl.LuaError {
				r.violation(cs, "mismatch", "want=error got="+out.Kind, "elements that cannot be compared with < must raise an error: "+brief(out))
			}
		case out.Kind != gl.OK:
			r.violation(cs, "mismatch", "want=value got="+out.Kind, "a consistent comparator cannot make table.sort fail: "+brief(out))
		default:
			needSorted = true
		}
	case inconsistentModes[cs.Mode]:
		// any permutation or an "invalid order function" error
		if out.Kind == gl.LuaError {
			c.Feature("sort-invalid-order-error", 1)
		}
	}
	if needSorted && comparable(elems) {
		mode := cs.Mode
		if mode == "err" || mode == "errnum" || mode == "yield" {
			mode = "lt"
		}
		less := modelLess(mode, keyOf)
		if i := sm.FirstUnordered(after, less); i >= 0 {
			r.violation(cs, "mismatch", "not sorted",
				fmt.Sprintf("after table.sort, comp(list[%d], list[%d]) holds: %s before %s\nafter: %s", i+2, i+1, keyOf(after[i]).Enc(), keyOf(after[i+1]).Enc(), clip(sm.EncList(after))))
		}
		c.Feature("sort-sorted-checked", 1)
	}
	if n >= 2 {
		c.NonTrivial(vp.Hash(caseJSON(cs)))
	}
	if c.WantSample() && n >= 5 && n <= 12 {
		c.Sample(map[string]interface{}{"call": cs.Lua(), "golua": brief(out), "after": sm.EncList(after)})
	}
}

func clip(s string) string {
	if len(s) > 1500 {
		return s[:1500] + "..."
	}
	return s
}

// input shapes
func sortInput(rd *rand.Rand, n int, shape int) []sm.V {
	vs := make([]sm.V, n)
	switch shape {
	case 0: // random ints with many duplicates
		for i := range vs {
			vs[i] = sm.I(int64(rd.Intn(n/3 + 2)))
		}
	case 1: // random distinct-ish ints
		for i := range vs {
			vs[i] = sm.I(int64(rd.Int31()) - 1<<30)
		}
	case 2: // ascending
		for i := range vs {
			vs[i] = sm.I(int64(i))
		}
	case 3: // descending
		for i := range vs {
			vs[i] = sm.I(int64(n - i))
		}
	case 4: // all equal
		for i := range vs {
			vs[i] = sm.I(7)
		}
	case 5: // organ pipe
		for i := range vs {
			if i < n/2 {
				vs[i] = sm.I(int64(i))
			} else {
				vs[i] = sm.I(int64(n - i))
			}
		}
	case 6: // ints and floats mixed (all exactly representable)
		for i := range vs {
			x := int64(rd.Intn(n + 3))
			if rd.Intn(2) == 0 {
				vs[i] = sm.F(float64(x) + 0.5*float64(rd.Intn(2)))
			} else {
				vs[i] = sm.I(x)
			}
		}
	case 7: // strings of lower-case letters and digits
		for i := range vs {
			l := rd.Intn(6)
			b := make([]byte, l)
			for j := range b {
				b[j] = "abcxyz019"[rd.Intn(9)]
			}
			vs[i] = sm.S(string(b))
		}
	case 8: // sorted with a few swaps
		for i := range vs {
			vs[i] = sm.I(int64(i))
		}
		for k := 0; k < 1+n/20 && n > 1; k++ {
			a, b := rd.Intn(n), rd.Intn(n)
			vs[a], vs[b] = vs[b], vs[a]
		}
	case 9: // numbers and strings mixed: < is undefined
		for i := range vs {
			if i%2 == 0 {
				vs[i] = sm.I(int64(rd.Intn(100)))
			} else {
				vs[i] = sm.S("s" + string(rune('a'+rd.Intn(26))))
			}
		}
	}
	return vs
}

const nShapes = 10

func (r *runner) sortStage() {
	c := r.c
	maxN := c.Pick(200, 2000)
	// sizes: every size up to 20, then a spread up to maxN (always including maxN)
	sizes := []int{}
	for n := 0; n <= 20; n++ {
		sizes = append(sizes, n)
	}
	rdSizes := rand.New(rand.NewSource(c.Seed*7919 + 17))
	for k := 0; k < c.Pick(24, 90); k++ {
		sizes = append(sizes, 21+rdSizes.Intn(maxN-20))
	}
	sizes = append(sizes, maxN, maxN-1, 12, 13, 24, 25, 50, 51, 100) // thresholds of usual hybrid sorts
	sort.Ints(sizes)
	modes := []string{"default", "lt", "gt", "key", "truthy", "novalue", "novalue-gt", "false", "true", "le", "rand", "err", "errnum", "yield"}
	idx := 0
	for _, n := range sizes {
		for _, mode := range modes {
			for shape := 0; shape < nShapes; shape++ {
				if shape == 9 && mode != "default" && mode != "lt" && mode != "false" {
					continue
				}
				idx++
				if !c.Mine(idx) {
					continue
				}
				rd := rand.New(rand.NewSource(c.Seed*1000003 + int64(idx)))
				vs := sortInput(rd, n, shape)
				kind := kPlain
				if rd.Intn(4) == 0 {
					kind = []int{kFnProxy, kTabProxy, kChain}[rd.Intn(3)]
				}
				cs := Case{Fn: "table.sort", Tabs: []TabSpec{specOf(sm.SeqStore(vs...), kind, int64(n))}, Args: []Arg{tb(1)},
					Mode: mode, Seed: int64(rd.Int31())}
				switch mode {
				case "err", "errnum":
					// somewhere within (or just beyond) the number of calls a sort makes
					cs.K = 1 + int64(rd.Intn(2*n+2))
					if rd.Intn(4) == 0 {
						cs.K = 1
					}
				case "yield":
					cs.K = 1 + int64(rd.Intn(n/4+2))
					if rd.Intn(3) == 0 {
						cs.K = 1
					}
					cs.Co = rd.Intn(3) > 0
				}
				r.runSort(&cs)
			}
		}
	}
	if c.Batch == 0 {
		c.Feature("enumerated", int64(idx))
	}
}
