package c19

import (
	"fmt"
	"strings"

	"verif/internal/eng"
	"verif/internal/gl"
	"verif/internal/vp"
)

// Stage "guarded": the table functions use non-raw accesses, so on a table that
// HOLDS its elements and has __index/__newindex metamethods those handlers may
// only be consulted for keys whose raw value is nil (manual §2.4). Each case
// runs one call on a plain sequence P and on a guarded copy T of it whose
// handlers (a) record a fault when they are called for a key that is raw
// non-nil, (b) otherwise behave like a plain table (rawset / nil). The call on T
// must then give the same results, the same error-or-not and the same final raw
// contents as the call on P (which the other stages judge against the model),
// with no fault. Sequence lengths 0..33 cross the array-part sizes 1,2,4,…,32.

const guardedPrelude = `
local function seq(n, rev) local t = {} for i = 1, n do t[i] = rev and (n - i + 1) * 10 or i * 10 end return t end
local faults, calls
local function guarded(n, rev)
  return setmetatable(seq(n, rev), {
    __newindex = function(t, k, v) calls = calls + 1; if rawget(t, k) ~= nil then faults[#faults + 1] = "newindex@" .. tostring(k) end rawset(t, k, v) end,
    __index = function(t, k) calls = calls + 1; if rawget(t, k) ~= nil then faults[#faults + 1] = "index@" .. tostring(k) end return nil end,
  })
end
local function raw(t, upto) local p = {} for i = 1, upto do p[i] = tostring(rawget(t, i)) end return table.concat(p, " ") end
local function res(ok, ...) if not ok then return "error" end local p = table.pack(...) for i = 1, p.n do p[i] = tostring(p[i]) end return "ok " .. table.concat(p, ",", 1, p.n) end
local function case(label, n, rev, f)
  faults, calls = {}, 0
  local P, T = seq(n, rev), guarded(n, rev)
  local rp = res(pcall(f, P))
  local rt = res(pcall(f, T))
  emit(label, rp, rt, raw(P, n + 4), raw(T, n + 4), table.concat(faults, ","), calls)
end
`

func guardedProgram(n int) string {
	var b strings.Builder
	b.WriteString(guardedPrelude)
	w := func(label, body string, rev bool) {
		fmt.Fprintf(&b, "case(%q, %d, %v, function(t) %s end)\n", label, n, rev, body)
	}
	for pos := 1; pos <= n+1; pos++ {
		if pos > 3 && pos < n-1 && pos%5 != 0 {
			continue
		}
		w(fmt.Sprintf("insert@%d", pos), fmt.Sprintf("table.insert(t, %d, 5) return #t", pos), false)
		if pos <= n {
			w(fmt.Sprintf("remove@%d", pos), fmt.Sprintf("return table.remove(t, %d), #t", pos), false)
			w(fmt.Sprintf("assign@%d", pos), fmt.Sprintf("t[%d] = 7 return t[%d]", pos, pos), false)
			w(fmt.Sprintf("assign-nil-then@%d", pos), fmt.Sprintf("t[%d] = nil t[%d] = 8 return t[%d]", pos, pos, pos), false)
		}
	}
	w("insert-append", "table.insert(t, 6) table.insert(t, 7) return #t", false)
	w("remove-last", "return table.remove(t), table.remove(t), #t", false)
	for _, m := range [][3]int{{1, n, 2}, {2, n, 1}, {1, n, n + 1}, {1, n - 1, 2}, {n, n, 1}, {1, 1, n}, {1, n, 1}} {
		if m[0] < 1 || m[1] < m[0]-1 || m[2] < 1 {
			continue
		}
		w(fmt.Sprintf("move(%d,%d,%d)", m[0], m[1], m[2]), fmt.Sprintf("table.move(t, %d, %d, %d) return #t", m[0], m[1], m[2]), false)
	}
	w("sort", "table.sort(t) return #t", true)
	w("sort-desc", "table.sort(t, function(a, b) return a > b end) return #t", false)
	w("concat", `return table.concat(t, ",")`, false)
	w("unpack", "return table.unpack(t)", false)
	w("ipairs", "local s = 0 for i, v in ipairs(t) do s = s + v end return s", false)
	w("len-last", fmt.Sprintf("return #t, t[%d], t[%d]", n, n+1), false)
	return b.String()
}

func (r *runner) guardedStage() {
	c := r.c
	for n := 0; n <= 33; n++ {
		if !c.Mine(n) {
			continue
		}
		text := guardedProgram(n)
		c.Begin(fmt.Sprintf("guarded/n=%d", n), text)
		out := eng.RunText(text, nil)
		if out.Kind != gl.OK {
			c.Violation("guarded-outcome", fmt.Sprintf("n=%d", n), "the template did not run to its end: "+out.Kind+" "+out.ErrMsg+out.PanicMsg, text)
			continue
		}
		for _, ev := range out.TraceV {
			c.Eval(1)
			if len(ev) != 7 {
				c.Violation("guarded-outcome", fmt.Sprintf("n=%d", n), "malformed event "+strings.Join(ev, " "), text)
				continue
			}
			label := ev[0]
			c.NonTrivial(vp.Hash("guarded", fmt.Sprint(n), label))
			if ev[6] != "i:0" {
				c.Feature("guarded-cases-with-handler-calls", 1)
			}
			what := ""
			switch {
			case ev[5] != `s:""`:
				what = "a metamethod was consulted for a key whose raw value is not nil: " + ev[5]
			case ev[1] != ev[2]:
				what = "results differ: plain " + ev[1] + ", guarded " + ev[2]
			case ev[3] != ev[4]:
				what = "final raw contents differ: plain " + ev[3] + ", guarded " + ev[4]
			}
			if what != "" {
				c.Violation("guarded", fmt.Sprintf("%s on a sequence of %d elements held by a table with __index/__newindex", strings.Trim(label[2:], `"`), n), what, text)
			}
		}
	}
}
