// Package c19 checks property C19: the non-pattern string functions and the
// table functions compute what the manual defines, for every argument tuple of
// a bounded domain (exhaustive), random longer inputs and adversarial sort
// comparators.  The oracle is internal/strmodel.  Every call is made through
// a compiled Lua chunk inside a CPU- and memory-limited context.
package c19

import (
	"encoding/json"
	"fmt"
	"math"
	"os"
	"runtime"
	"runtime/debug"
	"runtime/pprof"
	"strconv"
	"strings"

	rt "github.com/arnodel/golua/runtime"

	"verif/internal/gl"
	sm "verif/internal/strmodel"
	"verif/internal/vp"
)

type Prop struct{}

func (Prop) ID() string { return "C19" }

func (Prop) Plan(t vp.Tier) []vp.Stage {
	nb := 16
	if t == vp.Thorough {
		nb = 64
	}
	return []vp.Stage{
		{Name: "str-exh", NBatches: nb, TimeoutS: 3000, TimeoutIsViolation: true},
		{Name: "tab-exh", NBatches: nb, TimeoutS: 3000, TimeoutIsViolation: true},
		{Name: "random", NBatches: nb, TimeoutS: 3000, TimeoutIsViolation: true},
		{Name: "sort", NBatches: nb, TimeoutS: 3000, TimeoutIsViolation: true},
		{Name: "guarded", NBatches: 4, TimeoutS: 3000, TimeoutIsViolation: true},
	}
}

func (Prop) Describe(t vp.Tier) vp.Description {
	return vp.Description{
		Rule: "Each case is one call f(args) of string.{sub,byte,char,rep,reverse,upper,lower,len,find(plain)} or " +
			"table.{insert,remove,move,concat,unpack,pack,sort}, made through a compiled Lua chunk inside a context limited to 64 MB and a " +
			"CPU budget, compared with strmodel (results, error-or-not, final table contents read back through the Go API; for proxy tables with " +
			"__index/__newindex/__len only results and the final contents of the backing table, and the proxy staying raw-empty). Stages: " +
			"exhaustive tuples over strings of length <= 3/4 on {a,b,\\0} and sequences of length <= 3/4 with positions from " +
			"{minint, minint+1, -len-2..len+2, maxint-1, maxint} and separators {\"\", \",\"}; random longer inputs; table.sort on 0..200/2000 " +
			"elements with consistent, inconsistent, erroring and yielding comparators (sorted permutation / permutation kept / logical CPU budget); " +
			"stage guarded: insert/remove/move/sort/concat/unpack/ipairs/assignment on sequences of 0..33 elements HELD by a table with __index/__newindex handlers that record a fault " +
			"when consulted for a raw non-nil key and otherwise act like a plain table - results and final raw contents must equal those of the same call on a plain copy. " +
			"A case is non-trivial when the model gives a verdict (not 'skip') and at least one argument is outside the plain in-range case " +
			"(a position <= 0 or > len, an extreme integer, an empty string/sequence, a proxy table, an error or a huge result) or, for sort, n >= 2; " +
			"distinct by hash of the whole case.",
		Assumptions: []string{
			"strmodel is a correct reading of Lua 5.4 manual §6.4/§6.6; where the manual is silent the argument checks of the reference implementation are used only for: find with init > len+1 fails, move's 'too many elements'/'wrap around' errors, remove's position check",
			"left open (no verdict beyond 'no crash'): number->string formats, numeric strings where integers are expected, explicit nil for optional arguments, table.insert with more than 3 arguments, upper/lower on valid multi-byte UTF-8, #t of tables with several borders, #list+1 overflowing, unpack of more than 64 values (error or exact result), yielding inside a sort comparator (may work or raise an ordinary error)",
			"a quota kill or an error is accepted where the defined result needs more than 1 MB / 65536 loop steps (status 'huge'), never where the defined result is small (e.g. string.rep('', maxint, '') is '')",
			"sort CPU budget is in golua's logical CPU units (deterministic), 1000*n*log2(n+2)+10^5; the watchdog firing (unmetered loop) counts as a violation",
			"held on the tuples enumerated/sampled",
		},
		Floor: map[vp.Tier]int64{vp.Quick: 100000, vp.Thorough: 1000000}[t],
	}
}

func (p Prop) RunBatch(c *vp.Child) {
	if pf := os.Getenv("VERIF_C19_PROF"); pf != "" { // debugging aid: CPU profile of one batch
		if f, err := os.Create(pf); err == nil {
			pprof.StartCPUProfile(f)
			defer pprof.StopCPUProfile()
		}
	}
	// the workload is one interpreter thread producing a lot of short-lived
	// garbage: fewer GC cycles and fewer idle Ps (16 children run in parallel)
	debug.SetGCPercent(400)
	runtime.GOMAXPROCS(2)
	r := newRunner(c)
	defer r.close()
	switch c.Stage {
	case "str-exh":
		r.strExhaustive()
	case "tab-exh":
		r.tabExhaustive()
	case "random":
		r.random()
	case "sort":
		r.sortStage()
	case "guarded":
		r.guardedStage()
	}
}

// Replay re-runs one recorded case (the JSON written to the journal).
func (p Prop) Replay(c *vp.Child, input string) {
	var cs Case
	// the input may carry a human-readable tail after the JSON line
	line := input
	if i := strings.IndexByte(input, '\n'); i >= 0 {
		line = input[:i]
	}
	if err := json.Unmarshal([]byte(line), &cs); err != nil {
		fmt.Println("cannot decode the case:", err)
		return
	}
	r := newRunner(c)
	defer r.close()
	fmt.Println("replaying:", cs.Lua())
	if cs.Fn == "table.sort" {
		r.runSort(&cs)
	} else {
		r.run(&cs)
	}
}

// ---------------------------------------------------------------------------
// case representation (JSON-serialisable so that the journal replays)

type JV struct {
	K  sm.Kind `json:"k"`
	B  bool    `json:"b,omitempty"`
	I  int64   `json:"i,omitempty"`
	F  uint64  `json:"f,omitempty"` // float bits
	S  []byte  `json:"s,omitempty"`
	Id int     `json:"id,omitempty"`
}

func toJV(v sm.V) JV {
	return JV{K: v.K, B: v.B, I: v.I, F: math.Float64bits(v.F), S: []byte(v.S), Id: v.Id}
}

func (j JV) V() sm.V {
	return sm.V{K: j.K, B: j.B, I: j.I, F: math.Float64frombits(j.F), S: string(j.S), Id: j.Id}
}

// Table kinds.
const (
	kPlain    = 0 // an ordinary table
	kFnProxy  = 1 // empty proxy, __index/__newindex/__len functions over a backing table
	kTabProxy = 2 // empty proxy, __index/__newindex = backing table, __len function
	kNoLen    = 3 // like 1 without __len (#proxy = 0)
	kChain    = 4 // proxy -> empty middle table -> backing, table-valued metamethods, __len function
)

var kindNames = []string{"plain", "fnproxy", "tabproxy", "nolenproxy", "chainproxy"}

type TabSpec struct {
	Keys []int64 `json:"keys"`
	Vals []JV    `json:"vals"`
	Kind int     `json:"kind"`
	L    int64   `json:"len"` // what #t yields (plain: the unique border)
}

func (t *TabSpec) store() *sm.Store {
	s := sm.NewStore()
	for i, k := range t.Keys {
		s.Set(k, t.Vals[i].V())
	}
	return s
}

func specOf(s *sm.Store, kind int, L int64) TabSpec {
	ts := TabSpec{Kind: kind, L: L}
	for _, k := range s.Keys() {
		ts.Keys = append(ts.Keys, k)
		ts.Vals = append(ts.Vals, toJV(s.M[k]))
	}
	return ts
}

type Arg struct {
	T int `json:"t,omitempty"` // 1-based index into Tabs; 0 = scalar
	V JV  `json:"v"`
}

type Case struct {
	Fn   string    `json:"fn"`
	Tabs []TabSpec `json:"tabs,omitempty"`
	Args []Arg     `json:"args"`
	// sort only
	Mode string `json:"mode,omitempty"`
	K    int64  `json:"k,omitempty"`
	Seed int64  `json:"seed,omitempty"`
	Co   bool   `json:"co,omitempty"`
}

func sc(v sm.V) Arg   { return Arg{V: toJV(v)} }
func tb(i int) Arg    { return Arg{T: i} }
func ia(i int64) Arg  { return sc(sm.I(i)) }
func sa(s string) Arg { return sc(sm.S(s)) }

func luaV(v sm.V) string {
	switch v.K {
	case sm.Nil:
		return "nil"
	case sm.Bool:
		return strconv.FormatBool(v.B)
	case sm.Int:
		if v.I == math.MinInt64 {
			return "math.mininteger"
		}
		return strconv.FormatInt(v.I, 10)
	case sm.Float:
		return strconv.FormatFloat(v.F, 'g', -1, 64)
	case sm.Str:
		var b strings.Builder
		b.WriteByte('"')
		for i := 0; i < len(v.S); i++ {
			c := v.S[i]
			if c >= 0x20 && c < 0x7f && c != '"' && c != '\\' {
				b.WriteByte(c)
			} else {
				fmt.Fprintf(&b, "\\x%02x", c)
			}
		}
		b.WriteByte('"')
		return b.String()
	}
	return fmt.Sprintf("REF%d", v.Id)
}

// Lua renders the case as (pseudo) Lua for reports.
func (cs *Case) Lua() string {
	var b strings.Builder
	for i := range cs.Tabs {
		t := &cs.Tabs[i]
		if len(t.Keys) > 40 {
			fmt.Fprintf(&b, "T%d = <%s, %d entries, #=%d>; ", i+1, kindNames[t.Kind], len(t.Keys), t.L)
			continue
		}
		fmt.Fprintf(&b, "T%d = %s", i+1, kindNames[t.Kind])
		if t.Kind != kPlain {
			fmt.Fprintf(&b, "(#=%d)", t.L)
		}
		b.WriteString("{")
		for j, k := range t.Keys {
			if j > 0 {
				b.WriteString(", ")
			}
			fmt.Fprintf(&b, "[%s]=%s", luaV(sm.I(k)), luaV(t.Vals[j].V()))
		}
		b.WriteString("}; ")
	}
	b.WriteString(cs.Fn + "(")
	for i, a := range cs.Args {
		if i > 0 {
			b.WriteString(", ")
		}
		if a.T > 0 {
			fmt.Fprintf(&b, "T%d", a.T)
		} else {
			b.WriteString(luaV(a.V.V()))
		}
	}
	b.WriteString(")")
	if cs.Mode != "" {
		fmt.Fprintf(&b, " comparator=%s k=%d seed=%d coroutine=%v", cs.Mode, cs.K, cs.Seed, cs.Co)
	}
	return b.String()
}

// ---------------------------------------------------------------------------
// runner: one golua session with the compiled chunks

const memLimit = 64 << 20

const nRefs = 8

type runner struct {
	c       *vp.Child
	sess    *gl.Sess
	fns     map[string]rt.Value
	mkproxy rt.Value
	sortdrv rt.Value
	refs    []rt.Value
	refID   map[*rt.Table]int
	cpu     uint64 // CPU limit for ordinary calls
	ncalls  int
	// dirty: a context was killed in this session since the last reset.  A
	// kill abandons continuations half-way; the session is kept (a reset per
	// kill costs milliseconds) but every violation seen in a dirty session is
	// confirmed in a fresh one before it is reported.
	dirty   bool
	pending []pendingViolation
	seenSig map[string]bool
}

type pendingViolation struct{ kind, sig, detail, input string }

var fnNames = []string{
	"string.sub", "string.byte", "string.char", "string.rep", "string.reverse", "string.upper", "string.lower", "string.len", "string.find",
	"table.insert", "table.remove", "table.concat", "table.unpack",
}

const moveChunk = `local dst = (select(5, ...))
if dst == nil then dst = (...) end
local function chk(...) return select('#', ...), rawequal((...), dst) end
return chk(table.move(...))`

const packChunk = `local out = ...
local function chk(...) out[1] = (...) return select('#', ...), type((...)) end
return chk(table.pack(select(2, ...)))`

const mkproxyChunk = `local backing, kind, L = ...
if kind == 1 then
  return setmetatable({}, {__index = function(_, k) return backing[k] end,
    __newindex = function(_, k, v) backing[k] = v end, __len = function() return L end})
elseif kind == 2 then
  return setmetatable({}, {__index = backing, __newindex = backing, __len = function() return L end})
elseif kind == 3 then
  return setmetatable({}, {__index = function(_, k) return backing[k] end,
    __newindex = function(_, k, v) backing[k] = v end})
else
  local mid = setmetatable({}, {__index = backing, __newindex = backing})
  return setmetatable({}, {__index = mid, __newindex = mid, __len = function() return L end}), mid
end`

func newRunner(c *vp.Child) *runner {
	r := &runner{c: c, cpu: 5000, seenSig: map[string]bool{}}
	r.reset()
	return r
}

func (r *runner) close() {
	if r.sess != nil {
		r.sess.Close()
		r.sess = nil
	}
}

func (r *runner) compile(name, src string) rt.Value {
	clos, out := r.sess.Compile(name, src)
	if out != nil {
		r.c.Violation("compile", "c19 chunk "+name, out.ErrMsg+out.PanicMsg, src)
		r.c.Flush(true)
		panic("chunk " + name + " does not compile: " + out.ErrMsg + out.PanicMsg)
	}
	return rt.FunctionValue(clos)
}

func (r *runner) reset() {
	r.close()
	r.dirty = false
	r.sess = gl.NewSess(gl.Options{})
	r.fns = map[string]rt.Value{}
	for _, n := range fnNames {
		r.fns[n] = r.compile(n, "return "+n+"(...)")
	}
	r.fns["table.move"] = r.compile("table.move", moveChunk)
	r.fns["table.pack"] = r.compile("table.pack", packChunk)
	r.mkproxy = r.compile("mkproxy", mkproxyChunk)
	r.sortdrv = r.compile("sortdrv", sortChunk)
	r.refs = nil
	r.refID = map[*rt.Table]int{}
	for i := 1; i <= nRefs; i++ {
		t := rt.NewTable()
		v := rt.TableValue(t)
		r.refs = append(r.refs, v)
		r.refID[t] = i
		r.sess.N.Enc(v) // ordinal i in the session's naming: t#i
	}
}

// callRaw calls f outside any limited context and returns the raw values
// (used for helpers only, never for the call under test).
func (r *runner) callRaw(f rt.Value, args ...rt.Value) (vals []rt.Value, err error) {
	defer func() {
		if p := recover(); p != nil {
			err = fmt.Errorf("panic: %v", p)
		}
	}()
	term := rt.NewTerminationWith(nil, 0, true)
	if e := rt.Call(r.sess.R.MainThread(), f, args, term); e != nil {
		return nil, e
	}
	return append([]rt.Value(nil), term.Etc()...), nil
}

func (r *runner) toRT(v sm.V) rt.Value {
	switch v.K {
	case sm.Bool:
		return rt.BoolValue(v.B)
	case sm.Int:
		return rt.IntValue(v.I)
	case sm.Float:
		return rt.FloatValue(v.F)
	case sm.Str:
		return rt.StringValue(v.S)
	case sm.Ref:
		return r.refs[v.Id-1]
	}
	return rt.NilValue
}

func (r *runner) fromRT(v rt.Value) sm.V {
	if v.IsNil() {
		return sm.NilV
	}
	switch v.Type() {
	case rt.BoolType:
		return sm.B(v.AsBool())
	case rt.IntType:
		return sm.I(v.AsInt())
	case rt.FloatType:
		return sm.F(v.AsFloat())
	case rt.StringType:
		return sm.S(v.AsString())
	case rt.TableType:
		if id, ok := r.refID[v.AsTable()]; ok {
			return sm.R(id)
		}
	}
	return sm.R(-1)
}

// readStore reads every entry of a real table.
func (r *runner) readStore(t *rt.Table) (s *sm.Store, problem string) {
	s = sm.NewStore()
	defer func() {
		if p := recover(); p != nil {
			problem = fmt.Sprintf("panic while iterating the table: %v", p)
		}
	}()
	k := rt.NilValue
	for n := 0; ; n++ {
		nk, v, ok := t.Next(k)
		if !ok {
			return s, "Table.Next failed on key " + r.sess.N.Enc(k)
		}
		if nk.IsNil() {
			return s, ""
		}
		if n > 1<<22 {
			return s, "Table.Next does not terminate"
		}
		switch nk.Type() {
		case rt.IntType:
			s.Set(nk.AsInt(), r.fromRT(v))
		case rt.StringType:
			s.Other[nk.AsString()] = r.fromRT(v)
		default:
			s.Other["<"+r.sess.N.Enc(nk)+">"] = r.fromRT(v)
		}
		k = nk
	}
}

type realTab struct {
	arg     rt.Value
	backing *rt.Table
	empties []*rt.Table // tables that must stay raw-empty (proxy, middle)
}

func (r *runner) buildTab(ts *TabSpec) (*realTab, error) {
	b := rt.NewTable()
	for i, k := range ts.Keys {
		b.Set(rt.IntValue(k), r.toRT(ts.Vals[i].V()))
	}
	if ts.Kind == kPlain {
		return &realTab{arg: rt.TableValue(b), backing: b}, nil
	}
	vals, err := r.callRaw(r.mkproxy, rt.TableValue(b), rt.IntValue(int64(ts.Kind)), rt.IntValue(ts.L))
	if err != nil || len(vals) == 0 {
		return nil, fmt.Errorf("mkproxy failed: %v", err)
	}
	t := &realTab{arg: vals[0], backing: b}
	for _, v := range vals {
		if tt, ok := v.TryTable(); ok {
			t.empties = append(t.empties, tt)
		}
	}
	return t, nil
}

func (r *runner) def(cpu uint64) rt.RuntimeContextDef {
	return rt.RuntimeContextDef{HardLimits: rt.RuntimeResources{Cpu: cpu, Memory: memLimit}}
}

// ---------------------------------------------------------------------------
// argument classes for signatures

func posClass(p, l int64) string {
	switch {
	case p <= math.MinInt64+1:
		return "minint"
	case p >= math.MaxInt64-1:
		return "maxint"
	case p < -l:
		return "<-len"
	case p < 0:
		return "neg"
	case p == 0:
		return "0"
	case p <= l:
		return "in"
	case p == l+1:
		return "len+1"
	}
	return ">len+1"
}

func countClass(n int64) string {
	switch {
	case n < 0:
		return "n<0"
	case n == 0:
		return "n=0"
	case n >= 1<<31:
		return "n-huge"
	}
	return "n>0"
}

func (cs *Case) subjectLen() int64 {
	if len(cs.Args) == 0 {
		return 0
	}
	a := cs.Args[0]
	if a.T > 0 {
		return cs.Tabs[a.T-1].L
	}
	if a.V.K == sm.Str {
		return int64(len(a.V.S))
	}
	return 0
}

func (cs *Case) classes() string {
	l := cs.subjectLen()
	var p []string
	for i, a := range cs.Args {
		switch {
		case a.T > 0:
			t := cs.Tabs[a.T-1]
			cl := kindNames[t.Kind]
			if len(t.Keys) == 0 {
				cl += "-empty"
			}
			if i > 0 && a.T == cs.Args[0].T {
				cl = "same"
			}
			p = append(p, cl)
		case a.V.K == sm.Int:
			if cs.Fn == "string.char" {
				switch {
				case a.V.I < 0:
					p = append(p, "<0")
				case a.V.I > 255:
					p = append(p, ">255")
				default:
					p = append(p, "byte")
				}
			} else if cs.Fn == "string.rep" {
				p = append(p, countClass(a.V.I))
			} else {
				p = append(p, posClass(a.V.I, l))
			}
		case a.V.K == sm.Str:
			if len(a.V.S) == 0 {
				p = append(p, "''")
			} else {
				p = append(p, "str")
			}
		case a.V.K == sm.Nil:
			p = append(p, "nil")
		case a.V.K == sm.Bool:
			p = append(p, strconv.FormatBool(a.V.B))
		case a.V.K == sm.Float:
			f := a.V.V().F
			switch {
			case f != math.Floor(f) || math.IsInf(f, 0):
				p = append(p, "frac")
			case cs.Fn == "string.rep" && f < 0:
				p = append(p, "n<0.0")
			case math.Abs(f) >= 9.2e18:
				p = append(p, "bigfloat")
			case cs.Fn == "string.rep":
				p = append(p, countClass(int64(f))+".0")
			default:
				p = append(p, posClass(int64(f), l)+".0")
			}
		default:
			p = append(p, "ref")
		}
	}
	return strings.Join(p, ",")
}

// trivial: all arguments in the plain in-range case.
func (cs *Case) plainInRange() bool {
	l := cs.subjectLen()
	if l == 0 {
		return false
	}
	for _, a := range cs.Args {
		switch {
		case a.T > 0:
			if cs.Tabs[a.T-1].Kind != kPlain {
				return false
			}
		case a.V.K == sm.Int:
			if a.V.I < 1 || a.V.I > l {
				return false
			}
		case a.V.K == sm.Str:
			if len(a.V.S) == 0 {
				return false
			}
		}
	}
	return true
}

// ---------------------------------------------------------------------------
// the generic case runner

func (r *runner) model(cs *Case, stores []*sm.Store) (res sm.Res, packed *sm.Store) {
	args := make([]sm.V, len(cs.Args))
	for i, a := range cs.Args {
		if a.T > 0 {
			args[i] = sm.R(100 + a.T) // a table argument
		} else {
			args[i] = a.V.V()
		}
	}
	isTab := func(i int) bool { return i < len(cs.Args) && cs.Args[i].T > 0 }
	tabOf := func(i int) (*sm.Store, int64) {
		t := cs.Args[i].T - 1
		return stores[t], cs.Tabs[t].L
	}
	switch cs.Fn {
	case "string.sub":
		return sm.Sub(args), nil
	case "string.byte":
		return sm.Byte(args), nil
	case "string.char":
		return sm.Char(args), nil
	case "string.rep":
		return sm.Rep(args), nil
	case "string.reverse":
		return sm.Reverse(args), nil
	case "string.upper":
		return sm.Upper(args), nil
	case "string.lower":
		return sm.Lower(args), nil
	case "string.len":
		return sm.Len(args), nil
	case "string.find":
		return sm.Find(args), nil
	case "table.pack":
		return sm.Res{St: sm.Val, Vals: []sm.V{sm.I(1), sm.S("table")}}, sm.Pack(args)
	}
	// table functions with a table first argument
	if !isTab(0) {
		return sm.Res{St: sm.Err, Why: cs.Fn + ": #1 is not a table"}, nil
	}
	for i := 1; i < len(cs.Args); i++ {
		if isTab(i) && !(cs.Fn == "table.move" && i == 4) {
			return sm.Res{St: sm.Skip, Why: cs.Fn + ": a table argument beyond #1 (not generated)"}, nil
		}
	}
	t, L := tabOf(0)
	switch cs.Fn {
	case "table.insert":
		return sm.Insert(t, L, args[1:]), nil
	case "table.remove":
		return sm.Remove(t, L, args[1:]), nil
	case "table.concat":
		return sm.Concat(t, L, args[1:]), nil
	case "table.unpack":
		return sm.Unpack(t, L, args[1:]), nil
	case "table.move":
		var dst *sm.Store
		if len(cs.Args) >= 5 {
			switch {
			case isTab(4):
				if cs.Args[4].T != cs.Args[0].T {
					dst, _ = tabOf(4)
				}
			case cs.Args[4].V.K == sm.Nil:
				return sm.Res{St: sm.Skip, Why: "move: explicit nil destination"}, nil
			default:
				return sm.Res{St: sm.Err, Why: "move: #5 is not a table"}, nil
			}
		}
		if len(cs.Args) < 4 {
			return sm.Res{St: sm.Err, Why: "move: too few arguments"}, nil
		}
		res := sm.Move(t, args[1:4], dst)
		if res.St == sm.Val || res.St == sm.Huge {
			res.Vals = []sm.V{sm.I(1), sm.B(true)}
		}
		return res, nil
	}
	panic("no model for " + cs.Fn)
}

func (r *runner) violation(cs *Case, kind, what, detail string) {
	sig := fmt.Sprintf("%s(%s) %s", cs.Fn, cs.classes(), what)
	if cs.Mode != "" {
		sig = fmt.Sprintf("%s(%s) comparator=%s %s", cs.Fn, cs.classes(), cs.Mode, what)
	}
	r.pending = append(r.pending, pendingViolation{kind, sig, cs.Lua() + "\n" + detail, caseJSON(cs) + "\n" + cs.Lua()})
}

func caseJSON(cs *Case) string {
	b, _ := json.Marshal(cs)
	return string(b)
}

// confirmed runs exec; violations seen in a session in which a context was
// killed earlier are re-checked in a fresh session and only reported if they
// are still there.
func (r *runner) confirmed(exec func()) {
	r.pending = r.pending[:0]
	exec()
	if len(r.pending) > 0 && r.dirty {
		r.c.Feature("rechecked-in-fresh-session", 1)
		r.reset()
		r.pending = r.pending[:0]
		exec()
	}
	for _, p := range r.pending {
		// one witness per signature and batch (the first, which is the smallest
		// in the enumerations): a flood of one finding must not fill the cap
		if r.seenSig[p.kind+" "+p.sig] {
			r.c.Feature("violations-same-signature", 1)
			continue
		}
		r.seenSig[p.kind+" "+p.sig] = true
		r.c.Violation(p.kind, p.sig, p.detail, p.input)
	}
	r.pending = r.pending[:0]
}

// run executes one non-sort case and compares it with the model.
func (r *runner) run(cs *Case) {
	r.c.Begin(cs.Fn, caseJSON(cs))
	r.c.Eval(1)
	r.ncalls++
	if r.ncalls%20000 == 0 {
		r.reset()
	}
	r.confirmed(func() { r.exec(cs) })
}

func (r *runner) exec(cs *Case) {
	c := r.c
	// model
	stores := make([]*sm.Store, len(cs.Tabs))
	for i := range cs.Tabs {
		stores[i] = cs.Tabs[i].store()
	}
	res, packed := r.model(cs, stores)
	// real arguments
	tabs := make([]*realTab, len(cs.Tabs))
	for i := range cs.Tabs {
		t, err := r.buildTab(&cs.Tabs[i])
		if err != nil {
			r.violation(cs, "harness", "cannot build the table", err.Error())
			r.reset()
			return
		}
		tabs[i] = t
	}
	args := make([]rt.Value, 0, len(cs.Args)+1)
	var out1 *rt.Table
	if cs.Fn == "table.pack" {
		out1 = rt.NewTable()
		args = append(args, rt.TableValue(out1))
	}
	for _, a := range cs.Args {
		if a.T > 0 {
			args = append(args, tabs[a.T-1].arg)
		} else {
			args = append(args, r.toRT(a.V.V()))
		}
	}
	r.sess.Trace = nil
	r.sess.Out.Reset()
	out := r.sess.CallInContext(r.def(r.cpu), r.fns[cs.Fn], args)
	c.Feature("fn/"+cs.Fn, 1)
	c.Feature("model/"+res.St.String(), 1)
	c.Feature("outcome/"+out.Kind, 1)
	switch out.Kind {
	case gl.Killed:
		r.dirty = true
	case gl.Panic:
		defer r.reset()
	}
	if res.St == sm.Val && out.UsedCPU > r.cpu/4 {
		c.Feature("cpu-above-quarter-of-limit", 1)
	}
	for _, rep := range out.Reports {
		r.violation(cs, "hook", "hook report", rep)
	}
	if out.Kind == gl.Panic {
		r.violation(cs, "panic", "Go panic", out.PanicMsg+"\n"+out.Stack)
		return
	}
	checkContents := false
	switch res.St {
	case sm.Skip:
		c.Feature("skip/"+cs.Fn, 1)
		r.weak(cs, out)
		return
	case sm.Err:
		if out.Kind != gl.LuaError {
			r.violation(cs, "mismatch", "want=error got="+out.Kind,
				fmt.Sprintf("the manual makes this call an error (%s); golua: %s", res.Why, brief(out)))
		}
	case sm.Val:
		switch {
		case out.Kind != gl.OK:
			r.violation(cs, "mismatch", "want=value got="+out.Kind,
				fmt.Sprintf("the manual defines the (small) result [%s]; golua: %s", sm.EncList(res.Vals), brief(out)))
		case out.Rets != sm.EncList(res.Vals):
			r.violation(cs, "mismatch", "wrong result",
				fmt.Sprintf("the manual gives [%s]; golua returns [%s]", sm.EncList(res.Vals), out.Rets))
		default:
			checkContents = true
		}
	case sm.Huge:
		switch out.Kind {
		case gl.LuaError, gl.Killed:
			c.Feature("huge-refused/"+cs.Fn, 1)
		case gl.OK:
			switch {
			case cs.Fn == "table.unpack" && res.Vals == nil:
				if res.N.Cmp(bigInt(sm.UnpackImpossible)) > 0 {
					r.violation(cs, "mismatch", "want=error-or-kill got=ok", "returned although "+res.Why+" cannot fit in the context")
				}
			case cs.Fn == "string.rep":
				// a large result that still fitted: check its structure
				got, err := strconv.Unquote(strings.TrimPrefix(out.Rets, "s:"))
				if err != nil || !res.N.IsInt64() || !verifyRep(string(cs.Args[0].V.S), cs.Args[1].V.V(), cs.Args, got) {
					r.violation(cs, "mismatch", "wrong result (large)", fmt.Sprintf("returned a value of %d encoded bytes that is not %s", len(out.Rets), res.Why))
				}
				c.Feature("large-rep-verified", 1)
			case out.Rets != sm.EncList(res.Vals):
				r.violation(cs, "mismatch", "wrong result (huge)", fmt.Sprintf("the manual gives [%s]; golua returns [%s]", sm.EncList(res.Vals), out.Rets))
			default:
				checkContents = true
			}
		}
	}
	if checkContents {
		for i, t := range tabs {
			got, problem := r.readStore(t.backing)
			if problem != "" {
				r.violation(cs, "mismatch", "table unreadable", problem)
				continue
			}
			if !got.Equal(stores[i]) {
				r.violation(cs, "mismatch", "wrong final contents",
					fmt.Sprintf("T%d afterwards: the manual gives %s; golua leaves %s", i+1, stores[i], got))
			}
			for _, e := range t.empties {
				if raw, _ := r.readStore(e); len(raw.M)+len(raw.Other) != 0 {
					r.violation(cs, "mismatch", "proxy written raw", fmt.Sprintf("the proxy of T%d was assigned to directly, bypassing __newindex: %s", i+1, raw))
				}
			}
		}
		if packed != nil {
			pv := out1.Get(rt.IntValue(1))
			if pt, ok := pv.TryTable(); !ok {
				r.violation(cs, "mismatch", "pack result not a table", r.sess.N.Enc(pv))
			} else if got, problem := r.readStore(pt); problem != "" || !got.Equal(packed) {
				r.violation(cs, "mismatch", "wrong packed table", fmt.Sprintf("the manual gives %s; golua builds %s %s", packed, got, problem))
			}
		}
	}
	if !cs.plainInRange() || res.St != sm.Val {
		c.NonTrivial(vp.Hash(caseJSON(cs)))
	}
	if c.WantSample() && res.St == sm.Val && !cs.plainInRange() && r.ncalls%97 == 0 {
		c.Sample(map[string]interface{}{"call": cs.Lua(), "golua": brief(out), "model": sm.EncList(res.Vals)})
	}
}

// weak checks what still holds when the model says Skip.
func (r *runner) weak(cs *Case, out *gl.Outcome) {
	if (cs.Fn == "string.upper" || cs.Fn == "string.lower") && len(cs.Args) == 1 && cs.Args[0].V.K == sm.Str {
		in := string(cs.Args[0].V.S)
		if !noValidMultibyte(in) {
			r.c.Feature("skip-locale/"+cs.Fn, 1)
			return
		}
		// every byte >= 0x80 is not part of a UTF-8 character: in any locale
		// characters map to characters
		if out.Kind != gl.OK {
			r.violation(cs, "mismatch", "want=value got="+out.Kind, brief(out))
			return
		}
		got, err := strconv.Unquote(strings.TrimPrefix(out.Rets, "s:"))
		if err != nil || !strings.HasPrefix(out.Rets, "s:") || !sm.CaseWeak(in, got, cs.Fn == "string.upper") {
			r.violation(cs, "mismatch", "bytes>=0x80 not preserved",
				fmt.Sprintf("upper/lower must map characters to characters (same length, ASCII bytes mapped in place); golua returns [%s]", out.Rets))
		}
		r.c.Feature("weak-case-check", 1)
		r.c.NonTrivial(vp.Hash(caseJSON(cs)))
	}
}

func brief(o *gl.Outcome) string {
	s := "kind=" + o.Kind
	if o.Kind == gl.OK {
		rets := o.Rets
		if len(rets) > 300 {
			rets = rets[:300] + "..."
		}
		s += " results=[" + rets + "]"
	}
	if o.ErrMsg != "" {
		s += " error=" + strconv.Quote(o.ErrMsg)
	}
	if o.CtxStatus != "" {
		s += fmt.Sprintf(" ctx=%s cpu=%d mem=%d", o.CtxStatus, o.UsedCPU, o.UsedMem)
	}
	return s
}
