package c19

import (
	"math"
	"math/big"
	"math/rand"
	"unicode/utf8"

	sm "verif/internal/strmodel"
)

func bigInt(i int64) *big.Int { return big.NewInt(i) }

// noValidMultibyte: s has a byte >= 0x80 and none of them belongs to a valid
// UTF-8 sequence.
func noValidMultibyte(s string) bool {
	high := false
	for i := 0; i < len(s); {
		r, w := utf8.DecodeRuneInString(s[i:])
		switch {
		case r == utf8.RuneError && w == 1:
			high = true
			i++
		case w > 1:
			return false
		default:
			i += w
		}
	}
	return high
}

// verifyRep checks got == rep(s, n, sep) without building the expected value.
func verifyRep(s string, nv sm.V, args []Arg, got string) bool {
	n := nv.I
	if nv.K == sm.Float {
		n = int64(nv.F)
	}
	sep := ""
	if len(args) > 2 {
		sep = string(args[2].V.S)
	}
	unit := len(s) + len(sep)
	if n <= 0 || unit == 0 {
		return got == ""
	}
	if int64(len(got)) != n*int64(len(s))+(n-1)*int64(len(sep)) {
		return false
	}
	for off := 0; off < len(got); off += unit {
		if got[off:off+len(s)] != s {
			return false
		}
		if off+len(s) < len(got) && got[off+len(s):off+unit] != sep {
			return false
		}
	}
	return true
}

// strs enumerates all strings of length <= maxLen over the alphabet.
func strs(alpha string, maxLen int) []string {
	out := []string{""}
	prev := []string{""}
	for l := 1; l <= maxLen; l++ {
		var cur []string
		for _, p := range prev {
			for i := 0; i < len(alpha); i++ {
				cur = append(cur, p+alpha[i:i+1])
			}
		}
		out = append(out, cur...)
		prev = cur
	}
	return out
}

// positions: {minint, minint+1, -l-2 .. l+2, maxint-1, maxint}
func positions(l int64) []int64 {
	ps := []int64{math.MinInt64, math.MinInt64 + 1}
	for p := -l - 2; p <= l+2; p++ {
		ps = append(ps, p)
	}
	return append(ps, math.MaxInt64-1, math.MaxInt64)
}

// enum is the shared "every k-th case is mine" enumerator.
type enum struct {
	r   *runner
	idx int
}

// mine advances the global enumeration and says whether the case belongs to
// this batch; cases are only built when it does.
func (e *enum) mine() bool {
	e.idx++
	return e.r.c.Mine(e.idx)
}

func (e *enum) call(fn string, args ...Arg) {
	if e.mine() {
		e.r.run(&Case{Fn: fn, Args: args})
	}
}

// ---------------------------------------------------------------------------
// stage str-exh

func (r *runner) strExhaustive() {
	e := &enum{r: r}
	maxLen := r.c.Pick(3, 4)
	ss := strs("ab\x00", maxLen)
	seps := []string{"", ","}
	for _, s := range ss {
		l := int64(len(s))
		ps := positions(l)
		// sub, byte
		e.call("string.sub", sa(s))
		e.call("string.byte", sa(s))
		for _, i := range ps {
			e.call("string.sub", sa(s), ia(i))
			e.call("string.byte", sa(s), ia(i))
			for _, j := range ps {
				e.call("string.sub", sa(s), ia(i), ia(j))
				e.call("string.byte", sa(s), ia(i), ia(j))
			}
		}
		// len, reverse, upper, lower
		for _, fn := range []string{"string.len", "string.reverse", "string.upper", "string.lower"} {
			e.call(fn, sa(s))
		}
		// rep
		e.call("string.rep", sa(s))
		for _, n := range ps {
			e.call("string.rep", sa(s), ia(n))
			for _, sep := range seps {
				e.call("string.rep", sa(s), ia(n), sa(sep))
			}
		}
		// large but finite counts whose product with the length overflows or not
		for _, n := range []int64{1 << 14, 1 << 31, 1 << 32, 1<<62 - 1, 1 << 62, 1<<62 + 1, math.MaxInt64/2 + 1, math.MaxInt64 / 3, math.MaxInt64/3 + 1} {
			e.call("string.rep", sa(s), ia(n))
			e.call("string.rep", sa(s), ia(n), sa(""))
			e.call("string.rep", sa(s), ia(n), sa(","))
		}
		// find
		for _, p := range ss {
			e.call("string.find", sa(s), sa(p))
			for _, init := range ps {
				e.call("string.find", sa(s), sa(p), ia(init))
				e.call("string.find", sa(s), sa(p), ia(init), sc(sm.B(true)))
				e.call("string.find", sa(s), sa(p), ia(init), sc(sm.B(false)))
			}
		}
	}
	// one result of a few MB: large, but it fits in the context
	e.call("string.rep", sa("ab"), ia(1<<20), sa(","))
	// missing / wrong arguments
	for _, fn := range []string{"string.sub", "string.byte", "string.rep", "string.reverse", "string.upper", "string.lower", "string.len", "string.find"} {
		e.call(fn)
		e.call(fn, sc(sm.B(true)))
		e.call(fn, sc(sm.R(1)))
	}
	e.call("string.find", sa("abc"))
	e.call("string.sub", sa("abc"), sc(sm.B(true)))
	e.call("string.sub", sa("abc"), ia(1), sc(sm.R(1)))
	e.call("string.rep", sa("abc"), sc(sm.B(false)))
	e.call("string.rep", sa("abc"), ia(2), sc(sm.B(false)))
	e.call("string.find", sa("abc"), sc(sm.B(true)))
	e.call("string.find", sa("abc"), sa("b"), sc(sm.B(true)))
	// floats with and without an integer value as positions / counts (§3.4.3)
	for _, f := range []float64{2, -1, 0, 2.5, -0.5, math.Inf(1), math.NaN(), 9223372036854775808.0, -9223372036854775808.0, 1e300} {
		e.call("string.sub", sa("abcd"), sc(sm.F(f)))
		e.call("string.sub", sa("abcd"), ia(1), sc(sm.F(f)))
		e.call("string.byte", sa("abcd"), sc(sm.F(f)))
		e.call("string.rep", sa("ab"), sc(sm.F(f)))
		e.call("string.find", sa("abab"), sa("b"), sc(sm.F(f)), sc(sm.B(true)))
		e.call("string.char", sc(sm.F(f)))
	}
	// plain = true really turns the magic characters off
	for _, s := range []string{"a.b", "a%b", "a+b*", "x[%a]", "(a)", "^a$", "a-b", "a?b"} {
		for _, p := range []string{".", "%", "+", "*", "[%a]", "(a)", "^a", "a$", "$", "-", "?", "%a", "a.b"} {
			for _, init := range []int64{1, 2, -2} {
				e.call("string.find", sa(s), sa(p), ia(init), sc(sm.B(true)))
				e.call("string.find", sa(s), sa(p), ia(init), sc(sm.I(1))) // any true value
			}
		}
	}
	// upper / lower: every single byte, and pairs over the letter-range boundaries
	for b := 0; b < 256; b++ {
		e.call("string.upper", sa(string([]byte{byte(b)})))
		e.call("string.lower", sa(string([]byte{byte(b)})))
	}
	for _, s := range strs("@AZ[`az{\x00\xff\xc3", r.c.Pick(2, 3)) {
		e.call("string.upper", sa(s))
		e.call("string.lower", sa(s))
		e.call("string.reverse", sa(s))
		e.call("string.len", sa(s))
	}
	// char: tuples over boundary codes
	codes := []int64{-1, 0, 1, 97, 255, 256, math.MinInt64, math.MaxInt64}
	var rec func(prefix []Arg, depth int)
	maxChar := r.c.Pick(3, 4)
	rec = func(prefix []Arg, depth int) {
		e.call("string.char", append([]Arg(nil), prefix...)...)
		if depth == maxChar {
			return
		}
		for _, cd := range codes {
			rec(append(prefix, ia(cd)), depth+1)
		}
	}
	rec(nil, 0)
	for b := int64(0); b < 256; b++ {
		e.call("string.char", ia(b))
		e.call("string.byte", sa(string([]byte{byte(b)})))
	}
	if r.c.Batch == 0 {
		r.c.Feature("enumerated", int64(e.idx))
	}
}

// ---------------------------------------------------------------------------
// stage tab-exh

// element of class cl (0 string, 1 integer, 2 reference) tagged with its
// original position so that all elements are distinct
func elem(cl byte, pos int) sm.V {
	switch cl {
	case 0:
		return sm.S("s" + string(rune('0'+pos)))
	case 1:
		return sm.I(int64(10 + pos))
	}
	return sm.R(pos)
}

func seqs(maxLen int) []*sm.Store {
	var out []*sm.Store
	for _, pat := range strs("\x00\x01\x02", maxLen) {
		s := sm.NewStore()
		for i := 0; i < len(pat); i++ {
			s.Set(int64(i+1), elem(pat[i], i+1))
		}
		out = append(out, s)
	}
	return out
}

func (r *runner) tabExhaustive() {
	e := &enum{r: r}
	maxLen := r.c.Pick(3, 4)
	all := seqs(maxLen)
	seps := []string{"", ","}
	newV := sm.S("new")
	type variant struct {
		kind int
		L    int64
	}
	for _, st := range all {
		n := int64(len(st.M))
		vars := []variant{{kPlain, n}, {kNoLen, 0}}
		for _, k := range []int{kFnProxy, kTabProxy, kChain} {
			vars = append(vars, variant{k, n}, variant{k, n + 1})
			if n > 0 {
				vars = append(vars, variant{k, n - 1})
			}
		}
		for _, vr := range vars {
			T := []TabSpec{specOf(st, vr.kind, vr.L)}
			do := func(fn string, args ...Arg) {
				if e.mine() {
					e.r.run(&Case{Fn: fn, Tabs: T, Args: append([]Arg{tb(1)}, args...)})
				}
			}
			ps := positions(vr.L)
			// insert
			do("table.insert")
			for _, v := range []sm.V{newV, sm.NilV, sm.R(7)} {
				do("table.insert", sc(v))
				for _, p := range ps {
					do("table.insert", ia(p), sc(v))
				}
			}
			do("table.insert", ia(1), sc(newV), sc(newV))
			do("table.insert", sc(sm.B(true)), sc(newV))
			do("table.insert", sc(sm.F(1.5)), sc(newV))
			do("table.insert", sc(sm.F(1)), sc(newV))
			// remove
			do("table.remove")
			for _, p := range ps {
				do("table.remove", ia(p))
			}
			do("table.remove", sc(sm.B(true)))
			do("table.remove", sc(sm.F(1)))
			do("table.remove", sc(sm.F(0.5)))
			// concat
			do("table.concat")
			for _, sep := range seps {
				do("table.concat", sa(sep))
				for _, i := range ps {
					do("table.concat", sa(sep), ia(i))
					for _, j := range ps {
						do("table.concat", sa(sep), ia(i), ia(j))
					}
				}
			}
			do("table.concat", sc(sm.B(true)))
			do("table.concat", sa(","), sc(sm.B(true)))
			do("table.concat", sa(","), ia(1), sc(sm.R(2)))
			// unpack
			do("table.unpack")
			for _, i := range ps {
				do("table.unpack", ia(i))
				for _, j := range ps {
					do("table.unpack", ia(i), ia(j))
				}
			}
			do("table.unpack", sc(sm.B(true)))
			do("table.unpack", ia(1), sc(sm.F(2.5)))
			do("table.unpack", sc(sm.F(1)), sc(sm.F(2)))
		}
		// move: the length operator plays no role; plain and two proxy kinds,
		// destinations: the table itself (implicit and explicit), another plain
		// table, another proxy
		// (quick tier: the element classes are irrelevant to move, one
		// sequence per length - the all-strings one - is used)
		if !r.c.Thorough() {
			allStr := true
			for _, v := range st.M {
				allStr = allStr && v.K == sm.Str
			}
			if !allStr {
				continue
			}
		}
		other := sm.SeqStore(sm.S("d1"), sm.S("d2"))
		ps := positions(n)
		for _, kind := range []int{kPlain, kFnProxy, kTabProxy} {
			for dv := 0; dv < 4; dv++ {
				if kind != kPlain && dv == 1 {
					continue
				}
				T := []TabSpec{specOf(st, kind, n)}
				var dst []Arg
				switch dv {
				case 1:
					dst = []Arg{tb(1)}
				case 2:
					T = append(T, specOf(other, kPlain, 2))
					dst = []Arg{tb(2)}
				case 3:
					T = append(T, specOf(other, kFnProxy, 2))
					dst = []Arg{tb(2)}
				}
				for _, f := range ps {
					for _, en := range ps {
						for _, t := range ps {
							if e.mine() {
								e.r.run(&Case{Fn: "table.move", Tabs: T, Args: append([]Arg{tb(1), ia(f), ia(en), ia(t)}, dst...)})
							}
						}
					}
				}
				if e.mine() {
					e.r.run(&Case{Fn: "table.move", Tabs: T, Args: []Arg{tb(1), ia(1), ia(2)}})
				}
				if e.mine() {
					e.r.run(&Case{Fn: "table.move", Tabs: T, Args: []Arg{tb(1), ia(1), ia(2), ia(1), sc(sm.B(true))}})
				}
				if e.mine() {
					e.r.run(&Case{Fn: "table.move", Tabs: T, Args: []Arg{tb(1), ia(1), sc(sm.B(true)), ia(1)}})
				}
			}
		}
	}
	// tables with entries at the ends of the integer range and around 0
	// (several borders: only calls with explicit positions, or proxies with __len)
	xs := []*sm.Store{sm.NewStore(), sm.NewStore(), sm.NewStore(), sm.NewStore()}
	xs[0].Set(math.MaxInt64-1, sm.S("p"))
	xs[0].Set(math.MaxInt64, sm.S("q"))
	xs[1].Set(math.MinInt64, sm.S("r"))
	xs[1].Set(math.MinInt64+1, sm.S("s"))
	xs[2].Set(-1, sm.S("a"))
	xs[2].Set(0, sm.S("b"))
	xs[2].Set(1, sm.S("c"))
	xs[3].Set(math.MinInt64, sm.S("lo"))
	xs[3].Set(1, sm.S("one"))
	xs[3].Set(math.MaxInt64, sm.S("hi"))
	xp := []int64{math.MinInt64, math.MinInt64 + 1, math.MinInt64 + 2, -2, -1, 0, 1, 2, math.MaxInt64 - 2, math.MaxInt64 - 1, math.MaxInt64}
	for _, st := range xs {
		for _, kind := range []int{kPlain, kFnProxy} {
			T := []TabSpec{specOf(st, kind, 1)}
			for _, i := range xp {
				for _, j := range xp {
					if e.mine() {
						e.r.run(&Case{Fn: "table.concat", Tabs: T, Args: []Arg{tb(1), sa(","), ia(i), ia(j)}})
					}
					if e.mine() {
						e.r.run(&Case{Fn: "table.unpack", Tabs: T, Args: []Arg{tb(1), ia(i), ia(j)}})
					}
					for _, t := range xp {
						if e.mine() {
							e.r.run(&Case{Fn: "table.move", Tabs: T, Args: []Arg{tb(1), ia(i), ia(j), ia(t)}})
						}
					}
				}
			}
		}
		// a proxy whose __len is at an end of the range: remove(t) / remove(t, #t) / insert out of range
		for _, L := range []int64{math.MaxInt64, math.MaxInt64 - 1} {
			T := []TabSpec{specOf(st, kFnProxy, L)}
			if e.mine() {
				e.r.run(&Case{Fn: "table.remove", Tabs: T, Args: []Arg{tb(1)}})
			}
			for _, p := range xp {
				if e.mine() {
					e.r.run(&Case{Fn: "table.remove", Tabs: T, Args: []Arg{tb(1), ia(p)}})
				}
				if e.mine() {
					e.r.run(&Case{Fn: "table.insert", Tabs: T, Args: []Arg{tb(1), ia(p), sa("v")}})
				}
			}
			if e.mine() {
				e.r.run(&Case{Fn: "table.insert", Tabs: T, Args: []Arg{tb(1), sa("v")}})
			}
		}
	}
	// pack
	var rec func(prefix []Arg, depth int)
	rec = func(prefix []Arg, depth int) {
		if e.mine() {
			e.r.run(&Case{Fn: "table.pack", Args: append([]Arg(nil), prefix...)})
		}
		if depth == maxLen+1 {
			return
		}
		for _, v := range []sm.V{sm.NilV, sm.I(1), sm.S("a"), sm.R(3)} {
			rec(append(prefix, sc(v)), depth+1)
		}
	}
	rec(nil, 0)
	// not a table
	for _, fn := range []string{"table.insert", "table.remove", "table.concat", "table.unpack", "table.move"} {
		if e.mine() {
			e.r.run(&Case{Fn: fn})
		}
		if e.mine() {
			e.r.run(&Case{Fn: fn, Args: []Arg{sa("str"), ia(1), ia(1), ia(1)}})
		}
		if e.mine() {
			e.r.run(&Case{Fn: fn, Args: []Arg{sc(sm.NilV), ia(1), ia(1), ia(1)}})
		}
	}
	if r.c.Batch == 0 {
		r.c.Feature("enumerated", int64(e.idx))
	}
}

// ---------------------------------------------------------------------------
// stage random

const randAlpha = "ab\x00.%([-*^$]+?z\xff"

func randStr(rd *rand.Rand, maxLen int, alpha string) string {
	n := rd.Intn(maxLen + 1)
	b := make([]byte, n)
	for i := range b {
		b[i] = alpha[rd.Intn(len(alpha))]
	}
	return string(b)
}

func randPos(rd *rand.Rand, l int64) int64 {
	switch rd.Intn(12) {
	case 0:
		return math.MinInt64 + int64(rd.Intn(3))
	case 1:
		return math.MaxInt64 - int64(rd.Intn(3))
	case 2:
		return -l - int64(rd.Intn(4))
	case 3:
		return l + int64(rd.Intn(4))
	case 4:
		return int64(rd.Intn(3)) - 1
	case 5:
		return int64(rd.Uint64())
	case 6, 7:
		return -int64(rd.Int63n(l + 2))
	}
	return int64(rd.Int63n(l + 2))
}

func randElem(rd *rand.Rand, tag int) sm.V {
	switch rd.Intn(10) {
	case 0:
		return sm.I(int64(rd.Intn(2000) - 1000))
	case 1:
		return sm.R(1 + rd.Intn(nRefs))
	case 2:
		return sm.B(rd.Intn(2) == 0)
	}
	return sm.S("e" + string(rune('a'+tag%26)) + string(rune('a'+(tag/26)%26)))
}

func (r *runner) random() {
	rd := r.c.Rand("random")
	n := r.c.Pick(100000, 4000000) / r.c.NB
	r.cpu = 60000
	for it := 0; it < n; it++ {
		var cs Case
		switch rd.Intn(14) {
		case 0, 1:
			s := randStr(rd, 40, randAlpha)
			l := int64(len(s))
			cs = Case{Fn: []string{"string.sub", "string.byte"}[rd.Intn(2)], Args: []Arg{sa(s)}}
			for k := rd.Intn(3); k > 0; k-- {
				cs.Args = append(cs.Args, ia(randPos(rd, l)))
			}
		case 2:
			// find: a pattern cut out of the subject (so that it occurs) or random
			s := randStr(rd, 40, randAlpha)
			var p string
			if len(s) > 0 && rd.Intn(3) > 0 {
				a := rd.Intn(len(s))
				b := a + rd.Intn(len(s)-a+1)
				if b > a+4 {
					b = a + 4
				}
				p = s[a:b]
			} else {
				p = randStr(rd, 3, randAlpha)
			}
			cs = Case{Fn: "string.find", Args: []Arg{sa(s), sa(p)}}
			if rd.Intn(8) > 0 {
				cs.Args = append(cs.Args, ia(randPos(rd, int64(len(s)))))
				switch rd.Intn(4) {
				case 0:
				case 1:
					cs.Args = append(cs.Args, sc(sm.B(false)))
				default:
					cs.Args = append(cs.Args, sc(sm.B(true)))
				}
			}
		case 3:
			s := randStr(rd, 12, randAlpha)
			sep := randStr(rd, 3, ",;\x00")
			var cnt int64
			switch rd.Intn(6) {
			case 0:
				cnt = randPos(rd, 5)
			case 1:
				// astronomically large: far beyond any memory limit unless the result is empty
				cnt = int64(1)<<40 + int64(rd.Int63n(1<<62))
			default:
				cnt = int64(rd.Intn(200))
			}
			cs = Case{Fn: "string.rep", Args: []Arg{sa(s), ia(cnt)}}
			if rd.Intn(2) == 0 {
				cs.Args = append(cs.Args, sa(sep))
			}
		case 4:
			alpha := "abzAZ@[`{ 09\x00~"
			if rd.Intn(3) == 0 {
				alpha += "\xff\xfe\x80\xc0"
			}
			if rd.Intn(6) == 0 {
				alpha += "\xc3\xa9\x89"
			}
			cs = Case{Fn: []string{"string.upper", "string.lower", "string.reverse", "string.len"}[rd.Intn(4)], Args: []Arg{sa(randStr(rd, 60, alpha))}}
		case 5:
			cs = Case{Fn: "string.char"}
			for k := rd.Intn(20); k > 0; k-- {
				if rd.Intn(25) == 0 {
					cs.Args = append(cs.Args, ia(randPos(rd, 255)))
				} else {
					cs.Args = append(cs.Args, ia(int64(rd.Intn(256))))
				}
			}
		case 13:
			cs = Case{Fn: "table.pack"}
			for k := rd.Intn(30); k > 0; k-- {
				if rd.Intn(4) == 0 {
					cs.Args = append(cs.Args, sc(sm.NilV))
				} else {
					cs.Args = append(cs.Args, sc(randElem(rd, k)))
				}
			}
		default:
			cs = r.randTableCase(rd)
		}
		r.run(&cs)
	}
}

func (r *runner) randTableCase(rd *rand.Rand) Case {
	n := rd.Intn(40)
	if rd.Intn(10) == 0 {
		n = rd.Intn(300)
	}
	st := sm.NewStore()
	strOnly := rd.Intn(2) == 0
	for i := 1; i <= n; i++ {
		v := randElem(rd, i)
		if strOnly && v.K != sm.Str && v.K != sm.Int {
			v = sm.S("x" + string(rune('a'+i%26)))
		}
		st.Set(int64(i), v)
	}
	kind := kPlain
	L := int64(n)
	if rd.Intn(2) == 0 {
		kind = 1 + rd.Intn(4)
		switch {
		case kind == kNoLen:
			L = 0
		case rd.Intn(3) == 0:
			// a __len that does not match the contents
			L = int64(rd.Intn(n + 5))
		}
	}
	T := []TabSpec{specOf(st, kind, L)}
	pos := func() Arg { return ia(randPos(rd, L)) }
	cs := Case{Tabs: T}
	switch rd.Intn(6) {
	case 0:
		cs.Fn = "table.insert"
		cs.Args = []Arg{tb(1)}
		if rd.Intn(2) == 0 {
			cs.Args = append(cs.Args, pos())
		}
		cs.Args = append(cs.Args, sc(randElem(rd, 700)))
	case 1:
		cs.Fn = "table.remove"
		cs.Args = []Arg{tb(1)}
		if rd.Intn(3) > 0 {
			cs.Args = append(cs.Args, pos())
		}
	case 2:
		cs.Fn = "table.concat"
		cs.Args = []Arg{tb(1)}
		k := rd.Intn(4)
		if k >= 1 {
			cs.Args = append(cs.Args, sa(randStr(rd, 3, ",; \x00")))
		}
		if k >= 2 {
			cs.Args = append(cs.Args, pos())
		}
		if k >= 3 {
			cs.Args = append(cs.Args, pos())
		}
	case 3:
		cs.Fn = "table.unpack"
		cs.Args = []Arg{tb(1)}
		for k := rd.Intn(3); k > 0; k-- {
			cs.Args = append(cs.Args, pos())
		}
	default:
		cs.Fn = "table.move"
		// ranges that stay small most of the time, overlapping both ways
		f := randPos(rd, L)
		var e int64
		if rd.Intn(5) == 0 {
			e = randPos(rd, L)
		} else {
			d := int64(rd.Intn(n+3)) - 1
			if f > math.MaxInt64-d {
				e = math.MaxInt64
			} else {
				e = f + d
			}
		}
		var t int64
		if rd.Intn(4) == 0 {
			t = randPos(rd, L)
		} else {
			d := int64(rd.Intn(2*n+5)) - int64(n) - 2
			t = f + d
			if (d > 0 && t < f) || (d < 0 && t > f) {
				t = f
			}
		}
		cs.Args = []Arg{tb(1), ia(f), ia(e), ia(t)}
		switch rd.Intn(4) {
		case 0:
			cs.Args = append(cs.Args, tb(1))
		case 1:
			d := sm.NewStore()
			for i := 1; i <= rd.Intn(20); i++ {
				d.Set(int64(i), sm.S("d"+string(rune('a'+i))))
			}
			dl, _ := d.SeqLen()
			cs.Tabs = append(cs.Tabs, specOf(d, []int{kPlain, kFnProxy, kTabProxy, kChain}[rd.Intn(4)], dl))
			cs.Args = append(cs.Args, tb(2))
		}
	}
	return cs
}
