// Package c20 checks property C20 (independent runtimes are isolated): a
// runtime's complete outcome when another runtime runs hostile code between
// its steps, or concurrently on other goroutines, must equal its outcome when
// it runs alone; the concurrent stages run on -race builds.
package c20

import (
	"fmt"
	"hash/fnv"
	"math/rand"
	"regexp"
	"strings"
	"sync"
	"time"

	rt "github.com/arnodel/golua/runtime"

	"verif/internal/eng"
	"verif/internal/gl"
	"verif/internal/lg"
	"verif/internal/vp"
)

type Prop struct{}

func (Prop) ID() string { return "C20" }

func (Prop) Plan(t vp.Tier) []vp.Stage {
	st := []vp.Stage{
		{Name: "interleave", NBatches: 16, TimeoutS: 1800},
		{Name: "concurrent-race-p2", NBatches: 4, Race: true, Env: []string{"GOMAXPROCS=2"}, TimeoutS: 2400},
		{Name: "concurrent-race-p16", NBatches: 4, Race: true, Env: []string{"GOMAXPROCS=16"}, TimeoutS: 2400},
	}
	if t == vp.Thorough {
		st = append(st,
			vp.Stage{Name: "concurrent-race-p4", NBatches: 4, Race: true, Env: []string{"GOMAXPROCS=4"}, TimeoutS: 2400},
			vp.Stage{Name: "concurrent-race-p8", NBatches: 4, Race: true, Env: []string{"GOMAXPROCS=8"}, TimeoutS: 2400},
			vp.Stage{Name: "concurrent-plain-p16", NBatches: 8, Env: []string{"GOMAXPROCS=16"}, TimeoutS: 2400})
	}
	return st
}

func (Prop) Describe(t vp.Tier) vp.Description {
	return vp.Description{
		Rule: "A case is a victim program A (a template using the string metatable, math.random after randomseed, ipairs/pairs/next, table/string/utf8/coroutine/runtime library functions, or a generated C01 program) and a hostile script B. " +
			"A runs once alone (outcome digest D: every event, results, error value and message). Stage interleave: A runs again in runtime RA while, at every emit of A, the host runs the next step of B in another runtime RB " +
			"(B redefines and removes globals and library functions, replaces the string metatable and type metatables through debug.setmetatable, seeds and draws random numbers, switches collector modes, exhausts CPU and memory quotas, raises errors, is closed and recreated); the digest must equal D. " +
			"Stages concurrent-*: G goroutines (2..16) each create a runtime, load the libraries and run their A while hostile B's and a runtime-creation loop run on other goroutines, on -race builds under several GOMAXPROCS; every digest must equal the solo digest and the race detector must stay silent. " +
			"Non-trivial: A produced >= 3 events; distinct by (A, B).",
		Assumptions: []string{
			"differential: a runtime is compared with itself running alone, so only interference is judged (what A should compute is judged by the other properties)",
			"A's outcome alone is deterministic (checked: two solo runs must agree, otherwise the case is inconclusive)",
			"the race detector only sees the interleavings that occurred",
		},
		Floor: map[vp.Tier]int64{vp.Quick: 300, vp.Thorough: 6000}[t],
	}
}

var addrRE = regexp.MustCompile(`0x[0-9a-f]{6,}`)

// digest hashes a complete outcome; addresses printed by tostring(table) and
// the like are masked (they legitimately differ from run to run).
func digest(o *gl.Outcome) string {
	h := fnv.New64a()
	fmt.Fprintf(h, "%s|%s|%s|%s|%s", o.Kind, addrRE.ReplaceAllString(o.Rets, "0x?"), addrRE.ReplaceAllString(o.ErrVal, "0x?"), addrRE.ReplaceAllString(o.ErrMsg, "0x?"), o.PanicMsg)
	for _, e := range o.Trace {
		h.Write([]byte(addrRE.ReplaceAllString(e, "0x?")))
		h.Write([]byte{0})
	}
	return fmt.Sprintf("%016x/%d", h.Sum64(), len(o.Trace))
}

// victim templates: deterministic programs that lean on per-runtime state.
var victims = []string{
	`math.randomseed(7)
local acc = {}
for i = 1, 12 do acc[#acc + 1] = math.random(1000); if i % 3 == 0 then emit(i) end end
emit(table.unpack(acc))
math.randomseed(7)
emit(math.random(1000), math.random(), math.random(5, 9))`,
	`emit(("hello"):upper(), ("x"):rep(3), #("abc"), ("abc"):sub(2), ("a,b"):find(",", 1, true))
for i = 1, 4 do emit(("s" .. i):reverse(), ("%d-%s"):format(i, "z")) end
emit(getmetatable("").__index == string, ("x").len == string.len)
emit(pcall(function() return ("x"):nosuchmethod() end))`,
	`local t = {10, 20, 30, x = 1}
for i, v in ipairs(t) do emit(i, v) end
local n = 0
for k, v in pairs(t) do n = n + v; emit("step") end
emit(n, next({}), type(next), rawlen(t), select("#", table.unpack(t)))
emit(tostring(12), tonumber("0x10"), type(print), rawequal(t, t), #t)`,
	`local ctx = runtime.callcontext({kill = {cpu = 2000}}, function() local n = 0 for i = 1, 50 do n = n + i; if i % 10 == 0 then emit(i) end end emit(n) end)
emit(ctx.status, ctx.used.cpu, ctx.kill.cpu)
local c2 = runtime.callcontext({kill = {cpu = 100}}, function() while true do end end)
emit(c2.status, runtime.context().kill.cpu)
emit(pcall(runtime.callcontext, {flags = "iosafe"}, function() return io.open("/nonexistent") end))`,
	`emit(math.huge, math.pi > 3, math.maxinteger, math.type(1), math.floor(2.5), math.max(1, 5, 3), math.tointeger(3.0), math.ult(1, -1))
emit(utf8.char(72, 228), utf8.len("h\195\164ll"), #utf8.charpattern)
emit(table.concat({1, 2, 3}, ","), select(2, table.unpack({1, 2, 3})), table.pack(1, nil).n)
local t = {5, 2, 8}; table.sort(t); emit(t[1], t[2], t[3]); table.insert(t, 1, 0); emit(table.remove(t), #t)
emit(string.format("%5.2f|%q|%x", 3.14159, "a\nb", 255), ("%s"):rep(2, "-"))`,
	`local co = coroutine.wrap(function(a) local b = coroutine.yield(a + 1); emit("in", b); return b * 2 end)
emit(co(1)); emit(co(10))
local c = coroutine.create(function() error({code = 7}) end)
local ok, e = coroutine.resume(c); emit(ok, type(e), e.code, coroutine.status(c), coroutine.isyieldable())
emit(select(2, coroutine.running()), package.loaded.string == string, type(require), type(package.path))
emit(package.config, select(2, package.searchpath("no.such.mod", "./?.lua;/x/?/init.lua")), select(2, pcall(require, "no.such.mod")) ~= nil)
collectgarbage(); emit(collectgarbage("count") > 0, collectgarbage("isrunning"))`,
	`local mt = {__index = function(t, k) return k .. "?" end, __add = function(a, b) return 42 end, __tostring = function() return "OBJ" end}
local o = setmetatable({}, mt)
emit(o.foo, o + 1, tostring(o), getmetatable(o) == mt)
emit(pcall(error, {1})); emit(select("#", pcall(error)))
local ok, msg = pcall(function() local x = nil; return x.y end); emit(ok, msg)
emit(load("return 1 + 1")(), load("syntax error here"), type(_G), _VERSION)
goto done; emit("skipped"); ::done:: emit(os.time({year = 2020, month = 1, day = 1, hour = 0}) ~= nil, type(os.clock()))`,
	// the compiler front end under load: every kind of escape sequence and numeral, compiled
	// again and again through load() (all runtimes share the scanner/parser/compiler code)
	`emit("\u{48}\u{E4}\u{20AC}\u{1F600}|\x41\65\z
      \u{7FFFFFFF}|\u{10FFFF}", #"\u{800}\u{7FF}\u{10000}", 0x7fffffffffffffff, 0x1p-2, 1e2, 0xA.8p0, [==[
long]==])
for i = 1, 40 do
  local cp = 0x80 + i * 1777
  local src = "return '\\u{" .. string.format("%X", cp) .. "}\\u{41}\\u{" .. string.format("%X", i) .. "}', " .. i .. ", 0x" .. string.format("%x", cp) .. ", '\\" .. (65 + i % 20) .. "'"
  local a, b, c, d = load(src)()
  if i % 4 == 0 then emit(a == utf8.char(cp, 65, i), b, c, d) end
end`,
}

// hostile steps, each a chunk run in RB.
var hostile = []string{
	`string.upper = function() return "HACKED" end; string.rep = nil; string.format = function() return "F" end; string.len = nil`,
	`getmetatable("").__index = function() return function() return "X" end end; getmetatable("").__add = function() return 666 end`,
	`math.randomseed(1); for i = 1, 7 do math.random(10) end; math.random = function() return 4 end; math.huge = 0; math.maxinteger = 1`,
	`_G.print = nil; _G.ipairs = nil; _G.pairs = function() error("no pairs") end; next = nil; select = nil; tostring = function() return "T" end; type = function() return "nope" end`,
	`collectgarbage("generational"); collectgarbage("incremental"); collectgarbage(); collectgarbage("stop")`,
	`runtime.callcontext({kill = {cpu = 50}}, function() while true do end end)`,
	`runtime.callcontext({kill = {memory = 2000}}, function() local t = {} for i = 1, 1e6 do t[i] = {i} end end)`,
	`error({"B fails"})`,
	`setmetatable(_G, {__index = function() return 42 end, __newindex = function() end}); table.insert = nil; table.unpack = nil; table.sort = error; coroutine.wrap = nil; coroutine.yield = nil`,
	`debug.setmetatable(0, {__index = function() return "num" end, __call = function() return "called" end}); debug.setmetatable(nil, {__index = function() return "nil!" end}); debug.setmetatable(print, {__index = string})`,
	`package.loaded.string = nil; package.path = "hacked"; require = nil; load = nil; pcall = function() return true end; error = function() end; rawequal = nil; utf8 = nil; os = nil; runtime = nil`,
	`local co = coroutine.create(function() while true do coroutine.yield() end end); for i = 1, 5 do coroutine.resume(co) end`,
	`rawset(_G, "emit", nil); for k in pairs(_G) do _G[k] = nil end`,
	`package.config = "\\\n:\n%\n#\n=\n"; package.searchpath("a.b", "x:%.lua"); pcall(require, "another.missing.module"); package.cpath = "nowhere"; package.searchers[2] = nil`,
}

type hostileRT struct {
	s      *gl.Sess
	steps  []rt.Value
	next   int
	runs   int
	r      *rand.Rand
	only   int // >= 0: always run this step
	resets int
}

func newHostile(r *rand.Rand) *hostileRT {
	h := &hostileRT{r: r, only: -1}
	h.reset()
	return h
}

func (h *hostileRT) reset() {
	if h.s != nil {
		h.s.Close()
	}
	// every other hostile runtime is created with options of its own (inside a
	// limited context requiring compliance flags): options given to one runtime
	// must not stick to runtimes created later
	h.resets++
	if h.resets%2 == 0 {
		h.s = gl.NewSess(gl.Options{Ctx: &rt.RuntimeContextDef{HardLimits: rt.RuntimeResources{Cpu: 3000000, Memory: 8 << 20}, RequiredFlags: rt.ComplyCpuSafe | rt.ComplyMemSafe}})
	} else {
		h.s = gl.NewSess(gl.Options{})
	}
	h.steps = nil
	for _, src := range hostile {
		if c, out := h.s.Compile("hostile", src); out == nil {
			h.steps = append(h.steps, rt.FunctionValue(c))
		}
	}
	h.next = h.r.Intn(len(h.steps))
}

// step runs the next hostile chunk (errors and kills are expected).
func (h *hostileRT) step() {
	if len(h.steps) == 0 {
		return
	}
	h.runs++
	if h.runs%17 == 0 {
		h.reset() // closed and recreated
	}
	f := h.steps[h.next%len(h.steps)]
	h.next++
	if h.only >= 0 {
		f = h.steps[h.only%len(h.steps)]
	}
	func() {
		defer func() { recover() }()
		t := h.s.R.MainThread()
		t.CallContext(rt.RuntimeContextDef{HardLimits: rt.RuntimeResources{Cpu: 200000, Memory: 1 << 22}}, func() error {
			return rt.Call(t, f, nil, rt.NewTerminationWith(nil, 0, false))
		})
	}()
}

type victim struct {
	label string
	text  string
	args  []eng.Arg
}

func victimsFor(c *vp.Child, n int, salt int64) []victim {
	var vs []victim
	for i, t := range victims {
		vs = append(vs, victim{label: fmt.Sprintf("template%d", i), text: t})
	}
	for i := 0; len(vs) < n; i++ {
		p, r := eng.GenProgram(c.Seed, 20+salt, i, nil)
		// every other generated victim is rendered with alternative literal spellings
		// (escapes, hex numerals, long brackets), which exercise more of the front end
		st := lg.Style{}
		if i%2 == 1 {
			st = lg.Style{AltLiteral: true, Semis: true, Rnd: rand.New(rand.NewSource(c.Seed*7919 + int64(i)))}
		}
		text, lines := lg.Render(p.Chunk, st)
		args := eng.ArgsFor(r, p.ArgKinds)
		// only programs the reference interpreter can finish within its fuel
		// (no verdict is taken from it here): the others may not terminate
		if ref := eng.RunRef(p, lines, args); ref.Kind == "unspecified" && (strings.Contains(ref.Reason, "fuel") || strings.Contains(ref.Reason, "too l") || strings.Contains(ref.Reason, "depth")) {
			continue
		}
		vs = append(vs, victim{label: fmt.Sprintf("gen%d", i), text: text, args: args})
	}
	return vs
}

func solo(v victim) *gl.Outcome { return eng.RunText(v.text, v.args) }

func interleaved(v victim, h *hostileRT) *gl.Outcome {
	s := gl.NewSess(gl.Options{})
	defer s.Close()
	s.OnEmit = h.step
	clos, out := s.Compile(eng.ChunkName, v.text)
	if out != nil {
		return out
	}
	h.step() // between compilation and the run
	rargs := make([]rt.Value, len(v.args))
	for i, a := range v.args {
		rargs[i] = a.Rt
	}
	return s.Call(rt.FunctionValue(clos), rargs)
}

func (Prop) RunBatch(c *vp.Child) {
	if c.Stage == "interleave" {
		vs := victimsFor(c, c.Pick(1200, 4000), 0)
		r := c.Rand("hostile")
		// outcomes of the templates in a process where no other runtime has
		// existed yet; compared again at the end of the batch, after hundreds of
		// other runtimes (hostile ones, ones created with options) came and went
		pristine := make([]*gl.Outcome, len(victims))
		for ti, t := range victims {
			pristine[ti] = solo(victim{label: "pristine", text: t})
		}
		defer func() {
			for ti, t := range victims {
				c.Begin(fmt.Sprintf("template%d-after-batch", ti), t)
				again := solo(victim{label: "after", text: t})
				c.Eval(1)
				if digest(again) != digest(pristine[ti]) {
					c.Violation("interference", fmt.Sprintf("template %d alone differs after other runtimes ran: %s", ti, firstDiff(pristine[ti], again)),
						fmt.Sprintf("victim template %d run alone in a fresh runtime: at the start of the process %s; after other runtimes (some created with options, some hostile) were created, run and closed %s", ti, pristine[ti].String(), again.String()), t)
				}
			}
		}()
		h := newHostile(r)
		// every template against every single hostile step, deterministically
		k := 0
		for ti, t := range victims {
			for hi := range hostile {
				k++
				if !c.Mine(k) {
					continue
				}
				v := victim{label: fmt.Sprintf("template%d-vs-step%d", ti, hi), text: t}
				c.Begin(v.label, v.text+"\n-- hostile step: "+hostile[hi])
				d1 := solo(v)
				hh := newHostile(r)
				if (hi+ti)%2 == 1 {
					hh.reset() // the second incarnation is created with options
				}
				hh.only = hi
				got := interleaved(v, hh)
				hh.s.Close()
				c.Eval(1)
				c.NonTrivial(vp.Hash(v.label))
				if digest(got) != digest(d1) {
					c.Violation("interference", fmt.Sprintf("template %d vs hostile step %d: %s", ti, hi, firstDiff(d1, got)),
						fmt.Sprintf("victim template %d: outcome alone %s; outcome with hostile step %q run in another runtime at each of its events %s", ti, d1.String(), hostile[hi], got.String()), v.text)
				}
			}
		}
		for i, v := range vs {
			if !c.Mine(i) {
				continue
			}
			c.Begin(v.label, v.text)
			t0 := time.Now()
			d1 := solo(v)
			if time.Since(t0) > 20*time.Second {
				// a workload filter, not a verdict: a victim that needs this long alone
				// would be run four more times here
				c.Inconclusive("victim too slow for the interleaving workload")
				continue
			}
			d2 := solo(v)
			c.Eval(1)
			if digest(d1) != digest(d2) {
				c.Inconclusive("victim not deterministic alone: " + v.label[:3])
				c.Feature("nondeterministic-"+v.label, 1)
				continue
			}
			if d1.Kind == gl.Panic {
				c.Inconclusive("victim panics alone (C04)")
				continue
			}
			got := interleaved(v, h)
			if len(d1.Trace) >= 3 {
				c.NonTrivial(vp.Hash(v.text, fmt.Sprint(h.next)))
			}
			c.Feature("hostile-steps-run", int64(h.runs))
			h.runs = 0
			if digest(got) != digest(d1) {
				c.Violation("interference", "interleave "+firstDiff(d1, got), fmt.Sprintf("victim %s: outcome alone %s; outcome with a hostile runtime stepping between its events %s", v.label, d1.String(), got.String()), v.text)
			} else if c.WantSample() && len(v.text) < 900 {
				c.Sample(map[string]interface{}{"victim": v.text, "events": len(d1.Trace), "outcome": d1.Kind})
			}
		}
		return
	}
	// concurrent stages
	rounds := c.Pick(20, 30)
	if !strings.Contains(c.Stage, "race") {
		rounds = c.Pick(20, 80)
	}
	r := c.Rand("conc")
	vs := victimsFor(c, 40+c.Pick(40, 120), int64(c.Batch))
	want := make([]string, 0, len(vs))
	kept := vs[:0]
	for _, v := range vs {
		t0 := time.Now()
		d := digest(solo(v))
		if time.Since(t0) > 20*time.Second {
			c.Inconclusive("victim too slow for the concurrent workload") // workload filter, not a verdict
			continue
		}
		kept = append(kept, v)
		want = append(want, d)
	}
	vs = kept
	for round := 0; round < rounds; round++ {
		g := 2 + r.Intn(15)
		pick := make([]int, g)
		for i := range pick {
			pick[i] = r.Intn(len(vs))
		}
		c.Begin(fmt.Sprintf("round%d", round), fmt.Sprintf("%d goroutines running victims %v concurrently with hostile runtimes and a creation loop", g, pick))
		var wg sync.WaitGroup
		got := make([]*gl.Outcome, g)
		stop := make(chan struct{})
		var bg sync.WaitGroup
		// runtime creation/closing loop and hostile runtimes on their own goroutines
		bg.Add(2)
		go func() {
			defer bg.Done()
			for {
				select {
				case <-stop:
					return
				default:
				}
				s := gl.NewSess(gl.Options{})
				s.Close()
			}
		}()
		seed := r.Int63()
		go func() {
			defer bg.Done()
			h := newHostile(rand.New(rand.NewSource(seed)))
			for {
				select {
				case <-stop:
					h.s.Close()
					return
				default:
				}
				h.step()
			}
		}()
		for i := 0; i < g; i++ {
			wg.Add(1)
			go func(i int) {
				defer wg.Done()
				got[i] = solo(vs[pick[i]])
			}(i)
		}
		wg.Wait()
		close(stop)
		bg.Wait()
		c.Eval(int64(g))
		c.Feature("goroutines", int64(g))
		for i := 0; i < g; i++ {
			v := vs[pick[i]]
			if d := digest(got[i]); d != want[pick[i]] {
				c.Violation("interference", "concurrent "+v.label, fmt.Sprintf("victim %s run concurrently with %d other runtimes: digest %s, alone %s; outcome %s", v.label, g-1, d, want[pick[i]], got[i].String()), v.text)
			}
			if len(got[i].Trace) >= 3 {
				c.NonTrivial(vp.Hash(v.text, fmt.Sprint(round, i)))
			}
		}
	}
}

func firstDiff(a, b *gl.Outcome) string {
	if a.Kind != b.Kind {
		return "kind " + a.Kind + " vs " + b.Kind
	}
	n := len(a.Trace)
	if len(b.Trace) < n {
		n = len(b.Trace)
	}
	for i := 0; i < n; i++ {
		if a.Trace[i] != b.Trace[i] {
			x, y := a.Trace[i], b.Trace[i]
			if len(x) > 60 {
				x = x[:60]
			}
			if len(y) > 60 {
				y = y[:60]
			}
			return fmt.Sprintf("event differs: %s vs %s", x, y)
		}
	}
	if len(a.Trace) != len(b.Trace) {
		return "trace length"
	}
	return "results or error"
}

func (Prop) Replay(c *vp.Child, input string) {
	v := victim{label: "replay", text: input}
	d1 := solo(v)
	h := newHostile(rand.New(rand.NewSource(1)))
	got := interleaved(v, h)
	fmt.Printf("alone:       %s\ninterleaved: %s\n", d1.String(), got.String())
	if digest(d1) != digest(got) {
		c.Violation("interference", "interleave "+firstDiff(d1, got), "reproduced", input)
	}
}
