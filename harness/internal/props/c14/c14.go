// Package c14 checks property C14 (performance build options never change
// behaviour): the same corpus of generated programs and pool-stressing
// templates is run by binaries built with each tag set; every case's complete
// outcome (events, results, error value and message) is digested and the
// digests must be identical across builds; each build is also compared with
// the reference interpreter, and the pool hooks assert that recycled register
// sets and continuations are zeroed.
package c14

import (
	"fmt"
	rt "github.com/arnodel/golua/runtime"
	"hash/fnv"
	"math/rand"
	"regexp"
	"sort"
	"strings"

	"verif/internal/eng"
	"verif/internal/gl"
	"verif/internal/lg"
	"verif/internal/vp"
)

type Prop struct{}

func (Prop) ID() string { return "C14" }

var builds = []struct {
	name string
	tags []string
	race bool
}{
	{"default", nil, false},
	{"noregpool", []string{"noregpool"}, false},
	{"nocontpool", []string{"nocontpool"}, false},
	{"noregpool-nocontpool", []string{"noregpool", "nocontpool"}, false},
	{"noquotas", []string{"noquotas"}, false},
	{"safepool", []string{"safepool"}, false},
	{"default-race", nil, true},
	{"safepool-race", []string{"safepool"}, true},
}

func (Prop) Plan(t vp.Tier) []vp.Stage {
	var st []vp.Stage
	nb := 8
	if t == vp.Thorough {
		nb = 16
	}
	for _, b := range builds {
		if b.race && t != vp.Thorough && b.name != "default-race" {
			continue
		}
		st = append(st, vp.Stage{Name: b.name, Tags: b.tags, Race: b.race, NBatches: nb, TimeoutS: 2400})
	}
	return st
}

func (Prop) Describe(t vp.Tier) vp.Description {
	return vp.Description{
		Rule: "Each case is a generated program (C01 generator, plus an error-heavy and a coroutine-heavy slice) or a pool-stress template (deep non-tail recursion, 10^5-deep and mutual tail recursion between functions of equal register count, " +
			"error unwinding through 200 frames then immediate reuse, coroutines abandoned mid-call, closures outliving their frame and read after 10^3 unrelated calls, Go->Lua re-entry through sort comparators, gsub callbacks and metamethods interleaved with errors) " +
			"with an argument tuple. Every build {default, noregpool, nocontpool, noregpool+nocontpool, noquotas, safepool} runs the same cases (same seed); the digest of (outcome kind, every event, results, error value and message text) of each case must be equal in all builds " +
			"(decided in the parent over the children's digests), each build is also compared with the reference interpreter, and the hooks assert that a recycled register set, cell set or continuation is all-zero. " +
			"The default build also runs under the race detector/checkptr (thorough: safepool too). Non-trivial: >= 3 events; distinct by (text, arguments).",
		Assumptions: []string{
			"programs do not use the runtime library (absent under noquotas) nor collectgarbage/__gc (finaliser timing legitimately differs between pools; judged by C18)",
			"refvm as in C01",
		},
		Floor: map[vp.Tier]int64{vp.Quick: 400, vp.Thorough: 8000}[t],
	}
}

var addrRE = regexp.MustCompile(`0x[0-9a-f]{6,}`)

// digest hashes a complete outcome; addresses printed by tostring(table) and
// the like are masked (they legitimately differ between processes).
func digest(o *gl.Outcome) string {
	h := fnv.New64a()
	fmt.Fprintf(h, "%s|%s|%s|%s|%s", o.Kind, addrRE.ReplaceAllString(o.Rets, "0x?"), addrRE.ReplaceAllString(o.ErrVal, "0x?"), addrRE.ReplaceAllString(o.ErrMsg, "0x?"), o.PanicMsg)
	for _, e := range o.Trace {
		h.Write([]byte(addrRE.ReplaceAllString(e, "0x?")))
		h.Write([]byte{0})
	}
	return fmt.Sprintf("%016x", h.Sum64())
}

type slice struct {
	name string
	salt int64
	n    func(c *vp.Child) int
	opt  func(r *rand.Rand) lg.GenOptions
}

var slices = []slice{
	{"gen", 14, func(c *vp.Child) int { return c.Pick(300, 12000) }, nil},
	{"err", 15, func(c *vp.Child) int { return c.Pick(120, 5000) }, func(r *rand.Rand) lg.GenOptions {
		o := lg.DefaultGenOptions()
		o.Stmts = 12 + r.Intn(30)
		o.WError, o.WPcall, o.ErrInMeta, o.Health = 14, 14, true, true
		return o
	}},
	{"co", 16, func(c *vp.Child) int { return c.Pick(120, 5000) }, func(r *rand.Rand) lg.GenOptions {
		o := lg.DefaultGenOptions()
		o.Stmts = 10 + r.Intn(25)
		o.WCoroutine, o.WTBC = 18, 6
		return o
	}},
}

func (Prop) RunBatch(c *vp.Child) {
	race := strings.HasSuffix(c.Stage, "-race")
	for _, sl := range slices {
		sl := sl
		n := sl.n(c)
		if race {
			n /= 5
		}
		cp := eng.Corpus{
			Programs: n, Options: sl.opt, NStyles: 1, NArgs: c.Pick(1, 2), Salt: sl.salt,
			NonTrivial: func(cs *eng.Case, p *lg.Program) bool { return cs.Events >= 3 },
			OnOutcome: func(id, text string, args []eng.Arg, got *gl.Outcome) {
				c.Output(sl.name+"/"+id, digest(got))
			},
		}
		if sl.name != "gen" {
			// the error- and coroutine-heavy slices run in runtimes created inside a runtime
			// context that has a host message handler (as golua's own driver does): it must
			// never be applied to an error that a protected call or coroutine.resume catches,
			// in any build (compared with the reference and across builds)
			eng.SessOptions = func() gl.Options { return gl.Options{Ctx: &rt.RuntimeContextDef{MessageHandler: hostHandler}} }
		}
		cp.Run(c)
		eng.SessOptions = func() gl.Options { return gl.Options{} }
	}
	// pool-stress templates
	for i, t := range templates {
		if !c.Mine(i) {
			continue
		}
		if c.Stage == "noquotas" && strings.Contains(t.src, "runtime.") {
			continue
		}
		for _, n := range []int{1, 7, 64, 1000} {
			text := strings.ReplaceAll(t.src, "$N", fmt.Sprint(n*t.scale))
			id := fmt.Sprintf("tpl/%s/%d", t.name, n)
			c.Begin(id, text)
			out := eng.RunText(text, nil)
			c.Eval(1)
			c.Output(id, digest(out))
			if out.Kind == gl.Panic {
				c.Violation("panic", "template "+t.name, out.PanicMsg+"\n"+out.Stack, text)
			}
			if len(out.Reports) > 0 {
				c.Violation("hook", "template "+t.name+": "+out.Reports[0], strings.Join(out.Reports, "\n"), text)
			}
			if len(out.Trace) >= 1 {
				c.NonTrivial(vp.Hash(text))
			}
			c.Feature("template-"+t.name+"-"+out.Kind, 1)
		}
	}
}

// hostHandler is the host's message handler: it marks string messages.
var hostHandler = rt.NewGoFunction(func(t *rt.Thread, c *rt.GoCont) (rt.Cont, error) {
	v := c.Arg(0)
	if s, ok := v.TryString(); ok {
		v = rt.StringValue("HOST<" + s + ">")
	}
	return c.PushingNext1(t.Runtime, v), nil
}, "hosthandler", 1, false)

// Finish compares the digests of all builds.
func (Prop) Finish(p *vp.Parent) {
	type entry struct{ build, dig string }
	all := map[string][]entry{}
	var names []string
	for stage, results := range p.Results {
		complete := true
		for _, r := range results {
			if !r.Completed {
				complete = false
			}
		}
		if !complete {
			continue
		}
		names = append(names, stage)
		for _, r := range results {
			for id, d := range r.Outputs {
				all[id] = append(all[id], entry{stage, d})
			}
		}
	}
	sort.Strings(names)
	var compared, differing int64
	for id, es := range all {
		ref := ""
		for _, e := range es {
			if e.build == "default" {
				ref = e.dig
			}
		}
		if ref == "" {
			continue
		}
		for _, e := range es {
			if e.build == "default" {
				continue
			}
			compared++
			if e.dig != ref {
				differing++
				kind := id
				if i := strings.IndexByte(id, '/'); i > 0 {
					kind = id[:i]
				}
				p.AddViolation(vp.Violation{Kind: "build-differs", Sig: e.build + " vs default on a " + kind + " case",
					Detail: fmt.Sprintf("case %s: the outcome digest under build %s (%s) differs from the default build's (%s); re-run both builds on this case id to see the traces", id, e.build, e.dig, ref),
					Input:  id, Stage: e.build})
			}
		}
	}
	p.Feature("cross-build comparisons", compared)
	p.Feature("cross-build differences", differing)
	p.Feature("builds compared", int64(len(names)))
	if compared == 0 {
		p.Broken("no cross-build comparison was made")
	}
}

type template struct {
	name  string
	scale int
	src   string
}

var templates = []template{
	{"deep-recursion", 1, `
local function d(n) if n == 0 then return 0 end return 1 + d(n - 1) end
emit(d(math.min($N, 150)))
emit(d(100), d(3))`},
	{"tail-recursion", 100, `
local function t(n, a) if n == 0 then return a end return t(n - 1, a + 1) end
emit(t($N, 0))
local ping, pong
function ping(n, a, b) if n == 0 then return a, b end return pong(n - 1, b, a + 1) end
function pong(n, a, b) if n == 0 then return b, a end return ping(n - 1, b + 2, a) end
emit(ping($N, 0, 0))`},
	{"unwind-then-reuse", 1, `
local function boom(n) if n == 0 then error({depth = $N}) end local r = boom(n - 1) return r + 1 end
for i = 1, 3 do
  local ok, e = pcall(boom, math.min($N, 200))
  emit(ok, type(e), e.depth)
  local function f(a, b, c) local x, y, z = a + 1, b + 2, c + 3 return x, y, z end
  emit(f(i, i, i))
end`},
	{"abandoned-coroutines", 1, `
local keep = {}
for i = 1, math.min($N, 300) do
  local co = coroutine.create(function(a)
    local function inner(b) local c = coroutine.yield(a + b) return c * 2 end
    return inner(a + 1)
  end)
  local ok, v = coroutine.resume(co, i)
  if i % 3 == 0 then keep[#keep + 1] = co end
  if i % 50 == 0 then emit(i, ok, v) end
end
local s = 0
for _, co in ipairs(keep) do local ok, v = coroutine.resume(co, 5); s = s + v end
emit(#keep, s)`},
	{"closures-outlive-frame", 1, `
local fs = {}
local function mk(i) local a, b = i, i * 2 return function() a = a + 1; return a + b end end
for i = 1, 20 do fs[i] = mk(i) end
local function noise(x, y, z) local p, q = x + y, y + z return p * q end
local acc = 0
for i = 1, $N do acc = acc + noise(i, i + 1, i + 2) % 7 end
local out = {}
for i = 1, 20 do out[i] = fs[i]() end
emit(acc, table.unpack(out))`},
	{"reentry-with-errors", 1, `
local t = {}
for i = 1, 30 do t[i] = (i * 7919) % 31 end
local calls = 0
local ok, e = pcall(table.sort, t, function(a, b) calls = calls + 1 if calls == math.min($N, 40) then error("cmp") end return a < b end)
emit(ok, calls > 0)
table.sort(t)
emit(t[1], t[15], t[30])
emit(pcall(string.gsub, "abcabc", "%w", function(c) if c == "c" then error({c}) end return c:upper() end))
emit((string.gsub("hello world", "%w+", function(w) return w:rep(2) end)))
local mt = {__add = function(a, b) return setmetatable({v = a.v + b.v}, getmetatable(a)) end, __index = function(t, k) return k .. "!" end}
local x = setmetatable({v = 1}, mt)
for i = 1, math.min($N, 100) do x = x + x end
emit(x.v, x.foo)
emit(pcall(function() return x + 1 end))`},
	{"finalisers-at-context-exit", 1, `
-- (uses the runtime library: not run by the noquotas build)
local ctx = runtime.callcontext({kill = {cpu = 10000000}}, function()
  local t = setmetatable({}, {__gc = function(o) emit("gc", "t first") end})
  setmetatable(t, {__gc = function(o) emit("gc", "t second") end})
  local u = setmetatable({}, {__gc = function(o) emit("gc", "u old field") end})
  getmetatable(u).__gc = function(o) emit("gc", "u new field") end
  local w = setmetatable({}, {__gc = function(o) emit("gc", "w") end})
  setmetatable(w, {})
  local ud = setmetatable({}, {__gc = function(o) emit("gc", "resurrect"); keep = o end})
  for i = 1, math.min($N, 40) do setmetatable({}, {__gc = function() emit("gc", i) end}) end
  emit("body end")
end)
emit("after", ctx.status, keep ~= nil)
`},
	{"finaliser-order-after-remark", 1, `
-- (uses the runtime library: not run by the noquotas build)
-- finalisers of a context with its own limits run when it ends, in reverse order of
-- marking; giving a value a __gc metatable again marks it again
local mt = {__gc = function(o) emit("gc", o.name) end}
local ctx = runtime.callcontext({kill = {cpu = 10000000}}, function()
  local x = setmetatable({name = "x"}, mt)
  local y = setmetatable({name = "y"}, mt)
  local z = setmetatable({name = "z"}, mt)
  for i = 1, math.min($N, 20) do setmetatable({name = "n" .. i}, mt) end
  setmetatable(x, mt)
  pcall(setmetatable, y, mt)
  local co = coroutine.wrap(function() setmetatable(z, mt) coroutine.yield() setmetatable(x, {__gc = mt.__gc}) end)
  co() co()
  emit("body end")
end)
emit("after", ctx.status)
`},
	{"varargs-and-returns", 1, `
local function va(...) return select('#', ...), ... end
local function many(n) local t = {} for i = 1, n do t[i] = i end return table.unpack(t) end
emit(va(many(math.min($N, 200))))
emit((va(many(5))))
local function pass(...) return ... end
emit(pass(pass(pass(1, nil, 3, nil))))`},
}
