// Package c03 checks property C03 (tables): operation histories over small,
// collision-prone key pools are driven through golua's Go API and through
// rendered Lua source while a reference map with normalised keys (tabmodel) is
// compared after every operation, the build-tag-guarded structural invariant
// hook of the private hash/array representation is evaluated every few
// operations, traversals with updates of existing fields are checked for
// "every surviving key exactly once, never an absent key", `#t` for being a
// border, `__index`/`__newindex` for being consulted iff the raw key is absent,
// and value equality is compared with table-key equality over a value pool.
package c03

import (
	"fmt"
	"sort"
	"strings"

	"verif/internal/vp"
)

type Prop struct{}

func (Prop) ID() string { return "C03" }

func (Prop) Plan(t vp.Tier) []vp.Stage {
	return []vp.Stage{
		{Name: "goapi", NBatches: 16, TimeoutS: 900},
		{Name: "lua", NBatches: 16, TimeoutS: 900},
		{Name: "equal", NBatches: 8, TimeoutS: 600},
		{Name: "mixed-race", NBatches: 8, Race: true, TimeoutS: 900},
	}
}

func (Prop) Describe(t vp.Tier) vp.Description {
	return vp.Description{
		Rule: "A case is one operation history (set / remove / reset / get / len / next-traversal with updates of existing fields, over a small key pool mixing " +
			"small ints out of order and with holes, large and negative ints, integer-valued floats (2.0, -0.0, 2^53), fractional and huge floats, short and long strings, " +
			"booleans, tables, functions, userdata, a thread, nil/NaN as invalid keys) executed on a real golua table through the Go API (stage goapi: rt.Table Get/Set/Reset/Next/Len, " +
			"rt.RawGet/Index/SetIndex/IntLen, Runtime.SetTableCheck, with counting __index/__newindex handlers or a fallback table) or rendered as Lua source and run through the " +
			"whole pipeline (stage lua: rawset/rawget/next/pairs/#/rawlen, t[k]=v and t[k] under counting metamethods). After EVERY operation every key ever mentioned by the " +
			"history, in both numeric spellings, is read back and compared with the reference map (tabmodel), and the length must be a border; every 8 operations the " +
			"structural invariant hook VerifCheckInvariants and a full next-chain are checked. Stage equal: all ordered pairs of a value pool, rawequal / == / rt.RawEqual " +
			"against table-key equality in tables of 8 sizes. Stage mixed-race: a reduced corpus of all three under -race (checkptr). " +
			"A history is non-trivial when the table's array part grew or a collision chain existed at one of the hook points (reported by the hook) and keys of at least 3 " +
			"classes were written; an equality pair is non-trivial when its first member is a valid key. Distinct by hash of (stage kind, history text / pair).",
		Assumptions: []string{
			"tabmodel is a correct reading of the Lua 5.4 manual (2.1 key normalisation, 3.4.4 equality, 3.4.7 border, 6.1 next); where the manual leaves the answer open (traversal order, which border, equality of closures without detectable difference, metamethods for nil/NaN keys) no verdict is given beyond internal consistency",
			"golua's hash functions are seeded per process by the Go runtime: slot placement, hence which chains exist, differs between processes; a witness is minimised and re-checked inside the process that found it, a replay in a fresh process may need several attempts for chain-dependent defects",
			"VerifCheckInvariants (build tag verif, /repo/runtime/verif_table.go) reads the private representation faithfully",
			"held on the histories generated, not on all histories",
		},
		Floor: map[vp.Tier]int64{vp.Quick: 4000, vp.Thorough: 100000}[t],
	}
}

// ---------------------------------------------------------------------------

type batch struct {
	c        *vp.Child
	e        *env
	reported map[string]int
	nfail    int
}

func (Prop) RunBatch(c *vp.Child) {
	b := &batch{c: c, e: newEnv(c), reported: map[string]int{}}
	defer b.e.s.Close()
	switch c.Stage {
	case "goapi":
		b.histories("go", c.Pick(16000, 200000)/c.NB, c.Pick(200, 400))
	case "lua":
		b.histories("lua", c.Pick(1280, 30000)/c.NB, c.Pick(120, 200))
	case "equal":
		b.e.runEqual(c, 1)
	case "mixed-race":
		b.histories("go", c.Pick(1280, 16000)/c.NB, c.Pick(200, 400))
		b.histories("lua", c.Pick(80, 800)/c.NB, 100)
		b.e.runEqual(c, c.Pick(6, 2))
	}
}

func (b *batch) histories(kind string, n, maxOps int) {
	c := b.c
	r := c.Rand("hist-" + kind)
	for i := 0; i < n; i++ {
		h := Generate(r, maxOps)
		b.one(kind, fmt.Sprintf("%s-%d-%d", kind, c.Batch, i), h)
		if b.e.nRuns > 4000 {
			b.e.reset()
			b.e.nRuns = 0
		}
	}
}

func newFeats() *feats { return &feats{ops: map[string]int64{}} }

// one runs one history, minimises and reports a failure.
func (b *batch) one(kind, id string, h *History) {
	c := b.c
	text := h.String()
	c.Begin(kind+" "+id, "# "+kind+"\n"+text)
	f := newFeats()
	var fl *fail
	var src string
	exec := func(h *History, f *feats) *fail {
		if kind == "lua" {
			fl, s := b.e.runLua(h, f)
			src = s
			return fl
		}
		return b.e.runGo(h, f)
	}
	fl = exec(h, f)
	c.Eval(int64(len(h.Ops)))
	if fl != nil {
		b.nfail++
		if b.nfail > 40 {
			c.Feature("failing-histories-not-minimised", 1)
			return
		}
		mh, mfl := minimise(h, fl, func(x *History) *fail { return exec(x, nil) })
		// re-run the minimised history to render its source
		if kind == "lua" {
			exec(mh, nil)
		}
		b.reported[mfl.Sig]++
		if b.reported[mfl.Sig] > 3 {
			c.Feature("failing-histories-duplicate-signature", 1)
			return
		}
		detail := mfl.Msg + "\n--- minimised history (" + fmt.Sprint(len(mh.Ops)) + " ops, from " + fmt.Sprint(len(h.Ops)) + ") ---\n" + mh.String()
		if kind == "lua" {
			detail += "--- rendered Lua ---\n" + src
		}
		c.Violation(mfl.Kind, mfl.Sig, detail, "# "+kind+"\n"+mh.String())
		if mfl.Kind == "panic" || strings.HasPrefix(mfl.Kind, "lua-outcome") {
			b.e.reset()
		}
		return
	}
	// evidence
	cl := classesOf(h)
	for k := range cl {
		c.Feature("keyclass/"+k, 1)
	}
	for k, v := range f.ops {
		c.Feature("op/"+k, v)
	}
	c.Feature("meta/"+h.Meta, 1)
	if kind == "lua" {
		// the Lua stage has no access to the shape at its hook points; measure it on the Go side of the same history
		f2 := newFeats()
		if b.e.runGo(h, f2) != nil {
			c.Feature("lua-history-go-rerun-failed", 1)
		}
		f.arrayGrew, f.chained, f.tomb, f.maxArray, f.maxHash = f2.arrayGrew, f2.chained, f2.tomb, f2.maxArray, f2.maxHash
	}
	if f.arrayGrew {
		c.Feature("shape/array-part-grew", 1)
	}
	if f.chained {
		c.Feature("shape/collision-chain-seen", 1)
	}
	if f.tomb {
		c.Feature("shape/tombstones-seen", 1)
	}
	c.Feature(fmt.Sprintf("shape/max-array-%s", bucket(f.maxArray)), 1)
	c.Feature(fmt.Sprintf("shape/max-hash-%s", bucket(f.maxHash)), 1)
	if (f.arrayGrew || f.chained) && len(cl) >= 3 {
		c.NonTrivial(vp.Hash(kind, text))
		if c.WantSample() && len(h.Ops) <= 60 {
			keys := make([]string, 0, len(cl))
			for k := range cl {
				keys = append(keys, k)
			}
			sort.Strings(keys)
			c.Sample(map[string]interface{}{"stage": c.Stage, "via": kind, "history": strings.Split(strings.TrimSpace(text), "\n"), "key_classes": keys,
				"array_part_grew": f.arrayGrew, "collision_chain_seen": f.chained, "max_array": f.maxArray, "max_hash": f.maxHash})
		}
	}
}

func bucket(n int) string {
	switch {
	case n == 0:
		return "0"
	case n <= 8:
		return "1-8"
	case n <= 32:
		return "9-32"
	}
	return "33+"
}

// Replay re-runs a recorded witness ("# go" / "# lua" header, then the history).
func (Prop) Replay(c *vp.Child, input string) {
	kind := "go"
	if strings.HasPrefix(input, "# lua") {
		kind = "lua"
	}
	if strings.HasPrefix(input, "a = ") {
		// an equality pair: re-run the whole (small) stage
		b := &batch{c: c, e: newEnv(c), reported: map[string]int{}}
		defer b.e.s.Close()
		b.e.runEqual(c, 1)
		return
	}
	h, err := ParseHistory(input)
	if err != nil {
		fmt.Println("cannot parse the witness:", err)
		return
	}
	b := &batch{c: c, e: newEnv(c), reported: map[string]int{}}
	defer b.e.s.Close()
	// hash placement is per process: try a few fresh runs
	for i := 0; i < 20 && c.NViolations() == 0; i++ {
		b.one(kind, "replay", h)
		b.e.reset()
	}
}
