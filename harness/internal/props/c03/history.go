package c03

import (
	"fmt"
	"math"
	"math/rand"
	"strconv"
	"strings"

	tm "verif/internal/tabmodel"
)

// An operation history over one table.  The same history drives the Go API
// executor (goexec.go) and the Lua source renderer (luaexec.go); its text form
// is what is journalled, recorded as the witness and parsed back by Replay.

type OpKind uint8

const (
	OSet   OpKind = iota // t[K] = V (V nil removes); API Set | Check | Index
	OReset               // Table.Reset(K, V): assign only if the field exists
	OGet                 // read t[K]; API Get | RawGet | Index
	OLen                 // #t; API Len | IntLen
	OTrav                // next-traversal with updates of existing fields; API next | pairs
	OCheck               // deep check now (invariant hook, full traversal)
)

var opNames = []string{"set", "reset", "get", "len", "trav", "check"}

// Upd is an explicit update made right after the Step-th visit of a traversal.
// It is guarded by presence (`if rawget(t,K) ~= nil then ... end`) so that it
// only ever assigns or clears an existing field.
type Upd struct {
	Step int
	K, V tm.Val
}

type Op struct {
	Kind OpKind
	API  string
	K, V tm.Val
	// traversal only
	UpdAPI string // how updates are written: Set (raw) | Reset | Index
	Cur    string // action on the key just visited: "-" | "clr" | "asg"
	CurMod int    // ... at the steps n with n % CurMod == CurRem
	CurRem int
	Upds   []Upd
}

// History: Meta is the metatable mode of the table: none | store (__newindex
// handler does rawset) | drop (handler ignores the write) | table (__index and
// __newindex are a second table).
type History struct {
	Meta string
	Ops  []Op
}

// ---------------------------------------------------------------------------
// object pool layout (reference values usable as keys / values)

var objKinds = []string{"table", "table", "table", "table", "gofunction", "gofunction", "closure", "closure", "userdata", "thread"}

func ref(i int) tm.Val { return tm.R(i, objKinds[i]) }

// ---------------------------------------------------------------------------
// text form

func tok(v tm.Val) string {
	switch v.K {
	case tm.Nil:
		return "n"
	case tm.Bool:
		if v.B {
			return "b:t"
		}
		return "b:f"
	case tm.Int:
		return "i:" + strconv.FormatInt(v.I, 10)
	case tm.Float:
		switch {
		case v.F != v.F:
			return "f:nan"
		case v.F == 0 && math.Signbit(v.F):
			return "f:-0"
		}
		return "f:" + strconv.FormatFloat(v.F, 'g', -1, 64)
	case tm.Str:
		return "s:" + strconv.Quote(v.S)
	case tm.Ref:
		return "r:" + strconv.Itoa(v.R)
	}
	return "?"
}

func parseTok(s string) (tm.Val, error) {
	switch {
	case s == "n":
		return tm.NilV, nil
	case s == "b:t":
		return tm.B(true), nil
	case s == "b:f":
		return tm.B(false), nil
	case strings.HasPrefix(s, "i:"):
		n, err := strconv.ParseInt(s[2:], 10, 64)
		return tm.I(n), err
	case strings.HasPrefix(s, "f:"):
		f, err := strconv.ParseFloat(s[2:], 64)
		return tm.F(f), err
	case strings.HasPrefix(s, "s:"):
		u, err := strconv.Unquote(s[2:])
		return tm.S(u), err
	case strings.HasPrefix(s, "r:"):
		n, err := strconv.Atoi(s[2:])
		if err != nil || n < 0 || n >= len(objKinds) {
			return tm.NilV, fmt.Errorf("bad ref %q", s)
		}
		return ref(n), nil
	}
	return tm.NilV, fmt.Errorf("bad token %q", s)
}

func (o *Op) String() string {
	switch o.Kind {
	case OSet:
		return fmt.Sprintf("set %s %s %s", o.API, tok(o.K), tok(o.V))
	case OReset:
		return fmt.Sprintf("reset %s %s", tok(o.K), tok(o.V))
	case OGet:
		return fmt.Sprintf("get %s %s", o.API, tok(o.K))
	case OLen:
		return "len " + o.API
	case OTrav:
		var b strings.Builder
		fmt.Fprintf(&b, "trav %s %s %s %d %d", o.API, o.UpdAPI, o.Cur, o.CurMod, o.CurRem)
		for _, u := range o.Upds {
			fmt.Fprintf(&b, " | %d %s %s", u.Step, tok(u.K), tok(u.V))
		}
		return b.String()
	case OCheck:
		return "check"
	}
	return "?"
}

func (h *History) String() string {
	var b strings.Builder
	b.WriteString("meta=" + h.Meta + "\n")
	for i := range h.Ops {
		b.WriteString(h.Ops[i].String())
		b.WriteByte('\n')
	}
	return b.String()
}

func ParseHistory(s string) (*History, error) {
	h := &History{Meta: "none"}
	for ln, line := range strings.Split(s, "\n") {
		line = strings.TrimSpace(line)
		if line == "" || strings.HasPrefix(line, "#") {
			continue
		}
		if strings.HasPrefix(line, "meta=") {
			h.Meta = strings.TrimPrefix(line, "meta=")
			continue
		}
		f := strings.Fields(line)
		bad := func(err error) (*History, error) {
			return nil, fmt.Errorf("line %d %q: %v", ln+1, line, err)
		}
		var op Op
		var err error
		switch f[0] {
		case "set":
			if len(f) != 4 {
				return bad(fmt.Errorf("want 4 fields"))
			}
			op.Kind, op.API = OSet, f[1]
			if op.K, err = parseTok(f[2]); err != nil {
				return bad(err)
			}
			if op.V, err = parseTok(f[3]); err != nil {
				return bad(err)
			}
		case "reset":
			if len(f) != 3 {
				return bad(fmt.Errorf("want 3 fields"))
			}
			op.Kind = OReset
			if op.K, err = parseTok(f[1]); err != nil {
				return bad(err)
			}
			if op.V, err = parseTok(f[2]); err != nil {
				return bad(err)
			}
		case "get":
			if len(f) != 3 {
				return bad(fmt.Errorf("want 3 fields"))
			}
			op.Kind, op.API = OGet, f[1]
			if op.K, err = parseTok(f[2]); err != nil {
				return bad(err)
			}
		case "len":
			if len(f) != 2 {
				return bad(fmt.Errorf("want 2 fields"))
			}
			op.Kind, op.API = OLen, f[1]
		case "check":
			op.Kind = OCheck
		case "trav":
			if len(f) < 6 {
				return bad(fmt.Errorf("want >= 6 fields"))
			}
			op.Kind, op.API, op.UpdAPI, op.Cur = OTrav, f[1], f[2], f[3]
			if op.CurMod, err = strconv.Atoi(f[4]); err != nil {
				return bad(err)
			}
			if op.CurRem, err = strconv.Atoi(f[5]); err != nil {
				return bad(err)
			}
			rest := f[6:]
			for len(rest) > 0 {
				if len(rest) < 4 || rest[0] != "|" {
					return bad(fmt.Errorf("bad update list"))
				}
				var u Upd
				if u.Step, err = strconv.Atoi(rest[1]); err != nil {
					return bad(err)
				}
				if u.K, err = parseTok(rest[2]); err != nil {
					return bad(err)
				}
				if u.V, err = parseTok(rest[3]); err != nil {
					return bad(err)
				}
				op.Upds = append(op.Upds, u)
				rest = rest[4:]
			}
		default:
			return bad(fmt.Errorf("unknown op"))
		}
		h.Ops = append(h.Ops, op)
	}
	return h, nil
}

// ---------------------------------------------------------------------------
// key classes (features, signatures, the ">= 3 key types" rule)

func keyClass(v tm.Val) string {
	switch v.K {
	case tm.Nil:
		return "nil"
	case tm.Bool:
		return "bool"
	case tm.Int:
		switch {
		case v.I >= 1 && v.I <= 128:
			return "int-small"
		case v.I <= 0 && v.I >= -128:
			return "int-nonpos"
		default:
			return "int-large"
		}
	case tm.Float:
		if v.F != v.F {
			return "nan"
		}
		if _, ok := tm.FloatToInt(v.F); ok {
			return "float-intvalued"
		}
		if v.F == math.Floor(v.F) || math.IsInf(v.F, 0) {
			return "float-huge"
		}
		return "float-frac"
	case tm.Str:
		if len(v.S) <= 7 {
			return "str-short"
		}
		return "str-long"
	case tm.Ref:
		return v.RK
	}
	return "?"
}

// altSpelling returns the other numeric spelling of the same key, if any.
func altSpelling(v tm.Val) (tm.Val, bool) {
	switch v.K {
	case tm.Int:
		f := float64(v.I)
		if i, ok := tm.FloatToInt(f); ok && i == v.I {
			return tm.F(f), true
		}
	case tm.Float:
		if i, ok := tm.FloatToInt(v.F); ok {
			return tm.I(i), true
		}
	}
	return tm.NilV, false
}

// probesOf lists every key mentioned by the history, both numeric spellings of
// each, plus NaN (nil is probed separately): the set over which the real table
// is compared with the model after every operation.
func probesOf(h *History) []tm.Val {
	seen := map[string]bool{}
	var out []tm.Val
	add := func(v tm.Val) {
		if v.IsNil() {
			return
		}
		t := tok(v)
		if seen[t] {
			return
		}
		seen[t] = true
		out = append(out, v)
		if a, ok := altSpelling(v); ok {
			if ta := tok(a); !seen[ta] {
				seen[ta] = true
				out = append(out, a)
			}
		}
	}
	for i := range h.Ops {
		o := &h.Ops[i]
		add(o.K)
		for _, u := range o.Upds {
			add(u.K)
		}
	}
	add(tm.F(math.NaN()))
	return out
}

// ---------------------------------------------------------------------------
// generation

const longA = "a-long-string-key-that-is-not-scalar-encoded-0001"
const longB = "a-long-string-key-that-is-not-scalar-encoded-0002"

type gen struct {
	r      *rand.Rand
	maxOps int
	n      int      // nominal array range 1..n
	pool   []tm.Val // candidate keys
	others []tm.Val // non-int-small pool keys
	ops    []Op
	meta   string
	vctr   int64
	// shadow of presence, only to steer generation (never used as an oracle)
	shadow *tm.Table
}

func pickN(r *rand.Rand) int {
	ns := []int{1, 2, 3, 4, 5, 7, 8, 9, 12, 16, 17, 24, 32, 33, 48, 64}
	return ns[r.Intn(len(ns))]
}

func (g *gen) buildPool() {
	r := g.r
	g.n = pickN(r)
	for i := 1; i <= g.n; i++ {
		g.pool = append(g.pool, tm.I(int64(i)))
	}
	n := int64(g.n)
	sample := func(cands []tm.Val, max int) {
		k := r.Intn(max + 1)
		for i := 0; i < k; i++ {
			g.others = append(g.others, cands[r.Intn(len(cands))])
		}
	}
	sample([]tm.Val{tm.I(0), tm.I(-1), tm.I(-2), tm.I(n + 1), tm.I(n + 2), tm.I(2 * n), tm.I(2*n + 1), tm.I(4 * n), tm.I(100), tm.I(1000),
		tm.I(1 << 31), tm.I(1 << 32), tm.I(1 << 53), tm.I(1<<53 + 1), tm.I(math.MaxInt64), tm.I(math.MaxInt64 - 1),
		tm.I(math.MinInt64), tm.I(math.MinInt64 + 1), tm.I(-(1 << 53))}, 6)
	sample([]tm.Val{tm.F(float64(1 + r.Intn(g.n+2))), tm.F(float64(1 + r.Intn(g.n+2))), tm.F(float64(n)), tm.F(float64(n + 1)), tm.F(2), tm.F(math.Copysign(0, -1)), tm.F(0),
		tm.F(0.5), tm.F(1.5), tm.F(-1.5), tm.F(2.5), tm.F(float64(n) + 0.5), tm.F(1 << 53), tm.F(9223372036854775808.0), tm.F(-9223372036854775808.0),
		tm.F(18446744073709551616.0), tm.F(1e300), tm.F(-1e300), tm.F(math.Inf(1)), tm.F(math.Inf(-1)), tm.F(1e-300), tm.F(100), tm.F(-1)}, 6)
	sample([]tm.Val{tm.S(""), tm.S("a"), tm.S("b"), tm.S("c"), tm.S("x"), tm.S("y"), tm.S("z"), tm.S("k1"), tm.S("k2"), tm.S("k3"), tm.S("k4"),
		tm.S("k5"), tm.S("k6"), tm.S("abcdefg"), tm.S("abcdefh"), tm.S("1"), tm.S("2"), tm.S("10"), tm.S("1.0"), tm.S("nil"), tm.S("true"), tm.S("a\x00"), tm.S("a\x00\x00"), tm.S("\x00"),
		tm.S("abcdefgh"), tm.S("abcdefghi"), tm.S(longA), tm.S(longB), tm.S("__index"), tm.S("n")}, 10)
	sample([]tm.Val{tm.B(true), tm.B(false)}, 2)
	sample([]tm.Val{ref(0), ref(1), ref(2), ref(3), ref(4), ref(5), ref(6), ref(7), ref(8), ref(9)}, 4)
	// de-duplicate others by token
	seen := map[string]bool{}
	var o []tm.Val
	for _, v := range g.others {
		if t := tok(v); !seen[t] {
			seen[t] = true
			o = append(o, v)
		}
	}
	g.others = o
	g.pool = append(g.pool, g.others...)
}

func (g *gen) val() tm.Val {
	g.vctr++
	switch g.r.Intn(40) {
	case 0:
		return tm.B(false)
	case 1:
		return tm.B(true)
	case 2:
		return tm.S("")
	case 3:
		return tm.F(math.NaN())
	case 4:
		return tm.F(float64(g.vctr) + 0.5)
	case 5:
		return ref(g.r.Intn(len(objKinds)))
	case 6:
		return tm.S("v" + strconv.FormatInt(g.vctr, 10))
	case 7:
		return tm.F(float64(g.vctr)) // a float value with integral value stays a float
	}
	return tm.I(1000 + g.vctr)
}

func (g *gen) setAPI() string { return []string{"Set", "Set", "Check", "Index", "Index"}[g.r.Intn(5)] }
func (g *gen) getAPI() string { return []string{"Get", "RawGet", "Index"}[g.r.Intn(3)] }

func (g *gen) full() bool { return len(g.ops) >= g.maxOps }

func (g *gen) emit(o Op) {
	if g.full() {
		return
	}
	g.ops = append(g.ops, o)
	// steer only
	switch o.Kind {
	case OSet:
		g.shadow.Set(o.K, o.V)
	case OReset:
		if g.shadow.Present(o.K) {
			g.shadow.Set(o.K, o.V)
		}
	case OTrav:
		if o.Cur == "clr" && o.CurMod == 1 {
			g.shadow = tm.New()
		}
	}
}

// spell returns k, sometimes in its other numeric spelling.
func (g *gen) spell(k tm.Val, p int) tm.Val {
	if g.r.Intn(100) < p {
		if a, ok := altSpelling(k); ok {
			return a
		}
	}
	return k
}

func (g *gen) anyKey() tm.Val {
	if len(g.pool) == 0 {
		return tm.I(1)
	}
	return g.spell(g.pool[g.r.Intn(len(g.pool))], 12)
}

func (g *gen) presentKey() (tm.Val, bool) {
	ks := g.shadow.Keys()
	if len(ks) == 0 {
		return tm.NilV, false
	}
	k := ks[g.r.Intn(len(ks))]
	return g.spell(k.Val(func(i int) string { return objKinds[i] }), 15), true
}

func (g *gen) set(k, v tm.Val, api string) { g.emit(Op{Kind: OSet, API: api, K: k, V: v}) }

func (g *gen) invalidKeyOp() {
	k := tm.NilV
	if g.r.Intn(2) == 0 {
		k = tm.F(math.NaN())
	}
	switch g.r.Intn(5) {
	case 0:
		g.emit(Op{Kind: OGet, API: g.getAPI(), K: k})
	case 1:
		g.emit(Op{Kind: OReset, K: k, V: g.val()})
	case 2:
		g.set(k, g.val(), "Check")
	case 3:
		if g.meta == "none" || g.meta == "table" {
			g.set(k, g.val(), "Index")
		} else {
			g.set(k, g.val(), "Check")
		}
	default:
		g.set(k, tm.NilV, "Check")
	}
}

func (g *gen) trav(kind int) {
	r := g.r
	o := Op{Kind: OTrav, API: []string{"next", "pairs"}[r.Intn(2)], UpdAPI: []string{"Set", "Reset", "Index"}[r.Intn(3)], Cur: "-", CurMod: 1}
	switch kind {
	case 0: // plain
	case 1: // the `for k in pairs(t) do t[k] = nil end` idiom
		o.Cur = "clr"
	case 2:
		o.Cur = "asg"
	default:
		o.Cur = []string{"-", "clr", "asg"}[r.Intn(3)]
		o.CurMod = 1 + r.Intn(4)
		o.CurRem = r.Intn(o.CurMod)
		cnt := g.shadow.Count()
		nu := r.Intn(6)
		for i := 0; i < nu; i++ {
			k, ok := g.presentKey()
			if !ok || r.Intn(6) == 0 {
				k = g.anyKey()
			}
			v := g.val()
			if r.Intn(2) == 0 {
				v = tm.NilV
			}
			o.Upds = append(o.Upds, Upd{Step: 1 + r.Intn(cnt+1), K: k, V: v})
		}
	}
	g.emit(o)
}

func (g *gen) randomOps(n int) {
	r := g.r
	for i := 0; i < n && !g.full(); i++ {
		switch x := r.Intn(100); {
		case x < 40:
			g.set(g.anyKey(), g.val(), g.setAPI())
		case x < 58:
			if k, ok := g.presentKey(); ok && r.Intn(4) != 0 {
				g.set(k, tm.NilV, g.setAPI())
			} else {
				g.set(g.anyKey(), tm.NilV, g.setAPI())
			}
		case x < 68:
			v := g.val()
			if r.Intn(3) == 0 {
				v = tm.NilV
			}
			g.emit(Op{Kind: OReset, K: g.anyKey(), V: v})
		case x < 78:
			g.emit(Op{Kind: OGet, API: g.getAPI(), K: g.anyKey()})
		case x < 82:
			g.emit(Op{Kind: OLen, API: []string{"Len", "IntLen"}[r.Intn(2)]})
		case x < 86:
			g.trav(0)
		case x < 96:
			g.trav(1 + r.Intn(3))
		default:
			g.invalidKeyOp()
		}
	}
}

func (g *gen) perm(n int, order int) []int {
	p := make([]int, n)
	for i := range p {
		p[i] = i + 1
	}
	switch order {
	case 1: // backwards
		for i, j := 0, n-1; i < j; i, j = i+1, j-1 {
			p[i], p[j] = p[j], p[i]
		}
	case 2:
		g.r.Shuffle(n, func(i, j int) { p[i], p[j] = p[j], p[i] })
	case 3: // evens then odds
		var q []int
		for i := 2; i <= n; i += 2 {
			q = append(q, i)
		}
		for i := 1; i <= n; i += 2 {
			q = append(q, i)
		}
		p = q
	case 4: // odds descending then evens ascending
		var q []int
		for i := n; i >= 1; i-- {
			if i%2 == 1 {
				q = append(q, i)
			}
		}
		for i := 2; i <= n; i += 2 {
			q = append(q, i)
		}
		p = q
	}
	return p
}

func (g *gen) fill(order int, floatPct int) {
	api := g.setAPI()
	for _, i := range g.perm(g.n, order) {
		a := api
		if g.r.Intn(5) == 0 {
			a = g.setAPI()
		}
		g.set(g.spell(tm.I(int64(i)), floatPct), g.val(), a)
	}
}

func (g *gen) deleteInts(how int) {
	api := g.setAPI()
	n := g.n
	switch how {
	case 0: // tail, from the end down to a random point
		stop := g.r.Intn(n + 1)
		for i := n; i > stop; i-- {
			g.set(g.spell(tm.I(int64(i)), 10), tm.NilV, api)
		}
	case 1: // head
		stop := g.r.Intn(n + 1)
		for i := 1; i <= stop; i++ {
			g.set(tm.I(int64(i)), tm.NilV, api)
		}
	case 2: // random subset
		for _, i := range g.perm(n, 2) {
			if g.r.Intn(2) == 0 {
				g.set(tm.I(int64(i)), tm.NilV, api)
			}
		}
	default: // tail ascending (the array's last element is cleared last)
		start := g.r.Intn(n + 1)
		for i := start + 1; i <= n; i++ {
			g.set(tm.I(int64(i)), tm.NilV, api)
		}
	}
}

func (g *gen) refill() {
	api := g.setAPI()
	for _, i := range g.perm(g.n, g.r.Intn(3)) {
		if !g.shadow.Present(tm.I(int64(i))) {
			g.set(tm.I(int64(i)), g.val(), api)
		}
	}
}

// hashThenInts grows the hash part to 2^k entries with non-integer keys, then
// inserts integers: forces grow() to migrate from the hash to the array part.
func (g *gen) hashThenInts() {
	k := 1 + g.r.Intn(6)
	cnt := 1 << uint(k)
	if g.r.Intn(3) == 0 {
		cnt += g.r.Intn(3) - 1
	}
	api := g.setAPI()
	for i := 0; i < cnt; i++ {
		var key tm.Val
		switch {
		case i < len(g.others) && g.r.Intn(2) == 0:
			key = g.others[i]
		case g.r.Intn(4) == 0:
			key = tm.S("a-generated-long-string-key-" + strconv.Itoa(i))
		case g.r.Intn(4) == 0:
			key = tm.F(float64(i) + 0.25)
		case g.r.Intn(5) == 0:
			key = tm.I(int64(1000 + 16*i)) // integer keys that stay in the hash part
		default:
			key = tm.S("s" + strconv.Itoa(i))
		}
		g.set(key, g.val(), api)
	}
	m := 1 + g.r.Intn(2*g.n)
	order := g.r.Intn(2)
	for _, i := range g.perm(m, order) {
		g.set(g.spell(tm.I(int64(i)), 8), g.val(), api)
	}
}

func (g *gen) deleteAll() {
	ks := g.shadow.Keys()
	if g.r.Intn(2) == 0 {
		g.r.Shuffle(len(ks), func(i, j int) { ks[i], ks[j] = ks[j], ks[i] })
	}
	api := g.setAPI()
	for _, k := range ks {
		g.set(g.spell(k.Val(func(i int) string { return objKinds[i] }), 10), tm.NilV, api)
	}
	g.trav(0)
}

// floatSpelling rewrites / reads present integer fields through the float
// spelling of their key.
func (g *gen) floatSpelling() {
	for i := 0; i < 2+g.r.Intn(8); i++ {
		k, ok := g.presentKey()
		if !ok {
			k = g.anyKey()
		}
		if a, ok := altSpelling(k); ok && g.r.Intn(4) != 0 {
			k = a
		}
		switch g.r.Intn(4) {
		case 0:
			g.emit(Op{Kind: OReset, K: k, V: g.val()})
		case 1:
			g.set(k, g.val(), "Index")
		case 2:
			g.set(k, g.val(), g.setAPI())
		default:
			g.emit(Op{Kind: OGet, API: g.getAPI(), K: k})
		}
	}
}

func (g *gen) sparse() {
	api := g.setAPI()
	var ks []tm.Val
	for _, v := range g.others {
		if v.K == tm.Int || v.K == tm.Float {
			ks = append(ks, v)
		}
	}
	for i := 0; i < 3+g.r.Intn(6); i++ {
		ks = append(ks, tm.I(int64(g.r.Intn(4*g.n+4))-int64(g.n)))
	}
	for _, k := range ks {
		g.set(k, g.val(), api)
	}
	for _, k := range ks {
		if g.r.Intn(2) == 0 {
			g.set(g.spell(k, 30), tm.NilV, api)
		}
	}
}

// Generate builds one history from the PRNG.
func Generate(r *rand.Rand, maxOps int) *History {
	g := &gen{r: r, maxOps: 20 + r.Intn(maxOps-19), shadow: tm.New()}
	g.ops = make([]Op, 0, g.maxOps)
	g.meta = []string{"none", "none", "none", "store", "store", "drop", "table", "table"}[r.Intn(8)]
	g.buildPool()
	for !g.full() {
		switch x := r.Intn(100); {
		case x < 22:
			g.randomOps(5 + r.Intn(60))
		case x < 36:
			g.fill(r.Intn(5), []int{0, 0, 10, 50}[r.Intn(4)])
		case x < 46:
			g.deleteInts(r.Intn(4))
		case x < 52:
			g.refill()
		case x < 62:
			g.hashThenInts()
		case x < 67:
			g.deleteAll()
		case x < 73:
			g.trav(1)
		case x < 78:
			g.trav(2)
		case x < 86:
			g.trav(3)
		case x < 93:
			g.floatSpelling()
		default:
			g.sparse()
		}
		g.emit(Op{Kind: OCheck})
	}
	return &History{Meta: g.meta, Ops: g.ops}
}

// classesOf returns the key classes that were actually written by the history.
func classesOf(h *History) map[string]bool {
	m := map[string]bool{}
	for i := range h.Ops {
		o := &h.Ops[i]
		if o.Kind == OSet && !o.V.IsNil() && !invalidKey(o.K) {
			m[keyClass(o.K)] = true
		}
	}
	return m
}
