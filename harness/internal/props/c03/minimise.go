package c03

// minimise shrinks a failing history by delta debugging: operations (and
// traversal updates) are removed as long as a failure of the same kind is still
// observed.  fails must be deterministic within the process.
func minimise(h *History, orig *fail, fails func(*History) *fail) (*History, *fail) {
	budget := 1500
	try := func(c *History) *fail {
		if budget <= 0 {
			return nil
		}
		budget--
		if fl := fails(c); fl != nil && fl.Kind == orig.Kind {
			return fl
		}
		return nil
	}
	cur := &History{Meta: h.Meta, Ops: append([]Op(nil), h.Ops...)}
	best := orig
	// nothing after the failing op matters
	if orig.Op+1 < len(cur.Ops) {
		c := &History{Meta: cur.Meta, Ops: append([]Op(nil), cur.Ops[:orig.Op+1]...)}
		if fl := try(c); fl != nil {
			cur, best = c, fl
		}
	}
	for chunk := (len(cur.Ops) + 1) / 2; chunk >= 1; {
		removed := false
		for start := 0; start < len(cur.Ops) && budget > 0; {
			end := start + chunk
			if end > len(cur.Ops) {
				end = len(cur.Ops)
			}
			c := &History{Meta: cur.Meta}
			c.Ops = append(c.Ops, cur.Ops[:start]...)
			c.Ops = append(c.Ops, cur.Ops[end:]...)
			if len(c.Ops) == 0 {
				start = end
				continue
			}
			if fl := try(c); fl != nil {
				cur, best = c, fl
				removed = true
				// Ops after the new failing op are dead
				if fl.Op+1 < len(cur.Ops) {
					cur.Ops = cur.Ops[:fl.Op+1]
				}
			} else {
				start = end
			}
		}
		if chunk == 1 && !removed {
			break
		}
		if chunk > 1 {
			chunk = (chunk + 1) / 2
			if chunk < 1 {
				chunk = 1
			}
		}
		if budget <= 0 {
			break
		}
	}
	// drop traversal updates one by one
	for i := range cur.Ops {
		for j := 0; j < len(cur.Ops[i].Upds); {
			c := &History{Meta: cur.Meta, Ops: append([]Op(nil), cur.Ops...)}
			o := c.Ops[i]
			o.Upds = append(append([]Upd(nil), o.Upds[:j]...), o.Upds[j+1:]...)
			c.Ops[i] = o
			if fl := try(c); fl != nil {
				cur, best = c, fl
			} else {
				j++
			}
		}
	}
	// a simpler metatable mode
	if cur.Meta != "none" {
		c := &History{Meta: "none", Ops: cur.Ops}
		if fl := try(c); fl != nil {
			cur, best = c, fl
		}
	}
	return cur, best
}
