//go:build !verif

package c03

import rt "github.com/arnodel/golua/runtime"

const hooksOn = false

func checkInvariants(t *rt.Table) error { return nil }

type shape struct{ array, arrayLen, hash, live, tomb, chained int }

func shapeOf(t *rt.Table) shape { return shape{} }
