//go:build verif

package c03

import rt "github.com/arnodel/golua/runtime"

const hooksOn = true

func checkInvariants(t *rt.Table) error { return t.VerifCheckInvariants() }

type shape struct{ array, arrayLen, hash, live, tomb, chained int }

func shapeOf(t *rt.Table) shape {
	s := t.VerifShape()
	return shape{array: s.ArraySize, arrayLen: s.ArrayLen, hash: s.HashSize, live: s.HashLive, tomb: s.HashTombstones, chained: s.Chained}
}
