package c03

import (
	"fmt"
	"math"
	"strconv"

	rt "github.com/arnodel/golua/runtime"

	"verif/internal/gl"
	tm "verif/internal/tabmodel"
	"verif/internal/vp"
)

// The "equal" stage: for every ordered pair (a, b) of a value pool, primitive
// value equality (rawequal / == without metamethods / rt.RawEqual) must agree
// with table-key equality ("t[a] = mark; t[b] == mark", in tables of several
// sizes so that both the small linear-scan layout and the hashed layout are
// used), and both must agree with the manual's definition where the manual
// fixes the answer.

type eqVal struct {
	name string
	v    rt.Value
	m    tm.Val
	// closures created from the same prototype with no detectable difference
	// may or may not be equal (manual §3.4.4): group > 0 marks such a family,
	// within which the model gives no verdict (agreement is still required).
	group int
}

const eqChunk = `
local a, b, n, ints = ...
local t = {}
for i = 1, n do
  if ints then t[1000 + 16 * i] = i else t["fill-" .. i] = i end
end
local hit, cnt, back = "skip", -1, "skip"
local valid = a ~= nil and a == a
if valid then
  t[a] = "MARK"
  hit = t[b] == "MARK"
  if b ~= nil and b == b then
    t[b] = "MARK2"
    back = t[a]
    cnt = 0
    for k in next, t do cnt = cnt + 1 if cnt > n + 8 then break end end
  end
end
return rawequal(a, b), a == b, hit, cnt, back
`

func (e *env) eqPool() []eqVal {
	var p []eqVal
	add := func(name string, v rt.Value, m tm.Val) { p = append(p, eqVal{name: name, v: v, m: m}) }
	add("nil", rt.NilValue, tm.NilV)
	add("true", rt.BoolValue(true), tm.B(true))
	add("false", rt.BoolValue(false), tm.B(false))
	for _, i := range []int64{0, 1, -1, 2, 10, 1 << 53, 1<<53 + 1, math.MaxInt64, math.MinInt64, 1 << 62} {
		add("int "+strconv.FormatInt(i, 10), rt.IntValue(i), tm.I(i))
	}
	for _, f := range []float64{0, math.Copysign(0, -1), 1, 2, 10, -1, 0.5, 1 << 53, 1 << 62, 9223372036854775808.0, -9223372036854775808.0,
		math.Inf(1), math.Inf(-1), math.NaN(), 1e300, 1e-300} {
		add("float "+tm.ShowFloat(f), rt.FloatValue(f), tm.F(f))
	}
	for _, s := range []string{"", "a", "1", "10", "1.0", "abcdefg", "abcdefgh", longA, "a\x00", "\x00", "true", "nil"} {
		add("string "+strconv.Quote(s), rt.StringValue(s), tm.S(s))
		if len(s) >= 7 || s == "" || s == "a" {
			// the same content in another backing array
			add("string-copy "+strconv.Quote(s), rt.StringValue(string(append([]byte(nil), s...))), tm.S(s))
		}
	}
	for i := 0; i < 10; i++ {
		add(fmt.Sprintf("%s#%d", objKinds[i], i), e.objs[i], ref(i))
	}
	cl := e.closures()
	// a second thread, a second userdata, light userdata
	add("userdata#b", rt.UserDataValue(rt.NewUserData(new(int), nil)), tm.R(100, "userdata"))
	add("thread#b", rt.ThreadValue(rt.NewThread(e.s.R)), tm.R(101, "thread"))
	names := []string{"closure-P", "closure-Q", "closure-A1", "closure-A2", "closure-B1", "closure-B2", "closure-C1", "closure-C2"}
	groups := []int{0, 0, 1, 1, 2, 2, 0, 0}
	for i, c := range cl {
		p = append(p, eqVal{name: names[i], v: c, m: tm.R(200+i, "closure"), group: groups[i]})
	}
	return p
}

func (e *env) runEqual(c *vp.Child, stride int) {
	pool := e.eqPool()
	clos, out := e.s.Compile("c03eq", eqChunk)
	if out != nil {
		c.Violation("lua-outcome", "equality chunk does not compile", out.ErrMsg+out.PanicMsg, eqChunk)
		return
	}
	fn := rt.FunctionValue(clos)
	sizes := []int{0, 1, 3, 7, 8, 9, 20, 70}
	c.Feature("equal-pool-values", int64(len(pool)))
	idx := 0
	for ai := range pool {
		for bi := range pool {
			idx++
			if !c.Mine(idx) {
				continue
			}
			if stride > 1 && (idx/c.NB+int(c.Seed))%stride != 0 {
				continue
			}
			a, b := pool[ai], pool[bi]
			in := fmt.Sprintf("a = %s ; b = %s", a.name, b.name)
			c.Begin("equal "+a.name+" / "+b.name, in)
			e.equalPair(c, fn, a, b, sizes, in)
		}
	}
}

func classOfEq(v eqVal) string {
	if v.group > 0 {
		return "closure-same-prototype"
	}
	if len(v.name) > 7 && v.name[:7] == "closure" {
		return "closure"
	}
	return keyClass(v.m)
}

func (e *env) equalPair(c *vp.Child, fn rt.Value, a, b eqVal, sizes []int, in string) {
	defer func() {
		if p := recover(); p != nil {
			c.Violation("panic", fmt.Sprintf("panic equal %s %s", classOfEq(a), classOfEq(b)), fmt.Sprintf("Go panic comparing %s and %s: %v", a.name, b.name, p), in)
		}
	}()
	determinate := !(a.group > 0 && a.group == b.group)
	want := tm.RawEqual(a.m, b.m)
	sigOf := func(what string) string { return fmt.Sprintf("%s %s / %s", what, classOfEq(a), classOfEq(b)) }
	eqv, _ := rt.RawEqual(a.v, b.v)
	c.Eval(1)
	if determinate && eqv != want {
		c.Violation("equal", sigOf("rawequal-vs-manual"), fmt.Sprintf("rt.RawEqual(%s, %s) = %v, the manual (3.4.4) gives %v", a.name, b.name, eqv, want), in)
	}
	if sym, _ := rt.RawEqual(b.v, a.v); sym != eqv {
		c.Violation("equal", sigOf("rawequal-asymmetric"), fmt.Sprintf("rt.RawEqual(%s, %s) = %v but the converse is %v", a.name, b.name, eqv, sym), in)
	}
	validA := !invalidKey(a.m)
	validB := !invalidKey(b.m)
	nontriv := false
	for _, n := range sizes {
		for _, ints := range []bool{false, true} {
			if !validA {
				continue
			}
			c.Eval(1)
			// Go API
			t := rt.NewTable()
			for i := 1; i <= n; i++ {
				if ints {
					t.Set(rt.IntValue(int64(1000+16*i)), rt.IntValue(int64(i)))
				} else {
					t.Set(rt.StringValue("fill-"+strconv.Itoa(i)), rt.IntValue(int64(i)))
				}
			}
			t.Set(a.v, rt.StringValue("MARK"))
			got := t.Get(b.v)
			hit := false
			if s, ok := got.TryString(); ok && s == "MARK" {
				hit = true
			} else if !got.IsNil() {
				c.Violation("equal", sigOf("get-foreign-value"), fmt.Sprintf("with %d fillers: t[%s]=MARK; t[%s] returned a foreign value", n, a.name, b.name), in)
			}
			if hit != eqv {
				c.Violation("equal", sigOf("value-vs-key")+fmt.Sprintf(" size=%s", sizeClass(n)),
					fmt.Sprintf("value equality and table-key equality disagree: rt.RawEqual(%s, %s) = %v, but after t[%s] = \"MARK\" in a table with %d other fields (ints=%v) t[%s] == \"MARK\" is %v",
						a.name, b.name, eqv, a.name, n, ints, b.name, hit), in)
			}
			if validB {
				t.Set(b.v, rt.StringValue("MARK2"))
				cnt := 0
				k := rt.NilValue
				for cnt <= n+3 {
					nk, _, ok := t.Next(k)
					if !ok || nk.IsNil() {
						break
					}
					cnt++
					k = nk
				}
				wantCnt := n + 2
				if hit {
					wantCnt = n + 1
				}
				if cnt != wantCnt {
					c.Violation("equal", sigOf("field-count")+fmt.Sprintf(" size=%s", sizeClass(n)),
						fmt.Sprintf("after t[%s]=MARK; t[%s]=MARK2 with %d fillers the table has %d fields, expected %d", a.name, b.name, n, cnt, wantCnt), in)
				}
				if err := checkInvariants(t); err != nil {
					c.Violation("invariant", sigOf("invariant"), err.Error(), in)
				}
			}
			// through Lua
			e.s.Trace = nil
			o := e.s.Call(fn, []rt.Value{a.v, b.v, rt.IntValue(int64(n)), rt.BoolValue(ints)})
			if o.Kind != gl.OK {
				c.Violation("lua-outcome", sigOf("equality chunk "+o.Kind), o.String(), in)
				continue
			}
			want5 := fmt.Sprintf("b:%v,b:%v,b:%v,", eqv, eqv, hit)
			if validB {
				cnt := n + 2
				back := `s:"MARK"`
				if hit {
					cnt, back = n+1, `s:"MARK2"`
				}
				want5 += fmt.Sprintf("i:%d,%s", cnt, back)
			} else {
				want5 += `i:-1,s:"skip"`
			}
			if o.Rets != want5 {
				c.Violation("equal", sigOf("lua-vs-go")+fmt.Sprintf(" size=%s", sizeClass(n)),
					fmt.Sprintf("a=%s b=%s, %d fillers (ints=%v): Lua gives rawequal,==,t[b]==MARK,count,t[a] = %s; the Go API gives %s", a.name, b.name, n, ints, o.Rets, want5), in)
			}
			nontriv = true
		}
	}
	if !validA {
		// invalid keys are absent on read
		t := rt.NewTable()
		t.Set(rt.IntValue(1), rt.IntValue(1))
		if !t.Get(a.v).IsNil() {
			c.Violation("get", "get invalid-key", "t["+a.name+"] is not nil", in)
		}
	}
	if nontriv {
		c.NonTrivial(vp.Hash("equal", a.name, b.name))
		c.Feature("equal-pairs/"+map[bool]string{true: "equal", false: "different"}[eqv], 1)
		if a.group > 0 && a.group == b.group && a.name != b.name {
			c.Feature(fmt.Sprintf("equal-closure-family-%d-reported-%v", a.group, eqv), 1)
		}
	}
}

func sizeClass(n int) string {
	if n < 8 {
		return "small"
	}
	return "hashed"
}
