package c03

import (
	"fmt"
	"math"
	"strconv"
	"strings"

	rt "github.com/arnodel/golua/runtime"

	"verif/internal/gl"
	tm "verif/internal/tabmodel"
)

// The Lua side: a history is rendered as Lua source (keys and values as
// literals, reference values taken from the pool table O), compiled and run by
// golua; every operation reports what it saw through the host callback obs and
// after every operation the program dumps rawget(t, p) for every probe key and
// #t / rawlen(t).  checkLua replays the history on the model in lockstep with
// the recorded events.

func luaString(s string) string {
	var b strings.Builder
	b.WriteByte('"')
	for i := 0; i < len(s); i++ {
		c := s[i]
		if c >= 32 && c < 127 && c != '"' && c != '\\' {
			b.WriteByte(c)
		} else {
			fmt.Fprintf(&b, "\\%03d", c)
		}
	}
	b.WriteByte('"')
	return b.String()
}

func lit(v tm.Val) string {
	switch v.K {
	case tm.Nil:
		return "nil"
	case tm.Bool:
		return strconv.FormatBool(v.B)
	case tm.Int:
		switch {
		case v.I == math.MinInt64:
			return "math.mininteger"
		case v.I < 0:
			return "(" + strconv.FormatInt(v.I, 10) + ")"
		}
		return strconv.FormatInt(v.I, 10)
	case tm.Float:
		f := v.F
		switch {
		case f != f:
			return "(0/0)"
		case math.IsInf(f, 1):
			return "(1/0)"
		case math.IsInf(f, -1):
			return "(-1/0)"
		case f == 0 && math.Signbit(f):
			return "(-0.0)"
		}
		s := tm.ShowFloat(f)
		if f < 0 {
			return "(" + s + ")"
		}
		return s
	case tm.Str:
		return luaString(v.S)
	case tm.Ref:
		return "O[" + strconv.Itoa(v.R+1) + "]"
	}
	return "nil"
}

func isIdent(s string) bool {
	if s == "" || len(s) > 12 {
		return false
	}
	for i := 0; i < len(s); i++ {
		c := s[i]
		if !(c == '_' || (c >= 'a' && c <= 'z') || (c >= 'A' && c <= 'Z') || (i > 0 && c >= '0' && c <= '9')) {
			return false
		}
	}
	switch s {
	case "nil", "true", "false", "and", "or", "not", "if", "then", "else", "elseif", "end", "do", "while", "repeat", "until", "for", "in",
		"function", "local", "return", "break", "goto":
		return false
	}
	return true
}

// keyExpr renders the key of op i: as a literal, through a local variable, or
// as a field name; returns (statements to put before, index expression for t).
func keyExpr(i int, k tm.Val) (pre string, idx string, key string) {
	l := lit(k)
	switch {
	case k.K == tm.Str && isIdent(k.S) && i%3 == 0:
		return "", "t." + k.S, l
	case i%3 == 1:
		return "local k = " + l + " ", "t[k]", "k"
	}
	return "", "t[" + l + "]", l
}

const opsPerFunction = 40

// dumpPlan says what is read back after operation i of the rendered program:
// every probe key (full) after traversals, deep-check points, every 8th
// operation and the last one; otherwise the probes that address the field the
// operation touched (both spellings) -- always followed by #t and rawlen(t).
func dumpPlan(h *History, i int, probes []tm.Val) (idx []int, full bool) {
	o := &h.Ops[i]
	if o.Kind == OTrav || o.Kind == OCheck || i%8 == 7 || i == len(h.Ops)-1 {
		return nil, true
	}
	for j, p := range probes {
		if tm.SameSlot(p, o.K) || (p.IsNaN() && o.K.IsNaN()) {
			idx = append(idx, j)
		}
	}
	return idx, false
}

func renderLua(h *History, probes []tm.Val) string {
	var b strings.Builder
	b.WriteString("local O, P, obs = ...\n")
	b.WriteString("local rawget, rawset, rawlen, next, pairs, pcall, setmetatable = rawget, rawset, rawlen, next, pairs, pcall, setmetatable\n")
	b.WriteString("local t, fb = {}, {}\nlocal ni, nn = 0, 0\n")
	fmt.Fprintf(&b, "local NP = %d\n", len(probes))
	b.WriteString("local function D(id)\n  for i = 1, NP do obs(-2, id, i, rawget(t, P[i])) end\n  obs(-3, id, #t, rawlen(t))\n")
	if h.Meta == "table" {
		b.WriteString("  for i = 1, NP do obs(-4, id, i, rawget(fb, P[i])) end\n")
	}
	b.WriteString("end\n")
	switch h.Meta {
	case "store":
		b.WriteString("setmetatable(t, {__index = function(_, k) ni = ni + 1 return \"IDX\" end, __newindex = function(tt, k, v) nn = nn + 1 rawset(tt, k, v) end})\n")
	case "drop":
		b.WriteString("setmetatable(t, {__index = function(_, k) ni = ni + 1 return \"IDX\" end, __newindex = function(tt, k, v) nn = nn + 1 end})\n")
	case "table":
		b.WriteString("setmetatable(t, {__index = fb, __newindex = fb})\n")
	}
	for i := range h.Ops {
		if i%opsPerFunction == 0 {
			if i > 0 {
				b.WriteString("end)()\n")
			}
			b.WriteString(";(function()\n")
		}
		o := &h.Ops[i]
		b.WriteString("do ")
		switch o.Kind {
		case OSet:
			pre, idx, key := keyExpr(i, o.K)
			b.WriteString(pre)
			raw := o.API != "Index"
			switch {
			case invalidKey(o.K) && raw:
				fmt.Fprintf(&b, "obs(%d, (pcall(rawset, t, %s, %s)))", i, key, lit(o.V))
			case invalidKey(o.K):
				fmt.Fprintf(&b, "obs(%d, (pcall(function() %s = %s end)))", i, idx, lit(o.V))
			case raw:
				fmt.Fprintf(&b, "rawset(t, %s, %s) obs(%d)", key, lit(o.V), i)
			default:
				fmt.Fprintf(&b, "%s = %s obs(%d, nn)", idx, lit(o.V), i)
			}
		case OReset:
			pre, idx, key := keyExpr(i, o.K)
			b.WriteString(pre)
			fmt.Fprintf(&b, "if rawget(t, %s) ~= nil then %s = %s end obs(%d, nn)", key, idx, lit(o.V), i)
		case OGet:
			pre, idx, key := keyExpr(i, o.K)
			b.WriteString(pre)
			if o.API == "Index" {
				fmt.Fprintf(&b, "local v = %s obs(%d, ni, v)", idx, i)
			} else {
				fmt.Fprintf(&b, "obs(%d, rawget(t, %s))", i, key)
			}
		case OLen:
			if o.API == "IntLen" {
				fmt.Fprintf(&b, "obs(%d, rawlen(t))", i)
			} else {
				fmt.Fprintf(&b, "obs(%d, #t)", i)
			}
		case OTrav:
			renderTrav(&b, i, o)
		case OCheck:
		}
		b.WriteString(" end ")
		if idx, full := dumpPlan(h, i, probes); full {
			fmt.Fprintf(&b, "D(%d)\n", i)
		} else {
			for _, j := range idx {
				fmt.Fprintf(&b, "obs(-2, %d, %d, rawget(t, P[%d])) ", i, j+1, j+1)
			}
			fmt.Fprintf(&b, "obs(-3, %d, #t, rawlen(t))\n", i)
		}
	}
	if len(h.Ops) > 0 {
		b.WriteString("end)()\n")
	}
	b.WriteString("obs(-9)\n")
	return b.String()
}

func renderTrav(b *strings.Builder, i int, o *Op) {
	assign := func(key, val string) string {
		if o.UpdAPI == "Set" {
			return fmt.Sprintf("rawset(t, %s, %s)", key, val)
		}
		return fmt.Sprintf("t[%s] = %s", key, val)
	}
	b.WriteString("local ok, err = pcall(function()\n  local n = 0\n")
	if o.API == "pairs" {
		b.WriteString("  for k, v in pairs(t) do\n")
	} else {
		b.WriteString("  local k, v = next(t)\n  while k ~= nil do\n")
	}
	fmt.Fprintf(b, "    n = n + 1\n    obs(%d, 1, k, v)\n    if n > NP + 16 then error(\"too many visits\") end\n", i)
	if o.Cur != "-" && o.CurMod > 0 {
		val := "nil"
		if o.Cur == "asg" {
			val = "5000 + n"
		}
		fmt.Fprintf(b, "    if n %% %d == %d then %s end\n", o.CurMod, o.CurRem, assign("k", val))
	}
	for _, u := range o.Upds {
		fmt.Fprintf(b, "    if n == %d and rawget(t, %s) ~= nil then %s end\n", u.Step, lit(u.K), assign(lit(u.K), lit(u.V)))
	}
	if o.API != "pairs" {
		b.WriteString("    k, v = next(t, k)\n")
	}
	fmt.Fprintf(b, "  end\nend)\nobs(%d, 0, ok, err, nn)", i)
}

// runLua renders, compiles and runs the history and checks the events.
func (e *env) runLua(h *History, f *feats) (res *fail, src string) {
	probes := probesOf(h)
	src = renderLua(h, probes)
	e.nRuns++
	last := len(h.Ops) - 1
	if last < 0 {
		return nil, src
	}
	mk := func(kind, format string, a ...interface{}) *fail {
		return &fail{Kind: kind, Sig: kind + " lua program", Msg: fmt.Sprintf(format, a...), Op: last}
	}
	clos, out := e.s.Compile("c03hist", src)
	if out != nil {
		return mk("lua-outcome", "the rendered history does not compile: %s %s", out.ErrMsg, out.PanicMsg), src
	}
	O := rt.NewTable()
	for i, o := range e.objs {
		O.Set(rt.IntValue(int64(i+1)), o)
	}
	P := rt.NewTable()
	for i, p := range probes {
		P.Set(rt.IntValue(int64(i+1)), e.toRT(p))
	}
	e.events = e.events[:0]
	e.s.Trace = nil
	o := e.s.Call(rt.FunctionValue(clos), []rt.Value{rt.TableValue(O), rt.TableValue(P), rt.FunctionValue(e.obsFn)})
	evs := e.events
	if o.Kind == gl.Panic {
		fl := mk("panic", "Go panic while running the rendered history: %s\n%s", o.PanicMsg, trimStack(o.Stack))
		if n := lastOpSeen(evs); n >= 0 && n < len(h.Ops) {
			fl.Op = n
			fl.Sig = opSig("panic", &h.Ops[n]) + " lua"
		}
		return fl, src
	}
	fl := e.checkLua(h, probes, evs, f)
	if fl == nil && o.Kind != gl.OK {
		fl = mk("lua-outcome", "the rendered history ended with %s", o.String())
	}
	if fl == nil {
		for _, r := range o.Reports {
			return mk("hook", "hook report: %s", r), src
		}
	}
	return fl, src
}

func lastOpSeen(evs [][]rt.Value) int {
	for i := len(evs) - 1; i >= 0; i-- {
		if len(evs[i]) > 0 {
			if n, ok := evs[i][0].TryInt(); ok && n >= 0 {
				return int(n)
			}
		}
	}
	return -1
}

type evReader struct {
	evs [][]rt.Value
	pos int
}

func (r *evReader) next() []rt.Value {
	if r.pos >= len(r.evs) {
		return nil
	}
	ev := r.evs[r.pos]
	r.pos++
	return ev
}

func evInt(ev []rt.Value, i int) (int64, bool) {
	if i >= len(ev) {
		return 0, false
	}
	return ev[i].TryInt()
}

func (e *env) showEv(ev []rt.Value) string {
	if ev == nil {
		return "<no event>"
	}
	p := make([]string, len(ev))
	for i, v := range ev {
		p[i] = tm.Show(e.fromRT(v))
	}
	return "obs(" + strings.Join(p, ", ") + ")"
}

func (e *env) checkLua(h *History, probes []tm.Val, evs [][]rt.Value, f *feats) *fail {
	m, mfb := tm.New(), tm.New()
	ni, nn := int64(0), int64(0)
	rd := &evReader{evs: evs}
	arg := func(ev []rt.Value, i int) tm.Val {
		if i >= len(ev) {
			return tm.NilV
		}
		return e.fromRT(ev[i])
	}
	for i := range h.Ops {
		o := &h.Ops[i]
		if f != nil {
			f.ops["lua-"+opNames[o.Kind]+"/"+o.API]++
		}
		failf := func(kind, format string, a ...interface{}) *fail {
			return &fail{Kind: kind, Sig: opSig(kind, o) + " lua", Msg: fmt.Sprintf("op %d `%s` (Lua): ", i, o.String()) + fmt.Sprintf(format, a...), Op: i}
		}
		// the op's own event(s)
		opEvent := func() ([]rt.Value, *fail) {
			ev := rd.next()
			if id, ok := evInt(ev, 0); !ok || id != int64(i) {
				return nil, failf("lua-outcome", "expected the event of this operation, got %s", e.showEv(ev))
			}
			return ev, nil
		}
		switch o.Kind {
		case OSet:
			ev, fl := opEvent()
			if fl != nil {
				return fl
			}
			raw := o.API != "Index"
			if invalidKey(o.K) {
				if !raw && (h.Meta == "store" || h.Meta == "drop") {
					break
				}
				if ok, isB := ev[len(ev)-1].TryBool(); len(ev) != 2 || !isB || ok {
					return failf("invalid-key", "assignment with key %s did not raise an error: %s", tm.Show(o.K), e.showEv(ev))
				}
				break
			}
			present := m.Present(o.K)
			if raw {
				m.Set(o.K, o.V)
				break
			}
			got, _ := evInt(ev, 1)
			switch {
			case present || h.Meta == "none":
				if got != nn {
					return failf("newindex", "__newindex was consulted (%d call) although the raw key %s is present (value %s)", got-nn, tm.Show(o.K), tm.Show(m.Get(o.K)))
				}
				m.Set(o.K, o.V)
			case h.Meta == "table":
				mfb.Set(o.K, o.V)
			default:
				if got != nn+1 {
					return failf("newindex", "__newindex was called %d times for an assignment to the absent key %s, exactly once is required", got-nn, tm.Show(o.K))
				}
				nn++
				if h.Meta == "store" {
					m.Set(o.K, o.V)
				}
			}
		case OReset:
			ev, fl := opEvent()
			if fl != nil {
				return fl
			}
			if got, _ := evInt(ev, 1); got != nn {
				return failf("newindex", "__newindex was consulted (%d call) by an assignment to the present key %s", got-nn, tm.Show(o.K))
			}
			if m.Present(o.K) {
				m.Set(o.K, o.V)
			}
		case OGet:
			ev, fl := opEvent()
			if fl != nil {
				return fl
			}
			want := m.Get(o.K)
			if o.API != "Index" {
				if g := arg(ev, 1); !tm.Same(g, want) {
					return failf("get", "rawget of key %s returned %s, the model holds %s", tm.Show(o.K), tm.Show(g), tm.Show(want))
				}
				break
			}
			calls := int64(0)
			if want.IsNil() {
				switch h.Meta {
				case "store", "drop":
					want, calls = tm.S("IDX"), 1
				case "table":
					want = mfb.Get(o.K)
				}
			}
			got, _ := evInt(ev, 1)
			if got != ni+calls {
				if calls == 0 {
					return failf("index", "__index was consulted (%d call) although the raw key %s is present", got-ni, tm.Show(o.K))
				}
				return failf("index", "__index was called %d times for a read of the absent key %s, exactly once is required", got-ni, tm.Show(o.K))
			}
			ni += calls
			if g := arg(ev, 2); !tm.Same(g, want) {
				return failf("get", "t[%s] returned %s, expected %s", tm.Show(o.K), tm.Show(g), tm.Show(want))
			}
		case OLen:
			ev, fl := opEvent()
			if fl != nil {
				return fl
			}
			n, ok := evInt(ev, 1)
			if !ok || !m.IsBorder(n) {
				return failf("len", "length %s is not a border (t[n]=%s, t[n+1]=%s)", tm.Show(arg(ev, 1)), tm.Show(m.Get(tm.I(n))), tm.Show(m.Get(tm.I(n+1))))
			}
		case OTrav:
			tr := m.BeginTraversal()
			for {
				ev, fl := opEvent()
				if fl != nil {
					return fl
				}
				tag, _ := evInt(ev, 1)
				if tag == 0 {
					if ok, _ := ev[2].TryBool(); !ok {
						return failf("next", "the traversal raised %s after %d visits", tm.Show(arg(ev, 3)), tr.Steps)
					}
					if got, _ := evInt(ev, 4); got != nn {
						return failf("newindex", "__newindex was consulted (%d call) during a traversal that only assigns existing fields", got-nn)
					}
					break
				}
				k, v := arg(ev, 2), arg(ev, 3)
				if err := tr.Visit(k, v); err != nil {
					return failf("next", "%v (visit %d)", err, tr.Steps)
				}
				n := tr.Steps
				if o.Cur != "-" && o.CurMod > 0 && n%o.CurMod == o.CurRem {
					nv := tm.NilV
					if o.Cur == "asg" {
						nv = tm.I(int64(5000 + n))
					}
					tr.Assign(k, nv)
				}
				for _, u := range o.Upds {
					if u.Step == n {
						tr.Assign(u.K, u.V)
					}
				}
			}
			if err := tr.End(); err != nil {
				return failf("next", "%v (%d visits)", err, tr.Steps)
			}
		case OCheck:
		}
		// the dump
		idx, full := dumpPlan(h, i, probes)
		if full {
			idx = idx[:0]
			for j := range probes {
				idx = append(idx, j)
			}
		}
		for _, j := range idx {
			p := probes[j]
			ev := rd.next()
			id, _ := evInt(ev, 0)
			op, _ := evInt(ev, 1)
			pj, _ := evInt(ev, 2)
			if id != -2 || op != int64(i) || pj != int64(j+1) {
				return failf("lua-outcome", "expected dump event %d, got %s", j+1, e.showEv(ev))
			}
			if g, want := arg(ev, 3), m.Get(p); !tm.Same(g, want) {
				fl := failf("get", "afterwards rawget(t, %s) is %s, the model holds %s", tm.Show(p), tm.Show(g), tm.Show(want))
				fl.Sig += " probe=" + keyClass(p)
				return fl
			}
		}
		ev := rd.next()
		if id, _ := evInt(ev, 0); id != -3 {
			return failf("lua-outcome", "expected the length event, got %s", e.showEv(ev))
		}
		for _, x := range []int{2, 3} {
			n, ok := evInt(ev, x)
			if !ok || !m.IsBorder(n) {
				return failf("len", "afterwards %s = %s is not a border (t[n]=%s, t[n+1]=%s)", map[int]string{2: "#t", 3: "rawlen(t)"}[x], tm.Show(arg(ev, x)), tm.Show(m.Get(tm.I(n))), tm.Show(m.Get(tm.I(n+1))))
			}
		}
		if h.Meta == "table" && full {
			for j, p := range probes {
				ev := rd.next()
				if id, _ := evInt(ev, 0); id != -4 {
					return failf("lua-outcome", "expected fallback dump event %d, got %s", j+1, e.showEv(ev))
				}
				if g, want := arg(ev, 3), mfb.Get(p); !tm.Same(g, want) {
					return failf("newindex", "the __newindex/__index table holds %s for key %s, the model holds %s", tm.Show(g), tm.Show(p), tm.Show(want))
				}
			}
		}
	}
	if ev := rd.next(); len(ev) != 1 {
		return &fail{Kind: "lua-outcome", Sig: "lua-outcome end", Msg: "expected the end marker, got " + e.showEv(ev), Op: len(h.Ops) - 1}
	}
	return nil
}
