package c03

import (
	"fmt"
	"math"
	"runtime/debug"
	"strings"

	rt "github.com/arnodel/golua/runtime"

	"verif/internal/gl"
	tm "verif/internal/tabmodel"
	"verif/internal/vp"
)

// env is what one child process shares between histories: a runtime, the pool
// of reference values and the counting metamethod handlers.
type env struct {
	c    *vp.Child
	s    *gl.Sess
	th   *rt.Thread
	objs []rt.Value
	ids  map[interface{}]int
	cur  *run // the run the handlers report to

	fnIndex, fnNewIndexStore, fnNewIndexDrop *rt.GoFunction
	obsFn                                    *rt.GoFunction
	events                                   [][]rt.Value
	nRuns                                    int
}

const closurePrelude = `
local function mkA() return function() end end
local shared = 0
local function mkB() return function() shared = shared + 1 return shared end end
local function mkC() local own = 0 return function() own = own + 1 return own end end
return function() return 1 end, function(x) return x end, mkA(), mkA(), mkB(), mkB(), mkC(), mkC()
`

func identity(v rt.Value) interface{} {
	switch v.Type() {
	case rt.TableType:
		return v.AsTable()
	case rt.FunctionType:
		c, _ := v.TryCallable()
		return c
	case rt.UserDataType:
		return v.AsUserData()
	case rt.ThreadType:
		return v.AsThread()
	}
	return nil
}

var allComply = rt.ComplyCpuSafe | rt.ComplyMemSafe | rt.ComplyTimeSafe | rt.ComplyIoSafe

func newEnv(c *vp.Child) *env {
	e := &env{c: c}
	e.reset()
	return e
}

// closures returns the closures made by the prelude chunk (2 of distinct
// prototypes, then the pairs A (no upvalue), B (shared upvalue), C (own upvalue)).
func (e *env) closures() []rt.Value {
	clos, out := e.s.Compile("c03-prelude", closurePrelude)
	if out != nil {
		panic("c03 prelude does not compile: " + out.ErrMsg + out.PanicMsg)
	}
	term := rt.NewTerminationWith(nil, 0, true)
	if err := rt.Call(e.th, rt.FunctionValue(clos), nil, term); err != nil {
		panic("c03 prelude fails: " + err.Error())
	}
	return term.Etc()
}

func (e *env) reset() {
	if e.s != nil {
		e.s.Close()
	}
	e.s = gl.NewSess(gl.Options{})
	e.th = e.s.R.MainThread()
	cl := e.closures()
	e.objs = nil
	for i := 0; i < 4; i++ {
		e.objs = append(e.objs, rt.TableValue(rt.NewTable()))
	}
	nop := func(t *rt.Thread, c *rt.GoCont) (rt.Cont, error) { return c.Next(), nil }
	g1 := rt.NewGoFunction(nop, "c03key1", 0, true)
	g2 := rt.NewGoFunction(nop, "c03key2", 0, true)
	g1.SolemnlyDeclareCompliance(allComply)
	g2.SolemnlyDeclareCompliance(allComply)
	e.objs = append(e.objs, rt.FunctionValue(g1), rt.FunctionValue(g2), cl[0], cl[1],
		rt.UserDataValue(rt.NewUserData(new(int), nil)), rt.ThreadValue(e.th))
	if len(e.objs) != len(objKinds) {
		panic("object pool layout")
	}
	e.ids = map[interface{}]int{}
	for i, o := range e.objs {
		e.ids[identity(o)] = i
	}
	// counting handlers
	e.fnIndex = rt.NewGoFunction(func(t *rt.Thread, c *rt.GoCont) (rt.Cont, error) {
		if r := e.cur; r != nil {
			r.ni++
			r.hT, r.hK = c.Arg(0), c.Arg(1)
		}
		return c.PushingNext1(t.Runtime, rt.StringValue("IDX")), nil
	}, "c03index", 2, false)
	e.fnNewIndexStore = rt.NewGoFunction(func(t *rt.Thread, c *rt.GoCont) (rt.Cont, error) {
		if r := e.cur; r != nil {
			r.nn++
			r.hT, r.hK, r.hV = c.Arg(0), c.Arg(1), c.Arg(2)
		}
		if tbl, ok := c.Arg(0).TryTable(); ok {
			if err := t.SetTableCheck(tbl, c.Arg(1), c.Arg(2)); err != nil {
				return nil, err
			}
		}
		return c.Next(), nil
	}, "c03newindex", 3, false)
	e.fnNewIndexDrop = rt.NewGoFunction(func(t *rt.Thread, c *rt.GoCont) (rt.Cont, error) {
		if r := e.cur; r != nil {
			r.nn++
			r.hT, r.hK, r.hV = c.Arg(0), c.Arg(1), c.Arg(2)
		}
		return c.Next(), nil
	}, "c03newindexdrop", 3, false)
	e.obsFn = rt.NewGoFunction(func(t *rt.Thread, c *rt.GoCont) (rt.Cont, error) {
		if len(e.events) < 2000000 {
			e.events = append(e.events, append([]rt.Value(nil), c.Etc()...))
		}
		return c.Next(), nil
	}, "obs", 0, true)
	for _, f := range []*rt.GoFunction{e.fnIndex, e.fnNewIndexStore, e.fnNewIndexDrop, e.obsFn} {
		f.SolemnlyDeclareCompliance(allComply)
	}
}

func (e *env) toRT(v tm.Val) rt.Value {
	switch v.K {
	case tm.Bool:
		return rt.BoolValue(v.B)
	case tm.Int:
		return rt.IntValue(v.I)
	case tm.Float:
		return rt.FloatValue(v.F)
	case tm.Str:
		// a fresh backing array each time: string equality must be by content
		return rt.StringValue(string(append([]byte(nil), v.S...)))
	case tm.Ref:
		return e.objs[v.R]
	}
	return rt.NilValue
}

func (e *env) fromRT(v rt.Value) tm.Val {
	if v.IsNil() {
		return tm.NilV
	}
	switch v.Type() {
	case rt.BoolType:
		return tm.B(v.AsBool())
	case rt.IntType:
		return tm.I(v.AsInt())
	case rt.FloatType:
		return tm.F(v.AsFloat())
	case rt.StringType:
		return tm.S(v.AsString())
	}
	if id := identity(v); id != nil {
		if i, ok := e.ids[id]; ok {
			return ref(i)
		}
	}
	return tm.R(-1, "unknown-"+v.TypeName())
}

// ---------------------------------------------------------------------------

// fail is the first refuting observation of a run.
type fail struct {
	Kind string // class of the refuting event
	Sig  string
	Msg  string
	Op   int // index of the operation at which it was observed
}

// feats is what a run reports for the evidence (nil while minimising).
type feats struct {
	arrayGrew, chained, tomb bool
	maxArray, maxHash        int
	ops                      map[string]int64
}

type run struct {
	e          *env
	h          *History
	t, fb      *rt.Table
	m, mfb     *tm.Table
	ni, nn     int
	hT, hK, hV rt.Value
	probes     []tm.Val
	probeRT    []rt.Value // the probes as golua values (NaN and invalid keys included)
	probeKey   []tm.Key   // their normalised keys
	probeOK    []bool     // false for keys that address no field
	f          *feats
	lastArray  int
}

func rkName(i int) string { return objKinds[i] }

func opSig(kind string, o *Op) string {
	switch o.Kind {
	case OTrav:
		return fmt.Sprintf("%s trav/%s upd=%s cur=%s", kind, o.API, o.UpdAPI, o.Cur)
	case OLen, OCheck:
		return fmt.Sprintf("%s %s/%s", kind, opNames[o.Kind], o.API)
	}
	return fmt.Sprintf("%s %s/%s key=%s", kind, opNames[o.Kind], o.API, keyClass(o.K))
}

func (r *run) failf(i int, kind string, format string, a ...interface{}) *fail {
	o := &r.h.Ops[i]
	return &fail{Kind: kind, Sig: opSig(kind, o), Msg: fmt.Sprintf("op %d `%s`: ", i, o.String()) + fmt.Sprintf(format, a...), Op: i}
}

func (e *env) newRun(h *History, f *feats) *run {
	r := &run{e: e, h: h, t: rt.NewTable(), fb: rt.NewTable(), m: tm.New(), mfb: tm.New(), f: f}
	r.probes = probesOf(h)
	r.probeRT = make([]rt.Value, len(r.probes))
	r.probeKey = make([]tm.Key, len(r.probes))
	r.probeOK = make([]bool, len(r.probes))
	for i, p := range r.probes {
		r.probeRT[i] = e.toRT(p)
		k, err := tm.Normalize(p)
		r.probeKey[i], r.probeOK[i] = k, err == nil
	}
	switch h.Meta {
	case "store", "drop":
		mt := rt.NewTable()
		mt.Set(rt.StringValue("__index"), rt.FunctionValue(e.fnIndex))
		if h.Meta == "store" {
			mt.Set(rt.StringValue("__newindex"), rt.FunctionValue(e.fnNewIndexStore))
		} else {
			mt.Set(rt.StringValue("__newindex"), rt.FunctionValue(e.fnNewIndexDrop))
		}
		r.t.SetMetatable(mt)
	case "table":
		mt := rt.NewTable()
		mt.Set(rt.StringValue("__index"), rt.TableValue(r.fb))
		mt.Set(rt.StringValue("__newindex"), rt.TableValue(r.fb))
		r.t.SetMetatable(mt)
	}
	return r
}

func invalidKey(k tm.Val) bool { return k.IsNil() || k.IsNaN() }

// runGo drives the history through golua's Go API, comparing with the model
// after every operation.
func (e *env) runGo(h *History, f *feats) (res *fail) {
	r := e.newRun(h, f)
	e.cur = r
	e.nRuns++
	cur := 0
	defer func() {
		e.cur = nil
		if p := recover(); p != nil {
			o := &h.Ops[cur]
			res = &fail{Kind: "panic", Sig: opSig("panic", o), Op: cur,
				Msg: fmt.Sprintf("op %d `%s`: Go panic: %v\n%s", cur, o.String(), p, trimStack(string(debug.Stack())))}
		}
	}()
	for i := range h.Ops {
		cur = i
		if fl := r.step(i); fl != nil {
			return fl
		}
		if fl := r.quickCheck(i); fl != nil {
			return fl
		}
		if i%8 == 7 || h.Ops[i].Kind == OCheck || i == len(h.Ops)-1 {
			if fl := r.deepCheck(i); fl != nil {
				return fl
			}
		}
	}
	return nil
}

func trimStack(s string) string {
	lines := strings.Split(s, "\n")
	var keep []string
	for _, l := range lines {
		if strings.Contains(l, "golua/runtime") || strings.Contains(l, "golua/lib") {
			keep = append(keep, strings.TrimSpace(l))
		}
		if len(keep) >= 12 {
			break
		}
	}
	return strings.Join(keep, "\n")
}

// assignVia performs t[k] = v through the named API and returns the error.
func (r *run) assignVia(api string, k, v rt.Value) error {
	switch api {
	case "Set":
		r.t.Set(k, v)
		return nil
	case "Check":
		return r.e.s.R.SetTableCheck(r.t, k, v)
	case "Reset":
		r.t.Reset(k, v)
		return nil
	default:
		return rt.SetIndex(r.e.th, rt.TableValue(r.t), k, v)
	}
}

func (r *run) handlerArgs(i int, what string, k tm.Val, withV bool, v tm.Val) *fail {
	if t, ok := r.hT.TryTable(); !ok || t != r.t {
		return r.failf(i, what, "handler was called with a first argument that is not the indexed table")
	}
	gk := r.e.fromRT(r.hK)
	if !(tm.RawEqual(gk, k) || (gk.IsNaN() && k.IsNaN())) {
		return r.failf(i, what, "handler was called with key %s for an access with key %s", tm.Show(gk), tm.Show(k))
	}
	if withV && !tm.Same(r.e.fromRT(r.hV), v) {
		return r.failf(i, what, "handler was called with value %s, the assigned value is %s", tm.Show(r.e.fromRT(r.hV)), tm.Show(v))
	}
	return nil
}

func (r *run) step(i int) *fail {
	o := &r.h.Ops[i]
	e := r.e
	if r.f != nil {
		r.f.ops[opNames[o.Kind]+"/"+o.API]++
	}
	switch o.Kind {
	case OSet:
		k, v := e.toRT(o.K), e.toRT(o.V)
		bad := invalidKey(o.K)
		api := o.API
		if api == "Set" && bad {
			api = "Check" // Table.Set has the precondition "valid key"
		}
		ni0, nn0 := r.ni, r.nn
		present := r.m.Present(o.K)
		err := r.assignVia(api, k, v)
		if bad {
			if api == "Index" && (r.h.Meta == "store" || r.h.Meta == "drop") {
				return nil // the handler decides; no verdict
			}
			if err == nil {
				return r.failf(i, "invalid-key", "assignment with key %s succeeded, an error is required", tm.Show(o.K))
			}
			return nil
		}
		if err != nil {
			return r.failf(i, "unexpected-error", "assignment failed: %v", err)
		}
		if r.ni != ni0 {
			return r.failf(i, "index", "__index consulted by an assignment")
		}
		if api != "Index" || present || r.h.Meta == "none" {
			if r.nn != nn0 {
				if api == "Index" && present {
					return r.failf(i, "newindex", "__newindex was consulted (%d call) although the raw key %s is present (value %s)", r.nn-nn0, tm.Show(o.K), tm.Show(r.m.Get(o.K)))
				}
				return r.failf(i, "newindex", "__newindex was consulted by a raw assignment")
			}
			r.m.Set(o.K, o.V)
			return nil
		}
		// assignment through SetIndex to an absent key under a metatable
		switch r.h.Meta {
		case "store", "drop":
			if r.nn != nn0+1 {
				return r.failf(i, "newindex", "__newindex was called %d times for an assignment to the absent key %s, exactly once is required", r.nn-nn0, tm.Show(o.K))
			}
			if fl := r.handlerArgs(i, "newindex", o.K, true, o.V); fl != nil {
				return fl
			}
			if r.h.Meta == "store" {
				r.m.Set(o.K, o.V)
			}
		case "table":
			r.mfb.Set(o.K, o.V)
		}
	case OReset:
		k, v := e.toRT(o.K), e.toRT(o.V)
		want := r.m.Present(o.K)
		nn0, ni0 := r.nn, r.ni
		got := r.t.Reset(k, v)
		if got != want {
			return r.failf(i, "reset", "Table.Reset returned %v, the field %s is %s", got, tm.Show(o.K), map[bool]string{true: "present", false: "absent"}[want])
		}
		if r.nn != nn0 || r.ni != ni0 {
			return r.failf(i, "newindex", "a metamethod was consulted by Table.Reset")
		}
		if want {
			r.m.Set(o.K, o.V)
		}
	case OGet:
		k := e.toRT(o.K)
		ni0, nn0 := r.ni, r.nn
		var got rt.Value
		var err error
		switch o.API {
		case "Get":
			got = r.t.Get(k)
		case "RawGet":
			got = rt.RawGet(r.t, k)
		default:
			got, err = rt.Index(e.th, rt.TableValue(r.t), k)
		}
		if err != nil {
			return r.failf(i, "unexpected-error", "read failed: %v", err)
		}
		if r.nn != nn0 {
			return r.failf(i, "newindex", "__newindex consulted by a read")
		}
		want := r.m.Get(o.K)
		wantCalls := 0
		if o.API == "Index" && want.IsNil() {
			switch r.h.Meta {
			case "store", "drop":
				want, wantCalls = tm.S("IDX"), 1
			case "table":
				want = r.mfb.Get(o.K)
			}
		}
		if r.ni-ni0 != wantCalls {
			if wantCalls == 0 {
				return r.failf(i, "index", "__index was consulted (%d call) although the raw key %s is present or the read is raw", r.ni-ni0, tm.Show(o.K))
			}
			return r.failf(i, "index", "__index was called %d times for a read of the absent key %s, exactly once is required", r.ni-ni0, tm.Show(o.K))
		}
		if wantCalls == 1 {
			if fl := r.handlerArgs(i, "index", o.K, false, tm.NilV); fl != nil {
				return fl
			}
		}
		if g := e.fromRT(got); !tm.Same(g, want) {
			return r.failf(i, "get", "read of key %s returned %s, the model holds %s", tm.Show(o.K), tm.Show(g), tm.Show(want))
		}
	case OLen:
		var n int64
		var err error
		if o.API == "IntLen" {
			n, err = rt.IntLen(e.th, rt.TableValue(r.t))
		} else {
			n = r.t.Len()
		}
		if err != nil {
			return r.failf(i, "unexpected-error", "length failed: %v", err)
		}
		if !r.m.IsBorder(n) {
			return r.failf(i, "len", "length %d is not a border (t[%d]=%s, t[%d]=%s)", n, n, tm.Show(r.m.Get(tm.I(n))), n+1, tm.Show(r.m.Get(tm.I(n+1))))
		}
	case OTrav:
		return r.traverse(i, o)
	case OCheck:
	}
	return nil
}

// traverse runs a Next chain from nil, applying the op's updates of existing
// fields on the way.
func (r *run) traverse(i int, o *Op) *fail {
	e := r.e
	tr := r.m.BeginTraversal()
	limit := r.m.Count() + 8
	k := rt.NilValue
	apply := func(uk, uv tm.Val) *fail {
		// guarded by presence in the real table, as the Lua rendering is
		if r.t.Get(e.toRT(uk)).IsNil() != !r.m.Present(uk) {
			return r.failf(i, "get", "during traversal, presence of key %s differs from the model (%v)", tm.Show(uk), r.m.Present(uk))
		}
		if !r.m.Present(uk) {
			return nil
		}
		nn0 := r.nn
		if err := r.assignVia(o.UpdAPI, e.toRT(uk), e.toRT(uv)); err != nil {
			return r.failf(i, "unexpected-error", "update during traversal failed: %v", err)
		}
		if r.nn != nn0 {
			return r.failf(i, "newindex", "__newindex was consulted during a traversal although the raw key %s is present", tm.Show(uk))
		}
		tr.Assign(uk, uv)
		return nil
	}
	for {
		nk, nv, ok := r.t.Next(k)
		if !ok {
			mk := e.fromRT(k)
			state := "is present"
			if !r.m.Present(mk) {
				state = "was cleared during this traversal"
			}
			return r.failf(i, "next", "Next(%s) reported an invalid key after %d visits; the key was returned by the previous Next and %s", tm.Show(mk), tr.Steps, state)
		}
		if nk.IsNil() {
			break
		}
		if err := tr.Visit(e.fromRT(nk), e.fromRT(nv)); err != nil {
			return r.failf(i, "next", "%v (visit %d)", err, tr.Steps)
		}
		if tr.Steps > limit {
			return r.failf(i, "next", "traversal does not end (%d visits, %d fields)", tr.Steps, r.m.Count())
		}
		n := tr.Steps
		if o.Cur != "-" && o.CurMod > 0 && n%o.CurMod == o.CurRem {
			v := tm.NilV
			if o.Cur == "asg" {
				v = tm.I(int64(5000 + n))
			}
			if fl := apply(e.fromRT(nk), v); fl != nil {
				return fl
			}
		}
		for _, u := range o.Upds {
			if u.Step == n {
				if fl := apply(u.K, u.V); fl != nil {
					return fl
				}
			}
		}
		k = nk
	}
	if err := tr.End(); err != nil {
		return r.failf(i, "next", "%v (%d visits)", err, tr.Steps)
	}
	return nil
}

// quickCheck compares every probe key (both spellings) and the border after an
// operation.
func (r *run) quickCheck(i int) *fail {
	e := r.e
	for j, p := range r.probes {
		got := e.fromRT(r.t.Get(r.probeRT[j]))
		want := tm.NilV
		if r.probeOK[j] {
			want = r.m.GetKey(r.probeKey[j])
		}
		if !tm.Same(got, want) {
			fl := r.failf(i, "get", "afterwards t[%s] is %s, the model holds %s", tm.Show(p), tm.Show(got), tm.Show(want))
			fl.Sig += " probe=" + keyClass(p)
			return fl
		}
	}
	if !r.t.Get(rt.NilValue).IsNil() {
		return r.failf(i, "get", "t[nil] is not nil")
	}
	if n := r.t.Len(); !r.m.IsBorder(n) {
		return r.failf(i, "len", "afterwards the length %d is not a border (t[%d]=%s, t[%d]=%s)", n, n, tm.Show(r.m.Get(tm.I(n))), n+1, tm.Show(r.m.Get(tm.I(n+1))))
	}
	return nil
}

// deepCheck: the invariant hook, a full Next chain against the model, the
// fallback table of the "table" mode.
func (r *run) deepCheck(i int) *fail {
	e := r.e
	if err := checkInvariants(r.t); err != nil {
		return r.failf(i, "invariant", "VerifCheckInvariants: %v", err)
	}
	if r.f != nil {
		sh := shapeOf(r.t)
		if sh.array > r.lastArray {
			r.f.arrayGrew = true
		}
		r.lastArray = sh.array
		if sh.chained > 0 {
			r.f.chained = true
		}
		if sh.tomb > 0 {
			r.f.tomb = true
		}
		if sh.array > r.f.maxArray {
			r.f.maxArray = sh.array
		}
		if sh.hash > r.f.maxHash {
			r.f.maxHash = sh.hash
		}
	}
	tr := r.m.BeginTraversal()
	k := rt.NilValue
	for {
		nk, nv, ok := r.t.Next(k)
		if !ok {
			return r.failf(i, "next", "full traversal: Next(%s) reported an invalid key", tm.Show(e.fromRT(k)))
		}
		if nk.IsNil() {
			break
		}
		if err := tr.Visit(e.fromRT(nk), e.fromRT(nv)); err != nil {
			return r.failf(i, "next", "full traversal: %v", err)
		}
		if tr.Steps > r.m.Count()+8 {
			return r.failf(i, "next", "full traversal does not end")
		}
		k = nk
	}
	if err := tr.End(); err != nil {
		return r.failf(i, "next", "full traversal: %v", err)
	}
	if r.h.Meta == "table" {
		for _, p := range r.probes {
			got := e.fromRT(r.fb.Get(e.toRT(p)))
			if want := r.mfb.Get(p); !tm.Same(got, want) {
				return r.failf(i, "newindex", "the __newindex/__index table holds %s for key %s, the model holds %s", tm.Show(got), tm.Show(p), tm.Show(want))
			}
		}
	}
	return nil
}

var _ = math.NaN
