package c15

import (
	"fmt"
	"strings"

	"github.com/arnodel/golua/lib/stringlib/pattern"

	"verif/internal/vp"
)

// Stage "sets": membership of single-character classes over ALL 256 byte
// values, judged by a model written directly from the manual (§6.4.1) and the C
// locale's ctype tables:
//   * [x-y] and [^x-y] for every ordered pair (x, y) of 24 boundary bytes (the
//     ends and both sides of every 32/64-byte block boundary, digits, letters)
//     with x <= y against every one-byte subject: matches iff x <= c <= y (a
//     descending range has no defined meaning: only 'no panic');
//   * %a %c %d %g %l %p %s %u %w %x and their complements, alone and inside
//     a set, against every one-byte subject;
//   * the frontier %f[x-y] against every two-byte subject over the boundary
//     bytes: first position whose previous byte (\0 at the start) is outside and
//     whose byte (\0 at the end) is inside the set.

var boundaryBytes = []byte{0, 1, 9, 31, 32, 47, 48, 57, 63, 64, 65, 90, 91, 96, 97, 122, 127, 128, 129, 191, 192, 193, 254, 255}

func inClass(cl byte, c byte) bool {
	isUpper := c >= 'A' && c <= 'Z'
	isLower := c >= 'a' && c <= 'z'
	isDigit := c >= '0' && c <= '9'
	switch cl {
	case 'a':
		return isUpper || isLower
	case 'c':
		return c < 32 || c == 127
	case 'd':
		return isDigit
	case 'g':
		return c > 32 && c < 127
	case 'l':
		return isLower
	case 'p':
		return c > 32 && c < 127 && !isUpper && !isLower && !isDigit
	case 's':
		return c == ' ' || (c >= 9 && c <= 13)
	case 'u':
		return isUpper
	case 'w':
		return isUpper || isLower || isDigit
	case 'x':
		return isDigit || (c >= 'a' && c <= 'f') || (c >= 'A' && c <= 'F')
	}
	panic("class")
}

// firstMatch returns the 0-based start of the first match, or -1.
func firstMatch(c *vp.Child, src, subj string) (start int, problem string) {
	p, err, pan := goNew(src)
	if pan != "" {
		return 0, "pattern.New panicked: " + pan
	}
	if err != nil {
		return 0, "pattern.New failed: " + err.Error()
	}
	caps, _, pan := goFind(p, subj, 0, false, 1<<30)
	if pan != "" {
		return 0, "Match panicked: " + pan
	}
	if len(caps) == 0 {
		return -1, ""
	}
	return caps[0].Start(), ""
}

func runSets(c *vp.Child) {
	k := 0
	check := func(kind, src string, subj string, want int) {
		got, problem := firstMatch(c, src, subj)
		c.Eval(1)
		if problem == "" && got == want {
			return
		}
		if problem == "" {
			problem = fmt.Sprintf("first match at %d, the model says %d", got, want)
		}
		c.Violation("set-"+kind, fmt.Sprintf("%s pattern %q subject %q", kind, src, subj), problem, fmt.Sprintf("return (%s):find(%s)", q(subj), q(src)))
	}
	b2i := func(b bool) int {
		if b {
			return 0
		}
		return -1
	}
	// ranges
	for _, x := range boundaryBytes {
		for _, y := range boundaryBytes {
			k++
			if !c.Mine(k) {
				continue
			}
			rng := string([]byte{x, '-', y})
			if x > y {
				// the manual asks for the ends "in ascending order": a descending range has no
				// defined meaning, only "no Go panic" is judged
				for ch := 0; ch < 256; ch += 17 {
					if _, problem := firstMatch(c, "["+rng+"]", string([]byte{byte(ch)})); problem != "" {
						c.Violation("set-range", fmt.Sprintf("descending range %q", rng), problem, fmt.Sprintf("return (%s):find(%s)", q(string([]byte{byte(ch)})), q("["+rng+"]")))
					}
					c.Eval(1)
				}
				continue
			}
			c.Begin(fmt.Sprintf("range %d-%d", x, y), q("["+rng+"]"))
			c.NonTrivial(vp.Hash("range", rng))
			for ch := 0; ch < 256; ch++ {
				in := x <= byte(ch) && byte(ch) <= y
				s := string([]byte{byte(ch)})
				check("range", "["+rng+"]", s, b2i(in))
				check("range-complement", "[^"+rng+"]", s, b2i(!in))
			}
			if x < y && int(y)-int(x) < 60 {
				continue // frontier only for the wide ranges
			}
			for _, p := range boundaryBytes {
				for _, ch := range boundaryBytes {
					in := func(b byte) bool { return x <= b && b <= y }
					want := -1
					seq := []byte{0, p, ch, 0}
					for i := 0; i <= 2; i++ {
						if !in(seq[i]) && in(seq[i+1]) {
							want = i
							break
						}
					}
					check("frontier", "%f["+rng+"]", string([]byte{p, ch}), want)
				}
			}
		}
	}
	// classes
	for _, cl := range []byte("acdglpsuwx") {
		k++
		if !c.Mine(k) {
			continue
		}
		c.Begin("class %"+string(cl), "%"+string(cl))
		c.NonTrivial(vp.Hash("class", string(cl)))
		up := strings.ToUpper(string(cl))
		for ch := 0; ch < 256; ch++ {
			in := inClass(cl, byte(ch))
			s := string([]byte{byte(ch)})
			check("class", "%"+string(cl), s, b2i(in))
			check("class", "%"+up, s, b2i(!in))
			check("class-in-set", "[%"+string(cl)+"]", s, b2i(in))
			check("class-in-set", "[^%"+string(cl)+"]", s, b2i(!in))
			check("class-in-set", "[%"+up+"]", s, b2i(!in))
			check("class-in-set", "[%"+string(cl)+"\x80-\xff]", s, b2i(in || ch >= 0x80))
			check("class-in-set", "[_%"+string(cl)+"]", s, b2i(in || ch == '_'))
		}
	}
	_ = pattern.Capture{}
}
