package c15

import (
	"encoding/json"

	"verif/internal/vp"
)

// The input recorded with a violation is the (minimised) case as JSON, so that
// run.sh C15 quick --replay <file> can run it again.
type lcaseJSON struct {
	Call      string `json:"call"` // human-readable form
	Op        string `json:"op"`
	P         string `json:"pattern"`
	S         string `json:"subject"`
	Init0     int    `json:"init0,omitempty"`
	FromStart bool   `json:"from_start,omitempty"`
	Lo        int64  `json:"lo,omitempty"`
	Hi        int64  `json:"hi,omitempty"`
	Def       bool   `json:"default_init,omitempty"`
	HasInit   bool   `json:"has_init,omitempty"`
	Init      int64  `json:"init,omitempty"`
	Kind      int    `json:"repl_kind,omitempty"`
	Ri        int    `json:"repl_index,omitempty"`
	Rs        string `json:"repl_string,omitempty"`
	HasN      bool   `json:"has_n,omitempty"`
	N         int64  `json:"n,omitempty"`
}

func (lc lcase) JSON() string {
	b, _ := json.Marshal(lcaseJSON{lc.String(), lc.op, lc.p, lc.s, lc.init0, lc.fromStart, lc.lo, lc.hi, lc.def, lc.hasInit, lc.init, lc.kind, lc.ri, lc.rs, lc.hasN, lc.n})
	return string(b)
}

// Replay re-runs one recorded case.
func (Prop) Replay(c *vp.Child, input string) {
	var j lcaseJSON
	if err := json.Unmarshal([]byte(input), &j); err != nil || j.Op == "" {
		c.Inconclusive("witness is not a replayable pattern case")
		return
	}
	lc := lcase{op: j.Op, p: j.P, s: j.S, init0: j.Init0, fromStart: j.FromStart, lo: j.Lo, hi: j.Hi, def: j.Def, hasInit: j.HasInit, init: j.Init,
		kind: j.Kind, ri: j.Ri, rs: j.Rs, hasN: j.HasN, n: j.N}
	d := newDrv(c)
	defer d.close()
	v := d.run(lc)
	if v.kind != "" {
		c.Violation(v.kind, v.label+" "+v.lc.String(), v.detail, v.lc.JSON())
	}
}
