// Package c15 checks property C15 (Lua patterns): golua's pattern compiler and
// matcher (lib/stringlib/pattern) and string.find/match/gmatch/gsub are run on
// an exhaustively enumerated pattern x subject x start-position space, on
// random longer pairs and on CPU-limited pathological matches, and every
// answer is compared with patmodel, an independent matcher written from the
// Lua 5.4 manual.
package c15

import (
	"fmt"
	"os"
	"runtime/pprof"
	"strconv"
	"strings"

	"github.com/arnodel/golua/lib/stringlib/pattern"

	pm "verif/internal/patmodel"
	"verif/internal/vp"
)

type Prop struct{}

func (Prop) ID() string { return "C15" }

func (Prop) Plan(t vp.Tier) []vp.Stage {
	// 16 children run in parallel: two Ps each are plenty, and keep the GC
	// workers of 16 processes from fighting over the cores; golua allocates a
	// matcher per call, a larger GOGC keeps the collector out of the way
	env := []string{"GOMAXPROCS=2", "GOGC=400"}
	return []vp.Stage{
		{Name: "exhaustive", NBatches: 64, TimeoutS: 2400, Env: env},
		{Name: "iter", NBatches: 16, TimeoutS: 1200, Env: env},
		{Name: "random", NBatches: 16, TimeoutS: 1200, Env: env},
		{Name: "cpu", NBatches: 4, TimeoutS: 900, Env: env},
		{Name: "sets", NBatches: 8, TimeoutS: 900, Env: env},
	}
}

func maxTokens(t vp.Tier) int {
	if t == vp.Thorough {
		return 5
	}
	return 4
}

func maxSubject(t vp.Tier) int {
	if t == vp.Thorough {
		return 5
	}
	return 4
}

func (Prop) Describe(t vp.Tier) vp.Description {
	return vp.Description{
		Rule: fmt.Sprintf("exhaustive stage: every pattern of <= %d tokens over the alphabet %s, against every subject of length <= %d over {a,b,(} "+
			"(and over {a,(,)} when the pattern contains %%b()) and every start position, through pattern.New + MatchFromStart/Match "+
			"(quick: complete up to 3 characters of subject and for <= 3 tokens, every third 4-character subject for the 4-token patterns, rotating with pattern, subject and seed; "+
			"thorough: complete up to 4 characters of subject, 5-character subjects for all patterns of <= 3 tokens and every third for the 4-token ones); "+
			"one pattern/subject pair in 50 additionally through string.find/match (all init values from -len-2 to len+2 and the default), gmatch and gsub from compiled Lua. "+
			"iter stage: every pattern of <= 3 tokens (thorough: and one in six of the 4-token ones, %d tokens at most) x every subject of length <= %d through gmatch (with and without init) and gsub with string, table and function replacements and the n argument. "+
			"random stage: generated longer patterns (all classes %%a %%c %%d %%g %%l %%p %%s %%u %%w %%x and complements, sets with ranges/classes/^, captures, position captures, back-references, %%b, %%f, anchors), "+
			"byte-level mutations of them and strings of magic characters, against random subjects, through Go and Lua; plus the class tables byte by byte. "+
			"sets stage: [x-y] and [^x-y] for every pair x <= y of 24 boundary bytes (both sides of every 32/64-byte block boundary, ends of the digit and letter runs, 0, 255) against every one-byte subject, " +
			"%%f[x-y] for the wide ranges against every two-byte subject over those bytes, every class %%a..%%x and complement alone and inside sets against all 256 bytes, judged by a direct model (x <= c <= y; C-locale ctype). " +
			"cpu stage: long and pathological matches inside CPU-limited contexts. Every answer is compared with patmodel (positions, captures incl. position captures, gsub result and count, gmatch sequence, error / no error); "+
			"malformed patterns must give a Lua error or the 'error item not reached' answer, never a Go panic. "+
			"A case counts as non-trivial when the pattern is well formed, has >= 2 items and matched at least one subject (exhaustive/iter: distinct by pattern; random: distinct by pattern+subject).",
			maxTokens(t), strings.Join(tokens, " "), maxSubject(t), iterTokens(t), map[vp.Tier]int{vp.Quick: 3, vp.Thorough: 4}[t]),
		Assumptions: []string{
			"patmodel is a correct reading of Lua 5.4 manual §6.4.1 and of the find/match/gmatch/gsub entries (character classes in the C locale)",
			"where the manual gives no meaning (%q for a non-class alphanumeric, descending or escaped range ends, '-' inside a set, %b with equal delimiters, '^' in gmatch, '%' + non-digit in a replacement string, negative gsub n) no verdict on the result is given, only 'no Go panic'",
			"magic characters in literal position (e.g. a leading '*'), back-references to position captures and more than 9 captures follow the reference implementation; a Lua error is accepted there as well",
			"the errors of the reference implementation are raised while matching; golua raises them when compiling the pattern: for a malformed pattern both an error and the answer obtained without reaching the malformed item are accepted",
			"CPU clauses: 'charged' means used.cpu of the enclosing context grows by at least 1/64 of the model's item visits; 'bounded' means the call returns (done or killed) within 1 s + 5 us per unit of CPU limit of process CPU time",
			"held on the patterns/subjects enumerated or sampled, not on all strings",
		},
		Floor:      map[vp.Tier]int64{vp.Quick: 30000, vp.Thorough: 500000}[t],
		Exhaustive: true,
		Extra:      map[string]interface{}{"token_alphabet": tokens, "max_tokens": maxTokens(t), "max_subject_len": maxSubject(t)},
	}
}

func (Prop) RunBatch(c *vp.Child) {
	if f := os.Getenv("C15_PPROF"); f != "" { // debugging aid: CPU profile of one batch
		if w, err := os.Create(f); err == nil {
			pprof.StartCPUProfile(w)
			defer pprof.StopCPUProfile()
		}
	}
	switch c.Stage {
	case "exhaustive":
		runExhaustive(c)
	case "iter":
		runIter(c)
	case "random":
		runRandom(c)
	case "cpu":
		runCPU(c)
	case "sets":
		runSets(c)
	}
}

// ---------------------------------------------------------------------------
// token alphabet of the exhaustive enumeration (DESIGN C15)

var tokens = []string{"a", "b", ".", "%a", "%A", "[ab]", "[^a]", "[a-b]", "%%", "*", "+", "-", "?", "^", "$", "(", ")", "()", "%1", "%b()", "%f[a]"}

func subjects(alpha string, maxLen int) []string {
	out := []string{""}
	prev := []string{""}
	for l := 1; l <= maxLen; l++ {
		var cur []string
		for _, p := range prev {
			for i := 0; i < len(alpha); i++ {
				cur = append(cur, p+string(alpha[i]))
			}
		}
		out = append(out, cur...)
		prev = cur
	}
	return out
}

// ---------------------------------------------------------------------------
// pattern classes

type pclass struct {
	mp *pm.Pattern
	// unspec: no verdict on results; errOK: a Lua error is accepted besides
	// the model's answer.
	unspec bool
	errOK  bool
}

func classify(src string) pclass {
	mp := pm.Compile(src)
	pc := pclass{mp: mp}
	if mp.Unspec != "" {
		pc.unspec = true
	}
	if mp.Malformed != "" || mp.Lenient != "" || mp.NCap > 9 {
		pc.errOK = true
	}
	return pc
}

// ---------------------------------------------------------------------------
// Go API with recover

func goNew(src string) (p *pattern.Pattern, err error, pan string) {
	defer func() {
		if r := recover(); r != nil {
			pan = fmt.Sprint(r)
		}
	}()
	p, err = pattern.New(src)
	return
}

func goFind(p *pattern.Pattern, s string, init int, fromStart bool, budget uint64) (caps []pattern.Capture, used uint64, pan string) {
	defer func() {
		if r := recover(); r != nil {
			pan = fmt.Sprint(r)
		}
	}()
	if fromStart {
		caps, used = p.MatchFromStart(s, init, budget)
	} else {
		caps, used = p.Match(s, init, budget)
	}
	return
}

func showCaps(caps []pattern.Capture) string {
	if len(caps) == 0 {
		return "no match"
	}
	var b strings.Builder
	for i, c := range caps {
		if i > 0 {
			b.WriteByte(' ')
		}
		if c.IsEmpty() {
			fmt.Fprintf(&b, "pos(%d)", c.Start())
		} else {
			fmt.Fprintf(&b, "[%d,%d)", c.Start(), c.End())
		}
	}
	return b.String()
}

func showRes(r pm.Result) string {
	switch r.St {
	case pm.NoMatch:
		return "no match"
	case pm.Error:
		return "error(" + r.Err + ")"
	case pm.TooLarge:
		return "?"
	}
	var b strings.Builder
	fmt.Fprintf(&b, "[%d,%d)", r.Start, r.End)
	for _, c := range r.Caps {
		switch {
		case c.Unfinished:
			b.WriteString(" unfinished")
		case c.Pos:
			fmt.Fprintf(&b, " pos(%d)", c.Start)
		default:
			fmt.Fprintf(&b, " [%d,%d)", c.Start, c.End)
		}
	}
	return b.String()
}

func hasUnfinished(r pm.Result) bool {
	for _, c := range r.Caps {
		if c.Unfinished {
			return true
		}
	}
	return false
}

// sameGo compares a model result with what golua's Go API returned.
func sameGo(want pm.Result, got []pattern.Capture) bool {
	switch want.St {
	case pm.NoMatch:
		return len(got) == 0
	case pm.Match:
		if len(got) != len(want.Caps)+1 {
			return false
		}
		if got[0].Start() != want.Start || got[0].End() != want.End || got[0].IsEmpty() {
			return false
		}
		for i, c := range want.Caps {
			g := got[i+1]
			if c.Pos {
				if !g.IsEmpty() || g.Start() != c.Start {
					return false
				}
			} else if g.IsEmpty() || g.Start() != c.Start || g.End() != c.End {
				return false
			}
		}
		return true
	}
	return false
}

// ---------------------------------------------------------------------------
// expected encodings of the Lua-level results (as gl.Namer.EncList prints them)

const encErr = "ERR"

func encVals(vs []pm.Val) string {
	parts := make([]string, len(vs))
	for i, v := range vs {
		parts[i] = v.Enc()
	}
	return strings.Join(parts, ",")
}

func encFind(s string, r pm.Result) string {
	switch r.St {
	case pm.NoMatch:
		return "b:true,n"
	case pm.Error:
		return encErr
	case pm.TooLarge:
		return "?"
	}
	out := "b:true,i:" + strconv.Itoa(r.Start+1) + ",i:" + strconv.Itoa(r.End)
	if len(r.Caps) > 0 {
		vs, ok := r.Values(s)
		if !ok {
			return encErr
		}
		out += "," + encVals(vs)
	}
	return out
}

func encMatch(s string, r pm.Result) string {
	switch r.St {
	case pm.NoMatch:
		return "b:true,n"
	case pm.Error:
		return encErr
	case pm.TooLarge:
		return "?"
	}
	vs, ok := r.Values(s)
	if !ok {
		return encErr
	}
	return "b:true," + encVals(vs)
}

func isErrEnc(got string) bool { return strings.HasPrefix(got, "b:false,") || got == "b:false" }

// verdict on one Lua-level answer: "" when fine, else the violation kind.
func judge(pc pclass, want, got string) string {
	if want == "?" || pc.unspec {
		return ""
	}
	if isErrEnc(got) {
		if want == encErr || pc.errOK {
			return ""
		}
		return "wellformed-rejected"
	}
	if want == encErr {
		return "malformed-accepted"
	}
	if got == want {
		return ""
	}
	if pc.mp.Malformed != "" {
		return "malformed-accepted"
	}
	return "mismatch"
}

func q(s string) string { return strconv.Quote(s) }
