package c15

import (
	"fmt"
	"strings"

	pm "verif/internal/patmodel"
	"verif/internal/vp"
)

// enumPatterns calls f for every token sequence of length 0..maxTok, in a
// fixed order, with a running index.  Sequences in which "(" is directly
// followed by ")" are skipped: the same string is produced by the "()" token.
func enumPatterns(maxTok int, f func(idx int, toks []int)) {
	idx := 0
	seq := make([]int, 0, maxTok)
	var rec func(l int)
	rec = func(l int) {
		if len(seq) == l {
			f(idx, seq)
			idx++
			return
		}
		for t := range tokens {
			if n := len(seq); n > 0 && tokens[seq[n-1]] == "(" && tokens[t] == ")" {
				continue
			}
			seq = append(seq, t)
			rec(l)
			seq = seq[:len(seq)-1]
		}
	}
	for l := 0; l <= maxTok; l++ {
		rec(l)
	}
}

func joinTokens(toks []int) string {
	var b strings.Builder
	for _, t := range toks {
		b.WriteString(tokens[t])
	}
	return b.String()
}

// subjModel caches the model's answer at every start position of one subject.
type subjModel struct {
	m    *pm.Matcher
	p    *pm.Pattern
	s    string
	at   []pm.Result
	have []bool
}

func (sm *subjModel) reset(p *pm.Pattern, s string) {
	sm.m = pm.NewMatcher(p, s)
	sm.m.MaxSteps = modelSteps
	sm.p, sm.s = p, s
	n := len(s) + 1
	if cap(sm.at) < n {
		sm.at = make([]pm.Result, n)
		sm.have = make([]bool, n)
	}
	sm.at = sm.at[:n]
	sm.have = sm.have[:n]
	for i := range sm.have {
		sm.have[i] = false
	}
}

func (sm *subjModel) atPos(si int) pm.Result {
	if !sm.have[si] {
		r := sm.m.At(si)
		if r.St == pm.Match && hasUnfinished(r) {
			r = pm.Result{St: pm.Error, Err: "unfinished capture"}
		}
		sm.at[si], sm.have[si] = r, true
	}
	return sm.at[si]
}

func (sm *subjModel) find(init int, anchored bool) pm.Result {
	if anchored {
		return sm.atPos(init)
	}
	for si := init; si <= len(sm.s); si++ {
		if r := sm.atPos(si); r.St != pm.NoMatch {
			return r
		}
	}
	return pm.Result{St: pm.NoMatch}
}

func runExhaustive(c *vp.Child) {
	d := newDrv(c)
	defer d.close()
	maxTok, maxLen := maxTokens(c.Tier), maxSubject(c.Tier)
	subjA := subjects("ab(", maxLen)
	subjB := subjects("a()", maxLen)
	var sm subjModel
	var nPat, nWF, nMal, nUnspec, nLenient, nPairs, nMatched, nLua int64
	enumPatterns(maxTok, func(idx int, toks []int) {
		if !c.Mine(idx) {
			return
		}
		src := joinTokens(toks)
		c.Begin(fmt.Sprintf("pattern #%d %s", idx, q(src)), src)
		nPat++
		pc := classify(src)
		mp := pc.mp
		gp, err, pan := goNew(src)
		c.Eval(1)
		if pan != "" {
			d.report(verdict{kind: "panic", label: "pattern.New " + firstLine(pan), detail: "pattern.New(" + q(src) + ") panics: " + pan, lc: lcase{op: "go", p: src, fromStart: true}})
			return
		}
		switch {
		case pc.unspec:
			nUnspec++
		case mp.Malformed != "":
			nMal++
			c.Feature("malformed:"+malformedClass(mp.Malformed), 1)
		default:
			nWF++
			if mp.Lenient != "" {
				nLenient++
			}
		}
		for f := range mp.Feat {
			c.Feature("pattern-feature:"+f, 1)
		}
		sets := [][]string{subjA}
		if strings.Contains(src, "%b()") {
			sets = append(sets, subjB)
		}
		luaSample := func(si int, s string) {
			// 2 % of the pairs also go through compiled Lua, all four functions
			if (idx*131+si*7)%50 != 0 {
				return
			}
			nLua++
			n := int64(len(s))
			d.report(d.run(lcase{op: "fm", p: src, s: s, lo: -n - 2, hi: n + 2, def: true}))
			h := idx + si
			d.report(d.run(lcase{op: "gmatch", p: src, s: s}))
			d.report(d.run(lcase{op: "gmatch", p: src, s: s, hasInit: true, init: int64(h%(2*len(s)+5)) - n - 2}))
			d.report(d.run(lcase{op: "gsub", p: src, s: s, kind: 1, rs: replStrings[h%len(replStrings)]}))
			d.report(d.run(lcase{op: "gsub", p: src, s: s, kind: 2, ri: h % len(replTables)}))
			d.report(d.run(lcase{op: "gsub", p: src, s: s, kind: 3, ri: h % len(replFuncs), hasN: h%3 == 0, n: int64(h % 4)}))
			c.Eval(int64(2*(2*len(s)+6) + 5))
		}
		if err != nil {
			// rejected when compiled: fine for malformed / lenient patterns
			if !pc.errOK && !pc.unspec {
				d.report(verdict{kind: "wellformed-rejected", label: "pattern.New",
					detail: fmt.Sprintf("pattern.New(%s) = error %q; the pattern is well formed", q(src), err.Error()), lc: lcase{op: "go", p: src, fromStart: true}})
			}
			c.Feature("rejected-by-pattern.New", 1)
			// the Lua functions must raise an error too (never panic)
			luaSample(idx%7, subjA[idx%len(subjA)])
			return
		}
		anyMatch := false
		for k, set := range sets {
			for si, s := range set {
				if k == 1 && !strings.Contains(s, ")") {
					continue // already covered by the first alphabet up to renaming
				}
				if !subjectSelected(c, len(toks), len(s), idx+si) {
					continue
				}
				sm.reset(mp, s)
				for init := 0; init <= len(s); init++ {
					nPairs++
					for variant := 0; variant < 2; variant++ {
						fromStart := variant == 0
						// Match ignores the anchor: only interesting when there is one; otherwise it is
						// the same code path as MatchFromStart and a few subjects are enough
						if !fromStart && !(mp.Anchored || (init == 0 && si%9 == 0)) {
							continue
						}
						got, _, pan := goFind(gp, s, init, fromStart, 0)
						c.Eval(1)
						if pan != "" {
							d.report(verdict{kind: "panic", label: "Match " + firstLine(pan), detail: fmt.Sprintf("pattern %s subject %s init %d: %s", q(src), q(s), init, pan),
								lc: lcase{op: "go", p: src, s: s, init0: init, fromStart: fromStart}})
							continue
						}
						if pc.unspec {
							continue
						}
						want := sm.find(init, fromStart && mp.Anchored)
						if want.St == pm.TooLarge {
							c.Inconclusive("model step budget exhausted")
							continue
						}
						if want.St == pm.Match {
							anyMatch = true
							nMatched++
						}
						if !sameGo(want, got) {
							// re-run through the generic path: classifies, minimises, records
							d.report(d.run(lcase{op: "go", p: src, s: s, init0: init, fromStart: fromStart}))
						}
					}
				}
				luaSample(si, s)
			}
		}
		if !pc.unspec && mp.Malformed == "" && mp.NItems() >= 2 && anyMatch {
			c.NonTrivial(vp.Hash("pat", src))
			if c.WantSample() && len(toks) == maxTok && mp.NCap > 0 && idx%97 == 0 {
				s := "ab(a"
				sm.reset(mp, s)
				r := sm.find(0, mp.Anchored)
				got, _, _ := goFind(gp, s, 0, true, 0)
				c.Sample(map[string]interface{}{"pattern": src, "subject": s, "init": 0, "golua": showCaps(got), "model": showRes(r)})
			}
		}
	})
	c.Feature("patterns", nPat)
	c.Feature("patterns-wellformed", nWF)
	c.Feature("patterns-wellformed-by-reference-only", nLenient)
	c.Feature("patterns-malformed", nMal)
	c.Feature("patterns-unspecified", nUnspec)
	c.Feature("go-api-pattern-subject-init-triples", nPairs)
	c.Feature("go-api-triples-with-a-match", nMatched)
	c.Feature("pairs-also-through-lua", nLua)
}

// subjectSelected says whether a subject of length sl is run against a pattern
// of nt tokens.  Everything up to the tier's bounds is run, except for the
// largest patterns against the longest subjects, of which every third is
// taken (rotating with the pattern, the subject and the seed).
//
//	quick:    patterns <= 4 tokens x subjects <= 3: all; length 4: all for <= 3 tokens, 1/3 for 4 tokens
//	thorough: patterns <= 5 tokens x subjects <= 4: all;
//	          length 5: all for <= 3 tokens, 1/3 for 4 tokens, none for 5 tokens
func subjectSelected(c *vp.Child, nt, sl, rot int) bool {
	third := (rot+int(c.Seed))%3 == 0
	if sl <= 3 {
		return true
	}
	if c.Tier != vp.Thorough {
		return nt <= 3 || third
	}
	if sl == 4 {
		return true
	}
	return nt <= 3 || (nt == 4 && third)
}

func malformedClass(msg string) string {
	for _, k := range []string{"ends with '%'", "missing ']'", "invalid pattern capture", "unfinished capture", "invalid capture index", "missing arguments to '%b'", "missing '[' after '%f'", "too many captures"} {
		if strings.Contains(msg, k) {
			return k
		}
	}
	return msg
}

// ---------------------------------------------------------------------------
// iter stage: gmatch and gsub on every short pattern

func iterTokens(t vp.Tier) int {
	if t == vp.Thorough {
		return 4
	}
	return 3
}

func runIter(c *vp.Child) {
	d := newDrv(c)
	defer d.close()
	maxTok := iterTokens(c.Tier)
	subjA := subjects("ab(", c.Pick(3, 4))
	subjB := subjects("a()", c.Pick(3, 4))
	var nPat, nCalls int64
	enumPatterns(maxTok, func(idx int, toks []int) {
		if !c.Mine(idx) {
			return
		}
		// thorough: all patterns of <= 3 tokens, one in 6 of the 4-token ones
		if len(toks) == 4 && (idx+int(c.Seed))%6 != 0 {
			return
		}
		src := joinTokens(toks)
		c.Begin(fmt.Sprintf("pattern #%d %s", idx, q(src)), src)
		pc := classify(src)
		nPat++
		set := subjA
		if strings.Contains(src, "%b()") {
			set = subjB
		}
		stride := 1
		if pc.mp.Malformed != "" || pc.unspec {
			stride = 12 // errors / no verdict: a few subjects are enough
		}
		any := false
		for si := 0; si < len(set); si += stride {
			s := set[si]
			h := idx*31 + si
			n := int64(len(s))
			run := func(lc lcase) {
				v := d.run(lc)
				nCalls++
				c.Eval(1)
				if v.matched {
					any = true
				}
				d.report(v)
			}
			run(lcase{op: "gmatch", p: src, s: s})
			run(lcase{op: "gmatch", p: src, s: s, hasInit: true, init: int64(h%(2*len(s)+5)) - n - 2})
			run(lcase{op: "gsub", p: src, s: s, kind: 1, rs: replStrings[h%len(replStrings)]})
			run(lcase{op: "gsub", p: src, s: s, kind: 1, rs: "<%0>", hasN: true, n: int64(h % 4)})
			run(lcase{op: "gsub", p: src, s: s, kind: 2, ri: 0})
			run(lcase{op: "gsub", p: src, s: s, kind: 3, ri: h % len(replFuncs), hasN: h%5 == 0, n: int64(h % 3)})
			if h%16 == 0 {
				run(lcase{op: "gsub", p: src, s: s, kind: 2, ri: 1})
				run(lcase{op: "gsub", p: src, s: s, kind: 1, rs: "x", hasN: true, n: -1})
			}
		}
		if any && !pc.unspec && pc.mp.Malformed == "" && pc.mp.NItems() >= 2 {
			c.NonTrivial(vp.Hash("iter", src))
		}
	})
	c.Feature("patterns", nPat)
	c.Feature("gmatch-gsub-calls", nCalls)
}
