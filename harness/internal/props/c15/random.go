package c15

import (
	"fmt"
	"math"
	"math/rand"
	"strings"

	pm "verif/internal/patmodel"
	"verif/internal/vp"
)

const magic = "^$()%.[]*+-?"

func isMagic(b byte) bool { return strings.IndexByte(magic, b) >= 0 }

func isAlnumB(b byte) bool {
	return (b >= '0' && b <= '9') || (b >= 'a' && b <= 'z') || (b >= 'A' && b <= 'Z')
}

const classLetters = "acdglpsuwxACDGLPSUWX"

type pgen struct {
	r     *rand.Rand
	alpha []byte // characters literals are drawn from
	b     []byte
	ncap  int
	open  int
	done  []int // closed captures (1-based)
	stack []int
}

func (g *pgen) lit(c byte) {
	if !isAlnumB(c) && c < 0x80 && c != 0 {
		if isMagic(c) || g.r.Intn(4) == 0 {
			g.b = append(g.b, '%')
		}
	}
	g.b = append(g.b, c)
}

func (g *pgen) set() {
	g.b = append(g.b, '[')
	if g.r.Intn(3) == 0 {
		g.b = append(g.b, '^')
	}
	n := 1 + g.r.Intn(4)
	for i := 0; i < n; i++ {
		switch g.r.Intn(6) {
		case 0:
			g.b = append(g.b, '%', classLetters[g.r.Intn(len(classLetters))])
		case 1:
			lo := [][2]byte{{'a', 'c'}, {'a', 'z'}, {'0', '9'}, {'A', 'B'}, {'b', 'b'}, {'0', '1'}}[g.r.Intn(6)]
			g.b = append(g.b, lo[0], '-', lo[1])
		default:
			c := g.alpha[g.r.Intn(len(g.alpha))]
			if c == 0 || c >= 0x80 || isAlnumB(c) {
				g.b = append(g.b, c)
			} else {
				g.b = append(g.b, '%', c) // every punctuation character escaped: always defined
			}
		}
	}
	g.b = append(g.b, ']')
}

func (g *pgen) single() {
	switch g.r.Intn(10) {
	case 0:
		g.b = append(g.b, '.')
	case 1, 2:
		g.b = append(g.b, '%', classLetters[g.r.Intn(len(classLetters))])
	case 3, 4:
		g.set()
	default:
		g.lit(g.alpha[g.r.Intn(len(g.alpha))])
	}
	if g.r.Intn(2) == 0 {
		g.b = append(g.b, "*+-?"[g.r.Intn(4)])
	}
}

func (g *pgen) pattern(maxCap int) string {
	g.b = g.b[:0]
	g.ncap, g.open, g.done, g.stack = 0, 0, g.done[:0], g.stack[:0]
	if g.r.Intn(6) == 0 {
		g.b = append(g.b, '^')
	}
	n := 1 + g.r.Intn(9)
	for i := 0; i < n; i++ {
		k := g.r.Intn(100)
		switch {
		case k < 12 && g.ncap < maxCap:
			g.ncap++
			g.stack = append(g.stack, g.ncap)
			g.b = append(g.b, '(')
			if g.r.Intn(8) != 0 {
				g.single() // avoid accidental "()" most of the time
			} else if g.r.Intn(2) == 0 {
				// "()" right here would be a position capture: make it one deliberately
				g.b = append(g.b, ')')
				g.done = append(g.done, g.ncap)
				g.stack = g.stack[:len(g.stack)-1]
			} else {
				g.single()
			}
		case k < 24 && len(g.stack) > 0:
			g.b = append(g.b, ')')
			g.done = append(g.done, g.stack[len(g.stack)-1])
			g.stack = g.stack[:len(g.stack)-1]
		case k < 28 && g.ncap < maxCap:
			g.ncap++
			g.done = append(g.done, g.ncap)
			g.b = append(g.b, '(', ')')
		case k < 36 && len(g.done) > 0:
			d := g.done[g.r.Intn(len(g.done))]
			if d <= 9 {
				g.b = append(g.b, '%', byte('0'+d))
			}
		case k < 41:
			x, y := g.alpha[g.r.Intn(len(g.alpha))], g.alpha[g.r.Intn(len(g.alpha))]
			if x != y {
				g.b = append(g.b, '%', 'b', x, y)
			}
		case k < 46:
			g.b = append(g.b, '%', 'f')
			g.set()
		default:
			g.single()
		}
	}
	for len(g.stack) > 0 {
		g.b = append(g.b, ')')
		g.stack = g.stack[:len(g.stack)-1]
	}
	if g.r.Intn(6) == 0 {
		g.b = append(g.b, '$')
	}
	return string(g.b)
}

const alphaPool = "abcAB01 _-.()[]%*+?^$\t\n\x00\x7f"

func randAlpha(r *rand.Rand, high bool) []byte {
	n := 2 + r.Intn(4)
	out := []byte{'a'}
	for i := 1; i < n; i++ {
		if high && r.Intn(6) == 0 {
			out = append(out, []byte{0x80, 0xe9, 0xff}[r.Intn(3)])
		} else {
			out = append(out, alphaPool[r.Intn(len(alphaPool))])
		}
	}
	return out
}

func randSubject(r *rand.Rand, alpha []byte, maxLen int) string {
	n := r.Intn(maxLen + 1)
	b := make([]byte, n)
	for i := range b {
		b[i] = alpha[r.Intn(len(alpha))]
	}
	return string(b)
}

func mutate(r *rand.Rand, p string) string {
	const pool = "%()[]^$.*+-?bf1a]0z"
	b := []byte(p)
	switch r.Intn(3) {
	case 0:
		if len(b) > 0 {
			i := r.Intn(len(b))
			b = append(b[:i], b[i+1:]...)
		}
	case 1:
		i := r.Intn(len(b) + 1)
		b = append(b[:i], append([]byte{pool[r.Intn(len(pool))]}, b[i:]...)...)
	default:
		if len(b) > 0 {
			b[r.Intn(len(b))] = pool[r.Intn(len(pool))]
		}
	}
	return string(b)
}

func garbage(r *rand.Rand) string {
	const pool = "%()[]^$.*+-?bf01a-"
	n := 1 + r.Intn(8)
	b := make([]byte, n)
	for i := range b {
		b[i] = pool[r.Intn(len(pool))]
	}
	return string(b)
}

var catalogue = []string{
	// malformed
	"%", "a%", "[", "[a", "[^", "[]", "[^]", "[%", "[%]", "[a-", "[a%", "(", "(a", "a(", ")", "a)", "())", "(()", "%1", "(a)%2", "(a%1)", "%0", "a%0",
	"%b", "%ba", "a%b", "a%b(", "%f", "%fa", "%f%a", "%f(", "a%f", "%f[", "%f[a", "(a)(%2)", "((a)%1)", "(()", "()(",
	strings.Repeat("(", 33) + "a" + strings.Repeat(")", 33), strings.Repeat("()", 33),
	// well formed, at the edges
	strings.Repeat("(", 32) + "a" + strings.Repeat(")", 32), strings.Repeat("()", 32), strings.Repeat("(a)", 9), strings.Repeat("(a)", 10),
	"[]]", "[^]]", "[]a]", "[a-]", "[-a]", "[^-a]", "[a%-z]", "[%]]", "[[]", "[%[]", "[a^]", "[$]", "[.]", "[%%]", "[%a%d]", "[^%a%s]", "%%", "%.", "%[", "%]", "%(", "%)", "%-",
	"^", "$", "^$", "^^", "$$", "a$b", "a^b", "(^a)", "(a$)", "^(a)$", "%f[%a]", "%f[^%a]", "%f[%z]", "%f[a]%f[a]", "%b()", "%b((", "%b)(", "%b%%", "()", "()()", "(())", "(a*(.)%w(%s*))",
	".-", ".-$", "^.-$", "a-", "a-$", "a?a?a?aaa", "(a*)%1", "(a-)%1b", "(.)%1", "(.)(.)%2%1", "()a()", "(()a)", "a*", "a+", "a?", "[ab]*", ".*b", ".+b", ".-b", ".?b",
	// no meaning in the manual: only "no panic" is asked
	"%q", "%z", "[b-a]", "%bxx", "[%a-z]", "[a-%%]", "[a-b-c]", "[+--]", "[]-a]", "%f[z-a]", "()%1",
}

func runRandom(c *vp.Child) {
	d := newDrv(c)
	defer d.close()
	r := c.Rand("pairs")
	g := &pgen{r: r}
	n := c.Pick(24000, 1000000) / c.NB
	var nWF, nMal, nUnspec, nMatched int64
	one := func(p, s string, tag string) {
		c.Begin("random "+q(p)+" "+q(s), p+"\n"+s)
		pc := classify(p)
		switch {
		case pc.unspec:
			nUnspec++
		case pc.mp.Malformed != "":
			nMal++
			c.Feature("malformed:"+malformedClass(pc.mp.Malformed), 1)
		default:
			nWF++
		}
		if pc.mp.NCap > 9 {
			c.Feature("more-than-9-captures", 1)
		}
		for f := range pc.mp.Feat {
			c.Feature("pattern-feature:"+f, 1)
		}
		L := int64(len(s))
		matched := false
		run := func(lc lcase) {
			v := d.run(lc)
			c.Eval(1)
			if v.matched {
				matched = true
			}
			d.report(v)
		}
		run(lcase{op: "go", p: p, s: s, init0: 0, fromStart: true})
		if len(s) > 0 {
			run(lcase{op: "go", p: p, s: s, init0: r.Intn(len(s) + 1), fromStart: r.Intn(2) == 0})
		}
		i1 := r.Int63n(2*L+7) - L - 3
		run(lcase{op: "fm", p: p, s: s, lo: i1, hi: i1 + 1, def: true})
		c.Eval(5)
		run(lcase{op: "gmatch", p: p, s: s, hasInit: r.Intn(3) == 0, init: r.Int63n(2*L+5) - L - 2})
		switch r.Intn(3) {
		case 0:
			run(lcase{op: "gsub", p: p, s: s, kind: 1, rs: replStrings[r.Intn(len(replStrings))], hasN: r.Intn(4) == 0, n: int64(r.Intn(4))})
		case 1:
			run(lcase{op: "gsub", p: p, s: s, kind: 2, ri: r.Intn(len(replTables))})
		default:
			run(lcase{op: "gsub", p: p, s: s, kind: 3, ri: r.Intn(len(replFuncs)), hasN: r.Intn(4) == 0, n: int64(r.Intn(4))})
		}
		if matched {
			nMatched++
			if !pc.unspec && pc.mp.Malformed == "" && pc.mp.NItems() >= 2 {
				c.NonTrivial(vp.Hash("rnd", p, s))
				if c.WantSample() && pc.mp.NCap >= 2 && len(s) >= 6 && tag == "generated" {
					m := pm.NewMatcher(pc.mp, s)
					c.Sample(map[string]interface{}{"pattern": p, "subject": s, "model string.find(s,p)": encFind(s, m.Find(0))})
				}
			}
		}
	}
	for i := 0; i < n; i++ {
		high := r.Intn(4) == 0
		g.alpha = randAlpha(r, high)
		maxCap := 4
		if r.Intn(20) == 0 {
			maxCap = 12
		}
		p := g.pattern(maxCap)
		tag := "generated"
		switch r.Intn(10) {
		case 0, 1:
			p = mutate(r, p)
			tag = "mutated"
		case 2:
			p = garbage(r)
			tag = "garbage"
		}
		if high && pm.Compile(p).UsesNamedClass {
			// bytes >= 0x80 and named classes: locale dependent, keep them apart
			g.alpha = randAlpha(r, false)
		}
		c.Feature("kind:"+tag, 1)
		s := randSubject(r, g.alpha, c.Pick(16, 24))
		one(p, s, tag)
	}
	// fixed catalogue of edge patterns, against a few subjects each
	for i, p := range catalogue {
		if !c.Mine(i) {
			continue
		}
		for _, s := range []string{"", "a", "ab", "aab(a)b", "a(b)a a1%z", "]a-^b$", "aaaa", "((a))(", "abcabc", " \t\n"} {
			one(p, s, "catalogue")
		}
	}
	// start positions at the ends of the integer range
	for i, p := range catalogue {
		if !c.Mine(i) {
			continue
		}
		for _, s := range []string{"", "aab(a)b"} {
			for _, init := range []int64{math.MinInt64, math.MinInt64 + 1, -1 << 31, -1 << 32, 1 << 31, 1 << 32, 1 << 53, math.MaxInt64 - 1, math.MaxInt64} {
				c.Begin(fmt.Sprintf("extreme init %d %s %s", init, q(p), q(s)), p+"\n"+s)
				d.report(d.run(lcase{op: "fm", p: p, s: s, lo: init, hi: init}))
				d.report(d.run(lcase{op: "gmatch", p: p, s: s, hasInit: true, init: init}))
				c.Eval(3)
			}
		}
	}
	// the class tables, byte by byte
	if c.Batch == 0 {
		d.classTables()
	}
	c.Feature("cases-wellformed", nWF)
	c.Feature("cases-malformed", nMal)
	c.Feature("cases-unspecified", nUnspec)
	c.Feature("cases-with-a-match", nMatched)
}

func (d *drv) classTables() {
	c := d.c
	for i := 0; i < len(classLetters); i++ {
		l := classLetters[i]
		c.Begin("class %"+string(l), string(l))
		for _, p := range []string{"%" + string(l), "[%" + string(l) + "]", "[^%" + string(l) + "]"} {
			for b := 0; b < 256; b++ {
				s := string([]byte{byte(b)})
				v := runGo(classify(p), lcase{op: "go", p: p, s: s, fromStart: true})
				c.Eval(1)
				d.report(v)
				if b%16 == i%16 {
					d.report(d.run(lcase{op: "fm", p: p, s: s, lo: 1, hi: 0, def: true}))
					c.Eval(2)
				}
			}
		}
		c.Feature("class-table-rows", 1)
		c.NonTrivial(vp.Hash("class", string(l)))
	}
	// every single byte as a literal (escaped when it is punctuation)
	for b := 1; b < 256; b++ {
		p := string([]byte{byte(b)})
		if !isAlnumB(byte(b)) && b < 0x80 {
			p = "%" + p
		}
		for _, s := range []string{string([]byte{byte(b)}), string([]byte{byte(b ^ 1)})} {
			d.report(runGo(classify(p), lcase{op: "go", p: p, s: s, fromStart: true}))
			c.Eval(1)
		}
	}
	_ = fmt.Sprint
}
