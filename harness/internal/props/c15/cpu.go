package c15

import (
	"fmt"
	"os"
	"strings"
	"sync"
	"syscall"
	"time"

	rt "github.com/arnodel/golua/runtime"

	"verif/internal/gl"
	pm "verif/internal/patmodel"
	"verif/internal/vp"
)

// procCPU is the CPU time (user+system) this process has consumed.
func procCPU() time.Duration {
	var ru syscall.Rusage
	if err := syscall.Getrusage(syscall.RUSAGE_SELF, &ru); err != nil {
		return 0
	}
	return time.Duration(ru.Utime.Nano() + ru.Stime.Nano())
}

// cpuWatch aborts the batch with a violation when the case in progress has
// burnt more process CPU time than its bound: a match that is neither
// finished nor killed is the refuting event, and it cannot be interrupted
// from inside the process.
type cpuWatch struct {
	mu     sync.Mutex
	c      *vp.Child
	active bool
	start  time.Duration
	bound  time.Duration
	sig    string
	detail string
}

func (w *cpuWatch) loop() {
	for {
		time.Sleep(50 * time.Millisecond)
		w.mu.Lock()
		if w.active {
			if used := procCPU() - w.start; used > w.bound {
				w.c.Violation("cpu-unbounded", w.sig, fmt.Sprintf("%s: neither finished nor killed after %.1f s of process CPU time (bound %.1f s)", w.detail, used.Seconds(), w.bound.Seconds()), w.detail)
				w.c.Flush(true)
				os.Exit(0)
			}
		}
		w.mu.Unlock()
	}
}

func (w *cpuWatch) begin(sig, detail string, bound time.Duration) {
	w.mu.Lock()
	w.active, w.start, w.bound, w.sig, w.detail = true, procCPU(), bound, sig, detail
	w.mu.Unlock()
}

func (w *cpuWatch) end() time.Duration {
	w.mu.Lock()
	defer w.mu.Unlock()
	w.active = false
	return procCPU() - w.start
}

const cpuDriver = `
local op, s, p = ...
if op == 1 then return string.find(s, p)
elseif op == 2 then return string.match(s, p)
elseif op == 3 then local n = 0 for _ in string.gmatch(s, p) do n = n + 1 end return n
else return select(2, string.gsub(s, p, "")) end
`

var opNames = []string{"", "find", "match", "gmatch", "gsub"}

type cpuCase struct {
	op      int
	subj    string // description
	s, p    string
	comment string
}

func rep(s string, n int) string { return strings.Repeat(s, n) }

func runCPU(c *vp.Child) {
	w := &cpuWatch{c: c}
	go w.loop()
	sess := gl.NewSess(gl.Options{})
	defer sess.Close()
	clos, out := sess.Compile("c15cpu", cpuDriver)
	if out != nil {
		c.Violation("compile", "cpu driver", out.String(), cpuDriver)
		return
	}
	fn := rt.FunctionValue(clos)

	N := c.Pick(200000, 2000000)
	n := c.Pick(1500, 4000)
	aN := rep("a", N)
	an := rep("a", n)
	var charged []cpuCase
	for op := 1; op <= 4; op++ {
		charged = append(charged,
			cpuCase{op, fmt.Sprintf("('a'):rep(%d)", N), aN, "b", "first item fails at every start position"},
			cpuCase{op, fmt.Sprintf("('a'):rep(%d)", N), aN, "[^a]", "set fails at every start position"},
			cpuCase{op, fmt.Sprintf("('a'):rep(%d)", N), aN, "%f[b]", "frontier fails at every start position"},
			cpuCase{op, fmt.Sprintf("('a'):rep(%d)", N), aN, "()b", "capture then failing item"},
			cpuCase{op, fmt.Sprintf("('a'):rep(%d)", N), aN, "a", "N one-character matches"},
			cpuCase{op, fmt.Sprintf("('a'):rep(%d)", n), an, ".-b", "lazy expansion to the end from every start"},
			cpuCase{op, fmt.Sprintf("('a'):rep(%d)", n), an, "a*b", "greedy expansion and backtracking from every start"},
		)
	}
	charged = append(charged,
		cpuCase{1, fmt.Sprintf("('a'):rep(%d)", N), aN, "%d+", "class fails at every start position"},
		cpuCase{1, fmt.Sprintf("('ab'):rep(%d)", N/2), rep("ab", N/2), "%f[b]x", "frontier succeeds, next item fails"},
		cpuCase{1, fmt.Sprintf("('a'):rep(%d)..'b'", N), aN + "b", "b", "match at the very end"},
		cpuCase{1, fmt.Sprintf("('a'):rep(%d)", N), aN, "a-$", "lazy expansion to the end"},
		cpuCase{1, fmt.Sprintf("('a'):rep(%d)", N), aN, ".*", "greedy run"},
		cpuCase{1, fmt.Sprintf("('('):rep(%d)", n), rep("(", n), "%b()", "unbalanced scan to the end from every start"},
		cpuCase{4, fmt.Sprintf("('a'):rep(%d)", N), aN, "", "N+1 empty matches"},
		cpuCase{3, fmt.Sprintf("('a'):rep(%d)", N), aN, "", "N+1 empty matches"},
		cpuCase{4, fmt.Sprintf("('a'):rep(%d)", N), aN, "b*", "N+1 empty matches after a failing greedy item"},
	)
	for i, cc := range charged {
		if !c.Mine(i) {
			continue
		}
		name := fmt.Sprintf("string.%s(%s, %s)", opNames[cc.op], cc.subj, q(cc.p))
		c.Begin("charged "+name, name)
		// the model's amount of work
		mp := pm.Compile(cc.p)
		var steps int64
		var want string
		switch cc.op {
		case 1, 2:
			m := pm.NewMatcher(mp, cc.s)
			r := m.Find(0)
			steps = m.Steps
			if cc.op == 1 {
				want = strings.TrimPrefix(encFind(cc.s, r), "b:true,")
			} else {
				want = strings.TrimPrefix(encMatch(cc.s, r), "b:true,")
			}
		case 3:
			ms, _, _, st := mp.GmatchSteps(cc.s, 0, 1<<62)
			steps = st
			want = pm.Int(int64(len(ms))).Enc()
		case 4:
			g := mp.Gsub(cc.s, pm.Repl{IsStr: true}, -1, 1<<62)
			steps = g.Steps
			want = pm.Int(int64(g.N)).Enc()
		}
		w.begin("charged "+name, name, 120*time.Second)
		sess.Trace = nil
		o := sess.CallInContext(rt.RuntimeContextDef{HardLimits: rt.RuntimeResources{Cpu: 1 << 40}}, fn, []rt.Value{rt.IntValue(int64(cc.op)), rt.StringValue(cc.s), rt.StringValue(cc.p)})
		spent := w.end()
		c.Eval(1)
		if o.Kind != gl.OK {
			c.Violation("outcome", "charged "+name+" "+o.Kind, name+" under a CPU limit of 2^40: "+o.String()+"\n"+o.Stack, name)
			continue
		}
		if len(want) < 200 && o.Rets != want {
			c.Violation("mismatch", "long "+name, fmt.Sprintf("%s = %s; the manual gives %s", name, o.Rets, want), name)
		}
		c.Feature("charged-cases", 1)
		c.NonTrivial(vp.Hash("charged", name))
		if o.UsedCPU*64 < uint64(steps) {
			c.Violation("cpu-uncharged", name, fmt.Sprintf("%s (%s): the model visits %d pattern items, the enclosing context was charged %d CPU units (less than 1/64 of the work); process CPU time %.3f s",
				name, cc.comment, steps, o.UsedCPU, spent.Seconds()), name)
		}
		if c.WantSample() {
			c.Sample(map[string]interface{}{"call": name, "model_item_visits": steps, "charged_cpu_units": o.UsedCPU, "result": o.Rets})
		}
	}

	// pathological matches under a CPU limit: done or killed, in bounded time
	type patho struct{ subj, s, p string }
	pathos := []patho{
		{"('a'):rep(30)", rep("a", 30), rep("a-", 12) + "b"},
		{"('a'):rep(40)", rep("a", 40), rep("a*", 10) + "b"},
		{"('a'):rep(36)", rep("a", 36), rep("a?", 26) + "b"},
		{"('a'):rep(20000)", rep("a", 20000), ".-.-.-b"},
		{"('a'):rep(3000)", rep("a", 3000), "(.-)(.-)%1%2b"},
		{"('ab'):rep(20)", rep("ab", 20), rep("[ab]-", 10) + "%f[c]"},
		{"('('):rep(40)", rep("(", 40), rep("%(*", 8) + "%b()"},
	}
	k := 0
	for _, pa := range pathos {
		for op := 1; op <= 4; op++ {
			for _, limit := range []uint64{10000, 100000, 1000000} {
				k++
				if !c.Mine(k) {
					continue
				}
				name := fmt.Sprintf("string.%s(%s, %s) under cpu limit %d", opNames[op], pa.subj, q(pa.p), limit)
				c.Begin("bounded "+name, name)
				bound := time.Second + time.Duration(limit)*5*time.Microsecond
				w.begin(fmt.Sprintf("string.%s %s", opNames[op], q(pa.p)), name, bound)
				sess.Trace = nil
				o := sess.CallInContext(rt.RuntimeContextDef{HardLimits: rt.RuntimeResources{Cpu: limit}}, fn, []rt.Value{rt.IntValue(int64(op)), rt.StringValue(pa.s), rt.StringValue(pa.p)})
				spent := w.end()
				c.Eval(1)
				c.Feature("bounded:"+o.Kind, 1)
				switch o.Kind {
				case gl.Killed:
				case gl.OK:
					// none of these subjects can match: the answer is nil / 0
					if want := map[int]string{1: "n", 2: "n", 3: "i:0", 4: "i:0"}[op]; o.Rets != want {
						c.Violation("mismatch", "bounded "+name, fmt.Sprintf("%s = %s; the manual gives %s", name, o.Rets, want), name)
					}
					if o.UsedCPU >= limit {
						c.Violation("cpu-limit", "bounded "+name, fmt.Sprintf("%s finished with used.cpu=%d >= limit", name, o.UsedCPU), name)
					}
				default:
					c.Violation("outcome", "bounded "+fmt.Sprintf("string.%s %s %s", opNames[op], q(pa.p), o.Kind), name+": "+o.String()+"\n"+o.Stack, name)
				}
				c.NonTrivial(vp.Hash("bounded", name))
				if c.WantSample() && o.Kind == gl.Killed {
					c.Sample(map[string]interface{}{"call": name, "outcome": o.Kind, "process_cpu_s": spent.Seconds(), "bound_s": bound.Seconds()})
				}
				if o.Kind == gl.Killed {
					// a killed runtime context leaves the session usable; start afresh anyway
					sess.Close()
					sess = gl.NewSess(gl.Options{})
					clos, _ = sess.Compile("c15cpu", cpuDriver)
					fn = rt.FunctionValue(clos)
				}
			}
		}
	}
	// the same through the Go API: the budget is honoured
	for i, pa := range pathos {
		if !c.Mine(i) {
			continue
		}
		gp, err, _ := goNew(pa.p)
		if err != nil {
			continue
		}
		for _, budget := range []uint64{1000, 100000} {
			name := fmt.Sprintf("pattern.New(%s).MatchFromStart(%s, 0, %d)", q(pa.p), pa.subj, budget)
			c.Begin("budget "+name, name)
			w.begin("budget "+q(pa.p), name, time.Second+time.Duration(budget)*5*time.Microsecond)
			caps, used, pan := goFind(gp, pa.s, 0, true, budget)
			w.end()
			c.Eval(1)
			if pan != "" {
				c.Violation("panic", "budget "+q(pa.p), name+" panics: "+pan, name)
			}
			if len(caps) != 0 || used > budget+1 {
				c.Violation("mismatch", "budget "+q(pa.p), fmt.Sprintf("%s = %s, used %d", name, showCaps(caps), used), name)
			}
			c.Feature("go-api-budget-cases", 1)
		}
	}
}
