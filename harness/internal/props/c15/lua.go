package c15

import (
	"fmt"
	"regexp"
	"strings"

	rt "github.com/arnodel/golua/runtime"

	"verif/internal/gl"
	pm "verif/internal/patmodel"
	"verif/internal/vp"
)

// The Lua side of the monitor: three small drivers compiled once per session.
const driverSrc = `
local find, match, gmatch, gsub = string.find, string.match, string.gmatch, string.gsub
local pack, unpack = table.pack, table.unpack
local T = {
  {a="X", b=false, ["("]="<%1>", [")"]="", ab="AB", aa=7, [1]="one", [2]=2, [3]=false, ba="", [""]="E"},
  {},
}
local F = {
  {n=5, "<>", false, nil, "%0", 12},
  {n=1, nil},
  {n=2, "", "xyz"},
}
function FM(s, p, lo, hi, def)
  if def then emit(pcall(find, s, p)) emit(pcall(match, s, p)) end
  for i = lo, hi do emit(pcall(find, s, p, i)) emit(pcall(match, s, p, i)) end
end
function FM1(s, p, init)
  emit(pcall(find, s, p, init)) emit(pcall(match, s, p, init))
end
function GM(s, p, init)
  local ok, it
  if init == nil then ok, it = pcall(gmatch, s, p) else ok, it = pcall(gmatch, s, p, init) end
  if not ok then emit(false) return end
  for k = 1, 400 do
    local r = pack(pcall(it))
    if not r[1] then emit(false) return end
    if r.n < 2 or r[2] == nil then emit(true) return end
    emit(unpack(r, 2, r.n))
  end
  emit(0.5)
end
function GS(s, p, kind, ri, n)
  local repl
  if kind == 1 then repl = ri
  elseif kind == 2 then repl = T[ri]
  else
    local resp, calls = F[ri], 0
    repl = function(...)
      emit(...)
      calls = calls + 1
      return resp[(calls - 1) % resp.n + 1]
    end
  end
  if n == nil then emit(pcall(gsub, s, p, repl)) else emit(pcall(gsub, s, p, repl, n)) end
end
`

var replTables = []map[string]pm.Val{
	{"s:a": pm.Str("X"), "s:b": {K: 'f'}, "s:(": pm.Str("<%1>"), "s:)": pm.Str(""), "s:ab": pm.Str("AB"), "s:aa": pm.Int(7),
		"i:1": pm.Str("one"), "i:2": pm.Int(2), "i:3": {K: 'f'}, "s:ba": pm.Str(""), "s:": pm.Str("E")},
	{},
}

var replFuncs = [][]pm.Val{
	{pm.Str("<>"), {K: 'f'}, pm.Nil, pm.Str("%0"), pm.Int(12)},
	{pm.Nil},
	{pm.Str(""), pm.Str("xyz")},
}

// replacement strings; the last four use '%' in ways the manual leaves open
var replStrings = []string{"", "x", "%0", "%1", "[%0]", "%1%0", "%%", "%2-%1", "<%1|%2|%3>", "%9", "a%%b%0", "%", "x%", "%a", "%\n"}

func tableRepl(ti int) func(pm.Val) pm.Val {
	return func(k pm.Val) pm.Val {
		key := "s:" + k.S
		if k.K == 'i' {
			key = fmt.Sprintf("i:%d", k.I)
		}
		if v, ok := replTables[ti][key]; ok {
			return v
		}
		return pm.Nil
	}
}

// ---------------------------------------------------------------------------

type drv struct {
	c          *vp.Child
	sess       *gl.Sess
	fm, gm, gs rt.Value
	fm1        rt.Value
	calls      int
	seen       map[string]bool
	perKey     map[string]int
}

func newDrv(c *vp.Child) *drv {
	d := &drv{c: c, seen: map[string]bool{}, perKey: map[string]int{}}
	d.reset()
	return d
}

func (d *drv) close() {
	if d.sess != nil {
		d.sess.Close()
		d.sess = nil
	}
}

func (d *drv) reset() {
	d.close()
	d.sess = gl.NewSess(gl.Options{})
	d.sess.MaxTrace = 5000
	clos, out := d.sess.Compile("c15drv", driverSrc)
	if out == nil {
		out = d.sess.Call(rt.FunctionValue(clos), nil)
		if out.Kind == gl.OK {
			out = nil
		}
	}
	if out != nil {
		d.c.Violation("compile", "c15 driver chunk does not compile/run", out.String(), driverSrc)
		d.c.Flush(true)
		panic("driver chunk: " + out.String())
	}
	g := d.sess.R.GlobalEnv()
	d.fm, d.gm, d.gs = g.Get(rt.StringValue("FM")), g.Get(rt.StringValue("GM")), g.Get(rt.StringValue("GS"))
	d.fm1 = g.Get(rt.StringValue("FM1"))
}

func (d *drv) call(which byte, args ...rt.Value) *gl.Outcome {
	d.calls++
	if d.calls%50000 == 0 {
		d.reset()
	}
	f := map[byte]rt.Value{'f': d.fm, 'm': d.gm, 's': d.gs, '1': d.fm1}[which] // after a possible reset
	d.sess.Trace = d.sess.Trace[:0]
	d.sess.TraceV = d.sess.TraceV[:0]
	d.sess.Out.Reset()
	out := d.sess.Call(f, args)
	if out.Kind == gl.Panic || out.Kind == gl.Killed {
		// the runtime may be in an undefined state after a panic
		tr := append([]string(nil), out.Trace...)
		out.Trace = tr
		d.reset()
	}
	return out
}

// lcase is one Lua-level (or Go-level) case, in a form that can be re-run and
// minimised.
type lcase struct {
	op   string // "go", "fm", "gmatch", "gsub"
	p, s string
	// go: init0 0-based, fromStart selects MatchFromStart
	init0     int
	fromStart bool
	// fm: Lua init values lo..hi and/or the default; gmatch: init (hasInit)
	lo, hi  int64
	def     bool
	hasInit bool
	init    int64
	// gsub
	kind int // 1 string (rs), 2 table ri, 3 function ri
	ri   int
	rs   string
	hasN bool
	n    int64
}

func (lc lcase) String() string {
	switch lc.op {
	case "go":
		f := "Match"
		if lc.fromStart {
			f = "MatchFromStart"
		}
		return fmt.Sprintf("pattern.New(%s).%s(%s, %d)", q(lc.p), f, q(lc.s), lc.init0)
	case "fm":
		if lc.def && lc.lo > lc.hi {
			return fmt.Sprintf("string.find/match(%s, %s)", q(lc.s), q(lc.p))
		}
		return fmt.Sprintf("string.find/match(%s, %s, init=%d..%d default=%v)", q(lc.s), q(lc.p), lc.lo, lc.hi, lc.def)
	case "gmatch":
		if lc.hasInit {
			return fmt.Sprintf("string.gmatch(%s, %s, %d)", q(lc.s), q(lc.p), lc.init)
		}
		return fmt.Sprintf("string.gmatch(%s, %s)", q(lc.s), q(lc.p))
	}
	r := q(lc.rs)
	if lc.kind == 2 {
		r = fmt.Sprintf("T%d", lc.ri)
	} else if lc.kind == 3 {
		r = fmt.Sprintf("F%d", lc.ri)
	}
	if lc.hasN {
		return fmt.Sprintf("string.gsub(%s, %s, %s, %d)", q(lc.s), q(lc.p), r, lc.n)
	}
	return fmt.Sprintf("string.gsub(%s, %s, %s)", q(lc.s), q(lc.p), r)
}

// verdict of one case
type verdict struct {
	kind   string // "" = fine
	label  string // sub-class of the discrepancy (part of the signature)
	detail string
	lc     lcase // narrowed to the failing sub-case
	// what happened, for evidence
	matched bool
}

const modelSteps = 2000000

func sv(s string) rt.Value { return rt.StringValue(s) }
func iv(i int64) rt.Value  { return rt.IntValue(i) }
func optInt(has bool, i int64) rt.Value {
	if has {
		return rt.IntValue(i)
	}
	return rt.NilValue
}

func (d *drv) outcomeProblem(out *gl.Outcome, lc lcase) *verdict {
	if out.Kind == gl.Panic {
		return &verdict{kind: "panic", label: digitsRE.ReplaceAllString(firstLine(out.PanicMsg), "N"), detail: lc.String() + ": Go panic: " + out.PanicMsg + "\n" + out.Stack, lc: lc}
	}
	if out.Kind != gl.OK {
		return &verdict{kind: "outcome", label: out.Kind, detail: lc.String() + ": driver ended with " + out.String(), lc: lc}
	}
	if len(out.Reports) > 0 {
		return &verdict{kind: "hook", label: out.Reports[0], detail: lc.String() + ": " + strings.Join(out.Reports, "\n"), lc: lc}
	}
	return nil
}

var digitsRE = regexp.MustCompile(`[0-9]+`)

func firstLine(s string) string {
	if i := strings.IndexByte(s, '\n'); i >= 0 {
		s = s[:i]
	}
	if len(s) > 100 {
		s = s[:100]
	}
	return s
}

// run executes one case against golua and the model.
func (d *drv) run(lc lcase) verdict {
	pc := classify(lc.p)
	switch lc.op {
	case "go":
		return runGo(pc, lc)
	case "fm":
		return d.runFM(pc, lc)
	case "gmatch":
		return d.runGmatch(pc, lc)
	case "gsub":
		return d.runGsub(pc, lc)
	}
	panic("bad op " + lc.op)
}

func runGo(pc pclass, lc lcase) verdict {
	gp, err, pan := goNew(lc.p)
	if pan != "" {
		return verdict{kind: "panic", label: "pattern.New " + firstLine(pan), detail: lc.String() + ": pattern.New panics: " + pan, lc: lc}
	}
	if err != nil {
		if pc.errOK || pc.unspec {
			return verdict{}
		}
		return verdict{kind: "wellformed-rejected", label: "pattern.New", detail: fmt.Sprintf("pattern.New(%s) = error %q; the pattern is well formed", q(lc.p), err.Error()), lc: lc}
	}
	m := pm.NewMatcher(pc.mp, lc.s)
	m.MaxSteps = modelSteps
	var want pm.Result
	if lc.fromStart {
		want = m.Find(lc.init0)
	} else {
		want = m.FindUnanchored(lc.init0)
	}
	got, _, pan := goFind(gp, lc.s, lc.init0, lc.fromStart, 0)
	if pan != "" {
		return verdict{kind: "panic", label: "Match " + firstLine(pan), detail: lc.String() + " panics: " + pan, lc: lc}
	}
	if want.St == pm.TooLarge || pc.unspec {
		return verdict{}
	}
	if want.St == pm.Match && hasUnfinished(want) {
		want = pm.Result{St: pm.Error, Err: "unfinished capture"}
	}
	if sameGo(want, got) {
		return verdict{matched: want.St == pm.Match}
	}
	k := "mismatch"
	if pc.mp.Malformed != "" {
		k = "malformed-accepted"
	}
	return verdict{kind: k, label: "go", detail: fmt.Sprintf("%s = %s; the manual gives %s", lc.String(), showCaps(got), showRes(want)), lc: lc}
}

func (d *drv) runFM(pc pclass, lc lcase) verdict {
	var out *gl.Outcome
	if lc.lo == lc.hi && !lc.def {
		// a single init value (possibly at the ends of the integer range): no loop in the driver
		out = d.call('1', sv(lc.s), sv(lc.p), iv(lc.lo))
	} else {
		out = d.call('f', sv(lc.s), sv(lc.p), iv(lc.lo), iv(lc.hi), rt.BoolValue(lc.def))
	}
	if v := d.outcomeProblem(out, lc); v != nil {
		return *v
	}
	m := pm.NewMatcher(pc.mp, lc.s)
	m.MaxSteps = modelSteps
	type exp struct {
		def  bool
		init int64
	}
	var exps []exp
	if lc.def {
		exps = append(exps, exp{def: true, init: 1})
	}
	for i := lc.lo; i <= lc.hi; i++ {
		exps = append(exps, exp{init: i})
		if i == lc.hi {
			break // hi may be the largest integer
		}
	}
	if len(out.Trace) != 2*len(exps) {
		return verdict{kind: "shape", label: "fm", detail: fmt.Sprintf("%s: %d events, expected %d", lc.String(), len(out.Trace), 2*len(exps)), lc: lc}
	}
	var res verdict
	for i, e := range exps {
		r := m.Find(pm.InitPos(e.init, len(lc.s)))
		if r.St == pm.Match {
			res.matched = true
		}
		for j, want := range []string{encFind(lc.s, r), encMatch(lc.s, r)} {
			got := out.Trace[2*i+j]
			if k := judge(pc, want, got); k != "" {
				fn := []string{"find", "match"}[j]
				nlc := lc
				nlc.def, nlc.lo, nlc.hi = e.def, e.init, e.init
				call := fmt.Sprintf("string.%s(%s, %s, %d)", fn, q(lc.s), q(lc.p), e.init)
				if e.def {
					nlc.lo, nlc.hi = 1, 0
					call = fmt.Sprintf("string.%s(%s, %s)", fn, q(lc.s), q(lc.p))
				}
				w := want
				if pc.mp.Malformed != "" {
					w += " or an error (malformed pattern: " + pc.mp.Malformed + ")"
				}
				return verdict{kind: k, label: fn, detail: fmt.Sprintf("%s = %s; the manual gives %s", call, got, w), lc: nlc}
			}
		}
	}
	return res
}

func (d *drv) runGmatch(pc pclass, lc lcase) verdict {
	out := d.call('m', sv(lc.s), sv(lc.p), optInt(lc.hasInit, lc.init))
	if v := d.outcomeProblem(out, lc); v != nil {
		return *v
	}
	if pc.mp.Anchored || pc.unspec {
		return verdict{} // '^' in gmatch has no defined meaning
	}
	init0 := 0
	if lc.hasInit {
		init0 = pm.InitPos(lc.init, len(lc.s))
	}
	ms, _, st := pc.mp.Gmatch(lc.s, init0, modelSteps)
	if st == pm.TooLarge {
		return verdict{}
	}
	var want []string
	for _, r := range ms {
		vs, _ := r.Values(lc.s)
		want = append(want, encVals(vs))
	}
	if st == pm.Error {
		want = append(want, "b:false")
	} else {
		want = append(want, "b:true")
	}
	got := out.Trace
	gotErr := len(got) > 0 && got[len(got)-1] == "b:false"
	if gotErr && (pc.errOK || st == pm.Error) && len(got) <= len(want) && equalPrefix(got[:len(got)-1], want) {
		// an error, possibly earlier than the reference raises it
		if pc.errOK || len(got) == len(want) {
			return verdict{}
		}
	}
	if len(got) == len(want) && equalPrefix(got, want) {
		return verdict{matched: len(ms) > 0}
	}
	k := "mismatch"
	switch {
	case pc.mp.Malformed != "":
		k = "malformed-accepted"
	case gotErr:
		k = "wellformed-rejected"
	}
	return verdict{kind: k, label: "gmatch", detail: fmt.Sprintf("%s yields %s; the manual gives %s", lc.String(), strings.Join(got, " ; "), strings.Join(want, " ; ")), lc: lc}
}

func equalPrefix(a, b []string) bool {
	if len(a) > len(b) {
		return false
	}
	for i := range a {
		if a[i] != b[i] {
			return false
		}
	}
	return true
}

func (d *drv) runGsub(pc pclass, lc lcase) verdict {
	var rarg rt.Value
	switch lc.kind {
	case 1:
		rarg = sv(lc.rs)
	default:
		rarg = iv(int64(lc.ri + 1))
	}
	out := d.call('s', sv(lc.s), sv(lc.p), iv(int64(lc.kind)), rarg, optInt(lc.hasN, lc.n))
	if v := d.outcomeProblem(out, lc); v != nil {
		return *v
	}
	if pc.unspec || (lc.hasN && lc.n < 0) {
		return verdict{}
	}
	model := func(countRejected bool) (pm.GsubResult, []string) {
		var calls []string
		repl := pm.Repl{CountRejected: countRejected}
		switch lc.kind {
		case 1:
			repl.IsStr, repl.Str = true, lc.rs
		case 2:
			repl.Table = tableRepl(lc.ri)
		case 3:
			n := 0
			repl.Func = func(args []pm.Val) pm.Val {
				calls = append(calls, encVals(args))
				v := replFuncs[lc.ri][n%len(replFuncs[lc.ri])]
				n++
				return v
			}
		}
		maxN := -1
		if lc.hasN {
			maxN = int(lc.n)
		}
		return pc.mp.Gsub(lc.s, repl, maxN, modelSteps), calls
	}
	enc := func(g pm.GsubResult) string {
		if g.St == pm.Error {
			return encErr
		}
		return "b:true," + pm.Str(g.Out).Enc() + "," + pm.Int(int64(g.N)).Enc()
	}
	g, calls := model(false)
	if g.St == pm.TooLarge || g.Unspec != "" {
		return verdict{}
	}
	if len(out.Trace) == 0 {
		return verdict{kind: "shape", label: "gsub", detail: lc.String() + ": no event", lc: lc}
	}
	got := out.Trace[len(out.Trace)-1]
	gotCalls := out.Trace[:len(out.Trace)-1]
	want := enc(g)
	k := judge(pc, want, got)
	detail := fmt.Sprintf("%s = %s; the manual gives %s", lc.String(), got, want)
	if k == "" && !isErrEnc(got) && want != encErr {
		if len(gotCalls) != len(calls) || !equalPrefix(gotCalls, calls) {
			k = "mismatch"
			detail = fmt.Sprintf("%s calls the replacement function with %s; the manual gives %s", lc.String(), strings.Join(gotCalls, " ; "), strings.Join(calls, " ; "))
		}
	}
	if k == "" {
		return verdict{matched: g.N > 0}
	}
	label := "gsub"
	if k == "mismatch" || k == "wellformed-rejected" {
		// recognise known ways of being wrong (the label is part of the signature)
		g2, calls2 := model(true)
		switch {
		case g2.St == pm.Match && enc(g2) == got && len(gotCalls) == len(calls2) && equalPrefix(gotCalls, calls2):
			// every rejected empty match (one that ends where the previous
			// match ended) is counted as a match
			label = "gsub[rejected-empty-match-counted]"
		case pc.mp.Anchored:
			label = "gsub[anchored]"
		case g.St == pm.Match && g.Out == "" && strings.HasPrefix(got, "b:true,"+pm.Str(lc.s).Enc()+","):
			label = "gsub[empty-result]"
		}
	}
	return verdict{kind: k, label: label, detail: detail, lc: lc}
}

// ---------------------------------------------------------------------------
// minimisation and reporting

// minimise shrinks the pattern and the subject of a failing case while the
// same kind and label of violation persists.  Pattern windows and subject
// bytes are also dropped together, since a shorter pattern usually needs a
// shorter subject to fail in the same way.
func (d *drv) minimise(v verdict) verdict {
	best := v
	runs := 0
	same := func(lc lcase) bool {
		if runs > 1500 {
			return false
		}
		runs++
		nv := d.run(lc)
		if nv.kind == best.kind && nv.label == best.label {
			best = nv
			return true
		}
		return false
	}
	// each visits the smaller cases derived from lc until try returns true
	each := func(lc lcase, try func(lcase) bool) bool {
		if lc.op == "gsub" && (lc.kind != 1 || lc.rs != "x") {
			n := lc
			n.kind, n.rs = 1, "x"
			if try(n) {
				return true
			}
		}
		if lc.op == "gsub" && (lc.kind != 1 || lc.rs != "") {
			n := lc
			n.kind, n.rs = 1, ""
			if try(n) {
				return true
			}
		}
		if lc.op == "gsub" && lc.hasN {
			n := lc
			n.hasN = false
			if try(n) {
				return true
			}
		}
		if lc.op == "gmatch" && lc.hasInit {
			n := lc
			n.hasInit = false
			if try(n) {
				return true
			}
		}
		if lc.op == "go" && lc.init0 > 0 {
			n := lc
			n.init0 = 0
			if try(n) {
				return true
			}
		}
		for w := 5; w >= 1; w-- {
			for i := 0; i+w <= len(lc.p); i++ {
				n := lc
				n.p = lc.p[:i] + lc.p[i+w:]
				if try(n) {
					return true
				}
				for j := 0; j < len(lc.s); j++ {
					n.s = lc.s[:j] + lc.s[j+1:]
					if try(n) {
						return true
					}
				}
			}
		}
		for j := 0; j < len(lc.s); j++ {
			n := lc
			n.s = lc.s[:j] + lc.s[j+1:]
			if try(n) {
				return true
			}
		}
		for j := 0; j < len(lc.s); j++ {
			if lc.s[j] != 'a' {
				n := lc
				n.s = lc.s[:j] + "a" + lc.s[j+1:]
				if try(n) {
					return true
				}
			}
		}
		// simpler spellings of the same class
		for _, rw := range [][2]string{{"[a-b]", "a"}, {"[ab]", "a"}, {"[^a]", "b"}, {"%a", "a"}, {"%A", "("}, {"[a]", "a"}, {"[b]", "b"}, {".", "a"}, {"b", "a"}} {
			if i := strings.Index(lc.p, rw[0]); i >= 0 {
				n := lc
				n.p = lc.p[:i] + rw[1] + lc.p[i+len(rw[0]):]
				if try(n) {
					return true
				}
				if strings.IndexByte(lc.s, 'b') >= 0 {
					n.s = strings.ReplaceAll(lc.s, "b", "a")
					if try(n) {
						return true
					}
				}
			}
		}
		return false
	}
	for runs <= 1500 && each(best.lc, same) {
	}
	return best
}

// report records a violation once per (kind,label,minimised case) and child.
func (d *drv) report(v verdict) {
	if v.kind == "" {
		return
	}
	key := v.kind + "|" + v.label
	d.c.Feature("violation:"+key, 1)
	// keep the cost of minimising bounded when one defect fires very often
	if n := d.c.NViolations(); n >= 40 || d.perKey[key] >= 2 {
		return
	}
	pre := key + "|" + v.lc.String()
	if d.seen[pre] {
		return
	}
	d.seen[pre] = true
	mv := d.minimise(v)
	sig := mv.label + " " + mv.lc.String()
	if d.seen["sig:"+mv.kind+sig] {
		return
	}
	d.seen["sig:"+mv.kind+sig] = true
	d.perKey[key]++
	d.c.Violation(mv.kind, sig, mv.detail+"\n(minimised from "+v.lc.String()+")", mv.lc.JSON())
}
