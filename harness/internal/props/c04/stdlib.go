package c04

import (
	"fmt"
	"regexp"
	"runtime/debug"
	"sort"
	"strconv"
	"strings"

	rt "github.com/arnodel/golua/runtime"

	"verif/internal/gl"
	"verif/internal/vp"
)

// ---------------------------------------------------------------------------
// stage "stdlib": every reachable library function x edge-value tuples

// prelude defines the constructors of the stateful pool values.  It lives in
// the global C04 (skipped by the enumeration) so that a witness "return
// f(args)" can be replayed as a chunk.
const prelude = `
local C = {}
C.big = string.rep("x", 10240)
function C.errt()
  local e = function() error("metamethod raised", 0) end
  return setmetatable({}, {__index = e, __newindex = e, __call = e, __add = e, __sub = e, __mul = e, __div = e, __mod = e, __pow = e,
    __unm = e, __idiv = e, __band = e, __bor = e, __bxor = e, __shl = e, __shr = e, __bnot = e, __concat = e, __len = e, __eq = e,
    __lt = e, __le = e, __tostring = e, __close = e, __pairs = e, __gc = e, __name = e})
end
function C.fn() return function(...) return ... end end
function C.deadco() local co = coroutine.create(function() end) coroutine.resume(co) return co end
function C.suspco()
  local co = coroutine.create(function(...) local a = ... while true do a = coroutine.yield(a) end end)
  coroutine.resume(co, 1)
  return co
end
function C.newco() return coroutine.create(function(...) return ... end) end
function C.file() return io.open("c04-scratch.txt", "w+") end
function C.ctx() return runtime.context() end
function C.res() return runtime.context().kill end
function C.dump() return string.dump(function(a, b) return a, b end) end
return C
`

type poolEntry struct {
	expr  string // Lua expression denoting the value
	fresh bool   // stateful: evaluated anew for every call
	core  bool   // member of the core edge pool (exhaustive pairs in the quick tier)
}

// The core pool is the edge-value list of the design; the extended pool adds
// strings that are meaningful to some library function (formats, patterns,
// pack formats, option names, chunks) and more object kinds.  Core values
// come first.
var pool = func() []poolEntry {
	var p []poolEntry
	add := func(core, fresh bool, exprs ...string) {
		for _, e := range exprs {
			p = append(p, poolEntry{expr: e, fresh: fresh, core: core})
		}
	}
	add(true, false, "nil", "true", "false", "-1", "0", "1", "255", "256", "2147483648", "2147483647", "0x10FFFF", "0x200000", "0x4000000", "65536", "math.maxinteger", "math.mininteger",
		"2^53", "0.5", "-0.5", "(0/0)", "math.huge", "-math.huge",
		`""`, `"a"`, `"%"`, `"%b"`, `"["`, `"(()"`, "C04.big", `"10"`, `"0x10"`, `"1e1"`, "io.stdout")
	add(true, true, "{}", "{1,2,3}", "C04.errt()", "C04.fn()", "C04.deadco()", "C04.suspco()", "C04.file()", "C04.ctx()")
	add(false, false, "2", "3", "4", "5", "6", "-2", "-3", "-4", "-5", "127", "128", "0x7FF", "0x800", "0xFFFF", "0x110000", "0x1FFFFF", "0x3FFFFFF", "-0.0", "1e308", `" 7 "`, `"-"`, `"\0"`, `"\xe4\xb8\xad\xff"`,
		`"%d"`, `"%s%s"`, `"%5.2f"`, `"%q"`, `"%c"`, `"%99d"`, `"%.99f"`, `"%a*"`, `"^(a*)*$"`, `"%f[%w]"`, `"%1"`,
		`"i4"`, `"z"`, `"s1"`, `"!"`, `"i17"`, `"<I16"`, `"Xi4"`, `"c0"`, `"d"`,
		`"r"`, `"w"`, `"n"`, `"l"`, `"*a"`, `"set"`, `"end"`, `"no"`, `"full"`, `"k"`, `"kv"`, `"count"`, `"step"`, `"*t"`, `"!%c"`, `"%Ez"`, `"Sl"`, `"crl"`, `"t"`, `"bt"`,
		`"cpu"`, `"kill"`, `"killnow"`, `"string"`, `"x.y"`, `"?;./?.lua"`, `"return 1"`, `"true"`, `"exit 3"`, `"echo hi"`,
		"print", "string.rep", "coroutine.yield")
	add(false, true, "{n=3}", "{year=2020,month=1,day=1}", "{year=math.maxinteger,month=math.mininteger,day=0.5}", "{kill={cpu=1000}}", "{{},{}}",
		"C04.newco()", "C04.res()", "C04.dump()")
	return p
}()

func corePoolSize() int {
	n := 0
	for _, e := range pool {
		if e.core {
			n++
		}
	}
	return n
}

// subset used for the calls of returned functions (iterators, wrapped coroutines, loaded chunks)
var derivedPool = []string{"nil", "0", "1", "math.maxinteger", `""`, `"a"`, "{}", "C04.errt()", "C04.fn()"}

var skipGlobals = map[string]bool{"C04": true, "emit": true, "SRC": true}

type fnEntry struct {
	expr string
	v    rt.Value
}

// libSess is a session prepared for the stdlib stage.
type libSess struct {
	s      *gl.Sess
	fns    map[string]rt.Value  // by expression
	known  map[interface{}]bool // identities of the enumerated functions
	consts map[string]rt.Value  // cached non-fresh pool values
	chunks map[string]rt.Value  // compiled "return <expr>" closures
	calls  int
	dirty  bool // a state-changing function was called: renew before the next function
	broken bool // the pool constructors no longer work: renew now
}

func evalValues(s *gl.Sess, f rt.Value) (vals []rt.Value, err error) {
	defer func() {
		if p := recover(); p != nil {
			err = fmt.Errorf("panic: %v", p)
		}
	}()
	term := rt.NewTerminationWith(nil, 0, true)
	if e := rt.Call(s.R.MainThread(), f, nil, term); e != nil {
		return nil, e
	}
	return term.Etc(), nil
}

func evalSrc(s *gl.Sess, src string) ([]rt.Value, error) {
	clos, res := compile(s, "c04", src)
	if clos == nil {
		return nil, fmt.Errorf("%s: %s%s", res.kind, res.errMsg, res.panicMsg)
	}
	return evalValues(s, rt.FunctionValue(clos))
}

func installPrelude(x *exec, s *gl.Sess) bool {
	vals, err := evalSrc(s, prelude)
	if err != nil || len(vals) != 1 {
		x.c.Violation("harness", "prelude", fmt.Sprintf("the C04 prelude does not run: %v", err), prelude)
		return false
	}
	s.SetGlobal("C04", vals[0])
	return true
}

var identRE = regexp.MustCompile(`^[A-Za-z_][A-Za-z0-9_]*$`)

func access(base, key string) string {
	if identRE.MatchString(key) {
		if base == "" {
			return key
		}
		return base + "." + key
	}
	if base == "" {
		base = "_G"
	}
	return base + "[" + strconv.Quote(key) + "]"
}

// enumerate walks the tables reachable from the roots and lists every
// callable value with an expression denoting it (shortest expression per
// function identity).
func enumerate(s *gl.Sess) ([]fnEntry, error) {
	rootExprs := []string{"_G", `getmetatable("")`, "getmetatable(io.stdout)", "getmetatable(runtime.context())", "getmetatable(runtime.context().kill)"}
	roots, err := evalSrc(s, "return "+strings.Join(rootExprs, ", "))
	if err != nil {
		return nil, err
	}
	best := map[interface{}]fnEntry{}
	onPath := map[*rt.Table]bool{}
	add := func(expr string, v rt.Value) {
		c, ok := v.TryCallable()
		if !ok {
			return
		}
		if old, ok := best[c]; !ok || len(expr) < len(old.expr) || len(expr) == len(old.expr) && expr < old.expr {
			best[c] = fnEntry{expr: expr, v: v}
		}
	}
	var walk func(expr string, t *rt.Table, depth int)
	walk = func(expr string, t *rt.Table, depth int) {
		if t == nil || onPath[t] || depth > 4 {
			return
		}
		onPath[t] = true
		defer delete(onPath, t)
		type kv struct {
			k string
			v rt.Value
		}
		var items []kv
		k := rt.NilValue
		for {
			nk, nv, ok := t.Next(k)
			if !ok || nk.IsNil() {
				break
			}
			k = nk
			ks, isStr := nk.TryString()
			if !isStr {
				continue
			}
			items = append(items, kv{ks, nv})
		}
		sort.Slice(items, func(i, j int) bool { return items[i].k < items[j].k })
		for _, it := range items {
			if expr == "_G" && skipGlobals[it.k] {
				continue
			}
			base := expr
			if base == "_G" {
				base = ""
			}
			e := access(base, it.k)
			if _, ok := it.v.TryCallable(); ok {
				add(e, it.v)
			} else if tt, ok := it.v.TryTable(); ok {
				walk(e, tt, depth+1)
				if mt := tt.Metatable(); mt != nil {
					walk("getmetatable("+e+")", mt, depth+1)
				}
			} else if u, ok := it.v.TryUserData(); ok && u.Metatable() != nil {
				walk("getmetatable("+e+")", u.Metatable(), depth+1)
			}
		}
	}
	for i, r := range roots {
		if t, ok := r.TryTable(); ok {
			walk(rootExprs[i], t, 0)
		}
	}
	// functions only reachable through a __index function: probe the documented keys
	probes, err := evalSrc(s, "local c = runtime.context() return c.killnow, c.stopnow")
	if err == nil {
		for i, e := range []string{"runtime.context().killnow", "runtime.context().stopnow"} {
			if i < len(probes) {
				add(e, probes[i])
			}
		}
	}
	var out []fnEntry
	for _, f := range best {
		out = append(out, f)
	}
	sort.Slice(out, func(i, j int) bool { return out[i].expr < out[j].expr })
	return out, nil
}

func (x *exec) newLibSess() *libSess {
	s := x.newSess(true)
	sandbox(s)
	if !installPrelude(x, s) {
		return nil
	}
	fns, err := enumerate(s)
	if err != nil {
		x.c.Violation("harness", "enumerate", fmt.Sprintf("cannot enumerate the library: %v", err), "")
		return nil
	}
	ls := &libSess{s: s, fns: map[string]rt.Value{}, known: map[interface{}]bool{}, consts: map[string]rt.Value{}, chunks: map[string]rt.Value{}}
	for _, f := range fns {
		ls.fns[f.expr] = f.v
		c, _ := f.v.TryCallable()
		ls.known[c] = true
	}
	return ls
}

// value evaluates a pool expression in the session.
func (ls *libSess) value(expr string, fresh bool) (rt.Value, error) {
	if !fresh {
		if v, ok := ls.consts[expr]; ok {
			return v, nil
		}
	}
	ch, ok := ls.chunks[expr]
	if !ok {
		clos, res := compile(ls.s, "pool", "return "+expr)
		if clos == nil {
			return rt.NilValue, fmt.Errorf("pool expression %s: %s %s", expr, res.kind, res.errMsg)
		}
		ch = rt.FunctionValue(clos)
		ls.chunks[expr] = ch
	}
	vals, err := evalValues(ls.s, ch)
	if err != nil {
		return rt.NilValue, fmt.Errorf("pool expression %s: %v", expr, err)
	}
	v := rt.NilValue
	if len(vals) > 0 {
		v = vals[0]
	}
	if !fresh {
		ls.consts[expr] = v
	}
	return v, nil
}

var argCheckRE = regexp.MustCompile(`#\d+ |value needed|bad argument|missing argument|arguments? needed`)

// functions after whose calls the session is discarded (they change state
// shared by later calls)
var dirtyRE = regexp.MustCompile(`setmetatable|sethook|io\.output|io\.input|setupvalue|upvaluejoin|setlocale|randomseed|require|package\.|collectgarbage|rawset|\.close`)

type libRunner struct {
	x      *exec
	ls     *libSess
	lastFn string
}

func (lr *libRunner) renew() bool {
	if lr.ls != nil {
		lr.x.closeSess(lr.ls.s)
	}
	lr.ls = lr.x.newLibSess()
	debug.SetGCPercent(100)
	return lr.ls != nil
}

// call performs one library call.  argIdx indexes pool.
func (lr *libRunner) call(fnExpr string, argIdx []int) {
	x, c := lr.x, lr.x.c
	if lr.ls == nil || lr.ls.calls >= 1500 || lr.ls.broken || lr.ls.dirty && fnExpr != lr.lastFn {
		if !lr.renew() {
			return
		}
	}
	lr.lastFn = fnExpr
	ls := lr.ls
	f, ok := ls.fns[fnExpr]
	if !ok {
		c.Feature("function-missing-after-renew", 1)
		return
	}
	exprs := make([]string, len(argIdx))
	for i, a := range argIdx {
		exprs[i] = pool[a].expr
	}
	src := "return " + fnExpr + "(" + strings.Join(exprs, ", ") + ")"
	x.begin("call "+fnExpr+" /"+strconv.Itoa(len(argIdx)), src)
	c.Eval(1)
	args := make([]rt.Value, len(argIdx))
	for i, a := range argIdx {
		v, err := ls.value(pool[a].expr, pool[a].fresh)
		if err != nil {
			c.Feature("pool-value-failed", 1)
			ls.broken = true
			return
		}
		args[i] = v
	}
	ls.calls++
	ls.s.Out.Reset()
	ls.s.Trace = nil
	res := x.callValue(ls.s, f, args, runLimits)
	lr.judge(fnExpr, src, res)
	if res.kind == kPanic || res.kind == kHang {
		lr.ls = nil // never reuse a runtime a panic went through
		if res.kind == kPanic {
			x.closeSess(ls.s)
		}
		return
	}
	if strings.Contains(fnExpr, "sethook") {
		ls.s.R.MainThread().SetupHooks(rt.DebugHooks{})
	}
	if dirtyRE.MatchString(fnExpr) {
		ls.dirty = true
	}
	if res.kind == kOK {
		lr.derived(src, ls, res.vals)
	}
}

func (lr *libRunner) judge(fnExpr, src string, res result) {
	x, c := lr.x, lr.x.c
	c.Feature("outcome/"+res.kind, 1)
	switch res.kind {
	case kPanic:
		c.Violation("panic", "stdlib "+fnExpr+" "+panicSig(res.panicMsg, res.stack),
			fmt.Sprintf("%s: a Go panic escaped the call: %s\n%s", src, res.panicMsg, res.stack), src)
		return
	case kHang:
		c.Feature("hang/"+src, 1)
		return
	case kError:
		if argCheckRE.MatchString(res.errMsg) {
			c.Feature("rejected-by-argument-check", 1)
			return
		}
	}
	c.NonTrivial(vp.Hash("stdlib", src))
	if x.wantSample() && res.kind == kOK && len(src) < 120 && strings.Count(src, ",") >= 1 {
		x.sample(map[string]interface{}{"stage": "stdlib", "call": src, "outcome": res.kind, "results": abbreviate(res.rets)})
	}
}

// derived calls the functions returned by the last call (iterators, wrapped
// coroutines, loaded chunks, context methods) with a few argument tuples.
func (lr *libRunner) derived(src string, ls *libSess, vals []rt.Value) {
	x, c := lr.x, lr.x.c
	n := 0
	for i, v := range vals {
		cb, ok := v.TryCallable()
		if !ok || ls.known[cb] {
			continue
		}
		if n++; n > 2 {
			break
		}
		base := "(select(" + strconv.Itoa(i+1) + ", " + strings.TrimPrefix(src, "return ") + "))"
		tuples := [][]string{{}}
		for _, a := range derivedPool {
			tuples = append(tuples, []string{a})
		}
		tuples = append(tuples, []string{`"a"`, "1"}, []string{"{}", "nil"}, []string{"C04.errt()", "0"})
		for _, tup := range tuples {
			args := make([]rt.Value, len(tup))
			bad := false
			for j, e := range tup {
				av, err := ls.value(e, strings.Contains(e, "(") || strings.HasPrefix(e, "{"))
				if err != nil {
					bad = true
					break
				}
				args[j] = av
			}
			if bad {
				continue
			}
			dsrc := "return " + base + "(" + strings.Join(tup, ", ") + ")"
			x.begin("call derived /"+strconv.Itoa(len(tup)), dsrc)
			c.Eval(1)
			res := x.callValue(ls.s, v, args, runLimits)
			c.Feature("derived/"+res.kind, 1)
			if res.kind == kPanic {
				c.Violation("panic", "stdlib function returned by "+firstCall(src)+" "+panicSig(res.panicMsg, res.stack),
					fmt.Sprintf("%s: a Go panic escaped the call: %s\n%s", dsrc, res.panicMsg, res.stack), dsrc)
				lr.ls = nil
				x.closeSess(ls.s)
				return
			}
			if res.kind == kHang {
				c.Feature("hang/"+dsrc, 1)
				lr.ls = nil
				return
			}
			if !(res.kind == kError && argCheckRE.MatchString(res.errMsg)) {
				c.NonTrivial(vp.Hash("stdlib", dsrc))
			}
		}
	}
}

func firstCall(src string) string {
	s := strings.TrimPrefix(src, "return ")
	if i := strings.IndexByte(s, '('); i > 0 {
		return s[:i]
	}
	return s
}

func runStdlib(x *exec) {
	c := x.c
	lr := &libRunner{x: x}
	if !lr.renew() {
		return
	}
	var fnList []string
	for e := range lr.ls.fns {
		fnList = append(fnList, e)
	}
	sort.Strings(fnList)
	if c.Batch == 0 {
		c.Feature("functions-enumerated", int64(len(fnList)))
		c.Feature("pool-size", int64(len(pool)))
		c.Output("functions", strings.Join(fnList, " "))
	}
	P := len(pool)
	// exhaustive arity <= 2: over the whole pool in the thorough tier, over the
	// core pool (the design's edge list) in the quick tier, whose pairs with an
	// extended value are sampled below; the quick tier's sanitizer slice takes
	// every 10th call
	P2 := P
	if c.Tier == vp.Quick || x.variant != "plain" {
		// (the sanitizer builds are ~5-10x slower: they take the core pool and
		// a quarter of the samples in the thorough tier)
		P2 = corePoolSize()
	}
	if c.Batch == 0 {
		c.Feature("pool-size-for-exhaustive-pairs", int64(P2))
	}
	stride := 1
	if x.variant != "plain" && c.Tier == vp.Quick {
		stride = 10
	}
	k := 0
	for _, fn := range fnList {
		run := func(args []int) {
			k++
			if !c.Mine(k / 16) { // blocks of 16 consecutive calls per batch keep sessions warm
				return
			}
			if stride > 1 && (k+int(c.Seed))%stride != 0 {
				return
			}
			lr.call(fn, args)
		}
		run(nil)
		for a := 0; a < P; a++ {
			run([]int{a})
		}
		for a := 0; a < P2; a++ {
			for b := 0; b < P2; b++ {
				run([]int{a, b})
			}
		}
		c.Flush(false)
	}
	if c.Batch == 0 {
		c.Feature("exhaustive-arity<=2-calls-enumerated", int64(k))
	}
	// positions: every string / utf8 / table function with a short subject and every pair of
	// small positions around its ends (0, +-1 ... +-(len+2)): the off-by-one corners of
	// (subject, i, j) and (subject, n, i) argument forms
	{
		idxOf := func(expr string) int {
			for i, e := range pool {
				if e.expr == expr {
					return i
				}
			}
			return -1
		}
		var subjects, positions []int
		for _, e := range []string{`""`, `"a"`, `"(()"`, `"\xe4\xb8\xad\xff"`, "{1,2,3}"} {
			if i := idxOf(e); i >= 0 {
				subjects = append(subjects, i)
			}
		}
		for _, e := range []string{"-5", "-4", "-3", "-2", "-1", "0", "1", "2", "3", "4", "5", "6", "math.maxinteger", "math.mininteger"} {
			if i := idxOf(e); i >= 0 {
				positions = append(positions, i)
			}
		}
		k := 0
		for _, fn := range fnList {
			if !strings.HasPrefix(fn, "string.") && !strings.HasPrefix(fn, "utf8.") && !strings.HasPrefix(fn, "table.") {
				continue
			}
			for _, sj := range subjects {
				for _, p1 := range positions {
					for _, p2 := range positions {
						k++
						if !c.Mine(k) || x.slice(10) < 10 && k%10 != 0 {
							continue
						}
						lr.call(fn, []int{sj, p1, p2})
					}
				}
			}
		}
		c.Feature("position-corner-calls-enumerated", int64(k))
	}
	// sampled arity 3-4
	r := c.Rand("stdlib-sampled")
	n := x.slice(c.Pick(100000, 2000000)) / c.NB
	if x.variant != "plain" && c.Tier == vp.Thorough {
		n /= 4
	}
	for i := 0; i < n; i++ {
		fn := fnList[r.Intn(len(fnList))]
		ar := 3 + r.Intn(2)
		if P2 < P && i%2 == 0 {
			ar = 2 // pairs over the extended pool are sampled where they are not enumerated
		}
		args := make([]int, ar)
		for j := range args {
			args[j] = r.Intn(P)
		}
		lr.call(fn, args)
		if i%2000 == 1999 {
			c.Flush(false)
		}
	}
	if lr.ls != nil {
		x.closeSess(lr.ls.s)
	}
}
